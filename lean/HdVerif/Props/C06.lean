import HdVerif.Proofs.PixelFlags
import HdVerif.Proofs.PixelPipeline
import HdVerif.Proofs.PixelTie
import HdVerif.Generated.T6g
import HdVerif.Generated.T6i
import HdVerif.Generated.T6p
import HdVerif.Generated.T6q
import HdVerif.Generated.T6r
import HdVerif.Generated.T6s
import Mathlib.Tactic.Ring
import Mathlib.Tactic.Linarith
/-! # C06  Pixel transforms follow the DICOM pipeline and the tri-state flags

Property theorems only.  Definitions under `HdVerif.Gen` are regenerated from /repo's current source on
every run (`cptFlags`, `foldWindow`, `foldInvert`, `foldVoiLut`, `voiWindowLinear`, `voiSigmoidArg`,
`applyLutIndex`); `Model/PixelPipeline.lean` composes them into what `_CombinedPixelTransform` builds and
applies (`stageOutcome`, `folded`) and states the standard's pipeline (`specOutcome`, `ref`). -/
namespace HdVerif.C06
open HdVerif HdVerif.Gen HdVerif.PixelPipeline HdVerif.PixelFlags HdVerif.PixelPipelineLemmas

/-! ## Clause: the tri-state flags -/

/-- **The flag table.**  For every flag tuple (3^5 x 2), colour type and presence pattern (46 656 cells) the
stages `_CombinedPixelTransform.__init__` ends up with - or its refusal - are those of the specification
table "True = applied or refused, False = never, None = iff present; real-world map over modality". -/
theorem flags_table (fl : Flags) (ct : CType) (p : Present) :
    toOpt (stageOutcome fl ct p) = specOutcome fl ct p := by
  obtain ⟨rw, mod, voi, pal, icc, pres⟩ := fl
  obtain ⟨a, b, c, d, e⟩ := p
  exact flags_table_cells rw mod voi pal icc pres ct a b c d e

theorem stage_ok_spec {fl : Flags} {ct : CType} {p : Present} {st : Stages} (h : stageOutcome fl ct p = .ok st) :
    specOutcome fl ct p = some st := by
  rw [← flags_table, h]; rfl

/-- A stage flagged `True` is applied whenever a transform is built at all (i.e. applied, or an error). -/
theorem flag_true_applied_or_error (fl : Flags) (ct : CType) (p : Present) (st : Stages)
    (h : stageOutcome fl ct p = .ok st) : TrueApplied fl st := by
  obtain ⟨rw, mod, voi, pal, icc, pres⟩ := fl
  obtain ⟨a, b, c, d, e⟩ := p
  exact (spec_facts rw mod voi pal icc pres ct a b c d e st (stage_ok_spec h)).1

/-- A stage flagged `False` (or `apply_presentation_lut=False`) is never applied. -/
theorem flag_false_never (fl : Flags) (ct : CType) (p : Present) (st : Stages)
    (h : stageOutcome fl ct p = .ok st) : FalseNever fl st := by
  obtain ⟨rw, mod, voi, pal, icc, pres⟩ := fl
  obtain ⟨a, b, c, d, e⟩ := p
  exact (spec_facts rw mod voi pal icc pres ct a b c d e st (stage_ok_spec h)).2.1

/-- A stage flagged `None` is applied iff it is present (for its colour type, unless a real-world value map
supersedes it); no stage is applied that the datasets do not contain. -/
theorem flag_none_iff_present (fl : Flags) (ct : CType) (p : Present) (st : Stages)
    (h : stageOutcome fl ct p = .ok st) : NoneIffPresent fl ct p st ∧ OnlyPresent p st := by
  obtain ⟨rw, mod, voi, pal, icc, pres⟩ := fl
  obtain ⟨a, b, c, d, e⟩ := p
  have := spec_facts rw mod voi pal icc pres ct a b c d e st (stage_ok_spec h)
  exact ⟨this.2.2.2.1, this.2.2.1⟩

/-- The real-world value map is applied instead of (never together with) modality, VOI and presentation
stages; monochrome and colour stages exclude each other. -/
theorem rwvm_over_modality (fl : Flags) (ct : CType) (p : Present) (st : Stages)
    (h : stageOutcome fl ct p = .ok st) : Exclusive ct st := by
  obtain ⟨rw, mod, voi, pal, icc, pres⟩ := fl
  obtain ⟨a, b, c, d, e⟩ := p
  exact (spec_facts rw mod voi pal icc pres ct a b c d e st (stage_ok_spec h)).2.2.2.2

/-- The constructor refuses exactly when the flags contradict each other (both real-world map and modality
demanded; VOI wanted while modality is off; ICC wanted while palette colour is off) or a stage flagged
`True` cannot be applied (absent, wrong colour type, or superseded by the real-world map). -/
theorem flag_refusal_iff (fl : Flags) (ct : CType) (p : Present) :
    (∃ e, stageOutcome fl ct p = .error e) ↔ SpecRefusal fl ct p := by
  obtain ⟨rw, mod, voi, pal, icc, pres⟩ := fl
  obtain ⟨a, b, c, d, e⟩ := p
  rw [← spec_refusal, ← flags_table_cells]
  cases stageOutcome ⟨rw, mod, voi, pal, icc, pres⟩ ct ⟨a, b, c, d, e⟩ <;> simp [toOpt]

/-! ## Clause: lookup tables map values below / above the table to the first / last entry -/

/-- `apply_lut` (clip on): a value below the table gives its first entry, a value above its last entry,
a value inside the entry at `x - first`; for every table, first mapped value (negative ones included) and
input. -/
theorem applyLut_clip {α} (a : α) (t : List α) (first x : Int) :
    applyLut (a :: t) first true x =
      if x < first then .ok a
      else if x > first + ((a :: t).length : Int) - 1 then .ok ((a :: t).getLast (by simp))
      else getIdx (a :: t) (x - first) := by
  rw [applyLut_eq_refLookup]; rfl

/-- ... and inside the table the entry exists (no refusal for any input when clipping is on). -/
theorem applyLut_clip_total {α} (a : α) (t : List α) (first x : Int) :
    ∃ v, applyLut (a :: t) first true x = .ok v ∧ v ∈ a :: t := by
  rw [applyLut_clip]
  split_ifs with h1 h2
  · exact ⟨a, rfl, by simp⟩
  · exact ⟨_, rfl, List.getLast_mem _⟩
  · have hl : ((a :: t).length : Int) = (t.length : Int) + 1 := by simp
    obtain ⟨k, hk⟩ : ∃ k : Nat, x - first = (k : Int) := ⟨(x - first).toNat, by omega⟩
    have hk' : k < (a :: t).length := by simp; omega
    rw [hk, getIdx_nat _ k hk']
    exact ⟨_, rfl, List.getElem_mem _⟩

/-- Without clipping (real-world value LUTs) values outside the table are refused, never mapped. -/
theorem applyLut_noclip_refuses {α} (table : List α) (first x : Int)
    (h : x < first ∨ x > first + (table.length : Int) - 1) : applyLut table first false x = .error .value :=
  applyLut_noclip_outside table first x h

/-! ## Clause: the folded transform equals the stages of the standard, in order

`ref p st s` evaluates the standard's stages on the stored value `s` (real-world value map, or else modality
rescale / LUT, then VOI window / LUT, then presentation inversion); `folded p st s` is what
`_CombinedPixelTransform` builds (one effective LUT, or slope / intercept, or window parameters) and applies.
`p` holds the parameters that apply to the frame, `st` the stages chosen by the flags. -/

/-- modality rescale alone -/
theorem fold_rescale (p : Params) (st : Stages) (m b : Rat) (s : Int)
    (hp : p.modality = .rescale m b) (h1 : st.rwvm = false) (h2 : st.modality = true) (h3 : st.voi = false)
    (h4 : st.invert = false) : folded p st s = ref p st s := by
  simp [folded, build, ref, refModality, applyEff, hp, h1, h2, h3, h4]
  ring

/-- modality LUT alone (values below / above the table included) -/
theorem fold_modlut (p : Params) (st : Stages) (mfirst : Int) (mdata : List Nat) (s : Int)
    (hp : p.modality = .lut mfirst mdata)
    (h1 : st.rwvm = false) (h2 : st.modality = true) (h3 : st.voi = false) (h4 : st.invert = false) :
    folded p st s = ref p st s := by
  simp only [folded, build, ref, refModality, applyEff, hp, h1, h2, h3, h4, Bool.false_eq_true, ↓reduceIte]
  rw [applyLut_map, applyLut_eq_refLookup]
  cases refLookup mdata mfirst s <;> rfl

/-- presentation inversion folded into the rescale: slope -m, intercept m (imin + imax) + b -/
theorem fold_invert_rescale (p : Params) (st : Stages) (m b : Rat) (s : Int)
    (hp : p.modality = .rescale m b) (h1 : st.rwvm = false) (h2 : st.modality = true) (h3 : st.voi = false)
    (h4 : st.invert = true) : folded p st s = ref p st s := by
  simp [folded, build, ref, refModality, rangeSum, applyEff, foldInvert, hp, h1, h2, h3, h4]
  ring

/-- presentation inversion of an image without modality transform -/
theorem fold_invert_identity (p : Params) (st : Stages) (s : Int)
    (h1 : st.rwvm = false) (h2 : st.modality = false) (h3 : st.voi = false)
    (h4 : st.invert = true) : folded p st s = ref p st s := by
  simp [folded, build, ref, refModality, rangeSum, applyEff, foldInvert, h1, h2, h3, h4]
  ring

/-- presentation inversion folded into a modality LUT (`min + max - entry`) -/
theorem fold_invert_modlut (p : Params) (st : Stages) (mfirst : Int) (a : Nat) (t : List Nat) (s : Int)
    (hp : p.modality = .lut mfirst (a :: t))
    (h1 : st.rwvm = false) (h2 : st.modality = true) (h3 : st.voi = false) (h4 : st.invert = true) :
    folded p st s = ref p st s := by
  simp only [folded, build, ref, refModality, rangeSum, invertedLut, listMin, listMax, applyEff, hp, h1, h2, h3, h4,
    Bool.false_eq_true, ↓reduceIte]
  rw [applyLut_map, applyLut_map, applyLut_eq_refLookup]
  cases refLookup (a :: t) mfirst s <;> rfl

/-- **LINEAR_EXACT window behind a rescale with any slope m != 0 (negative included), with or without
inversion**: the window shifted and scaled to stored values gives exactly the standard's three-piece
function of the rescaled value (C.11.2.1.3.2). -/
theorem fold_window_exact (p : Params) (st : Stages) (m b c w : Rat) (s : Int)
    (hp : p.modality = .rescale m b) (hv : p.voi = .window .exact c w)
    (hm : m ≠ 0) (hw : 0 < w) (hr : p.lo < p.hi)
    (h1 : st.rwvm = false) (h2 : st.modality = true) (h3 : st.voi = true) :
    folded p st s = ref p st s := by
  have hfn : ("LINEAR_EXACT" == "LINEAR") = false := by decide
  simp only [folded, build, ref, refModality, refVoi, applyEff, foldWindow, windowOut, WinFn.name, hp, hv, h1, h2, h3,
    hfn, Bool.false_eq_true, ↓reduceIte]
  rw [fold_exact_value c w b m p.lo p.hi s hm (ne_of_gt hw) "LINEAR_EXACT" hfn, window_exact c w p.lo p.hi _ hw hr]
  cases st.invert <;> simp [invertOut]

theorem fold_window_exact_unscaled (p : Params) (st : Stages) (c w : Rat) (s : Int)
    (hv : p.voi = .window .exact c w) (hw : 0 < w) (hr : p.lo < p.hi)
    (h1 : st.rwvm = false) (h2 : st.modality = false) (h3 : st.voi = true) :
    folded p st s = ref p st s := by
  have hfn : ("LINEAR_EXACT" == "LINEAR") = false := by decide
  simp only [folded, build, ref, refModality, refVoi, applyEff, foldWindow, windowOut, WinFn.name, hv, h1, h2, h3,
    hfn, Bool.false_eq_true, ↓reduceIte]
  rw [fold_exact_value c w 0 1 p.lo p.hi s one_ne_zero (ne_of_gt hw) "LINEAR_EXACT" hfn, window_exact c w p.lo p.hi _ hw hr]
  cases st.invert <;> simp [invertOut]

/- Full statement (PS3.3 C.11.2.1.2.1 allows every width >= 1, and a rescale slope may be negative):
     theorem fold_window_linear ... (hm : m ≠ 0) (hw : 1 ≤ w) ... : folded p st s = ref p st s
   Since the fix of C06-linear-width-one in /repo (`apply_voi_window` has the step at c - 1/2 as its own branch) the
   window function itself is right for every width >= 1 (`fold_window_linear_unscaled`, `fold_modlut_window_linear`: full
   statements).  Behind a rescale the statement still fails in ONE region: width exactly 1 with a NEGATIVE slope - the
   effective width (w - 1) / m + 1 is 1 again and the direction of the step is lost (open finding
   C06-linear-width-one-negative-slope, `counterexample_linear_width_one_negative_slope`).  Proved: everything else
   (`_partial` = exactly w = 1 and m < 0 is missing). -/
/-- **LINEAR window behind a rescale with any slope m != 0** (it held only for m = 1 before the fix babe92f in
/repo), every width >= 1 except width exactly 1 behind a negative slope: the effective centre / width computed by the
current source, ((c - 1/2 - b) / m + 1/2, (w - 1) / m + 1), reproduce C.11.2.1.2.1 on the rescaled value exactly. -/
theorem fold_window_linear_partial (p : Params) (st : Stages) (m b c w : Rat) (s : Int)
    (hp : p.modality = .rescale m b) (hv : p.voi = .window .linear c w)
    (hm : m ≠ 0) (hw : 1 ≤ w) (hunit : w = 1 → 0 < m) (hr : p.lo < p.hi)
    (h1 : st.rwvm = false) (h2 : st.modality = true) (h3 : st.voi = true) :
    folded p st s = ref p st s := by
  simp only [folded, build, ref, refModality, refVoi, applyEff, foldWindow, windowOut, WinFn.name, hp, hv, h1, h2, h3,
    beq_self_eq_true, Bool.false_eq_true, ↓reduceIte]
  rcases eq_or_lt_of_le hw with hw1 | hw1
  · subst hw1
    rw [fold_linear_value_unit c b m p.lo p.hi s (hunit rfl), window_linear c 1 p.lo p.hi _ (le_refl 1) hr]
    cases st.invert <;> simp [invertOut]
  · rw [fold_linear_value c w b m p.lo p.hi s hm (by linarith), window_linear c w p.lo p.hi _ hw hr]
    cases st.invert <;> simp [invertOut]

/-- **LINEAR window without a rescale, every width >= 1** (full statement since the fix of C06-linear-width-one:
width 1 is the step at c - 1/2). -/
theorem fold_window_linear_unscaled (p : Params) (st : Stages) (c w : Rat) (s : Int)
    (hv : p.voi = .window .linear c w) (hw : 1 ≤ w) (hr : p.lo < p.hi)
    (h1 : st.rwvm = false) (h2 : st.modality = false) (h3 : st.voi = true) :
    folded p st s = ref p st s := by
  simp only [folded, build, ref, refModality, refVoi, applyEff, foldWindow, windowOut, WinFn.name, hv, h1, h2, h3,
    beq_self_eq_true, Bool.false_eq_true, ↓reduceIte]
  rcases eq_or_lt_of_le hw with hw1 | hw1
  · subst hw1
    rw [fold_linear_value_unit c 0 1 p.lo p.hi s one_pos, window_linear c 1 p.lo p.hi _ (le_refl 1) hr]
    cases st.invert <;> simp [invertOut]
  · rw [fold_linear_value c w 0 1 p.lo p.hi s one_ne_zero (by linarith), window_linear c w p.lo p.hi _ hw hr]
    cases st.invert <;> simp [invertOut]

/-- SIGMOID window behind a rescale: the transform differs from the standard's only by how the argument of
`exp` is written - the arguments are equal, so the symbolic values `lo + (hi - lo) / (1 + exp arg)` coincide -/
theorem fold_sigmoid_arg (p : Params) (st : Stages) (m b c w : Rat) (s : Int)
    (hp : p.modality = .rescale m b) (hv : p.voi = .window .sigmoid c w)
    (hm : m ≠ 0) (hw : w ≠ 0)
    (h1 : st.rwvm = false) (h2 : st.modality = true) (h3 : st.voi = true) (h4 : st.invert = false) :
    folded p st s = ref p st s := by
  have hfn : ("SIGMOID" == "LINEAR") = false := by decide
  simp only [folded, build, ref, refModality, refVoi, applyEff, foldWindow, windowOut, WinFn.name, hp, hv, h1, h2, h3, h4,
    hfn, Bool.false_eq_true, ↓reduceIte]
  rw [fold_sigmoid_value c w b m s hm hw]
  simp only [voiSigmoidArg, refSigmoid, Bool.false_eq_true, ↓reduceIte]
  congr 2
  ring

/-- SIGMOID with inversion: `1 / (1 + exp (-a))` against `1 - 1 / (1 + exp a)`; equal for every `exp` with
`exp (-a) * exp a = 1` and positive values (hypotheses on the external component, exercised on `numpy.exp`
by the correspondence). -/
theorem fold_sigmoid_inverted (exp : Rat → Rat) (hexp : ∀ a, exp (-a) * exp a = 1) (hpos : ∀ a, 0 < exp a)
    (p : Params) (st : Stages) (m b c w : Rat) (s : Int)
    (hp : p.modality = .rescale m b) (hv : p.voi = .window .sigmoid c w)
    (hm : m ≠ 0) (hw : w ≠ 0)
    (h1 : st.rwvm = false) (h2 : st.modality = true) (h3 : st.voi = true) (h4 : st.invert = true) :
    ∃ y y', folded p st s = .ok y ∧ ref p st s = .ok y' ∧ y.eval exp = y'.eval exp := by
  have hfn : ("SIGMOID" == "LINEAR") = false := by decide
  simp only [folded, build, ref, refModality, refVoi, applyEff, foldWindow, windowOut, WinFn.name, hp, hv, h1, h2, h3, h4,
    hfn, Bool.false_eq_true, ↓reduceIte]
  rw [fold_sigmoid_value c w b m s hm hw]
  simp only [voiSigmoidArg, refSigmoid, invertOut, ↓reduceIte]
  refine ⟨_, _, rfl, rfl, ?_⟩
  simp only [Out.eval]
  have ha : -(4 / 1) * (c - (m * (s : Rat) + b)) / w = -(-4 * (m * (s : Rat) + b - c) / w) := by ring
  rw [ha]
  generalize (-4 * (m * (s : Rat) + b - c) / w) = a
  have h1 := hexp a
  have h2 := hpos a
  have h3 := hpos (-a)
  have e : exp (-a) = 1 / exp a := by
    field_simp; linarith
  rw [e]
  field_simp
  ring

/-- window applied to the entries of a modality LUT (effective LUT) -/
theorem fold_modlut_window_exact (p : Params) (st : Stages) (mfirst : Int) (mdata : List Nat) (c w : Rat) (s : Int)
    (hp : p.modality = .lut mfirst mdata) (hv : p.voi = .window .exact c w) (hw : 0 < w) (hr : p.lo < p.hi)
    (h1 : st.rwvm = false) (h2 : st.modality = true) (h3 : st.voi = true) :
    folded p st s = ref p st s := by
  simp only [folded, build, ref, refModality, refVoi, applyEff, hp, hv, h1, h2, h3, Bool.false_eq_true, ↓reduceIte]
  obtain ⟨d, hd⟩ := mapExcept_of_total (fun (v : Nat) => windowOut .exact c w p.lo p.hi st.invert ((v : Int) : Rat))
    (fun a => windowOut_linear_total _ _ _ _ _ _ _) mdata
  rw [hd]
  simp only []
  rw [applyLut_mapExcept _ _ _ hd, applyLut_eq_refLookup]
  cases refLookup mdata mfirst s with
  | error e => rfl
  | ok v =>
    simp only [windowOut, WinFn.name]
    rw [window_exact c w p.lo p.hi _ hw hr]
    cases st.invert <;> simp [invertOut]

theorem fold_modlut_window_linear (p : Params) (st : Stages) (mfirst : Int) (mdata : List Nat) (c w : Rat) (s : Int)
    (hp : p.modality = .lut mfirst mdata) (hv : p.voi = .window .linear c w) (hw : 1 ≤ w) (hr : p.lo < p.hi)
    (h1 : st.rwvm = false) (h2 : st.modality = true) (h3 : st.voi = true) :
    folded p st s = ref p st s := by
  simp only [folded, build, ref, refModality, refVoi, applyEff, hp, hv, h1, h2, h3, Bool.false_eq_true, ↓reduceIte]
  obtain ⟨d, hd⟩ := mapExcept_of_total (fun (v : Nat) => windowOut .linear c w p.lo p.hi st.invert ((v : Int) : Rat))
    (fun a => windowOut_linear_total _ _ _ _ _ _ _) mdata
  rw [hd]
  simp only []
  rw [applyLut_mapExcept _ _ _ hd, applyLut_eq_refLookup]
  cases refLookup mdata mfirst s with
  | error e => rfl
  | ok v =>
    simp only [windowOut, WinFn.name]
    rw [window_linear c w p.lo p.hi _ hw hr]
    cases st.invert <;> simp [invertOut]

/-- **Modality LUT then VOI LUT**: the effective table is the VOI table - scaled from its [min, max] to the
output range, inverted if required - looked up at the modality entries (full statement; before the fix
065b656 the raw VOI entries were returned). -/
theorem fold_modlut_voilut (p : Params) (st : Stages) (mfirst vfirst : Int) (mdata : List Nat) (a : Nat) (t : List Nat)
    (mn mx : Nat) (s : Int)
    (hp : p.modality = .lut mfirst mdata) (hv : p.voi = .lut vfirst (a :: t))
    (hmn : listMin (a :: t) = some mn) (hmx : listMax (a :: t) = some mx) (hne : mx ≠ mn)
    (h1 : st.rwvm = false) (h2 : st.modality = true) (h3 : st.voi = true) :
    folded p st s = ref p st s := by
  simp only [folded, build, ref, refModality, applyEff, hp, hv, h1, h2, h3, Bool.false_eq_true, ↓reduceIte]
  rw [scaledLut_eq a t mn mx p.lo p.hi st.invert hmn hmx hne]
  simp only []
  obtain ⟨d, hd⟩ := mapExcept_of_total
    (fun (v : Nat) => applyLut ((a :: t).map (scaledEntry mn mx p.lo p.hi st.invert)) vfirst true (v : Int))
    (fun v => by
      obtain ⟨y, hy, _⟩ := applyLut_clip_total' (scaledEntry mn mx p.lo p.hi st.invert a)
        (t.map (scaledEntry mn mx p.lo p.hi st.invert)) vfirst (v : Int)
      exact ⟨y, by simpa using hy⟩) mdata
  rw [hd]
  simp only []
  rw [applyLut_map, applyLut_mapExcept _ _ _ hd, applyLut_eq_refLookup]
  cases refLookup mdata mfirst s with
  | error e => rfl
  | ok v =>
    simp only []
    rw [refVoi_lut_int vfirst a t mn mx p.lo p.hi v hmn hmx hne, applyLut_map, applyLut_eq_refLookup]
    cases refLookup (a :: t) vfirst (v : Int) with
    | error e => rfl
    | ok e => cases st.invert <;> simp [scaledEntry, invertOut]

/-- real-world value map, linear: `m s + b` inside the mapped range, refusal outside -/
theorem fold_rwvm_linear (p : Params) (st : Stages) (first last m b : Rat) (s : Int)
    (hp : p.rwvm = .linear first last m b) (h1 : st.rwvm = true) : folded p st s = ref p st s := by
  simp only [folded, build, ref, refRwvm, applyEff, hp, h1, ↓reduceIte]
  split_ifs <;> simp; ring

/-- real-world value map, table: the entry inside the mapped range, refusal outside (no clipping) -/
theorem fold_rwvm_lut (p : Params) (st : Stages) (first : Int) (data : List Rat) (s : Int)
    (hp : p.rwvm = .lut first data) (h1 : st.rwvm = true) : folded p st s = ref p st s := by
  simp only [folded, build, ref, refRwvm, applyEff, hp, h1, ↓reduceIte]
  rw [applyLut_map]
  by_cases h : s < first ∨ s > first + (data.length : Int) - 1
  · rw [applyLut_noclip_outside _ _ _ h]; simp [h]
  · have h' := h
    push Not at h'
    rw [applyLut_noclip_inside _ _ _ h'.1 h'.2]
    simp only [h, ↓reduceIte]
    cases getIdx data (s - first) <;> rfl

/-- Out-of-range stored values are refused by the real-world value map (undefined, PS3.3 C.7.6.16.2.11) -/
theorem rwvm_outside_refused (p : Params) (st : Stages) (first last m b : Rat) (s : Int)
    (hp : p.rwvm = .linear first last m b) (h1 : st.rwvm = true) (hs : (s : Rat) < first ∨ (s : Rat) > last) :
    folded p st s = .error .value := by
  simp only [folded, build, applyEff, hp, h1, ↓reduceIte, hs]


/-- **VOI LUT behind an integer rescale (any integer slope m != 0, negative included)** - full statement for
*every* stored value, the ones mapped below and above the table included: the table `T[::|m|]` the current
source builds (reversed first for m < 0, final entry re-appended when the stride skips it, first stored
value `(first - b) / m` resp. `(first + n - 1 - b) / m`) looked up at the stored value is the VOI LUT of the
standard looked up at `m s + b`, scaled and inverted.  `hb`: the library accepts the combination (integer
slope and intercept, table start on an integer stored value); before the fixes e20cbdf / cd96c3e / adab703
in /repo this failed for non-integer slopes, for m not dividing n - 1 and for every negative slope. -/
theorem fold_rescale_voilut (p : Params) (st : Stages) (m b : Rat) (vfirst : Int) (a : Nat) (t : List Nat)
    (mn mx : Nat) (s : Int) (e : Eff)
    (hp : p.modality = .rescale m b) (hv : p.voi = .lut vfirst (a :: t))
    (hmn : listMin (a :: t) = some mn) (hmx : listMax (a :: t) = some mx) (hne : mx ≠ mn)
    (h1 : st.rwvm = false) (h2 : st.modality = true) (h3 : st.voi = true)
    (hb : build p st = .ok e) :
    folded p st s = ref p st s := by
  have hsc := scaledLut_eq a t mn mx p.lo p.hi st.invert hmn hmx hne
  simp only [build, hp, hv, h1, h2, h3, Bool.false_eq_true, ↓reduceIte] at hb
  by_cases hm0 : m = 0
  · simp [hm0] at hb
  simp only [hm0, ↓reduceIte, hsc] at hb
  cases hf : foldVoiLut m b ((a :: t).length : Int) vfirst with
  | error err => rw [hf] at hb; cases hb
  | ok r =>
    obtain ⟨rev, step, app, fo⟩ := r
    rw [hf] at hb
    simp only [Except.ok.injEq] at hb
    obtain ⟨mi, bi, rfl, rfl, hmi, hrev, hstep, happ, hfo⟩ := foldVoiLut_ok _ _ _ _ _ _ _ _ hm0 hf
    have hfolded : folded p st s = applyEff p.lo p.hi e s := by
      simp only [folded, build, hp, hv, h1, h2, h3, Bool.false_eq_true, ↓reduceIte, hm0, hsc, hf, hb]
    rw [hfolded, ← hb]
    simp only [applyEff]
    rw [applyLut_map, applyLut_eq_refLookup]
    have hlen : ((List.map (scaledEntry mn mx p.lo p.hi st.invert) (a :: t)).length : Int) = ((a :: t).length : Int) := by
      simp
    have key := folded_table_lookup (List.map (scaledEntry mn mx p.lo p.hi st.invert) (a :: t)) (by simp) mi bi vfirst fo s hmi
      (by rw [hlen]; exact hfo)
    simp only [hlen] at key
    rw [← happ, ← hrev, ← hstep] at key
    rw [key, refLookup_map]
    -- the reference side
    simp only [ref, h1, h2, h3, hp, hv, refModality, Bool.false_eq_true, ↓reduceIte]
    have hz : (mi : Rat) * (s : Rat) + (bi : Rat) = ((mi * s + bi : Int) : Rat) := by push_cast; ring
    rw [hz, refVoi_lut_intZ vfirst a t mn mx p.lo p.hi _ hmn hmx hne]
    cases refLookup (a :: t) vfirst (mi * s + bi) with
    | error err => rfl
    | ok v => cases st.invert <;> simp [scaledEntry, invertOut]

/-- VOI LUT without modality transform (identity rescale) -/
theorem fold_voilut_unscaled (p : Params) (st : Stages) (vfirst : Int) (a : Nat) (t : List Nat)
    (mn mx : Nat) (s : Int)
    (hv : p.voi = .lut vfirst (a :: t))
    (hmn : listMin (a :: t) = some mn) (hmx : listMax (a :: t) = some mx) (hne : mx ≠ mn)
    (h1 : st.rwvm = false) (h2 : st.modality = false) (h3 : st.voi = true) :
    folded p st s = ref p st s := by
  have hsc := scaledLut_eq a t mn mx p.lo p.hi st.invert hmn hmx hne
  have h10 : (1 : Rat) ≠ 0 := one_ne_zero
  cases hf : foldVoiLut 1 0 ((a :: t).length : Int) vfirst with
  | error err =>
    -- slope 1, intercept 0 is always accepted
    exfalso
    have := foldVoiLut_int 1 0 ((a :: t).length : Int) vfirst
    simp only [Int.cast_one, Int.cast_zero] at this
    rw [this] at hf
    simp at hf
  | ok r =>
    obtain ⟨rev, step, app, fo⟩ := r
    obtain ⟨mi, bi, hmi1, hbi0, hmi, hrev, hstep, happ, hfo⟩ := foldVoiLut_ok _ _ _ _ _ _ _ _ h10 hf
    have hmi' : mi = 1 := by exact_mod_cast hmi1.symm
    have hbi' : bi = 0 := by exact_mod_cast hbi0.symm
    subst hmi' hbi'
    simp only [folded, build, hv, h1, h2, h3, Bool.false_eq_true, ↓reduceIte, h10, hsc, hf, applyEff]
    rw [applyLut_map, applyLut_eq_refLookup]
    have hlen : ((List.map (scaledEntry mn mx p.lo p.hi st.invert) (a :: t)).length : Int) = ((a :: t).length : Int) := by
      simp
    have key := folded_table_lookup (List.map (scaledEntry mn mx p.lo p.hi st.invert) (a :: t)) (by simp) 1 0 vfirst fo s hmi
      (by rw [hlen]; exact hfo)
    simp only [hlen] at key
    rw [← happ, ← hrev, ← hstep] at key
    rw [key, refLookup_map]
    simp only [ref, h1, h2, h3, hv, refModality, Bool.false_eq_true, ↓reduceIte]
    have hz : (s : Rat) = ((1 * s + 0 : Int) : Rat) := by push_cast; ring
    rw [hz, refVoi_lut_intZ vfirst a t mn mx p.lo p.hi _ hmn hmx hne]
    cases refLookup (a :: t) vfirst (1 * s + 0) with
    | error err => rfl
    | ok v => cases st.invert <;> simp [scaledEntry, invertOut]

/-- A non-integer slope or intercept in front of a VOI LUT is refused (the table cannot be folded onto stored
values); the guard `not (intercept.is_integer() and slope.is_integer())` as translated from the source. -/
theorem rescale_voilut_nonint_refused (p : Params) (st : Stages) (m b : Rat) (vfirst : Int) (vdata : List Nat) (s : Int)
    (hp : p.modality = .rescale m b) (hv : p.voi = .lut vfirst vdata)
    (h1 : st.rwvm = false) (h2 : st.modality = true) (h3 : st.voi = true)
    (hni : ¬ (b = ((Rat.floor b : Int) : Rat) ∧ m = ((Rat.floor m : Int) : Rat))) :
    folded p st s = .error .value := by
  simp only [folded, build, hp, hv, h1, h2, h3, Bool.false_eq_true, ↓reduceIte, foldVoiLut_nonint m b _ vfirst hni]
  split_ifs <;> rfl

/-- no stage at all: the stored value -/
theorem fold_identity (p : Params) (st : Stages) (s : Int)
    (h1 : st.rwvm = false) (h2 : st.modality = false) (h3 : st.voi = false) (h4 : st.invert = false) :
    folded p st s = ref p st s := by
  simp [folded, build, ref, refModality, applyEff, h1, h2, h3, h4]

/-- the sigmoid, with or without inversion, as the model evaluates it, against the standard's -/
theorem sigmoid_out_eval (exp : Rat → Rat) (hexp : ∀ a, exp (-a) * exp a = 1) (hpos : ∀ a, 0 < exp a)
    (c w lo hi x : Rat) (inv : Bool) :
    ∃ y, windowOut .sigmoid c w lo hi inv x = .ok y ∧
      y.eval exp = (if inv then invertOut lo hi (refSigmoid c w lo hi x) else refSigmoid c w lo hi x).eval exp := by
  cases inv with
  | false =>
    simp only [windowOut, voiSigmoidArg, Bool.false_eq_true, ↓reduceIte]
    refine ⟨_, rfl, ?_⟩
    simp only [refSigmoid, Out.eval]
    congr 3; ring_nf
  | true =>
    simp only [windowOut, voiSigmoidArg, ↓reduceIte]
    refine ⟨_, rfl, ?_⟩
    simp only [refSigmoid, invertOut, Out.eval]
    have ha : -(4 / 1) * (c - x) / w = -(-4 * (x - c) / w) := by ring
    rw [ha]
    generalize (-4 * (x - c) / w) = a
    have h1 := hexp a
    have h2 := hpos a
    have e : exp (-a) = 1 / exp a := by field_simp; linarith
    rw [e]; field_simp; ring

/-- the sigmoid's argument through a rescale -/
theorem windowOut_sigmoid_fold (c w b m lo hi s : Rat) (hm : m ≠ 0) (hw : w ≠ 0) (inv : Bool) :
    windowOut .sigmoid ((c - b) / m) (w / m) lo hi inv s = windowOut .sigmoid c w lo hi inv (m * s + b) := by
  simp only [windowOut, fold_sigmoid_value c w b m s hm hw inv]

/-- SIGMOID behind a rescale, with or without inversion, evaluated with any `exp` obeying the two laws -/
theorem fold_sigmoid_eval (exp : Rat → Rat) (hexp : ∀ a, exp (-a) * exp a = 1) (hpos : ∀ a, 0 < exp a)
    (p : Params) (st : Stages) (m b c w : Rat) (s : Int)
    (hp : p.modality = .rescale m b) (hv : p.voi = .window .sigmoid c w) (hm : m ≠ 0) (hw : w ≠ 0)
    (h1 : st.rwvm = false) (h2 : st.modality = true) (h3 : st.voi = true) :
    Except.map (Out.eval exp) (folded p st s) = Except.map (Out.eval exp) (ref p st s) := by
  have hfn : ("SIGMOID" == "LINEAR") = false := by decide
  simp only [folded, build, ref, refModality, refVoi, applyEff, foldWindow, WinFn.name, hp, hv, h1, h2, h3,
    hfn, Bool.false_eq_true, ↓reduceIte]
  rw [windowOut_sigmoid_fold c w b m p.lo p.hi s hm hw]
  obtain ⟨y, hy, he⟩ := sigmoid_out_eval exp hexp hpos c w p.lo p.hi (m * (s : Rat) + b) st.invert
  rw [hy]
  simp only [Except.map, he]

/-- SIGMOID without modality transform -/
theorem fold_sigmoid_unscaled_eval (exp : Rat → Rat) (hexp : ∀ a, exp (-a) * exp a = 1) (hpos : ∀ a, 0 < exp a)
    (p : Params) (st : Stages) (c w : Rat) (s : Int)
    (hv : p.voi = .window .sigmoid c w) (hw : w ≠ 0)
    (h1 : st.rwvm = false) (h2 : st.modality = false) (h3 : st.voi = true) :
    Except.map (Out.eval exp) (folded p st s) = Except.map (Out.eval exp) (ref p st s) := by
  have hfn : ("SIGMOID" == "LINEAR") = false := by decide
  simp only [folded, build, ref, refModality, refVoi, applyEff, foldWindow, WinFn.name, hv, h1, h2, h3,
    hfn, Bool.false_eq_true, ↓reduceIte]
  rw [windowOut_sigmoid_fold c w 0 1 p.lo p.hi s one_ne_zero hw]
  obtain ⟨y, hy, he⟩ := sigmoid_out_eval exp hexp hpos c w p.lo p.hi (1 * (s : Rat) + 0) st.invert
  rw [hy]
  simp only [Except.map, he]
  simp

/-- SIGMOID applied to the entries of a modality LUT -/
theorem fold_modlut_sigmoid_eval (exp : Rat → Rat) (hexp : ∀ a, exp (-a) * exp a = 1) (hpos : ∀ a, 0 < exp a)
    (p : Params) (st : Stages) (mfirst : Int) (mdata : List Nat) (c w : Rat) (s : Int)
    (hp : p.modality = .lut mfirst mdata) (hv : p.voi = .window .sigmoid c w)
    (h1 : st.rwvm = false) (h2 : st.modality = true) (h3 : st.voi = true) :
    Except.map (Out.eval exp) (folded p st s) = Except.map (Out.eval exp) (ref p st s) := by
  simp only [folded, build, ref, refModality, refVoi, applyEff, hp, hv, h1, h2, h3, Bool.false_eq_true, ↓reduceIte]
  obtain ⟨d, hd⟩ := mapExcept_of_total (fun (v : Nat) => windowOut .sigmoid c w p.lo p.hi st.invert ((v : Int) : Rat))
    (fun a => windowOut_linear_total _ _ _ _ _ _ _) mdata
  rw [hd]
  simp only []
  rw [applyLut_mapExcept _ _ _ hd, applyLut_eq_refLookup]
  cases refLookup mdata mfirst s with
  | error e => rfl
  | ok v =>
    simp only []
    obtain ⟨y, hy, he⟩ := sigmoid_out_eval exp hexp hpos c w p.lo p.hi ((v : Int) : Rat) st.invert
    rw [hy]
    simp only [Except.map, he]

/-- (congruence helper) -/
theorem map_congr_of_eq {α β} (f : α → β) {x y : Except ErrKind α} (h : x = y) : Except.map f x = Except.map f y := by
  rw [h]

/-- **The whole pipeline clause in one statement.**  For every well-formed parameter set (`WellFormed`: output
range lo < hi, window widths inside the standard's domain, non-zero slope in front of a window, non-constant VOI
LUT, stages only where parameters exist), every choice of stages, every stored value `s` and every `exp` with
`exp(-a) exp(a) = 1`, `exp > 0`: whenever the library builds a transform at all, applying it gives the value
(or the refusal) of the standard's stages in order. -/
theorem folded_eq_ref (exp : Rat → Rat) (hexp : ∀ a, exp (-a) * exp a = 1) (hpos : ∀ a, 0 < exp a)
    (p : Params) (st : Stages) (s : Int) (wf : WellFormed p st) (e : Eff) (hb : build p st = .ok e) :
    Except.map (Out.eval exp) (folded p st s) = Except.map (Out.eval exp) (ref p st s) := by
  obtain ⟨hr, hmp, hvp, hwl, hus, hwe, hws, hsl, hvl, hml⟩ := wf
  cases h1 : st.rwvm with
  | true =>
    apply map_congr_of_eq
    cases hrw : p.rwvm with
    | none => simp [folded, build, ref, refRwvm, h1, hrw]
    | linear first last m b => exact fold_rwvm_linear p st first last m b s hrw h1
    | lut first data => exact fold_rwvm_lut p st first data s hrw h1
  | false =>
    cases h2 : st.modality with
    | false =>
      cases h3 : st.voi with
      | false =>
        apply map_congr_of_eq
        cases h4 : st.invert with
        | false => exact fold_identity p st s h1 h2 h3 h4
        | true => exact fold_invert_identity p st s h1 h2 h3 h4
      | true =>
        cases hv : p.voi with
        | none => exact absurd hv (hvp h3)
        | window fn c w =>
          cases fn with
          | linear => exact map_congr_of_eq _ (fold_window_linear_unscaled p st c w s hv (hwl c w h3 hv) hr h1 h2 h3)
          | exact => exact map_congr_of_eq _ (fold_window_exact_unscaled p st c w s hv (hwe c w h3 hv) hr h1 h2 h3)
          | sigmoid => exact fold_sigmoid_unscaled_eval exp hexp hpos p st c w s hv (hws c w h3 hv) h1 h2 h3
        | lut vfirst vdata =>
          obtain ⟨mn, mx, hmn, hmx, hne⟩ := hvl vfirst vdata h3 hv
          cases vdata with
          | nil => simp [listMin] at hmn
          | cons a t => exact map_congr_of_eq _ (fold_voilut_unscaled p st vfirst a t mn mx s hv hmn hmx hne h1 h2 h3)
    | true =>
      cases hp : p.modality with
      | none => exact absurd hp (hmp h2)
      | rescale m b =>
        cases h3 : st.voi with
        | false =>
          apply map_congr_of_eq
          cases h4 : st.invert with
          | false => exact fold_rescale p st m b s hp h1 h2 h3 h4
          | true => exact fold_invert_rescale p st m b s hp h1 h2 h3 h4
        | true =>
          cases hv : p.voi with
          | none => exact absurd hv (hvp h3)
          | window fn c w =>
            have hm := hsl m b fn c w h2 hp h3 hv
            cases fn with
            | linear => exact map_congr_of_eq _ (fold_window_linear_partial p st m b c w s hp hv hm (hwl c w h3 hv) (fun hw1 => hus m b c h2 hp h3 (hw1 ▸ hv)) hr h1 h2 h3)
            | exact => exact map_congr_of_eq _ (fold_window_exact p st m b c w s hp hv hm (hwe c w h3 hv) hr h1 h2 h3)
            | sigmoid => exact fold_sigmoid_eval exp hexp hpos p st m b c w s hp hv hm (hws c w h3 hv) h1 h2 h3
          | lut vfirst vdata =>
            obtain ⟨mn, mx, hmn, hmx, hne⟩ := hvl vfirst vdata h3 hv
            cases vdata with
            | nil => simp [listMin] at hmn
            | cons a t => exact map_congr_of_eq _ (fold_rescale_voilut p st m b vfirst a t mn mx s e hp hv hmn hmx hne h1 h2 h3 hb)
      | lut mfirst mdata =>
        cases h3 : st.voi with
        | false =>
          apply map_congr_of_eq
          cases h4 : st.invert with
          | false => exact fold_modlut p st mfirst mdata s hp h1 h2 h3 h4
          | true =>
            cases mdata with
            | nil => exact absurd rfl (hml mfirst [] h2 hp)
            | cons a t => exact fold_invert_modlut p st mfirst a t s hp h1 h2 h3 h4
        | true =>
          cases hv : p.voi with
          | none => exact absurd hv (hvp h3)
          | window fn c w =>
            cases fn with
            | linear => exact map_congr_of_eq _ (fold_modlut_window_linear p st mfirst mdata c w s hp hv (hwl c w h3 hv) hr h1 h2 h3)
            | exact => exact map_congr_of_eq _ (fold_modlut_window_exact p st mfirst mdata c w s hp hv (hwe c w h3 hv) hr h1 h2 h3)
            | sigmoid => exact fold_modlut_sigmoid_eval exp hexp hpos p st mfirst mdata c w s hp hv h1 h2 h3
          | lut vfirst vdata =>
            obtain ⟨mn, mx, hmn, hmx, hne⟩ := hvl vfirst vdata h3 hv
            cases vdata with
            | nil => simp [listMin] at hmn
            | cons a t => exact map_congr_of_eq _ (fold_modlut_voilut p st mfirst vfirst mdata a t mn mx s hp hv hmn hmx hne h1 h2 h3)

/-- The flag stage hands the pipeline stage only stages whose parameters exist: the presence hypotheses of
`WellFormed` (and the non-`none` real-world map) are consequences of `stageOutcome`, not assumptions. -/
theorem stages_have_parameters (fl : Flags) (ct : CType) (p : Params) (icc inverse : Bool) (st : Stages)
    (h : stageOutcome fl ct (presentOf p icc inverse) = .ok st) :
    (st.rwvm = true → p.rwvm ≠ .none) ∧ (st.modality = true → p.modality ≠ .none) ∧ (st.voi = true → p.voi ≠ .none) := by
  obtain ⟨h1, h2, h3, _, _⟩ := (flag_none_iff_present fl ct (presentOf p icc inverse) st h).2
  refine ⟨?_, ?_, ?_⟩
  · intro hs hn; have := h1 hs; simp [presentOf, hn] at this
  · intro hs hn; have := h2 hs; simp [presentOf, hn] at this
  · intro hs hn; have := h3 hs; simp [presentOf, hn] at this

/-! ## Clause: every read entry point uses the frame's own parameters and the caller's options -/

/-- **Every construction site forwards every option.**  In image.py (as it is now) each of the sites where a
pixel transform is built - `get_frame`, both sites of `get_frames`, both sites of `_get_pixels_by_frame`,
`get_volume_from_series` - and each call that delegates to them (`get_volume` -> `get_total_pixel_matrix` /
`_get_pixels_by_frame`, `get_total_pixel_matrix` -> `_get_pixels_by_frame`) passes all nine flag / selector /
range arguments of the caller on unchanged, and the output dtype. -/
theorem every_site_forwards_every_option :
    ∀ s ∈ cptCallSites, (∀ o ∈ forwardedOptions, siteForwards s o = true) ∧ siteForwardsDtype s = true := by
  decide +kernel

/-- the sites exist: all five read entry points are in the table (a table emptied by a refactoring would make
the previous theorem vacuous) -/
theorem entry_points_in_table :
    (cptCallSites.map fun s => (s.fn, s.kind, s.ordinal)) =
      [("_Image.get_frame", "transform", 0), ("_Image.get_frames", "transform", 0), ("_Image.get_frames", "transform", 1),
       ("_Image._get_pixels_by_frame", "transform", 0), ("_Image._get_pixels_by_frame", "transform", 1),
       ("Image.get_volume", "total_pixel_matrix", 0), ("Image.get_volume", "pixels_by_frame", 0),
       ("Image.get_total_pixel_matrix", "pixels_by_frame", 0), ("get_volume_from_series", "transform", 0)] := by
  decide +kernel

/-- **The transform of frame f is built from f's own parameters.**  Every transform built inside a frame loop is
built for the frame of that iteration (`frame_index=frame_index` on the image itself, or the instance `ds` of the
series), and a per-frame rebuild is skipped only when the shared transform `applies_to_all_frames`; the series
reader builds one per instance unconditionally (no reuse between instances). -/
theorem loop_sites_use_the_frame :
    ∀ s ∈ cptCallSites, s.kind = "transform" → s.inLoop = true →
      ((s.target = "self" ∧ s.kws.contains ("frame_index", "frame_index") = true ∧
          s.guards = ["not shared_frame_transform.applies_to_all_frames"]) ∨
       (s.fn = "get_volume_from_series" ∧ s.target = "ds" ∧ s.guards = [])) := by
  decide +kernel

/-- `get_frame` builds its transform for the requested frame, `get_frames` its reusable one for the first
requested frame. -/
theorem single_sites_use_the_frame :
    ∀ s ∈ cptCallSites, s.kind = "transform" → s.inLoop = false →
      (s.fn = "_Image.get_frame" → s.kws.contains ("frame_index", "frame_index") = true) ∧
      (s.fn = "_Image.get_frames" → s.kws.contains ("frame_index", "first_frame_index") = true) ∧ s.guards = [] := by
  decide +kernel

/-- **Where `Present.inverse` comes from** (translated, T6i): with `apply_presentation_lut` the presentation stage
inverts iff PresentationLUTShape is INVERSE, or it is absent and the image is MONOCHROME1 (an explicit IDENTITY on a
MONOCHROME1 image does not invert); without the flag never. -/
theorem presentation_inverse_spec (applyPres hasShape : Bool) (shape photometric : String) :
    presentationInverts applyPres hasShape shape photometric =
      .ok (applyPres && (if hasShape then shape == "INVERSE" else photometric == "MONOCHROME1")) := by
  unfold presentationInverts
  cases applyPres <;> cases hasShape <;> simp [beq_iff_eq]
  all_goals (by_cases hp : photometric = "MONOCHROME1" <;> simp [hp])

/-- **The inverted sigmoid in any field.**  `fold_sigmoid_inverted` / `folded_eq_ref` take `exp : Rat → Rat`, which no
real exponential is; the identity they rest on is purely algebraic and holds in every field `K` (e.g. the reals with
`e = Real.exp ∘ cast`): if `e (-a) * e a = 1` and `1 + e a` does not vanish, the value the library computes for an
inverted SIGMOID window, `lo + (hi - lo) / (1 + e (-a))`, is the standard's `hi + lo - (lo + (hi - lo) / (1 + e a))`. -/
theorem sigmoid_inverted_in_any_field {K : Type} [Field K] (e : K → K) (a lo hi : K)
    (h : e (-a) * e a = 1) (h1 : 1 + e a ≠ 0) :
    lo + (hi - lo) / (1 + e (-a)) = hi + lo - (lo + (hi - lo) / (1 + e a)) := by
  have hea : e a ≠ 0 := by
    intro h0; rw [h0, mul_zero] at h; exact zero_ne_one h
  have hinv : e (-a) = (e a)⁻¹ := eq_inv_of_mul_eq_one_left h
  have h2' : e a + 1 ≠ 0 := by rwa [add_comm] at h1
  have key : (1 + (e a)⁻¹) = (e a + 1) / e a := by field_simp
  rw [hinv, key, div_div_eq_mul_div]
  rw [add_comm 1 (e a)] at *
  field_simp
  ring

/-! ## Quantifier: output dtype -/

/-- **Output dtype.**  When `_check_rescale_dtype` accepts an integer output type, every value the rescale
`m x + b` produces over the whole stored range (negative slopes - every inverted presentation - included) is an
integer inside the type's range: the final cast can neither truncate nor wrap. -/
theorem rescale_dtype_sound (m b : Rat) (hasR : Bool) (rmin rmax : Int) (outKind inKind : String)
    (outMax outMin inMax inMin : Int) (r : Bool)
    (h : checkRescaleDtype m b hasR rmin rmax outKind inKind outMax outMin inMax inMin = .ok r)
    (hk : outKind = "u" ∨ outKind = "i") (x : Int)
    (hlo : (if hasR then rmin else inMin) ≤ x) (hhi : x ≤ (if hasR then rmax else inMax)) :
    (outMin : Rat) ≤ m * (x : Rat) + b ∧ m * (x : Rat) + b ≤ (outMax : Rat) ∧ ∃ z : Int, m * (x : Rat) + b = (z : Rat) := by
  unfold checkRescaleDtype at h
  simp only at h
  have hc3 : ((outKind == "u") || (outKind == "i")) = true := by
    rcases hk with rfl | rfl <;> decide
  have hc2 : (!((outKind == "u") || (outKind == "i") || (outKind == "f"))) = false := by
    rcases hk with rfl | rfl <;> decide
  rw [hc2, hc3] at h
  generalize hc6 : (!((m == ((Rat.floor m : Int) : Rat)) && (b == ((Rat.floor b : Int) : Rat)))) = c6 at h
  generalize hc7 : (!((inKind == "u") || (inKind == "i"))) = c7 at h
  generalize hc8 : ((outKind == "u") && (decide (b < ((0 : Rat) / 1)))) = c8 at h
  generalize hlo' : (if hasR then rmin else inMin) = lo at h hlo
  generalize hhi' : (if hasR then rmax else inMax) = hi at h hhi
  generalize hc22 : ((decide (max (((lo : Int) : Rat) * m + b) (((hi : Int) : Rat) * m + b) > ((outMax : Int) : Rat))) ||
    (decide (min (((lo : Int) : Rat) * m + b) (((hi : Int) : Rat) * m + b) < ((outMin : Int) : Rat)))) = c22 at h
  cases c6 <;> cases c7 <;> cases c8 <;> cases c22 <;> simp at h
  -- integrality of slope and intercept
  simp only [Bool.not_eq_false', Bool.and_eq_true, beq_iff_eq] at hc6
  obtain ⟨hm, hb⟩ := hc6
  -- capacity at both ends of the range
  simp only [Bool.or_eq_false_iff, decide_eq_false_iff_not, not_lt, gt_iff_lt] at hc22
  obtain ⟨hmax, hmin⟩ := hc22
  have hxlo : ((lo : Int) : Rat) ≤ (x : Rat) := by exact_mod_cast hlo
  have hxhi : (x : Rat) ≤ ((hi : Int) : Rat) := by exact_mod_cast hhi
  have h1 := le_max_left (((lo : Int) : Rat) * m + b) (((hi : Int) : Rat) * m + b)
  have h2 := le_max_right (((lo : Int) : Rat) * m + b) (((hi : Int) : Rat) * m + b)
  have h3 := min_le_left (((lo : Int) : Rat) * m + b) (((hi : Int) : Rat) * m + b)
  have h4 := min_le_right (((lo : Int) : Rat) * m + b) (((hi : Int) : Rat) * m + b)
  refine ⟨?_, ?_, ?_⟩
  · by_cases hm0 : 0 ≤ m
    · have : ((lo : Int) : Rat) * m ≤ (x : Rat) * m := mul_le_mul_of_nonneg_right hxlo hm0
      linarith
    · have : ((hi : Int) : Rat) * m ≤ (x : Rat) * m := mul_le_mul_of_nonpos_right hxhi (by linarith)
      linarith
  · by_cases hm0 : 0 ≤ m
    · have : (x : Rat) * m ≤ ((hi : Int) : Rat) * m := mul_le_mul_of_nonneg_right hxhi hm0
      linarith
    · have : (x : Rat) * m ≤ ((lo : Int) : Rat) * m := mul_le_mul_of_nonpos_right hxlo (by linarith)
      linarith
  · refine ⟨Rat.floor m * x + Rat.floor b, ?_⟩
    push_cast
    rw [← hm, ← hb]

/-! ## Clause: lookup-table objects return the table they were given -/

/-- `LUT.__init__` accepts exactly: 0 <= first mapped value < 2^16, 1..65536 entries of uint8 / uint16. -/
theorem lut_init_accepts_iff (first : Int) (bits : Nat) (data : List Nat) :
    (∃ ds, lutInit first bits data = .ok ds) ↔
      (0 ≤ first ∧ first < 65536 ∧ 1 ≤ data.length ∧ data.length ≤ 65536 ∧ (bits = 8 ∨ bits = 16)) := by
  unfold lutInit
  constructor
  · intro ⟨ds, h⟩
    split_ifs at h
    all_goals omega
  · intro ⟨a, b, c, d, e⟩
    have h1 : ¬ first < 0 := by omega
    have h2 : ¬ first ≥ 2 ^ 16 := by omega
    have h3 : ¬ data.length = 0 := by omega
    have h4 : ¬ data.length > 2 ^ 16 := by omega
    have h5 : ¬ (bits ≠ 16 ∧ bits ≠ 8) := by rcases e with rfl | rfl <;> simp
    have h2' : ¬ (65536 ≤ first) := by omega
    have h4' : ¬ (65536 < data.length) := by omega
    simp [h1, h3, h5, h2', h4']

/-- **Round trip**: for 8- and 16-bit tables, every first mapped value and every length 1..65536 - odd, even
and 65536 (stored as 0 in the descriptor) - the accessors of the constructed item return the entries, the
first mapped value and the number of entries that were given; LUTData always is a whole number of 16-bit
words. -/
theorem lut_roundtrip (first : Int) (bits : Nat) (data : List Nat) (ds : LutDs)
    (hv : ∀ v ∈ data, v < 2 ^ bits) (h : lutInit first bits data = .ok ds) :
    lutData ds = .ok data ∧ firstMapped ds = .ok first ∧ numberOfEntries ds = .ok (data.length : Int) ∧
      ds.data.length % 2 = 0 := by
  obtain ⟨a, b, c, d, e⟩ := (lut_init_accepts_iff first bits data).mp ⟨ds, h⟩
  unfold lutInit at h
  have h1 : ¬ first < 0 := by omega
  have h2 : ¬ first ≥ 2 ^ 16 := by omega
  have h3 : ¬ data.length = 0 := by omega
  have h4 : ¬ data.length > 2 ^ 16 := by omega
  have h5 : ¬ (bits ≠ 16 ∧ bits ≠ 8) := by rcases e with rfl | rfl <;> simp
  simp only [h1, h2, h3, h4, h5, ↓reduceIte, Except.ok.injEq] at h
  subst h
  have key := lut_access (if data.length = 2 ^ 16 then 0 else (data.length : Int)) first bits data
    (decide (bits = 8 ∧ data.length % 2 = 1)) e hv ⟨c, d⟩ (by norm_num) (by simp)
  simp only [decide_eq_true_eq] at key
  refine ⟨key.1, key.2.1, key.2.2, ?_⟩
  rcases e with rfl | rfl
  · simp only [encode8_eq data (by simpa using hv), true_and, List.length_append]
    split_ifs with h <;> simp <;> omega
  · simp [encode16_length]

/-- The accessors on *any* item encoded as PS3.3 C.11.1.1 prescribes (e.g. read from a file: `d0 = 0` for
65536 entries, 8-bit tables with or without padding byte) return the table. -/
theorem lut_access_standard_item (d0 first : Int) (bits : Nat) (data : List Nat) (pad : Bool)
    (hb : bits = 8 ∨ bits = 16) (hv : ∀ v ∈ data, v < 2 ^ bits) (hlen : 1 ≤ data.length ∧ data.length ≤ 65536)
    (hd0 : d0 = if data.length = 65536 then 0 else (data.length : Int))
    (hpad : pad = true → bits = 8 ∧ data.length % 2 = 1) :
    lutData ⟨[d0, first, (bits : Int)], encodeEntries bits data ++ (if pad then [0] else [])⟩ = .ok data :=
  (lut_access d0 first bits data pad hb hv hlen hd0 hpad).1

/-- `LUT.get_inverted_lut_data` computes `min + max - data` in the table's own unsigned type, where `min + max`
may wrap modulo 2^bits and the subtraction wraps again: the two wrap-arounds cancel, the result is the number
`min + max - v` the model (`invertedLut`) uses, for every entry between min and max. -/
theorem inverted_lut_wraparound_harmless (M mn mx v : Nat) (h1 : mn ≤ v) (h2 : v ≤ mx) (h3 : mx < M) :
    ((mn + mx) % M + M - v) % M = mn + mx - v := by
  have hM : 0 < M := by omega
  by_cases hs : mn + mx < M
  · rw [Nat.mod_eq_of_lt hs]
    have : mn + mx + M - v = (mn + mx - v) + M := by omega
    rw [this, Nat.add_mod_right, Nat.mod_eq_of_lt (by omega)]
  · have hlt : mn + mx - M < M := by omega
    have e : (mn + mx) % M = mn + mx - M := by
      rw [Nat.mod_eq_sub_mod (by omega), Nat.mod_eq_of_lt hlt]
    rw [e]
    have : mn + mx - M + M - v = mn + mx - v := by omega
    rw [this, Nat.mod_eq_of_lt (by omega)]

/-! ## Clause: selection by index, negative index, explanation, label or unit -/

/-- positions: Python indexing (0..n-1, -1..-n), anything else is refused -/
theorem selector_index_spec {α} (l : List α) (k : Int) :
    pyGet l k = if 0 ≤ k ∧ k < l.length then l[k.toNat]?
      else if -(l.length : Int) ≤ k ∧ k < 0 then l[(l.length + k).toNat]? else none := pyGet_spec l k

/-- names (explanation, label, unit): the first alternative carrying the name -/
theorem selector_name_spec {α} [DecidableEq α] (l : List α) (x : α) (j : Nat) :
    pyIndex l x = some j ↔ (l[j]? = some x ∧ ∀ i, i < j → l[i]? ≠ some x) := pyIndex_spec l x j

/-- ... and refusal iff no alternative carries it -/
theorem selector_name_absent {α} [DecidableEq α] (l : List α) (x : α) : pyIndex l x = none ↔ x ∉ l := pyIndex_none l x

/-- **Window selection by position**: the alternative at `k` (Python indexing, negative from the end) or refusal -/
theorem select_window_index (centers widths : List Rat) (expl : Option (List String)) (k : Int)
    (hc : centers ≠ []) (hw : widths ≠ []) :
    selectWindow centers widths expl (.idx k) =
      (match pyGet widths k, pyGet centers k with
       | some w, some c => some (c, w)
       | _, _ => none) := by
  simp only [selectWindow, pickValue_eq_pyGet _ _ hc, pickValue_eq_pyGet _ _ hw]
  cases pyGet widths k <;> cases pyGet centers k <;> rfl

/-- **Window selection by explanation**: the first alternative whose explanation equals the name; no
explanations or no match: refusal -/
theorem select_window_explanation (centers widths : List Rat) (expl : Option (List String)) (s : String) :
    selectWindow centers widths expl (.str s) =
      (match expl with
       | none => none
       | some ex => match pyIndex ex s with
         | none => none
         | some j => selectWindow centers widths expl (.idx (j : Int))) := by
  cases expl with
  | none => rfl
  | some ex =>
    simp only [selectWindow]
    cases pyIndex ex s <;> rfl

/-- VOI LUT by position / by LUTExplanation; real-world value map by position / LUTLabel / unit: the item at the
position given by `selector_index_spec`, resp. at the first position found by `selector_name_spec` -/
theorem selector_spec {α} (items : List α) (expl : List (Option String)) (labels : List String)
    (units : List (String × String)) (k : Int) (s v sch : String) :
    selectLut expl items (.idx k) = pyGet items k ∧
    selectLut expl items (.str s) = (pyIndex expl (some s)).bind (fun j => pyGet items (j : Int)) ∧
    selectRwvm labels units items (.idx k) = pyGet items k ∧
    selectRwvm labels units items (.label s) = (pyIndex labels s).bind (fun j => pyGet items (j : Int)) ∧
    selectRwvm labels units items (.unit v sch) = (pyIndex units (v, sch)).bind (fun j => pyGet items (j : Int)) := by
  refine ⟨rfl, ?_, rfl, ?_, ?_⟩
  · simp only [selectLut]; cases pyIndex expl (some s) <;> rfl
  · simp only [selectRwvm]; cases pyIndex labels s <;> rfl
  · simp only [selectRwvm]; cases pyIndex units (v, sch) <;> rfl

/-! ## Clause: the parameters that apply to the frame (per-frame over shared) -/

/-- **Per-frame over shared (over image level)**: parameters given for the frame itself are the ones used. -/
theorem per_frame_over_shared {α} (pl : Placed α) (f : Nat) (a : α) (h : pl.perFrame[f]? = some (some a)) :
    pl.find f = some (a, false) := find_per_frame pl f a h

/-- no per-frame parameters: the shared ones (they apply to all frames) -/
theorem shared_over_image {α} (pl : Placed α) (f : Nat) (a : α) (h : AbsentAt pl f) (hs : pl.shared = some a) :
    pl.find f = some (a, true) := find_shared pl f a h hs

/-- neither per-frame nor shared: the image level, else nothing -/
theorem image_level_last {α} (pl : Placed α) (f : Nat) (h : AbsentAt pl f) (hs : pl.shared = none) :
    pl.find f = pl.image.map (·, true) := find_image pl f h hs

/-- **VOI LUTs follow the same placement rule.**  A VOI LUT sequence given for the frame itself (inside the frame's
FrameVOILUTSequence item) is the VOI information used - over shared and image-level windows or tables; and within one
dataset the table is used rather than the window values next to it.  (True of the source since fix b660cc4; before,
tables inside the functional groups were ignored.) -/
theorem frame_voi_lut_over_shared {l w} (image shared : Option l × Option w) (perFrame : List (Option l × Option w))
    (f : Nat) (x : l) (win : Option w) (h : perFrame[f]? = some (some x, win)) :
    (Placed.ofVoi image shared perFrame).find f = some (.inl x, false) := by
  apply per_frame_over_shared
  simp [Placed.ofVoi, voiItem, h]

/-- no VOI information in the frame's own group: a shared table (or, failing that, shared window) is used -/
theorem shared_voi_lut_over_image {l w} (image shared : Option l × Option w) (perFrame : List (Option l × Option w))
    (f : Nat) (x : l) (hs : shared.1 = some x)
    (h : perFrame[f]? = none ∨ perFrame[f]? = some (none, none)) :
    (Placed.ofVoi image shared perFrame).find f = some (.inl x, true) := by
  apply shared_over_image
  · rcases h with h | h
    · left; simp [Placed.ofVoi, h]
    · right; simp [Placed.ofVoi, voiItem, h]
  · simp [Placed.ofVoi, voiItem, hs]

/-- **`get_frames` = `get_frame` frame by frame**: the transform built once for frame 0 is reused exactly when
nothing it contains came from a per-frame item (`applies_to_all_frames`); for images whose functional groups
are placed uniformly this never changes a frame. -/
theorem frames_eq_frame {ρ μ ω β} (im : Meta ρ μ ω) (useRw useMod useVoi : Bool) (apply : Found ρ μ ω → Nat → β)
    (n : Nat) (fs : List Nat) (hfs : ∀ f ∈ fs, f < n)
    (h1 : Uniform im.rwvm n) (h2 : Uniform im.rescale n) (h3 : Uniform im.voi n) :
    getFrames im useRw useMod useVoi apply fs = fs.map (getFrame im useRw useMod useVoi apply) := by
  unfold getFrames
  cases fs with
  | nil => rfl
  | cons f0 rest => exact getWith_eq im useRw useMod useVoi apply n f0 (f0 :: rest) (hfs f0 (by simp)) hfs h1 h2 h3

/-- **`get_volume` / `get_total_pixel_matrix` = `get_frame` frame by frame**: the same for the loop of
`_get_pixels_by_frame`, whose reusable transform is built for frame 1. -/
theorem pixels_by_frame_eq_frame {ρ μ ω β} (im : Meta ρ μ ω) (useRw useMod useVoi : Bool) (apply : Found ρ μ ω → Nat → β)
    (n : Nat) (fs : List Nat) (h0 : 0 < n) (hfs : ∀ f ∈ fs, f < n)
    (h1 : Uniform im.rwvm n) (h2 : Uniform im.rescale n) (h3 : Uniform im.voi n) :
    getPixelsByFrame im useRw useMod useVoi apply fs = fs.map (getFrame im useRw useMod useVoi apply) :=
  getWith_eq im useRw useMod useVoi apply n 0 fs h0 hfs h1 h2 h3

/-- **Counterexample at width 1 behind a negative slope** (open finding C06-linear-width-one-negative-slope).  Rescale
-s, LINEAR window centre -19/2 width 1: the standard's step is at rescaled value -10, i.e. stored values >= 10 give the
lower output value and stored 9 the upper one.  The folded window has effective centre 21/2 and effective width
(1 - 1) / (-1) + 1 = 1 again - a rising step in the stored value: stored 9 gets the lower value (the real-code witness
is replayed by every run).  So the hypothesis `w = 1 → 0 < m` of `fold_window_linear_partial` cannot be dropped. -/
theorem counterexample_linear_width_one_negative_slope :
    folded { modality := .rescale (-1) 0, voi := .window .linear (-19/2) 1, rwvm := .none, imin := 0, imax := 255, lo := 0, hi := 1 }
        ⟨false, true, true, false, false, false⟩ 9
      ≠ ref { modality := .rescale (-1) 0, voi := .window .linear (-19/2) 1, rwvm := .none, imin := 0, imax := 255, lo := 0, hi := 1 }
        ⟨false, true, true, false, false, false⟩ 9 := by
  decide +kernel

/-- ... and width 1 itself is no longer excluded: the former witness of C06-linear-width-one (centre 21/2, width 1,
stored 10 on the step, 11 above it) now follows the standard -/
example : folded { modality := .none, voi := .window .linear (21/2) 1, rwvm := .none, imin := 0, imax := 255, lo := 0, hi := 1 }
        ⟨false, false, true, false, false, false⟩ 11 = .ok (.val 1) := by decide +kernel
example : folded { modality := .none, voi := .window .linear (21/2) 1, rwvm := .none, imin := 0, imax := 255, lo := 0, hi := 1 }
        ⟨false, false, true, false, false, false⟩ 10 = .ok (.val 0) := by decide +kernel


/-! ## Output type rules and the order of the steps (regenerated T6p, T6q)

What `__init__` does with the folded transform depending on the pixel type and the requested output type, and in which
order `__call__` runs its steps - both regenerated from the current source.  `outputRules` takes as inputs which effective
representation the folding produced (table / slope-intercept / window), whether a colour manager exists, the dtype kinds
and `np.can_cast(input, output, 'safe')` (numpy's, a parameter).  Tie C: `narrow` grid (L0: a value that does not fit is
refused, never wrapped) and the `outrules` comparison of the regenerated function with the attributes of real transform
objects (L2). -/

/-- the regenerated block in closed form: refused iff a table meets floating-point pixels or a window meets a non-float
    output type; otherwise (table cast eagerly, slope / intercept kept, `_check_rescale_dtype` called, slope / intercept cast,
    final cast range-checked, colour output) -/
theorem output_rules_closed_form (hasLut hasCm differs inFloat hasSi siId hasWin : Bool) (ok ik : String) (safe : Bool) (ct : String) :
    outputRules hasLut hasCm differs inFloat hasSi siId hasWin ok ik safe ct =
      if hasLut && inFloat then .error .value
      else if hasWin && (ok != "f") then .error .value
      else .ok (hasLut && !hasCm && differs, hasSi && !siId, hasSi && !siId, hasSi && !siId,
                !hasLut && !(hasSi && !siId) && !hasWin && (ok == "u" || ok == "i") && (ik == "u" || ik == "i" || ik == "f") && !safe,
                ct == "COLOR" || (ct == "PALETTE_COLOR" && hasLut)) := by
  unfold outputRules
  cases hasLut <;> cases hasCm <;> cases differs <;> cases inFloat <;> cases hasSi <;> cases siId <;> cases hasWin <;> simp

/-- **Stored values cast directly to a narrower integer type are range-checked - exactly then.**  The final cast is
checked iff no transform remains (an identity rescale that is PRESENT counts as none: it is dropped before the decision -
seeded R4C06-2 moved the decision in front of the drop), both types are integer types and numpy cannot cast safely. -/
theorem output_range_checked_iff (hasLut hasCm differs inFloat hasSi siId hasWin : Bool) (ok ik : String) (safe : Bool) (ct : String)
    (r : Bool × Bool × Bool × Bool × Bool × Bool)
    (h : outputRules hasLut hasCm differs inFloat hasSi siId hasWin ok ik safe ct = .ok r) :
    r.2.2.2.2.1 = true ↔
      (hasLut = false ∧ (hasSi = false ∨ siId = true) ∧ hasWin = false ∧ (ok = "u" ∨ ok = "i") ∧ (ik = "u" ∨ ik = "i" ∨ ik = "f") ∧
        safe = false) := by
  rw [output_rules_closed_form] at h
  split at h
  · cases h
  · split at h
    · cases h
    · injection h with h
      subst h
      cases hasLut <;> cases hasSi <;> cases siId <;> cases hasWin <;> cases safe <;> simp [or_assoc]

/-- a VOI window needs a floating-point output type: refused otherwise (never a silently truncated window) -/
theorem window_needs_float_output (hasLut hasCm differs inFloat hasSi siId : Bool) (ok ik : String) (safe : Bool) (ct : String)
    (hok : ok ≠ "f") : ∃ e, outputRules hasLut hasCm differs inFloat hasSi siId true ok ik safe ct = .error e := by
  rw [output_rules_closed_form]
  have : (ok != "f") = true := by simpa using hok
  cases hasLut <;> cases inFloat <;> simp [this]

/-- lookup tables are refused on floating-point pixels -/
theorem table_on_float_pixels_refused (hasCm differs hasSi siId hasWin : Bool) (ok ik : String) (safe : Bool) (ct : String) :
    outputRules true hasCm differs true hasSi siId hasWin ok ik safe ct = .error .value := by
  rw [output_rules_closed_form]; rfl

/-- a rescale that remains (not the identity) always goes through `_check_rescale_dtype` (`rescale_dtype_sound`) and is cast to
    the output type; an identity rescale is dropped -/
theorem remaining_rescale_is_checked (hasLut hasCm differs inFloat hasSi siId hasWin : Bool) (ok ik : String) (safe : Bool) (ct : String)
    (r : Bool × Bool × Bool × Bool × Bool × Bool)
    (h : outputRules hasLut hasCm differs inFloat hasSi siId hasWin ok ik safe ct = .ok r) :
    (r.2.1 = true ↔ (hasSi = true ∧ siId = false)) ∧ r.2.2.1 = r.2.1 ∧ r.2.2.2.1 = r.2.1 := by
  rw [output_rules_closed_form] at h
  split at h
  · cases h
  · split at h
    · cases h
    · injection h with h
      subst h
      cases hasSi <;> cases siId <;> simp

/-- frames come out with a colour axis iff the image is a colour image or a palette colour image whose palette is applied -/
theorem color_output_iff (hasLut hasCm differs inFloat hasSi siId hasWin : Bool) (ok ik : String) (safe : Bool) (ct : String)
    (r : Bool × Bool × Bool × Bool × Bool × Bool)
    (h : outputRules hasLut hasCm differs inFloat hasSi siId hasWin ok ik safe ct = .ok r) :
    r.2.2.2.2.2 = true ↔ (ct = "COLOR" ∨ (ct = "PALETTE_COLOR" ∧ hasLut = true)) := by
  rw [output_rules_closed_form] at h
  split at h
  · cases h
  · split at h
    · cases h
    · injection h with h
      subst h
      simp

/-- **The order of the steps of `__call__` is the pipeline order**: decode, shape check, range check of a real-world map,
exactly one of table / slope-intercept / window (`tie_applyEff_branch`: first match of the if / elif chain), colour
management, range check of the final cast, cast.  (Table equality on the regenerated list of steps: a trip-wire - a step
moved, added or removed changes the list.) -/
theorem call_order_is_pipeline_order :
    callOrder = ["decode", "shape-check", "input-range-check", "lut|affine|window", "icc", "output-range-check", "cast", "return"] := by
  decide

/-- non-vacuity: uint16 pixels read as uint8 with an identity rescale present: checked; with a shifting rescale: not this
    check (the rescale check is on instead); a window with an integer output type: refused -/
example : outputRules false false false false true true false "u" "u" false "MONOCHROME" = .ok (false, false, false, false, true, false) := by decide
example : outputRules false false false false true false false "u" "u" false "MONOCHROME" = .ok (false, true, true, true, false, false) := by decide
example : ∃ e, outputRules false false false false false false true "u" "u" false "MONOCHROME" = .error e :=
  window_needs_float_output false false false false false false "u" "u" false "MONOCHROME" (by decide)

/-! ## Which construction `__init__` takes (regenerated T6s)

The hand-written `build` chooses among eight constructions by pattern matching on what the model found; the source chooses by
an if / elif chain (`combineBranch`, regenerated, each arm recognised by what it builds).  The two dispatches coincide, and
the construction fixes the kind of effective transform that `__call__` applies. -/

/-- which of the eight constructions the MODEL's `build` takes (read off its pattern matches) -/
def buildCode (p : Params) (st : Stages) : Int :=
  if st.rwvm then 0 else
  let modality := if st.modality then p.modality else .none
  let voi := if st.voi then p.voi else .none
  match modality, voi with
  | .lut _ _, .window _ _ _ => 1
  | .lut _ _, .lut _ _ => 2
  | .lut _ _, .none => if st.invert then 3 else 4
  | _, .window _ _ _ => 5
  | _, .lut _ _ => 6
  | _, .none => if st.invert then 7 else 8

def Eff.kind : Eff → String
  | .lut _ _ _ => "table"
  | .affine _ _ _ => "affine"
  | .window _ _ _ _ => "window"
  | .ident => "none"

/-- `self._effective_slope_intercept == (1.0, 0.0)` -/
def Eff.isIdentityAffine : Eff → Bool
  | .affine a b _ => a == 1 && b == 0
  | _ => false

/-- the model dispatches as the source does: the regenerated if / elif chain of the combination block, fed with what the
    model has found (`has_rwvm` = a real-world map is in force: then nothing is built here, arm 0), names the construction
    `build` takes -/
theorem tie_build_dispatch (p : Params) (st : Stages) :
    let modality := if st.modality then p.modality else Modality.none
    let voi := if st.voi then p.voi else Voi.none
    combineBranch (match modality with | .lut _ _ => true | _ => false) st.rwvm
        (match voi with | .window _ _ _ => true | _ => false) (match voi with | .lut _ _ => true | _ => false) st.invert
      = .ok (buildCode p st) := by
  simp only [buildCode, combineBranch]
  cases st.rwvm <;> cases (if st.modality then p.modality else Modality.none) <;> cases (if st.voi then p.voi else Voi.none) <;>
    cases st.invert <;> simp

/-- ... and the construction determines the kind of effective transform: a table for 1-4 and 6, a window for 5, slope /
    intercept (or nothing at all when no rescale is present) for 7 and 8 -/
theorem build_kind_by_code (p : Params) (st : Stages) (e : Eff) (h0 : st.rwvm = false) (h : build p st = .ok e) :
    Eff.kind e = (if buildCode p st = 5 then "window"
      else if buildCode p st = 7 then "affine"
      else if buildCode p st = 8 then (match (if st.modality then p.modality else Modality.none) with | .rescale _ _ => "affine" | _ => "none")
      else "table") := by
  unfold build at h
  simp only [h0, Bool.false_eq_true, ↓reduceIte] at h
  unfold buildCode
  simp only [h0, Bool.false_eq_true, ↓reduceIte]
  cases hm : (if st.modality then p.modality else Modality.none) <;> cases hv : (if st.voi then p.voi else Voi.none) <;>
    cases hi : st.invert <;> simp only [hm, hv, hi] at h ⊢ <;> (try split at h) <;> (try split at h) <;> (try split at h) <;>
    (try cases h) <;> (try (injection h with h; subst h)) <;> (try contradiction) <;> (try simp_all [Eff.kind])



/-- **link between the built transform and the output-type rules**: `__init__` feeds `outputRules` with "a table / slope-intercept /
window exists" - in the model: the kind of the `Eff` that `build` returned (`build_kind_by_code`); an `Eff.affine 1 0` is the identity
rescale.  So for a monochrome image without real-world map the final cast of what `build` produced is range-checked iff nothing or
only an identity rescale was built, the output type is an integer type, the stored values are integers or floats and numpy cannot
cast safely. -/
theorem narrowing_checked_of_built (p : Params) (st : Stages) (e : Eff) (hasCm differs inFloat : Bool) (ok ik : String) (safe : Bool)
    (r : Bool × Bool × Bool × Bool × Bool × Bool)
    (h : outputRules (Eff.kind e == "table") hasCm differs inFloat (Eff.kind e == "affine")
          (Eff.isIdentityAffine e) (Eff.kind e == "window") ok ik safe "MONOCHROME" = .ok r) :
    r.2.2.2.2.1 = true ↔
      ((Eff.kind e = "none" ∨ (∃ c, e = .affine 1 0 c)) ∧ (ok = "u" ∨ ok = "i") ∧ (ik = "u" ∨ ik = "i" ∨ ik = "f") ∧ safe = false) := by
  rw [output_range_checked_iff _ _ _ _ _ _ _ _ _ _ _ r h]
  cases e with
  | lut f d c => simp [Eff.kind, Eff.isIdentityAffine]
  | window fn c w i => simp [Eff.kind, Eff.isIdentityAffine]
  | ident => simp [Eff.kind, Eff.isIdentityAffine]
  | affine a b c =>
    simp only [Eff.kind, Eff.isIdentityAffine]
    constructor
    · rintro ⟨_, h2, _, h4, h5, h6⟩
      rcases h2 with h2 | h2
      · simp at h2
      · have : a = 1 ∧ b = 0 := by simpa using h2
        exact ⟨Or.inr ⟨c, by rw [this.1, this.2]⟩, h4, h5, h6⟩
    · rintro ⟨h1, h4, h5, h6⟩
      rcases h1 with h1 | ⟨c', h1⟩
      · simp at h1
      · injection h1 with ha hb _
        refine ⟨by simp, Or.inr (by simp [ha, hb]), by simp, h4, h5, h6⟩

/-- from the parameters themselves: what `build` returns is nothing, or the identity rescale, exactly when no VOI stage and no
    inversion is in force and the modality stage is absent or the rescale 1 s + 0 -/
theorem built_is_identity_iff (p : Params) (st : Stages) (e : Eff) (h0 : st.rwvm = false) (h : build p st = .ok e) :
    (Eff.kind e = "none" ∨ (∃ c, e = .affine 1 0 c)) ↔
      (buildCode p st = 8 ∧
        (match (if st.modality then p.modality else Modality.none) with
         | .none => True | .rescale m b => m = 1 ∧ b = 0 | .lut _ _ => False)) ∨
      (buildCode p st = 7 ∧ ∃ a b, foldInvert
          (match (if st.modality then p.modality else Modality.none) with | .rescale m _ => m | _ => 1)
          (match (if st.modality then p.modality else Modality.none) with | .rescale _ b => b | _ => 0) p.imin p.imax false = .ok (a, b)
          ∧ a = 1 ∧ b = 0) := by
  unfold build at h
  simp only [h0, Bool.false_eq_true, ↓reduceIte] at h
  unfold buildCode
  simp only [h0, Bool.false_eq_true, ↓reduceIte]
  cases hm : (if st.modality then p.modality else Modality.none) <;> cases hv : (if st.voi then p.voi else Voi.none) <;>
    cases hi : st.invert <;> simp only [hm, hv, hi] at h ⊢ <;> (try split at h) <;> (try split at h) <;> (try split at h) <;>
    (try cases h) <;> (try contradiction) <;> (try simp_all [Eff.kind])


/-- **the output-type rules applied to what `build` returned, in terms of the image's parameters**: for a monochrome image without
real-world map the final cast is range-checked iff the folding left nothing to apply - no VOI stage and either no inversion and no
modality stage / the rescale 1 s + 0, or an inversion that folds to the identity - and the output type is an integer type, the stored
values are integers or floats and numpy cannot cast safely.  (T6p composed with the model of the folding, T6s naming the
construction; the inputs "a table / slope-intercept / window exists" are read off the `Eff` as `__init__` reads them off its
`_effective_*` attributes.) -/
theorem final_cast_checked_iff (p : Params) (st : Stages) (e : Eff) (h0 : st.rwvm = false) (hb : build p st = .ok e)
    (hasCm differs inFloat : Bool) (ok ik : String) (safe : Bool) (r : Bool × Bool × Bool × Bool × Bool × Bool)
    (h : outputRules (Eff.kind e == "table") hasCm differs inFloat (Eff.kind e == "affine")
          (Eff.isIdentityAffine e) (Eff.kind e == "window") ok ik safe "MONOCHROME" = .ok r) :
    r.2.2.2.2.1 = true ↔
      (((buildCode p st = 8 ∧
          (match (if st.modality then p.modality else Modality.none) with
           | .none => True | .rescale m b => m = 1 ∧ b = 0 | .lut _ _ => False)) ∨
        (buildCode p st = 7 ∧ ∃ a b, foldInvert
            (match (if st.modality then p.modality else Modality.none) with | .rescale m _ => m | _ => 1)
            (match (if st.modality then p.modality else Modality.none) with | .rescale _ b => b | _ => 0) p.imin p.imax false = .ok (a, b)
            ∧ a = 1 ∧ b = 0)) ∧
       (ok = "u" ∨ ok = "i") ∧ (ik = "u" ∨ ik = "i" ∨ ik = "f") ∧ safe = false) := by
  rw [narrowing_checked_of_built p st e hasCm differs inFloat ok ik safe r h, built_is_identity_iff p st e h0 hb]

/-- non-vacuity: 16-bit pixels, identity rescale present, nothing else: the folded transform is the identity rescale, the cast to uint8
    is checked -/
example : (build { modality := .rescale 1 0, voi := .none, rwvm := .none, imin := 0, imax := 65535, lo := 0, hi := 1 }
    ⟨false, true, false, false, false, false⟩).map (fun e => (Eff.kind e, Eff.isIdentityAffine e)) = .ok ("affine", true) := by decide +kernel

/-! ## Type and range of the stored values (regenerated T6r)

`inputType` is the block of `__init__` that deduces the numpy type and the range of the stored values from BitsAllocated,
BitsStored and PixelRepresentation; the range is what the presentation inversion reflects about (`foldInvert`, `imin` / `imax` of
the model's `Params`) and what `_check_rescale_dtype` tests (`rescale_dtype_sound`).  Tie C: L2 comparison with the
`input_dtype` of real transform objects on the `narrow` grid; the pipeline oracle computes its own range. -/

/-- integer pixels (everything but float parametric maps): the range of stored values is the two's-complement range of
    BitsStored bits for signed pixels and [0, 2^BitsStored - 1] for unsigned ones -/
theorem input_range_spec (pm : Bool) (ba rep bs : Int) (h : ¬ (pm = true ∧ 16 < ba)) :
    ∃ code, inputType pm ba rep bs = .ok (code, true,
      if rep = 1 then -(2 ^ (bs - 1).toNat) else 0,
      if rep = 1 then 2 ^ (bs - 1).toNat - 1 else 2 ^ bs.toNat - 1) := by
  unfold inputType
  have hc : (pm && decide (ba > 16)) = false := by
    cases pm
    · rfl
    · simp at h ⊢; omega
  simp only [hc, Bool.false_eq_true, ↓reduceIte]
  by_cases hr : rep = 1
  · simp [hr]
  · have : (rep == 1) = false := by simpa using hr
    simp [hr, this]

/-- the stored type: signed 8 / 16 / 32 bits for PixelRepresentation 1, unsigned 8 (also for bit-packed data) / 16 / 32 otherwise,
    float 32 / 64 for parametric maps with more than 16 bits allocated -/
theorem input_type_table :
    (∀ bs, (inputType false 8 1 bs).map (·.1) = .ok 108) ∧ (∀ bs, (inputType false 16 1 bs).map (·.1) = .ok 116) ∧
    (∀ bs, (inputType false 32 1 bs).map (·.1) = .ok 132) ∧
    (∀ bs, (inputType false 1 0 bs).map (·.1) = .ok 8) ∧ (∀ bs, (inputType false 8 0 bs).map (·.1) = .ok 8) ∧
    (∀ bs, (inputType false 16 0 bs).map (·.1) = .ok 16) ∧ (∀ bs, (inputType false 32 0 bs).map (·.1) = .ok 32) ∧
    (∀ rep bs, inputType true 32 rep bs = .ok (232, false, 0, 0)) ∧ (∀ rep bs, inputType true 64 rep bs = .ok (264, false, 0, 0)) := by
  refine ⟨?_, ?_, ?_, ?_, ?_, ?_, ?_, ?_, ?_⟩ <;> intros <;> simp [inputType, Except.map]


/-- the stored type is SET (code other than -1) exactly for the bit depths the block knows: 8 / 16 / 32 bits signed, 1 / 8 / 16 / 32
    bits unsigned, 32 / 64 bits for float parametric maps; for anything else (`BitsAllocated` 24, 64-bit integers) `input_dtype`
    is never assigned and the constructor fails with an AttributeError further down -/
theorem input_type_set_iff (pm : Bool) (ba rep bs : Int) (r : Int × Bool × Int × Int) (h : inputType pm ba rep bs = .ok r) :
    r.1 ≠ -1 ↔
      (if pm = true ∧ 16 < ba then ba = 32 ∨ ba = 64
       else if rep = 1 then ba = 8 ∨ ba = 16 ∨ ba = 32 else ba = 1 ∨ ba = 8 ∨ ba = 16 ∨ ba = 32) := by
  unfold inputType at h
  injection h with h
  subst h
  by_cases hp : pm = true ∧ 16 < ba
  · obtain ⟨hp1, hp2⟩ := hp
    have hc : (pm && decide (ba > 16)) = true := by simp [hp1]; omega
    simp only [hc, ↓reduceIte, hp1, hp2, and_self]
    by_cases h32 : ba = 32
    · simp [h32]
    · by_cases h64 : ba = 64
      · simp [h64]
      · have a1 : (ba == 32) = false := by simpa using h32
        have a2 : (ba == 64) = false := by simpa using h64
        simp [a1, a2, h32, h64]
  · have hc : (pm && decide (ba > 16)) = false := by
      cases pm
      · rfl
      · simp at hp ⊢; omega
    simp only [hc, Bool.false_eq_true, ↓reduceIte, hp]
    by_cases hr : rep = 1
    · simp only [hr, beq_self_eq_true, ↓reduceIte]
      by_cases h8 : ba = 8
      · simp [h8]
      · by_cases h16 : ba = 16
        · simp [h16]
        · by_cases h32 : ba = 32
          · simp [h32]
          · have a1 : (ba == 8) = false := by simpa using h8
            have a2 : (ba == 16) = false := by simpa using h16
            have a3 : (ba == 32) = false := by simpa using h32
            simp [a1, a2, a3, h8, h16, h32]
    · have hr' : (rep == 1) = false := by simpa using hr
      simp only [hr', Bool.false_eq_true, ↓reduceIte, hr]
      by_cases h1 : ba = 1
      · simp [h1]
      · by_cases h8 : ba = 8
        · simp [h8]
        · by_cases h16 : ba = 16
          · simp [h16]
          · by_cases h32 : ba = 32
            · simp [h32]
            · have a0 : (ba == 1) = false := by simpa using h1
              have a1 : (ba == 8) = false := by simpa using h8
              have a2 : (ba == 16) = false := by simpa using h16
              have a3 : (ba == 32) = false := by simpa using h32
              simp [a0, a1, a2, a3, h1, h8, h16, h32]

/-- with 1 <= BitsStored <= BitsAllocated the range of stored values lies inside the stored type -/
theorem input_range_fits_type (ba bs : Nat) (h1 : 1 ≤ bs) (h2 : bs ≤ ba) :
    (-(2 : Int) ^ (ba - 1) ≤ -(2 ^ (((bs : Int) - 1).toNat)) ∧ (2 : Int) ^ (((bs : Int) - 1).toNat) - 1 ≤ 2 ^ (ba - 1) - 1) ∧
    ((2 : Int) ^ ((bs : Int).toNat) - 1 ≤ 2 ^ ba - 1) := by
  have e1 : ((bs : Int) - 1).toNat = bs - 1 := by omega
  have e2 : ((bs : Int)).toNat = bs := by omega
  rw [e1, e2]
  have p1 : (2 : Int) ^ (bs - 1) ≤ 2 ^ (ba - 1) := by
    exact_mod_cast Nat.pow_le_pow_right (by norm_num) (by omega : bs - 1 ≤ ba - 1)
  have p2 : (2 : Int) ^ bs ≤ 2 ^ ba := by
    exact_mod_cast Nat.pow_le_pow_right (by norm_num) h2
  refine ⟨⟨?_, ?_⟩, ?_⟩ <;> linarith


/-- **T6r feeds T6c**: with the range `[lo, hi]` that `inputType` deduces for integer pixels, the rescale-with-inversion that
`foldInvert` produces sends the stored value `s` to the rescaled value of its mirror image in the stored range: `2^BitsStored - 1 - s`
for unsigned pixels, `-1 - s` for signed ones (two's complement) - the minimum of the stored range becomes its maximum (PS3.3
C.11.6), whatever BitsStored, slope and intercept are; and the mirror image of a value of the range is a value of the range. -/
theorem inversion_reverses_stored_range (ba rep bs : Int) (m b : Rat) (code lo hi : Int)
    (ht : inputType false ba rep bs = .ok (code, true, lo, hi)) (s : Int) :
    (match foldInvert m b lo hi false with
     | .ok (a, c) => a * (s : Rat) + c = m * (((if rep = 1 then -1 - s else 2 ^ bs.toNat - 1 - s) : Int) : Rat) + b
     | .error _ => False) ∧
    (lo ≤ s → s ≤ hi → lo ≤ lo + hi - s ∧ lo + hi - s ≤ hi) := by
  obtain ⟨code', hspec⟩ := input_range_spec false ba rep bs (by simp)
  rw [hspec] at ht
  injection ht with ht
  have hlo : lo = (if rep = 1 then -(2 ^ (bs - 1).toNat) else 0) := by
    have := congrArg (fun t : Int × Bool × Int × Int => t.2.2.1) ht; simpa using this.symm
  have hhi : hi = (if rep = 1 then 2 ^ (bs - 1).toNat - 1 else 2 ^ bs.toNat - 1) := by
    have := congrArg (fun t : Int × Bool × Int × Int => t.2.2.2) ht; simpa using this.symm
  constructor
  · simp only [foldInvert, Bool.false_eq_true, ↓reduceIte]
    have hsum : lo + hi = (if rep = 1 then -1 else 2 ^ bs.toNat - 1) := by
      rw [hlo, hhi]; split <;> ring
    rw [hsum]
    split <;> (push_cast; ring)
  · intro h1 h2
    constructor <;> omega


/-! ## Tie: the hand-written model uses the expressions of the current source (bridges, `Proofs/PixelTie.lean`) -/

/-- **T6j**: `stageOutcome` = flag block (T6a) followed by the regenerated guards of the three searches, of the
colour-manager search and the four "required but missing" refusals, on all 46 656 cells. -/
theorem tie_stageOutcome_guards (fl : Flags) (ct : CType) (p : Present) :
    stageOutcome fl ct p = PixelTie.stageOutcomeGen fl ct p := by
  obtain ⟨rw, mod, voi, pal, icc, pres⟩ := fl
  obtain ⟨a, b, c, d, e⟩ := p
  exact PixelTie.stageOutcome_uses_source_guards rw mod voi pal icc pres ct a b c d e

/-- **T6k**: the slope / intercept branch of `applyEff` = regenerated range test + regenerated affine step -/
theorem tie_applyEff_affine (lo hi a b : Rat) (chk : Option (Rat × Rat)) (s : Int) :
    applyEff lo hi (.affine a b chk) s =
      (match chk with
       | some (first, last) =>
         match callRangeRefused first last (s : Rat) with
         | .ok true => .error .value
         | .ok false => (match callAffine (s : Rat) a b with | .ok y => .ok (.val y) | .error e => .error e)
         | .error e => .error e
       | none => match callAffine (s : Rat) a b with | .ok y => .ok (.val y) | .error e => .error e) :=
  PixelTie.applyEff_affine_uses_source lo hi a b chk s

/-- **T6k**: `applyEff` dispatches in the order of the source's if / elif chain and hands `apply_lut` /
`apply_voi_window` the stored attributes -/
theorem tie_applyEff_branch (lo hi : Rat) (e : Eff) (s : Int) :
    callBranch (PixelTie.effBranch e == 1) (PixelTie.effBranch e == 2) (PixelTie.effBranch e == 3) = .ok (PixelTie.effBranch e) ∧
    (∀ first data clip, e = .lut first data clip → applyEff lo hi e s = applyLut data first clip s) ∧
    (∀ fn c w inv, e = .window fn c w inv → applyEff lo hi e s = windowOut fn c w lo hi inv (s : Rat)) :=
  PixelTie.applyEff_branch_uses_source lo hi e s

/-- **T6m**: the datasets the model searches for a frame are those of the source, in its order, with its shared flags -/
theorem tie_search_order {α} (pl : Placed α) (f : Nat) (own : Option α) (h : pl.perFrame[f]? = some own) :
    pl.candidates f = datasetOrder.map fun ks => (PixelTie.pickDataset pl own ks.1, ks.2) :=
  PixelTie.candidates_follow_source_order pl f own h

/-- **T6m**: within one dataset the VOI information is taken in the source's order (table before window values) -/
theorem tie_voi_within_dataset {l w} (luts : Option l) (win : Option w) :
    voiItem luts win = PixelTie.firstSome (voiWithinDataset.map fun k => if k == "lut" then luts.map Sum.inl else win.map Sum.inr) :=
  PixelTie.voiItem_follows_source_order luts win

/-- **T6n**: `numberOfEntries` = the regenerated `LUT.number_of_entries` (0 means 2^16, constant from the source) -/
theorem tie_numberOfEntries (ds : LutDs) :
    numberOfEntries ds = (match descr ds 0 with | .ok v => lutNumberOfEntries v | .error e => .error e) :=
  PixelTie.numberOfEntries_uses_source ds

/-- **T6n**: `lutInit` refuses what the admission tests of `LUT.__init__` refuse and stores their entry count -/
theorem tie_lutInit (first : Int) (bits : Nat) (data : List Nat) (hb : bits = 8 ∨ bits = 16) :
    lutInit first bits data =
      (match lutInitCheck first (data.length : Int) with
       | .error e => .error e
       | .ok d0 => .ok ⟨[d0, first, (bits : Int)],
           encodeEntries bits data ++ (if bits = 8 ∧ data.length % 2 = 1 then [0] else [])⟩) :=
  PixelTie.lutInit_uses_source first bits data hb

/-- non-vacuity of the bridges: a negative intercept is added (the step a careless `> 0` test would drop), a
per-frame item is searched first -/
example : callAffine 7 1 (-3) = .ok 4 ∧ callRangeRefused 0 5 6 = .ok true ∧ lutNumberOfEntries 0 = .ok 65536 ∧
    lutInitCheck 0 65536 = .ok 0 := by decide +kernel
example : (⟨some 1, some 2, [some 3]⟩ : Placed Nat).candidates 0 = [(some 3, false), (some 2, true), (some 1, true)] := by decide

/-! ## Non-vacuity: concrete inputs meeting the hypotheses (evaluated in the kernel) -/

/-- rescale 2 s - 5, LINEAR window centre 40 width 17 (the witness of the fixed defect babe92f): stored 20
-> modality 35 -> ((35 - 39.5) / 16 + 0.5) = 7/32 -/
def exWindow : Params :=
  { modality := .rescale 2 (-5), voi := .window .linear 40 17, rwvm := .none, imin := 0, imax := 65535, lo := 0, hi := 1 }
def exStages : Stages := ⟨false, true, true, false, false, false⟩

example : folded exWindow exStages 20 = .ok (.val (7/32)) ∧ ref exWindow exStages 20 = .ok (.val (7/32)) := by
  decide +kernel
example : folded exWindow exStages 20 = ref exWindow exStages 20 :=
  fold_window_linear_partial exWindow exStages 2 (-5) 40 17 20 rfl rfl (by decide) (by decide +kernel) (fun h => absurd h (by decide +kernel)) (by decide +kernel) rfl rfl rfl

/-- rescale -2 s + 20 in front of a 4-entry VOI LUT starting at 3 (witness of adab703): stored 4..9 ->
modality 12, 10, 8, 6, 4, 2 -> entries 3, 3, 3, 3, 1, 0 -/
def exVoiLut : Params :=
  { modality := .rescale (-2) 20, voi := .lut 3 [0, 16, 32, 64], rwvm := .none, imin := 0, imax := 255, lo := 0, hi := 1 }

example : List.map (folded exVoiLut exStages) [4, 5, 6, 7, 8, 9]
    = [.ok (.val 1), .ok (.val 1), .ok (.val 1), .ok (.val 1), .ok (.val (1/4)), .ok (.val 0)] := by decide +kernel
example : (toOpt (build exVoiLut exStages)).isSome = true := by decide +kernel
example : listMin [0, 16, 32, 64] = some 0 ∧ listMax [0, 16, 32, 64] = some 64 := by decide

/-- the flag table is not vacuous: defaults on a monochrome image with every transform present apply the
real-world value map only; `apply_real_world_transform=False` gives modality + inversion -/
example : stageOutcome ⟨.n, .n, .f, .n, .n, true⟩ .mono ⟨true, true, true, false, true⟩
    = .ok ⟨true, false, false, false, false, false⟩ := by decide +kernel
example : stageOutcome ⟨.f, .n, .f, .n, .n, true⟩ .mono ⟨true, true, true, false, true⟩
    = .ok ⟨false, true, false, true, false, false⟩ := by decide +kernel
example : stageOutcome ⟨.t, .n, .n, .n, .n, true⟩ .mono ⟨true, true, true, false, true⟩
    = .ok ⟨true, false, false, false, false, false⟩ := by decide +kernel
example : lutInit 5 8 [7, 8, 9] = .ok ⟨[3, 5, 8], [7, 8, 9, 0]⟩ := by decide +kernel
example : selectWindow [600, 40] [1500, 400] (some ["LUNG", "SOFT"]) (.str "SOFT") = some (40, 400) := by decide +kernel
example : selectWindow [600, 40] [1500, 400] none (.idx (-1)) = some (40, 400) := by decide +kernel

/-- the umbrella theorem's hypotheses are satisfiable: the window witness is well formed and is built -/
example : WellFormed exWindow exStages where
  range := by decide +kernel
  mod_present := by intro _ h; cases h
  voi_present := by intro _ h; cases h
  win_linear := by
    intro c w _ h
    have : w = 17 := by simp [exWindow] at h; exact h.2.symm
    rw [this]; decide +kernel
  unit_slope := by
    intro m b c _ h _ _
    have : m = 2 := by simp [exWindow] at h; exact h.1.symm
    rw [this]; decide +kernel
  win_exact := by intro c w _ h; simp [exWindow] at h
  win_sigmoid := by intro c w _ h; simp [exWindow] at h
  slope := by
    intro m b fn c w _ h _ _
    have : m = 2 := by simp [exWindow] at h; exact h.1.symm
    rw [this]; decide +kernel
  voi_lut := by intro f d _ h; simp [exWindow] at h
  mod_lut := by intro f d _ h; simp [exWindow] at h
example : (toOpt (build exWindow exStages)).isSome = true := by decide +kernel

/-- a table of 65536 entries is accepted and stored with descriptor value 0 (hypothesis of `lut_roundtrip`) -/
example : ∃ ds, lutInit 0 16 (List.replicate 65536 7) = .ok ds :=
  (lut_init_accepts_iff 0 16 (List.replicate 65536 7)).mpr ⟨by decide, by decide, by rw [List.length_replicate]; decide, by rw [List.length_replicate], Or.inr rfl⟩
/-- modality LUT then VOI LUT, inverted (the witness of the fixed defect 065b656) -/
def exLuts : Params :=
  { modality := .lut 0 [3, 2, 1, 0], voi := .lut 0 [10, 20, 40, 74], rwvm := .none, imin := 0, imax := 255, lo := 0, hi := 1 }
example : List.map (folded exLuts ⟨false, true, true, true, false, false⟩) [0, 1, 2, 3]
    = [.ok (.val 0), .ok (.val (17/32)), .ok (.val (27/32)), .ok (.val 1)] := by decide +kernel
/-- an accepted integer output type: unsigned 8-bit pixels, slope -1, intercept 255 into uint8 -/
example : checkRescaleDtype (-1) 255 true 0 255 "u" "u" 255 0 255 0 = .ok true := by decide +kernel
/-- ... and the same inversion of 16-bit pixels is refused for int16 (the witness of the fixed defect cad4a4a) -/
example : checkRescaleDtype (-1) 65535 true 0 65535 "i" "u" 32767 (-32768) 65535 0 = .error .value := by decide +kernel
/-- per-frame parameters win over shared and image-level ones; uniform placement -/
example : (⟨some 1, some 2, [some 3, some 4]⟩ : Placed Nat).find 1 = some (4, false) := by decide
example : Uniform (⟨some 1, some 2, [some 3, some 4]⟩ : Placed Nat) 2 :=
  Or.inl (by intro f hf; match f, hf with | 0, _ => exact ⟨3, rfl⟩ | 1, _ => exact ⟨4, rfl⟩)

end HdVerif.C06
