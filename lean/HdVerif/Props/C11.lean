import HdVerif.Proofs.Stack
/-! # C11  Slice stacks are recognised, ordered and assembled correctly

Property theorems only (helper lemmas in `Proofs/Stack.lean`).  Statements are about the model
`Model/Stack.lean` of `get_volume_positions` & co. (`spatial.py`), bound to the code by the correspondence
(tie C); the normal vector uses the decision tables translated from the source (`Gen.normalAxisTable`,
`Gen.normalCrossOrder`, tie T).

Notation.  A *stack along a line* has plane number `j` at the row `f j` with distance `g j = n · f j` along the
normal `n`, `g` strictly increasing.  The input is the list of rows `f j` for the plane numbers `js` in ANY
order; `js` covering exactly `0 … M` means "no gaps"; repeated numbers are duplicated positions.
`planePos o n s j = o + j·s·n` is the regular stack; volume indices are "plane number − lowest plane
number" = `j` (the origin `o` is the lowest plane). -/
namespace HdVerif.C11
open HdVerif HdVerif.Affine HdVerif.Stack

/-- a complete call of `get_volume_positions` on rows `f j`, normal of the given orientation / convention /
handedness: reduces to the parsed-rows function (at least two rows). -/
theorem getVolumePositions_rows (f : Nat → V3) (js : List Nat) (hlen : 2 ≤ js.length) (ori : List Rat) (oo : Ori)
    (hori : Ori.ofList ori = some oo) {cv : Char × Char} (hcv : cv ∈ validConventions) (op : Opts)
    (hconv : op.conv = [cv.1, cv.2]) {hint : Option Rat} {rtol atol : Rat} (hopts : normaliseOpts op = .ok (hint, rtol, atol)) :
    getVolumePositions ((js.map f).map rowOf) ori op
      = volumePositionsOf (normalSpec oo cv op.rightHanded) (js.map f) op hint rtol atol := by
  have hne : ((js.map f).map rowOf).isEmpty = false := by
    cases js with
    | nil => simp at hlen
    | cons j js => rfl
  have hl1 : ¬ (js.map f).length = 1 := by simp; omega
  unfold getVolumePositions
  simp only [hopts, hne, rowsToV3_rowOf, hl1, hori, hconv, normConvention_valid hcv, normalVector_eval oo hcv,
    bind, Except.bind, pure, Except.pure, Bool.false_eq_true, if_false]

/-- the default options: relative tolerance 1 %, no hint -/
theorem default_options : normaliseOpts {} = .ok (none, 1 / 100, 0) := by decide +kernel

/-- an absolute tolerance alone -/
theorem atol_options (a : Rat) : normaliseOpts { atol := some a } = .ok (none, 0, a) := by
  simp [normaliseOpts, bind, Except.bind, pure, Except.pure]

/-- **regular stacks are recognised**: planes `o + j·s·n` (`n` the unit normal of an orthonormal orientation in
any of the eight index conventions and either handedness, `s > 0`), the input rows in ANY order `js` covering
exactly `0 … N−1`, `N ≥ 2`, duplicated positions allowed when declared, any non-negative tolerances:
the answer is the spacing `s` and for every input row its plane number (= `k_i − min k`). -/
theorem regular_stack_recognised (ori : List Rat) (oo : Ori) (hori : Ori.ofList ori = some oo)
    (ho : OrthoPair oo.row oo.col) {cv : Char × Char} (hcv : cv ∈ validConventions) (op : Opts)
    (hconv : op.conv = [cv.1, cv.2]) (hsort : op.sort = true) (hmiss : op.allowMissing = false)
    {rtol atol : Rat} (hopts : normaliseOpts op = .ok (none, rtol, atol)) (hr : 0 ≤ rtol) (ha : 0 ≤ atol)
    (o : V3) {s : Rat} (hs : 0 < s) (js : List Nat) {N : Nat} (hN : 2 ≤ N) (hmem : ∀ j, j ∈ js ↔ j < N)
    (hdup : op.allowDuplicate = true ∨ js.Nodup) :
    getVolumePositions ((js.map (planePos o (normalSpec oo cv op.rightHanded) s)).map rowOf) ori op
      = .ok (some (s, js.map Int.ofNat)) := by
  have hn := normalSpec_unit oo ho hcv op.rightHanded
  have hlen : 2 ≤ js.length := by
    have h0 : 0 ∈ js := (hmem 0).mpr (by omega)
    have h1 : 1 ∈ js := (hmem 1).mpr (by omega)
    match js, h0, h1 with
    | [], h0, _ => cases h0
    | [a], h0, h1 => simp at h0 h1; omega
    | _ :: _ :: _, _, _ => simp
  rw [getVolumePositions_rows _ js hlen ori oo hori hcv op hconv hopts]
  exact volumePositionsOf_regular o _ hn hs js hN hmem op hsort hmiss hdup hr ha

/-- **the indices order the planes along the positive normal**: in the answer for a regular stack, a row has a
smaller index exactly when it lies at a smaller distance along the normal of the requested convention. -/
theorem order_positive_normal (o nrm : V3) (hn : nrm.dot nrm = 1) {s : Rat} (hs : 0 < s) (i j : Nat) :
    (Int.ofNat i < Int.ofNat j) ↔ nrm.dot (planePos o nrm s i) < nrm.dot (planePos o nrm s j) := by
  rw [dot_planePos o nrm s hn, dot_planePos o nrm s hn, gdist_lt_iff hs]
  exact Int.ofNat_lt

/-- the positive normal IS the slice axis of the rotation matrix of the same convention and handedness
(C10 `columns_orthogonal_lengths_handedness`): the frame (axis 0, axis 1, normal) has the requested handedness. -/
theorem positive_normal_is_slice_axis (oo : Ori) {cv : Char × Char} (hcv : cv ∈ validConventions) (rh : Bool) :
    normalVector oo cv rh = .ok (normalSpec oo cv rh) ∧
    ∃ m, createRotation oo [cv.1, cv.2] false rh (.seq [1, 1]) 1 = .ok m ∧ m.c2 = normalSpec oo cv rh := by
  refine ⟨normalVector_eval oo hcv rh, _, createRotation_eval oo hcv false rh 1 1 1 one_pos one_pos, ?_⟩
  cases rh <;> simp [frame, normalSpec]

/-! ## refusals -/

/-- **irregular stacks are rejected**: planes on a line along the normal at strictly increasing distances `g j`
(rows `o + g j · n`), input in any order without gaps in the numbering: if some consecutive spacing is not within
tolerance of the mean spacing `(g M − g 0)/M`, the answer is `(None, None)`. -/
theorem irregular_rejected (nrm : V3) (hn : nrm.dot nrm = 1) (o : V3) (g : Nat → Rat) (hg : StrictMono g)
    (js : List Nat) {M : Nat} (hM : 1 ≤ M) (hmem : ∀ j, j ∈ js ↔ j < M + 1) (op : Opts)
    (hsort : op.sort = true) (hmiss : op.allowMissing = false) (hdup : op.allowDuplicate = true ∨ js.Nodup)
    (rtol atol : Rat) (k : Nat) (hk : k < M)
    (hbad : isClose (g (k + 1) - g k) ((g M - g 0) / (M : Rat)) rtol atol = false) :
    volumePositionsOf nrm (js.map fun j => o.add (V3.smul (g j) nrm)) op none rtol atol = .ok none := by
  have hfg : ∀ j, nrm.dot (o.add (V3.smul (g j) nrm)) = nrm.dot o + g j := by
    intro j
    obtain ⟨a, b, c⟩ := o
    obtain ⟨x, y, z⟩ := nrm
    simp only [V3.dot] at hn
    simp only [V3.add, V3.smul, V3.dot]
    linear_combination (g j) * hn
  have hg' : StrictMono fun j => nrm.dot o + g j := fun a b h => by simpa using hg h
  rw [volumePositionsOf_line nrm _ _ hfg hg' js hM hmem op hsort hmiss hdup rtol atol]
  have hall : ((diffs ((List.range (M + 1)).map fun j => nrm.dot o + g j)).all fun x =>
      isClose x ((nrm.dot o + g M - (nrm.dot o + g 0)) / (M : Rat)) rtol atol) = false := by
    rw [Bool.eq_false_iff, ne_eq, List.all_eq_true]
    intro hall
    have hmemd : (g (k + 1) - g k) ∈ diffs ((List.range (M + 1)).map fun j => nrm.dot o + g j) := by
      have := diffs_mem (fun j => nrm.dot o + g j) (M + 1) k (by omega)
      simpa using this
    have := hall _ hmemd
    have e : (nrm.dot o + g M - (nrm.dot o + g 0)) = g M - g 0 := by ring
    rw [e, hbad] at this
    cases this
  simp only [hall, Bool.false_and, Bool.false_eq_true, if_false]

/-- **sheared stacks are rejected**: planes regularly spaced along the normal (`s > 0`) but displaced in-plane by
`j·t·w` (`w` a unit vector in the plane): when the stacking direction deviates by more than the tolerance
(`(1 − 10⁻³)² (s² + t²) ≥ s²`, i.e. roughly `|t| ≥ 0.0448 s`), the answer is `(None, None)` — for every input
order, although the spacing along the normal is perfectly regular. -/
theorem sheared_rejected (nrm w : V3) (hn : nrm.dot nrm = 1) (hw : w.dot w = 1) (hnw : nrm.dot w = 0) (o : V3)
    {s t : Rat} (hs : 0 < s) (hshear : s * s ≤ (1 - perpTol) * (1 - perpTol) * (s * s + t * t))
    (js : List Nat) {M : Nat} (hM : 1 ≤ M) (hmem : ∀ j, j ∈ js ↔ j < M + 1) (op : Opts)
    (hsort : op.sort = true) (hmiss : op.allowMissing = false) (hdup : op.allowDuplicate = true ∨ js.Nodup)
    (rtol atol : Rat) :
    volumePositionsOf nrm (js.map fun j => (planePos o nrm s j).add (V3.smul ((j : Rat) * t) w)) op none rtol atol
      = .ok none := by
  have hfg : ∀ j : Nat, nrm.dot ((planePos o nrm s j).add (V3.smul ((j : Rat) * t) w)) = gdist (nrm.dot o) s j := by
    intro j
    rw [← dot_planePos o nrm s hn j]
    generalize planePos o nrm s j = p
    obtain ⟨a, b, c⟩ := p
    obtain ⟨x, y, z⟩ := nrm
    obtain ⟨u, v, r⟩ := w
    simp only [V3.dot] at hnw
    simp only [V3.add, V3.smul, V3.dot]
    linear_combination ((j : Rat) * t) * hnw
  have hg : StrictMono (gdist (nrm.dot o) s) := fun a b h => gdist_lt hs h
  rw [volumePositionsOf_line nrm _ _ hfg hg js hM hmem op hsort hmiss hdup rtol atol]
  have hperp : isPerpendicular nrm (((planePos o nrm s M).add (V3.smul ((M : Rat) * t) w)).sub
      ((planePos o nrm s 0).add (V3.smul (((0 : Nat) : Rat) * t) w))) = false := by
    have hspan : (((planePos o nrm s M).add (V3.smul ((M : Rat) * t) w)).sub
        ((planePos o nrm s 0).add (V3.smul (((0 : Nat) : Rat) * t) w)))
        = (V3.smul ((M : Rat) * s) nrm).add (V3.smul ((M : Rat) * t) w) := by
      obtain ⟨a, b, c⟩ := o
      obtain ⟨x, y, z⟩ := nrm
      obtain ⟨u, v, r⟩ := w
      simp only [planePos, V3.add, V3.smul, V3.sub, V3.mk.injEq]
      refine ⟨?_, ?_, ?_⟩ <;> push_cast <;> ring
    rw [hspan]
    have ha : nrm.dot ((V3.smul ((M : Rat) * s) nrm).add (V3.smul ((M : Rat) * t) w)) = (M : Rat) * s := by
      obtain ⟨x, y, z⟩ := nrm
      obtain ⟨u, v, r⟩ := w
      simp only [V3.dot] at hn hnw
      simp only [V3.add, V3.smul, V3.dot]
      linear_combination ((M : Rat) * s) * hn + ((M : Rat) * t) * hnw
    have hq : ((V3.smul ((M : Rat) * s) nrm).add (V3.smul ((M : Rat) * t) w)).dot
        ((V3.smul ((M : Rat) * s) nrm).add (V3.smul ((M : Rat) * t) w)) = (M : Rat) * (M : Rat) * (s * s + t * t) := by
      obtain ⟨x, y, z⟩ := nrm
      obtain ⟨u, v, r⟩ := w
      simp only [V3.dot] at hn hnw hw
      simp only [V3.add, V3.smul, V3.dot]
      linear_combination ((M : Rat) * s) * ((M : Rat) * s) * hn + ((M : Rat) * t) * ((M : Rat) * t) * hw
        + 2 * ((M : Rat) * s) * ((M : Rat) * t) * hnw
    have hMM : 0 ≤ (M : Rat) * (M : Rat) := mul_self_nonneg _
    simp only [isPerpendicular, ha, hq, Bool.and_eq_false_iff, decide_eq_false_iff_not, not_lt]
    left; right
    nlinarith
  simp only [hperp, Bool.and_false, Bool.false_eq_true, if_false]

end HdVerif.C11
