import HdVerif.Model.Stack
/-! # C11  Slice stacks are recognised, ordered and assembled correctly (theorems follow) -/
namespace HdVerif.C11
end HdVerif.C11
