import HdVerif.Proofs.Stack
import HdVerif.Proofs.StackTie
/-! # C11  Slice stacks are recognised, ordered and assembled correctly

Property theorems only (helper lemmas in `Proofs/Stack.lean`).  Statements are about the model
`Model/Stack.lean` of `get_volume_positions` & co. (`spatial.py`), bound to the code by the correspondence
(tie C); the normal vector uses the decision tables translated from the source (`Gen.normalAxisTable`,
`Gen.normalCrossOrder`, tie T).

Notation.  A *stack along a line* has plane number `j` at the row `f j` with distance `g j = n · f j` along the
normal `n`, `g` strictly increasing.  The input is the list of rows `f j` for the plane numbers `js` in ANY
order; `js` covering exactly `0 … M` means "no gaps"; repeated numbers are duplicated positions.
`planePos o n s j = o + j·s·n` is the regular stack; volume indices are "plane number − lowest plane
number" = `j` (the origin `o` is the lowest plane). -/
namespace HdVerif.C11
open HdVerif HdVerif.Affine HdVerif.Stack

/-- a complete call of `get_volume_positions` on rows `f j`, normal of the given orientation / convention /
handedness: reduces to the parsed-rows function (at least two rows). -/
theorem getVolumePositions_rows (f : Nat → V3) (js : List Nat) (hlen : 2 ≤ js.length) (ori : List Rat) (oo : Ori)
    (hori : Ori.ofList ori = some oo) {cv : Char × Char} (hcv : cv ∈ validConventions) (op : Opts)
    (hconv : op.conv = [cv.1, cv.2]) {hint : Option Rat} {rtol atol : Rat} (hopts : normaliseOpts op = .ok (hint, rtol, atol)) :
    getVolumePositions ((js.map f).map rowOf) ori op
      = volumePositionsOf (normalSpec oo cv op.rightHanded) (js.map f) op hint rtol atol := by
  have hne : ((js.map f).map rowOf).isEmpty = false := by
    cases js with
    | nil => simp at hlen
    | cons j js => rfl
  have hl1 : ¬ (js.map f).length = 1 := by simp; omega
  unfold getVolumePositions
  simp only [hopts, hne, rowsToV3_rowOf, hl1, hori, hconv, normConvention_valid hcv, normalVector_eval oo hcv,
    bind, Except.bind, pure, Except.pure, Bool.false_eq_true, if_false]

/-- the default options: relative tolerance 1 %, no hint -/
theorem default_options : normaliseOpts {} = .ok (none, 1 / 100, 0) := by decide +kernel

/-- an absolute tolerance alone -/
theorem atol_options (a : Rat) : normaliseOpts { atol := some a } = .ok (none, 0, a) := by
  simp [normaliseOpts, bind, Except.bind, pure, Except.pure]

/-- **regular stacks are recognised**: planes `o + j·s·n` (`n` the unit normal of an orthonormal orientation in
any of the eight index conventions and either handedness, `s > 0`), the input rows in ANY order `js` covering
exactly `0 … N−1`, `N ≥ 2`, duplicated positions allowed when declared, any non-negative tolerances:
the answer is the spacing `s` and for every input row its plane number (= `k_i − min k`). -/
theorem regular_stack_recognised (ori : List Rat) (oo : Ori) (hori : Ori.ofList ori = some oo)
    (ho : OrthoPair oo.row oo.col) {cv : Char × Char} (hcv : cv ∈ validConventions) (op : Opts)
    (hconv : op.conv = [cv.1, cv.2]) (hsort : op.sort = true) (hmiss : op.allowMissing = false)
    {rtol atol : Rat} (hopts : normaliseOpts op = .ok (none, rtol, atol)) (hr : 0 ≤ rtol) (ha : 0 ≤ atol)
    (o : V3) {s : Rat} (hs : 0 < s) (js : List Nat) {N : Nat} (hN : 2 ≤ N) (hmem : ∀ j, j ∈ js ↔ j < N)
    (hdup : op.allowDuplicate = true ∨ js.Nodup) :
    getVolumePositions ((js.map (planePos o (normalSpec oo cv op.rightHanded) s)).map rowOf) ori op
      = .ok (some (s, js.map Int.ofNat)) := by
  have hn := normalSpec_unit oo ho hcv op.rightHanded
  have hlen : 2 ≤ js.length := by
    have h0 : 0 ∈ js := (hmem 0).mpr (by omega)
    have h1 : 1 ∈ js := (hmem 1).mpr (by omega)
    match js, h0, h1 with
    | [], h0, _ => cases h0
    | [a], h0, h1 => simp at h0 h1; omega
    | _ :: _ :: _, _, _ => simp
  rw [getVolumePositions_rows _ js hlen ori oo hori hcv op hconv hopts]
  exact volumePositionsOf_regular o _ hn hs js hN hmem op hsort hmiss hdup hr ha

/-- … and end to end with a spacing hint: a hint within tolerance of `s` changes nothing, any other is reported (RuntimeError) -/
theorem regular_stack_with_hint_recognised (ori : List Rat) (oo : Ori) (hori : Ori.ofList ori = some oo)
    (ho : OrthoPair oo.row oo.col) {cv : Char × Char} (hcv : cv ∈ validConventions) (op : Opts)
    (hconv : op.conv = [cv.1, cv.2]) (hsort : op.sort = true) (hmiss : op.allowMissing = false)
    {h rtol atol : Rat} (hopts : normaliseOpts op = .ok (some h, rtol, atol)) (hr : 0 ≤ rtol) (ha : 0 ≤ atol)
    (o : V3) {s : Rat} (hs : 0 < s) (js : List Nat) {M : Nat} (hM : 1 ≤ M) (hmem : ∀ j, j ∈ js ↔ j < M + 1)
    (hdup : op.allowDuplicate = true ∨ js.Nodup) :
    getVolumePositions ((js.map (planePos o (normalSpec oo cv op.rightHanded) s)).map rowOf) ori op
      = if isClose s h rtol atol then .ok (some (s, js.map Int.ofNat)) else .error .runtime := by
  have hn := normalSpec_unit oo ho hcv op.rightHanded
  have hlen : 2 ≤ js.length := by
    have h0 : 0 ∈ js := (hmem 0).mpr (by omega)
    have h1 : 1 ∈ js := (hmem 1).mpr (by omega)
    match js, h0, h1 with
    | [], h0, _ => cases h0
    | [a], h0, h1 => simp at h0 h1; omega
    | _ :: _ :: _, _, _ => simp
  rw [getVolumePositions_rows _ js hlen ori oo hori hcv op hconv hopts,
    hint_checked_line _ _ _ (dot_planePos o _ s hn) (fun a b hab => gdist_lt hs hab) js hM hmem op hsort hmiss hdup h rtol atol,
    mean_spacing' _ s M hM,
    volumePositionsOf_regular o _ hn hs js (by omega) hmem op hsort hmiss hdup hr ha]

/-- **a single plane is a volume** by stipulation: spacing = the hint (absolute value) or 1, index 0 — answered before
the orientation is even looked at -/
theorem single_plane_recognised (p : V3) (ori : List Rat) (op : Opts) {hint : Option Rat} {rtol atol : Rat}
    (hopts : normaliseOpts op = .ok (hint, rtol, atol)) :
    getVolumePositions [rowOf p] ori op = .ok (some (hint.getD 1, [0])) := by
  have hrow : rowsToV3 [rowOf p] = .ok [p] := rowsToV3_rowOf [p]
  unfold getVolumePositions
  simp [hopts, hrow, bind, Except.bind, pure, Except.pure]

/-- several frames at ONE position (declared duplicates) likewise: spacing = hint or 1, every index 0 -/
theorem one_position_recognised (nrm p : V3) (n : Nat) (op : Opts) (hsort : op.sort = true)
    (hdup : op.allowDuplicate = true) (hint : Option Rat) (rtol atol : Rat) :
    volumePositionsOf nrm (List.replicate (n + 1) p) op hint rtol atol
      = .ok (some (hint.getD 1, List.replicate (n + 1) 0)) := by
  have hu : uniqueRows (List.replicate (n + 1) p) = [p] := by
    have h1 : uniqueRows [p] = [p] := rfl
    rw [← h1]
    apply uniqueRows_congr
    intro q
    simp only [List.mem_replicate, List.mem_singleton]
    constructor
    · rintro ⟨_, rfl⟩; rfl
    · rintro rfl; exact ⟨by omega, rfl⟩
  unfold volumePositionsOf
  simp [hdup, hu, hsort, pure, Except.pure, List.map_replicate]

/-- arithmetic of the regular stack (no library function in the statement; the clause about the library is
`accepted_indices_increase` below): plane numbers and distances along the normal order the planes alike. -/
theorem order_positive_normal (o nrm : V3) (hn : nrm.dot nrm = 1) {s : Rat} (hs : 0 < s) (i j : Nat) :
    (Int.ofNat i < Int.ofNat j) ↔ nrm.dot (planePos o nrm s i) < nrm.dot (planePos o nrm s j) := by
  rw [dot_planePos o nrm s hn, dot_planePos o nrm s hn, gdist_lt_iff hs]
  exact Int.ofNat_lt

/-- **the indices order the planes along the positive normal — for EVERY accepted input** (sorting on, no gaps
allowed; regular or merely within tolerance, any options): whenever the function answers `(spacing, indices)`, a row
that lies at a smaller distance along the normal has a strictly smaller index. -/
theorem accepted_indices_increase (nrm : V3) (ps : List V3) (op : Opts) (hsort : op.sort = true)
    (hmiss : op.allowMissing = false) (hint : Option Rat) (rtol atol sp : Rat) (vp : List Int)
    (h : volumePositionsOf nrm ps op hint rtol atol = .ok (some (sp, vp)))
    (i j : Nat) (hi : i < ps.length) (hj : j < ps.length) (hlt : nrm.dot ps[i] < nrm.dot ps[j]) :
    ∃ vi vj, vp[i]? = some vi ∧ vp[j]? = some vj ∧ vi < vj := by
  unfold volumePositionsOf at h
  simp only [hsort, if_true, hmiss, pure, Except.pure] at h
  have hmi : ps[i] ∈ uniqueRows ps := (mem_uniqueRows _ ps).mpr (List.getElem_mem hi)
  have hmj : ps[j] ∈ uniqueRows ps := (mem_uniqueRows _ ps).mpr (List.getElem_mem hj)
  split at h
  · cases h
  · split at h
    · -- a single distinct row: all rows coincide, no two distances differ
      rename_i hlen1
      exfalso
      match hu : uniqueRows ps, hlen1 with
      | [q], _ =>
        rw [hu] at hmi hmj
        simp only [List.mem_singleton] at hmi hmj
        rw [hmi, hmj] at hlt
        exact lt_irrefl _ hlt
    · obtain ⟨r, hr, h⟩ := bind_ok h
      cases r with
      | none => cases h
      | some r =>
        obtain ⟨sp', inv⟩ := r
        simp only [] at h
        obtain ⟨vp', hread, h⟩ := bind_ok h
        simp only [Except.ok.injEq, Option.some.injEq, Prod.mk.injEq] at h
        obtain ⟨_, rfl⟩ := h
        have hinv := examine_some_inv hr
        obtain ⟨hvi, hsi⟩ := readIndices_getElem inv (indexIn (uniqueRows ps)) ps vp' hread i hi
        obtain ⟨hvj, hsj⟩ := readIndices_getElem inv (indexIn (uniqueRows ps)) ps vp' hread j hj
        -- positions of the two rows among the unique rows
        have hai := List.idxOf_lt_length_of_mem hmi
        have haj := List.idxOf_lt_length_of_mem hmj
        have hgi : (uniqueRows ps)[(uniqueRows ps).idxOf ps[i]] = ps[i] := List.getElem_idxOf hai
        have hgj : (uniqueRows ps)[(uniqueRows ps).idxOf ps[j]] = ps[j] := List.getElem_idxOf haj
        set d := (uniqueRows ps).map nrm.dot with hd
        have hdl : d.length = (uniqueRows ps).length := by simp [hd]
        have hda : d[(uniqueRows ps).idxOf ps[i]]'(by omega) = nrm.dot ps[i] := by simp [hd, hgi]
        have hdb : d[(uniqueRows ps).idxOf ps[j]]'(by omega) = nrm.dot ps[j] := by simp [hd, hgj]
        have hrl : (ranks d).length = d.length := ranks_length d
        have hia : (uniqueRows ps).idxOf ps[i] < (ranks d).length := by omega
        have hja : (uniqueRows ps).idxOf ps[j] < (ranks d).length := by omega
        obtain ⟨ra, hra⟩ : ∃ ra, (ranks d)[(uniqueRows ps).idxOf ps[i]]? = some ra :=
          ⟨_, List.getElem?_eq_getElem hia⟩
        obtain ⟨rb, hrb⟩ : ∃ rb, (ranks d)[(uniqueRows ps).idxOf ps[j]]? = some rb :=
          ⟨_, List.getElem?_eq_getElem hja⟩
        have hrank := ranks_lt_of_lt d _ _ (by omega) (by omega) (by rw [hda, hdb]; exact hlt) ra rb hra hrb
        refine ⟨Int.ofNat ra, Int.ofNat rb, ?_, ?_, Int.ofNat_lt.mpr hrank⟩
        · rw [hvi, hinv, List.getElem?_map]; simp only [indexIn, hra, Option.map]
        · rw [hvj, hinv, List.getElem?_map]; simp only [indexIn, hrb, Option.map]

/-- the positive normal IS the slice axis of the rotation matrix of the same convention and handedness
(C10 `columns_orthogonal_lengths_handedness`): the frame (axis 0, axis 1, normal) has the requested handedness. -/
theorem positive_normal_is_slice_axis (oo : Ori) {cv : Char × Char} (hcv : cv ∈ validConventions) (rh : Bool) :
    normalVector oo cv rh = .ok (normalSpec oo cv rh) ∧
    ∃ m, createRotation oo [cv.1, cv.2] false rh (.seq [1, 1]) 1 = .ok m ∧ m.c2 = normalSpec oo cv rh := by
  refine ⟨normalVector_eval oo hcv rh, _, createRotation_eval oo hcv false rh 1 1 1 one_pos one_pos, ?_⟩
  cases rh <;> simp [frame, normalSpec]

/-- **recognised EXACTLY WHEN regular within tolerance**: for a stack along a line (rows `f j` at strictly increasing
distances `g j = n · f j`, any input order `js` covering `0 … M`, duplicates when declared; sorting on, no gaps
allowed, no hint) the function answers `(mean spacing, plane numbers)` if every consecutive spacing is within
`atol + rtol·|mean|` of the mean spacing `(g M − g 0)/M` AND the span `f M − f 0` is perpendicular to the planes
(within `10⁻³` on the cosine), and `(None, None)` otherwise — nothing else enters the decision. -/
theorem recognised_iff_regular (nrm : V3) (f : Nat → V3) (g : Nat → Rat) (hfg : ∀ j, nrm.dot (f j) = g j)
    (hg : StrictMono g) (js : List Nat) {M : Nat} (hM : 1 ≤ M) (hmem : ∀ j, j ∈ js ↔ j < M + 1) (op : Opts)
    (hsort : op.sort = true) (hmiss : op.allowMissing = false) (hdup : op.allowDuplicate = true ∨ js.Nodup)
    (rtol atol : Rat) :
    volumePositionsOf nrm (js.map f) op none rtol atol
      = .ok (if ((diffs ((List.range (M + 1)).map g)).all fun x => isClose x ((g M - g 0) / (M : Rat)) rtol atol)
                && isPerpendicular nrm ((f M).sub (f 0))
             then some ((g M - g 0) / (M : Rat), js.map Int.ofNat) else none) :=
  volumePositionsOf_line nrm f g hfg hg js hM hmem op hsort hmiss hdup rtol atol

/-! ## refusals -/

/-- **irregular stacks are rejected**: planes on a line along the normal at strictly increasing distances `g j`
(rows `o + g j · n`), input in any order without gaps in the numbering: if some consecutive spacing is not within
tolerance of the mean spacing `(g M − g 0)/M`, the answer is `(None, None)`. -/
theorem irregular_rejected (nrm : V3) (hn : nrm.dot nrm = 1) (o : V3) (g : Nat → Rat) (hg : StrictMono g)
    (js : List Nat) {M : Nat} (hM : 1 ≤ M) (hmem : ∀ j, j ∈ js ↔ j < M + 1) (op : Opts)
    (hsort : op.sort = true) (hmiss : op.allowMissing = false) (hdup : op.allowDuplicate = true ∨ js.Nodup)
    (rtol atol : Rat) (k : Nat) (hk : k < M)
    (hbad : isClose (g (k + 1) - g k) ((g M - g 0) / (M : Rat)) rtol atol = false) :
    volumePositionsOf nrm (js.map fun j => o.add (V3.smul (g j) nrm)) op none rtol atol = .ok none := by
  have hfg : ∀ j, nrm.dot (o.add (V3.smul (g j) nrm)) = nrm.dot o + g j := by
    intro j
    obtain ⟨a, b, c⟩ := o
    obtain ⟨x, y, z⟩ := nrm
    simp only [V3.dot] at hn
    simp only [V3.add, V3.smul, V3.dot]
    linear_combination (g j) * hn
  have hg' : StrictMono fun j => nrm.dot o + g j := fun a b h => by simpa using hg h
  rw [volumePositionsOf_line nrm _ _ hfg hg' js hM hmem op hsort hmiss hdup rtol atol]
  have hall : ((diffs ((List.range (M + 1)).map fun j => nrm.dot o + g j)).all fun x =>
      isClose x ((nrm.dot o + g M - (nrm.dot o + g 0)) / (M : Rat)) rtol atol) = false := by
    rw [Bool.eq_false_iff, ne_eq, List.all_eq_true]
    intro hall
    have hmemd : (g (k + 1) - g k) ∈ diffs ((List.range (M + 1)).map fun j => nrm.dot o + g j) := by
      have := diffs_mem (fun j => nrm.dot o + g j) (M + 1) k (by omega)
      simpa using this
    have := hall _ hmemd
    have e : (nrm.dot o + g M - (nrm.dot o + g 0)) = g M - g 0 := by ring
    rw [e, hbad] at this
    cases this
  simp only [hall, Bool.false_and, Bool.false_eq_true, if_false]

/-- **sheared stacks are rejected**: planes regularly spaced along the normal (`s > 0`) but displaced in-plane by
`j·t·w` (`w` a unit vector in the plane): when the stacking direction deviates by more than the tolerance
(`(1 − 10⁻³)² (s² + t²) ≥ s²`, i.e. roughly `|t| ≥ 0.0448 s`), the answer is `(None, None)` — for every input
order, although the spacing along the normal is perfectly regular. -/
theorem sheared_rejected (nrm w : V3) (hn : nrm.dot nrm = 1) (hw : w.dot w = 1) (hnw : nrm.dot w = 0) (o : V3)
    {s t : Rat} (hs : 0 < s) (hshear : s * s ≤ (1 - perpTol) * (1 - perpTol) * (s * s + t * t))
    (js : List Nat) {M : Nat} (hM : 1 ≤ M) (hmem : ∀ j, j ∈ js ↔ j < M + 1) (op : Opts)
    (hsort : op.sort = true) (hmiss : op.allowMissing = false) (hdup : op.allowDuplicate = true ∨ js.Nodup)
    (rtol atol : Rat) :
    volumePositionsOf nrm (js.map fun j => (planePos o nrm s j).add (V3.smul ((j : Rat) * t) w)) op none rtol atol
      = .ok none := by
  have hfg : ∀ j : Nat, nrm.dot ((planePos o nrm s j).add (V3.smul ((j : Rat) * t) w)) = gdist (nrm.dot o) s j := by
    intro j
    rw [← dot_planePos o nrm s hn j]
    generalize planePos o nrm s j = p
    obtain ⟨a, b, c⟩ := p
    obtain ⟨x, y, z⟩ := nrm
    obtain ⟨u, v, r⟩ := w
    simp only [V3.dot] at hnw
    simp only [V3.add, V3.smul, V3.dot]
    linear_combination ((j : Rat) * t) * hnw
  have hg : StrictMono (gdist (nrm.dot o) s) := fun a b h => gdist_lt hs h
  rw [volumePositionsOf_line nrm _ _ hfg hg js hM hmem op hsort hmiss hdup rtol atol]
  have hperp : isPerpendicular nrm (((planePos o nrm s M).add (V3.smul ((M : Rat) * t) w)).sub
      ((planePos o nrm s 0).add (V3.smul (((0 : Nat) : Rat) * t) w))) = false := by
    have hspan : (((planePos o nrm s M).add (V3.smul ((M : Rat) * t) w)).sub
        ((planePos o nrm s 0).add (V3.smul (((0 : Nat) : Rat) * t) w)))
        = (V3.smul ((M : Rat) * s) nrm).add (V3.smul ((M : Rat) * t) w) := by
      obtain ⟨a, b, c⟩ := o
      obtain ⟨x, y, z⟩ := nrm
      obtain ⟨u, v, r⟩ := w
      simp only [planePos, V3.add, V3.smul, V3.sub, V3.mk.injEq]
      refine ⟨?_, ?_, ?_⟩ <;> push_cast <;> ring
    rw [hspan]
    have ha : nrm.dot ((V3.smul ((M : Rat) * s) nrm).add (V3.smul ((M : Rat) * t) w)) = (M : Rat) * s := by
      obtain ⟨x, y, z⟩ := nrm
      obtain ⟨u, v, r⟩ := w
      simp only [V3.dot] at hn hnw
      simp only [V3.add, V3.smul, V3.dot]
      linear_combination ((M : Rat) * s) * hn + ((M : Rat) * t) * hnw
    have hq : ((V3.smul ((M : Rat) * s) nrm).add (V3.smul ((M : Rat) * t) w)).dot
        ((V3.smul ((M : Rat) * s) nrm).add (V3.smul ((M : Rat) * t) w)) = (M : Rat) * (M : Rat) * (s * s + t * t) := by
      obtain ⟨x, y, z⟩ := nrm
      obtain ⟨u, v, r⟩ := w
      simp only [V3.dot] at hn hnw hw
      simp only [V3.add, V3.smul, V3.dot]
      linear_combination ((M : Rat) * s) * ((M : Rat) * s) * hn + ((M : Rat) * t) * ((M : Rat) * t) * hw
        + 2 * ((M : Rat) * s) * ((M : Rat) * t) * hnw
    have hMM : 0 ≤ (M : Rat) * (M : Rat) := mul_self_nonneg _
    simp only [isPerpendicular, ha, hq, Bool.and_eq_false_iff, decide_eq_false_iff_not, not_lt]
    left; right
    nlinarith
  simp only [hperp, Bool.and_false, Bool.false_eq_true, if_false]

/-! ## input-order independence -/

/-- **permutation equivariance**: for two orders of the same rows, `get_volume_positions` (sorting on, any
options, any rows — regular or not) fails alike, refuses both, or accepts both with the same spacing and ONE
function from rows to volume indices: permuting the input permutes the output, nothing else changes. -/
theorem permutation_equivariance (nrm : V3) {ps ps' : List V3} (h : ps.Perm ps') (op : Opts) (hsort : op.sort = true)
    (hint : Option Rat) (rtol atol : Rat) :
    (∃ e, volumePositionsOf nrm ps op hint rtol atol = .error e ∧ volumePositionsOf nrm ps' op hint rtol atol = .error e) ∨
    (volumePositionsOf nrm ps op hint rtol atol = .ok none ∧ volumePositionsOf nrm ps' op hint rtol atol = .ok none) ∨
    (∃ sp, ∃ f : V3 → Int, volumePositionsOf nrm ps op hint rtol atol = .ok (some (sp, ps.map f)) ∧
      volumePositionsOf nrm ps' op hint rtol atol = .ok (some (sp, ps'.map f))) :=
  volumePositionsOf_perm nrm h op hsort hint rtol atol

/-- `np.unique(axis=0)` depends only on the set of rows (the reason for the theorem above) -/
theorem unique_rows_canonical {ps ps' : List V3} (h : ∀ q, q ∈ ps ↔ q ∈ ps') : uniqueRows ps = uniqueRows ps' :=
  uniqueRows_congr h

/-- duplicated positions are detected exactly: the unique rows are fewer iff some row repeats -/
theorem duplicates_detected (ps : List V3) : (uniqueRows ps).length < ps.length ↔ ¬ ps.Nodup :=
  uniqueRows_length_lt_iff ps

/-- undeclared duplicates are refused -/
theorem undeclared_duplicates_refused (nrm : V3) (ps : List V3) (hd : ¬ ps.Nodup) (op : Opts)
    (hdup : op.allowDuplicate = false) (hint : Option Rat) (rtol atol : Rat) :
    volumePositionsOf nrm ps op hint rtol atol = .ok none := by
  have := (uniqueRows_length_lt_iff ps).mpr hd
  simp [volumePositionsOf, hdup, this, pure, Except.pure]

/-! ## sorting datasets and assembling a series -/

/-- **`sort_datasets` yields the plane order**: datasets of a stack along a line (distinct distances `g j`,
`g` strictly increasing along the positive normal of the convention), given in ANY order, come out in the order
of the plane numbers `0, 1, …, N−1` — increasing along the positive normal, and identical to the order of the
volume indices of `regular_stack_recognised` (dataset of index `k` at place `k`). -/
theorem sort_datasets_spec {α} (f : Nat → V3) (g : Nat → Rat) (pay : Nat → α) (ori : List Rat) (oo : Ori)
    (hori : Ori.ofList ori = some oo) {cv : Char × Char} (hcv : cv ∈ validConventions) (rh : Bool)
    (hfg : ∀ j, (normalSpec oo cv rh).dot (f j) = g j) (hg : StrictMono g) {js : List Nat} {N : Nat} (hN : 1 ≤ N)
    (hp : js.Perm (List.range N)) :
    sortDatasets (js.map fun j => (rowOf (f j), pay j)) ori [cv.1, cv.2] rh = .ok ((List.range N).map pay) ∧
    planeSortIndex (js.map fun j => rowOf (f j)) ori [cv.1, cv.2] rh = .ok ((List.range N).map fun r => js.idxOf r) := by
  have hne : (js.map fun j => rowOf (f j)).isEmpty = false := by
    have : js.length = N := by rw [hp.length_eq, List.length_range]
    cases js with
    | nil => simp at this; omega
    | cons j js => rfl
  have hrows : (js.map fun j => rowOf (f j)) = (js.map f).map rowOf := by rw [List.map_map]; rfl
  have hd : (js.map f).map (normalSpec oo cv rh).dot = js.map g := by
    rw [List.map_map]; apply List.map_congr_left; intro j _; exact hfg j
  have hidx : planeSortIndex (js.map fun j => rowOf (f j)) ori [cv.1, cv.2] rh
      = .ok ((List.range N).map fun r => js.idxOf r) := by
    unfold planeSortIndex
    rw [hrows] at hne ⊢
    simp only [rowsToV3_rowOf, hne, hori, normConvention_valid hcv, normalVector_eval oo hcv, hd, argsort_mono hg hp,
      bind, Except.bind, pure, Except.pure, Bool.false_eq_true, if_false]
  refine ⟨?_, hidx⟩
  unfold sortDatasets
  have hitems : ((js.map fun j => (rowOf (f j), pay j)).map (·.1)) = js.map fun j => rowOf (f j) := by
    rw [List.map_map]; rfl
  simp only [hitems, hidx, bind, Except.bind, pure, Except.pure]
  have hsub : ∀ r < N, r ∈ js := fun r hr => hp.mem_iff.mpr (List.mem_range.mpr hr)
  have := filterMap_getElem_idxOf pay js N hsub
  have e : (fun (i : Nat) => ((js.map fun j => (rowOf (f j), pay j))[i]?).map (·.2)) = fun i => (js.map pay)[i]? := by
    funext i
    simp only [List.getElem?_map, Option.map_map]
    rfl
  rw [e, this]

/-- **a series assembles to the same volume whatever the order of the datasets — for every stack along a line**, exactly
regular or merely within tolerance, with user tolerances and with the spacing the datasets declare
(`SpacingBetweenSlices`, repaired: the value they agree on, not the first dataset's): datasets at rows `f j` (distances
`g j` along the normal of the volume convention, strictly increasing) given in ANY order `js`, their declared spacings
`sbs` in any order.  The outcome is a function of the stack alone: a mismatching hint is reported (RuntimeError), a stack
outside the tolerance refused (ValueError), otherwise spacing = mean spacing, position = plane 0, frames in plane order. -/
theorem series_assembly_order_independent {α} (pay : Nat → α) (ori : List Rat) (oo : Ori)
    (hori : Ori.ofList ori = some oo) (f : Nat → V3) (g : Nat → Rat)
    (hfg : ∀ j, (normalSpec oo ('D', 'R') true).dot (f j) = g j) (hg : StrictMono g)
    {js : List Nat} {M : Nat} (hM : 1 ≤ M) (hp : js.Perm (List.range (M + 1))) (sbs : List (Option Rat))
    (rtolO atolO : Option Rat) {hint : Option Rat} {rtol atol : Rat}
    (hopts : normaliseOpts { rtol := rtolO, atol := atolO, hint := commonHint sbs } = .ok (hint, rtol, atol)) :
    assembleSeries (js.map fun j => (rowOf (f j), pay j)) sbs ori rtolO atolO
      = (match lineDecision (normalSpec oo ('D', 'R') true) f g M hint rtol atol with
         | .error e => .error e
         | .ok none => .error .value
         | .ok (some sp) => .ok (sp, rowOf (f 0), (List.range (M + 1)).map pay)) := by
  set nrm := normalSpec oo ('D', 'R') true with hnrm
  have hlen : js.length = M + 1 := by rw [hp.length_eq, List.length_range]
  have hmem : ∀ j, j ∈ js ↔ j < M + 1 := fun j => by rw [hp.mem_iff, List.mem_range]
  have hnd : js.Nodup := hp.nodup_iff.mpr List.nodup_range
  have hcv : ('D', 'R') ∈ validConventions := by decide
  have hrows : ((js.map fun j => (rowOf (f j), pay j)).map (·.1)) = (js.map f).map rowOf := by
    rw [List.map_map, List.map_map]; rfl
  have hgvp := getVolumePositions_rows f js (by omega) ori oo hori hcv
    { rtol := rtolO, atol := atolO, hint := commonHint sbs } rfl hopts
  simp only [] at hgvp
  rw [← hnrm, volumePositionsOf_lineDecision nrm f g hfg hg js hM hmem _ rfl rfl (Or.inr hnd) hint rtol atol] at hgvp
  have hl0 : ¬ (js.map fun j => (rowOf (f j), pay j)).length = 0 := by rw [List.length_map, hlen]; omega
  have hl1 : ¬ (js.map fun j => (rowOf (f j), pay j)).length = 1 := by rw [List.length_map, hlen]; omega
  unfold assembleSeries
  simp only [hl0, hl1, if_false, hrows, hgvp, bind, Except.bind]
  cases lineDecision nrm f g M hint rtol atol with
  | error e => rfl
  | ok r =>
    cases r with
    | none => rfl
    | some sp =>
      simp only [Except.map, Option.map, seriesOrder_regular (fun j => (rowOf (f j), pay j)) hp, pure, Except.pure]
      simp [List.range_succ_eq_map, List.map_map]

/-- hence for two orders of the same datasets (and of their declared spacings) the assembled volumes are equal -/
theorem series_assembly_perm {α} (pay : Nat → α) (ori : List Rat) (oo : Ori)
    (hori : Ori.ofList ori = some oo) (f : Nat → V3) (g : Nat → Rat)
    (hfg : ∀ j, (normalSpec oo ('D', 'R') true).dot (f j) = g j) (hg : StrictMono g)
    {js js' : List Nat} {M : Nat} (hM : 1 ≤ M) (hp : js.Perm (List.range (M + 1))) (hp' : js'.Perm (List.range (M + 1)))
    {sbs sbs' : List (Option Rat)} (hs : sbs.Perm sbs') (rtolO atolO : Option Rat) {hint : Option Rat} {rtol atol : Rat}
    (hopts : normaliseOpts { rtol := rtolO, atol := atolO, hint := commonHint sbs } = .ok (hint, rtol, atol)) :
    assembleSeries (js.map fun j => (rowOf (f j), pay j)) sbs ori rtolO atolO
      = assembleSeries (js'.map fun j => (rowOf (f j), pay j)) sbs' ori rtolO atolO := by
  have hopts' : normaliseOpts { rtol := rtolO, atol := atolO, hint := commonHint sbs' } = .ok (hint, rtol, atol) := by
    rw [← commonHint_perm hs]; exact hopts
  rw [series_assembly_order_independent pay ori oo hori f g hfg hg hM hp sbs rtolO atolO hopts,
    series_assembly_order_independent pay ori oo hori f g hfg hg hM hp' sbs' rtolO atolO hopts']

/-- **the frames of a multi-frame image assemble to the same volume whatever their order — for every stack along a line**
(geometry and frame placement of `Image.get_volume` / `get_volume_geometry`, no slice selection, no gaps): frames at rows
`f j` (strictly increasing distances `g j`), several frames per plane allowed, stored in ANY order `js` covering `0 … M`, the
shared `SpacingBetweenSlices` as hint, user tolerances.  A mismatching hint is reported, a stack outside the tolerance
refused; otherwise spacing = mean spacing, `M + 1` slices, origin = plane 0, every frame in the slice of its plane number. -/
theorem multiframe_assembly_order_independent (ori : List Rat) (oo : Ori) (hori : Ori.ofList ori = some oo)
    (f : Nat → V3) (g : Nat → Rat) (hfg : ∀ j, (normalSpec oo ('D', 'R') true).dot (f j) = g j) (hg : StrictMono g)
    (js : List Nat) {M : Nat} (hM : 1 ≤ M) (hmem : ∀ j, j ∈ js ↔ j < M + 1) (hintO rtolO atolO : Option Rat)
    {hint : Option Rat} {rtol atol : Rat}
    (hopts : normaliseOpts { rtol := rtolO, atol := atolO, allowDuplicate := true, allowMissing := false, hint := hintO }
      = .ok (hint, rtol, atol)) :
    assembleFrames ((js.map f).map rowOf) ori hintO rtolO atolO false
      = (match lineDecision (normalSpec oo ('D', 'R') true) f g M hint rtol atol with
         | .error e => .error e
         | .ok none => .error .runtime
         | .ok (some sp) => .ok (sp, rowOf (f 0), ((M + 1 : Nat) : Int), js.map Int.ofNat)) := by
  set nrm := normalSpec oo ('D', 'R') true with hnrm
  have hcv : ('D', 'R') ∈ validConventions := by decide
  have h0 : 0 ∈ js := (hmem 0).mpr (by omega)
  have hlen : 2 ≤ js.length := by
    have h1 : 1 ∈ js := (hmem 1).mpr (by omega)
    match js, h0, h1 with
    | [], h0, _ => cases h0
    | [a], h0, h1 => simp at h0 h1; omega
    | _ :: _ :: _, _, _ => simp
  have hgvp := getVolumePositions_rows f js hlen ori oo hori hcv
    { rtol := rtolO, atol := atolO, allowDuplicate := true, allowMissing := false, hint := hintO } rfl hopts
  simp only [] at hgvp
  rw [← hnrm, volumePositionsOf_lineDecision nrm f g hfg hg js hM hmem _ rfl rfl (Or.inl rfl) hint rtol atol] at hgvp
  have hmax : maxList (js.map Int.ofNat) = some ((M : Int)) := by
    apply maxList_eq
    · have : M ∈ js := (hmem M).mpr (by omega)
      exact List.mem_map_of_mem (f := Int.ofNat) this
    · intro x hx
      obtain ⟨j, hj, rfl⟩ := List.mem_map.mp hx
      have := (hmem j).mp hj
      simp; omega
  have hinj : Function.Injective Int.ofNat := fun a b h => Int.ofNat.inj h
  have hidx : (js.map Int.ofNat).idxOf? 0 = some (js.idxOf 0) := by
    have hm : Int.ofNat 0 ∈ js.map Int.ofNat := List.mem_map_of_mem h0
    have := idxOf?_of_mem (Int.ofNat 0) _ hm
    rw [idxOf_map_injective hinj] at this
    exact this
  have hrow : ((js.map f).map rowOf)[js.idxOf 0]? = some (rowOf (f 0)) := by
    rw [List.map_map]
    exact getElem?_idxOf_map (rowOf ∘ f) 0 js h0
  unfold assembleFrames
  simp only [hgvp, bind, Except.bind]
  cases lineDecision nrm f g M hint rtol atol with
  | error e => rfl
  | ok r =>
    cases r with
    | none => rfl
    | some sp =>
      simp only [Except.map, Option.map, hmax, hidx, hrow, pure, Except.pure]
      rfl

/-- **slice selection restricts the assembled volume** (`Image.get_volume(slice_start, slice_end, as_indices=True)`; model
`assembleFramesSel`, tie: stream `_selection_cases` L0 / L2): for every
stack along a line that is accepted (frames in ANY order, several per plane), selecting slices `start ≤ · < stop` (`stop ≤ M + 1`)
gives the same spacing, `stop − start` slices, the origin moved `start` spacings along the positive normal from the lowest plane,
and exactly the frames of the planes in the range, each `start` slices lower — again independent of the frame order. -/
theorem selected_assembly_restricts (ori : List Rat) (oo : Ori) (hori : Ori.ofList ori = some oo)
    (f : Nat → V3) (g : Nat → Rat) (hfg : ∀ j, (normalSpec oo ('D', 'R') true).dot (f j) = g j) (hg : StrictMono g)
    (js : List Nat) {M : Nat} (hM : 1 ≤ M) (hmem : ∀ j, j ∈ js ↔ j < M + 1) (hintO rtolO atolO : Option Rat)
    {hint : Option Rat} {rtol atol : Rat}
    (hopts : normaliseOpts { rtol := rtolO, atol := atolO, allowDuplicate := true, allowMissing := false, hint := hintO }
      = .ok (hint, rtol, atol))
    {sp : Rat} (hdec : lineDecision (normalSpec oo ('D', 'R') true) f g M hint rtol atol = .ok (some sp))
    (start stop : Nat) (hss : start < stop) (hstop : stop ≤ M + 1) :
    assembleFramesSel ((js.map f).map rowOf) ori hintO rtolO atolO false start stop
      = .ok (sp, rowOf ((f 0).add (V3.smul ((start : Rat) * sp) (normalSpec oo ('D', 'R') true))), (stop : Int) - (start : Int),
             (js.map Int.ofNat).zipIdx.filterMap fun (v, fr) =>
               if (start : Int) ≤ v ∧ v < (stop : Int) then some (fr, v - (start : Int)) else none) := by
  have hcv : ('D', 'R') ∈ validConventions := by decide
  have hasm := multiframe_assembly_order_independent ori oo hori f g hfg hg js hM hmem hintO rtolO atolO hopts
  rw [hdec] at hasm
  simp only [] at hasm
  unfold assembleFramesSel
  have hconv : normConvention Gen.volumeIndexConvention = .ok ('D', 'R') := by decide +kernel
  have hn1 : ¬ (((M + 1 : Nat) : Int) < (stop : Int)) := by
    have : (stop : Int) ≤ ((M + 1 : Nat) : Int) := by exact_mod_cast hstop
    omega
  have hn2 : ¬ stop ≤ start := by omega
  simp only [hasm, bind, Except.bind, hn1, hn2, if_false, hori, hconv, normalVector_eval oo hcv, ofList_rowOf, pure, Except.pure]
  rfl

/-- (for an exactly regular stack `f 0 + start·sp·n` is the position of plane `start`: lemma `selected_origin_is_plane_start`, arithmetic on
`planePos`, in `Proofs/Stack.lean`; for a stack that is merely within tolerance it is NOT the position of a stored frame) -/
example : assembleFramesSel [[0, 0, -1], [0, 0, 0], [0, 0, -3], [0, 0, -2], [0, 0, -2]] [1, 0, 0, 0, 1, 0] (some 1) none none false 1 3
    = .ok (1, [0, 0, -1], 2, [(0, 0), (3, 1), (4, 1)]) := by decide +kernel


/-! ## `sort=False`: the order given is the order examined (defect C11-unsorted-uses-given-order, repaired) -/

/-- a regular stack passed along the positive normal is accepted without sorting, with or without
`enforce_handedness`, and its indices are the given order `0, 1, …, M` -/
theorem unsorted_along_normal_recognised (o nrm : V3) (hn : nrm.dot nrm = 1) {s : Rat} (hs : 0 < s) {M : Nat} (hM : 1 ≤ M)
    (op : Opts) (hsort : op.sort = false) (hmiss : op.allowMissing = false) {rtol atol : Rat} (hr : 0 ≤ rtol) (ha : 0 ≤ atol) :
    volumePositionsOf nrm ((List.range (M + 1)).map (planePos o nrm s)) op none rtol atol
      = .ok (some (s, (List.range (M + 1)).map Int.ofNat)) := by
  rw [volumePositionsOf_unsorted nrm _ _ (dot_planePos o nrm s hn) (planePos_injective o nrm hn hs) hM op hsort hmiss]
  have hsp := mean_spacing (nrm.dot o) s M hM
  have hden : (((M + 1 : Nat) : Rat)) - 1 = (M : Rat) := by push_cast; ring
  rw [hden] at hsp
  have hreg : ((diffs ((List.range (M + 1)).map (gdist (nrm.dot o) s))).all fun x => isClose x s rtol atol) = true := by
    rw [List.all_eq_true]
    intro x hx
    rw [List.range_eq_range'] at hx
    rw [diffs_affine _ _ _ _ x hx]
    exact isClose_self s rtol atol hr ha
  have hMs : ((M : Rat) * s) ≠ 0 := by
    have : (1 : Rat) ≤ (M : Rat) := by exact_mod_cast hM
    have : 0 < (M : Rat) * s := by positivity
    exact ne_of_gt this
  simp only [hsp, hreg, planePos_span, isPerpendicular_smul nrm hn hMs, rabs_of_pos hs, not_lt.mpr (le_of_lt hs),
    decide_false, Bool.and_false, Bool.true_and, Bool.false_eq_true, if_false, if_true]

/-- the same stack passed AGAINST the positive normal (rows `f j = plane M − j`): refused under
`enforce_handedness`, otherwise accepted with the given order as indices -/
theorem unsorted_against_normal (o nrm : V3) (hn : nrm.dot nrm = 1) {s : Rat} (hs : 0 < s) {M : Nat} (hM : 1 ≤ M)
    (op : Opts) (hsort : op.sort = false) (hmiss : op.allowMissing = false) {rtol atol : Rat} (hr : 0 ≤ rtol) (ha : 0 ≤ atol) :
    volumePositionsOf nrm ((List.range (M + 1)).map fun j => planePos o nrm s (M - j)) op none rtol atol
      = .ok (if op.enforce then none else some (s, (List.range (M + 1)).map Int.ofNat)) := by
  have hinj : Function.Injective fun j : Nat => o.add (V3.smul (((M : Rat) - (j : Rat)) * s) nrm) := by
    intro i j h
    have := congrArg nrm.dot h
    simp only [] at this
    have e : ∀ k : Nat, nrm.dot (o.add (V3.smul (((M : Rat) - (k : Rat)) * s) nrm)) = nrm.dot o + ((M : Rat) - (k : Rat)) * s := by
      intro k
      obtain ⟨a, b, c⟩ := o
      obtain ⟨x, y, z⟩ := nrm
      simp only [V3.dot] at hn
      simp only [V3.add, V3.smul, V3.dot]
      linear_combination (((M : Rat) - (k : Rat)) * s) * hn
    rw [e, e] at this
    have h2 : ((i : Rat) - (j : Rat)) * s = 0 := by linarith
    rcases mul_eq_zero.mp h2 with h3 | h3
    · exact_mod_cast (sub_eq_zero.mp h3)
    · exact absurd h3 (ne_of_gt hs)
  -- on the range the two descriptions of the rows coincide
  have hrows : ((List.range (M + 1)).map fun j => planePos o nrm s (M - j))
      = (List.range (M + 1)).map fun j : Nat => o.add (V3.smul (((M : Rat) - (j : Rat)) * s) nrm) := by
    apply List.map_congr_left
    intro j hj
    have hj' : j ≤ M := by have := List.mem_range.mp hj; omega
    simp only [planePos]
    congr 2
    push_cast [Nat.cast_sub hj']
    ring
  have hfg : ∀ j : Nat, nrm.dot (o.add (V3.smul (((M : Rat) - (j : Rat)) * s) nrm)) = nrm.dot o + ((M : Rat) - (j : Rat)) * s := by
    intro k
    obtain ⟨a, b, c⟩ := o
    obtain ⟨x, y, z⟩ := nrm
    simp only [V3.dot] at hn
    simp only [V3.add, V3.smul, V3.dot]
    linear_combination (((M : Rat) - (k : Rat)) * s) * hn
  rw [hrows, volumePositionsOf_unsorted nrm _ _ hfg hinj hM op hsort hmiss]
  have hMne : (M : Rat) ≠ 0 := by
    have : (1 : Rat) ≤ (M : Rat) := by exact_mod_cast hM
    linarith
  have hsp : (nrm.dot o + ((M : Rat) - ((M : Nat) : Rat)) * s - (nrm.dot o + ((M : Rat) - ((0 : Nat) : Rat)) * s)) / (M : Rat) = -s := by
    rw [div_eq_iff hMne]; push_cast; ring
  have hreg : ((diffs ((List.range (M + 1)).map fun j : Nat => nrm.dot o + ((M : Rat) - (j : Rat)) * s)).all
      fun x => isClose x (-s) rtol atol) = true := by
    rw [List.all_eq_true]
    intro x hx
    have : x = -s := by
      rw [List.range_eq_range'] at hx
      exact diffs_const (fun j : Nat => nrm.dot o + ((M : Rat) - (j : Rat)) * s) (-s) (fun j => by push_cast; ring) _ _ x hx
    rw [this]
    exact isClose_self (-s) rtol atol hr ha
  have hspan : (o.add (V3.smul (((M : Rat) - ((M : Nat) : Rat)) * s) nrm)).sub (o.add (V3.smul (((M : Rat) - ((0 : Nat) : Rat)) * s) nrm))
      = V3.smul (-((M : Rat) * s)) nrm := by
    obtain ⟨a, b, c⟩ := o
    obtain ⟨x, y, z⟩ := nrm
    simp only [V3.add, V3.smul, V3.sub, V3.mk.injEq]
    refine ⟨?_, ?_, ?_⟩ <;> push_cast <;> ring
  have hMs : (-((M : Rat) * s)) ≠ 0 := by
    have : (1 : Rat) ≤ (M : Rat) := by exact_mod_cast hM
    have : 0 < (M : Rat) * s := by positivity
    linarith
  have hneg : (-s) < 0 := by linarith
  simp only [hsp, hreg, hspan, isPerpendicular_smul nrm hn hMs, rabs_neg_of_pos hs, hneg, decide_true, Bool.and_true,
    Bool.true_and]
  cases op.enforce <;> simp

/-- without sorting, rows whose consecutive spacing IN THE GIVEN ORDER is not within tolerance of the mean
spacing are refused (e.g. a shuffled regular stack) -/
theorem unsorted_irregular_rejected (nrm : V3) (f : Nat → V3) (g : Nat → Rat) (hfg : ∀ j, nrm.dot (f j) = g j)
    (hinj : Function.Injective f) {M : Nat} (hM : 1 ≤ M) (op : Opts) (hsort : op.sort = false)
    (hmiss : op.allowMissing = false) (rtol atol : Rat) (k : Nat) (hk : k < M)
    (hbad : isClose (g (k + 1) - g k) ((g M - g 0) / (M : Rat)) rtol atol = false) :
    volumePositionsOf nrm ((List.range (M + 1)).map f) op none rtol atol = .ok none := by
  rw [volumePositionsOf_unsorted nrm f g hfg hinj hM op hsort hmiss]
  have hall : ((diffs ((List.range (M + 1)).map g)).all fun x => isClose x ((g M - g 0) / (M : Rat)) rtol atol) = false := by
    rw [Bool.eq_false_iff, ne_eq, List.all_eq_true]
    intro hall
    have := hall _ (diffs_mem g (M + 1) k (by omega))
    rw [hbad] at this
    cases this
  simp only [hall, Bool.false_and, Bool.false_eq_true, if_false]

/-- `sort=False` cannot be combined with duplicates or gaps -/
theorem unsorted_flags_refused (op : Opts) (hsort : op.sort = false) (h : op.allowDuplicate = true ∨ op.allowMissing = true) :
    normaliseOpts op = .error .value := by
  unfold normaliseOpts
  rcases h with h | h
  · simp [hsort, h]
  · cases hd : op.allowDuplicate <;> simp [hsort, h]

/-! ## declared gaps, spacing hints -/

/-- **stacks with declared gaps are recognised** (`allow_missing_positions`): planes `o + k_j·s·n` for the present
planes `j = 0 … M` (plane numbers `k` strictly increasing, `k 0 = 0`, any gaps), input in ANY order, duplicates when
declared, any non-negative tolerances; the spacing is taken from a matching hint, or — without hint — from two present
neighbours (`k (j+1) = k j + 1` for some `j`; `s` not within `1e-5` of zero).  Answer: `s` and the plane number of
every row (`k_i − min k`). -/
theorem gaps_recognised (ori : List Rat) (oo : Ori) (hori : Ori.ofList ori = some oo)
    (ho : OrthoPair oo.row oo.col) {cv : Char × Char} (hcv : cv ∈ validConventions) (op : Opts)
    (hconv : op.conv = [cv.1, cv.2]) (hsort : op.sort = true) (hmiss : op.allowMissing = true)
    {hint : Option Rat} {rtol atol : Rat} (hopts : normaliseOpts op = .ok (hint, rtol, atol)) (hr : 0 ≤ rtol) (ha : 0 ≤ atol)
    (o : V3) {s : Rat} (hs : 0 < s) (k : Nat → Nat) (hk : StrictMono k) (hk0 : k 0 = 0)
    (js : List Nat) {M : Nat} (hM : 1 ≤ M) (hmem : ∀ j, j ∈ js ↔ j < M + 1)
    (hdup : op.allowDuplicate = true ∨ js.Nodup)
    (hsp : hint = some s ∨ (hint = none ∧ (∃ j, j < M ∧ k (j + 1) = k j + 1) ∧ isClose s 0 npRtol eqTol = false)) :
    getVolumePositions ((js.map fun j => planePos o (normalSpec oo cv op.rightHanded) s (k j)).map rowOf) ori op
      = .ok (some (s, js.map fun j => ((k j : Nat) : Int))) := by
  have hn := normalSpec_unit oo ho hcv op.rightHanded
  have hlen : 2 ≤ js.length := by
    have h0 : 0 ∈ js := (hmem 0).mpr (by omega)
    have h1 : 1 ∈ js := (hmem 1).mpr (by omega)
    match js, h0, h1 with
    | [], h0, _ => cases h0
    | [a], h0, h1 => simp at h0 h1; omega
    | _ :: _ :: _, _, _ => simp
  rw [getVolumePositions_rows _ js hlen ori oo hori hcv op hconv hopts]
  exact volumePositionsOf_gaps o _ hn hs k hk hk0 js hM hmem op hsort hmiss hdup hint hsp hr ha

/-- **a multi-frame image with MISSING slice positions assembles to the same volume whatever the order of its frames**
(`Image.get_volume(allow_missing_positions=True)` / `get_volume_geometry`, the default route of `Segmentation.get_volume`; model
`assembleFrames`, tie: `tie_assembly_choices` + stream `_multiframe_gaps`): frames at the planes `o + k_j·s·n` (plane numbers `k`
strictly increasing from 0, any gaps), several frames per plane allowed, stored in ANY order `js` covering the present planes
`0 … M`; spacing from the shared `SpacingBetweenSlices` (= `s`) or, without it, from two neighbouring present planes.  The volume has
spacing `s`, `k_M + 1` slices (highest − lowest plane + 1, missing ones included), its origin is the lowest plane, and every frame
sits in the slice of its plane number. -/
theorem multiframe_gaps_assembly_order_independent (ori : List Rat) (oo : Ori) (hori : Ori.ofList ori = some oo)
    (ho : OrthoPair oo.row oo.col) (o : V3) {s : Rat} (hs : 0 < s) (k : Nat → Nat) (hk : StrictMono k) (hk0 : k 0 = 0)
    (js : List Nat) {M : Nat} (hM : 1 ≤ M) (hmem : ∀ j, j ∈ js ↔ j < M + 1) (hintO rtolO atolO : Option Rat)
    {hint : Option Rat} {rtol atol : Rat}
    (hopts : normaliseOpts { rtol := rtolO, atol := atolO, allowDuplicate := true, allowMissing := true, hint := hintO }
      = .ok (hint, rtol, atol)) (hr : 0 ≤ rtol) (ha : 0 ≤ atol)
    (hsp : hint = some s ∨ (hint = none ∧ (∃ j, j < M ∧ k (j + 1) = k j + 1) ∧ isClose s 0 npRtol eqTol = false)) :
    assembleFrames ((js.map fun j => planePos o (normalSpec oo ('D', 'R') true) s (k j)).map rowOf) ori hintO rtolO atolO true
      = .ok (s, rowOf (planePos o (normalSpec oo ('D', 'R') true) s 0), ((k M : Nat) : Int) + 1,
             js.map fun j => ((k j : Nat) : Int)) := by
  set nrm := normalSpec oo ('D', 'R') true with hnrm
  have hcv : ('D', 'R') ∈ validConventions := by decide
  have h0 : 0 ∈ js := (hmem 0).mpr (by omega)
  have hgvp := gaps_recognised ori oo hori ho hcv
    { rtol := rtolO, atol := atolO, allowDuplicate := true, allowMissing := true, hint := hintO } rfl rfl rfl hopts hr ha
    o hs k hk hk0 js hM hmem (Or.inl rfl) hsp
  simp only [] at hgvp
  rw [← hnrm] at hgvp
  have hinj : Function.Injective (fun j : Nat => ((k j : Nat) : Int)) := by
    intro a b h
    have : k a = k b := by simp only at h; exact_mod_cast h
    exact hk.injective this
  have hmax : maxList (js.map fun j => ((k j : Nat) : Int)) = some (((k M : Nat) : Int)) := by
    apply maxList_eq
    · have : M ∈ js := (hmem M).mpr (by omega)
      exact List.mem_map.mpr ⟨M, this, rfl⟩
    · intro x hx
      obtain ⟨j, hj, rfl⟩ := List.mem_map.mp hx
      have := (hmem j).mp hj
      have : k j ≤ k M := hk.monotone (by omega)
      exact_mod_cast this
  have hidx : (js.map fun j => ((k j : Nat) : Int)).idxOf? 0 = some (js.idxOf 0) := by
    have hm : (fun j : Nat => ((k j : Nat) : Int)) 0 ∈ js.map fun j => ((k j : Nat) : Int) := List.mem_map.mpr ⟨0, h0, rfl⟩
    have := idxOf?_of_mem _ _ hm
    rw [idxOf_map_injective hinj] at this
    simpa [hk0] using this
  have hrow : ((js.map fun j => planePos o nrm s (k j)).map rowOf)[js.idxOf 0]? = some (rowOf (planePos o nrm s 0)) := by
    rw [List.map_map]
    have := getElem?_idxOf_map (rowOf ∘ fun j => planePos o nrm s (k j)) 0 js h0
    simpa [hk0] using this
  unfold assembleFrames
  simp only [hgvp, bind, Except.bind, hmax, hidx, hrow, pure, Except.pure]

example : StrictMono (fun j : Nat => 2 * j) := fun a b h => by simp only; omega


/-! ### the tolerance with gaps allowed (defect C11-gaps-tolerance-grows, repaired; formerly open finding C11-hint-drift) -/

/-- **with gaps allowed: recognised EXACTLY WHEN every plane is within tolerance of a whole multiple of the spacing**
(repaired behaviour).  Stack along a line (rows `f j` at strictly increasing distances `g j`, any input order `js`
covering `0 … M`, duplicates when declared), spacing `sp > 0` = the hint, or without hint the estimate `estimateSpacing` (the
smallest consecutive gap refined over the extent: `refineSpacing`):
the answer is `(sp, round((g j − g 0)/sp))` if every multiple `(g j − g 0)/sp` is within `rtol + atol/sp` of its rounding —
every plane within `atol + rtol·sp` (mm) of `g 0 + k·sp` for an integer `k` —, no two planes share a multiple (repaired behaviour,
defect C11-gaps-planes-share-index) and the span is perpendicular; `(None, None)` otherwise.  The tolerance does NOT grow with the
plane number. -/
theorem gaps_recognised_iff (nrm : V3) (f : Nat → V3) (g : Nat → Rat) (hfg : ∀ j, nrm.dot (f j) = g j)
    (hg : StrictMono g) (js : List Nat) {M : Nat} (hM : 1 ≤ M) (hmem : ∀ j, j ∈ js ↔ j < M + 1) (op : Opts)
    (hsort : op.sort = true) (hmiss : op.allowMissing = true) (hdup : op.allowDuplicate = true ∨ js.Nodup)
    {sp : Rat} (hsp0 : 0 < sp) (hint : Option Rat)
    (hsp : hint = some sp ∨ (hint = none ∧ estimateSpacing ((List.range (M + 1)).map g) = .ok (some sp)))
    (rtol atol : Rat) :
    volumePositionsOf nrm (js.map f) op hint rtol atol
      = .ok (if ((List.range (M + 1)).all fun j =>
                  isClose ((g j - g 0) / sp) ((roundHalfEven ((g j - g 0) / sp) : Int) : Rat) 0 (rtol + atol / rabs sp))
                && decide (((List.range (M + 1)).map fun j => roundHalfEven ((g j - g 0) / sp)).Nodup)
                && isPerpendicular nrm ((f M).sub (f 0))
             then some (sp, js.map fun j => roundHalfEven ((g j - g 0) / sp)) else none) := by
  have := volumePositionsOf_lift nrm f g hfg hg js hM hmem op hsort hdup hint rtol atol
    (fun j => roundHalfEven ((g j - g 0) / sp))
    (.ok (if ((List.range (M + 1)).all fun j =>
                  isClose ((g j - g 0) / sp) ((roundHalfEven ((g j - g 0) / sp) : Int) : Rat) 0 (rtol + atol / rabs sp))
                && decide (((List.range (M + 1)).map fun j => roundHalfEven ((g j - g 0) / sp)).Nodup)
                && isPerpendicular nrm ((f M).sub (f 0)) then some sp else none))
    (fun js' hp' => by
      rw [hmiss, examine_gaps_line nrm f g hfg hg hM hp' hsp0 hint hsp rtol atol op.enforce]
      simp only [Except.map]
      split_ifs <;> rfl)
  rw [this]
  simp only [Except.map]
  split_ifs <;> rfl

/-- **irregular stacks are rejected with gaps allowed too**: if some plane is farther than the tolerance from every whole
multiple of the spacing above the lowest plane — however far up it lies — the answer is `(None, None)`. -/
theorem gaps_irregular_rejected (nrm : V3) (f : Nat → V3) (g : Nat → Rat) (hfg : ∀ j, nrm.dot (f j) = g j)
    (hg : StrictMono g) (js : List Nat) {M : Nat} (hM : 1 ≤ M) (hmem : ∀ j, j ∈ js ↔ j < M + 1) (op : Opts)
    (hsort : op.sort = true) (hmiss : op.allowMissing = true) (hdup : op.allowDuplicate = true ∨ js.Nodup)
    {sp : Rat} (hsp0 : 0 < sp) (hint : Option Rat)
    (hsp : hint = some sp ∨ (hint = none ∧ estimateSpacing ((List.range (M + 1)).map g) = .ok (some sp)))
    (rtol atol : Rat) (j0 : Nat) (hj0 : j0 < M + 1)
    (hbad : isClose ((g j0 - g 0) / sp) ((roundHalfEven ((g j0 - g 0) / sp) : Int) : Rat) 0 (rtol + atol / rabs sp) = false) :
    volumePositionsOf nrm (js.map f) op hint rtol atol = .ok none := by
  rw [gaps_recognised_iff nrm f g hfg hg js hM hmem op hsort hmiss hdup hsp0 hint hsp rtol atol]
  have hall : ((List.range (M + 1)).all fun j =>
      isClose ((g j - g 0) / sp) ((roundHalfEven ((g j - g 0) / sp) : Int) : Rat) 0 (rtol + atol / rabs sp)) = false := by
    rw [Bool.eq_false_iff, ne_eq, List.all_eq_true]
    intro hall
    have := hall j0 (List.mem_range.mpr hj0)
    rw [hbad] at this; cases this
  simp only [hall, Bool.false_and, Bool.false_eq_true, if_false]

/-- **soundness of EVERY answer with gaps allowed** (any rows, any options with sorting on; the spacing may be the hint or the
refined estimate, tie: `tie_gaps_expressions`): whenever the function answers `(sp, indices)` there are a spacing `s > 0` (= `sp`;
the hint if one was given) and the LOWEST distance `dmin` along the normal (attained by a row, below no row) such that every
row's index is `round((n·p − dmin)/s)` and the row lies within `rtol + atol/s` (in spacings) of that whole multiple.
Hence indices never decrease along the positive normal, and two rows sharing an index are at most twice the tolerance apart. -/
theorem gaps_accepted_sound (nrm : V3) (ps : List V3) (op : Opts) (hsort : op.sort = true) (hmiss : op.allowMissing = true)
    (hint : Option Rat) (hhint : ∀ h, hint = some h → 0 < h) (rtol atol spR : Rat) (vp : List Int)
    (h : volumePositionsOf nrm ps op hint rtol atol = .ok (some (spR, vp))) (hmany : (uniqueRows ps).length ≠ 1) :
    ∃ s dmin, 0 < s ∧ spR = s ∧ (∀ hh, hint = some hh → s = hh) ∧
      (∀ i (hi : i < ps.length), dmin ≤ nrm.dot ps[i]) ∧ (∃ i, ∃ hi : i < ps.length, nrm.dot ps[i] = dmin) ∧
      ∀ i (hi : i < ps.length),
        vp[i]? = some (roundHalfEven ((nrm.dot ps[i] - dmin) / s)) ∧
        isClose ((nrm.dot ps[i] - dmin) / s) ((roundHalfEven ((nrm.dot ps[i] - dmin) / s) : Int) : Rat) 0
          (rtol + atol / rabs s) = true := by
  unfold volumePositionsOf at h
  simp only [hsort, if_true, hmiss, pure, Except.pure] at h
  split at h
  · cases h
  · have h := h
    obtain ⟨r, hr, h⟩ := bind_ok h
    cases r with
    | none => cases h
    | some r =>
      obtain ⟨sp', inv⟩ := r
      simp only [] at h
      obtain ⟨vp', hread, h⟩ := bind_ok h
      simp only [Except.ok.injEq, Option.some.injEq, Prod.mk.injEq] at h
      obtain ⟨rfl, rfl⟩ := h
      obtain ⟨s, hsm, hsR⟩ := examine_gaps_some hr
      obtain ⟨dmin, hdmin, hinv, hreg, _, hh1, hh2⟩ := spacingMissing_inv hsm
      have hs0 : 0 < s := by
        cases hint with
        | some hh => rw [hh1 hh rfl]; exact hhint hh rfl
        | none => exact estimateSpacing_pos (hh2 rfl)
      refine ⟨s, dmin, hs0, by rw [hsR, rabs_of_pos hs0], hh1, ?_, ?_, ?_⟩
      · intro i hi
        have hmi : ps[i] ∈ uniqueRows ps := (mem_uniqueRows _ ps).mpr (List.getElem_mem hi)
        exact minList_le hdmin _ (List.mem_map.mpr ⟨ps[i], hmi, rfl⟩)
      · obtain ⟨q, hq, hqd⟩ := List.mem_map.mp (minList_mem hdmin)
        have hqp : q ∈ ps := (mem_uniqueRows _ ps).mp hq
        obtain ⟨i, hi, hiq⟩ := List.getElem_of_mem hqp
        exact ⟨i, hi, by rw [hiq]; exact hqd⟩
      · intro i hi
        have hmi : ps[i] ∈ uniqueRows ps := (mem_uniqueRows _ ps).mpr (List.getElem_mem hi)
        obtain ⟨hvi, _⟩ := readIndices_getElem inv (indexIn (uniqueRows ps)) ps vp' hread i hi
        have hai := List.idxOf_lt_length_of_mem hmi
        have hgi : (uniqueRows ps)[(uniqueRows ps).idxOf ps[i]] = ps[i] := List.getElem_idxOf hai
        constructor
        · rw [hvi, hinv]
          simp only [indexIn, List.getElem?_map, List.getElem?_eq_getElem hai, hgi, Option.map]
        · apply hreg rfl
          exact List.mem_map.mpr ⟨ps[i], hmi, rfl⟩

/-- corollary: the indices never decrease along the positive normal -/
theorem gaps_indices_monotone (nrm : V3) (ps : List V3) (op : Opts) (hsort : op.sort = true) (hmiss : op.allowMissing = true)
    (hint : Option Rat) (hhint : ∀ h, hint = some h → 0 < h) (rtol atol spR : Rat) (vp : List Int)
    (h : volumePositionsOf nrm ps op hint rtol atol = .ok (some (spR, vp))) (hmany : (uniqueRows ps).length ≠ 1)
    (i j : Nat) (hi : i < ps.length) (hj : j < ps.length) (hle : nrm.dot ps[i] ≤ nrm.dot ps[j]) :
    ∃ vi vj, vp[i]? = some vi ∧ vp[j]? = some vj ∧ vi ≤ vj := by
  obtain ⟨s, dmin, hs0, _, _, _, _, hall⟩ := gaps_accepted_sound nrm ps op hsort hmiss hint hhint rtol atol spR vp h hmany
  refine ⟨_, _, (hall i hi).1, (hall j hj).1, roundHalfEven_mono ?_⟩
  apply div_le_div_of_nonneg_right _ (le_of_lt hs0)
  linarith

/-- **acceptance soundness in millimetres, for the RETURNED spacing** (hint, or the estimate refined over the extent): whenever
the function answers `(sp, indices)` with gaps allowed, `sp > 0`, the lowest plane along the normal has index 0, every index is
`≥ 0`, and every plane lies within `atol + rtol·sp` (mm) of `index · sp` above the lowest plane.  Any rows, any options with
sorting on. -/
theorem gaps_accepted_within_tolerance (nrm : V3) (ps : List V3) (op : Opts) (hsort : op.sort = true) (hmiss : op.allowMissing = true)
    (hint : Option Rat) (hhint : ∀ h, hint = some h → 0 < h) (rtol atol spR : Rat) (vp : List Int)
    (h : volumePositionsOf nrm ps op hint rtol atol = .ok (some (spR, vp))) (hmany : (uniqueRows ps).length ≠ 1) :
    0 < spR ∧ ∃ dmin,
      (∀ i (hi : i < ps.length), dmin ≤ nrm.dot ps[i]) ∧
      (∃ i, ∃ hi : i < ps.length, nrm.dot ps[i] = dmin ∧ vp[i]? = some 0) ∧
      ∀ i (hi : i < ps.length), ∃ v : Int, vp[i]? = some v ∧ 0 ≤ v ∧
        |nrm.dot ps[i] - dmin - (v : Rat) * spR| ≤ atol + rtol * spR := by
  obtain ⟨s, dmin, hs0, rfl, _, hlow, ⟨i0, hi0, hd0⟩, hall⟩ :=
    gaps_accepted_sound nrm ps op hsort hmiss hint hhint rtol atol spR vp h hmany
  refine ⟨hs0, dmin, hlow, ⟨i0, hi0, hd0, ?_⟩, ?_⟩
  · rw [(hall i0 hi0).1, hd0, sub_self, zero_div]
    have : roundHalfEven 0 = 0 := by simpa using roundHalfEven_intCast 0
    rw [this]
  · intro i hi
    obtain ⟨hv, hc⟩ := hall i hi
    refine ⟨_, hv, ?_, ?_⟩
    · have h0 : roundHalfEven 0 = 0 := by simpa using roundHalfEven_intCast 0
      rw [← h0]
      apply roundHalfEven_mono
      apply div_nonneg _ (le_of_lt hs0)
      have := hlow i hi; linarith
    · unfold isClose at hc
      rw [zero_mul, add_zero, rabs_eq_abs, rabs_of_pos hs0] at hc
      have hc := of_decide_eq_true hc
      set v := roundHalfEven ((nrm.dot ps[i] - dmin) / spR)
      have e : nrm.dot ps[i] - dmin - (v : Rat) * spR = ((nrm.dot ps[i] - dmin) / spR - (v : Rat)) * spR := by
        field_simp
      rw [e, abs_mul, abs_of_pos hs0]
      calc |(nrm.dot ps[i] - dmin) / spR - (v : Rat)| * spR ≤ (rtol + atol / spR) * spR :=
            mul_le_mul_of_nonneg_right hc (le_of_lt hs0)
        _ = atol + rtol * spR := by field_simp; ring

/-- … hence **distinct planes get distinct indices in the order of the normal** as soon as they are farther apart than twice the
tolerance `atol + rtol·sp` (planes closer than that may share an index: both are within tolerance of the same multiple). -/
theorem gaps_distinct_planes_distinct_indices (nrm : V3) (ps : List V3) (op : Opts) (hsort : op.sort = true)
    (hmiss : op.allowMissing = true)
    (hint : Option Rat) (hhint : ∀ h, hint = some h → 0 < h) (rtol atol spR : Rat) (vp : List Int)
    (h : volumePositionsOf nrm ps op hint rtol atol = .ok (some (spR, vp))) (hmany : (uniqueRows ps).length ≠ 1)
    (i j : Nat) (hi : i < ps.length) (hj : j < ps.length)
    (hfar : 2 * (atol + rtol * spR) < nrm.dot ps[j] - nrm.dot ps[i]) :
    ∃ vi vj : Int, vp[i]? = some vi ∧ vp[j]? = some vj ∧ vi < vj := by
  obtain ⟨hs0, dmin, _, _, hall⟩ := gaps_accepted_within_tolerance nrm ps op hsort hmiss hint hhint rtol atol spR vp h hmany
  obtain ⟨vi, hvi, _, hci⟩ := hall i hi
  obtain ⟨vj, hvj, _, hcj⟩ := hall j hj
  refine ⟨vi, vj, hvi, hvj, ?_⟩
  have a := abs_le.mp hci
  have b := abs_le.mp hcj
  have : (vi : Rat) * spR < (vj : Rat) * spR := by linarith
  have := lt_of_mul_lt_mul_right this (le_of_lt hs0)
  exact_mod_cast this

/-- **with gaps allowed, different rows get different indices** (repaired behaviour, defect C11-gaps-planes-share-index; any rows,
any options with sorting on, hint or not): whenever the function answers, two input rows share a volume index only if they are the
same row (a declared duplicate).  So a plane displaced in its plane at the distance of another plane, or two planes closer together
than the tolerance, make the stack irregular — "one index, one plane". -/
theorem gaps_distinct_rows_distinct_indices (nrm : V3) (ps : List V3) (op : Opts) (hsort : op.sort = true)
    (hmiss : op.allowMissing = true) (hint : Option Rat) (rtol atol spR : Rat) (vp : List Int)
    (h : volumePositionsOf nrm ps op hint rtol atol = .ok (some (spR, vp))) (hmany : (uniqueRows ps).length ≠ 1)
    (i j : Nat) (hi : i < ps.length) (hj : j < ps.length) (hne : ps[i] ≠ ps[j]) :
    ∃ vi vj : Int, vp[i]? = some vi ∧ vp[j]? = some vj ∧ vi ≠ vj := by
  unfold volumePositionsOf at h
  simp only [hsort, if_true, hmiss, pure, Except.pure] at h
  split at h
  · cases h
  · have h := h
    obtain ⟨r, hr, h⟩ := bind_ok h
    cases r with
    | none => cases h
    | some r =>
      obtain ⟨sp', inv⟩ := r
      simp only [] at h
      obtain ⟨vp', hread, h⟩ := bind_ok h
      simp only [Except.ok.injEq, Option.some.injEq, Prod.mk.injEq] at h
      obtain ⟨rfl, rfl⟩ := h
      obtain ⟨s, hsm, _⟩ := examine_gaps_some hr
      obtain ⟨dmin, _, hinv, _, hnd, _, _⟩ := spacingMissing_inv hsm
      have hnd := hnd rfl
      have hmi : ps[i] ∈ uniqueRows ps := (mem_uniqueRows _ ps).mpr (List.getElem_mem hi)
      have hmj : ps[j] ∈ uniqueRows ps := (mem_uniqueRows _ ps).mpr (List.getElem_mem hj)
      obtain ⟨hvi, _⟩ := readIndices_getElem inv (indexIn (uniqueRows ps)) ps vp' hread i hi
      obtain ⟨hvj, _⟩ := readIndices_getElem inv (indexIn (uniqueRows ps)) ps vp' hread j hj
      have hai := List.idxOf_lt_length_of_mem hmi
      have haj := List.idxOf_lt_length_of_mem hmj
      have hlen : inv.length = (uniqueRows ps).length := by rw [hinv]; simp
      have hai' : (uniqueRows ps).idxOf ps[i] < inv.length := by rw [hlen]; exact hai
      have haj' : (uniqueRows ps).idxOf ps[j] < inv.length := by rw [hlen]; exact haj
      refine ⟨inv[(uniqueRows ps).idxOf ps[i]], inv[(uniqueRows ps).idxOf ps[j]], ?_, ?_, ?_⟩
      · rw [hvi]; simp only [indexIn]; exact List.getElem?_eq_getElem hai'
      · rw [hvj]; simp only [indexIn]; exact List.getElem?_eq_getElem haj'
      · intro heq
        have := (List.Nodup.getElem_inj_iff hnd).mp heq
        apply hne
        have e1 : (uniqueRows ps)[(uniqueRows ps).idxOf ps[i]] = ps[i] := List.getElem_idxOf hai
        have e2 : (uniqueRows ps)[(uniqueRows ps).idxOf ps[j]] = ps[j] := List.getElem_idxOf haj
        rw [← e1, ← e2]
        simp only [this]

/-- the audit's witnesses (docs/AUDIT2_C.md, C11 M1 / M2) are refused by the repaired code: a plane displaced in its plane at the
distance of another plane, with the spacing declared (duplicates allowed or not); two planes 0.005 apart in a stack of spacing 1 -/
theorem planes_sharing_a_multiple_refused :
    getVolumePositions [[0, 0, 0], [0, 0, -1], [7, 3, -1], [0, 0, -3]] [1, 0, 0, 0, 1, 0] { allowMissing := true, hint := some 1 } = .ok none ∧
    getVolumePositions [[0, 0, 0], [0, 0, -1], [7, 3, -1], [0, 0, -3]] [1, 0, 0, 0, 1, 0]
      { allowMissing := true, allowDuplicate := true, hint := some 1 } = .ok none ∧
    getVolumePositions [[0, 0, 0], [0, 0, -1 / 200], [0, 0, -1], [0, 0, -3]] [1, 0, 0, 0, 1, 0]
      { allowMissing := true, allowDuplicate := true, hint := some 1 } = .ok none ∧
    getVolumePositions [[0, 0, 0], [0, 0, 0], [0, 0, -1], [0, 0, -3]] [1, 0, 0, 0, 1, 0]
      { allowMissing := true, allowDuplicate := true, hint := some 1 } = .ok (some (1, [0, 0, 1, 3])) := by
  decide +kernel

/-- **a multi-frame image with gaps assembles to the same volume whatever the order of its frames — for EVERY input**
(`Image.get_volume(allow_missing_positions=True)` / `get_volume_geometry`; model `assembleFrames`, tie `tie_assembly_choices` + streams
`_multiframe_gaps`, `multiframe-gaps-two-planes-one-multiple`): any frame positions `ps` (regular, within tolerance, with declared or
estimated spacing, repeated frames), any other order `ps'` of the same frames.  If the frames assemble, they assemble in the other
order to the SAME spacing, origin and number of slices, and every frame goes to the same slice (one function `F` from positions to
slices).  The origin is well defined because different positions never share a slice (`gaps_distinct_rows_distinct_indices`,
repaired behaviour — before, two planes within tolerance of one multiple made the origin depend on the frame order). -/
theorem multiframe_gaps_assembly_perm (ori : List Rat) (oo : Ori) (hori : Ori.ofList ori = some oo)
    {ps ps' : List V3} (hperm : ps.Perm ps') (hlen : 2 ≤ ps.length) (hintO rtolO atolO : Option Rat)
    {sp : Rat} {o : List Rat} {n : Int} {vp : List Int}
    (h : assembleFrames (ps.map rowOf) ori hintO rtolO atolO true = .ok (sp, o, n, vp)) :
    ∃ F : V3 → Int, vp = ps.map F ∧
      assembleFrames (ps'.map rowOf) ori hintO rtolO atolO true = .ok (sp, o, n, ps'.map F) := by
  have hcv : ('D', 'R') ∈ validConventions := by decide
  have hlen' : 2 ≤ ps'.length := by rw [← hperm.length_eq]; exact hlen
  unfold assembleFrames at h ⊢
  cases hno : normaliseOpts { rtol := rtolO, atol := atolO, allowMissing := true, allowDuplicate := true, hint := hintO } with
  | error e =>
    rw [getVolumePositions_opts_error _ _ _ hno] at h
    simp [bind, Except.bind] at h
  | ok r =>
    obtain ⟨hint, rtol, atol⟩ := r
    rw [getVolumePositions_rows_list ps hlen ori oo hori hcv _ rfl hno] at h
    rw [getVolumePositions_rows_list ps' hlen' ori oo hori hcv _ rfl hno]
    simp only [] at h ⊢
    set nrm := normalSpec oo ('D', 'R') true with hnrm
    rcases permutation_equivariance nrm hperm
        { rtol := rtolO, atol := atolO, allowMissing := true, allowDuplicate := true, hint := hintO } rfl hint rtol atol with
      ⟨e, h1, _⟩ | ⟨h1, _⟩ | ⟨sp0, F, h1, h2⟩
    · rw [h1] at h; simp [bind, Except.bind] at h
    · rw [h1] at h; simp [bind, Except.bind] at h
    · rw [h1] at h
      rw [h2]
      simp only [bind, Except.bind] at h ⊢
      cases hmx : maxList (ps.map F) with
      | none => simp [hmx] at h
      | some m =>
        cases hix : (ps.map F).idxOf? 0 with
        | none => simp [hmx, hix] at h
        | some k =>
          cases hrow : (ps.map rowOf)[k]? with
          | none => simp [hmx, hix, hrow] at h
          | some origin =>
            simp only [hmx, hix, hrow, pure, Except.pure, Except.ok.injEq, Prod.mk.injEq] at h
            obtain ⟨rfl, rfl, rfl, rfl⟩ := h
            refine ⟨F, rfl, ?_⟩
            -- the other order: same maximum, and the first frame with slice 0 is at the same position
            have hmx' : maxList (ps'.map F) = some m := maxList_perm (hperm.map F) hmx
            have h0 : (0 : Int) ∈ ps.map F := by
              by_contra hc
              rw [List.idxOf?_eq_none_iff.mpr hc] at hix; cases hix
            have h0' : (0 : Int) ∈ ps'.map F := (hperm.map F).mem_iff.mp h0
            have hk : k = (ps.map F).idxOf 0 := by
              rw [idxOf?_of_mem _ _ h0] at hix; exact (Option.some.inj hix).symm
            have hklt : (ps.map F).idxOf 0 < (ps.map F).length := List.idxOf_lt_length_of_mem h0
            have hk'lt : (ps'.map F).idxOf 0 < (ps'.map F).length := List.idxOf_lt_length_of_mem h0'
            have hkp : (ps.map F).idxOf 0 < ps.length := by simpa using hklt
            have hkp' : (ps'.map F).idxOf 0 < ps'.length := by simpa using hk'lt
            have hF : F ps[(ps.map F).idxOf 0] = 0 := by
              have := List.getElem_idxOf hklt
              rw [List.getElem_map] at this
              exact this
            have hF' : F ps'[(ps'.map F).idxOf 0] = 0 := by
              have := List.getElem_idxOf hk'lt
              rw [List.getElem_map] at this
              exact this
            have horigin : origin = rowOf ps[(ps.map F).idxOf 0] := by
              rw [hk, List.getElem?_map, List.getElem?_eq_getElem hkp] at hrow
              exact (Option.some.inj hrow).symm
            -- the two positions are equal: different positions never share a slice
            have hsame : ps'[(ps'.map F).idxOf 0] = ps[(ps.map F).idxOf 0] := by
              have hmem : ps'[(ps'.map F).idxOf 0] ∈ ps := hperm.mem_iff.mpr (List.getElem_mem hkp')
              obtain ⟨j, hj, hpj⟩ := List.getElem_of_mem hmem
              rw [← hpj]
              by_contra hne
              by_cases hmany : (uniqueRows ps).length = 1
              · -- all rows are one row
                apply hne
                have m1 : ps[j] ∈ uniqueRows ps := (mem_uniqueRows _ ps).mpr (List.getElem_mem hj)
                have m2 : ps[(ps.map F).idxOf 0] ∈ uniqueRows ps := (mem_uniqueRows _ ps).mpr (List.getElem_mem hkp)
                match huq : uniqueRows ps, hmany with
                | [a], _ =>
                  rw [huq] at m1 m2
                  simp only [List.mem_singleton] at m1 m2
                  rw [m1, m2]
              · obtain ⟨vi, vj, hvi, hvj, hvne⟩ := gaps_distinct_rows_distinct_indices nrm ps _ rfl rfl hint rtol atol sp0 (ps.map F) h1
                  hmany j ((ps.map F).idxOf 0) hj hkp hne
                rw [List.getElem?_map, List.getElem?_eq_getElem hj] at hvi
                rw [List.getElem?_map, List.getElem?_eq_getElem hkp] at hvj
                simp only [Option.map_some, Option.some.injEq] at hvi hvj
                apply hvne
                rw [← hvi, ← hvj, hF, hpj, hF']
            have hix' : (ps'.map F).idxOf? 0 = some ((ps'.map F).idxOf 0) := idxOf?_of_mem _ _ h0'
            have hrow' : (ps'.map rowOf)[(ps'.map F).idxOf 0]? = some origin := by
              rw [List.getElem?_map, List.getElem?_eq_getElem hkp', Option.map_some, hsame, horigin]
            simp only [hmx', hix', hrow', pure, Except.pure]

/-- non-vacuity: three frames with a missing plane, in two orders, assemble (spacing 1, origin the lowest plane, 4 slices) -/
example : assembleFrames ([(⟨0, 0, -1⟩ : V3), ⟨0, 0, 0⟩, ⟨0, 0, -3⟩].map rowOf) [1, 0, 0, 0, 1, 0] (some 1) none none true
    = .ok (1, [0, 0, 0], 4, [1, 0, 3]) := by decide +kernel
example : [(⟨0, 0, -1⟩ : V3), ⟨0, 0, 0⟩, ⟨0, 0, -3⟩].Perm [⟨0, 0, -3⟩, ⟨0, 0, -1⟩, ⟨0, 0, 0⟩] := by decide

/-- non-vacuity of the soundness theorems: an accepted answer with gaps allowed and no hint (the refined spacing 1 of the planes
`0, 0.9975, 100`), more than one distinct row; planes 1 and 2 are farther apart than twice the tolerance `2 · (0 + 1/100 · 1)` -/
example : volumePositionsOf ⟨0, 0, -1⟩ [⟨0, 0, 0⟩, ⟨0, 0, -399 / 400⟩, ⟨0, 0, -100⟩] { allowMissing := true } none (1 / 100) 0
    = .ok (some (1, [0, 1, 100])) := by decide +kernel
example : (uniqueRows [(⟨0, 0, 0⟩ : V3), ⟨0, 0, -399 / 400⟩, ⟨0, 0, -100⟩]).length ≠ 1 := by decide +kernel
example : 2 * ((0 : Rat) + 1 / 100 * 1) < (⟨0, 0, -1⟩ : V3).dot ⟨0, 0, -100⟩ - (⟨0, 0, -1⟩ : V3).dot ⟨0, 0, -399 / 400⟩ := by decide +kernel

/-- the witnesses of the repaired defect are refused: a plane half a spacing off the hinted grid, 100 spacings up; without a hint,
a plane half a spacing off that no refinement of the spacing can place (without a hint `0, 1, 100.5` IS regular at spacing 1.005) -/
theorem far_plane_half_off_refused :
    getVolumePositions [[0, 0, 0], [0, 0, -1], [0, 0, -201 / 2]] [1, 0, 0, 0, 1, 0] { allowMissing := true, hint := some 1 } = .ok none ∧
    getVolumePositions [[0, 0, 0], [0, 0, -1], [0, 0, -2], [0, 0, -7 / 2]] [1, 0, 0, 0, 1, 0] { allowMissing := true } = .ok none := by
  decide +kernel

/-- … and 100 planes with spacing 1 under the hint 1.009 (planes far up are half a spacing off the hinted grid) -/
theorem drifting_hint_refused :
    getVolumePositions ((List.range 100).map fun k => [0, 0, -(k : Rat)]) [1, 0, 0, 0, 1, 0]
      { allowMissing := true, hint := some (1009 / 1000) } = .ok none := by
  decide +kernel

/-! ### the estimate without a hint (defect C11-gaps-min-gap-estimate, repaired in 8504cfa)

Without a hint the code used to take the smallest consecutive gap at face value as THE spacing; when the two planes that define
it are themselves rounded / jittered (inside the tolerance), planes far up were measured against the mis-estimated spacing and a
regular stack was refused.  The estimate is now refined over growing baselines (`refineSpacing`): for the distance `D` of every
plane above the lowest one, in increasing order, `n = round(D / s)`, `s := D / n`. -/

/-- the criterion without a hint is `gaps_recognised_iff` with the refined estimate -/
theorem gaps_without_hint_criterion (nrm : V3) (f : Nat → V3) (g : Nat → Rat) (hfg : ∀ j, nrm.dot (f j) = g j)
    (hg : StrictMono g) (js : List Nat) {M : Nat} (hM : 1 ≤ M) (hmem : ∀ j, j ∈ js ↔ j < M + 1) (op : Opts)
    (hsort : op.sort = true) (hmiss : op.allowMissing = true) (hdup : op.allowDuplicate = true ∨ js.Nodup)
    {m : Rat} (hmin : minList (diffs ((List.range (M + 1)).map g)) = some m)
    (hz : isClose m 0 npRtol eqTol = false) (rtol atol : Rat) :
    let sp := refineSpacing m ((List.range M).map fun j => g (j + 1) - g 0)
    volumePositionsOf nrm (js.map f) op none rtol atol
      = .ok (if ((List.range (M + 1)).all fun j =>
                  isClose ((g j - g 0) / sp) ((roundHalfEven ((g j - g 0) / sp) : Int) : Rat) 0 (rtol + atol / rabs sp))
                && decide (((List.range (M + 1)).map fun j => roundHalfEven ((g j - g 0) / sp)).Nodup)
                && isPerpendicular nrm ((f M).sub (f 0))
             then some (sp, js.map fun j => roundHalfEven ((g j - g 0) / sp)) else none) := by
  intro sp
  have hest : estimateSpacing ((List.range (M + 1)).map g) = .ok (some sp) := by
    rw [estimateSpacing_of_min hmin hz]
    congr 3
    rw [List.range_succ_eq_map]
    simp only [List.map_cons, List.tail_cons, List.headD_cons, List.map_map]
    rfl
  have hsp0 : 0 < sp := by
    have hm0 : 0 < m := by
      have := sortRat_mono hg (List.Perm.refl (List.range (M + 1)))
      rw [← this] at hmin
      exact gaps_spacing_pos hmin hz
    apply refineSpacing_pos _ hm0
    intro D hD
    rw [List.mem_map] at hD
    obtain ⟨j, _, rfl⟩ := hD
    have := hg (Nat.succ_pos j)
    simp only [Nat.succ_eq_add_one] at this
    linarith
  exact gaps_recognised_iff nrm f g hfg hg js hM hmem op hsort hmiss hdup hsp0 none (Or.inr ⟨rfl, hest⟩) rtol atol

/-- the former counterexample: planes at 0, 0.9975, 100 along the normal (spacing 1, every plane within 0.0025 = a quarter of the
1 % tolerance of the grid) are recognised, with the spacing fitted to the extent -/
theorem min_gap_jitter_recognised :
    getVolumePositions [[0, 0, 0], [0, 0, -399 / 400], [0, 0, -100]] [1, 0, 0, 0, 1, 0] { allowMissing := true }
      = .ok (some (1, [0, 1, 100])) := by
  decide +kernel

/-- **the reported spacing is fitted to the extent** (gaps allowed, no hint; stack along a line, any input order): whenever the
stack is accepted, the lowest plane has index 0 and the HIGHEST plane has a positive index and lies EXACTLY at `index · spacing`
above it — the estimate `refineSpacing` never exceeds the extent and ends with `spacing = extent / n`, `n ≥ 1` (tie:
`tie_gaps_expressions`).  (Interior planes lie within tolerance: `gaps_accepted_within_tolerance`.) -/
theorem gaps_spacing_fits_extent (nrm : V3) (f : Nat → V3) (g : Nat → Rat) (hfg : ∀ j, nrm.dot (f j) = g j)
    (hg : StrictMono g) (js : List Nat) {M : Nat} (hM : 1 ≤ M) (hmem : ∀ j, j ∈ js ↔ j < M + 1) (op : Opts)
    (hsort : op.sort = true) (hmiss : op.allowMissing = true) (hdup : op.allowDuplicate = true ∨ js.Nodup)
    (rtol atol sp : Rat) (vp : List Int)
    (h : volumePositionsOf nrm (js.map f) op none rtol atol = .ok (some (sp, vp))) :
    vp = js.map (fun j => roundHalfEven ((g j - g 0) / sp)) ∧
    0 < roundHalfEven ((g M - g 0) / sp) ∧
    sp * ((roundHalfEven ((g M - g 0) / sp) : Int) : Rat) = g M - g 0 := by
  obtain ⟨m, hmin⟩ := minList_ne_none (diffs_mem g (M + 1) 0 (by omega))
  have hz : isClose m 0 npRtol eqTol = false := by
    by_contra hc
    have hc' : isClose m 0 npRtol eqTol = true := by simpa using hc
    have hest : estimateSpacing ((List.range (M + 1)).map g) = .ok none := by
      unfold estimateSpacing; simp only [hmin, hc', if_true, pure, Except.pure]
    -- the estimate is `none`: the function answers (None, None)
    have := volumePositionsOf_lift nrm f g hfg hg js hM hmem op hsort hdup none rtol atol (fun _ => (0 : Int)) (.ok none)
      (fun js' hp' => by
        rw [hmiss]
        have hd : (js'.map f).map nrm.dot = js'.map g := by
          rw [List.map_map]; apply List.map_congr_left; intro j _; exact hfg j
        unfold examine spacingMissing
        simp only [hd, if_true, sortRat_mono hg hp', hest, bind, Except.bind, pure, Except.pure, Except.map]
        rfl)
    rw [this] at h
    simp [Except.map] at h
  have hcrit := gaps_without_hint_criterion nrm f g hfg hg js hM hmem op hsort hmiss hdup hmin hz rtol atol
  simp only [] at hcrit
  rw [hcrit] at h
  split_ifs at h with hc
  · simp only [Except.ok.injEq, Option.some.injEq, Prod.mk.injEq] at h
    obtain ⟨hsp, hvp⟩ := h
    have hvpe : vp = js.map (fun j => roundHalfEven ((g j - g 0) / sp)) := by rw [← hvp, hsp]
    have hl : (List.range M).map (fun j => g (j + 1) - g 0)
        = ((List.range (M - 1)).map fun j => g (j + 1) - g 0) ++ [g M - g 0] := by
      obtain ⟨M', rfl⟩ : ∃ M', M = M' + 1 := ⟨M - 1, by omega⟩
      rw [List.range_succ, List.map_append]; rfl
    rw [hl] at hsp
    have hD : 0 < g M - g 0 := by have := hg (show 0 < M by omega); linarith
    -- the estimate before the last step is positive and at most the extent: the last distance rounds to n ≥ 1 spacings
    have hm0 : 0 < m := by
      have := sortRat_mono hg (List.Perm.refl (List.range (M + 1)))
      rw [← this] at hmin
      exact gaps_spacing_pos hmin hz
    have hmle : m ≤ g M - g 0 := by
      have h1 := minList_le hmin _ (diffs_mem g (M + 1) 0 (by omega))
      have h2 : g 1 ≤ g M := hg.monotone hM
      simp only [Nat.zero_add] at h1
      linarith
    have hpre : ∀ D ∈ ((List.range (M - 1)).map fun j => g (j + 1) - g 0), 0 ≤ D ∧ D ≤ g M - g 0 := by
      intro D hDm
      obtain ⟨j, hj, rfl⟩ := List.mem_map.mp hDm
      have hj' := List.mem_range.mp hj
      have h1 : g 0 ≤ g (j + 1) := hg.monotone (Nat.zero_le _)
      have h2 : g (j + 1) ≤ g M := hg.monotone (by omega)
      constructor <;> linarith
    have hs'le := refineSpacing_le_of_le _ hmle hpre
    have hs'pos := refineSpacing_pos _ hm0 (fun D hDm => (hpre D hDm).1)
    have hn' : 0 < roundHalfEven ((g M - g 0) / refineSpacing m ((List.range (M - 1)).map fun j => g (j + 1) - g 0)) := by
      apply roundHalfEven_pos_of_one_le
      rw [le_div_iff₀ hs'pos]; linarith
    have htop : 0 < roundHalfEven ((g M - g 0) / sp) := by
      rw [← hsp, refineSpacing_append, if_pos hn']
      have hq : (0 : Rat) < ((roundHalfEven ((g M - g 0) / refineSpacing m ((List.range (M - 1)).map fun j => g (j + 1) - g 0)) : Int) : Rat) := by
        exact_mod_cast hn'
      have e : (g M - g 0) / ((g M - g 0) / ((roundHalfEven ((g M - g 0) / refineSpacing m ((List.range (M - 1)).map fun j => g (j + 1) - g 0)) : Int) : Rat))
          = ((roundHalfEven ((g M - g 0) / refineSpacing m ((List.range (M - 1)).map fun j => g (j + 1) - g 0)) : Int) : Rat) := by
        field_simp
      rw [e, roundHalfEven_intCast]; exact hn'
    refine ⟨hvpe, htop, ?_⟩
    rw [← hsp] at htop ⊢
    exact refineSpacing_fits_last m _ hD htop
  · cases h

/-- non-vacuity: the witness `0, 0.9975, 100` is accepted (`min_gap_jitter_recognised`, spacing 1): index of the top plane 100 > 0 and
`1 · 100 = 100` -/
example : (0 : Int) < roundHalfEven (((100 : Rat) - 0) / 1) ∧ (1 : Rat) * ((roundHalfEven (((100 : Rat) - 0) / 1) : Int) : Rat) = 100 - 0 := by
  decide +kernel

/-- **the estimate is exact on exact stacks**: planes at distances `c + k j · s` (plane numbers strictly increasing from 0, two
neighbouring planes present): the smallest gap is `s`, every distance is a whole multiple of it and the refinement loop returns
`s` itself — so `gaps_recognised` reports `s` and the plane numbers `k j` -/
theorem estimate_exact_on_exact_stacks (c : Rat) {s : Rat} (hs : 0 < s) (hz : isClose s 0 npRtol eqTol = false) (k : Nat → Nat)
    (hk : StrictMono k) (hk0 : k 0 = 0) {M : Nat} (hadj : ∃ j, j < M ∧ k (j + 1) = k j + 1) :
    estimateSpacing ((List.range (M + 1)).map fun j => c + ((k j : Nat) : Rat) * s) = .ok (some s) :=
  estimateSpacing_exact c hs hz k hk hk0 hadj

/-- evaluated: planes 0, 1, 3, 4 of a stack with spacing 1/8 — the estimate is the spacing itself -/
example : estimateSpacing [0, 1 / 8, 3 / 8, 4 / 8] = .ok (some (1 / 8)) := by decide +kernel
example : isClose (1 / 8 : Rat) 0 npRtol eqTol = false := by decide +kernel

/-! ### completeness of the estimate: what holds, and the open finding C11-gaps-sparse-start

FULL STATEMENT that the property suggests and that does NOT hold of the code: "with gaps allowed and no hint, a stack all of whose
planes lie within (a quarter of) the tolerance of `lowest + k_j·s·n` for SOME spacing `s` and whole plane numbers `k_j` (the closest
pair one apart) is recognised".  The code extrapolates from the smallest gap: `n = round(D/s)`, `s := D/n` over the distances `D`
above the lowest plane in increasing order.  That finds the plane numbers as long as they grow moderately
(`gaps_jittered_recognised_partial`); when the plane number jumps by a factor of more than about `s/(2ε)` from one present plane to
the next (`ε` = how far planes are off the grid), the rounding can hit a neighbouring number and the stack is refused
(`counterexample_sparse_start_refused`; witness replayed on the implementation by every run: KNOWN-FINDING). -/

/-- **rounded / jittered stacks with gaps are recognised when the plane numbers grow moderately** (the part of the full statement
that holds).  Stack along a line (rows `f j` at strictly increasing distances `g j`, any input order `js`, duplicates when declared),
every plane within `ε` of `g 0 + k j · s` (plane numbers `k` strictly increasing from 0, two neighbouring planes present), and
* `hfirst`: the smallest gap (known to `2ε`) tells the number of the second plane: `2ε(1 + 2 k₁) < s − 2ε`,
* `hgrow`: the spacing fitted to plane `j` tells the number of plane `j+1`: `2ε(k_j + k_{j+1}) < k_j s − ε`,
* `hzero`: the spacing is not zero within `1e-5`; `htol`: `2ε ≤ atol + rtol (s − ε)` (planes within about half the tolerance);
* the span between the extreme planes is perpendicular.
Then the answer is the spacing FITTED TO THE EXTENT, `(g M − g 0) / k M`, and the true plane number `k j` of every row. -/
theorem gaps_jittered_recognised_partial (nrm : V3) (f : Nat → V3) (g : Nat → Rat) (hfg : ∀ j, nrm.dot (f j) = g j)
    (hg : StrictMono g) (js : List Nat) {M : Nat} (hM : 1 ≤ M) (hmem : ∀ j, j ∈ js ↔ j < M + 1) (op : Opts)
    (hsort : op.sort = true) (hmiss : op.allowMissing = true) (hdup : op.allowDuplicate = true ∨ js.Nodup)
    {s ε : Rat} (hε : 0 ≤ ε) (k : Nat → Nat) (hk : StrictMono k) (hk0 : k 0 = 0)
    (hadj : ∃ a, a < M ∧ k (a + 1) = k a + 1)
    (hnear : ∀ j, j ≤ M → |g j - g 0 - (k j : Rat) * s| ≤ ε)
    (hfirst : 2 * ε * (1 + 2 * (k 1 : Rat)) < s - 2 * ε)
    (hgrow : ∀ j, 1 ≤ j → j < M → 2 * ε * ((k j : Rat) + (k (j + 1) : Rat)) < (k j : Rat) * s - ε)
    (hzero : eqTol < s - 2 * ε)
    {rtol atol : Rat} (hr : 0 ≤ rtol) (htol : 2 * ε ≤ atol + rtol * (s - ε))
    (hperp : isPerpendicular nrm ((f M).sub (f 0)) = true) :
    volumePositionsOf nrm (js.map f) op none rtol atol
      = .ok (some ((g M - g 0) / (k M : Rat), js.map fun j => ((k j : Nat) : Int))) := by
  have hk1 : 1 ≤ k 1 := by have := hk (Nat.zero_lt_one); omega
  have hk1Q : (1 : Rat) ≤ (k 1 : Rat) := by exact_mod_cast hk1
  have h8 : 8 * ε < s := by nlinarith
  obtain ⟨m, hmin⟩ := minList_ne_none (diffs_mem g (M + 1) 0 (by omega))
  obtain ⟨hm_lo, hm_hi, hsp⟩ := refineSpacing_jittered g hg hM hε k hk hk0 hadj hnear hfirst hgrow hmin
  have hm0 : 0 < m := by linarith
  have hz : isClose m 0 npRtol eqTol = false := by
    unfold isClose
    have : rabs (m - 0) = m := by rw [sub_zero]; exact rabs_of_pos hm0
    have r0 : rabs (0 : Rat) = 0 := by decide +kernel
    rw [this, r0, mul_zero, add_zero]
    exact decide_eq_false (by linarith)
  have hcrit := gaps_without_hint_criterion nrm f g hfg hg js hM hmem op hsort hmiss hdup hmin hz rtol atol
  simp only [hsp] at hcrit
  rw [hcrit]
  -- the fitted spacing
  have hkM : 1 ≤ k M := by
    have := hk (show 0 < M by omega); omega
  have hkMQ : (1 : Rat) ≤ (k M : Rat) := by exact_mod_cast hkM
  have hkM0 : (0 : Rat) < (k M : Rat) := by linarith
  have EM := abs_le.mp (hnear M (le_refl _))
  set sp := (g M - g 0) / (k M : Rat) with hspdef
  have hsp_lo : s - ε ≤ sp := by
    rw [hspdef, le_div_iff₀ hkM0]; nlinarith
  have hsp0 : 0 < sp := by linarith
  have hDM : g M - g 0 = (k M : Rat) * sp := by rw [hspdef]; field_simp
  -- every plane within 2 ε of its multiple of the fitted spacing
  have hdev : ∀ j, j ≤ M → |(g j - g 0) / sp - (k j : Rat)| ≤ 2 * ε / sp := by
    intro j hj
    have Ej := abs_le.mp (hnear j hj)
    have hkj : k j ≤ k M := hk.monotone hj
    have hkjQ : (k j : Rat) ≤ (k M : Rat) := by exact_mod_cast hkj
    have hkj0 : (0 : Rat) ≤ (k j : Rat) := Nat.cast_nonneg _
    have e : (g j - g 0) / sp - (k j : Rat) = ((g j - g 0) - (k j : Rat) * sp) / sp := by field_simp
    rw [e, abs_div, abs_of_pos hsp0]
    apply div_le_div_of_nonneg_right _ (le_of_lt hsp0)
    -- (g j − g 0) − k j sp = E j − k j (sp − s), and k M (sp − s) = E M
    have hd : |sp - s| * (k M : Rat) ≤ ε := by
      have : (sp - s) * (k M : Rat) = g M - g 0 - (k M : Rat) * s := by rw [hDM]; ring
      rw [← abs_of_pos hkM0, ← abs_mul, this]; exact hnear M (le_refl _)
    have hd2 : |sp - s| * (k j : Rat) ≤ ε := le_trans (mul_le_mul_of_nonneg_left hkjQ (abs_nonneg _)) hd
    have e2 : (g j - g 0) - (k j : Rat) * sp = (g j - g 0 - (k j : Rat) * s) - (sp - s) * (k j : Rat) := by ring
    rw [e2]
    calc |(g j - g 0 - (k j : Rat) * s) - (sp - s) * (k j : Rat)|
        ≤ |g j - g 0 - (k j : Rat) * s| + |(sp - s) * (k j : Rat)| := abs_sub _ _
      _ ≤ ε + ε := by
          apply add_le_add (hnear j hj)
          rw [abs_mul, abs_of_nonneg hkj0]; exact hd2
      _ = 2 * ε := by ring
  have hround : ∀ j, j ≤ M → roundHalfEven ((g j - g 0) / sp) = ((k j : Nat) : Int) := by
    intro j hj
    have h := abs_le.mp (hdev j hj)
    have hq : 2 * ε / sp < 1 / 2 := by rw [div_lt_iff₀ hsp0]; linarith
    apply roundHalfEven_eq_of_near <;> push_cast <;> linarith
  have hall : ((List.range (M + 1)).all fun j =>
      isClose ((g j - g 0) / sp) ((roundHalfEven ((g j - g 0) / sp) : Int) : Rat) 0 (rtol + atol / rabs sp)) = true := by
    rw [List.all_eq_true]
    intro j hj
    have hj' : j ≤ M := by have := List.mem_range.mp hj; omega
    rw [hround j hj', rabs_of_pos hsp0]
    unfold isClose
    rw [zero_mul, add_zero, rabs_eq_abs]
    apply decide_eq_true
    push_cast
    refine le_trans (hdev j hj') ?_
    have : rtol + atol / sp = (rtol * sp + atol) / sp := by field_simp
    rw [this]
    apply div_le_div_of_nonneg_right _ (le_of_lt hsp0)
    nlinarith
  have hnd : decide (((List.range (M + 1)).map fun j => roundHalfEven ((g j - g 0) / sp)).Nodup) = true := by
    apply decide_eq_true
    have e : ((List.range (M + 1)).map fun j => roundHalfEven ((g j - g 0) / sp)) = (List.range (M + 1)).map fun j => ((k j : Nat) : Int) := by
      apply List.map_congr_left
      intro j hj
      exact hround j (by have := List.mem_range.mp hj; omega)
    rw [e]
    refine List.Nodup.map ?_ List.nodup_range
    intro a b hab
    have : k a = k b := by simp only at hab; exact_mod_cast hab
    exact hk.injective this
  rw [hall, hnd, hperp]
  simp only [Bool.and_self, if_true]
  congr 3
  apply List.map_congr_left
  intro j hj
  exact hround j (by have := (hmem j).mp hj; omega)


/-- the planes of the open finding's witness ARE regular (spacing 1, numbers 0, 400, 401, 531, every plane within 0.0025 = a quarter
of the 1 % tolerance of its multiple) and are recognised when the spacing is declared — without a hint they are refused: the
smallest gap 0.995 puts the second plane at number `round(400.0025 / 0.995) = 402` -/
theorem counterexample_sparse_start_refused :
    getVolumePositions [[0, 0, 0], [0, 0, -160001 / 400], [0, 0, -160399 / 400], [0, 0, -531]] [1, 0, 0, 0, 1, 0]
      { allowMissing := true } = .ok none ∧
    getVolumePositions [[0, 0, 0], [0, 0, -160001 / 400], [0, 0, -160399 / 400], [0, 0, -531]] [1, 0, 0, 0, 1, 0]
      { allowMissing := true, hint := some 1 } = .ok (some (1, [0, 400, 401, 531])) ∧
    (∀ zk ∈ [((0 : Rat), (0 : Rat)), (160001 / 400, 400), (160399 / 400, 401), (531, 531)], |zk.1 - zk.2 * 1| ≤ (1 / 100) / 4) := by
  refine ⟨by decide +kernel, by decide +kernel, ?_⟩
  intro zk h
  simp only [List.mem_cons, List.not_mem_nil, or_false] at h
  rcases h with rfl | rfl | rfl | rfl <;> rw [abs_le] <;> constructor <;> norm_num

/-- non-vacuity of `gaps_jittered_recognised_partial`: the former witness of C11-gaps-min-gap-estimate (planes at 0, 0.9975, 100;
numbers 0, 1, 100; `s = 1`, `ε = 1/400`, `rtol = 1 %`) satisfies every hypothesis -/
example : StrictMono (fun j : Nat => if j < 2 then (399 / 400 : Rat) * j else 98 + j) := by
  intro a b h
  simp only
  have ha : (a : Rat) < (b : Rat) := by exact_mod_cast h
  split_ifs with h1 h2 h2
  · nlinarith
  · have : (2 : Rat) ≤ (b : Rat) := by exact_mod_cast (not_lt.mp h2)
    have : (a : Rat) < 2 := by exact_mod_cast h1
    nlinarith
  · omega
  · linarith
example : StrictMono (fun j : Nat => if j < 2 then j else 98 + j) := by
  intro a b h; simp only; split_ifs <;> omega
example : ∀ j, j ≤ 2 → |(fun j : Nat => if j < 2 then (399 / 400 : Rat) * j else 98 + j) j
    - (fun j : Nat => if j < 2 then (399 / 400 : Rat) * j else 98 + j) 0
    - (((fun j : Nat => if j < 2 then j else 98 + j) j : Nat) : Rat) * 1| ≤ 1 / 400 := by
  intro j hj
  have : j = 0 ∨ j = 1 ∨ j = 2 := by omega
  rcases this with rfl | rfl | rfl <;> norm_num [abs_le]
example : 2 * (1 / 400 : Rat) * (1 + 2 * (1 : Rat)) < 1 - 2 * (1 / 400) ∧ 2 * (1 / 400 : Rat) * (1 + 100) < 1 * 1 - 1 / 400 ∧
    eqTol < 1 - 2 * (1 / 400) ∧ 2 * (1 / 400 : Rat) ≤ 0 + (1 / 100) * (1 - 1 / 400) := by decide +kernel
example : isPerpendicular ⟨0, 0, -1⟩ ((⟨0, 0, -100⟩ : V3).sub ⟨0, 0, 0⟩) = true := by decide +kernel

/-- a hint normalises to its absolute value; a zero hint is refused -/
theorem hint_options (h : Rat) (hh : h ≠ 0) : normaliseOpts { hint := some h } = .ok (some (rabs h), defaultRtol, 0) := by
  unfold normaliseOpts rabs
  by_cases hneg : h < 0
  · have : ¬ -h = 0 := by intro e; apply hh; linarith
    simp [hneg, this, bind, Except.bind, pure, Except.pure, defaultRtol]
  · simp [hneg, hh, bind, Except.bind, pure, Except.pure, defaultRtol]

theorem zero_hint_refused : normaliseOpts { hint := some 0 } = .error .value := by decide +kernel

/-- **spacing hints without gaps**: for a stack along a line (any input order, duplicates when declared) a hint
within tolerance of the mean spacing changes nothing, any other hint is reported as an error. -/
theorem hint_checked (nrm : V3) (f : Nat → V3) (g : Nat → Rat) (hfg : ∀ j, nrm.dot (f j) = g j)
    (hg : StrictMono g) (js : List Nat) {M : Nat} (hM : 1 ≤ M) (hmem : ∀ j, j ∈ js ↔ j < M + 1) (op : Opts)
    (hsort : op.sort = true) (hmiss : op.allowMissing = false) (hdup : op.allowDuplicate = true ∨ js.Nodup)
    (h rtol atol : Rat) :
    volumePositionsOf nrm (js.map f) op (some h) rtol atol
      = if isClose ((g M - g 0) / (M : Rat)) h rtol atol then volumePositionsOf nrm (js.map f) op none rtol atol
        else .error .runtime :=
  hint_checked_line nrm f g hfg hg js hM hmem op hsort hmiss hdup h rtol atol

/-- gaps, evaluated: planes 0, 1, 3, 4 of a stack with spacing 1/8 given as 1, 0, 4, 3 -/
example : getVolumePositions [[0, 0, -1 / 8], [0, 0, 0], [0, 0, -4 / 8], [0, 0, -3 / 8]] [1, 0, 0, 0, 1, 0]
    { allowMissing := true } = .ok (some (1 / 8, [1, 0, 4, 3])) := by decide +kernel
example : StrictMono (fun j : Nat => if j < 2 then j else j + 1) := by
  intro a b h; simp only; split_ifs <;> omega

/-! ## non-vacuity -/

/-- the unit normal of the axial orientation in the volume convention is −z -/
example : normalSpec ⟨⟨1, 0, 0⟩, ⟨0, 1, 0⟩⟩ ('D', 'R') true = ⟨0, 0, -1⟩ := by decide +kernel
example : OrthoPair (⟨3 / 5, 4 / 5, 0⟩ : V3) ⟨-4 / 5, 3 / 5, 0⟩ := ⟨by decide +kernel, by decide +kernel, by decide +kernel⟩
example : [2, 0, 3, 1].Perm (List.range 4) := by decide
example : ∀ j, j ∈ [2, 0, 1, 2, 0] ↔ j < 3 := by intro j; simp; omega
/-- a shuffled regular oblique stack with a duplicate, evaluated: spacing 5/4, indices = plane numbers -/
example : getVolumePositions
    (([2, 0, 1, 2].map (planePos ⟨1, 2, 3⟩ (normalSpec ⟨⟨3 / 5, 4 / 5, 0⟩, ⟨-4 / 5, 3 / 5, 0⟩⟩ ('D', 'R') true) (5 / 4))).map rowOf)
    [3 / 5, 4 / 5, 0, -4 / 5, 3 / 5, 0] { allowDuplicate := true } = .ok (some (5 / 4, [2, 0, 1, 2])) := by decide +kernel
/-- an irregular stack (last gap doubled) is refused -/
example : getVolumePositions [[0, 0, 0], [0, 0, -1], [0, 0, -3]] [1, 0, 0, 0, 1, 0] {} = .ok none := by decide +kernel
/-- a sheared stack (stacking direction 0.2 off) is refused although the spacing is regular -/
example : getVolumePositions [[0, 0, 0], [1 / 5, 0, -1], [2 / 5, 0, -2]] [1, 0, 0, 0, 1, 0] {} = .ok none := by decide +kernel
example : (1 : Rat) * 1 ≤ (1 - perpTol) * (1 - perpTol) * (1 * 1 + (1 / 5) * (1 / 5)) := by decide +kernel
/-- the witnesses of the repaired `sort=False` defect -/
example : getVolumePositions [[0, 0, 2], [0, 0, 1], [0, 0, 0]] [1, 0, 0, 0, 1, 0] { sort := false, enforce := true }
    = .ok (some (1, [0, 1, 2])) := by decide +kernel
example : getVolumePositions [[0, 0, 1], [0, 0, 0], [0, 0, 2]] [1, 0, 0, 0, 1, 0] { sort := false } = .ok none := by
  decide +kernel

/-! ## the hand-written arithmetic is the source's (bridges, `Proofs/StackTie.lean`)

The theorems above speak about the hand-written `spacingRegular`, `spacingMissing`, `examine`, `assembleFrames`,
`assembleSeries`.  Their scalar expressions and index choices are regenerated from the source (targets TC11v, TC11a:
`Gen.meanSpacing`, `Gen.hintCompared`, `Gen.gapMultiple`, `Gen.gapRtol`, `Gen.gapAtol`, `Gen.gapZeroAtol`,
`Gen.handednessRefuses`, `Gen.returnedSpacing`, `Gen.singlePositionSpacing`, `Gen.stackedSlices`, `Gen.stackedOriginPosition`,
`Gen.seriesFirstFromSorted`, `Gen.seriesFirstIndex`, `Gen.seriesSingleSpacing`); the hand-written definitions are EQUAL to their
twins built from those. -/

/-- option handling: the three leading if-statements of `get_volume_positions` (`sort=False` restrictions, magnitude / zero test
of the hint, exclusive tolerances and the default) are the source's (`Gen.optionFlags`, `Gen.optionHint`, `Gen.optionTolerances`,
their order pinned textually by TC11v) -/
theorem tie_option_handling (o : Opts) : normaliseOpts o = normaliseOptsSrc o := normaliseOpts_uses_source o

/-- no gaps: the mean spacing and the quantity compared with the hint are the source's expressions -/
theorem tie_no_gaps_expressions (ds : List Rat) (rk : List Nat) (hint : Option Rat) (rtol atol : Rat) :
    spacingRegular ds rk hint rtol atol = spacingRegularSrc ds rk hint rtol atol :=
  spacingRegular_uses_source ds rk hint rtol atol

/-- gaps: the multiples, their tolerances and the zero test of the estimated spacing are the source's expressions -/
theorem tie_gaps_expressions (d ds : List Rat) (hint : Option Rat) (rtol atol : Rat) :
    spacingMissing d ds hint rtol atol = spacingMissingSrc d ds hint rtol atol :=
  spacingMissing_uses_source d ds hint rtol atol

/-- after both routes: the handedness refusal and the returned spacing are the source's expressions; a single position gets
the source's stipulated spacing -/
theorem tie_handedness_and_returned_spacing (nrm : V3) (u : List V3) (sorted allowMissing : Bool) (hint : Option Rat)
    (rtol atol : Rat) (enforce : Bool) :
    examine nrm u sorted allowMissing hint rtol atol enforce = examineSrc nrm u sorted allowMissing hint rtol atol enforce ∧
    (match hint with | none => Gen.singlePositionSpacing | some h => .ok h) = .ok (hint.getD 1) :=
  ⟨examine_uses_source nrm u sorted allowMissing hint rtol atol enforce, single_position_uses_source hint⟩

/-- assembly: number of slices, origin frame, the dataset that positions the volume and the single-dataset spacing are the
source's choices -/
theorem tie_assembly_choices {α} (rows : List (List Rat)) (items : List (List Rat × α)) (sbs : List (Option Rat))
    (ori : List Rat) (hint rtol atol : Option Rat) (allowMissing : Bool) :
    assembleFrames rows ori hint rtol atol allowMissing = assembleFramesSrc rows ori hint rtol atol allowMissing ∧
    assembleSeries items sbs ori rtol atol = assembleSeriesSrc items sbs ori rtol atol :=
  ⟨assembleFrames_uses_source rows ori hint rtol atol allowMissing, assembleSeries_uses_source items sbs ori rtol atol⟩

/-- non-vacuity: the twins evaluate (and refuse) like the functions -/
example : normaliseOptsSrc { hint := some (-2), atol := some (1 / 8) } = .ok (some 2, 0, 1 / 8) := by decide +kernel
example : normaliseOptsSrc { sort := false, allowMissing := true } = .error .value := by decide +kernel
example : normaliseOptsSrc { rtol := some 1, atol := some 1 } = .error .type := by decide +kernel
example : spacingRegularSrc [0, 2, 4] [0, 1, 2] (some 2) 0 0 = .ok (2, true, [0, 1, 2]) := by decide +kernel
example : spacingRegularSrc [4, 2, 0] [0, 1, 2] (some 2) 0 0 = .ok (-2, true, [0, 1, 2]) := by decide +kernel
example : spacingRegularSrc [0, 2, 4] [0, 1, 2] (some 3) 0 0 = .error .runtime := by decide +kernel
example : spacingMissingSrc [6, 0, 2] [0, 2, 6] none 0 0 = .ok (some (2, true, [3, 0, 1])) := by decide +kernel
example : spacingMissingSrc [0, 0] [0, 0] none 0 0 = .ok none := by decide +kernel
example : assembleFramesSrc [[0, 0, -1], [0, 0, 0], [0, 0, -3]] [1, 0, 0, 0, 1, 0] (some 1) none none true
    = .ok (1, [0, 0, 0], 4, [1, 0, 3]) := by decide +kernel
example : assembleSeriesSrc [([0, 0, -1], 'b'), ([0, 0, 0], 'a'), ([0, 0, -2], 'c')] [none, none, none] [1, 0, 0, 0, 1, 0] none none
    = .ok (1, [0, 0, 0], ['a', 'b', 'c']) := by decide +kernel

end HdVerif.C11
