import HdVerif.Proofs.Affine
import HdVerif.Generated.T13w
import HdVerif.Generated.TC10s
import HdVerif.Proofs.AffineTie
import HdVerif.Proofs.AffinePairs
import HdVerif.Proofs.AffineRound
import HdVerif.Proofs.AffineCalls
import HdVerif.Proofs.AffineImage
import HdVerif.Proofs.AffineExtra
import HdVerif.Proofs.AffineTie2
/-! # C10  Coordinate transforms are mutually consistent and invertible

Property theorems only (helper lemmas live in `Proofs/Affine.lean`).  The statements are about the model
`Model/Affine.lean` of `highdicom/spatial.py`; the decision tables inside it (`Gen.rotationAxisTable`,
`Gen.rotationCrossOrder`, `Gen.slicesFirstPutsNormalFirst`, `Gen.directionToVector`,
`Gen.posDirections`, `Gen.negDirections`, `Gen.orientationOpposites`, the half-pixel corrections
`Gen.imgToRefCorrection` …) are regenerated from /repo's current source on every run (tie T); the rest is
bound by the correspondence (tie C).

A `Plane` is a position, row / column cosines and the two pixel spacings; `P.Valid` = positive spacings
and row, column directions not parallel (nothing more is needed for invertibility; orthonormality is
assumed only where lengths and handedness are stated).  `P.posL`, `P.oriL`, `P.ps` are the attribute
lists the code receives; `P.fwd sbs` is the affine of DICOM PS3.3 C.7.6.2.1-1 with a slice axis. -/
namespace HdVerif.C10
open HdVerif HdVerif.Affine

/-! ## round trips -/

/-- **pixel → reference → pixel** is the identity, for every valid plane (axis-aligned or oblique), every
non-zero slice spacing of the inverse transformer and every integer index pair; both constructors accept. -/
theorem ref_to_pixel_left_inverse (P : Plane) (h : P.Valid) {sbs : Rat} (hs : sbs ≠ 0) (c r : Int) :
    ∃ v, pixToRef P.posL P.oriL P.ps c r = .ok v ∧
         refToPix P.posL P.oriL P.ps sbs v = .ok ⟨(c : Rat), (r : Rat), 0⟩ := by
  obtain ⟨mi, hmi, hinv⟩ := invAffine_eval P h hs
  refine ⟨(P.fwd 1).apply ⟨(c : Rat), (r : Rat), 0⟩, ?_, ?_⟩
  · simp [pixToRef, pixToRefAffine_eval P h.hr h.hc, bind, Except.bind, pure, Except.pure]
  · have hz : (P.fwd 1).apply ⟨(c : Rat), (r : Rat), 0⟩ = (P.fwd sbs).apply ⟨(c : Rat), (r : Rat), 0⟩ := by
      simp [Plane.fwd, Aff.apply, M3.mulVec, V3.smul, V3.add]
    rw [hz]
    simp only [refToPix, hinv, bind, Except.bind, pure, Except.pure]
    have := Aff.inv_apply_left hmi P.pos ⟨(c : Rat), (r : Rat), 0⟩
    simp only [Plane.fwd] at this ⊢
    rw [this]

/-- **reference → pixel → reference** is the identity (3-D, with the slice coordinate), every point. -/
theorem ref_to_pixel_right_inverse (P : Plane) (h : P.Valid) {sbs : Rat} (hs : sbs ≠ 0) (v : V3) :
    ∃ p, refToPix P.posL P.oriL P.ps sbs v = .ok p ∧ (P.fwd sbs).apply p = v := by
  obtain ⟨mi, hmi, hinv⟩ := invAffine_eval P h hs
  refine ⟨(Aff.mk mi (mi.mulVec P.pos).neg).apply v, ?_, ?_⟩
  · simp only [refToPix, hinv, bind, Except.bind, pure, Except.pure]
  · exact Aff.inv_apply_right hmi P.pos v

/-- … and for a point that the inverse transformer places at integer indices in the plane, the forward
transformer maps those indices back to the point. -/
theorem ref_to_pixel_right_inverse_in_plane (P : Plane) (h : P.Valid) {sbs : Rat} (hs : sbs ≠ 0) (v : V3)
    (c r : Int) (hp : refToPix P.posL P.oriL P.ps sbs v = .ok ⟨(c : Rat), (r : Rat), 0⟩) :
    pixToRef P.posL P.oriL P.ps c r = .ok v := by
  obtain ⟨p, hp', hv⟩ := ref_to_pixel_right_inverse P h hs v
  rw [hp] at hp'
  cases hp'
  simp only [pixToRef, pixToRefAffine_eval P h.hr h.hc, bind, Except.bind, pure, Except.pure]
  rw [← hv]
  simp [Plane.fwd, Aff.apply, M3.mulVec, V3.smul, V3.add]

/-- the 3-D forward affine built by `create_affine_matrix_from_attributes` (default convention) is
`P.fwd sbs`, so the two theorems above are about the code's own pair of matrices. -/
theorem forward_affine_is_fwd (P : Plane) (h : P.Valid) (sbs : Rat) :
    affineFromAttributes P.posL P.oriL P.ps sbs ['R', 'D'] false true = .ok (P.fwd sbs) := by
  have := affineFromAttributes_eval P h.hr h.hc (cv := ('R', 'D')) (Or.inl rfl) false true sbs
  simp only at this
  rw [this, ← fwd_eq_frame]; rfl

/-! ## image coordinates = pixel indices + half a pixel -/

/-- **half pixel, forward**: the image-coordinate transformer at `(x, y)` is the pixel affine at
`(x − ½, y − ½)`; in particular `(c + ½, r + ½)` is the centre of pixel `(c, r)`. -/
theorem half_pixel (P : Plane) (h : P.Valid) (x y : Rat) :
    imgToRef P.posL P.oriL P.ps x y = .ok ((P.fwd 1).apply ⟨x - 1 / 2, y - 1 / 2, 0⟩) := by
  have ha := forward_affine_is_fwd P h 1
  simp only [imgToRef, imgToRefAffine, ha, bind, Except.bind, pure, Except.pure, Aff.comp_apply,
    Aff.shift_apply]
  congr 2
  simp only [vecOfTriple, Gen.imgToRefCorrection, V3.add, V3.mk.injEq]
  refine ⟨?_, ?_, ?_⟩ <;> ring

theorem half_pixel_centre (P : Plane) (h : P.Valid) (c r : Int) :
    imgToRef P.posL P.oriL P.ps ((c : Rat) + 1 / 2) ((r : Rat) + 1 / 2) = pixToRef P.posL P.oriL P.ps c r := by
  rw [half_pixel P h]
  simp only [pixToRef, pixToRefAffine_eval P h.hr h.hc, bind, Except.bind, pure, Except.pure]
  congr 2
  simp only [V3.mk.injEq]
  refine ⟨?_, ?_, trivial⟩ <;> ring

/-- **half pixel, inverse**: reference → image coordinates is reference → pixel indices shifted by
`(½, ½, 0)`. -/
theorem half_pixel_inverse (P : Plane) (sbs : Rat) (v p : V3)
    (hp : refToPix P.posL P.oriL P.ps sbs v = .ok p) :
    refToImg P.posL P.oriL P.ps sbs v = .ok ⟨p.x + 1 / 2, p.y + 1 / 2, p.z⟩ := by
  unfold refToPix at hp
  unfold refToImg refToImgAffine
  cases hi : invAffineFromAttributes P.posL P.oriL P.ps sbs with
  | error e => rw [hi] at hp; cases hp
  | ok a =>
    rw [hi] at hp
    simp only [bind, Except.bind, pure, Except.pure, Except.ok.injEq] at hp ⊢
    rw [Aff.comp_apply, Aff.shift_apply, hp]
    simp only [vecOfTriple, Gen.refToImgCorrection, V3.add, V3.mk.injEq]
    refine ⟨?_, ?_, ?_⟩ <;> first | ring | simp

/-- **image → reference → image** is the identity for every (sub-pixel) image coordinate. -/
theorem ref_to_image_left_inverse (P : Plane) (h : P.Valid) {sbs : Rat} (hs : sbs ≠ 0) (x y : Rat) :
    ∃ v, imgToRef P.posL P.oriL P.ps x y = .ok v ∧ refToImg P.posL P.oriL P.ps sbs v = .ok ⟨x, y, 0⟩ := by
  obtain ⟨mi, hmi, hinv⟩ := invAffine_eval P h hs
  refine ⟨_, half_pixel P h x y, ?_⟩
  have hz : (P.fwd 1).apply ⟨x - 1 / 2, y - 1 / 2, 0⟩ = (P.fwd sbs).apply ⟨x - 1 / 2, y - 1 / 2, 0⟩ := by
    simp [Plane.fwd, Aff.apply, M3.mulVec, V3.smul, V3.add]
  have hp : refToPix P.posL P.oriL P.ps sbs ((P.fwd 1).apply ⟨x - 1 / 2, y - 1 / 2, 0⟩)
      = .ok ⟨x - 1 / 2, y - 1 / 2, 0⟩ := by
    rw [hz]
    simp only [refToPix, hinv, bind, Except.bind, pure, Except.pure]
    have := Aff.inv_apply_left hmi P.pos ⟨x - 1 / 2, y - 1 / 2, 0⟩
    simp only [Plane.fwd] at this ⊢
    rw [this]
  rw [half_pixel_inverse P sbs _ _ hp]
  have e1 : x - 1 / 2 + 1 / 2 = x := by ring
  have e2 : y - 1 / 2 + 1 / 2 = y := by ring
  simp only [e1, e2]

/-- **reference → image → reference**: a point whose image coordinates lie in the plane is recovered. -/
theorem ref_to_image_right_inverse (P : Plane) (h : P.Valid) {sbs : Rat} (hs : sbs ≠ 0) (v : V3) (x y : Rat)
    (hq : refToImg P.posL P.oriL P.ps sbs v = .ok ⟨x, y, 0⟩) :
    imgToRef P.posL P.oriL P.ps x y = .ok v := by
  obtain ⟨p, hp, hv⟩ := ref_to_pixel_right_inverse P h hs v
  rw [half_pixel_inverse P sbs v p hp] at hq
  simp only [Except.ok.injEq, V3.mk.injEq] at hq
  obtain ⟨hx, hy, hz⟩ := hq
  rw [half_pixel P h, ← hv]
  congr 1
  obtain ⟨px, py, pz⟩ := p
  simp only at hx hy hz
  subst hx hy hz
  simp [Plane.fwd, Aff.apply, M3.mulVec, V3.smul, V3.add]

/-! ## pixel-to-pixel and image-to-image go through the frame of reference -/

/-- **pixel → pixel = via the frame of reference**, for ANY input the constructor accepts: the result is
the (column, row) part of mapping the index into the frame of reference with the source plane and back
with the target plane (slice spacing 1). -/
theorem pix2pix_eq_via_ref (posF oriF : List Rat) (psF : Spacing) (posT oriT : List Rat) (psT : Spacing)
    (c r : Int) (q : Rat × Rat) (h : pixToPix posF oriF psF posT oriT psT c r = .ok q) :
    ∃ v p, pixToRef posF oriF psF c r = .ok v ∧ refToPix posT oriT psT 1 v = .ok p ∧ q = (p.x, p.y) := by
  unfold pixToPix at h
  cases ha : pixToPixAffine posF oriF psF posT oriT psT with
  | error e => simp [ha, bind, Except.bind] at h
  | ok a =>
    obtain ⟨p2r, r2p, hp2r, hr2p, rfl⟩ := pixToPixAffine_ok ha
    simp only [ha, bind, Except.bind, pure, Except.pure, Except.ok.injEq] at h
    refine ⟨p2r.apply ⟨(c : Rat), (r : Rat), 0⟩, r2p.apply (p2r.apply ⟨(c : Rat), (r : Rat), 0⟩), ?_, ?_, ?_⟩
    · simp only [pixToRef, pixToRefAffine, hp2r, bind, Except.bind, pure, Except.pure]
    · simp only [refToPix, hr2p, bind, Except.bind, pure, Except.pure]
    · rw [← h, Aff.comp_apply]

/-- **image → image = via the frame of reference**, for any accepted input. -/
theorem img2img_eq_via_ref (posF oriF : List Rat) (psF : Spacing) (posT oriT : List Rat) (psT : Spacing)
    (x y : Rat) (q : Rat × Rat) (h : imgToImg posF oriF psF posT oriT psT x y = .ok q) :
    ∃ v p, imgToRef posF oriF psF x y = .ok v ∧ refToImg posT oriT psT 1 v = .ok p ∧ q = (p.x, p.y) := by
  unfold imgToImg at h
  cases ha : imgToImgAffine posF oriF psF posT oriT psT with
  | error e => simp [ha, bind, Except.bind] at h
  | ok a =>
    obtain ⟨p2r, r2p, hp2r, hr2p, rfl⟩ := imgToImgAffine_ok ha
    simp only [ha, bind, Except.bind, pure, Except.pure, Except.ok.injEq] at h
    refine ⟨(p2r.comp (Aff.shift (vecOfTriple Gen.imgToRefCorrection))).apply ⟨x, y, 0⟩,
      ((Aff.shift (vecOfTriple Gen.refToImgCorrection)).comp r2p).apply
        ((p2r.comp (Aff.shift (vecOfTriple Gen.imgToRefCorrection))).apply ⟨x, y, 0⟩), ?_, ?_, ?_⟩
    · simp only [imgToRef, imgToRefAffine, hp2r, bind, Except.bind, pure, Except.pure]
    · simp only [refToImg, refToImgAffine, hr2p, bind, Except.bind, pure, Except.pure]
    · rw [← h]
      simp only [Aff.comp_apply, Aff.shift_apply, vecOfTriple, Gen.pixToImCorrection, Gen.imToPixCorrection,
        Gen.imgToRefCorrection, Gen.refToImgCorrection]

/-- **non-coplanar pairs are refused** by both two-plane transformers: normals not parallel (beyond the
tolerance `1e-5` on `1 − |n_a · n_b|`) or planes at least `1e-5` apart along the normal. -/
theorem noncoplanar_refused (P Q : Plane) (psF psT : Spacing)
    (h : eqTol < 1 - rabs (P.nrm.dot Q.nrm) ∨ eqTol ≤ rabs (P.pos.dot P.nrm - Q.pos.dot P.nrm))
    (c r : Int) (x y : Rat) :
    pixToPix P.posL P.oriL psF Q.posL Q.oriL psT c r = .error .value ∧
    imgToImg P.posL P.oriL psF Q.posL Q.oriL psT x y = .error .value := by
  obtain ⟨h1, h2⟩ := twoPlane_refused P Q psF psT (areCoplanar_false P Q h)
  simp [pixToPix, imgToImg, h1, h2, bind, Except.bind]

/-- **coplanar pairs are accepted**: unit normals that are equal or opposite and equal offsets along the
normal (both exactly), valid planes. -/
theorem coplanar_accepted (P Q : Plane) (hP : P.Valid) (hQ : Q.Valid) (hn : P.nrm.dot P.nrm = 1)
    (hpar : Q.nrm = P.nrm ∨ Q.nrm = P.nrm.neg) (hoff : P.pos.dot P.nrm = Q.pos.dot P.nrm) (c r : Int) :
    ∃ q, pixToPix P.posL P.oriL P.ps Q.posL Q.oriL Q.ps c r = .ok q := by
  have hdot : rabs (P.nrm.dot Q.nrm) = 1 := by
    rcases hpar with e | e
    · rw [e, hn]; decide +kernel
    · have : P.nrm.dot P.nrm.neg = -1 := by
        rw [← hn]; cases P.nrm; simp only [V3.dot, V3.neg]; ring
      rw [e, this]; decide +kernel
  have hcop : areCoplanar P.pos P.o Q.pos Q.o = .ok true := by
    apply areCoplanar_true
    · rw [hdot]; decide +kernel
    · rw [hoff, sub_self]; decide +kernel
  obtain ⟨mi, _, hinv⟩ := invAffine_eval Q hQ (sbs := 1) one_ne_zero
  have hfwd := forward_affine_is_fwd P hP 1
  simp only [pixToPix, pixToPixAffine, ofList_posL, ofList_oriL, hcop, hfwd, hinv, bind, Except.bind, pure, Except.pure]
  exact ⟨_, rfl⟩

/-- **coplanar ⇒ the dropped slice index is zero**: for exactly coplanar valid planes the reference point of any
source pixel lands IN the target plane (slice coordinate 0), so `PixelToPixelTransformer`, which drops that
coordinate, loses nothing; its two outputs are the in-plane indices of that point. -/
theorem coplanar_slice_index_zero (P Q : Plane) (hP : P.Valid) (hQ : Q.Valid)
    (hpar : Q.nrm = P.nrm ∨ Q.nrm = P.nrm.neg) (hoff : P.pos.dot P.nrm = Q.pos.dot P.nrm) (c r : Int) :
    ∃ v p, pixToRef P.posL P.oriL P.ps c r = .ok v ∧ refToPix Q.posL Q.oriL Q.ps 1 v = .ok p ∧ p.z = 0 := by
  obtain ⟨v, hv, _⟩ := ref_to_pixel_left_inverse P hP one_ne_zero c r
  obtain ⟨p, hp, hfw⟩ := ref_to_pixel_right_inverse Q hQ one_ne_zero v
  refine ⟨v, p, hv, hp, ?_⟩
  -- v = (P.fwd 1)(c, r, 0): its component along the normal of P is that of P.pos
  have hvP : v = (P.fwd 1).apply ⟨(c : Rat), (r : Rat), 0⟩ := by
    have := hv
    simp only [pixToRef, pixToRefAffine_eval P hP.hr hP.hc, bind, Except.bind, pure, Except.pure, Except.ok.injEq] at this
    exact this.symm
  have h1 : P.nrm.dot v = P.nrm.dot P.pos := by
    rw [hvP, nrm_dot_fwd]; ring
  have h2 : Q.nrm.dot v = Q.nrm.dot Q.pos + p.z * 1 * Q.nrm.dot Q.nrm := by
    rw [← hfw, nrm_dot_fwd]
  have hQn : Q.nrm.dot Q.nrm ≠ 0 := V3.dot_self_ne_zero hQ.hn
  have hcomm : ∀ a b : V3, a.dot b = b.dot a := by
    intro a b; cases a; cases b; simp only [V3.dot]; ring
  have hneg : ∀ a b : V3, a.neg.dot b = -(a.dot b) := by
    intro a b; cases a; cases b; simp only [V3.dot, V3.neg]; ring
  have key : p.z * Q.nrm.dot Q.nrm = 0 := by
    rcases hpar with e | e
    · rw [e] at h2 ⊢
      rw [hcomm P.pos P.nrm, hcomm Q.pos P.nrm] at hoff
      linarith
    · rw [e] at h2 ⊢
      rw [hcomm P.pos P.nrm, hcomm Q.pos P.nrm] at hoff
      rw [hneg, hneg, hneg] at h2
      rw [hneg]
      have hnn : P.nrm.dot P.nrm.neg = -(P.nrm.dot P.nrm) := by rw [hcomm, hneg]
      rw [hnn] at h2 ⊢
      linarith
  rcases mul_eq_zero.mp key with h | h
  · exact h
  · exact absurd h hQn

/-! ## affines built from attributes: orthogonal axes, lengths, handedness, origin -/

/-- **orthogonal axes, lengths = the given spacings, requested handedness** — `create_rotation_matrix`
for every one of the eight index conventions, slices first or last, both handednesses, any positive
pixel spacings and any slice spacing, any orthonormal pair of row / column cosines (axis-aligned or
oblique): accepted, and
* the in-plane columns are `spacing × signed cosine vector` with the spacing between COLUMNS for `R`/`L`
  and between ROWS for `D`/`U`, the slice axis is placed first iff `slices_first`,
* the columns are mutually orthogonal with squared lengths `s₀² , s₁², sbs²`,
* the determinant is `+ s_r s_c sbs` for RIGHT_HANDED and `− s_r s_c sbs` for LEFT_HANDED. -/
theorem columns_orthogonal_lengths_handedness (o : Ori) (ho : OrthoPair o.row o.col) {cv : Char × Char}
    (hcv : cv ∈ validConventions) (sf rh : Bool) (sr sc sbs : Rat) (hr : 0 < sr) (hc : 0 < sc) :
    ∃ m, createRotation o [cv.1, cv.2] sf rh (.seq [sr, sc]) sbs = .ok m ∧
      m.col (if sf then 1 else 0) = V3.smul (axisSpacing sr sc cv.1) (axisVec o cv.1) ∧
      m.col (if sf then 2 else 1) = V3.smul (axisSpacing sr sc cv.2) (axisVec o cv.2) ∧
      (m.c0.dot m.c1 = 0 ∧ m.c0.dot m.c2 = 0 ∧ m.c1.dot m.c2 = 0) ∧
      (m.col (if sf then 1 else 0)).dot (m.col (if sf then 1 else 0)) = axisSpacing sr sc cv.1 * axisSpacing sr sc cv.1 ∧
      (m.col (if sf then 2 else 1)).dot (m.col (if sf then 2 else 1)) = axisSpacing sr sc cv.2 * axisSpacing sr sc cv.2 ∧
      (m.col (if sf then 0 else 2)).dot (m.col (if sf then 0 else 2)) = sbs * sbs ∧
      m.det = (if rh then 1 else -1) * (sr * sc * sbs) := by
  have hp := axis_orthoPair o ho hcv
  refine ⟨_, createRotation_eval o hcv sf rh sr sc sbs hr hc, ?_, ?_, frame_orthogonal hp sf rh _ _ sbs, ?_, ?_, ?_, ?_⟩
  · cases sf <;> simp [frame, M3.col]
  · cases sf <;> simp [frame, M3.col]
  · cases sf <;> simp only [frame, M3.col, if_true, if_false, Bool.false_eq_true] <;> exact smul_len _ _ hp.n0
  · cases sf <;> simp only [frame, M3.col, if_true, if_false, Bool.false_eq_true] <;> exact smul_len _ _ hp.n1
  · have := frame_normal_len hp rh sbs
    cases sf <;> simp only [frame, M3.col, if_true, if_false, Bool.false_eq_true] <;> exact this
  · rw [frame_det_ortho hp]
    have : axisSpacing sr sc cv.1 * axisSpacing sr sc cv.2 = sr * sc := by
      rcases mem_validConventions hcv with rfl | rfl | rfl | rfl | rfl | rfl | rfl | rfl <;>
        simp [axisSpacing] <;> (try ring)
    rw [← this]

/-- hence with a positive slice spacing the sign of the determinant IS the requested handedness -/
theorem handedness_as_requested (o : Ori) (ho : OrthoPair o.row o.col) {cv : Char × Char}
    (hcv : cv ∈ validConventions) (sf rh : Bool) (sr sc sbs : Rat) (hr : 0 < sr) (hc : 0 < sc) (hs : 0 < sbs)
    (m : M3) (hm : createRotation o [cv.1, cv.2] sf rh (.seq [sr, sc]) sbs = .ok m) :
    (0 < m.det ↔ rh = true) := by
  obtain ⟨m', hm', _, _, _, _, _, _, hdet⟩ := columns_orthogonal_lengths_handedness o ho hcv sf rh sr sc sbs hr hc
  rw [hm] at hm'
  cases hm'
  rw [hdet]
  have : 0 < sr * sc * sbs := by positivity
  cases rh <;> simp <;> linarith

/-- a scalar pixel spacing means the same spacing in both directions -/
theorem scalar_pixel_spacing (o : Ori) (conv : List Char) (sf rh : Bool) (s sbs : Rat) :
    createRotation o conv sf rh (.scalar s) sbs = createRotation o conv sf rh (.seq [s, s]) sbs :=
  createRotation_scalar o conv sf rh s sbs

/-- `create_affine_matrix_from_attributes` (conventions `RD` and `DR`, slices first or last, both
handednesses): the linear part is that rotation matrix and **index zero is mapped to the image position**. -/
theorem origin_maps_to_position (P : Plane) (hr : 0 < P.sr) (hc : 0 < P.sc) {cv : Char × Char}
    (hcv : cv = ('R', 'D') ∨ cv = ('D', 'R')) (sf rh : Bool) (sbs : Rat) :
    ∃ a, affineFromAttributes P.posL P.oriL P.ps sbs [cv.1, cv.2] sf rh = .ok a ∧
      createRotation P.o [cv.1, cv.2] sf rh P.ps sbs = .ok a.m ∧ a.apply V3.zero = P.pos := by
  have hv : cv ∈ validConventions := by rcases hcv with rfl | rfl <;> decide
  refine ⟨_, affineFromAttributes_eval P hr hc hcv sf rh sbs, createRotation_eval P.o hv sf rh P.sr P.sc sbs hr hc, ?_⟩
  obtain ⟨⟨px, py, pz⟩, _, _, _⟩ := P
  simp [Aff.apply, M3.mulVec, V3.zero, V3.smul, V3.add]

/-- the conventions with `L` or `U` are refused there (they would need the image size) -/
theorem left_up_refused (pos ori : List Rat) (ps : Spacing) (sbs : Rat) {cv : Char × Char}
    (hcv : cv ∈ validConventions) (hlu : cv.1 = 'L' ∨ cv.1 = 'U' ∨ cv.2 = 'L' ∨ cv.2 = 'U') (sf rh : Bool) :
    ∃ e, affineFromAttributes pos ori ps sbs [cv.1, cv.2] sf rh = .error e := by
  unfold affineFromAttributes
  cases V3.ofList pos with
  | none => exact ⟨_, rfl⟩
  | some p =>
  cases Ori.ofList ori with
  | none => exact ⟨_, rfl⟩
  | some o =>
  cases ps with
  | scalar s => exact ⟨_, rfl⟩
  | seq l =>
    by_cases hl : l.length ≠ 2
    · simp [hl, bind, Except.bind, pure, Except.pure]
    · simp [hl, normConvention_valid hcv, hlu, bind, Except.bind, pure, Except.pure]

/-- non-positive pixel spacings are refused -/
theorem nonpositive_spacing_refused (o : Ori) (conv : List Char) (sf rh : Bool) (sr sc sbs : Rat)
    (h : sr ≤ 0 ∨ sc ≤ 0) : ∃ e, createRotation o conv sf rh (.seq [sr, sc]) sbs = .error e := by
  unfold createRotation
  cases normConvention conv with
  | error e => exact ⟨_, rfl⟩
  | ok cv => simp [h, bind, Except.bind, pure, Except.pure]

/-- parallel row and column directions (a singular matrix) are refused by the inverse transformers -/
theorem singular_refused (P : Plane) (hr : 0 < P.sr) (hc : 0 < P.sc) (hpar : P.nrm = V3.zero) (sbs : Rat) (v : V3) :
    refToPix P.posL P.oriL P.ps sbs v = .error .other := by
  have hrot := createRotation_eval P.o RD_valid false true P.sr P.sc sbs hr hc
  rw [← fwd_eq_frame] at hrot
  have hdet : (P.fwd sbs).m.det = 0 := by rw [fwd_det, hpar]; simp [V3.zero, V3.dot]
  simp [refToPix, invAffineFromAttributes, ofList_posL, ofList_oriL, Plane.ps, hrot, M3.inv_singular hdet, bind,
    Except.bind, pure, Except.pure]

/-! ## affines built from components -/

/-- **from components, direction matrix + position**: accepted for every exactly orthonormal direction and
positive spacings; columns are `spacing × direction column` (hence orthogonal with the given lengths) and
index zero maps to the position. -/
theorem components_origin_maps_to_position (s : V3) (h0 : 0 < s.x) (h1 : 0 < s.y) (h2 : 0 < s.z) (d : M3)
    (hd : Orthonormal d) (p : V3) (shape : Option (List Int)) :
    ∃ a, affineFromComponents (.seq [s.x, s.y, s.z]) (some [p.x, p.y, p.z]) none (some d.flat) none shape = .ok a ∧
      a.m = scaleCols s d ∧ a.apply V3.zero = p ∧
      (a.m.c0.dot a.m.c1 = 0 ∧ a.m.c0.dot a.m.c2 = 0 ∧ a.m.c1.dot a.m.c2 = 0) ∧
      (a.m.c0.dot a.m.c0 = s.x * s.x ∧ a.m.c1.dot a.m.c1 = s.y * s.y ∧ a.m.c2.dot a.m.c2 = s.z * s.z) := by
  refine ⟨_, fromComponents_direction_position s h0 h1 h2 d hd p shape, rfl, ?_, ?_, ?_⟩
  · cases p; simp [Aff.apply, M3.mulVec, V3.zero, V3.smul, V3.add]
  · simp only [scaleCols, smul_dot_smul, hd.o01, hd.o02, hd.o12, mul_zero, and_self]
  · simp only [scaleCols, smul_dot_smul, hd.n0, hd.n1, hd.n2, mul_one, and_self]

/-- **from components, centre position**: the array centre `((n₀−1)/2, (n₁−1)/2, (n₂−1)/2)` is mapped to
the given centre position. -/
theorem centre_maps_to_centre_position (s : V3) (h0 : 0 < s.x) (h1 : 0 < s.y) (h2 : 0 < s.z) (d : M3)
    (hd : Orthonormal d) (c : V3) (n0 n1 n2 : Int) :
    ∃ a, affineFromComponents (.seq [s.x, s.y, s.z]) none (some [c.x, c.y, c.z]) (some d.flat) none
          (some [n0, n1, n2]) = .ok a ∧ a.m = scaleCols s d ∧
      a.apply ⟨((n0 : Rat) - 1) / 2, ((n1 : Rat) - 1) / 2, ((n2 : Rat) - 1) / 2⟩ = c := by
  refine ⟨_, fromComponents_direction_center s h0 h1 h2 d hd c n0 n1 n2, rfl, ?_⟩
  simp only [Aff.apply]
  generalize (scaleCols s d).mulVec _ = w
  cases c; cases w; simp only [V3.add, V3.sub, V3.mk.injEq]; refine ⟨?_, ?_, ?_⟩ <;> ring

/-- **scalar spacing** is accepted and means the same spacing on all three axes (defect C10-scalar-spacing,
repaired in /repo: before the fix every scalar raised a TypeError). -/
theorem components_scalar_spacing (t : Rat) (ht : 0 < t) (d : M3) (hd : Orthonormal d) (p : V3)
    (shape : Option (List Int)) :
    affineFromComponents (.scalar t) (some [p.x, p.y, p.z]) none (some d.flat) none shape
      = .ok ⟨scaleCols ⟨t, t, t⟩ d, p⟩ := by
  rw [fromComponents_scalar]
  exact fromComponents_direction_position ⟨t, t, t⟩ ht ht ht d hd p shape

/-- **from components, patient-orientation letters**: for all 48 orientations, column `i` is
`spacing_i × the LPS unit vector of letter i`. -/
theorem components_letters (o : List Char) (ho : o ∈ allOrientations) (s : V3) (h0 : 0 < s.x) (h1 : 0 < s.y)
    (h2 : 0 < s.z) (p : V3) (shape : Option (List Int)) :
    ∃ a b c, o = [a, b, c] ∧
      affineFromComponents (.seq [s.x, s.y, s.z]) (some [p.x, p.y, p.z]) none none (some o) shape
        = .ok ⟨⟨V3.smul s.x (letterVec a), V3.smul s.y (letterVec b), V3.smul s.z (letterVec c)⟩, p⟩ :=
  fromComponents_letters_position ho s h0 h1 h2 p shape

/-! ## letters and matrices agree (all 48 orientations) -/

/-- there are exactly 48 patient orientations, and they are exactly what the normaliser accepts -/
theorem orientations_48 : allOrientations.length = 48 := allOrientations_length

theorem orientation_accepted_iff (c : List Char) : (∃ l, normOrientation c = .ok l) ↔ c ∈ allOrientations := by
  constructor
  · rintro ⟨l, h⟩; exact (normOrientation_ok h).2
  · intro h; obtain ⟨_, _, _, _, _, _, _, _, _, _, hn⟩ := allOrientations_spec h; exact ⟨_, hn⟩

/-- the translated table `direction_to_vector_mapping` is the LPS convention of DICOM -/
theorem direction_table_is_LPS : ∀ d ∈ Gen.bipedValues, dirVector d = .ok (letterVec d) := dirVector_spec

/-- **letters → matrix → letters**: for all 48 orientations and ALL positive per-axis spacings,
`get_closest_patient_orientation (rotation_for_patient_orientation o spacing) = o`. -/
theorem letters_matrix_agree (o : List Char) (ho : o ∈ allOrientations) (s : V3) (h0 : 0 < s.x) (h1 : 0 < s.y)
    (h2 : 0 < s.z) : (rotationForOrientation o s >>= closestOrientation) = .ok o := by
  obtain ⟨a, b, c, rfl, ha, hb, hc, hab, hac, hbc, hn⟩ := allOrientations_spec ho
  rw [rotationForOrientation_eval ha hb hc hn]
  exact closest_of_letters ha hb hc hab hac hbc s h0 h1 h2

/-- the same evaluated by the kernel on the translated tables for unit spacing (finite check, 48 cases) -/
theorem letters_matrix_agree_unit :
    ∀ o ∈ allOrientations, (rotationForOrientation o ⟨1, 1, 1⟩ >>= closestOrientation) = .ok o := by
  decide +kernel

/-- **matrix → letters → matrix**: each of the 48 signed permutation matrices is recovered from its letters -/
theorem matrix_letters_agree :
    ∀ o ∈ allOrientations, ∀ m, rotationForOrientation o ⟨1, 1, 1⟩ = .ok m →
      (closestOrientation m >>= fun l => rotationForOrientation l ⟨1, 1, 1⟩) = .ok m := by
  intro o ho m hm
  have := letters_matrix_agree_unit o ho
  rw [hm] at this
  simp only [bind, Except.bind] at this ⊢
  rw [this]; exact hm

/-- distinct orientations have distinct matrices (so letters and matrices are in bijection) -/
theorem letters_injective :
    ∀ o ∈ allOrientations, ∀ o' ∈ allOrientations,
      rotationForOrientation o ⟨1, 1, 1⟩ = rotationForOrientation o' ⟨1, 1, 1⟩ → o = o' := by
  intro o ho o' ho' h
  have h1 := letters_matrix_agree_unit o ho
  have h2 := letters_matrix_agree_unit o' ho'
  rw [h] at h1
  rw [h1] at h2
  cases h2; rfl

/-- **every answer of `get_closest_patient_orientation` is one of the 48 orientations** — for ANY matrix the
function accepts (oblique, scaled, 45° ties): one letter per anatomical axis, never the same axis twice; and each
letter's LPS unit vector has a non-negative component along its column. -/
theorem closest_is_orientation (m : M3) (l : List Char) (h : closestOrientation m = .ok l) :
    l ∈ allOrientations ∧
    ∃ a b c, l = [a, b, c] ∧ 0 ≤ (letterVec a).dot m.c0 ∧ 0 ≤ (letterVec b).dot m.c1 ∧ 0 ≤ (letterVec c).dot m.c2 := by
  unfold closestOrientation at h
  split at h
  · cases h
  · have h0 := chooseAxis_nil m.c0
    obtain ⟨h1, h10⟩ := chooseAxis_one m.c1 _ h0
    obtain ⟨h2, h20, h21⟩ := chooseAxis_two m.c2 _ _ h0 h1 (Ne.symm h10)
    obtain ⟨a, ha, hpa, hda⟩ := letterFor_spec m.c0 _ h0
    obtain ⟨b, hb, hpb, hdb⟩ := letterFor_spec m.c1 _ h1
    obtain ⟨c, hc, hpc, hdc⟩ := letterFor_spec m.c2 _ h2
    simp only [ha, hb, hc, bind, Except.bind, pure, Except.pure, Except.ok.injEq] at h
    subst h
    refine ⟨?_, a, b, c, rfl, hda, hdb, hdc⟩
    -- the three axes are a permutation of 0, 1, 2; each letter is the positive or negative letter of its axis
    generalize chooseAxis m.c0 [] = i0 at *
    generalize chooseAxis m.c1 [i0] = i1 at *
    generalize chooseAxis m.c2 [i0, i1] = i2 at *
    obtain rfl | rfl | rfl : i0 = 0 ∨ i0 = 1 ∨ i0 = 2 := by omega
    all_goals (obtain rfl | rfl | rfl : i1 = 0 ∨ i1 = 1 ∨ i1 = 2 := by omega)
    all_goals (obtain rfl | rfl | rfl : i2 = 0 ∨ i2 = 1 ∨ i2 = 2 := by omega)
    all_goals first
      | exact absurd rfl h10
      | exact absurd rfl h20
      | exact absurd rfl h21
      | (simp only [Gen.posDirections, Gen.negDirections, List.getElem?_cons_zero, List.getElem?_cons_succ,
          Option.some.injEq] at hpa hpb hpc
         rcases hpa with rfl | rfl <;> rcases hpb with rfl | rfl <;> rcases hpc with rfl | rfl <;> decide +kernel)

/-- **change of reference convention** (`_transform_affine_to_convention`, `Volume.get_affine`): for all
48 × 48 (source, target) conventions, every affine and every index point `x`, coordinate `j` of the
transformed affine at `x` is the projection of the physical point onto target letter `j`
(`Σ_i (t_j · f_i) · (a x)_i`).  Defect C10-convention-permutation (repaired in /repo): before the fix 24 of
the 48 targets raised. -/
theorem to_convention_spec (f t : List Char) (hf : f ∈ allOrientations) (ht : t ∈ allOrientations) (a : Aff) (x : V3) :
    ∃ r, transformToConvention a f t = .ok r ∧
      (r.apply x).x = (coefRow f t 0).dot (a.apply x) ∧
      (r.apply x).y = (coefRow f t 1).dot (a.apply x) ∧
      (r.apply x).z = (coefRow f t 2).dot (a.apply x) := by
  obtain ⟨f0, f1, f2, p0, p1, p2, hplan, hrows⟩ := planMatches_spec (conventionPlan_matches f hf t ht)
  obtain ⟨r, hr, hx, hy, hz⟩ := applyPlan_row a f0 f1 f2 p0 p1 p2 x
  refine ⟨r, ?_, ?_, ?_, ?_⟩
  · simp only [transformToConvention, hplan, bind, Except.bind]; exact hr
  · rw [hx, coefRow_cast, hrows 0 (by omega)]
  · rw [hy, coefRow_cast, hrows 1 (by omega)]
  · rw [hz, coefRow_cast, hrows 2 (by omega)]

/-! ## frames of a tiled image and the total pixel matrix -/

/-- **frame vs total pixel matrix** (TILED_FULL, positions computed by `compute_tile_positions_per_frame`):
the frame in tile column `tc`, tile row `tr` has the 1-based offsets `(C, R) = (tc·cols + 1, tr·rows + 1)`, and
pixel `(c, r)` of that frame (transformer built from the frame's computed position) is pixel
`(C − 1 + c, R − 1 + r)` of the total pixel matrix. -/
theorem frame_vs_total_matrix (P : Plane) (h : P.Valid) (rows cols tc tr c r : Int) :
    ∃ C R fp, tilePosition rows cols P.posL P.oriL P.ps tc tr = .ok ((C, R), fp) ∧
      C = tc * cols + 1 ∧ R = tr * rows + 1 ∧
      pixToRef [fp.x, fp.y, fp.z] P.oriL P.ps c r = pixToRef P.posL P.oriL P.ps (C - 1 + c) (R - 1 + r) := by
  have hev := pixToRefAffine_eval P h.hr h.hc
  refine ⟨tc * cols + 1, tr * rows + 1, (P.fwd 1).apply ⟨((tc * cols : Int) : Rat), ((tr * rows : Int) : Rat), 0⟩, ?_, rfl, rfl, ?_⟩
  · simp only [tilePosition, pixToRef, hev, bind, Except.bind, pure, Except.pure]
  · -- the frame is the plane with the same orientation / spacing at the tile's position
    let Q : Plane := ⟨(P.fwd 1).apply ⟨((tc * cols : Int) : Rat), ((tr * rows : Int) : Rat), 0⟩, P.o, P.sr, P.sc⟩
    have hQ := pixToRefAffine_eval Q h.hr h.hc
    have e1 : Q.posL = [((P.fwd 1).apply ⟨((tc * cols : Int) : Rat), ((tr * rows : Int) : Rat), 0⟩).x,
        ((P.fwd 1).apply ⟨((tc * cols : Int) : Rat), ((tr * rows : Int) : Rat), 0⟩).y,
        ((P.fwd 1).apply ⟨((tc * cols : Int) : Rat), ((tr * rows : Int) : Rat), 0⟩).z] := rfl
    have e2 : Q.oriL = P.oriL := rfl
    have e3 : Q.ps = P.ps := rfl
    rw [e1, e2, e3] at hQ
    simp only [pixToRef, hev, hQ, bind, Except.bind, pure, Except.pure, Except.ok.injEq]
    obtain ⟨⟨px, py, pz⟩, ⟨⟨a1, a2, a3⟩, ⟨b1, b2, b3⟩⟩, sr, sc⟩ := P
    simp only [Plane.fwd, Aff.apply, M3.mulVec, V3.smul, V3.add, Plane.nrm, V3.cross, V3.mk.injEq, Q]
    push_cast
    refine ⟨?_, ?_, ?_⟩ <;> ring

/-! ## point helpers = batch transformers -/

/-- `map_pixel_into_coordinate_system` is the pixel → reference transformer at that index -/
theorem helper_pixel_agrees (index : Int × Int) (pos ori : List Rat) (ps : Spacing) :
    mapPixelIntoCoordinateSystem index pos ori ps = pixToRef pos ori ps index.1 index.2 := rfl

/-- `map_coordinate_into_pixel_matrix` is the rounded reference → pixel transformer; rounding an
integer-valued coordinate changes nothing, so on pixel centres the helper inverts the forward helper. -/
theorem helper_coordinate_roundtrip (P : Plane) (h : P.Valid) {sbs : Rat} (hs : sbs ≠ 0) (c r : Int) :
    ∃ v, mapPixelIntoCoordinateSystem (c, r) P.posL P.oriL P.ps = .ok v ∧
      mapCoordinateIntoPixelMatrix v P.posL P.oriL P.ps sbs = .ok (c, r, 0) := by
  obtain ⟨v, hv, hp⟩ := ref_to_pixel_left_inverse P h hs c r
  refine ⟨v, hv, ?_⟩
  have h0 : roundHalfEven 0 = 0 := by have := roundHalfEven_intCast 0; simpa using this
  simp only [mapCoordinateIntoPixelMatrix, refToPixRounded, hp, bind, Except.bind, pure, Except.pure,
    roundHalfEven_intCast, h0]

/-! ## the helpers never write into their arguments -/

/-- **no in-place store into a caller-owned object**: the table of statements of the coordinate helpers (37 functions of
`spatial.py`, regenerated from the source by a may-alias analysis on every run, target T13w) that store in place — augmented
assignment, subscript / attribute store, `out=`, mutating method — into a parameter or into something that may be a view of one
(`np.asarray`, `np.array(copy=False)`, `.T`, `.reshape`, a subscript …) is empty.  Together with the oracle's
call-twice-and-compare-the-arguments check this carries "transformers and matrices depend only on the given values". -/
theorem helpers_never_write_arguments : Gen.argumentWrites = [] ∧ Gen.argumentWritesScanned = 37 := by
  decide

/-! ## non-vacuity: the hypotheses are satisfiable by concrete non-trivial inputs -/

/-- an oblique plane (3-4-5 rotation about z composed with 5-12-13 about x), anisotropic spacing -/
def exPlane : Plane :=
  ⟨⟨1, -2, 7 / 2⟩, ⟨⟨3 / 5, 4 / 5, 0⟩, ⟨-20 / 65, 15 / 65, 60 / 65⟩⟩, 1 / 2, 3 / 4⟩

example : exPlane.Valid := ⟨by decide +kernel, by decide +kernel, by decide +kernel⟩
example : OrthoPair exPlane.o.row exPlane.o.col := ⟨by decide +kernel, by decide +kernel, by decide +kernel⟩
example : exPlane.nrm.dot exPlane.nrm = 1 := by decide +kernel
/-- the round trip evaluated on that plane -/
example : (pixToRef exPlane.posL exPlane.oriL exPlane.ps 7 (-3) >>= refToPix exPlane.posL exPlane.oriL exPlane.ps (5 / 4))
    = .ok ⟨7, -3, 0⟩ := by decide +kernel
/-- a coplanar partner: shifted in the plane, rotated by 90 degrees in the plane, other spacing -/
def exPlaneB : Plane :=
  ⟨⟨1 + 3 * (3 / 5), -2 + 3 * (4 / 5), 7 / 2⟩, ⟨⟨-20 / 65, 15 / 65, 60 / 65⟩, ⟨-3 / 5, -4 / 5, 0⟩⟩, 2, 1 / 4⟩
example : exPlaneB.Valid := ⟨by decide +kernel, by decide +kernel, by decide +kernel⟩
example : exPlaneB.nrm = exPlane.nrm := by decide +kernel
example : exPlane.pos.dot exPlane.nrm = exPlaneB.pos.dot exPlane.nrm := by decide +kernel
/-- a non-coplanar partner (one millimetre off along the normal) is refused -/
example : pixToPix exPlane.posL exPlane.oriL exPlane.ps
    [1 + 48 / 65, -2 - 36 / 65, 7 / 2 + 25 / 65] exPlane.oriL exPlane.ps 0 0 = .error .value := by decide +kernel
example : Orthonormal ⟨⟨3 / 5, 4 / 5, 0⟩, ⟨-4 / 5, 3 / 5, 0⟩, ⟨0, 0, 1⟩⟩ :=
  ⟨by decide +kernel, by decide +kernel, by decide +kernel, by decide +kernel, by decide +kernel, by decide +kernel⟩
example : ['F', 'P', 'L'] ∈ allOrientations := by decide +kernel
example : ('U', 'L') ∈ validConventions := by decide
/-- the witness of the repaired convention defect: target `FLP` from `LPH` -/
example : transformToConvention ⟨⟨⟨2, 0, 0⟩, ⟨0, 3, 0⟩, ⟨0, 0, 4⟩⟩, ⟨1, 2, 3⟩⟩ ['L', 'P', 'H'] ['F', 'L', 'P']
    = .ok ⟨M3.ofRows ⟨0, 0, -4⟩ ⟨2, 0, 0⟩ ⟨0, 3, 0⟩, ⟨-3, 1, 2⟩⟩ := by decide +kernel

/-! ## the hand-written wiring and formulas are the source's (bridges, `Proofs/AffineTie.lean`)

The theorems above speak about the hand-written transformers, `affineFromComponents` and `tilePosition`.  What these copy
from the source -- which constructor argument reaches which parameter of the affine constructors and of the coplanarity test,
the defaults that apply to the arguments not passed, the order of the matrix products, the centre formula, the tile index
arithmetic -- is regenerated from the source (target TC10f); the hand-written definitions are EQUAL to their twins built from
the regenerated pieces. -/

/-- transformer constructors: argument forwarding, defaults and product order are the source's -/
theorem tie_transformer_wiring (posF oriF : List Rat) (psF : Spacing) (posT oriT : List Rat) (psT : Spacing) (sbs : Rat) (v : V3) :
    pixToRefAffine posF oriF psF = callAffine (Gen.pixToRefCall posF oriF psF) ∧
    refToPix posF oriF psF sbs v = (do let a ← callInvAffine (Gen.refToPixCall posF oriF psF sbs); pure (a.apply v)) ∧
    pixToPixAffine posF oriF psF posT oriT psT = pixToPixAffineSrc posF oriF psF posT oriT psT ∧
    imgToRefAffine posF oriF psF = imgToRefAffineSrc posF oriF psF ∧
    refToImgAffine posF oriF psF sbs = refToImgAffineSrc posF oriF psF sbs ∧
    imgToImgAffine posF oriF psF posT oriT psT = imgToImgAffineSrc posF oriF psF posT oriT psT ∧
    invAffineFromAttributes posF oriF psF sbs = invAffineFromAttributesSrc posF oriF psF sbs :=
  ⟨pixToRefAffine_uses_source _ _ _, refToPix_uses_source _ _ _ _ _, pixToPixAffine_uses_source _ _ _ _ _ _,
   imgToRefAffine_uses_source _ _ _, refToImgAffine_uses_source _ _ _ _, imgToImgAffine_uses_source _ _ _ _ _ _,
   invAffineFromAttributes_uses_source _ _ _ _⟩

/-- `create_affine_matrix_from_components`: scaled direction, centre index and position from the centre are the source's
expressions -/
theorem tie_components_formulas (spacing : Spacing) (position center : Option (List Rat))
    (direction : Option (List Rat)) (orient : Option (List Char)) (shape : Option (List Int)) :
    affineFromComponents spacing position center direction orient shape
      = affineFromComponentsSrc spacing position center direction orient shape :=
  affineFromComponents_uses_source spacing position center direction orient shape

/-- `compute_tile_positions_per_frame`: pixel index of a tile, transformer arguments, 1-based shift and its place after the
position computation are the source's -/
theorem tie_tile_arithmetic (rows cols totalRows totalCols : Int) (totalPos ori : List Rat) (ps : Spacing) (tc tr : Int) :
    tilePosition rows cols totalPos ori ps tc tr = tilePositionSrc rows cols totalRows totalCols totalPos ori ps tc tr :=
  tilePosition_uses_source rows cols totalRows totalCols totalPos ori ps tc tr

/-- non-vacuity: the twins evaluate (and refuse) like the functions -/
example : (pixToPixAffineSrc exPlane.posL exPlane.oriL exPlane.ps exPlane.posL exPlane.oriL exPlane.ps).map
    (fun a => a.apply ⟨3, -2, 0⟩) = .ok ⟨3, -2, 0⟩ := by decide +kernel
example : pixToPixAffineSrc exPlane.posL exPlane.oriL exPlane.ps
    [1 + 48 / 65, -2 - 36 / 65, 7 / 2 + 25 / 65] exPlane.oriL exPlane.ps = .error .value := by decide +kernel
example : (imgToImgAffineSrc exPlane.posL exPlane.oriL exPlane.ps exPlane.posL exPlane.oriL exPlane.ps).map
    (fun a => a.apply ⟨3 / 2, -2, 0⟩) = .ok ⟨3 / 2, -2, 0⟩ := by decide +kernel
example : affineFromComponentsSrc (.seq [2, 3, 4]) none (some [10, 20, 30]) (some [1, 0, 0, 0, 1, 0, 0, 0, 1]) none (some [5, 7, 9])
    = .ok ⟨⟨⟨2, 0, 0⟩, ⟨0, 3, 0⟩, ⟨0, 0, 4⟩⟩, ⟨6, 11, 14⟩⟩ := by decide +kernel
example : affineFromComponentsSrc (.seq [2, 3, 4]) none (some [10, 20, 30]) (some [1, 0, 0, 0, 1, 0, 0, 0, 1]) none none
    = .error .type := by decide +kernel
example : tilePositionSrc 4 6 100 200 [0, 0, 0] [0, 1, 0, 1, 0, 0] (.seq [2, 3]) 2 5
    = .ok ((13, 21), ⟨40, 36, 0⟩) := by decide +kernel


/-! ## the coplanarity decision is sound and complete (signed distances) -/

/-- **the decision of `_are_images_coplanar`, exactly**, for ANY two planes: yes iff `1 − |n_a · n_b| ≤ 1e-5` and the SIGNED offset
`(p_a − p_b) · n_a` is below `1e-5` in absolute value.  Which position, which normal and where an `abs` is applied is read from
the source (tie T: `Gen.coplanarDistance`, `Gen.equalityTolerance`, target T13o); a decision on `|p_a · n_a|` vs `|p_b · n_b|`
(planes mirrored about the origin) breaks this theorem. -/
theorem coplanar_decision_iff (P Q : Plane) :
    areCoplanar P.pos P.o Q.pos Q.o
      = .ok (decide (1 - rabs (P.nrm.dot Q.nrm) ≤ eqTol ∧ rabs ((P.pos.sub Q.pos).dot P.nrm) < eqTol)) :=
  areCoplanar_iff P Q

/-- **`PixelToPixelTransformer` accepts exactly the pairs the decision accepts** (valid planes): refusal is an iff -/
theorem pix2pix_accepted_iff (P Q : Plane) (hP : P.Valid) (hQ : Q.Valid) (c r : Int) :
    (∃ q, pixToPix P.posL P.oriL P.ps Q.posL Q.oriL Q.ps c r = .ok q) ↔
      (1 - rabs (P.nrm.dot Q.nrm) ≤ eqTol ∧ rabs ((P.pos.sub Q.pos).dot P.nrm) < eqTol) :=
  pixToPix_ok_iff P Q hP hQ c r

/-- **sound and complete w.r.t. "same plane"**: for parallel planes (equal or opposite unit normals) the pair is accepted iff
the SIGNED distance of the target's origin from the source plane is below the tolerance - in particular two planes at `+d` and
`−d` from the origin of the frame of reference are `2d` apart and refused -/
theorem coplanar_iff_signed_distance (P Q : Plane) (hP : P.Valid) (hQ : Q.Valid) (hn : P.nrm.dot P.nrm = 1)
    (hpar : Q.nrm = P.nrm ∨ Q.nrm = P.nrm.neg) (c r : Int) :
    (∃ q, pixToPix P.posL P.oriL P.ps Q.posL Q.oriL Q.ps c r = .ok q) ↔ rabs ((Q.pos.sub P.pos).dot P.nrm) < eqTol :=
  pixToPix_ok_iff_distance P Q hP hQ hn hpar c r

/-! ## pixel-to-pixel transformers: inverse pairs, composition, identity; image-to-image = pixel-to-pixel between half pixels -/

/-- **P2P(B,A) ∘ P2P(A,B) = id** for valid planes in the same plane: both constructors accept, an in-plane index `(x, y, 0)` (any
rational) goes to an in-plane `(x', y', 0)` - so dropping the slice index loses nothing - and comes back -/
theorem pix2pix_mutually_inverse (P Q : Plane) (hP : P.Valid) (hQ : Q.Valid) (hn : P.nrm.dot P.nrm = 1) (h : SamePlane P Q) :
    ∃ ab ba, pixToPixAffine P.posL P.oriL P.ps Q.posL Q.oriL Q.ps = .ok ab ∧
      pixToPixAffine Q.posL Q.oriL Q.ps P.posL P.oriL P.ps = .ok ba ∧
      ∀ x y : Rat, ∃ x' y', ab.apply ⟨x, y, 0⟩ = ⟨x', y', 0⟩ ∧ ba.apply ⟨x', y', 0⟩ = ⟨x, y, 0⟩ :=
  pixToPix_roundtrip P Q hP hQ hn h

/-- **P2P(B,C) ∘ P2P(A,B) = P2P(A,C)** for three valid planes in the same plane -/
theorem pix2pix_composes (P Q R : Plane) (hP : P.Valid) (hQ : Q.Valid) (hR : R.Valid) (hn : P.nrm.dot P.nrm = 1)
    (h1 : SamePlane P Q) (h2 : SamePlane Q R) :
    ∃ ab bc ac, pixToPixAffine P.posL P.oriL P.ps Q.posL Q.oriL Q.ps = .ok ab ∧
      pixToPixAffine Q.posL Q.oriL Q.ps R.posL R.oriL R.ps = .ok bc ∧
      pixToPixAffine P.posL P.oriL P.ps R.posL R.oriL R.ps = .ok ac ∧
      ∀ x y : Rat, ∃ x' y', ab.apply ⟨x, y, 0⟩ = ⟨x', y', 0⟩ ∧ bc.apply ⟨x', y', 0⟩ = ac.apply ⟨x, y, 0⟩ :=
  pixToPix_compose P Q R hP hQ hR hn h1 h2

/-- **P2P(A,A) = id** -/
theorem pix2pix_identity (P : Plane) (hP : P.Valid) (hn : P.nrm.dot P.nrm = 1) :
    ∃ a, pixToPixAffine P.posL P.oriL P.ps P.posL P.oriL P.ps = .ok a ∧ ∀ x y : Rat, a.apply ⟨x, y, 0⟩ = ⟨x, y, 0⟩ :=
  pixToPix_self P hP hn

/-- **image-to-image = pixel-to-pixel between the two half-pixel shifts**, for any accepted input: `I2I(x, y) = P2P(x − ½, y − ½) + ½`
(the four correction vectors are regenerated, T13o) -/
theorem img2img_is_pix2pix_shifted {posF oriF : List Rat} {psF : Spacing} {posT oriT : List Rat} {psT : Spacing} {a : Aff}
    (h : imgToImgAffine posF oriF psF posT oriT psT = .ok a) :
    ∃ b, pixToPixAffine posF oriF psF posT oriT psT = .ok b ∧
      ∀ x y : Rat, a.apply ⟨x, y, 0⟩ = (b.apply ⟨x - 1 / 2, y - 1 / 2, 0⟩).add ⟨1 / 2, 1 / 2, 0⟩ :=
  imgToImg_conjugates_pixToPix h

/-! ## rounding and the out-of-plane refusal -/

/-- **`round_output`** (`np.around(..).astype(int)`, Python `round`): the nearest integer, ties to the even one.  `roundHalfEven`
is hand-written; tie C: the `round` cases of the `transformer` stream (every multiple of ½ in [−4.5, 4.5]). -/
theorem round_output_spec (x : Rat) :
    rabs (x - ((roundHalfEven x : Int) : Rat)) ≤ 1 / 2 ∧
    (rabs (x - ((roundHalfEven x : Int) : Rat)) = 1 / 2 → roundHalfEven x % 2 = 0) :=
  roundHalfEven_spec x

/-- a reference point whose un-rounded indices lie within less than half a pixel (and half a slice) of the integer triple
`(c, r, s)` is mapped to exactly `(c, r, s)` by the rounding transformer -/
theorem ref_to_pixel_rounded_near (pos ori : List Rat) (ps : Spacing) (sbs : Rat) (v p : V3) (c r s : Int)
    (hp : refToPix pos ori ps sbs v = .ok p) (hx : rabs (p.x - (c : Rat)) < 1 / 2) (hy : rabs (p.y - (r : Rat)) < 1 / 2)
    (hz : rabs (p.z - (s : Rat)) < 1 / 2) : refToPixRounded pos ori ps sbs v = .ok (c, r, s) := by
  simp only [refToPixRounded, hp, bind, Except.bind, pure, Except.pure, roundHalfEven_of_near _ _ hx,
    roundHalfEven_of_near _ _ hy, roundHalfEven_of_near _ _ hz]

/-- **`drop_slice_index` refuses a point iff it lies more than half a slice spacing off the plane**, measured as the signed
distance `(v − position) · n` (valid plane, unit normal, positive slice spacing) -/
theorem drop_slice_index_refused_iff (P : Plane) (h : P.Valid) (hn : P.nrm.dot P.nrm = 1) {sbs : Rat} (hs : 0 < sbs) (v : V3) :
    refToPixDrop P.posL P.oriL P.ps sbs v = .error .runtime ↔ sbs / 2 < rabs ((v.sub P.pos).dot P.nrm) :=
  refToPixDrop_refused_iff P h hn hs v

theorem drop_slice_index_accepted_iff (P : Plane) (h : P.Valid) (hn : P.nrm.dot P.nrm = 1) {sbs : Rat} (hs : 0 < sbs) (v : V3) :
    (∃ q, refToPixDrop P.posL P.oriL P.ps sbs v = .ok q) ↔ rabs ((v.sub P.pos).dot P.nrm) ≤ sbs / 2 :=
  refToPixDrop_ok_iff P h hn hs v

/-! ## batches: `__call__` of the six classes on arrays

`callSpec` interprets the spec of a `__call__` that target TC10g regenerates from the source of each class. -/

/-- the six regenerated specs (shape[1], integer dtype only, stacked constant rows, rows returned, out-of-plane test, rounding) -/
theorem call_specs_table :
    Gen.pixToRefCallSpec = (2, true, [0, 1], 3, none, false) ∧
    Gen.refToPixCallSpec = (3, false, [1], 3, some (2, 1 / 2, 2), true) ∧
    Gen.pixToPixCallSpec = (2, true, [0, 1], 2, none, true) ∧
    Gen.imgToRefCallSpec = (2, false, [0, 1], 3, none, false) ∧
    Gen.refToImgCallSpec = (3, false, [1], 3, some (2, 1 / 2, 2), false) ∧
    Gen.imgToImgCallSpec = (2, false, [0, 1], 2, none, false) :=
  callSpecs_table

/-- **only arrays of shape (n, k) with the class's k - and an integer dtype where the class demands one - are accepted**, and
the answer has one row per input row (any spec, any affine, any flags) -/
theorem batch_accepted_only_well_shaped (s : CallSpec) (a : Aff) (d r : Bool) (b : Batch) (out : List (List Rat))
    (h : callSpec s a d r b = .ok out) :
    b.ndim = 2 ∧ b.width = s.width ∧ (s.intOnly = true → b.isInt = true) ∧ out.length = b.rows.length :=
  callSpec_ok_shape s a d r b out h

/-- **every other shape / dtype is refused**, with the kind of error the code raises: IndexError for 0-d / 1-d arrays, ValueError
for a wrong `shape[1]`, TypeError for a non-integer dtype where integers are demanded, ValueError for more than two dimensions -/
theorem batch_refusals (s : CallSpec) (a : Aff) (d r : Bool) (b : Batch) :
    (b.ndim < 2 → callSpec s a d r b = .error .index) ∧
    (2 ≤ b.ndim → b.width ≠ s.width → callSpec s a d r b = .error .value) ∧
    (2 ≤ b.ndim → b.width = s.width → s.intOnly = true → b.isInt = false → callSpec s a d r b = .error .type) ∧
    (2 < b.ndim → b.width = s.width → (s.intOnly = true → b.isInt = true) → callSpec s a d r b = .error .value) :=
  ⟨callSpec_lowdim s a d r b, callSpec_width s a d r b, callSpec_dtype s a d r b, callSpec_highdim s a d r b⟩

/-- **PixelToReferenceTransformer on an (n, 2) integer array = the point map on every row** (n = 0 included) -/
theorem batch_pixel_to_reference {pos ori : List Rat} {ps : Spacing} {a : Aff} (ha : pixToRefAffine pos ori ps = .ok a)
    (pts : List (Int × Int)) :
    pixToRefCall pos ori ps (Batch.ofRows 2 true (rowsOfInts pts))
      = .ok (pts.map fun p => (a.apply ⟨(p.1 : Rat), (p.2 : Rat), 0⟩).toList) :=
  pixToRefCall_batch ha pts

theorem batch_image_to_reference {pos ori : List Rat} {ps : Spacing} {a : Aff} (ha : imgToRefAffine pos ori ps = .ok a) (i : Bool)
    (pts : List (Rat × Rat)) :
    imgToRefCall pos ori ps (Batch.ofRows 2 i (rowsOfPairs pts)) = .ok (pts.map fun p => (a.apply ⟨p.1, p.2, 0⟩).toList) :=
  imgToRefCall_batch ha i pts

/-- **ReferenceToPixelTransformer on an (n, 3) array**: under `drop_slice_index` the whole batch is refused as soon as ONE point is
more than half a slice off (tested on the un-rounded slice coordinate, BEFORE rounding), otherwise the slice index is cut; then
every entry is rounded under `round_output`.  An empty batch gives an empty result under every flag (defect C10-empty-batch-drop). -/
theorem batch_reference_to_pixel {pos ori : List Rat} {ps : Spacing} {sbs : Rat} {a : Aff}
    (ha : invAffineFromAttributes pos ori ps sbs = .ok a) (r d i : Bool) (vs : List V3) :
    refToPixCall pos ori ps sbs r d (Batch.ofRows 3 i (rowsOfPoints vs))
      = if d && vs.any (fun v => rabs (a.apply v).z > 1 / 2) then .error .runtime
        else .ok (vs.map fun v => (if d then [(a.apply v).x, (a.apply v).y] else (a.apply v).toList).map (rnd r)) :=
  refToPixCall_batch ha r d i vs

theorem batch_reference_to_image {pos ori : List Rat} {ps : Spacing} {sbs : Rat} {a : Aff}
    (ha : refToImgAffine pos ori ps sbs = .ok a) (d i : Bool) (vs : List V3) :
    refToImgCall pos ori ps sbs d (Batch.ofRows 3 i (rowsOfPoints vs))
      = if d && vs.any (fun v => rabs (a.apply v).z > 1 / 2) then .error .runtime
        else .ok (vs.map fun v => if d then [(a.apply v).x, (a.apply v).y] else (a.apply v).toList) :=
  refToImgCall_batch ha d i vs

theorem batch_pixel_to_pixel {posF oriF : List Rat} {psF : Spacing} {posT oriT : List Rat} {psT : Spacing} {a : Aff}
    (ha : pixToPixAffine posF oriF psF posT oriT psT = .ok a) (r : Bool) (pts : List (Int × Int)) :
    pixToPixCall posF oriF psF posT oriT psT r (Batch.ofRows 2 true (rowsOfInts pts))
      = .ok (pts.map fun p => [rnd r (a.apply ⟨(p.1 : Rat), (p.2 : Rat), 0⟩).x, rnd r (a.apply ⟨(p.1 : Rat), (p.2 : Rat), 0⟩).y]) :=
  pixToPixCall_batch ha r pts

theorem batch_image_to_image {posF oriF : List Rat} {psF : Spacing} {posT oriT : List Rat} {psT : Spacing} {a : Aff}
    (ha : imgToImgAffine posF oriF psF posT oriT psT = .ok a) (i : Bool) (pts : List (Rat × Rat)) :
    imgToImgCall posF oriF psF posT oriT psT (Batch.ofRows 2 i (rowsOfPairs pts))
      = .ok (pts.map fun p => [(a.apply ⟨p.1, p.2, 0⟩).x, (a.apply ⟨p.1, p.2, 0⟩).y]) :=
  imgToImgCall_batch ha i pts

/-- **`map_pixel_into_coordinate_system` agrees with the batch transformer**: the helper as the source writes it (transformer
with the forwarded arguments, `np.array([index], dtype=int)`, first row; structure regenerated, TC10g) is the point map -/
theorem helper_pixel_agrees_batch (c r : Int) (pos ori : List Rat) (ps : Spacing) :
    mapPixelIntoCoordinateSystemB [c, r] pos ori ps = pixToRef pos ori ps c r :=
  mapPixel_eq c r pos ori ps

/-- an index that is not a pair is refused by the helper -/
theorem helper_pixel_refuses_non_pairs (index : List Int) (h : index.length ≠ 2) {pos ori : List Rat} {ps : Spacing} {a : Aff}
    (ha : pixToRefAffine pos ori ps = .ok a) : mapPixelIntoCoordinateSystemB index pos ori ps = .error .value :=
  mapPixel_wrong_length index h ha

/-- **`map_coordinate_into_pixel_matrix` agrees with the rounding batch transformer** (constructor flags at their regenerated
defaults, default slice spacing 1; Python's `round` after `np.around` changes nothing) -/
theorem helper_coordinate_agrees_batch (v : V3) (pos ori : List Rat) (ps : Spacing) (sbs : Option Rat) :
    mapCoordinateIntoPixelMatrixB v.toList pos ori ps sbs = refToPixRounded pos ori ps (sbs.getD 1) v :=
  mapCoordinate_eq v pos ori ps sbs

/-! non-vacuity for the sections above -/

/-- a partner of `exPlane` in the same plane with the OPPOSITE normal (row / column directions exchanged) -/
def exPlaneFlip : Plane := ⟨exPlaneB.pos, ⟨exPlane.o.col, exPlane.o.row⟩, 3 / 2, 1 / 8⟩
example : SamePlane exPlane exPlaneB := ⟨Or.inl (by decide +kernel), by decide +kernel⟩
example : SamePlane exPlane exPlaneFlip := ⟨Or.inr (by decide +kernel), by decide +kernel⟩
example : exPlaneFlip.Valid := ⟨by decide +kernel, by decide +kernel, by decide +kernel⟩
/-- mirrored about the origin of the frame of reference: parallel, equal |distance|, refused -/
example : pixToPix [0, 0, 5] [1, 0, 0, 0, 1, 0] (.seq [1, 1]) [0, 0, -5] [1, 0, 0, 0, 1, 0] (.seq [1, 1]) 0 0 = .error .value := by
  decide +kernel
example : refToPixDrop exPlane.posL exPlane.oriL exPlane.ps 2 ⟨1 + 48 / 65 * 3, -2 - 36 / 65 * 3, 7 / 2 + 25 / 65 * 3⟩ = .error .runtime := by
  decide +kernel
example : (refToPixDrop exPlane.posL exPlane.oriL exPlane.ps 2 ⟨1 + 48 / 65 / 2, -2 - 36 / 65 / 2, 7 / 2 + 25 / 65 / 2⟩).isOk = true := by
  decide +kernel
example : roundHalfEven (5 / 2) = 2 ∧ roundHalfEven (7 / 2) = 4 ∧ roundHalfEven (-5 / 2) = -2 ∧ roundHalfEven (12 / 5) = 2 := by
  decide +kernel
example : refToPixCall exPlane.posL exPlane.oriL exPlane.ps 2 true true (Batch.ofRows 3 false []) = .ok [] := by decide +kernel
example : (pixToRefCall exPlane.posL exPlane.oriL exPlane.ps (Batch.ofRows 2 true [[7, -3], [0, 0]])).map List.length = .ok 2 := by
  decide +kernel
example : pixToRefCall exPlane.posL exPlane.oriL exPlane.ps (Batch.ofRows 2 false [[7, -3]]) = .error .type := by decide +kernel
example : pixToRefCall exPlane.posL exPlane.oriL exPlane.ps ⟨1, 0, true, []⟩ = .error .index := by decide +kernel
example : mapPixelIntoCoordinateSystemB [7, -3, 1] exPlane.posL exPlane.oriL exPlane.ps = .error .value := by decide +kernel


/-! ## transformers built from an image dataset: `for_image`, `_get_spatial_information`, TILED_FULL frame positions

`Model/AffineImage.lean` models `_get_spatial_information`, `iter_tiled_full_frame_data` (+ `compute_tile_positions_per_frame`) and the
`for_image` / `for_images` constructors over an abstract record of the attributes they read.  Regenerated from the source (tie T, target
TC10g): where each functional group is looked up and in which order (`Gen.spatialLookups`, shared before per-frame), that TILED_FULL ignores
per-frame groups, the defaults (z origin 0, slice spacing 1, one focal plane), the nest of the three loops (`Gen.iterLoopNest`: channel,
focal plane, tile), z of a focal plane (`Gen.focalPlaneZ`), the number of tiles per direction (`Gen.tilesPerColumn/Row`), the islice bounds,
which of the four results reaches which constructor keyword (`Gen.pixToRefForImage` …) and the slice spacing used when none is declared.
Tie C: stream `dataset` (`for_image vs model`: every image kind, every frame, frame 0, frames outside, missing frame number, total pixel
matrix; values and error kinds). -/

/-- number of tiles per direction: `(total − 1) // tile + 1` (a last partial tile counts) -/
theorem tiled_full_tile_counts (tf : TiledFull) (hr : 0 < tf.rows) (hc : 0 < tf.cols) :
    tf.ntc = ((tf.totalCols - 1) / tf.cols + 1).toNat ∧ tf.ntr = ((tf.totalRows - 1) / tf.rows + 1).toNat :=
  ⟨tf.ntc_eq hc, tf.ntr_eq hr⟩

/-- **number of channels of a TILED_FULL image, as the library itself derives it** (the decision of `iter_tiled_full_frame_data` is
regenerated: `Gen.tiledChannelCount`, `Gen.segmentationSopClasses`, `Gen.tiledAllowedSopClasses`, target TC10g; `TiledFull.channels` is
that function of the raw attributes, no longer a number filled in by the harness): LABELMAP segmentation = 1, other segmentations = items
of SegmentSequence, other images = NumberOfOpticalPaths if present, else items of OpticalPathSequence -/
theorem tiled_full_channel_count (tf : TiledFull) :
    (Gen.segmentationSopClasses.contains tf.source.sopClass = true → tf.source.segmentationType = "LABELMAP" → tf.channels = 1) ∧
    (Gen.segmentationSopClasses.contains tf.source.sopClass = true → tf.source.segmentationType ≠ "LABELMAP" → tf.channels = tf.source.segments) ∧
    (Gen.segmentationSopClasses.contains tf.source.sopClass = false → ∀ n, tf.source.declaredPaths = some n → tf.channels = n) ∧
    (Gen.segmentationSopClasses.contains tf.source.sopClass = false → tf.source.declaredPaths = none → tf.channels = tf.source.pathItems) ∧
    (∀ c ∈ Gen.segmentationSopClasses, c ∈ Gen.tiledAllowedSopClasses) :=
  tiledChannels_spec tf

/-- **frame order of a TILED_FULL image**: channels (optical paths / segments) outermost, then focal planes, then the tiles row by
row with the tile column running fastest; `channels · planes · tile rows · tile columns` frames in all -/
theorem tiled_full_frame_order (tf : TiledFull) (ch pl tr tc : Nat) (hch : ch < tf.channels) (hpl : pl < tf.npl) (htr : tr < tf.ntr)
    (htc : tc < tf.ntc) :
    (frameNest Gen.iterLoopNest tf.channels tf.npl (tileGrid tf))[(ch * tf.npl + pl) * (tf.ntr * tf.ntc) + (tr * tf.ntc + tc)]?
      = some (ch, pl, ((tc : Int), (tr : Int))) ∧
    (frameNest Gen.iterLoopNest tf.channels tf.npl (tileGrid tf)).length = tf.frames := by
  constructor
  · have := frameNest_get tf.channels tf.npl (tileGrid tf) ch pl (tr * tf.ntc + tc) hch hpl (by rw [tileGrid_length]; nlinarith)
    rw [tileGrid_length] at this
    rw [this, tileGrid_get tf tr tc htr htc]; rfl
  · rw [frameNest_length, tileGrid_length]; rfl

/-- every frame number `1 … frames` belongs to exactly such a (channel, focal plane, tile row, tile column): the theorems below
therefore speak about EVERY frame of the image -/
theorem tiled_full_every_frame_number (tf : TiledFull) (f : Int) (h1 : 1 ≤ f) (h2 : f ≤ tf.frames) :
    ∃ ch pl tr tc, ch < tf.channels ∧ pl < tf.npl ∧ tr < tf.ntr ∧ tc < tf.ntc ∧ f = tf.frameNumber ch pl tr tc :=
  tf.frameNumber_surjective f h1 h2

/-- the transformer of the total pixel matrix: origin (z = 0 when absent), slide orientation, shared pixel measures -/
theorem for_image_total_pixel_matrix {ds : ImageDs} {tf : TiledFull} {P : Plane} {z sbs : Option Rat} (h : TiledSlide ds tf P z sbs)
    (f : Option Int) : getSpatialInformation ds f true = .ok (P.posL, P.oriL, [P.sr, P.sc], sbs) :=
  spatialInfo_total h f

/-- **frame vs total pixel matrix - every channel, every focal plane, every tile**: pixel `(c, r)` of the frame at 1-based offset
`(C, R) = (tc·Columns + 1, tr·Rows + 1)` is pixel `(C − 1 + c, R − 1 + r)` of the total pixel matrix, lifted by `pl` slice spacings (1 when
none is declared) along z of the slide; the channel does not enter.  (Seeded R5C10-2: a frame index that forgets the channel loop.) -/
theorem for_image_frame_vs_total_matrix {ds : ImageDs} {tf : TiledFull} {P : Plane} {z sbs : Option Rat} (h : TiledSlide ds tf P z sbs)
    (ch pl tr tc : Nat) (hch : ch < tf.channels) (hpl : pl < tf.npl) (htr : tr < tf.ntr) (htc : tc < tf.ntc) :
    pixToRefForImage ds none true = .ok (P.fwd 1) ∧
    ∃ F, pixToRefForImage ds (some (tf.frameNumber ch pl tr tc)) false = .ok F ∧
      ∀ c r : Rat, F.apply ⟨c, r, 0⟩
        = ((P.fwd 1).apply ⟨(((tc : Int) * tf.cols : Int) : Rat) + c, (((tr : Int) * tf.rows : Int) : Rat) + r, 0⟩).add
            ⟨0, 0, (pl : Rat) * sbs.getD 1⟩ :=
  forImage_frame_vs_total h ch pl tr tc hch hpl htr htc

/-- the inverse transformer of a frame is built from the frame's own position and the declared slice spacing (1 when none) -/
theorem for_image_inverse_of_frame {ds : ImageDs} {tf : TiledFull} {P : Plane} {z sbs : Option Rat} (h : TiledSlide ds tf P z sbs)
    (ch pl tr tc : Nat) (hch : ch < tf.channels) (hpl : pl < tf.npl) (htr : tr < tf.ntr) (htc : tc < tf.ntc) :
    refToPixForImage ds (some (tf.frameNumber ch pl tr tc)) false
      = invAffineFromAttributes
          (((P.lift ((pl : Rat) * sbs.getD 1)).fwd 1).apply ⟨(((tc : Int) * tf.cols : Int) : Rat), (((tr : Int) * tf.rows : Int) : Rat), 0⟩).toList
          P.oriL (.seq [P.sr, P.sc]) (sbs.getD 1) :=
  forImage_inverse_of_frame h ch pl tr tc hch hpl htr htc

/-- **a frame number below 1 is refused by EVERY multi-frame image** (IndexError, the error a number beyond the last frame gives), tiled or
not.  Defect C10-frame-number-lower-bound, repaired in /repo: before the fix `PerFrameFunctionalGroupsSequence[frame_number - 1]` made frame
number 0 answer with the LAST frame's plane, −1 with the one before, … (the bound `Gen.firstFrameNumber` is regenerated, TC10g). -/
theorem for_image_nonpositive_frame_refused (ds : ImageDs) (c : Coord) (hc : ds.coord = some c) (hm : ds.multiframe = true) (f : Int)
    (hf : f < 1) : getSpatialInformation ds (some f) false = .error .index :=
  spatialInfo_nonpositive_refused ds c hc hm f hf

/-- **TILED_FULL: a frame number is refused iff it lies outside `1 … frames`** (`frames = channels · focal planes · tiles`) -/
theorem for_image_tiled_frame_refused_iff {ds : ImageDs} {tf : TiledFull} {P : Plane} {z sbs : Option Rat}
    (h : TiledSlide ds tf P z sbs) (f : Int) :
    (∃ e, getSpatialInformation ds (some f) false = .error e) ↔ (f < 1 ∨ (tf.frames : Int) < f) :=
  spatialInfo_tiled_refused_iff h f

/-- **multi-frame image with per-frame groups: every frame number outside `1 … n` is an IndexError** (n = number of per-frame items;
any coordinate system, whatever the groups hold) … -/
theorem for_image_per_frame_outside_refused (ds : ImageDs) (c : Coord) (hc : ds.coord = some c) (hm : ds.multiframe = true)
    (ht : ds.tiledFull = none) (f : Int) (hf : f < 1 ∨ (ds.perFrame.length : Int) < f) :
    getSpatialInformation ds (some f) false = .error .index :=
  spatialInfo_per_frame_outside_refused ds c hc hm ht f hf

/-- … **and refused iff outside** when every per-frame item carries its plane -/
theorem for_image_per_frame_refused_iff (ds : ImageDs) (hc : ds.coord = some .patient) (hm : ds.multiframe = true)
    (ht : ds.tiledFull = none) (hs1 : ds.shared.measures = none) (hs2 : ds.shared.posPatient = none)
    (hs3 : ds.shared.oriPatient = none)
    (hall : ∀ g ∈ ds.perFrame, g.measures.isSome = true ∧ g.posPatient.isSome = true ∧ g.oriPatient.isSome = true) (f : Int) :
    (∃ e, getSpatialInformation ds (some f) false = .error e) ↔ (f < 1 ∨ (ds.perFrame.length : Int) < f) :=
  spatialInfo_per_frame_refused_iff ds hc hm ht hs1 hs2 hs3 hall f

/-- **per-frame groups: frame `k` gets its OWN position, orientation, pixel spacing and slice spacing** (seeded R3C10-3: orientation read
from frame 0) -/
theorem for_image_per_frame_own_attributes (ds : ImageDs) (hc : ds.coord = some .patient) (hm : ds.multiframe = true)
    (ht : ds.tiledFull = none) (hs1 : ds.shared.measures = none) (hs2 : ds.shared.posPatient = none)
    (hs3 : ds.shared.oriPatient = none) (k : Nat) (g : Groups) (hk : ds.perFrame[k]? = some g)
    (pos ori ps : List Rat) (sbs : Option Rat) (h1 : g.measures = some (ps, sbs)) (h2 : g.posPatient = some pos)
    (h3 : g.oriPatient = some ori) :
    getSpatialInformation ds (some ((k : Int) + 1)) false = .ok (pos, ori, ps, sbs) :=
  spatialInfo_per_frame_own ds hc hm ht hs1 hs2 hs3 k g hk pos ori ps sbs h1 h2 h3

/-- **shared groups win** over the per-frame item -/
theorem for_image_shared_groups_win (ds : ImageDs) (hc : ds.coord = some .patient) (hm : ds.multiframe = true)
    (ht : ds.tiledFull = none) (pos ori ps : List Rat) (sbs : Option Rat) (h1 : ds.shared.measures = some (ps, sbs))
    (h2 : ds.shared.posPatient = some pos) (h3 : ds.shared.oriPatient = some ori) (k : Nat) (hk : k < ds.perFrame.length) :
    getSpatialInformation ds (some ((k : Int) + 1)) false = .ok (pos, ori, ps, sbs) :=
  spatialInfo_shared_wins ds hc hm ht pos ori ps sbs h1 h2 h3 k hk

/-- frame-number rules: single frame (None or 1, else TypeError), multi-frame (None is a TypeError), no coordinate system (ValueError),
total pixel matrix without origin (ValueError) -/
theorem for_image_rules (ds : ImageDs) (c : Coord) (hc : ds.coord = some c) :
    (ds.multiframe = false → getSpatialInformation ds none false = .ok (ds.rootPos, ds.rootOri, ds.rootPs, ds.rootSbs) ∧
        getSpatialInformation ds (some 1) false = .ok (ds.rootPos, ds.rootOri, ds.rootPs, ds.rootSbs) ∧
        ∀ f : Int, f ≠ 1 → getSpatialInformation ds (some f) false = .error .type) ∧
    (ds.multiframe = true → getSpatialInformation ds none false = .error .type) ∧
    (ds.totalOrigin = none → ∀ f, getSpatialInformation ds f true = .error .value) ∧
    (∀ f t, getSpatialInformation { ds with coord := none } f t = .error .value) :=
  spatialInfo_rules ds c hc

/-- **the transformers built for one image / frame are mutually inverse** (pixel and image-coordinate pairs), for every request
whose spatial information is a valid plane; the inverse ones use the declared slice spacing, 1 when there is none -/
theorem for_image_pairs_mutually_inverse (ds : ImageDs) (f : Option Int) (t : Bool) (P : Plane) (hP : P.Valid) (sbs : Option Rat)
    (h : getSpatialInformation ds f t = .ok (P.posL, P.oriL, [P.sr, P.sc], sbs)) (hs : sbs.getD 1 ≠ 0) :
    ∃ A B I J, pixToRefForImage ds f t = .ok A ∧ refToPixForImage ds f t = .ok B ∧
      imgToRefForImage ds f t = .ok I ∧ refToImgForImage ds f t = .ok J ∧
      (∀ c r : Rat, B.apply (A.apply ⟨c, r, 0⟩) = ⟨c, r, 0⟩) ∧
      (∀ v : V3, (P.fwd (sbs.getD 1)).apply (B.apply v) = v) ∧
      (∀ x y : Rat, J.apply (I.apply ⟨x, y, 0⟩) = ⟨x, y, 0⟩) :=
  forImage_mutually_inverse ds f t P hP sbs h hs

/-! non-vacuity: a TILED_FULL slide image with 3 optical paths x 2 focal planes, 3 x 2 tiles (last tile row partial), no z origin -/

def exSlidePlane : Plane := ⟨⟨43 / 2, 53 / 4, 0⟩, ⟨⟨0, -1, 0⟩, ⟨-1, 0, 0⟩⟩, 1 / 4, 1 / 2⟩
def exTf : TiledFull := ⟨4, 6, 10, 12, { sopClass := "1.2.840.10008.5.1.4.1.1.77.1.6", pathItems := 3 }, some 2⟩
def exTiled : ImageDs :=
  { coord := some .slide, multiframe := true, shared := { measures := some ([1 / 4, 1 / 2], some (3 / 4)) }, tiledFull := some exTf,
    totalOrigin := some (43 / 2, 53 / 4, none), oriSlide := [0, -1, 0, -1, 0, 0] }
example : TiledSlide exTiled exTf exSlidePlane none (some (3 / 4)) :=
  ⟨rfl, rfl, rfl, rfl, rfl, rfl, rfl, by decide, by decide, by decide, by decide +kernel, by decide +kernel⟩
example : exTf.ntc = 2 ∧ exTf.ntr = 3 ∧ exTf.npl = 2 ∧ exTf.frames = 36 := by decide
example : exTf.channels = 3 ∧
    ({ exTf with source := { sopClass := "1.2.840.10008.5.1.4.1.1.66.7", segmentationType := "LABELMAP", segments := 5 } } : TiledFull).channels = 1 ∧
    ({ exTf with source := { sopClass := "1.2.840.10008.5.1.4.1.1.66.4", segmentationType := "BINARY", segments := 5 } } : TiledFull).channels = 5 ∧
    ({ exTf with source := { sopClass := "1.2.840.10008.5.1.4.1.1.77.1.6", declaredPaths := some 2, pathItems := 3 } } : TiledFull).channels = 2 := by
  decide
/-- frame 29 = third optical path (ch 2), second focal plane (pl 1), tile row 2, tile column 0 -/
example : exTf.frameNumber 2 1 2 0 = 35 := by decide
example : (pixToRefForImage exTiled (some 35) false).map (·.t) = .ok ⟨43 / 2 - 2, 53 / 4, 3 / 4⟩ := by decide +kernel
example : (getSpatialInformation exTiled (some 37) false).isOk = false ∧ (getSpatialInformation exTiled (some 0) false).isOk = false := by
  decide +kernel
/-- a localizer-like multi-frame image: two frames with different planes in the per-frame groups -/
def exLocalizer : ImageDs :=
  { coord := some .patient, multiframe := true,
    perFrame := [{ measures := some ([1, 1], some 2), posPatient := some [0, 0, 0], oriPatient := some [1, 0, 0, 0, 1, 0] },
                 { measures := some ([1 / 2, 3], none), posPatient := some [5, 6, 7], oriPatient := some [0, 1, 0, 0, 0, 1] }] }
example : getSpatialInformation exLocalizer (some 2) false = .ok ([5, 6, 7], [0, 1, 0, 0, 0, 1], [1 / 2, 3], none) := by decide +kernel
example : getSpatialInformation exLocalizer (some 0) false = .error .index ∧ getSpatialInformation exLocalizer (some (-1)) false = .error .index ∧
    getSpatialInformation exLocalizer (some 3) false = .error .index :=
  ⟨for_image_per_frame_outside_refused exLocalizer .patient rfl rfl rfl 0 (Or.inl (by decide)),
   for_image_per_frame_outside_refused exLocalizer .patient rfl rfl rfl (-1) (Or.inl (by decide)),
   for_image_per_frame_outside_refused exLocalizer .patient rfl rfl rfl 3 (Or.inr (by decide))⟩
example : ∀ g ∈ exLocalizer.perFrame, g.measures.isSome = true ∧ g.posPatient.isSome = true ∧ g.oriPatient.isSome = true := by decide


/-! ## PATIENT vs SLIDE coordinate system (`get_image_coordinate_system`) -/

/-- **SLIDE iff** the image has a frame of reference and one of the slide markers (`ImageOrientationSlide`,
`ImageCenterPointCoordinatesSequence`; list regenerated, TC10g) - also when patient positions are present.  Tie C: `coordinate_system` stream. -/
theorem coordinate_system_slide_iff (d : CoordInput) :
    imageCoordinateSystem d = .ok (some .slide) ↔
      d.present.contains "FrameOfReferenceUID" = true ∧
      (d.present.contains "ImageOrientationSlide" = true ∨ d.present.contains "ImageCenterPointCoordinatesSequence" = true) :=
  imageCoordinateSystem_slide_iff d

/-- **PATIENT iff** frame of reference, no slide marker, and an image position at the root or in the FIRST item of the shared / per-frame
functional groups (no functional-group sequence that is empty where `[0]` is taken: those raise IndexError in code and model);
everything else has no coordinate system (and therefore no transformers: `for_image_rules`) -/
theorem coordinate_system_patient_iff (d : CoordInput) (he : d.emptyAtFirstItem = []) :
    imageCoordinateSystem d = .ok (some .patient) ↔
      d.present.contains "FrameOfReferenceUID" = true ∧
      d.present.contains "ImageOrientationSlide" = false ∧ d.present.contains "ImageCenterPointCoordinatesSequence" = false ∧
      (d.present.contains "ImagePositionPatient" = true ∨
        (d.present.contains "SharedFunctionalGroupsSequence" = true ∧ d.firstItemHasPatientPosition.contains "SharedFunctionalGroupsSequence" = true) ∨
        (d.present.contains "PerFrameFunctionalGroupsSequence" = true ∧ d.firstItemHasPatientPosition.contains "PerFrameFunctionalGroupsSequence" = true)) :=
  imageCoordinateSystem_patient_iff d he

example : imageCoordinateSystem ⟨["FrameOfReferenceUID", "ImageOrientationSlide", "ImagePositionPatient"], [], []⟩ = .ok (some .slide) := by decide
example : imageCoordinateSystem ⟨["FrameOfReferenceUID", "PerFrameFunctionalGroupsSequence"], ["PerFrameFunctionalGroupsSequence"], []⟩
    = .ok (some .patient) := by decide
example : imageCoordinateSystem ⟨["ImagePositionPatient"], [], []⟩ = .ok none := by decide
/-- an empty SharedFunctionalGroupsSequence cannot be searched: IndexError, as in the source (`fgs[0]`) -/
example : imageCoordinateSystem ⟨["FrameOfReferenceUID", "SharedFunctionalGroupsSequence"], [], ["SharedFunctionalGroupsSequence"]⟩
    = .error .index := by decide

/-! ## image-to-image inverse pairs; the regenerated tables are consistent -/

/-- **I2I(B,A) ∘ I2I(A,B) = id** for valid planes in the same plane (image coordinates `(x, y)` go to in-plane image coordinates and
come back) -/
theorem img2img_mutually_inverse (P Q : Plane) (hP : P.Valid) (hQ : Q.Valid) (hn : P.nrm.dot P.nrm = 1) (h : SamePlane P Q) :
    ∃ ab ba, imgToImgAffine P.posL P.oriL P.ps Q.posL Q.oriL Q.ps = .ok ab ∧
      imgToImgAffine Q.posL Q.oriL Q.ps P.posL P.oriL P.ps = .ok ba ∧
      ∀ x y : Rat, ∃ x' y', ab.apply ⟨x, y, 0⟩ = ⟨x', y', 0⟩ ∧ ba.apply ⟨x', y', 0⟩ = ⟨x, y, 0⟩ :=
  imgToImg_roundtrip P Q hP hQ hn h

/-- **the six regenerated call specs are consistent** with a 4×4 affine acting on homogeneous columns: argument width + stacked
constant rows = 4 with a final row of ones, at most three rows returned, the tested column is the one that is cut and the threshold is
half a slice, integer dtype demanded exactly by the two classes that take pixel indices -/
theorem call_specs_consistent :
    ∀ s ∈ [Gen.pixToRefCallSpec, Gen.refToPixCallSpec, Gen.pixToPixCallSpec, Gen.imgToRefCallSpec, Gen.refToImgCallSpec,
            Gen.imgToImgCallSpec],
      CallSpec.width s + (CallSpec.pad s).length = 4 ∧ (CallSpec.pad s).getLast? = some 1 ∧ CallSpec.keep s ≤ 3 ∧
      (∀ col thr k, CallSpec.drop s = some (col, thr, k) → col < CallSpec.keep s ∧ k = col ∧ thr = 1 / 2) ∧
      (CallSpec.intOnly s = true ↔ (s = Gen.pixToRefCallSpec ∨ s = Gen.pixToPixCallSpec)) :=
  callSpecs_consistent

/-- **the regenerated tables behind `for_image` are consistent**: every functional group is looked up in the shared groups first and in
the frame's own item second, the total pixel matrix reads shared groups only, TILED_FULL has no per-frame groups, all four `for_image`
constructors pass the same position / orientation / pixel spacing (the inverse ones also the slice spacing, default 1 = the default
spacing of focal planes), the z origin defaults agree, frames are numbered channel → focal plane → tile -/
theorem spatial_tables_consistent :
    (∀ e ∈ Gen.spatialLookups, e.2 = ['s', 'f']) ∧ Gen.spatialLookups.map (·.1) =
      ["PixelMeasuresSequence", "PlaneOrientationSequence", "PlanePositionSequence", "PlanePositionSlideSequence"] ∧
    Gen.totalMatrixMeasuresLookup = ['s'] ∧ Gen.tiledFullHasNoFrameGroups = true ∧
    (∀ (a b c : List Rat) (d : Option Rat), Gen.pixToRefForImage a b c d = (a, b, c, none) ∧ Gen.imgToRefForImage a b c d = (a, b, c, none)) ∧
    (∀ (a b c : List Rat) (d : Rat), Gen.refToPixForImage a b c d = (a, b, c, some d) ∧ Gen.refToImgForImage a b c d = (a, b, c, some d)) ∧
    Gen.refToPixForImageDefaultSliceSpacing = 1 ∧ Gen.refToImgForImageDefaultSliceSpacing = 1 ∧
    Gen.iterDefaultSliceSpacing = 1 ∧ Gen.iterDefaultZ = Gen.totalMatrixDefaultZ ∧ Gen.iterDefaultFocalPlanes = 1 ∧
    Gen.iterLoopNest = ["channel", "slice_index", "tile"] :=
  spatialTables_consistent


/-- `create_affine_matrix_from_attributes`: the required lengths of its sequence arguments, the index directions it refuses (`L`, `U`)
and the arguments of its `create_rotation_matrix` call (the NORMALISED convention, handedness, slices_first, both spacings) are the
source's (bridge, target TC10g, `Proofs/AffineTie2.lean`) -/
theorem tie_affine_from_attributes (pos ori : List Rat) (ps : Spacing) (sbs : Rat) (conv : List Char) (sf rh : Bool) :
    affineFromAttributes pos ori ps sbs conv sf rh = affineFromAttributesSrc pos ori ps sbs conv sf rh :=
  affineFromAttributes_uses_source pos ori ps sbs conv sf rh

example : affineFromAttributesSrc exPlane.posL exPlane.oriL exPlane.ps 2 ['D', 'R'] true false
    = affineFromAttributes exPlane.posL exPlane.oriL exPlane.ps 2 ['D', 'R'] true false ∧
    (affineFromAttributesSrc exPlane.posL exPlane.oriL exPlane.ps 2 ['D', 'R'] true false).isOk = true ∧
    affineFromAttributesSrc exPlane.posL exPlane.oriL exPlane.ps 2 ['L', 'D'] false true = .error .value := by decide +kernel


/-- **no hidden state between requests**: the table of statements of `spatial.py` (all 55 functions and methods, regenerated on every
run, target TC10s) through which a function could remember something from an earlier call - a `global` statement, a store into a
module-level name or a class, a mutating method call on one, a caching decorator - is empty.  With it, a transformer built `for_image`
depends only on the attributes the dataset has at that moment (seeded R2C10-3, R5C10-3: frame positions memoised by SOP Instance UID;
the `history` stream is the matching oracle). -/
theorem no_hidden_module_state : Gen.moduleStateWrites = [] ∧ Gen.moduleStateScanned = 55 := by
  decide


/-- **lists and tuples are refused by every `__call__`** (AttributeError), flat or nested, well-formed or not: no `np.asarray` is applied, the
first statement of each `__call__` reads `argument.shape[1]` (pinned by the regenerated call specs, TC10g).  Arrays go through `callSpec`
unchanged.  A statement about the hand-written wrapper `callAny` (tie C: `sequence` cases of the `batch` stream, all six classes, lists /
tuples / nested lists / ragged lists); the point helpers DO accept sequences because they build the array themselves
(`helper_pixel_agrees_batch`). -/
theorem call_refuses_sequences (s : CallSpec) (a : Aff) (d r : Bool) :
    callAny s a d r .sequence = .error .attribute ∧ ∀ b, callAny s a d r (.array b) = callSpec s a d r b :=
  ⟨rfl, fun _ => rfl⟩


/-- `get_image_coordinate_system` reads only the FIRST per-frame item.  DICOM (PS3.3 C.7.6.16.1.2) requires every item of the Per-frame
Functional Groups Sequence to hold the same set of functional groups; under that assumption (hypothesis `huni`) the first item has a
patient position iff EVERY frame has one, so `firstItemHasPatientPosition` of `coordinate_system_patient_iff` speaks for the whole image.
The excluded, non-conformant images (position missing in the first frame only / in a later frame only) are run in the
`coordinate_system` stream on every run: the library then builds NO transformer (no coordinate system) resp. refuses exactly the frames
without a position - never a transformer with another frame's geometry. -/
theorem coordinate_system_first_item_speaks_for_all (perFrame : List Groups)
    (huni : ∀ g ∈ perFrame, ∀ g' ∈ perFrame, g.posPatient.isSome = g'.posPatient.isSome) :
    ((perFrame.head?.bind (·.posPatient)).isSome = true) ↔ (perFrame ≠ [] ∧ ∀ g ∈ perFrame, g.posPatient.isSome = true) :=
  first_item_speaks_for_all perFrame huni

example : ∀ g ∈ exLocalizer.perFrame, ∀ g' ∈ exLocalizer.perFrame, g.posPatient.isSome = g'.posPatient.isSome := by decide


/-- **`for_images` needs ONE frame of reference**: both two-image classes refuse (ValueError) when a dataset has no FrameOfReferenceUID or
the two differ, before anything else is read (the two tests and their order are pinned by TC10g; tie C: `for_images vs model`, `cross` stream) -/
theorem for_images_needs_common_frame_of_reference (dsF dsT : ImageDs) (ff ft : Option Int) (tf tt : Bool)
    (h : dsF.frameOfReference = none ∨ dsT.frameOfReference = none ∨ dsF.frameOfReference ≠ dsT.frameOfReference) :
    pixToPixForImages dsF dsT ff ft tf tt = .error .value ∧ imgToImgForImages dsF dsT ff ft tf tt = .error .value :=
  forImages_needs_common_frame_of_reference dsF dsT ff ft tf tt h

/-- … and with a common one `for_images` IS the constructor on the spatial information of the FROM side and of the TO side, in that order
(forwarding regenerated: `Gen.pixToPixForImages`, `Gen.imgToImgForImages`), so every two-plane theorem above (`pix2pix_eq_via_ref`,
`pix2pix_mutually_inverse`, `coplanar_iff_signed_distance` …) applies to transformers built from two datasets -/
theorem for_images_is_constructor (dsF dsT : ImageDs) (u : String) (hF : dsF.frameOfReference = some u) (hT : dsT.frameOfReference = some u)
    (ff ft : Option Int) (tf tt : Bool) (f t : List Rat × List Rat × List Rat × Option Rat)
    (h1 : getSpatialInformation dsF ff tf = .ok f) (h2 : getSpatialInformation dsT ft tt = .ok t) :
    pixToPixForImages dsF dsT ff ft tf tt = pixToPixAffine f.1 f.2.1 (.seq f.2.2.1) t.1 t.2.1 (.seq t.2.2.1) ∧
    imgToImgForImages dsF dsT ff ft tf tt = imgToImgAffine f.1 f.2.1 (.seq f.2.2.1) t.1 t.2.1 (.seq t.2.2.1) :=
  forImages_eq_constructor dsF dsT u hF hT ff ft tf tt f t h1 h2

example : (pixToPixForImages { exTiled with frameOfReference := some "1.2.3" } { exTiled with frameOfReference := some "1.2.3" }
    (some 35) (some 11) false false).isOk = true ∧
    (pixToPixForImages { exTiled with frameOfReference := some "1.2.3" } { exTiled with frameOfReference := some "1.2.4" }
      (some 35) (some 11) false false).isOk = false := by decide +kernel


/-- `_are_images_coplanar` computes both normals by `get_normal_vector(orientation)` alone: index convention and handedness are the
regenerated DEFAULTS of that function; `get_closest_patient_orientation` tests orthogonality without, `create_affine_matrix_from_components`
with `require_unit` (flags regenerated, TC10g; the body of `_is_matrix_orthogonal` is pinned statement by statement) -/
theorem tie_coplanar_and_orthogonality (posA : V3) (oriA : Ori) (posB : V3) (oriB : Ori) (m : M3) :
    areCoplanar posA oriA posB oriB = areCoplanarSrc posA oriA posB oriB ∧
    closestOrientation m = closestOrientationSrc m ∧
    Gen.componentsRequireUnit.getD Gen.orthogonalDefaultRequireUnit = true :=
  ⟨areCoplanar_uses_source posA oriA posB oriB, closestOrientation_uses_source m, components_require_unit⟩

example : areCoplanarSrc exPlane.pos exPlane.o exPlaneB.pos exPlaneB.o = .ok true ∧
    areCoplanarSrc ⟨0, 0, 5⟩ ⟨⟨1, 0, 0⟩, ⟨0, 1, 0⟩⟩ ⟨0, 0, -5⟩ ⟨⟨1, 0, 0⟩, ⟨0, 1, 0⟩⟩ = .ok false := by decide +kernel


/-- `_transform_affine_to_convention`: the flip flags run over the SOURCE convention and mark the letters absent from the target; the
permutation has one entry per TARGET letter, looked up (itself or its opposite) in the source; `_transform_affine_matrix` gets exactly
`flip_reference` and `permute_reference` and negates rows before permuting them - all regenerated (TC10g: `Gen.conventionFlipRule`,
`Gen.conventionPermuteRule`, `Gen.affineTransformOrder`).  The repaired defect C10-convention-permutation was a flip rule running over
the target convention: it now breaks this bridge. -/
theorem tie_convention_plan (fromC toC : List Char) :
    conventionPlan fromC toC = conventionPlanSrc fromC toC ∧
    Gen.affineTransformOrder.idxOf "flip_reference" < Gen.affineTransformOrder.idxOf "permute_reference" :=
  ⟨conventionPlan_uses_source fromC toC, transformOrder_flip_before_permute.1⟩

example : conventionPlanSrc ['L', 'P', 'H'] ['F', 'L', 'P'] = .ok ([false, false, true], [2, 0, 1]) := by decide


/-- the channel (optical path / segment) does not enter the spatial information of a TILED_FULL frame: the same tile of the same focal
plane in two channels has the same transformers -/
theorem for_image_channel_independent {ds : ImageDs} {tf : TiledFull} {P : Plane} {z sbs : Option Rat} (h : TiledSlide ds tf P z sbs)
    (ch ch' pl tr tc : Nat) (hch : ch < tf.channels) (hch' : ch' < tf.channels) (hpl : pl < tf.npl) (htr : tr < tf.ntr) (htc : tc < tf.ntc) :
    getSpatialInformation ds (some (tf.frameNumber ch pl tr tc)) false = getSpatialInformation ds (some (tf.frameNumber ch' pl tr tc)) false :=
  spatialInfo_channel_independent h ch ch' pl tr tc hch hch' hpl htr htc

/-- **the dataset clause of the property, in pixel-to-pixel form**: for a TILED_FULL slide image (valid plane, unit normal),
`PixelToPixelTransformer.for_images(ds, ds, frame_number_from = f, for_total_pixel_matrix_to = True)` exists for every frame `f` of the
first focal plane - any channel, any tile - and maps pixel `(c, r)` of the frame at 1-based offset `(C, R) = (tc·Columns + 1, tr·Rows + 1)`
to pixel `(C − 1 + c, R − 1 + r)` of the total pixel matrix, with slice index exactly 0 (the coplanarity decision accepts the pair) -/
theorem for_images_frame_to_total_matrix {ds : ImageDs} {tf : TiledFull} {P : Plane} {z sbs : Option Rat} (h : TiledSlide ds tf P z sbs)
    (hP : P.Valid) (hn : P.nrm.dot P.nrm = 1) (u : String) (hu : ds.frameOfReference = some u)
    (ch tr tc : Nat) (hch : ch < tf.channels) (hpl : 0 < tf.npl) (htr : tr < tf.ntr) (htc : tc < tf.ntc) :
    ∃ a, pixToPixForImages ds ds (some (tf.frameNumber ch 0 tr tc)) none false true = .ok a ∧
      ∀ c r : Rat, a.apply ⟨c, r, 0⟩ = ⟨(((tc : Int) * tf.cols : Int) : Rat) + c, (((tr : Int) * tf.rows : Int) : Rat) + r, 0⟩ :=
  forImages_frame_to_total h hP hn u hu ch tr tc hch hpl htr htc

example : exSlidePlane.Valid ∧ exSlidePlane.nrm.dot exSlidePlane.nrm = 1 :=
  ⟨⟨by decide +kernel, by decide +kernel, by decide +kernel⟩, by decide +kernel⟩
/-- frame 29 = third optical path, first focal plane, tile row 2, tile column 0: pixel (1, 3) is pixel (1, 11) of the total pixel matrix -/
example : exTf.frameNumber 2 0 2 0 = 29 ∧
    (pixToPixForImages { exTiled with frameOfReference := some "1.2.3" } { exTiled with frameOfReference := some "1.2.3" }
      (some 29) none false true).map (fun a => a.apply ⟨1, 3, 0⟩) = .ok ⟨1, 11, 0⟩ := by decide +kernel


/-- … and for image coordinates: `ImageToImageTransformer.for_images(ds, ds, frame → total pixel matrix)` exists and shifts `(x, y)` by the
same integers `(C − 1, R − 1)` (the half-pixel corrections of both sides cancel) -/
theorem for_images_frame_to_total_matrix_image {ds : ImageDs} {tf : TiledFull} {P : Plane} {z sbs : Option Rat}
    (h : TiledSlide ds tf P z sbs) (hP : P.Valid) (hn : P.nrm.dot P.nrm = 1) (u : String) (hu : ds.frameOfReference = some u)
    (ch tr tc : Nat) (hch : ch < tf.channels) (hpl : 0 < tf.npl) (htr : tr < tf.ntr) (htc : tc < tf.ntc) :
    ∃ a, imgToImgForImages ds ds (some (tf.frameNumber ch 0 tr tc)) none false true = .ok a ∧
      ∀ x y : Rat, a.apply ⟨x, y, 0⟩ = ⟨(((tc : Int) * tf.cols : Int) : Rat) + x, (((tr : Int) * tf.rows : Int) : Rat) + y, 0⟩ :=
  forImages_frame_to_total_image h hP hn u hu ch tr tc hch hpl htr htc


/-- `create_rotation_matrix`: element 0 of `pixel_spacing` is the spacing between ROWS and element 1 the spacing between COLUMNS, a
scalar serves both, and non-positive values are refused - indices and test regenerated (TC10g: `Gen.rotationSpacingIndex`,
`Gen.rotationSpacingRefused`; the scaling `c * s` over `zip(rotation_columns, spacings)` and `np.column_stack` pinned).  With the T13o tables
(which letter takes which spacing) this closes the hand-written part of `createRotation`. -/
theorem tie_rotation_spacings (o : Ori) (conv : List Char) (sf rh : Bool) (ps : Spacing) (sbs : Rat) :
    createRotation o conv sf rh ps sbs = createRotationSrc o conv sf rh ps sbs :=
  createRotation_uses_source o conv sf rh ps sbs

example : (createRotationSrc exPlane.o ['D', 'R'] true false (.seq [1 / 2, 3 / 4]) 2).isOk = true ∧
    createRotationSrc exPlane.o ['D', 'R'] true false (.seq [1 / 2, 0]) 2 = .error .value := by decide +kernel


/-- `_normalize_pixel_index_convention` / `_normalize_patient_orientation`: required length (2 / 3), members of the enum (T13e), exactly one
letter of each regenerated exclusive pair (L/R, U/D resp. L/R, A/P, F/H) - bridge, TC10g -/
theorem tie_normalisers (c : List Char) :
    normConvention c = normConventionSrc c ∧ normOrientation c = normOrientationSrc c :=
  ⟨normConvention_uses_source c, normOrientation_uses_source c⟩

example : normConventionSrc ['U', 'L'] = .ok ('U', 'L') ∧ normConventionSrc ['R', 'L'] = .error .value ∧
    normOrientationSrc ['F', 'P', 'L'] = .ok ['F', 'P', 'L'] ∧ normOrientationSrc ['L', 'R', 'H'] = .error .value := by decide

end HdVerif.C10
