import HdVerif.Proofs.Volume
import HdVerif.Proofs.VolumeOrient
import HdVerif.Proofs.VolumeChannels
import HdVerif.Proofs.VolumeOnto
import HdVerif.Proofs.VolumeTie
import HdVerif.Proofs.VolumeAccess
import HdVerif.Proofs.VolumeArgs
import HdVerif.Proofs.VolumeLabels
import HdVerif.Proofs.VolumeOrientAll
import HdVerif.Proofs.VolumeConv
import HdVerif.Proofs.VolumeRigid
/-! # C08  Volume operations never move a voxel in physical space

Property theorems only (helper lemmas: `Proofs/Volume.lean`; model: `Model/Volume.lean`).

A geometry `g : Geom` is the affine of `_VolumeBase` over `Rat` plus the spatial shape; `g.pos j` is
`map_indices_to_reference` of index `j`.  A spatial operation `op : SOp` (`__getitem__` with ints / slices /
negative steps, `flip_spatial`, `permute_spatial_axes`, `swap_spatial_axes`, `pad` in its four width forms,
`pad_to_ / crop_to_ / pad_or_crop_to_spatial_shape`, `to_patient_orientation`, `ensure_handedness`, `copy`)
yields the new geometry and the index map `f` that numpy's slicing / transposing / padding applies to the array
(output index ↦ input index).  `sz = AxMap.size` is the shape a `VolumeGeometry` computes, `sz = AxMap.alen` the
shape the array of a `Volume` takes.  The per-axis integer arithmetic (`getitemAxisItem`, `checkInt`,
`checkSlice`, `intToSlice`, `padToAxis`, `cropToAxis`, `padOrCropAxis`) is regenerated from /repo on every run. -/
namespace HdVerif.C08
open HdVerif HdVerif.Gen HdVerif.Vol HdVerif.VolLemmas

/-! ## one operation on a geometry -/

/-- **Retained voxels keep their physical coordinate** — for every accepted spatial operation and *every*
integer index `j`: the output affine at `j` is the input affine at the index the array element comes from.
The two sides are modelled separately: the affine from the library's own arithmetic (origin index, column factor, pad
origin offset — regenerated from source, T10a / T9e; permutation of columns), the array index map from what numpy does
(`slice.indices` start and stride, `pad` puts `before` elements in front, `transpose`); that they agree is proved
(`getitem_axis_sound`, `pad_axis_sound`, `pos_permute`), not built in. -/
theorem op_preserves_position (coord : Coord) (g : Geom) (op : SOp) (r : GStep) (hp : g.Pos)
    (h : op.applyGeom coord g = .ok r) (j : I3) : r.1.pos j = g.pos (r.2 j) :=
  (applyG_sound AxMap.size szOk_size hp h).1.position j

/-- **The affine stays a scaled orthogonal matrix** (columns pairwise orthogonal, none zero). -/
theorem op_preserves_orthogonality (coord : Coord) (g : Geom) (op : SOp) (r : GStep) (hp : g.Pos) (ho : g.Orth)
    (h : op.applyGeom coord g = .ok r) : r.1.Orth :=
  (applyG_sound AxMap.size szOk_size hp h).1.orth ho

/-- No accepted operation produces an empty axis. -/
theorem op_keeps_shape_positive (coord : Coord) (g : Geom) (op : SOp) (r : GStep) (hp : g.Pos)
    (h : op.applyGeom coord g = .ok r) : r.1.Pos :=
  (applyG_sound AxMap.size szOk_size hp h).1.shape

/-- **New voxels only come from padding**: after indexing, flipping, permuting, swapping, cropping, re-orienting,
enforcing handedness or copying, every voxel of the result is a voxel of the input. -/
theorem cropping_op_creates_no_voxel (coord : Coord) (g : Geom) (op : SOp) (r : GStep) (hp : g.Pos)
    (hc : op.cropping = true) (h : op.applyGeom coord g = .ok r) (j : I3) (hj : r.1.inRange j = true) :
    g.inRange (r.2 j) = true :=
  (applyG_sound AxMap.size szOk_size hp h).2.1 hc j hj

/-- **A geometry-only object undergoes the identical change as a volume**: the shape numpy gives the array
(`AxMap.alen`: length of the slice, padded length) and the shape the library computes for a `VolumeGeometry`
(`AxMap.size`) lead to the same result, and one is refused exactly when the other is. -/
theorem geom_eq_vol (coord : Coord) (g : Geom) (op : SOp) (r : GStep) (hp : g.Pos) :
    op.applyG AxMap.alen coord g = .ok r ↔ op.applyGeom coord g = .ok r :=
  ⟨fun h => (applyG_sound AxMap.alen szOk_alen hp h).2.2 AxMap.size szOk_size,
   fun h => (applyG_sound AxMap.size szOk_size hp h).2.2 AxMap.alen szOk_alen⟩

/-! ## one operation on a volume (geometry + array + channels) -/

/-- **Each retained voxel value is found at exactly the physical coordinate it had before**: if the provenance of
output voxel `j` is input voxel `i`, then `i` is a voxel of the input, both have the same physical position, and
the array holds the same value in every channel. -/
theorem volume_op_retains (coord : Coord) (v : Vol) (op : SOp) (w : VStep) (hp : v.geom.Pos)
    (h : op.applyVol coord v = .ok w) (j i : I3) (hj : w.2 j = some i) :
    w.1.geom.pos j = v.geom.pos i ∧ v.geom.inRange i = true ∧ ∀ c, w.1.arr j c = v.arr i c :=
  let s := applyVol_sound hp h
  ⟨(s.1.retained j i hj).1, (s.1.retained j i hj).2, s.2.1.values j i hj⟩

/-- **Channel dimensions and their descriptors are carried along untouched** by every spatial operation. -/
theorem channels_untouched (coord : Coord) (v : Vol) (op : SOp) (w : VStep) (hp : v.geom.Pos)
    (h : op.applyVol coord v = .ok w) : w.1.cshape = v.cshape ∧ w.1.chans = v.chans :=
  ⟨(applyVol_sound hp h).2.1.cshape, (applyVol_sound hp h).2.1.chans⟩

/-- The `VolumeGeometry` twin of an accepted volume operation is accepted and ends with the volume's geometry. -/
theorem volume_geometry_twin (coord : Coord) (v : Vol) (op : SOp) (w : VStep) (hp : v.geom.Pos)
    (h : op.applyVol coord v = .ok w) : ∃ f, op.applyGeom coord v.geom = .ok (w.1.geom, f) :=
  (applyVol_sound hp h).2.2.1

/-- **Refused alike**: a volume refuses a cropping operation (indexing, flip, permute, swap, crop_to,
re-orientation, handedness, copy) exactly when its geometry-only twin does, and likewise `pad` with CONSTANT or EDGE
(statistic modes can additionally fail on an empty array; `VolumeGeometry.pad` ignores the mode altogether). -/
theorem cropping_op_refused_alike (coord : Coord) (v : Vol) (op : SOp) (hp : v.geom.Pos) (hc : op.cropping = true) :
    (∃ w, op.applyVol coord v = .ok w) ↔ (∃ r, op.applyGeom coord v.geom = .ok r) :=
  cropping_accepted_alike hp hc

theorem pad_refused_alike (coord : Coord) (v : Vol) (wd : PadWidth) (o : PadOpts) (hp : v.geom.Pos)
    (hm : o.mode = "CONSTANT" ∨ o.mode = "EDGE") :
    (∃ w, (SOp.pad wd o).applyVol coord v = .ok w) ↔ (∃ r, (SOp.pad wd o).applyGeom coord v.geom = .ok r) :=
  pad_accepted_alike hp hm

/-- Without padding no voxel of the result is new (its provenance is defined). -/
theorem volume_cropping_op_all_retained (coord : Coord) (v : Vol) (op : SOp) (w : VStep) (hp : v.geom.Pos)
    (hc : op.cropping = true) (h : op.applyVol coord v = .ok w) (j : I3) (hj : w.1.geom.inRange j = true) :
    w.2 j ≠ none :=
  (applyVol_sound hp h).2.2.2 hc j hj

/-! ## histories -/

/-- **History invariant** (every finite composition, by induction over the history; channel selection /
permutation and `with_array` included): if the composed provenance of final voxel `j` is original voxel `i`,
then `i` is a voxel of the original volume and `j` has exactly its physical position; the final affine is
scaled orthogonal and no axis is empty. -/
theorem history_invariant (coord : Coord) (v : Vol) (ops : List Op) (w : VStep) (hp : v.geom.Pos)
    (h : runHistory coord v ops = .ok w) :
    (∀ j i, w.2 j = some i → w.1.geom.pos j = v.geom.pos i ∧ v.geom.inRange i = true) ∧
    (v.geom.Orth → w.1.geom.Orth) ∧ w.1.geom.Pos :=
  let s := runHistory_pos ops hp h
  ⟨s.retained, s.orth, s.shape⟩

/-- **History invariant, values — every history without `with_array`** (spatial operations freely mixed with channel
selection and channel permutation): if the composed provenance of final voxel `j` is original voxel `i`, then at every
channel index `c` the final array holds the ORIGINAL value at voxel `i` and at the composed source channel index
`historyChanSrc … c` (channel operations act as index maps on the channel axes, `Op.chanSrc`; spatial operations leave the
channel index alone).  `with_array` replaces the values by definition; the statement then applies to the history after
it (the theorem holds for every starting volume). -/
theorem history_values_mixed (coord : Coord) (v : Vol) (ops : List Op) (w : VStep) (hp : v.geom.Pos)
    (hs : ∀ op ∈ ops, op.isWithArray = false) (h : runHistory coord v ops = .ok w) (j i : I3) (hj : w.2 j = some i)
    (c : List Nat) : w.1.arr j c = v.arr i (historyChanSrc coord v ops c) :=
  runHistory_val_all ops hp hs h j i hj c

/-- What the channel provenance of one step is on the cells of a volume with two channel dimensions: selection puts the
selected index back (with keepdims: replaces the 0), permutation swaps the indices back. -/
theorem channel_provenance_two_dims (v : Vol) (a b : Nat) (hs : v.cshape = [a, b]) (k x y : Nat) :
    Op.chanSrc v (.getChannel [(0, k)] false) [y] = [k, y] ∧ Op.chanSrc v (.getChannel [(1, k)] false) [y] = [y, k] ∧
    Op.chanSrc v (.getChannel [(0, k)] true) [0, y] = [k, y] ∧ Op.chanSrc v (.getChannel [(1, k)] true) [y, 0] = [y, k] ∧
    Op.chanSrc v (.permuteChannels [1, 0]) [x, y] = [y, x] ∧ Op.chanSrc v (.permuteChannels [0, 1]) [x, y] = [x, y] :=
  chanSrc_two v a b hs k x y

/-- **History invariant, values and channels, spatial histories**: there the channel provenance is the identity — a
surviving voxel holds its original value in every channel — and the channel shape, descriptors and values are those of
the original. -/
theorem history_values (coord : Coord) (v : Vol) (ops : List Op) (w : VStep) (hp : v.geom.Pos)
    (hs : ∀ op ∈ ops, op.isSpatial = true) (h : runHistory coord v ops = .ok w) :
    (∀ j i, w.2 j = some i → ∀ c, w.1.arr j c = v.arr i c) ∧ w.1.cshape = v.cshape ∧ w.1.chans = v.chans ∧
    (∀ c, historyChanSrc coord v ops c = c) :=
  let s := runHistory_val ops hp hs h
  ⟨s.values, s.cshape, s.chans, historyChanSrc_spatial ops hs h⟩

/-- The geometry-only object taken through the same history is accepted at every step and ends with the
volume's geometry (shape and affine). -/
theorem history_geometry_twin (coord : Coord) (v : Vol) (ops : List Op) (w : VStep) (hp : v.geom.Pos)
    (h : runHistory coord v ops = .ok w) : runHistoryGeom coord v.geom ops = .ok w.1.geom :=
  runHistory_geom ops hp h

/-- A scaled orthogonal affine never puts two voxels at the same physical position. -/
theorem positions_are_unique (g : Geom) (ho : g.Orth) (i j : I3) (h : g.pos i = g.pos j) : i = j :=
  pos_injective ho h

/-- **No voxel is duplicated** over any history: two voxels of the final volume never show the same original voxel. -/
theorem no_voxel_duplicated (coord : Coord) (v : Vol) (ops : List Op) (w : VStep) (hp : v.geom.Pos) (ho : v.geom.Orth)
    (h : runHistory coord v ops = .ok w) (j j' i : I3) (hj : w.2 j = some i) (hj' : w.2 j' = some i) : j = j' := by
  have s := runHistory_pos ops hp h
  exact pos_injective (s.orth ho) (((s.retained j i hj).1).trans ((s.retained j' i hj').1).symm)

/-- **No voxel is lost** by the operations that only rearrange or extend the grid (flip, permute, swap, pad,
pad_to_spatial_shape, to_patient_orientation, ensure_handedness, copy): every voxel of the input is shown by a voxel of
the result — for the geometry-level index map and for the provenance of a volume. -/
theorem rearranging_op_keeps_every_voxel (coord : Coord) (g : Geom) (op : SOp) (r : GStep) (hp : g.Pos)
    (hk : op.keepsAll = true) (h : op.applyGeom coord g = .ok r) (i : I3) (hi : g.inRange i = true) :
    ∃ j, r.1.inRange j = true ∧ r.2 j = i :=
  applyG_onto AxMap.size szOk_size hp hk h i hi

theorem volume_op_keeps_every_voxel (coord : Coord) (v : Vol) (op : SOp) (w : VStep) (hp : v.geom.Pos)
    (hk : op.keepsAll = true) (h : op.applyVol coord v = .ok w) (i : I3) (hi : v.geom.inRange i = true) :
    ∃ j, w.1.geom.inRange j = true ∧ w.2 j = some i :=
  applyVol_onto hp hk h i hi

/-! ## indexing arithmetic (CPython `slice.indices` + translated T10a) -/

/-- One indexed axis of size `n`: the stride is non-zero, at least one voxel is selected, numpy's slice length is the
size the library computes, **the origin index and column factor the library uses for the affine (`first`, `step`, T10a)
are the start and stride numpy uses on the array (`afirst`, `astep`)**, and every index numpy reads,
`afirst + astep·k`, addresses an existing voxel. -/
theorem getitem_axis_sound (s : Option PySlice) (n : Int) (m : AxMap) (hn : 0 < n) (h : axisOfSlice s n = .ok m) :
    m.step ≠ 0 ∧ 1 ≤ m.size ∧ m.alen = m.size ∧ (m.afirst = m.first ∧ m.astep = m.step) ∧
    ∀ k, 0 ≤ k → k < m.size → 0 ≤ m.afirst + m.astep * k ∧ m.afirst + m.astep * k < n :=
  let r := axisOfSlice_sound hn h
  ⟨r.1.1, r.1.2.1, r.1.2.2.1, r.1.2.2.2, r.2⟩

/-- One padded axis: the origin offset and new size the library computes (`origin_offset = [-p[0] …]`,
`d + p[0] + p[1]`, regenerated from source, T9e) agree with what `numpy.pad` does to the array (`before` new elements in
front, `n + before + after` in total). -/
theorem pad_axis_sound (n before after : Int) (m : AxMap) (h : padAxis n before after = .ok m) :
    m.first = m.afirst ∧ m.afirst = -before ∧ m.step = 1 ∧ m.astep = 1 ∧ m.size = m.alen ∧ m.alen = n + before + after := by
  rw [padAxis_ok h]; exact ⟨rfl, rfl, rfl, rfl, rfl, rfl⟩

/-- The size / emptiness test of `_prepare_getitem_index` refuses exactly the selections numpy would return
empty (any non-zero step, any `first`, `last`). -/
theorem getitem_refuses_iff_empty (first last step : Int) (hs : step ≠ 0) :
    (∃ e, getitemAxisItem first last step = .error e) ↔ sliceLen first last step = 0 :=
  getitemAxisItem_err hs

/-- **Negative step ending at index 0**: `v[k::-s]` (stop omitted) and `v[k:-n-1:-s]` (the only explicit stop that
includes index 0) on an axis of size `n`, `0 ≤ k < n`, `s ≥ 1`: accepted, first voxel `k`, stride `-s`, `⌊k/s⌋+1` voxels
(`k, k-s, …` down to the last index `≥ 0`) — so index 0 is included exactly when `s` divides `k`. -/
theorem getitem_reverse_to_zero (k s n : Int) (hk : 0 ≤ k ∧ k < n) (hs : 0 < s) :
    axisOfItem (some (Item.slice (some k) none (some (-s)))) n = .ok ⟨k, -s, k / s + 1, k / s + 1, k, -s⟩ ∧
    axisOfItem (some (Item.slice (some k) (some (-n - 1)) (some (-s)))) n = .ok ⟨k, -s, k / s + 1, k / s + 1, k, -s⟩ :=
  ⟨reverse_to_zero_axis hk hs, reverse_to_zero_axis_explicit hk hs⟩

/-- An int index `k` with `-n ≤ k < n` on an axis of size `n` is accepted and selects exactly plane `k`
(`k + n` for negative `k`), one voxel thick — `checkInt`, `intToSlice` (the `-1` special case), `slice.indices` and the
size arithmetic composed. -/
theorem getitem_int_selects (k n : Int) (hn : 0 < n) (hk : -n ≤ k ∧ k < n) :
    axisOfItem (some (Item.int k)) n = .ok ⟨if k < 0 then k + n else k, 1, 1, 1, if k < 0 then k + n else k, 1⟩ :=
  int_axis_map hn hk

/-- An int index outside the axis is refused with IndexError — never wrapped, never clamped. -/
theorem getitem_int_refused (k n : Int) (hk : k < -n ∨ n ≤ k) : axisOfItem (some (Item.int k)) n = .error .index :=
  int_axis_refused hk

/-! ## what the individual operations do -/

/-- **flip_spatial** with valid axes is accepted on every volume; flipped axis `d` is read backwards
(`j ↦ n_d - 1 - j`), its column is negated and the origin moves to the last voxel; other axes and the shape are
unchanged. -/
theorem flip_spec (g : Geom) (axes : List Int) (hp : g.Pos)
    (hv : (axes.length > 3 || axes.any (fun a => !validAxis a)) = false) :
    ∃ r, flipG AxMap.size g axes = .ok r ∧ r.1.n0 = g.n0 ∧ r.1.n1 = g.n1 ∧ r.1.n2 = g.n2 ∧
      (∀ j, r.2 j = ⟨if axes.contains 0 then g.n0 - 1 - j.i0 else j.i0, if axes.contains 1 then g.n1 - 1 - j.i1 else j.i1,
                     if axes.contains 2 then g.n2 - 1 - j.i2 else j.i2⟩) ∧
      r.1.c0 = V3.smul (if axes.contains 0 then -1 else 1) g.c0 ∧ r.1.c1 = V3.smul (if axes.contains 1 then -1 else 1) g.c1 ∧
      r.1.c2 = V3.smul (if axes.contains 2 then -1 else 1) g.c2 := by
  refine ⟨_, flipG_spec AxMap.size g axes hp hv, ?_, ?_, ?_, ?_, ?_, ?_, ?_⟩
  · simp only [Geom.remap, flipMap]; split <;> rfl
  · simp only [Geom.remap, flipMap]; split <;> rfl
  · simp only [Geom.remap, flipMap]; split <;> rfl
  · intro j
    simp only [remapSrc, flipMap, I3.mk.injEq]
    refine ⟨?_, ?_, ?_⟩ <;> split <;> simp <;> ring
  · simp only [Geom.remap, flipMap]; split <;> simp
  · simp only [Geom.remap, flipMap]; split <;> simp
  · simp only [Geom.remap, flipMap]; split <;> simp

/-- **pad_to / crop_to / pad_or_crop_to_spatial_shape**: an accepted request yields exactly the requested spatial
shape (for a `VolumeGeometry` and for the array of a `Volume` alike). -/
theorem padTo_shape (g : Geom) (s : List Int) (r : GStep) (h : padToG AxMap.size g s = .ok r) :
    s = [r.1.n0, r.1.n1, r.1.n2] := padToG_shape AxMap.size szOk_size h

theorem cropTo_shape (g : Geom) (s : List Int) (r : GStep) (h : cropToG AxMap.size g s = .ok r) :
    s = [r.1.n0, r.1.n1, r.1.n2] := cropToG_shape AxMap.size szOk_size h

theorem padOrCropTo_shape (g : Geom) (s : List Int) (r : GStep) (h : padOrCropG AxMap.size g s = .ok r) :
    s = [r.1.n0, r.1.n1, r.1.n2] := padOrCropG_shape AxMap.size szOk_size h

/-- **ensure_handedness**: whatever is accepted has the requested handedness (already right: unchanged; otherwise
one flip or one swap negates the triple product, which is non-zero for a scaled orthogonal affine). -/
theorem ensureHandedness_spec (g : Geom) (hd : String) (fa : Option Int) (sa : Option (List Int)) (r : GStep)
    (wantLeft : Bool) (hp : g.Pos) (ho : g.Orth) (hw : parseHandedness hd = some wantLeft)
    (h : ensureHandednessG AxMap.size g hd fa sa = .ok r) : r.1.leftHanded = wantLeft :=
  VolLemmas.ensureHandedness_spec AxMap.size hp ho hw h

/-- **to_patient_orientation reaches the requested orientation** — for every geometry whose axes point along
frame-of-reference axes (`OnAxis`: any positive spacing; any position and shape), each of the 48 current and each
of the 48 requested orientations: `get_closest_patient_orientation` reports the current one, the request is
accepted, and the result reports the requested one.  (That no voxel moves is `op_preserves_position`, which holds
for oblique geometries too.) -/
theorem toPatientOrientation_spec (g : Geom) (cur des : Orient) (hc : cur ∈ allOrients) (hd : des ∈ allOrients)
    (hp : g.Pos) (h0 : OnAxis g.c0 cur.1) (h1 : OnAxis g.c1 cur.2.1) (h2 : OnAxis g.c2 cur.2.2) :
    closest g = cur ∧
    ∃ r, (SOp.toOrientation (orientChars des)).applyGeom .patient g = .ok r ∧ closest r.1 = des :=
  toPatientOrientation_general AxMap.size hc hd hp h0 h1 h2

/-- Outside the patient coordinate system the request is refused (RuntimeError). -/
theorem toPatientOrientation_refused_on_slide (g : Geom) (o : List Char) :
    (SOp.toOrientation o).applyGeom .slide g = .error .runtime := by
  simp [SOp.applyGeom, SOp.applyG, toOrientationG, bind, Except.bind, throw, throwThe, MonadExceptOf.throw]

/-! ## new voxels are padding -/

/-- All three padding operations pad through `Vol.padStep`: `pad` and `pad_to_spatial_shape` on the volume itself,
`pad_or_crop_to_spatial_shape` on the cropped volume (whose provenance is then composed with the crop's). -/
theorem padding_ops_use_padStep (coord : Coord) (v : Vol) (w : VStep) :
    (∀ wd o, (SOp.pad wd o).applyVol coord v = .ok w → ∃ r, padG AxMap.alen v.geom wd = .ok r ∧ v.padStep r o = .ok w) ∧
    (∀ s o, (SOp.padTo s o).applyVol coord v = .ok w →
      ∃ wd r, padToWidth v.geom s = .ok wd ∧ padG AxMap.alen v.geom wd = .ok r ∧ v.padStep r o = .ok w) ∧
    (∀ s o, (SOp.padOrCropTo s o).applyVol coord v = .ok w →
      ∃ items wd r1 r2 w2, padOrCropPlan v.geom s = .ok (items, wd) ∧ getitemG AxMap.alen v.geom items = .ok r1 ∧
        padG AxMap.alen (v.reindex r1).1.geom wd = .ok r2 ∧ (v.reindex r1).1.padStep r2 o = .ok w2 ∧
        w = (w2.1, w2.2.comp (v.reindex r1).2)) := by
  refine ⟨fun wd o h => ?_, fun s o h => ?_, fun s o h => ?_⟩
  · simp only [SOp.applyVol] at h
    obtain ⟨_, _, h⟩ := bind_ok.mp h
    obtain ⟨r, hr, h⟩ := bind_ok.mp h
    exact ⟨r, hr, h⟩
  · simp only [SOp.applyVol] at h
    obtain ⟨wd, hw, h⟩ := bind_ok.mp h
    obtain ⟨_, _, h⟩ := bind_ok.mp h
    obtain ⟨r, hr, h⟩ := bind_ok.mp h
    exact ⟨wd, r, hw, hr, h⟩
  · simp only [SOp.applyVol] at h
    obtain ⟨⟨items, wd⟩, hpl, h⟩ := bind_ok.mp h
    dsimp only at h
    obtain ⟨r1, hr1, h⟩ := bind_ok.mp h
    obtain ⟨_, _, h⟩ := bind_ok.mp h
    obtain ⟨r2, hr2, h⟩ := bind_ok.mp h
    obtain ⟨⟨v2, p2⟩, hv2, h⟩ := bind_ok.mp h
    simp only [pure, Except.pure, Except.ok.injEq] at h
    exact ⟨items, wd, r1, r2, (v2, p2), hpl, hr1, hr2, hv2, h.symm⟩

/-- **New voxels are padding** (`Vol.padStep`, i.e. every padding operation): retained voxels (provenance defined) were
treated above; here the new ones.  CONSTANT: the constant (cast to the dtype of the array); the dtype is kept. -/
theorem pad_new_voxels_constant (v : Vol) (r : GStep) (o : PadOpts) (w : VStep)
    (hm : o.mode = "CONSTANT") (h : v.padStep r o = .ok w) (j : I3) (hj : w.2 j = none) (c : List Nat) :
    w.1.arr j c = castTo v.isInt o.cval ∧ w.1.isInt = v.isInt := by
  simp only [Vol.padStep] at h
  obtain ⟨⟨a, b⟩, ha, h⟩ := bind_ok.mp h
  simp only [pure, Except.pure, Except.ok.injEq] at h
  subst h
  exact padArray_constant hm ha j (provOf_none hj) c

/-- EDGE: the value of the nearest voxel of the (cropped) input — the source index clamped per axis, which is a voxel. -/
theorem pad_new_voxels_edge (v : Vol) (r : GStep) (o : PadOpts) (w : VStep) (hp : v.geom.Pos)
    (hm : o.mode = "EDGE") (h : v.padStep r o = .ok w) (j : I3) (hj : w.2 j = none) (c : List Nat) :
    v.geom.inRange (v.geom.clamp (r.2 j)) = true ∧ w.1.arr j c = v.arr (v.geom.clamp (r.2 j)) c := by
  simp only [Vol.padStep] at h
  obtain ⟨⟨a, b⟩, ha, h⟩ := bind_ok.mp h
  simp only [pure, Except.pure, Except.ok.injEq] at h
  subst h
  exact ⟨clamp_inRange hp _, (padArray_edge hm ha j (provOf_none hj) c).1⟩

/-- per axis the clamped index is the nearest one inside `0 .. n-1` -/
theorem clamp_is_nearest (x n k : Int) (hk : 0 ≤ k ∧ k < n) :
    (if clampI x n ≤ x then x - clampI x n else clampI x n - x) ≤ (if k ≤ x then x - k else k - x) :=
  clampI_nearest k hk

/-- MINIMUM / MAXIMUM / MEAN / MEDIAN over the whole array (no per-channel treatment): every new voxel holds the
statistic of all input values, cast to the dtype. -/
theorem pad_new_voxels_statistic (v : Vol) (r : GStep) (o : PadOpts) (w : VStep) (mode : PadMode)
    (hm : PadMode.parse o.mode = some mode) (hs : isStat mode = true)
    (hpc : (o.perChannel && !(v.cshape.isEmpty || v.cshape == [1])) = false)
    (h : v.padStep r o = .ok w) (j : I3) (hj : w.2 j = none) (c : List Nat) :
    ∃ x, statOf mode v.values = some x ∧ w.1.arr j c = castTo v.isInt x ∧ w.1.isInt = v.isInt := by
  simp only [Vol.padStep] at h
  obtain ⟨⟨a, b⟩, ha, h⟩ := bind_ok.mp h
  simp only [pure, Except.pure, Except.ok.injEq] at h
  subst h
  exact padArray_stat_global hm hs hpc ha j (provOf_none hj) c

/-- The same per channel (`per_channel=True`, more than one channel — decision regenerated from source, T9d): the
statistic of that channel alone; the dtype of the array is kept. -/
theorem pad_new_voxels_per_channel (v : Vol) (r : GStep) (o : PadOpts) (w : VStep) (mode : PadMode)
    (hm : PadMode.parse o.mode = some mode) (hs : isStat mode = true)
    (hpc : (o.perChannel && !(v.cshape.isEmpty || v.cshape == [1])) = true)
    (h : v.padStep r o = .ok w) (j : I3) (hj : w.2 j = none) (c : List Nat)
    (hc : c ∈ chanIndices v.cshape) :
    ∃ x, statOf mode (v.channelValues c) = some x ∧ w.1.arr j c = castTo v.isInt x ∧ w.1.isInt = v.isInt := by
  simp only [Vol.padStep] at h
  obtain ⟨⟨a, b⟩, ha, h⟩ := bind_ok.mp h
  simp only [pure, Except.pure, Except.ok.injEq] at h
  subst h
  exact padArray_stat_perChannel hm hs hpc ha j (provOf_none hj) c hc

/-- MINIMUM / MAXIMUM are the least / greatest of the values they are computed from. -/
theorem minimum_is_least (l : List Rat) (m : Rat) (h : statOf .minimum l = some m) : m ∈ l ∧ ∀ x ∈ l, m ≤ x :=
  listMin_spec h
theorem maximum_is_greatest (l : List Rat) (m : Rat) (h : statOf .maximum l = some m) : m ∈ l ∧ ∀ x ∈ l, x ≤ m :=
  listMax_spec h

/-! ## channel selection and permutation (volumes with one or two channel dimensions) -/

/-- **permute_channel_axes** on two channel dimensions: either the identity, or cell `[x, y]` of the result is cell
`[y, x]` of the input, the descriptors (with their values) and the channel shape are swapped with it, and the cell
carries the same (descriptor, value) labels. -/
theorem permute_channels_labels (v : Vol) (p : List Int) (w : VStep) (a b : Nat) (e0 e1 : Nat × List Nat)
    (hs : v.cshape = [a, b]) (hc : v.chans = [e0, e1]) (h : permuteChannelsV v p = .ok w) (x y : Nat) :
    (p = [0, 1] ∧ (∀ j, w.1.arr j [x, y] = v.arr j [x, y]) ∧ w.1.chans = v.chans ∧ w.1.cshape = v.cshape) ∨
    (p = [1, 0] ∧ (∀ j, w.1.arr j [x, y] = v.arr j [y, x]) ∧ w.1.chans = [e1, e0] ∧ w.1.cshape = [b, a] ∧
      (labels w.1 [x, y]).Perm (labels v [y, x])) :=
  permuteChannels2_labels hs hc h x y

/-- **get_channel** on the first / second of two channel dimensions and on a single one: the selected index is in
range, the geometry is untouched, the result cell is the input cell with the selected index put back, the other
descriptor keeps its values and the selected one is dropped (keepdims: keeps exactly the selected value). -/
theorem get_channel_first_of_two (v : Vol) (w : VStep) (a b k : Nat) (e0 e1 : Nat × List Nat) (keep : Bool)
    (hs : v.cshape = [a, b]) (hc : v.chans = [e0, e1]) (h : getChannelV v [(0, k)] keep = .ok w) (y : Nat) :
    k < a ∧ w.1.geom = v.geom ∧
    (keep = false → (∀ j, w.1.arr j [y] = v.arr j [k, y]) ∧ w.1.chans = [e1] ∧ w.1.cshape = [b]) ∧
    (keep = true → (∀ j, w.1.arr j [0, y] = v.arr j [k, y]) ∧ w.1.cshape = [1, b] ∧
      ∃ x, e0.2[k]? = some x ∧ w.1.chans = [(e0.1, [x]), e1]) :=
  getChannel2_first keep hs hc h y

theorem get_channel_second_of_two (v : Vol) (w : VStep) (a b k : Nat) (e0 e1 : Nat × List Nat) (keep : Bool)
    (hs : v.cshape = [a, b]) (hc : v.chans = [e0, e1]) (h : getChannelV v [(1, k)] keep = .ok w) (y : Nat) :
    k < b ∧ w.1.geom = v.geom ∧
    (keep = false → (∀ j, w.1.arr j [y] = v.arr j [y, k]) ∧ w.1.chans = [e0] ∧ w.1.cshape = [a]) ∧
    (keep = true → (∀ j, w.1.arr j [y, 0] = v.arr j [y, k]) ∧ w.1.cshape = [a, 1] ∧
      ∃ x, e1.2[k]? = some x ∧ w.1.chans = [e0, (e1.1, [x])]) :=
  getChannel2_second keep hs hc h y

theorem get_channel_both_of_two (v : Vol) (w : VStep) (a b k l : Nat) (e0 e1 : Nat × List Nat)
    (hs : v.cshape = [a, b]) (hc : v.chans = [e0, e1]) (h : getChannelV v [(0, k), (1, l)] false = .ok w) :
    k < a ∧ l < b ∧ w.1.geom = v.geom ∧ (∀ j, w.1.arr j [] = v.arr j [k, l]) ∧ w.1.chans = [] ∧ w.1.cshape = [] :=
  getChannel2_both hs hc h

theorem get_channel_single (v : Vol) (w : VStep) (a k : Nat) (e0 : Nat × List Nat) (keep : Bool)
    (hs : v.cshape = [a]) (hc : v.chans = [e0]) (h : getChannelV v [(0, k)] keep = .ok w) :
    k < a ∧ w.1.geom = v.geom ∧
    (keep = false → (∀ j, w.1.arr j [] = v.arr j [k]) ∧ w.1.chans = [] ∧ w.1.cshape = []) ∧
    (keep = true → (∀ j, w.1.arr j [0] = v.arr j [k]) ∧ w.1.cshape = [1] ∧
      ∃ x, e0.2[k]? = some x ∧ w.1.chans = [(e0.1, [x])]) :=
  getChannel1 keep hs hc h

/-! ## the original object is unchanged (allocation kinds regenerated from source, T9f / T9g)

Not provable from an allocate-only store model (there it would hold by definition).  Instead the translator lists, for
the operation methods of `volume.py` and the affine helpers of `spatial.py` as they are *now*: how the array / affine of
the result is produced, every in-place store with the kind of the array written, every call carrying an in-place flag.
The theorems below are `decide`d on those regenerated tables; the store lemma turns "fresh" into independence. -/

/-- **copy() allocates**: the array of the copy is produced by an expression that always allocates (`.copy()`), not by
a view and not by a numpy function that may return its argument (`np.ascontiguousarray`, `np.asarray`, …). -/
theorem copy_allocates_fresh : arrayAllocOf "Volume.copy" = some .fresh := by decide

/-- The padding operations allocate as well (`np.pad` / a new `np.zeros` filled channel by channel). -/
theorem padding_allocates_fresh : arrayAllocOf "Volume.pad" = some .fresh := by decide

/-- For every operation the origin of the result's array is determined by the source: a fresh allocation, a view of the
object's own array (indexing, spatial / channel permutation, channel selection: numpy view semantics, the result
shares the buffer), or the caller's array (`with_array`) — never "numpy decides at run time", never unrecognised. -/
theorem result_array_kinds_determined :
    volumeArrayAlloc.all (fun e => Alloc.parse e.2 == .fresh || Alloc.parse e.2 == .view || Alloc.parse e.2 == .given) = true ∧
    (volumeArrayAlloc.map (·.1)) = ["Volume.copy", "Volume.with_array", "Volume.__getitem__", "Volume.permute_spatial_axes",
      "Volume.permute_channel_axes_by_index", "Volume.get_channel", "Volume.pad"] := by decide

/-- The affine of a result never aliases the input's: every constructor call hands over a fresh matrix, the `affine`
property hands out a copy, and the affine helpers return fresh matrices (the constructor copies once more). -/
theorem result_affine_is_fresh :
    volumeAffineAlloc.all (fun e => e.2 == "fresh") = true ∧ volumeAffineProperty = "fresh" ∧
    affineHelperReturns.all (fun e => e.2 == "fresh") = true := by decide

/-- **The operations never write into their input**: every in-place store of the operation methods, of
`_prepare_getitem_index` / `_prepare_pad_width` / `_permute_affine` / the constructors and of the affine helpers goes
into an array (or container) the method allocated itself, and no call carries an in-place flag (`out=`,
`overwrite_input=True`, `.sort()`, `np.copyto`, …). -/
theorem ops_never_write_input :
    (volumeArrayWrites ++ affineHelperWrites).all (fun w => w.2.2 == "fresh") = true ∧
    volumeInplaceCalls = [] ∧ affineHelperInplaceCalls = [] := by decide

/-- **A freshly allocated result is independent of the original**: after an operation whose result array is `fresh`,
an in-place edit of any element of the result leaves every buffer that existed before — the original's among them —
exactly as it was.  With `copy_allocates_fresh` / `padding_allocates_fresh`: working in place on a copy or a padded
volume never changes the original. -/
theorem fresh_result_is_independent (s : Store) (own given : Nat) (contents : List Rat) (r : Nat)
    (hr : resultBuffer .fresh s own given = some r) (k : Nat) (x : Rat) (b : Nat) (hb : b < s.length) :
    (writeBuf (storeAfter .fresh s contents) r k x)[b]? = s[b]? :=
  fresh_independent s own given contents r hr k x b hb

theorem copy_result_is_independent (a : Alloc) (ha : arrayAllocOf "Volume.copy" = some a) (s : Store) (own given : Nat)
    (contents : List Rat) : ∃ r, resultBuffer a s own given = some r ∧
      ∀ k x b, b < s.length → (writeBuf (storeAfter a s contents) r k x)[b]? = s[b]? := by
  have : a = .fresh := by
    have h := copy_allocates_fresh
    rw [ha] at h
    exact Option.some.inj h
  subst this
  exact ⟨s.length, rfl, fun k x b hb => fresh_independent s own given contents s.length rfl k x b hb⟩

/-- A view lives in the input's buffer: editing the result of indexing / permuting / channel selection in place edits
the original (numpy view semantics; the library documents indexing as "largely similar to any NumPy array"). -/
theorem view_result_aliases (s : Store) (own given : Nat) :
    resultBuffer .view s own given = some own ∧ storeAfter .view s [] = s :=
  view_aliases s own given

/-! ## bridges: hand-written definitions use exactly the expressions of the current source (T9h – T9l)

Re-exported from `Proofs/VolumeTie.lean`.  The regenerated side: `orientStep` (loop body of `to_patient_orientation`),
`orientOpposites` / `closestPosDirs` / `closestNegDirs` / `closestSign` (tables and sign test of `spatial.py`),
`padValueTable` (if-chain of `Volume.pad.pad_array`), `permGeomShape` / `permArrayAxes` / `permAffineCols`
(`permute_spatial_axes` of both classes and `_transform_affine_matrix`, evaluated on label data). -/

/-- `planAxis` (one desired direction of `to_patient_orientation`) is the source's loop body: same entry of
`permute_indices`, same decision to flip, and the axis put into `flip_axes` is that same entry. -/
theorem bridge_orientation_loop_body (cur : Orient) (d : Dir) (position : Int) :
    planAxis cur d = (planAxisSrc cur d position).map (fun r => (r.1, r.2.1)) ∧
    ∀ p hf fl, planAxisSrc cur d position = .ok (p, hf, fl) → hf = true → fl = p :=
  planAxis_is_source_step cur d position

/-- `orientPlan` is that loop body run over the three desired directions, collecting `permute_indices` and `flip_axes`. -/
theorem bridge_orientation_loop (cur des : Orient) :
    orientPlan cur des = (do
      let a ← planAxisSrc cur des.1 0
      let b ← planAxisSrc cur des.2.1 1
      let c ← planAxisSrc cur des.2.2 2
      pure ([a.1, b.1, c.1], (if a.2.1 then [a.2.2] else []) ++ (if b.2.1 then [b.2.2] else []) ++ (if c.2.1 then [c.2.2] else []))) :=
  orientPlan_is_source_loop cur des

/-- `Dir.opp`, `posDir`, `negDir`, `dirOf` are `PATIENT_ORIENTATION_OPPOSITES`, `pos_directions`, `neg_directions` and
the sign test of `get_closest_patient_orientation`. -/
theorem bridge_orientation_tables (d : Dir) (v : V3) (r : Ax) :
    srcOpp d = some d.opp ∧
    closestPosDirs = [dirName (posDir .a0), dirName (posDir .a1), dirName (posDir .a2)] ∧
    closestNegDirs = [dirName (negDir .a0), dirName (negDir .a1), dirName (negDir .a2)] ∧
    ((closestSign (v.get r) = .ok 1 ∧ dirOf v r = posDir r) ∨ (closestSign (v.get r) = .ok 0 ∧ dirOf v r = negDir r)) :=
  ⟨opp_is_source_table d, posNeg_are_source_tables.1, posNeg_are_source_tables.2, dirOf_uses_source_sign v r⟩

/-- `statOf` dispatches the statistic modes exactly as the if-chain of `pad_array`; CONSTANT pads with the caller's
value and EDGE hands no constant to `numpy.pad`. -/
theorem bridge_pad_value_dispatch (name : String) (mode : PadMode) (hm : PadMode.parse name = some mode)
    (hs : isStat mode = true) (l : List Rat) :
    statOf mode l = srcStat name l ∧ padValueTable.lookup "CONSTANT" = some "cval" ∧ padValueTable.lookup "EDGE" = none :=
  ⟨statOf_is_source_dispatch hm hs l, constant_edge_source_dispatch.1, constant_edge_source_dispatch.2⟩

/-- `Geom.permute` / `permSrc` permute sizes, affine columns and array axes as the source does for each of the six
permutations, and the source permutes all three alike. -/
theorem bridge_permutation (g : Geom) (q : Perm) (hq : PermValid q) :
    ((permGeomShape.lookup (permKey q)).map (fun rs => rs.filterMap (fun k => (axOfNat k).map g.size))
      = some [(g.permute q).n0, (g.permute q).n1, (g.permute q).n2] ∧
     (permAffineCols.lookup (permKey q)).map (fun rc => rc.filterMap (fun k => (axOfNat k).map g.col))
      = some [(g.permute q).c0, (g.permute q).c1, (g.permute q).c2] ∧
     ∀ j : I3, (permArrayAxes.lookup (permKey q)).map (fun ra => ra.filterMap (fun k => (axOfNat k).map (permSrc q j).get))
      = some [j.i0, j.i1, j.i2]) ∧
    permGeomShape = permAffineCols ∧ permAffineCols = permArrayAxes :=
  ⟨permute_is_source_tables g q hq, permute_source_tables_agree.1, permute_source_tables_agree.2⟩

/-! ## non-vacuity -/

/-- a rotated (axis-swapping), anisotropic geometry of shape 4 × 3 × 5 -/
def g0 : Geom :=
  { c0 := ⟨0, 3 / 2, 0⟩, c1 := ⟨-1 / 2, 0, 0⟩, c2 := ⟨0, 0, 2⟩, t := ⟨10, -20, 5 / 4⟩, n0 := 4, n1 := 3, n2 := 5 }

example : g0.Orth ∧ g0.Pos := by decide +kernel

/-- negative step ending at index 0, an int, and a strided slice are accepted on `g0` -/
example : ((SOp.getitem [.slice (some 2) none (some (-1)), .int (-1), .slice none none (some 2)]).applyGeom .patient g0).toBool
    = true := by decide +kernel

example : ((SOp.padOrCropTo [2, 6, 5] ⟨"EDGE", 0, false⟩).applyGeom .patient g0).toBool = true := by decide +kernel
example : ((SOp.toOrientation ['F', 'P', 'L']).applyGeom .patient g0).toBool = true := by decide +kernel
example : ((SOp.ensureHandedness "RIGHT_HANDED" (some 1) none).applyGeom .patient g0).toBool = true := by decide +kernel

/-- `g0` is axis-aligned with axes pointing P, R, H: the hypotheses of `toPatientOrientation_spec` are satisfiable -/
example : (Dir.P, Dir.R, Dir.H) ∈ allOrients ∧ OnAxis g0.c0 .P ∧ OnAxis g0.c1 .R ∧ OnAxis g0.c2 .H := by
  refine ⟨by decide, ⟨3 / 2, by norm_num, by simp [g0, unitVec, V3.smul]⟩, ⟨1 / 2, by norm_num, by simp [g0, unitVec, V3.smul]; norm_num⟩,
    ⟨2, by norm_num, by simp [g0, unitVec, V3.smul]⟩⟩

/-- a volume on `g0` with two channel dimensions (2 optical paths × 3 segments) -/
def v0 : Vol := { geom := g0, arr := fun i c => i.i0 + 10 * i.i1 + 100 * i.i2 + (c.sum : Int), cshape := [2, 3],
                  chans := [(0, [0, 1]), (1, [0, 1, 2])], isInt := true }

example : (permuteChannelsV v0 [1, 0]).toBool = true ∧ (getChannelV v0 [(0, 1)] false).toBool = true ∧
    (getChannelV v0 [(1, 2)] true).toBool = true := by decide +kernel

example : ((SOp.pad (.nested [[1, 0], [0, 2], [3, 3]]) ⟨"MEDIAN", 0, true⟩).applyVol .patient v0).toBool = true := by
  decide +kernel

/-- a mixed history (flip, select a channel, pad per channel, permute the remaining channel axes, crop with a negative
step) is accepted on `v0`, and the final channel cell `[2]` comes from the original cell `[1, 2]` -/
def mixedOps : List Op :=
  [.spatial (.flip [0, 2]), .getChannel [(0, 1)] false, .spatial (.pad (.int 1) ⟨"MAXIMUM", 0, true⟩),
   .permuteChannels [0], .spatial (.getitem [.slice none none (some (-2)), .int 0])]

example : (runHistory .patient v0 mixedOps).toBool = true ∧ (∀ op ∈ mixedOps, op.isWithArray = false) ∧
    historyChanSrc .patient v0 mixedOps [2] = [1, 2] := by
  refine ⟨by decide +kernel, ?_, by decide +kernel⟩
  intro op hop
  simp only [mixedOps, List.mem_cons, List.not_mem_nil, or_false] at hop
  rcases hop with rfl | rfl | rfl | rfl | rfl <;> rfl

/-- the bridged source loop on a concrete request: current (P, R, H), desired F needs the opposite H (axis 2, flipped) -/
example : planAxisSrc (.P, .R, .H) .F 0 = .ok (2, true, 2) ∧ planAxisSrc (.P, .R, .H) .R 1 = .ok (1, false, 0) ∧
    srcStat "MEDIAN" [3, 1, 2] = some 2 ∧ PermValid (.a1, .a2, .a0) := by
  refine ⟨by decide +kernel, by decide +kernel, by decide +kernel, ?_⟩
  simp [PermValid]


/-! # round 2 -/

/-! ## inverse pairs are identities -/

/-- **flip twice = identity**: `v.flip_spatial(axes).flip_spatial(axes)` has the geometry of `v` (shape, affine) and
its index map composed with the first one is the identity (valid axes, for a `VolumeGeometry` and for the array alike). -/
theorem flip_twice_is_identity (g : Geom) (axes : List Int) (hp : g.Pos)
    (hv : (axes.length > 3 || axes.any (fun a => !validAxis a)) = false) :
    ∃ r1 r2, flipG AxMap.size g axes = .ok r1 ∧ flipG AxMap.size r1.1 axes = .ok r2 ∧ r2.1 = g ∧ ∀ j, r1.2 (r2.2 j) = j :=
  flipG_twice AxMap.size szOk_size g axes hp hv

/-- **permute, then permute by `argsort(indices)` = identity** (every accepted permutation, cyclic ones included). -/
theorem permute_then_inverse_is_identity (g : Geom) (p : List Int) (r1 : GStep) (h : permuteG g p = .ok r1) :
    ∃ q r2, permOfList p = .ok q ∧ permuteG r1.1 (invPerm q).toList = .ok r2 ∧ r2.1 = g ∧ ∀ j, r1.2 (r2.2 j) = j :=
  permuteG_inverse h

/-- **swap twice = identity**. -/
theorem swap_twice_is_identity (g : Geom) (a b : Int) (r1 : GStep) (h : swapG g a b = .ok r1) :
    ∃ r2, swapG r1.1 a b = .ok r2 ∧ r2.1 = g ∧ ∀ j, r1.2 (r2.2 j) = j :=
  swapG_twice h

/-- **pad, then index `[before : before + n]` on every axis = identity**: any non-negative widths; the crop is accepted,
restores shape and affine exactly, and every voxel comes back to its index. -/
theorem pad_then_crop_is_identity (g : Geom) (hp : g.Pos) (full : FullPad)
    (hf : 0 ≤ full.1.1 ∧ 0 ≤ full.1.2 ∧ 0 ≤ full.2.1.1 ∧ 0 ≤ full.2.1.2 ∧ 0 ≤ full.2.2.1 ∧ 0 ≤ full.2.2.2) :
    ∃ r1 r2, padFullG AxMap.size g full = .ok r1 ∧
      getitemG AxMap.size r1.1 [Item.slice (some full.1.1) (some (full.1.1 + g.n0)) none,
                                Item.slice (some full.2.1.1) (some (full.2.1.1 + g.n1)) none,
                                Item.slice (some full.2.2.1) (some (full.2.2.1 + g.n2)) none] = .ok r2 ∧
      r2.1 = g ∧ ∀ j, r1.2 (r2.2 j) = j :=
  padFullG_then_crop AxMap.size szOk_size g hp full hf

/-- **pad_to_spatial_shape, then crop_to_spatial_shape to the old shape = identity**: the centre crop (T9b) removes exactly
what the centred padding (T9a) added — both put `⌊difference / 2⌋` in front. -/
theorem padTo_then_cropTo_is_identity (g : Geom) (hp : g.Pos) (s : List Int) (r1 : GStep)
    (h : padToG AxMap.size g s = .ok r1) :
    ∃ r2, cropToG AxMap.size r1.1 [g.n0, g.n1, g.n2] = .ok r2 ∧ r2.1 = g ∧ ∀ j, r1.2 (r2.2 j) = j :=
  padTo_then_cropTo AxMap.size szOk_size hp h

/-- **Any pair (operation that loses nothing, operation that adds nothing) that restores the geometry restores the
volume**: if `op1` is one of flip / permute / swap / pad / pad_to / re-orientation / handedness / copy, `op2` is not a
padding operation, and the result has the shape and affine of `v`, then every voxel holds its original value in every
channel (so the five identities above hold for the arrays as well). -/
theorem inverse_pair_restores_volume (coord : Coord) (v : Vol) (op1 op2 : SOp) (w1 w2 : VStep) (hp : v.geom.Pos)
    (ho : v.geom.Orth) (hk : op1.keepsAll = true) (hc : op2.cropping = true) (h1 : op1.applyVol coord v = .ok w1)
    (h2 : op2.applyVol coord w1.1 = .ok w2) (hg : w2.1.geom = v.geom) (j : I3) (hj : v.geom.inRange j = true)
    (c : List Nat) : w2.1.arr j c = v.arr j c := by
  obtain ⟨k, hk1, hk2, hk3⟩ := keepsAll_step_supermap hp hk h1 ⟨j, hj, rfl, rfl⟩
  obtain ⟨a1, _, _, _⟩ := applyVol_sound hp h1
  obtain ⟨a2, b2, _, d2⟩ := applyVol_sound a1.shape h2
  have hj2 : w2.1.geom.inRange j = true := by rw [hg]; exact hj
  cases hprov : w2.2 j with
  | none => exact absurd hprov (d2 hc j hj2)
  | some k' =>
    obtain ⟨e1, _⟩ := a2.retained j k' hprov
    rw [hg] at e1
    have : k' = k := pos_injective (a1.orth ho) (e1.symm.trans hk2.symm)
    subst this
    rw [b2.values j k' hprov c, hk3]

/-! ## a volume is a partial map from physical points to values, and operations refine it -/

/-- a scaled orthogonal volume shows at most one value per physical point and channel cell -/
theorem volume_is_partial_map (v : Vol) (ho : v.geom.Orth) (p : V3) (c : List Nat) (x y : Rat)
    (hx : v.Shows p c x) (hy : v.Shows p c y) : x = y :=
  shows_functional ho hx hy

/-- **One operation refines the partial map**: whatever a voxel of the result shows at physical point `p` is what the
input showed at `p` — or the operation is a padding one and `p` is a point of the input's lattice (a new voxel). -/
theorem op_refines_partial_map (coord : Coord) (v : Vol) (op : SOp) (w : VStep) (hp : v.geom.Pos)
    (h : op.applyVol coord v = .ok w) (p : V3) (c : List Nat) (x : Rat) (hs : w.1.Shows p c x) :
    v.Shows p c x ∨ (op.cropping = false ∧ v.geom.OnLattice p) :=
  step_partial_map hp h hs

/-- for `pad` / `pad_to_spatial_shape` (and every other operation that selects nothing) a new voxel never sits on a
point where the input had a voxel -/
theorem pad_new_voxels_off_the_input (coord : Coord) (v : Vol) (op : SOp) (w : VStep) (hp : v.geom.Pos) (ho : v.geom.Orth)
    (hk : op.keepsAll = true) (h : op.applyVol coord v = .ok w) (j : I3) (hn : w.2 j = none) :
    ¬ v.geom.Covers (w.1.geom.pos j) :=
  pad_new_points_uncovered hp ho hk h j hn

/-- **flip / permute / swap / re-orient / handedness / copy leave the partial map unchanged** -/
theorem rearranging_op_same_partial_map (coord : Coord) (v : Vol) (op : SOp) (w : VStep) (hp : v.geom.Pos)
    (hr : op.rearranges = true) (h : op.applyVol coord v = .ok w) (p : V3) (c : List Nat) (x : Rat) :
    w.1.Shows p c x ↔ v.Shows p c x := by
  simp only [SOp.rearranges, Bool.and_eq_true] at hr
  constructor
  · intro hs
    rcases step_partial_map hp h hs with h1 | ⟨h1, _⟩
    · exact h1
    · rw [hr.1] at h1; cases h1
  · exact keepsAll_step_supermap hp hr.2 h

/-- **Histories refine the partial map** (induction over arbitrary finite lists of spatial operations): what the final
volume shows at `p` is what the original showed at `p`, or `p` is a lattice point of the original (padding) — possibly one
the original covered: after crop-then-pad the padding value stands where a voxel was cut away (the sharp one-step statement is
`pad_new_voxels_off_the_input`). -/
theorem history_refines_partial_map (coord : Coord) (v : Vol) (ops : List Op) (w : VStep) (hp : v.geom.Pos)
    (hs : allSpatial (fun _ => true) ops) (h : runHistory coord v ops = .ok w) (p : V3) (c : List Nat) (x : Rat)
    (hw : w.1.Shows p c x) : v.Shows p c x ∨ v.geom.OnLattice p :=
  history_partial_map ops hp hs h hw

/-- histories without padding: the final partial map is a restriction of the original one -/
theorem cropping_history_is_submap (coord : Coord) (v : Vol) (ops : List Op) (w : VStep) (hp : v.geom.Pos)
    (hs : allSpatial SOp.cropping ops) (h : runHistory coord v ops = .ok w) (p : V3) (c : List Nat) (x : Rat)
    (hw : w.1.Shows p c x) : v.Shows p c x :=
  history_submap ops hp hs h hw

/-- histories without selection (flip, permute, swap, pad, pad_to, re-orient, handedness, copy): an extension -/
theorem lossless_history_is_supermap (coord : Coord) (v : Vol) (ops : List Op) (w : VStep) (hp : v.geom.Pos)
    (hs : allSpatial SOp.keepsAll ops) (h : runHistory coord v ops = .ok w) (p : V3) (c : List Nat) (x : Rat)
    (hv : v.Shows p c x) : w.1.Shows p c x :=
  history_supermap ops hp hs h hv

/-- histories of rearrangements only: the same partial map -/
theorem rearranging_history_same_partial_map (coord : Coord) (v : Vol) (ops : List Op) (w : VStep) (hp : v.geom.Pos)
    (hs : allSpatial SOp.rearranges ops) (h : runHistory coord v ops = .ok w) (p : V3) (c : List Nat) (x : Rat) :
    w.1.Shows p c x ↔ v.Shows p c x := by
  have h1 : allSpatial SOp.cropping ops := fun op hop => by
    obtain ⟨s, e, hr⟩ := hs op hop
    simp only [SOp.rearranges, Bool.and_eq_true] at hr
    exact ⟨s, e, hr.1⟩
  have h2 : allSpatial SOp.keepsAll ops := fun op hop => by
    obtain ⟨s, e, hr⟩ := hs op hop
    simp only [SOp.rearranges, Bool.and_eq_true] at hr
    exact ⟨s, e, hr.2⟩
  exact ⟨history_submap ops hp h1 h, history_supermap ops hp h2 h⟩

/-! ## accessors -/

/-- **Bridge (T9n)**: the current source of `position`, `spacing_vectors()`, `affine`, `spacing`, `pixel_spacing`,
`spacing_between_slices`, `unit_vectors()`, `direction`, `direction_cosines`, `voxel_volume`, `physical_extent`,
`physical_volume`, `center_indices`, `nearest_center_indices`, run on a symbolic affine / shape / square root, computes
exactly the model's translation, columns, `spacingWith`, `unitWith`, … — for every square-root function.  In particular
`pixel_spacing` = spacings of axes (1, 2), `spacing_between_slices` = spacing of axis 0, `direction_cosines` = unit vectors
of axes (2, 1) in this order. -/
theorem bridge_accessors (sq : Rat → Rat) (g : Geom) :
    accPosition sq g.entry g.dim = g.t.toList ∧
    accSpacingVectors sq g.entry g.dim = g.c0.toList ++ g.c1.toList ++ g.c2.toList ∧
    accAffine sq g.entry g.dim = [g.c0.x, g.c1.x, g.c2.x, g.t.x, g.c0.y, g.c1.y, g.c2.y, g.t.y, g.c0.z, g.c1.z, g.c2.z, g.t.z] ∧
    accSpacing sq g.entry g.dim = [g.spacingWith sq .a0, g.spacingWith sq .a1, g.spacingWith sq .a2] ∧
    accPixelSpacing sq g.entry g.dim = [g.spacingWith sq .a1, g.spacingWith sq .a2] ∧
    accSpacingBetweenSlices sq g.entry g.dim = [g.spacingWith sq .a0] ∧
    accUnitVectors sq g.entry g.dim = (g.unitWith sq .a0).toList ++ (g.unitWith sq .a1).toList ++ (g.unitWith sq .a2).toList ∧
    accDirection sq g.entry g.dim =
      [(g.unitWith sq .a0).x, (g.unitWith sq .a1).x, (g.unitWith sq .a2).x,
       (g.unitWith sq .a0).y, (g.unitWith sq .a1).y, (g.unitWith sq .a2).y,
       (g.unitWith sq .a0).z, (g.unitWith sq .a1).z, (g.unitWith sq .a2).z] ∧
    accDirectionCosines sq g.entry g.dim = (g.unitWith sq .a2).toList ++ (g.unitWith sq .a1).toList ∧
    accVoxelVolume sq g.entry g.dim = [g.spacingWith sq .a0 * g.spacingWith sq .a1 * g.spacingWith sq .a2] ∧
    accPhysicalExtent sq g.entry g.dim =
      [(g.n0 : Rat) * g.spacingWith sq .a0, (g.n1 : Rat) * g.spacingWith sq .a1, (g.n2 : Rat) * g.spacingWith sq .a2] ∧
    accPhysicalVolume sq g.entry g.dim =
      [g.spacingWith sq .a0 * g.spacingWith sq .a1 * g.spacingWith sq .a2 * ((g.n0 : Rat) * g.n1 * g.n2)] ∧
    accCenterIndices sq g.entry g.dim = [((g.n0 : Rat) - 1) / 2, ((g.n1 : Rat) - 1) / 2, ((g.n2 : Rat) - 1) / 2] ∧
    accNearestCenterIndices sq g.entry g.dim = [(g.n0 - 1) / 2, (g.n1 - 1) / 2, (g.n2 - 1) / 2] :=
  ⟨acc_position sq g, acc_spacing_vectors sq g, acc_affine sq g, acc_spacing sq g, (acc_pixel_spacing sq g).1,
   (acc_pixel_spacing sq g).2, acc_unit_vectors sq g, acc_direction sq g, acc_direction_cosines sq g,
   (acc_extent_volume sq g).1, (acc_extent_volume sq g).2.1, (acc_extent_volume sq g).2.2, (acc_center sq g).1,
   (acc_center sq g).2⟩

/-- **Bridge (T9n)**: `handedness` compares the triple product of the affine's columns (the model's `Geom.triple`) with
zero and reports LEFT_HANDED exactly when it is negative (`Geom.leftHanded`, on which `ensureHandedness_spec` rests). -/
theorem bridge_handedness (g : Geom) :
    accHandednessTest g.entry = g.triple ∧ accHandednessMembers = ("LEFT_HANDED", "RIGHT_HANDED") ∧
    (g.leftHanded = true ↔ accHandednessTest g.entry < 0) :=
  acc_handedness g

/-- **The accessors are consistent with the affine**: `position + Σ_d (index_d · spacing_d) · unit_vector_d` is
`map_indices_to_reference(index)` — for every square-root function whose value at a column's squared length is not zero
(floating-point `sqrt` of a non-zero column): rebuilding the affine from `spacing`, `unit_vectors()` / `direction` and
`position` (what `from_components` does) gives the affine back. -/
theorem accessors_recompose_affine (sq : Rat → Rat) (g : Geom) (h : ∀ d, g.spacingWith sq d ≠ 0) (i : I3) :
    g.recompose sq = g ∧ (g.recompose sq).pos i = g.pos i := by
  rw [recompose_eq sq g h]; exact ⟨rfl, rfl⟩

/-- `nearest_center_indices` addresses a voxel, at most half a voxel below the exact centre `(n - 1) / 2` -/
theorem nearest_center_is_central_voxel (n : Int) (hn : 0 < n) :
    0 ≤ (n - 1) / 2 ∧ (n - 1) / 2 < n ∧ 2 * ((n - 1) / 2) ≤ n - 1 ∧ n - 1 ≤ 2 * ((n - 1) / 2) + 1 :=
  nearest_center_in_range n hn

/-- after every accepted operation `position` (the translation) is the physical point of the input voxel the new
index (0, 0, 0) shows -/
theorem op_origin_is_source_voxel (coord : Coord) (g : Geom) (op : SOp) (r : GStep) (hp : g.Pos)
    (h : op.applyGeom coord g = .ok r) : r.1.t = g.pos (r.2 ⟨0, 0, 0⟩) := by
  have := (applyG_sound AxMap.size szOk_size hp h).1.position ⟨0, 0, 0⟩
  rw [← this]
  apply V3.ext' <;> simp [Geom.pos, V3.add, V3.smul]

/-- **Column structure**: after every accepted operation each column of the affine is a non-zero integer multiple of
one column of the input, each input column being used once — spacings change by the stride only, directions by a sign and a
permutation (`spacing`² of axis `d` = `k_d²` · `spacing`² of the source axis). -/
theorem op_columns_are_multiples (coord : Coord) (g : Geom) (op : SOp) (r : GStep) (hp : g.Pos)
    (h : op.applyGeom coord g = .ok r) :
    ∃ (e : Ax → Ax) (k : Ax → Int), Function.Injective e ∧ (∀ d, k d ≠ 0) ∧
      (∀ d, r.1.col d = V3.smul (k d) (g.col (e d))) ∧
      ∀ d, r.1.spacingSq d = ((k d : Rat) * (k d : Rat)) * g.spacingSq (e d) := by
  obtain ⟨e, k, i, z, c⟩ := applyG_cols AxMap.size szOk_size hp h
  exact ⟨e, k, i, z, c, fun d => by simp only [Geom.spacingSq, c d, dot_smul]⟩

/-- the same over every history (induction; channel operations and `with_array` leave the affine alone) -/
theorem history_columns_are_multiples (coord : Coord) (v : Vol) (ops : List Op) (w : VStep) (hp : v.geom.Pos)
    (h : runHistory coord v ops = .ok w) :
    ∃ (e : Ax → Ax) (k : Ax → Int), Function.Injective e ∧ (∀ d, k d ≠ 0) ∧
      (∀ d, w.1.geom.col d = V3.smul (k d) (v.geom.col (e d))) ∧
      ∀ d, w.1.geom.spacingSq d = ((k d : Rat) * (k d : Rat)) * v.geom.spacingSq (e d) := by
  obtain ⟨e, k, i, z, c⟩ := history_cols ops hp h
  exact ⟨e, k, i, z, c, fun d => by simp only [Geom.spacingSq, c d, dot_smul]⟩

/-! ## randomised conveniences (values drawn by numpy are parameters) -/

/-- **random_spatial_crop**: requested sizes `1 ≤ c ≤ n`, and ANY values the generator may return
(`np.random.randint(0, n - c + 1)`: the bounds are regenerated, T9m): accepted; axis `d` of the result shows the voxels
`s_d … s_d + c_d - 1`, so the result has exactly the requested shape; it is an indexing operation, hence everything proved
for `__getitem__` applies. -/
theorem random_crop_spec (g : Geom) (c0 c1 c2 s0 s1 s2 : Int)
    (h0 : 1 ≤ c0 ∧ c0 ≤ g.n0 ∧ 0 ≤ s0 ∧ s0 ≤ g.n0 - c0) (h1 : 1 ≤ c1 ∧ c1 ≤ g.n1 ∧ 0 ≤ s1 ∧ s1 ≤ g.n1 - c1)
    (h2 : 1 ≤ c2 ∧ c2 ≤ g.n2 ∧ 0 ≤ s2 ∧ s2 ≤ g.n2 - c2) :
    ∃ r, randomCropG AxMap.size g [c0, c1, c2] [s0, s1, s2] = .ok r ∧
      getitemG AxMap.size g [.slice (some s0) (some (s0 + c0)) none, .slice (some s1) (some (s1 + c1)) none,
                             .slice (some s2) (some (s2 + c2)) none] = .ok r ∧
      (r.1.n0 = c0 ∧ r.1.n1 = c1 ∧ r.1.n2 = c2) ∧ ∀ j, r.2 j = ⟨s0 + j.i0, s1 + j.i1, s2 + j.i2⟩ := by
  have e := randomCropG_spec AxMap.size g c0 c1 c2 s0 s1 s2 h0 h1 h2
  refine ⟨_, e, ?_, ⟨rfl, rfl, rfl⟩, fun j => ?_⟩
  · have r0 := range_axis_accept (n := g.n0) (f := s0) (e := s0 + c0) h0.2.2.1 (by omega) (by omega)
    have r1 := range_axis_accept (n := g.n1) (f := s1) (e := s1 + c1) h1.2.2.1 (by omega) (by omega)
    have r2 := range_axis_accept (n := g.n2) (f := s2) (e := s2 + c2) h2.2.2.1 (by omega) (by omega)
    simp only [add_sub_cancel_left] at r0 r1 r2
    exact getitemG_three AxMap.size g _ _ _ r0 r1 r2
  · simp [remapSrc]

/-- **random_spatial_crop with a requested shape of other than three entries** (the source zips the request with the spatial
shape and does not insist on three entries, unlike the sibling to-shape methods): entries beyond the third are never looked
at; a request of two entries crops the first two axes — for every value the generator may return — and leaves the third axis
as it is (shape `(c0, c1, n2)`, index map `(s0 + j0, s1 + j1, j2)`); one entry crops the first axis only; an empty request
crops nothing. -/
theorem random_crop_other_lengths (g : Geom) :
    (∀ c0 c1 c2 rest draws, randomCropG AxMap.size g (c0 :: c1 :: c2 :: rest) draws = randomCropG AxMap.size g [c0, c1, c2] draws) ∧
    (∀ c0 c1 s0 s1, (1 ≤ c0 ∧ c0 ≤ g.n0 ∧ 0 ≤ s0 ∧ s0 ≤ g.n0 - c0) → (1 ≤ c1 ∧ c1 ≤ g.n1 ∧ 0 ≤ s1 ∧ s1 ≤ g.n1 - c1) →
      ∃ r, randomCropG AxMap.size g [c0, c1] [s0, s1] = .ok r ∧ r.1.n0 = c0 ∧ r.1.n1 = c1 ∧ r.1.n2 = g.n2 ∧
        ∀ j, r.2 j = ⟨s0 + j.i0, s1 + j.i1, j.i2⟩) ∧
    (∀ c0 s0, (1 ≤ c0 ∧ c0 ≤ g.n0 ∧ 0 ≤ s0 ∧ s0 ≤ g.n0 - c0) →
      ∃ r, randomCropG AxMap.size g [c0] [s0] = .ok r ∧ r.1.n0 = c0 ∧ r.1.n1 = g.n1 ∧ r.1.n2 = g.n2 ∧
        ∀ j, r.2 j = ⟨s0 + j.i0, j.i1, j.i2⟩) ∧
    (∃ r, randomCropG AxMap.size g [] [] = .ok r ∧ r.1.n0 = g.n0 ∧ r.1.n1 = g.n1 ∧ r.1.n2 = g.n2 ∧ ∀ j, r.2 j = j) := by
  refine ⟨fun c0 c1 c2 rest draws => randomCropG_ignores_extra AxMap.size g c0 c1 c2 rest draws, fun c0 c1 s0 s1 h0 h1 => ?_,
    fun c0 s0 h0 => ?_, ?_⟩
  · refine ⟨_, randomCropG_two AxMap.size g c0 c1 s0 s1 h0 h1, rfl, rfl, rfl, fun j => ?_⟩
    simp [remapSrc]
  · refine ⟨_, randomCropG_one AxMap.size g c0 s0 h0, rfl, rfl, rfl, fun j => ?_⟩
    simp [remapSrc]
  · refine ⟨_, randomCropG_none AxMap.size g, rfl, rfl, rfl, fun j => ?_⟩
    cases j; simp [remapSrc]

/-- a requested size beyond the axis is refused (ValueError) whatever would be drawn -/
theorem random_crop_refuses_larger (c n s : Int) (h : n < c) : randomCropAxis c n s = .error .value :=
  randomCropAxis_refuses c n s h

/-- **random_flip_spatial is flip_spatial of a subset of `axes`**: whatever is drawn, an accepted call returns exactly what
`flip_spatial(S)` returns for some `S ⊆ axes` (shape, affine and index map) — `slice(None, None, -1)` and
`slice(-1, None, -1)` are the same axis map; axes not listed are never flipped; valid `axes` with binary draws are accepted. -/
theorem random_flip_is_flip (g : Geom) (hp : g.Pos) (axes draws : List Int) (r : GStep)
    (h : randomFlipG AxMap.size g axes draws = .ok r) :
    ∃ b0 b1 b2, (b0 = true → axes.contains 0 = true) ∧ (b1 = true → axes.contains 1 = true) ∧
      (b2 = true → axes.contains 2 = true) ∧ flipG AxMap.size g (flagAxes b0 b1 b2) = .ok r :=
  randomFlipG_is_flip AxMap.size hp h

theorem random_flip_accepts (axes : List Int) (x0 x1 x2 : Int) (hv : randomAxesOk axes = true)
    (h0 : x0 = 0 ∨ x0 = 1) (h1 : x1 = 0 ∨ x1 = 1) (h2 : x2 = 0 ∨ x2 = 1) :
    ∃ items, randomFlipItems axes [x0, x1, x2] = .ok items :=
  randomFlipItems_accepts axes x0 x1 x2 hv h0 h1 h2

/-- **Bridge (T9m)**: the hand-written validation of `axes` accepts exactly the lists the source's if-raise statements
accept (evaluated on every list over -1..3 of length ≤ 4; the hand-written test accepts nothing outside that domain). -/
theorem bridge_random_axes_validation (axes : List Int) : randomAxesOk axes = true ↔ axes ∈ randomAxesAccepted :=
  randomAxesOk_iff_source axes

/-- **random_permute_spatial_axes**: valid `axes` (2 or 3 of them) and ANY rearrangement the generator may return: the call
reaches `permute_spatial_axes` with indices that are accepted (a permutation of 0, 1, 2; the completion of a drawn pair by
the missing axis is regenerated, T9m), every axis not listed keeps its place, listed axes go to listed places. -/
theorem random_permute_spec (axes drawn : List Int) (hv : randomAxesOk axes = true)
    (hr : isRearrangement axes drawn = true) : randomPermuteGood axes drawn = true :=
  randomPermute_good hv hr

/-! ## rigidity: rearrangements that restore the columns restore everything -/

/-- **Any two rearrangements (flip, permute, swap, re-orientation, handedness, copy) after which the affine has the columns of
the input are, together, the identity**: same shape, same translation, every voxel back at its index (scaled orthogonal
input).  No voxel can end up elsewhere without the columns showing it. -/
theorem rearrangement_restoring_columns_is_identity (coord : Coord) (g : Geom) (op1 op2 : SOp) (r1 r2 : GStep)
    (ho : g.Orth) (hp : g.Pos) (k1 : op1.rearranges = true) (k2 : op2.rearranges = true)
    (e1 : op1.applyGeom coord g = .ok r1) (e2 : op2.applyGeom coord r1.1 = .ok r2)
    (h0 : r2.1.c0 = g.c0) (h1 : r2.1.c1 = g.c1) (h2 : r2.1.c2 = g.c2) : r2.1 = g ∧ ∀ j, r1.2 (r2.2 j) = j :=
  rearranging_pair_identity AxMap.size szOk_size ho hp k1 k2 e1 e2 h0 h1 h2

/-- **… and so is every finite composition** (`runSteps`: the operations applied one after the other, index maps composed; by
induction over the list): any sequence of flips, permutations, swaps, re-orientations, handedness corrections and copies after
which the affine has the columns of the input is the identity — same shape and translation, every voxel at its original index. -/
theorem rearranging_history_restoring_columns_is_identity (coord : Coord) (g : Geom) (ops : List SOp) (r : GStep)
    (ho : g.Orth) (hp : g.Pos) (hall : ∀ op ∈ ops, op.rearranges = true) (h : runSteps AxMap.size coord g ops = .ok r)
    (h0 : r.1.c0 = g.c0) (h1 : r.1.c1 = g.c1) (h2 : r.1.c2 = g.c2) : r.1 = g ∧ ∀ j, r.2 j = j :=
  runSteps_rigid AxMap.size szOk_size coord ops ho hp hall h h0 h1 h2

/-- **to_patient_orientation there and back = identity** (axis-aligned geometries, all 48 × 48 pairs, any positive spacings,
position, shape): re-orienting to `des` and then to the original orientation gives the original shape and affine, and every
voxel its original index. -/
theorem toPatientOrientation_roundtrip_is_identity (g : Geom) (cur des : Orient) (hc : cur ∈ allOrients) (hd : des ∈ allOrients)
    (hp : g.Pos) (h0 : OnAxis g.c0 cur.1) (h1 : OnAxis g.c1 cur.2.1) (h2 : OnAxis g.c2 cur.2.2) :
    ∃ r1 r2, (SOp.toOrientation (orientChars des)).applyGeom .patient g = .ok r1 ∧
      (SOp.toOrientation (orientChars cur)).applyGeom .patient r1.1 = .ok r2 ∧ r2.1 = g ∧ ∀ j, r1.2 (r2.2 j) = j :=
  toOrientation_roundtrip AxMap.size szOk_size hc hd hp h0 h1 h2

/-! ## `center_position` and `get_affine(output_convention)` -/

/-- **`center_position`** (T9n: the source — `map_indices_to_reference(center_indices)` — run on symbols) is the affine at the
continuous index `(n - 1) / 2`, and that point is the midpoint between the first and the last voxel. -/
theorem center_position_spec (sq : Rat → Rat) (g : Geom) :
    accCenterPosition sq g.entry g.dim = g.centerPosition.toList ∧
    g.centerPosition = V3.smul (1 / 2) ((g.pos ⟨0, 0, 0⟩).add (g.pos ⟨g.n0 - 1, g.n1 - 1, g.n2 - 1⟩)) :=
  ⟨acc_center_position sq g, centerPosition_midpoint g⟩

/-- **`get_affine(output_convention)`**: for each of the 48 conventions the current source of
`_transform_affine_to_convention` (with `_transform_affine_matrix`, from the convention L, P, H — T9p; `get_affine` forwards
`self.affine`, the shape and (L, P, H): T9q), run on a symbolic affine, returns exactly `Geom.inConvention`; and that affine maps
every voxel index to the SAME physical point, expressed in the requested convention (coordinate `k` = the component of the
point along the `k`-th direction of the convention) — the voxels stay where they are, only the frame's axes are renamed. -/
theorem get_affine_convention_spec (g : Geom) (o : Orient) (ho : o ∈ allOrients) :
    convAffine o.1.code o.2.1.code o.2.2.code g.entry = some (g.inConvention o).rows12 ∧
    getAffineForwards = ("LPH", "self.affine") ∧
    ∀ j, (g.inConvention o).pos j = convPoint o (g.pos j) :=
  ⟨convAffine_is_inConvention g o ho, rfl, fun j => inConvention_pos g o j⟩

/-! ## patient orientation of EVERY geometry (rotated ones included) -/

/-- **The rule of `get_closest_patient_orientation`, for every affine**: column 0 is given the patient axis (row) of its
largest entry in magnitude, column 1 the row of its largest entry among the rows still free, column 2 the remaining row — the
three rows are distinct —, and each letter is the positive or negative direction of its row according to the sign of that
entry.  Consequently the answer is always one of the 48 orientations. -/
theorem closest_orientation_is_greedy (g : Geom) :
    closest g = (dirOf g.c0 (closestRows g).1, dirOf g.c1 (closestRows g).2.1, dirOf g.c2 (closestRows g).2.2) ∧
    (∀ x, absR (g.c0.get x) ≤ absR (g.c0.get (closestRows g).1)) ∧
    (closestRows g).2.1 ≠ (closestRows g).1 ∧
    (∀ x, x ≠ (closestRows g).1 → absR (g.c1.get x) ≤ absR (g.c1.get (closestRows g).2.1)) ∧
    (closestRows g).2.2 ≠ (closestRows g).1 ∧ (closestRows g).2.2 ≠ (closestRows g).2.1 ∧
    closest g ∈ allOrients :=
  let h := closestRows_greedy g
  ⟨closest_eq_rows g, h.1, h.2.1, h.2.2.1, h.2.2.2.1, h.2.2.2.2, closest_mem_allOrients g⟩

/-- **`to_patient_orientation` on every geometry** — any rotation, any spacing, any shape, PATIENT coordinate system: each of
the 48 requests is accepted; output axis `k` is input axis `q_k` (a permutation of the axes), reversed (`f_k`) or not, and the
letter `get_closest_patient_orientation` gave input axis `q_k` — its opposite when the axis is reversed — is the requested
letter: the result is oriented as close to the request as permutations and flips of THIS volume's axes allow by the code's own
rule.  No voxel moves (`op_preserves_position`, `rearranging_op_same_partial_map` hold for it as for every operation). -/
theorem toPatientOrientation_every_geometry (g : Geom) (des : Orient) (hd : des ∈ allOrients) (hp : g.Pos) :
    ∃ r q, ∃ f0 f1 f2 : Bool, (SOp.toOrientation (orientChars des)).applyGeom .patient g = .ok r ∧ PermValid q ∧
      r.1.c0 = V3.smul (if f0 then -1 else 1) (g.col q.1) ∧ r.1.c1 = V3.smul (if f1 then -1 else 1) (g.col q.2.1) ∧
      r.1.c2 = V3.smul (if f2 then -1 else 1) (g.col q.2.2) ∧
      (if f0 then (orientGet (closest g) q.1).opp else orientGet (closest g) q.1) = des.1 ∧
      (if f1 then (orientGet (closest g) q.2.1).opp else orientGet (closest g) q.2.1) = des.2.1 ∧
      (if f2 then (orientGet (closest g) q.2.2).opp else orientGet (closest g) q.2.2) = des.2.2 ∧
      (∀ j, r.1.pos j = g.pos (r.2 j)) := by
  obtain ⟨r, q, f0, f1, f2, hr, hq, c0, c1, c2, e0, e1, e2⟩ := toPatientOrientation_all AxMap.size hd hp
  have hr' : (SOp.toOrientation (orientChars des)).applyGeom .patient g = .ok r := hr
  exact ⟨r, q, f0, f1, f2, hr', hq, c0, c1, c2, e0, e1, e2, fun j => op_preserves_position .patient g _ r hp hr' j⟩

/-! ## channel descriptors over histories -/

/-- **Channel descriptors follow the data over every history** (no `with_array`; at most two channel dimensions — the bound
of the property — with one descriptor entry per dimension): for every channel cell `c` of the final volume, the cell it
shows in the original is `historyChanSrc … c` (`history_values_mixed`), that cell is a cell of the original (right rank), and
every (descriptor, value) label the final volume attaches to `c` is a label the original attaches to that cell — by induction
over the history (selection with / without keepdims, permutation, spatial operations mixed freely). -/
theorem history_descriptors_follow_data (coord : Coord) (v : Vol) (ops : List Op) (w : VStep) (hp : v.geom.Pos)
    (hok : ChanOk v) (hs : ∀ op ∈ ops, op.isWithArray = false) (h : runHistory coord v ops = .ok w) :
    ChanOk w.1 ∧ ∀ c, c.length = w.1.cshape.length → ((historyChanSrc coord v ops c).length = v.cshape.length ∧
      ∀ l ∈ labels w.1 c, l ∈ labels v (historyChanSrc coord v ops c)) :=
  runHistory_labels ops hp hok hs h

/-! ## argument handling (bridges, T9o) -/

/-- **Bridge (T9o)**: on every argument of the enumerated domains the hand-written argument handling of the model gives
exactly what the current source gives — error kinds included: `swapList` vs `swap_spatial_axes` (a, b in -1..3: the
permutation handed to `permute_spatial_axes`), `flipItems` vs `flip_spatial` (lists over -1..3: which axes get
`slice(-1, None, -1)`), `fullPadWidth` + the origin offset of `padAxis` vs `_prepare_pad_width` (ints, flat lists, nested lists
of 0..4 sublists: the six widths and the offset handed to `_translate_affine_matrix`), and — for ALL lists —
`permOfList` accepts exactly what `_permute_affine` accepts.  The tables are not empty. -/
theorem bridge_argument_handling :
    swapTable.all (fun row => decide (swapList row.1.1 row.1.2 = row.2)) = true ∧
    flipTable.all (fun row => decide (modelFlip row.1 = row.2)) = true ∧
    padWidthTable.all (fun row => decide (modelPadWidth row.1 = row.2)) = true ∧
    (∀ l, (∃ q, permOfList l = .ok q) ↔ l ∈ permuteAccepted) ∧
    swapTable.length = 25 ∧ 150 ≤ flipTable.length ∧ 400 ≤ padWidthTable.length ∧ permuteAccepted.length = 6 :=
  ⟨swapList_is_source_table, flipItems_is_source_table, padWidth_is_source_table, permOfList_iff_source,
   by decide +kernel, by decide +kernel, by decide +kernel, by decide +kernel⟩

/-! ## index items of a foreign type -/

/-- **An accepted index holds ints and slices only**: an item of any other type (None, Ellipsis, a numpy integer, a float,
a list …; `bool` is an `int`) is never accepted — and in first place it is refused with TypeError whatever follows.
(More than three items: IndexError first; an out-of-range int or slice before it: that refusal first.) -/
theorem getitem_refuses_foreign_items (g : Geom) (items : List Item) :
    (∀ r, getitemG AxMap.size g items = .ok r → ∀ it ∈ items, it ≠ Item.foreign) ∧
    (∀ rest : List Item, rest.length ≤ 2 → getitemG AxMap.size g (Item.foreign :: rest) = .error .type) :=
  ⟨fun _ h => getitemG_no_foreign AxMap.size h, fun rest hl => getitemG_foreign_first AxMap.size g rest hl⟩

/-! ## non-vacuity (round 2) -/

/-- a cyclic permutation three times and a flip twice: five rearrangements that restore the columns of `g0` -/
example : (match runSteps AxMap.size .patient g0 [.permute [1, 2, 0], .flip [2], .flip [2], .permute [1, 2, 0], .permute [1, 2, 0]] with
    | .ok r => decide (r.1.c0 = g0.c0 ∧ r.1.c1 = g0.c1 ∧ r.1.c2 = g0.c2 ∧ r.1 = g0)
    | .error _ => false) = true := by decide +kernel
example : (Dir.R, Dir.A, Dir.H) ∈ allOrients ∧ (g0.inConvention (.R, .A, .H)).t = ⟨-10, 20, 5 / 4⟩ ∧
    g0.centerPosition = ⟨10 + (-1 / 2) * 1, -20 + (3 / 2) * (3 / 2), 5 / 4 + 2 * 2⟩ := by decide +kernel

/-- a rotated geometry (3-4-5 rotation about z, anisotropic): scaled orthogonal, closest orientation A L H -/
def gRot : Geom :=
  { c0 := ⟨3 / 5, -4 / 5, 0⟩, c1 := ⟨2 * (4 / 5), 2 * (3 / 5), 0⟩, c2 := ⟨0, 0, 3 / 2⟩, t := ⟨1, 2, 3⟩, n0 := 2, n1 := 3, n2 := 4 }
example : gRot.Orth ∧ gRot.Pos ∧ closest gRot = (.A, .L, .H) ∧ (Dir.F, Dir.R, Dir.A) ∈ allOrients ∧
    ((SOp.toOrientation ['F', 'R', 'A']).applyGeom .patient gRot).toBool = true := by decide +kernel
example : ChanOk v0 ∧ labels v0 [1, 2] = [(0, 1), (1, 2)] := ⟨⟨rfl, by decide⟩, by decide +kernel⟩
example : (match getitemG AxMap.size g0 [.int 1, .foreign] with | .error e => e == .type | .ok _ => false) = true ∧
    (match getitemG AxMap.size g0 [.int 7, .foreign] with | .error e => e == .index | .ok _ => false) = true := by
  decide +kernel

example : ((flipG AxMap.size g0 [0, 2]).toBool = true) ∧ ([0, 2].length > 3 || [0, 2].any (fun a => !validAxis a)) = false := by
  decide +kernel
example : (permuteG g0 [1, 2, 0]).toBool = true ∧ (swapG g0 0 2).toBool = true := by decide +kernel
example : (padToG AxMap.size g0 [5, 3, 8]).toBool = true := by decide +kernel
/-- flip, then the same flip, on the volume `v0`: accepted, hypotheses of `inverse_pair_restores_volume` hold -/
example : ((SOp.flip [1]).applyVol .patient v0).toBool = true ∧ (SOp.flip [1]).keepsAll = true ∧ (SOp.flip [1]).cropping = true :=
  by decide +kernel
/-- … and the second flip gives the geometry of `v0` back (hypothesis `hg`), likewise pad by (1,0),(0,2),(3,3) then crop -/
example : (match (SOp.flip [1]).applyVol .patient v0 with
    | .ok w1 => (match (SOp.flip [1]).applyVol .patient w1.1 with | .ok w2 => decide (w2.1.geom = g0) | .error _ => false)
    | .error _ => false) = true ∧
    (match (SOp.pad (.nested [[1, 0], [0, 2], [3, 3]]) ⟨"EDGE", 0, false⟩).applyVol .patient v0 with
    | .ok w1 => (match (SOp.getitem [.slice (some 1) (some 5) none, .slice (some 0) (some 3) none, .slice (some 3) (some 8) none]).applyVol
                   .patient w1.1 with | .ok w2 => decide (w2.1.geom = g0) | .error _ => false)
    | .error _ => false) = true := by decide +kernel
example : v0.Shows (g0.pos ⟨1, 2, 3⟩) [1, 2] (1 + 20 + 300 + 3) := ⟨⟨1, 2, 3⟩, by decide +kernel, rfl, by decide +kernel⟩
example : allSpatial SOp.rearranges [.spatial (.flip [0]), .spatial (.permute [2, 0, 1]), .spatial .copy] := by
  intro op hop
  simp only [List.mem_cons, List.not_mem_nil, or_false] at hop
  rcases hop with rfl | rfl | rfl <;> exact ⟨_, rfl, rfl⟩
example : (runHistory .patient v0 [.spatial (.flip [0]), .spatial (.permute [2, 0, 1]), .spatial .copy]).toBool = true := by
  decide +kernel
/-- a square root that is right on the three columns of `g0` (lengths 3/2, 1/2, 2) -/
def sq0 (x : Rat) : Rat := if x = 9 / 4 then 3 / 2 else if x = 1 / 4 then 1 / 2 else if x = 4 then 2 else 1
example : ∀ d, g0.spacingWith sq0 d ≠ 0 := by intro d; cases d <;> decide +kernel
example : accSpacing sq0 g0.entry g0.dim = [3 / 2, 1 / 2, 2] ∧ accPixelSpacing sq0 g0.entry g0.dim = [1 / 2, 2] ∧
    accDirectionCosines sq0 g0.entry g0.dim = [0, 0, 1, -1, 0, 0] ∧ g0.leftHanded = false := by
  refine ⟨?_, ?_, ?_, ?_⟩ <;>
    norm_num [accSpacing, accPixelSpacing, accDirectionCosines, Geom.entry, Geom.dim, g0, sq0, Geom.leftHanded, Geom.triple,
      V3.cross, V3.dot]
example : (randomCropG AxMap.size g0 [2, 3] [2, 0]).toBool = true ∧ (randomCropG AxMap.size g0 [2, 3, 1, 9] [2, 0, 4]).toBool = true := by decide +kernel
example : (randomCropG AxMap.size g0 [2, 3, 1] [2, 0, 4]).toBool = true ∧ (randomFlipG AxMap.size g0 [2, 0] [1, 0]).toBool = true ∧
    randomAxesOk [2, 0] = true ∧ isRearrangement [2, 0] [0, 2] = true ∧ randomPermuteList [2, 0] [2, 0] = .ok [2, 1, 0] := by
  decide +kernel

end HdVerif.C08
