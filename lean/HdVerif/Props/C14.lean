import HdVerif.Proofs.SRContentSeq
import HdVerif.Proofs.SRSeqHeap
import HdVerif.Proofs.SRSeqTie
import HdVerif.Proofs.SRSeqSpec
import HdVerif.Proofs.SRSeqPool
import HdVerif.Generated.T14s
/-! # C14  A content sequence and its name index never disagree

Property theorems only.  They are about the executable model `Model/SRContentSeq.lean` of
`highdicom.sr.value_types.ContentSequence` (as repaired by the `fix:` commits listed in
`findings/C14.json`); the correspondence check runs that model and the class on the same histories and
compares list, every `find`, `index`, `in` and `get_nodes` after every step.  The relationship-type decision
trees of `__init__`, `append`, `insert` and `__setitem__` inside the model are the definitions REGENERATED from
the current source (`HdVerif.Gen.csCtorFlags/csCtorCheck/csAppendCheck/csInsertCheck/csSetitemCheck`, tie T), so
the enforcement theorems below are re-checked against what the code says now.

`Reachable s`: `s` is the state after ANY construction (constructor, `from_sequence`, the
`ContentSequence` attribute setter) of a root, non-root SR or non-SR sequence followed by ANY finite
history over append, extend, `+=`, insert (any position), item/slice assignment, item/slice deletion,
pop, remove, reverse, clear, and continuing on the result of `find`/`get_nodes`; refused operations
are part of the history (with the partial effect `extend` leaves). -/
namespace HdVerif.C14
open HdVerif HdVerif.SRContentSeq HdVerif.SRContentSeqLemmas

/-- **Refinement invariant, all histories**: every bucket of the name index is a permutation of the
items of that name currently in the list (membership and multiplicity; `insert` and assignment append
to the bucket whatever the position, so the order inside a bucket is not the list order). -/
theorem index_refines_list {s : Seq} (h : Reachable s) (n : Nat) :
    (s.lut n).Perm (s.items.filter (fun it => it.name == n)) :=
  h.wf.inv n

/-- The same in the form "construct, then run a history". -/
theorem index_refines_list_after_history (items : List Item) (isRoot isSr : Bool) (s0 : Seq) (ops : List Op)
    (hc : construct items isRoot isSr = .ok s0) (n : Nat) :
    ((run s0 ops).lut n).Perm ((run s0 ops).items.filter (fun it => it.name == n)) :=
  index_refines_list ((Reachable.ctor hc).run ops) n

/-- **find is exact**: on every reachable sequence `find(name)` succeeds and returns exactly the items — the very
objects (`Item` equality is identity, `obj` included) — currently in the sequence with that name …
"Name" is the DICT KEY of the concept name (hash + `==`).  FULL STATEMENT of the property (names compared with `==`):
`∀ n, find s n ~ s.items.filter (nameEq ·.name n)` — it holds iff `==` names have one key
(`find_exact_for_equal_names_partial`), which `CodedConcept.__hash__` violates for the SRT / SCT alias pairs: open
finding C14-alias-names-split-index, `counterexample_alias_names`. -/
theorem find_exact {s : Seq} (h : Reachable s) (n : Nat) :
    ∃ r, find s n = .ok r ∧ r.items.Perm (s.items.filter (fun it => it.name == n)) := by
  obtain ⟨r, h1, _, h3, _⟩ := find_spec h.wf n
  exact ⟨r, h1, h3⟩

/-- … **once each**: every item occurs in the result as often as it occurs in the sequence if it has the
name, and not at all otherwise (no stale, no duplicated, no missing entry). -/
theorem find_once_each {s : Seq} (h : Reachable s) (n : Nat) :
    ∃ r, find s n = .ok r ∧ ∀ x : Item, r.items.count x = if x.name = n then s.items.count x else 0 := by
  obtain ⟨r, h1, h2⟩ := find_exact h n
  refine ⟨r, h1, fun x => ?_⟩
  rw [h2.count_eq x]
  by_cases hx : x.name = n
  · rw [if_pos hx, List.count_filter (by simpa using hx)]
  · rw [if_neg hx]
    exact List.count_eq_zero.mpr (fun hm => hx (by simpa using (List.mem_filter.mp hm).2))

/-- PARTIAL (open finding C14-alias-names-split-index): with `nameEq` the `==` of concept names on dict keys, `find`
returns exactly the items whose name is `==` the query PROVIDED `==` names have the same key (hash consistent with
equality — property C17). -/
theorem find_exact_for_equal_names_partial {s : Seq} (h : Reachable s) (nameEq : Nat → Nat → Bool)
    (hrefl : ∀ a, nameEq a a = true) (hkey : ∀ a b, nameEq a b = true → a = b) (n : Nat) :
    ∃ r, find s n = .ok r ∧ r.items.Perm (s.items.filter (fun it => nameEq it.name n)) := by
  obtain ⟨r, h1, h2⟩ := find_exact h n
  refine ⟨r, h1, ?_⟩
  have : (fun it : Item => nameEq it.name n) = (fun it => it.name == n) := by
    funext it
    by_cases e : it.name = n
    · subst e; simp [hrefl]
    · have : nameEq it.name n = false := by
        cases hh : nameEq it.name n
        · rfl
        · exact absurd (hkey _ _ hh) e
      simp [this, e]
  rw [this]; exact h2

/-- COUNTEREXAMPLE (the witness of the open finding): keys 5 and 6 are `==` names (SRT T-B7000 / SCT 111002); a sequence
holding one item under each; `find 5` returns one item although two items have a name `==` the query. -/
theorem counterexample_alias_names :
    let a : Item := { name := 5, rel := some 0, isContainer := false, hasContent := false, uid := 1, obj := 1 }
    let b : Item := { name := 6, rel := some 0, isContainer := false, hasContent := false, uid := 2, obj := 2 }
    let nameEq : Nat → Nat → Bool := fun x y => x == y || (x == 5 && y == 6) || (x == 6 && y == 5)
    ∃ s r, construct [a, b] false true = .ok s ∧ find s 5 = .ok r ∧ r.items.length = 1 ∧
      ([a, b].filter (fun it => nameEq it.name 5)).length = 2 := by
  refine ⟨_, _, rfl, rfl, ?_, ?_⟩ <;> decide

/-- The result of `find` is itself a consistent sequence with the same flags (one can go on with it). -/
theorem find_result_consistent {s : Seq} (h : Reachable s) (n : Nat) :
    ∃ r, find s n = .ok r ∧ Reachable r ∧ r.isRoot = s.isRoot ∧ r.isSr = s.isSr := by
  obtain ⟨r, h1, _, _, _, h5⟩ := find_spec h.wf n
  refine ⟨r, h1, ?_, h5.1, h5.2⟩
  have := Reachable.step (.intoFind n) h
  simpa [step, h1, intoRes] using this

/-- **index agrees with the list**: the first position whose item is `==` x (`Item.eqv` = `Dataset.__eq__`, the
comparison `list.index` makes; an equal copy counts), ValueError iff no item of the list is `==` x. -/
theorem index_agrees {s : Seq} (h : Reachable s) (x : Item) :
    index s x = if s.items.any (fun y => y.eqv x) then .ok (s.items.findIdx (fun y => y.eqv x)) else .error .value :=
  index_spec h.wf.inv x

/-- **`in` agrees with the list**. -/
theorem contains_agrees {s : Seq} (h : Reachable s) (x : Item) : contains s x = s.items.any (fun y => y.eqv x) :=
  contains_spec h.wf.inv x

/-- **get_nodes** returns the items with content, in list order, on every kind of sequence. -/
theorem get_nodes_spec {s : Seq} (h : Reachable s) :
    ∃ r, getNodes s = .ok r ∧ r.items = s.items.filter (·.hasContent) ∧ Reachable r := by
  obtain ⟨r, h1, h2, _, _⟩ := getNodes_spec h.wf
  refine ⟨r, h1, h2, ?_⟩
  have := Reachable.step .intoNodes h
  simpa [step, h1, intoRes] using this

/-- **Relationship-type rule on every path**: whatever the history, every item of a root sequence has no
relationship type and every item of a non-root SR sequence has one. -/
theorem relationship_rule_every_path {s : Seq} (h : Reachable s) (it : Item) (hit : it ∈ s.items) :
    (s.isRoot = true → it.rel = none) ∧ (s.isRoot = false → s.isSr = true → it.rel ≠ none) := by
  have := h.wf.rule it hit
  unfold relOk at this
  cases hr : s.isRoot <;> simp_all

/-! Enforcement path by path: an offered item that breaks the rule is refused and nothing changes
(`extend` / `+=` keep the items before the offending one); an item that obeys it is accepted. -/

theorem constructor_refuses (items : List Item) (isRoot isSr : Bool) (h : ∃ it ∈ items, ¬ relOk isRoot isSr it) :
    ∃ e, construct items isRoot isSr = .error e ∧ ∃ e', fromSequence items isRoot isSr = .error e' := by
  obtain ⟨e, he⟩ := construct_refuses h
  refine ⟨e, he, ?_⟩
  unfold fromSequence
  split
  · exact ⟨_, rfl⟩
  · exact ⟨e, he⟩

/-- The constructor accepts exactly: flags consistent (root ⇒ SR) and every item a container without
relationship type (root) / with a relationship type (non-root SR) / without one (non-SR) — stated over the
decision tree regenerated from `ContentSequence.__init__`. -/
theorem constructor_accepts_iff (items : List Item) (isRoot isSr : Bool) :
    (∃ s, construct items isRoot isSr = .ok s) ↔
      ((isRoot = true → isSr = true) ∧ ∀ it ∈ items,
        (if isRoot then it.rel = none ∧ it.isContainer = true else if isSr then it.rel ≠ none else it.rel = none)) :=
  construct_iff items isRoot isSr

theorem append_enforces {s : Seq} (h : Reachable s) (it : Item) :
    (¬ relOk s.isRoot s.isSr it → append s it = (s, some .attribute)) ∧
    (relOk s.isRoot s.isSr it → (append s it).2 = none ∧ (append s it).1.items = s.items ++ [it]) := by
  refine ⟨append_refuses h.wf it, fun hr => ?_⟩
  rw [append_accepts h.wf it hr]; exact ⟨rfl, rfl⟩

theorem extend_enforces {s : Seq} (h : Reachable s) (pre : List Item) (bad : Item) (post : List Item)
    (hpre : ∀ x ∈ pre, relOk s.isRoot s.isSr x) (hbad : ¬ relOk s.isRoot s.isSr bad) :
    ∃ s', extend s (pre ++ bad :: post) = (s', some .attribute) ∧ s'.items = s.items ++ pre ∧
          step s (.iadd (pre ++ bad :: post)) = (s', some .attribute) := by
  obtain ⟨s', h1, h2⟩ := extend_refuses h.wf pre bad post hpre hbad
  exact ⟨s', h1, h2, h1⟩

theorem extend_accepts_valid {s : Seq} (h : Reachable s) (xs : List Item) (hr : ∀ x ∈ xs, relOk s.isRoot s.isSr x) :
    ∃ s', extend s xs = (s', none) ∧ s'.items = s.items ++ xs := by
  obtain ⟨s', h1, h2, _, _⟩ := extend_accepts h.wf xs hr
  exact ⟨s', h1, h2⟩

theorem insert_enforces (s : Seq) (pos : Int) (it : Item) :
    (¬ relOk s.isRoot s.isSr it → SRContentSeq.insert s pos it = (s, some .attribute)) ∧
    (relOk s.isRoot s.isSr it → (SRContentSeq.insert s pos it).2 = none ∧
      (SRContentSeq.insert s pos it).1.items
        = s.items.take (insertPos s.items.length pos) ++ it :: s.items.drop (insertPos s.items.length pos)) :=
  ⟨insert_refuses s pos it, insert_accepts s pos it⟩

theorem setitem_enforces {s : Seq} (h : Reachable s) (i : Int) (x : Item) :
    (¬ relOk s.isRoot s.isSr x → setItem s i x = (s, some .attribute)) ∧
    (relOk s.isRoot s.isSr x → ∀ k, normIdx s.items.length i = .ok k →
      ∃ s', setItem s i x = (s', none) ∧ s'.items = s.items.set k x) := by
  refine ⟨setItem_refuses h.wf i x, fun hr k hk => ?_⟩
  obtain ⟨s', h1, h2, _, _⟩ := setItem_accepts h.wf i x k hr hk
  exact ⟨s', h1, h2⟩

theorem setslice_enforces {s : Seq} (h : Reachable s) (a b c : Option Int) (xs : List Item) :
    ((∃ x ∈ xs, ¬ relOk s.isRoot s.isSr x) → ∃ e, setSlice s a b c xs = (s, some e)) ∧
    ((∀ x ∈ xs, relOk s.isRoot s.isSr x) → ∀ sel items', resolveSlice s.items.length a b c = .ok sel →
      setSel s.items xs sel = .ok items' → ∃ s', setSlice s a b c xs = (s', none) ∧ s'.items = items') := by
  refine ⟨setSlice_refuses h.wf a b c xs, fun hr sel items' hsel hset => ?_⟩
  obtain ⟨s', h1, h2, _, _⟩ := setSlice_accepts h.wf a b c xs sel items' hr hsel hset
  exact ⟨s', h1, h2⟩

/-- **Extended-slice assignment is all or nothing**: on a reachable sequence `seq[a:b:c] = xs` with a step other
than 1 and conforming items is accepted iff `xs` has as many items as the slice has positions (ValueError and no
change otherwise); the sequence keeps its length.  (The model's defensive branch "walk did not use up its values"
is dead.) -/
theorem setslice_extended {s : Seq} (h : Reachable s) (a b c : Option Int) (xs : List Item) (asc : List Nat) (rev : Bool)
    (hsel : resolveSlice s.items.length a b c = .ok (.ext asc rev)) (hr : ∀ x ∈ xs, relOk s.isRoot s.isSr x) :
    (xs.length = asc.length → ∃ s', setSlice s a b c xs = (s', none) ∧ s'.items.length = s.items.length) ∧
    (xs.length ≠ asc.length → setSlice s a b c xs = (s, some .value)) := by
  constructor
  · intro hlen
    obtain ⟨l', hl'⟩ := setSel_ext_ok hsel hlen
    obtain ⟨s', h1, h2, _, _⟩ := setSlice_accepts h.wf a b c xs _ l' hr hsel hl'
    refine ⟨s', h1, ?_⟩
    have p1 := (setSel_perm s.items xs _ l' hl').length_eq
    have p2 := (getSel_delSel_perm s.items (.ext asc rev) (resolveSlice_plain hsel)).length_eq
    rw [h2, p1, p2]
    simp only [List.length_append, getSel_ext_length hsel]
    omega
  · intro hlen
    unfold setSlice
    simp only [checkAll_ok.mpr (fun x hx => (setitemCheck_ok_iff h.wf.flags x).mpr (hr x hx)), hsel,
      setSel_ext_mismatch hlen]

/-- **Deletion never meets a stale index**: on a reachable sequence `del seq[i]` with a valid index and
`del seq[slice]` with a valid slice succeed (the bucket look-up cannot raise) and delete exactly those
positions. -/
theorem delitem_effect {s : Seq} (h : Reachable s) (i : Int) (k : Nat) (hk : normIdx s.items.length i = .ok k) :
    ∃ s', delItem s i = (s', none) ∧ s'.items = s.items.take k ++ s.items.drop (k + 1) := by
  obtain ⟨s', h1, h2, _, _⟩ := delItem_accepts h.wf i k hk
  exact ⟨s', h1, h2⟩

theorem delslice_effect {s : Seq} (h : Reachable s) (a b c : Option Int) (sel : Sel)
    (hsel : resolveSlice s.items.length a b c = .ok sel) :
    ∃ s', delSlice s a b c = (s', none) ∧ s'.items = delSel s.items sel := by
  obtain ⟨s', h1, h2, _, _⟩ := delSlice_accepts h.wf a b c sel hsel
  exact ⟨s', h1, h2⟩

/-- **The inherited mixins do what their names say** on every reachable sequence, through the repaired primitives:
`reverse()` reverses the list, `clear()` empties it, `remove(x)` deletes the first item that is `==` x; each leaves a
reachable (index-consistent) sequence. -/
theorem mixins_functional {s : Seq} (h : Reachable s) :
    (∃ s', reverse s = (s', none) ∧ s'.items = s.items.reverse) ∧
    (∃ s', clear s = (s', none) ∧ s'.items = []) ∧
    (∀ x, s.items.any (fun y => y.eqv x) = true → ∃ s', remove s x = (s', none) ∧
      s'.items = s.items.take (s.items.findIdx (fun y => y.eqv x)) ++ s.items.drop (s.items.findIdx (fun y => y.eqv x) + 1)) := by
  refine ⟨?_, ?_, ?_⟩
  · obtain ⟨s', h1, h2, _⟩ := reverse_spec h.wf; exact ⟨s', h1, h2⟩
  · obtain ⟨s', h1, h2, _⟩ := clear_spec h.wf; exact ⟨s', h1, h2⟩
  · intro x hx; obtain ⟨s', h1, h2, _⟩ := remove_spec h.wf x hx; exact ⟨s', h1, h2⟩

/-! ## The model is what the current source says (tie T for index maintenance and queries)

`Gen.csProg_*` (`Generated/T14p.lean`) are the bodies of the methods of the CURRENT `ContentSequence`, mapped
statement by statement into the language of `Model/SRSeqIR.lean` (which container, which operation, under which
key, in which order, behind which checks); `run…` / `execCollect` / `execIndex` interpret that language.  The
hand-written operations all theorems above speak about are exactly these interpretations — so a change to how the
source maintains `_lut` or answers a query breaks one of the two theorems below (or the translation). -/

theorem mutators_are_regenerated_programs (s : Seq) :
    (∀ items r sr, construct items r sr = runInit items r sr) ∧
    (∀ x, append s x = runAppend [x] s) ∧
    (∀ xs, extend s xs = runExtend xs s) ∧
    (∀ xs, step s (.iadd xs) = runIadd xs s) ∧
    (∀ pos x, SRContentSeq.insert s pos x = runInsert pos [x] s) ∧
    (∀ x, insertBad s x = runInsertBad [x] s) ∧
    (∀ i x, setItem s i x = runSetitem (.int i) [x] s) ∧
    (∀ a b c xs, setSlice s a b c xs = runSetitem (.slice a b c) xs s) ∧
    (∀ i, delItem s i = runDelitem (.int i) s) ∧
    (∀ a b c, delSlice s a b c = runDelitem (.slice a b c) s) :=
  ⟨construct_is_program, append_is_program s, extend_is_program s, iadd_is_program s, insert_is_program s,
   insertBad_is_program s, setItem_is_program s, setSlice_is_program s, delItem_is_program s, delSlice_is_program s⟩

/-- **A refused `insert` leaves no trace**: with a position that is not an int (`insert(1.0, x)`) the regenerated
program — list call before index update — ends in TypeError (or the rule's AttributeError) with list AND index as
they were.  (With the index update first, as the code had it, `find` returned an item that is not in the list.) -/
theorem insert_with_bad_position_leaves_state (s : Seq) (x : Item) :
    (runInsertBad [x] s).1.items = s.items ∧ (runInsertBad [x] s).1.lut = s.lut ∧ (runInsertBad [x] s).2.isSome = true := by
  rw [← insertBad_is_program]
  unfold insertBad
  cases insertCheck s x <;> exact ⟨rfl, rfl, rfl⟩

/-- **The method set of the class is the modelled one**: every method `ContentSequence` defines itself (regenerated
list) is one the model has (a new override — `sort`, `pop`, `remove`, … — breaks this and must be modelled). -/
theorem method_set_pinned :
    Gen.csMethods = ["__contains__", "__delitem__", "__iadd__", "__init__", "__iter__", "__setitem__", "_check_dataset",
      "append", "extend", "find", "from_sequence", "get_nodes", "index", "insert", "is_root", "is_sr"] := by decide

theorem queries_are_regenerated_programs (s : Seq) :
    (∀ n, find s n = execCollect Gen.csProg_find s n) ∧
    (getNodes s = execCollect Gen.csProg_get_nodes s 0) ∧
    (∀ x, index s x = execIndex Gen.csProg_index s x) ∧
    Gen.csContainsViaIndex = true :=
  ⟨find_is_program s, getNodes_is_program s, index_is_program s, contains_is_program⟩

/-! ## Several sequences alive at once: no operation on one changes what another answers

`Model/SRSeqHeap.lean` keeps the per-name lists of the index in a store (`heap : Loc → List Item`; a sequence holds
`name ↦ Option Loc`) and re-interprets the regenerated method programs there: appends and deletions happen IN
PLACE at the sequence's location for the name, a new name allocates a fresh list.  Sharing of a list between two
sequences is expressible in that model (`hShareFrom`, what `self._lut.update(other._lut)` would do). -/
section Pool
open HdVerif.SRSeqHeap HdVerif.SRSeqHeapLemmas

/-- **The store interpretation of the regenerated programs is the model**: run over the store, every operation
shows — through `abs` — exactly the state and the refusal the functional model computes; and it writes only to
locations the sequence owns or to fresh ones (`Good`). -/
theorem store_interpretation_refines_model (σ : Store) (q : HSeq) (hw : Wf σ q) (op : HOp) :
    SRSeqHeap.abs (hStep σ q op).1.1 (hStep σ q op).1.2 = (step (SRSeqHeap.abs σ q) op.toOp).1 ∧
    (hStep σ q op).2 = (step (SRSeqHeap.abs σ q) op.toOp).2 ∧
    Good σ q (hStep σ q op).1.1 (hStep σ q op).1.2 :=
  hStep_refines σ q hw op

/-- **Non-interference**: in a pool of sequences that share no list, any of the eight primitive operations
(`HOp`: append, extend, +=, insert, item / slice assignment, item / slice deletion; the mixins pop / remove / reverse /
clear are compositions of these) on member `i` (accepted or refused) leaves every other member's functional view — its list AND its index, hence every `find`, `index`, `in`,
`get_nodes` — exactly as it was, and the pool still shares nothing. -/
theorem non_interference (σ : Store) (pool : List HSeq) (hp : PoolWf σ pool) (i : Nat) (q : HSeq)
    (hi : pool[i]? = some q) (op : HOp) :
    PoolWf (hStep σ q op).1.1 (pool.set i (hStep σ q op).1.2) ∧
    ∀ j p, j ≠ i → pool[j]? = some p →
      SRSeqHeap.abs (hStep σ q op).1.1 p = SRSeqHeap.abs σ p ∧
      (∀ n, find (SRSeqHeap.abs (hStep σ q op).1.1 p) n = find (SRSeqHeap.abs σ p) n) ∧
      (∀ x, index (SRSeqHeap.abs (hStep σ q op).1.1 p) x = index (SRSeqHeap.abs σ p) x) := by
  have hw : Wf σ q := hp.wf q (List.mem_of_getElem? hi)
  obtain ⟨_, _, g⟩ := hStep_refines σ q hw op
  obtain ⟨h1, h2⟩ := pool_step hp hi g
  refine ⟨h1, fun j p hj hpj => ?_⟩
  have e := h2 j p hj hpj
  exact ⟨e, fun n => by rw [e], fun x => by rw [e]⟩

/-- **A sequence constructed from another one shares nothing with it**: the regenerated constructor, run over the
store on the items of a pool member (`ContentSequence(seq, …)`, `item.ContentSequence = seq`), yields — when it
accepts — the sequence the functional constructor yields, with all its lists fresh: the pool plus the new
sequence still shares nothing and no old member changed. -/
theorem construction_from_a_sequence_is_independent (σ : Store) (pool : List HSeq) (hp : PoolWf σ pool) (p : HSeq)
    (isRoot isSr : Bool) (s : Seq) (hc : construct p.items isRoot isSr = .ok s) :
    ∃ σ' q', hRunInit p.items isRoot isSr σ = .ok (σ', q') ∧ SRSeqHeap.abs σ' q' = s ∧
      PoolWf σ' (pool ++ [q']) ∧ ∀ m ∈ pool, SRSeqHeap.abs σ' m = SRSeqHeap.abs σ m := by
  rw [construct_is_program] at hc
  obtain ⟨σ', q', h1, h2, g⟩ := (hRunInit_refines p.items isRoot isSr σ).2 s hc
  obtain ⟨h3, h4⟩ := pool_add hp g
  exact ⟨σ', q', h1, h2, h3, h4⟩

private def ia : Item := { name := 0, rel := some 0, isContainer := false, hasContent := false, uid := 1, obj := 1 }
private def ib : Item := { name := 0, rel := some 0, isContainer := false, hasContent := false, uid := 2, obj := 2 }
private def σ0 : Store := { heap := fun k => if k = 0 then [ia] else [], next := 1 }
private def q1 : HSeq := { items := [ia], lut := fun n => if n = 0 then some 0 else none, isRoot := false, isSr := true }

/-- **Sharing is expressible and is what breaks it**: let a second sequence take the dict entries of `q1` over
(`hCloneShared`) and append a namesake to the SECOND sequence with the regenerated `append` program — then the
FIRST sequence's index holds an item that is not in its list (its `find` returns it, its invariant is gone). -/
theorem sharing_breaks_non_interference :
    let r := hRunAppend [ib] σ0 (hCloneShared q1)
    ((SRSeqHeap.abs r.1.1 q1).lut 0).map (·.uid) = [1, 2] ∧ (SRSeqHeap.abs r.1.1 q1).items.map (·.uid) = [1] ∧
    ((SRSeqHeap.abs σ0 q1).lut 0).map (·.uid) = [1] := by
  decide

end Pool

/-! ## Bridges: hand-written parts of the model use the expressions of the current source (`Generated/T14v.lean`) -/

/-- **`from_sequence` tie**: the model's dataset check is the regenerated relationship guard of `_check_dataset`, and
`fromSequence` hands the flags to it and to the constructor as the current `from_sequence` does -/
theorem tie_from_sequence_guard_and_flags :
    (∀ (isRoot isSr : Bool) (x : Item),
      datasetCheck isRoot isSr x = unitOf (Gen.csCheckDatasetRel x.rel.isSome isRoot isSr)) ∧
    (∀ (items : List Item) (isRoot isSr : Bool),
      fromSequence items isRoot isSr = SRSeqTie.fromSequenceGen items isRoot isSr) :=
  ⟨SRSeqTie.datasetCheck_eq_gen, SRSeqTie.fromSequence_eq_gen⟩

/-- **attribute-setter tie**: `item.ContentSequence = seq` builds a sequence with the flags regenerated from the call in
`ContentItem.__setattr__` and the defaults of `ContentSequence.__init__` -/
theorem tie_attribute_setter_flags (pool : List Seq) (i : Nat) :
    poolStep pool (.attach i) =
      (match pool[i % pool.length]? with
       | none => (pool, some .index)
       | some s => match construct s.items Gen.csAttachFlags.1 Gen.csAttachFlags.2 with
         | .ok q => (poolPut pool q, none)
         | .error e => (pool, some e)) :=
  SRSeqTie.attach_flags pool i

/-- **index-removal tie**: every removal loop of the class (regenerated list of methods) locates the entry of the
name index the way the model's `lutRemove` does -/
theorem tie_index_removal_by_identity (lut : Lut) (x : Item) :
    ∀ p ∈ Gen.csRemoveByIdentity, lutRemove lut x = SRSeqTie.lutRemoveGen p.2 lut x :=
  SRSeqTie.lutRemove_eq_gen lut x

/-! ## Refinement: the sequence IS a list, its name index is derived (round 2)

`Model/SRSeqSpec.lean` is the property's own reading of a content sequence: a plain list under the relationship-type
rule, no shadow state; `specFn` gives the list effect and the refusal of every operation, `derivedIndex l n` the items
of a name.  The model of the class — whose index maintenance is the program regenerated from the current source
(`mutators_are_regenerated_programs`) — refines it: step by step, for whole histories, refused operations and the
partial effect of `extend` included.  Induction over arbitrary operation sequences; no bounds. -/
section Refinement
open HdVerif.SRSeqSpec HdVerif.SRSeqSpecLemmas

/-- **One operation = one step of the list machine** (accepted or refused), the flags stay, and afterwards the index is
again the index derived from the list. -/
theorem refines_list_machine {s : Seq} (h : Reachable s) (op : Op) :
    SpecStep s.isRoot s.isSr s.items op (step s op).1.items (step s op).2 ∧
    (step s op).1.isRoot = s.isRoot ∧ (step s op).1.isSr = s.isSr ∧
    ∀ n, ((step s op).1.lut n).Perm (derivedIndex (step s op).1.items n) :=
  ⟨step_refines h.wf op, (step_wf h.wf op).2.1, (step_wf h.wf op).2.2, fun n => (step_wf h.wf op).1.inv n⟩

/-- **Whole histories**: after ANY finite history (every operation kind, refused ones included) the list is one the
list machine reaches by the same history, and the index is the one derived from that list. -/
theorem history_refines_list_machine {s : Seq} (h : Reachable s) (ops : List Op) :
    SpecRun s.isRoot s.isSr s.items ops (run s ops).items ∧
    ∀ n, ((run s ops).lut n).Perm (derivedIndex (run s ops).items n) :=
  ⟨run_refines h.wf ops, fun n => (run_wf h.wf ops).1.inv n⟩

/-- **Every query is a function of the list alone** on every reachable sequence: `index`, `in`, `get_nodes` exactly,
`find` up to the order of the items (the property fixes membership and multiplicity). -/
theorem queries_are_functions_of_the_list {s : Seq} (h : Reachable s) :
    (∀ x, index s x = specIndex s.items x) ∧ (∀ x, contains s x = specContains s.items x) ∧
    (∃ r, getNodes s = .ok r ∧ r.items = specNodes s.items) ∧
    (∀ n, ∃ r, find s n = .ok r ∧ r.items.Perm (derivedIndex s.items n)) := by
  refine ⟨fun x => index_spec h.wf.inv x, fun x => contains_spec h.wf.inv x, ?_, fun n => find_exact h n⟩
  obtain ⟨r, h1, h2, _⟩ := getNodes_spec h.wf
  exact ⟨r, h1, h2⟩

/-- **The index is unobservable state**: two reachable sequences holding the same list (whatever histories led there —
different bucket orders included) answer `index`, `in` and `get_nodes` identically and `find` with the same items. -/
theorem same_list_same_answers {s t : Seq} (hs : Reachable s) (ht : Reachable t) (h : s.items = t.items) :
    (∀ x, index s x = index t x) ∧ (∀ x, contains s x = contains t x) ∧
    (∀ n, ∃ r r', find s n = .ok r ∧ find t n = .ok r' ∧ r.items.Perm r'.items) ∧
    (∃ r r', getNodes s = .ok r ∧ getNodes t = .ok r' ∧ r.items = r'.items) := by
  obtain ⟨i1, c1, ⟨g1, hg1, hg1'⟩, f1⟩ := queries_are_functions_of_the_list hs
  obtain ⟨i2, c2, ⟨g2, hg2, hg2'⟩, f2⟩ := queries_are_functions_of_the_list ht
  refine ⟨fun x => by rw [i1, i2, h], fun x => by rw [c1, c2, h], fun n => ?_, ⟨g1, g2, hg1, hg2, by rw [hg1', hg2', h]⟩⟩
  obtain ⟨r, hr, pr⟩ := f1 n
  obtain ⟨r', hr', pr'⟩ := f2 n
  exact ⟨r, r', hr, hr', pr.trans (by rw [h]; exact pr'.symm)⟩

/-- **No partial update**: an operation that is refused — rule broken, index out of range, slice and values of
different length, step 0, absent item, not a content item, position not an int — leaves list AND index exactly as
they were; only the `extend` family keeps what it appended before the offender (`extend_enforces`). -/
theorem refused_operation_leaves_no_trace {s : Seq} (h : Reachable s) (op : Op) (hop : partialOk op = false)
    (he : (step s op).2 ≠ none) : (step s op).1 = s :=
  refused_leaves_state h.wf op hop he

/-- **What is not a content item never enters**: the `isinstance` arm of the four REGENERATED decision trees is a
TypeError whatever the flags, and the model's operations `append` / `insert` / item and slice assignment / `extend` / `+=`
with such an argument change nothing (`extend` / `+=` keep the content items offered before it).  A plain `Dataset` that
merely looks like a content item is such an argument.  For the CONSTRUCTOR the fourth clause is only what its tree says
once reached: the regenerated program fills the index (`self._lut[i.name]`) BEFORE the checks, so a plain `Dataset` is
refused there with AttributeError — `constructor_refuses_non_items`; refusal is the claim, the harness compares
ok-vs-refused only. -/
theorem non_items_are_refused (s : Seq) (b : Bool) :
    otherRefusal (Gen.csAppendCheck s.isRoot s.isSr false b) = some .type ∧
    otherRefusal (Gen.csInsertCheck s.isRoot s.isSr false b) = some .type ∧
    otherRefusal (Gen.csSetitemCheck s.isRoot s.isSr false b) = some .type ∧
    (∀ c, Gen.csCtorCheck s.isRoot s.isSr false b c = .error .type) ∧
    step s .appendOther = (s, some .type) ∧ step s .insertOther = (s, some .type) ∧
    (∀ pre, (step s (.setOther pre)).1 = s ∧ (step s (.setOther pre)).2.isSome = true) ∧
    (∀ pre, (step s (.extendOther pre)).1 = (extend s pre).1 ∧ (step s (.extendOther pre)).2.isSome = true) := by
  obtain ⟨h1, h2, h3, h4⟩ := other_refused s.isRoot s.isSr b
  refine ⟨h1, h2, h3, h4, ?_, ?_, fun pre => ?_, fun pre => ?_⟩
  · simp only [step, appendOther, (other_refused s.isRoot s.isSr false).1]
  · simp only [step, insertOther, (other_refused s.isRoot s.isSr false).2.1]
  · simp only [step, setOther]
    cases checkAll (setitemCheck s) pre
    · exact ⟨rfl, rfl⟩
    · exact ⟨rfl, by simp [(other_refused s.isRoot s.isSr false).2.2.1]⟩
  · simp only [step, extendOther]
    cases hs : extend s pre with
    | mk s1 e =>
      cases e with
      | none => exact ⟨rfl, by simp [appendOther, (other_refused s1.isRoot s1.isSr false).1]⟩
      | some e => exact ⟨rfl, rfl⟩

/-- **The constructor refuses what is not a content item** — at the first statement of its regenerated program that
touches the single items: with the current source that is the index fill (AttributeError for a plain `Dataset`, which has
no `name`), not the `isinstance` check (TypeError) that follows it; no sequence exists afterwards.  (A source that checks
first turns this into `.type` and breaks the theorem: the refusal kind follows the statement order of the source.) -/
theorem constructor_refuses_non_items :
    ctorOtherRefusal Gen.csProg_init = some .attribute ∧ constructOther = .error .attribute ∧
    (∀ r sr b c, Gen.csCtorCheck r sr false b c = .error .type) := by
  refine ⟨by decide, rfl, fun r sr b c => ?_⟩
  cases r <;> cases sr <;> cases b <;> cases c <;> rfl

end Refinement

/-! ## Copies: `copy.copy`, `copy.deepcopy`, pickling (round 2)

`Model/SRSeqPool.lean`: the sequences that exist (slots) and the names a history uses for them (members).  The class
defines no copy hooks (`method_set_pinned`), so a shallow copy is a second name for the same list and index, a deep
copy / pickle round trip an equal sequence of new objects.  Tie: pool histories of the correspondence (CPython's copy
protocol is not /repo code). -/
section Copies
open HdVerif.SRSeqPool HdVerif.SRSeqPoolLemmas

/-- **Every sequence of every pool history is consistent**: start from any reachable sequence, run ANY history of
operations on any member, `clone`, `attach`, `copy.copy`, `copy.deepcopy` / pickling — every sequence behind every
name is a reachable one, so all theorems above hold of it at every moment. -/
theorem pool_history_every_member_consistent {s0 : Seq} (h : Reachable s0) (ops : List APoolOp) :
    ∀ s ∈ view (apoolRun (start s0) ops), Reachable s ∧ ∀ n, (s.lut n).Perm (s.items.filter (fun it => it.name == n)) :=
  fun s hs =>
    have hr := (apoolRun_ok (ok_start h) ops).1 s (mem_view hs)
    ⟨hr, fun n => index_refines_list hr n⟩

/-- **A shallow copy is a second name for the same sequence**: `copy.copy` adds a name for the slot and no sequence;
an operation through either name (one that does not hand back a new object) lands on the one slot — whoever points
at it sees the new list and index — and on no other. -/
theorem shallow_copy_is_a_second_name {p : APool} {a k : Nat} {s : Seq} (ha : slotOf p a = some k)
    (hs : p.slots[k]? = some s) :
    (apoolStep p (.copy a)).1.slots = p.slots ∧ (apoolStep p (.copy a)).1.members = putMember p.members k ∧
    ∀ op, rebinds op = false →
      (apoolStep p (.base (.on a op))).1.members = p.members ∧
      (apoolStep p (.base (.on a op))).1.slots[k]? = some (step s op).1 ∧
      (apoolStep p (.base (.on a op))).2 = (step s op).2 ∧
      ∀ j, j ≠ k → (apoolStep p (.base (.on a op))).1.slots[j]? = p.slots[j]? := by
  refine ⟨?_, ?_, fun op hop => on_member_updates_slot op ha hs hop⟩ <;> simp only [apoolStep, ha]

/-- **A deep copy (or pickle round trip) answers like the original and is made of its copies**: same flags, the list
and every `find` / `get_nodes` result are the copies in the same order, `index` and `in` (which compare with `==`)
are unchanged; it lives in a slot of its own, so by `shallow_copy_is_a_second_name` (last clause) no operation on
another sequence reaches it. -/
theorem deep_copy_answers_like_the_original {s : Seq} (h : Reachable s) (f : Nat → Nat) :
    Reachable (relabel f s) ∧ (relabel f s).isRoot = s.isRoot ∧ (relabel f s).isSr = s.isSr ∧
    (relabel f s).items = s.items.map (relabelItem f) ∧
    (∀ x, index (relabel f s) x = index s x) ∧ (∀ x, contains (relabel f s) x = contains s x) ∧
    (∀ n, ∃ r r', find s n = .ok r ∧ find (relabel f s) n = .ok r' ∧ r'.items = r.items.map (relabelItem f)) ∧
    (∃ r r', getNodes s = .ok r ∧ getNodes (relabel f s) = .ok r' ∧ r'.items = r.items.map (relabelItem f)) :=
  ⟨Reachable.copied f h, rfl, rfl, rfl, index_relabel f s, contains_relabel f s, find_relabel h.wf f,
   getNodes_relabel h.wf f⟩

/-- **An item owns the content assigned to it** (`item.ContentSequence = seq`, pool step `attach`; what seeded change
R6C13-1 broke by storing `seq` itself): the stored sequence is a NEW one (a new slot, built by the regenerated constructor
call — `tie_attribute_setter_flags`, `Gen.csAttachRebuilds` of T14v) holding the same items, so a later operation through
any name the caller kept for `seq` (accepted or refused, any kind that works in place) leaves the item's content — list
and index — exactly as assigned. -/
theorem attached_content_is_owned {p : APool} {a k : Nat} {s q : Seq} (ha : slotOf p a = some k)
    (hs : p.slots[k]? = some s) (hq : derive s (.attach 0) = .ok q) :
    (apoolStep p (.base (.attach a))).1.slots = p.slots ++ [q] ∧ q.items = s.items ∧
    ∀ b op, slotOf (apoolStep p (.base (.attach a))).1 b = some k → rebinds op = false →
      (apoolStep (apoolStep p (.base (.attach a))).1 (.base (.on b op))).1.slots[p.slots.length]? = some q := by
  have hlt : k < p.slots.length := (List.getElem?_eq_some_iff.mp hs).1
  have e : (apoolStep p (.base (.attach a))).1.slots = p.slots ++ [q] := by
    simp only [apoolStep, ha, hs, hq]
  refine ⟨e, (construct_ok (derive_attach hq)).1, fun b op hb hop => ?_⟩
  have hs1 : (apoolStep p (.base (.attach a))).1.slots[k]? = some s := by
    rw [e, List.getElem?_append_left hlt]; exact hs
  have h4 := (on_member_updates_slot op hb hs1 hop).2.2.2 p.slots.length (by omega)
  rw [h4, e]
  simp

end Copies

/-- **The state of the object is the modelled one** (regenerated, target T14s): the methods of the class assign exactly
`_is_root`, `_is_sr`, `_lut` on `self` (next to the list of the pydicom base class — the four fields of the model's `Seq`;
a cache or a second index would be a fifth), `is_root` / `is_sr` hand out those two attributes, the class has the one
base class, binds nothing in its body other than by `def`, its one override that is not a T14p program — `__iter__` — is
exactly `return super().__iter__()`, and it defines none of the hooks that would change what
`copy.copy` / `copy.deepcopy` / pickling do (`Model/SRSeqPool.lean` reads them as CPython's defaults) nor any of the
inherited list methods the model takes from `collections.abc.MutableSequence` / pydicom as they are. -/
theorem object_state_pinned :
    Gen.csInstanceAttrs = ["_is_root", "_is_sr", "_lut"] ∧
    Gen.csFlagProps = [("is_root", "_is_root"), ("is_sr", "_is_sr")] ∧
    Gen.csBases = ["DataElementSequence"] ∧ Gen.csClassLevelNames = [] ∧ Gen.csIterDelegates = true ∧
    (∀ m ∈ ["__copy__", "__deepcopy__", "__reduce__", "__reduce_ex__", "__getstate__", "__setstate__", "__getnewargs__",
            "__new__", "__getattr__", "__getattribute__", "__setattr__",
            "__getitem__", "__len__", "__eq__", "__ne__", "__reversed__", "__add__", "__mul__", "__imul__",
            "pop", "remove", "reverse", "clear", "sort", "count", "copy", "_validate"], m ∉ Gen.csMethods) := by
  decide

/-! ## Non-vacuity: a concrete history with colliding names on a non-root SR sequence
(construct [a0, b1], insert c0 in front, extend [d1, e0], assign position 1, delete a slice, reverse). -/

private def it (n u : Nat) : Item := { name := n, rel := some 0, isContainer := false, hasContent := u % 2 == 0, uid := u, obj := u }
private def s0 : Seq := { items := [it 0 1, it 1 2], lut := lutAddAll emptyLut [it 0 1, it 1 2], isRoot := false, isSr := true }
private def hist : List Op :=
  [.insert 0 (it 0 3), .extend [it 1 4, it 0 5], .setItem 1 (it 1 6), .delSlice none none (some 2),
   .append { (it 0 7) with rel := none }, .reverse]

example : construct [it 0 1, it 1 2] false true = .ok s0 := rfl
example : Reachable (run s0 hist) := (Reachable.ctor (items := [it 0 1, it 1 2]) (r := false) (sr := true) rfl).run hist
example : (run s0 hist).items.map (·.uid) = [4, 6] := by decide
example : ((run s0 hist).lut 1).map (·.uid) = [4, 6] := by decide
example : (run s0 [.insert 0 (it 0 3), .extend [it 1 4, it 0 5]]).items.map (·.uid) = [3, 1, 2, 4, 5] := by decide
example : ((run s0 [.insert 0 (it 0 3), .extend [it 1 4, it 0 5]]).lut 0).map (·.uid) = [1, 3, 5] := by decide
example : index (run s0 [.insert 0 (it 0 3)]) (it 0 1) = .ok 1 := by decide
/-- the rule-breaking append in `hist` was refused -/
example : (step (run s0 (hist.take 4)) (.append { (it 0 7) with rel := none })).2 = some .attribute := by decide
/-- the bridges on concrete data: a non-root SR `from_sequence` refuses an item without relationship type and a
non-SR one takes it; a root sequence cannot be assigned to the attribute; of two equal items the second object is
the one removed from the index (removal by equality would take the first) -/
example : (SRSeqTie.fromSequenceGen [{ (it 0 7) with rel := none }] false true).toBool = false ∧
    (SRSeqTie.fromSequenceGen [{ (it 0 7) with rel := none }] false false).toBool = true := by decide
example : (poolStep [{ s0 with items := [{ (it 0 7) with rel := none }], isRoot := true }] (.attach 0)).2 = some .attribute := by
  decide
example : Gen.csRemoveByIdentity ≠ [] ∧
    (SRSeqTie.lutRemoveGen true (lutAddAll emptyLut [it 0 1, { (it 0 1) with obj := 9 }]) { (it 0 1) with obj := 9 }).toOption.map
      (fun l => (l 0).map (·.obj)) = some [1] ∧
    (SRSeqTie.lutRemoveGen false (lutAddAll emptyLut [it 0 1, { (it 0 1) with obj := 9 }]) { (it 0 1) with obj := 9 }).toOption.map
      (fun l => (l 0).map (·.obj)) = some [9] := by decide

/-! non-vacuity of the round-2 theorems -/
section Round2Examples
open HdVerif.SRSeqSpec HdVerif.SRSeqSpecLemmas HdVerif.SRSeqPool

/-- the list machine on the history above: same list, and it refuses the same append -/
example : specFn false true [it 0 1, it 1 2] (.insert 0 (it 0 3)) = some ([it 0 3, it 0 1, it 1 2], none) := by decide
example : specFn false true [it 0 1] (.extend [it 1 4, { (it 0 7) with rel := none }, it 0 5]) = some ([it 0 1, it 1 4], some .attribute) := by
  decide
example : (step s0 (.extend [it 1 4, { (it 0 7) with rel := none }, it 0 5])).1.items.map (·.uid) = [1, 2, 4] ∧
    (step s0 (.extend [it 1 4, { (it 0 7) with rel := none }, it 0 5])).2 = some .attribute := by decide
/-- refused without a trace: an out-of-range assignment, an extended slice of the wrong length, a non-item -/
example : (step s0 (.setItem 5 (it 0 9))).2 = some .index ∧ partialOk (.setItem 5 (it 0 9)) = false := by decide
example : (step s0 (.setSlice none none (some 2) [it 0 8, it 0 9])).2 = some .value := by decide
example : (step s0 (.setOther [it 0 8])).2 = some .type ∧ (step s0 (.extendOther [it 0 8])).1.items.map (·.uid) = [1, 2, 8] := by
  decide
/-- a pool history: a shallow copy sees the append made through the other name, the deep copy made before does not -/
example :
    let p := apoolRun (start s0) [.deepcopy 0, .copy 0, .base (.on 0 (.append (it 0 3)))]
    (view p).map (fun s => s.items.map (·.uid)) = [[1, 2, 3], [1, 2], [1, 2, 3]] ∧
    (view p).map (fun s => (s.lut 0).map (·.obj)) = [[1, 3], [2000001], [1, 3]] := by decide
/-- two histories to the same list with different bucket orders (append then insert in front / the other way round) -/
example : (run s0 [.append (it 0 3), .insert 0 (it 0 4)]).items = (run s0 [.insert 0 (it 0 4), .append (it 0 3)]).items ∧
    ((run s0 [.append (it 0 3), .insert 0 (it 0 4)]).lut 0).map (·.uid) = [1, 3, 4] ∧
    ((run s0 [.insert 0 (it 0 4), .append (it 0 3)]).lut 0).map (·.uid) = [1, 4, 3] := by decide
/-- the item owns what it was assigned: attach, then append through the caller's name -/
example :
    let p := apoolRun (start s0) [.base (.attach 0), .base (.on 0 (.append (it 0 3)))]
    (view p).map (fun s => s.items.map (·.uid)) = [[1, 2, 3], [1, 2]] := by decide
example : Reachable s0 := Reachable.ctor (items := [it 0 1, it 1 2]) (r := false) (sr := true) rfl

end Round2Examples

end HdVerif.C14
