import HdVerif.Proofs.SegGeom
import HdVerif.Proofs.SegGeomTie
import HdVerif.Proofs.SegFrameLoop
import HdVerif.Proofs.SegTileFrames
/-! # C03  Derived images sit where the user placed them in space

Property theorems only (helper lemmas: `Proofs/SegGeom.lean`; T3 lemmas of C04: `Proofs/TilingStd.lean`).
Model: `Model/SegGeom.lean` (hand-written, tie C) composed with the definitions *regenerated from /repo's
current source* `Gen.stdSliceIndices` (T2), `Gen.stdRowColIndices` (T3), `Gen.pyramidSpacing`,
`Gen.pyramidLevelSize` (TC03pyr), `Gen.stackGeomSlice`, `Gen.stackFrameSlot`, `Gen.stackInitialSlices`
(TC03stack: `_get_stacked_volume_geometry`), `Gen.{img,seg}TiledGeomLower`, `Gen.{img,seg}StackGeomSlice`,
`Gen.{img,seg}StackArraySlice` (TC03imgvol / TC03segvol: the slices `get_volume` takes of geometry and pixels;
`Kind` selects `Image.get_volume` or `Segmentation.get_volume`).  Geometry is exact over ℚ; a volume geometry is unit directions ×
spacings × position (`Geom`), `Admissible` = orthonormal directions (either handedness), positive spacings.

A stored stack is a list of frames; what this property speaks about is *where each frame goes*: `VolOut.frames`
lists (frame index, output slot), `VolOut.aff` is the affine of the returned volume.  Pixel content of a frame
is C01, choice of segments C02. -/
namespace HdVerif.C03
open HdVerif HdVerif.Gen HdVerif.SegGeom HdVerif.SegGeom.V3 HdVerif.SegGeomLemmas HdVerif.TilingLemmas
open HdVerif.SegFrameLoop HdVerif.SegFrameLoopLemmas HdVerif.SegTileFramesLemmas

/-! ## 1. Segmentation from a volume reads back where the input put it -/

/-- **Clause 1 (volume with any admissible affine, empty planes omitted or not).**  `ks` are the planes of the
input volume that are stored (any non-empty sub-list, any order, repetitions = several segments).  Reading the
default volume back succeeds; output slot `v` lies at the input's plane `src v = k₁ + h·v` (`h = +1`
right-handed: identity shifted to the first kept plane `k₁`; `h = −1` left-handed: mirror image, `k₁` the last
kept plane), for every row and column; every stored plane `k` is placed in slot `h·(k − k₁)`, i.e. at
`src⁻¹ k`; the volume spans exactly the kept planes. -/
theorem seg_volume_roundtrip {g : Geom} (hg : Admissible g) (ks : List Nat) (hks : ks ≠ []) (chans : List Nat)
    (hu : framesUnique .seg (withChan (storeStack g ks) chans) = true) (rows cols : Int)
    (hr : 1 ≤ rows) (hc : 1 ≤ cols) :
    ∃ k₁ ∈ ks, ∃ k₂ ∈ ks, ∃ out,
      getVolumeStack .seg (withChan (storeStack g ks) chans) rows cols true ({} : Request) = .ok out ∧
      (∀ k ∈ ks, 0 ≤ handInt g * ((k : Int) - k₁) ∧ handInt g * ((k : Int) - k₁) < out.n) ∧
      out.n = handInt g * ((k₂ : Int) - k₁) + 1 ∧ out.rows = rows ∧ out.cols = cols ∧
      (∀ v r c : Int, out.aff.apply v r c = g.aff.apply ((k₁ : Int) + handInt g * v) r c) ∧
      out.frames = ks.zipIdx.map (fun (p : Nat × Nat) => (p.2, handInt g * ((p.1 : Int) - k₁))) := by
  obtain ⟨k₁, hk₁, k₂, hk₂, hb, hok, _⟩ := roundtrip_store .seg hg ks hks chans hu rows cols
  have hN : 1 ≤ handInt g * ((k₂ : Int) - k₁) + 1 := by have := (hb k₂ hk₂).1; omega
  have h := hok ({} : Request) 0 _ 0 rows 0 cols (sliceSpec_default _ hN false) (sliceSpec_default rows hr false)
    (sliceSpec_default cols hc false)
  refine ⟨k₁, hk₁, k₂, hk₂, _, h, ?_, by simp, by simp, by simp, ?_, ?_⟩
  · intro k hk
    have := hb k hk
    simp only [sub_zero]
    omega
  · intro v r c
    simp only [aff_shift_zero]
    rw [lineAff_store_apply_int hg]
    have h2 := handInt_sq g
    have : handInt g * (handInt g * (k₁ : Int) + v) = (k₁ : Int) + handInt g * v := by
      have : handInt g * (handInt g * (k₁ : Int) + v) = (handInt g * handInt g) * k₁ + handInt g * v := by ring
      rw [this, h2]; ring
    rw [this]
  · simp only [sub_zero]
    rw [framePositions_all]
    · rw [List.zipIdx_map, List.map_map]
      apply List.map_congr_left
      intro p _
      rfl
    · intro v hv
      obtain ⟨k, hk, rfl⟩ := List.mem_map.mp hv
      have := hb k hk
      omega

/-- **Every stored plane keeps the physical position the input gave it**, whatever the handedness: frame `i`
(plane `ks[i]` of the input) is put into a slot of the returned volume whose voxels lie exactly where the
input volume has the voxels of plane `ks[i]`. -/
theorem stored_planes_keep_their_positions {g : Geom} (hg : Admissible g) (ks : List Nat) (hks : ks ≠ []) (chans : List Nat)
    (hu : framesUnique .seg (withChan (storeStack g ks) chans) = true)
    (rows cols : Int) (hr : 1 ≤ rows) (hc : 1 ≤ cols) :
    ∃ out, getVolumeStack .seg (withChan (storeStack g ks) chans) rows cols true ({} : Request) = .ok out ∧
      ∀ i (hi : i < ks.length), ∃ v, (i, v) ∈ out.frames ∧ 0 ≤ v ∧ v < out.n ∧
        ∀ r c : Int, out.aff.apply v r c = g.aff.apply (ks[i] : Int) r c := by
  obtain ⟨k₁, _, k₂, _, out, hout, hb, _, _, _, happ, hfr⟩ := seg_volume_roundtrip hg ks hks chans hu rows cols hr hc
  refine ⟨out, hout, ?_⟩
  intro i hi
  refine ⟨handInt g * ((ks[i] : Int) - k₁), ?_, (hb _ (List.getElem_mem hi)).1, (hb _ (List.getElem_mem hi)).2, ?_⟩
  · rw [hfr, List.mem_map]
    exact ⟨(ks[i], i), List.mem_zipIdx_iff_getElem?.mpr (by simp [hi]), rfl⟩
  · intro r c
    rw [happ]
    have h2 := handInt_sq g
    have : (k₁ : Int) + handInt g * (handInt g * ((ks[i] : Int) - k₁)) = (ks[i] : Int) := by
      have : (k₁ : Int) + handInt g * (handInt g * ((ks[i] : Int) - k₁))
          = (k₁ : Int) + (handInt g * handInt g) * ((ks[i] : Int) - k₁) := by ring
      rw [this, h2]; ring
    rw [this]

/-- **Right-handed input: same array and affine** (up to the trimmed empty end planes): slot `v` is the input's
plane `kmin + v`, `kmin` the first kept plane; if plane 0 is kept the affine is the input's affine itself. -/
theorem right_handed_reads_back_identically {g : Geom} (hg : Admissible g) (hdet : g.det = 1) (ks : List Nat)
    (hks : ks ≠ []) (chans : List Nat)
    (hu : framesUnique .seg (withChan (storeStack g ks) chans) = true) (rows cols : Int) (hr : 1 ≤ rows) (hc : 1 ≤ cols) :
    ∃ kmin ∈ ks, ∃ kmax ∈ ks, (∀ k ∈ ks, kmin ≤ k ∧ k ≤ kmax) ∧ ∃ out,
      getVolumeStack .seg (withChan (storeStack g ks) chans) rows cols true ({} : Request) = .ok out ∧
      out.n = (kmax : Int) - kmin + 1 ∧
      (∀ v r c : Int, out.aff.apply v r c = g.aff.apply ((kmin : Int) + v) r c) ∧
      out.frames = ks.zipIdx.map (fun (p : Nat × Nat) => (p.2, (p.1 : Int) - kmin)) ∧
      (kmin = 0 → out.aff = g.aff) := by
  obtain ⟨k₁, hk₁, k₂, hk₂, out, hout, hb, hn, _, _, happ, hfr⟩ := seg_volume_roundtrip hg ks hks chans hu rows cols hr hc
  have hh : handInt g = 1 := by unfold handInt; simp [hdet]
  simp only [hh, one_mul] at hb hn happ hfr
  refine ⟨k₁, hk₁, k₂, hk₂, ?_, out, hout, by omega, happ, hfr, ?_⟩
  · intro k hk
    have := hb k hk
    omega
  · intro h0
    subst h0
    apply aff_ext_of_apply
    intro v r c
    rw [happ]
    simp

/-- **Left-handed input: the mirror image along the stacking axis**: slot `v` is the input's plane `kmax − v`,
`kmax` the last kept plane; plane `k` is found in slot `kmax − k`. -/
theorem left_handed_reads_back_mirrored {g : Geom} (hg : Admissible g) (hdet : g.det = -1) (ks : List Nat)
    (hks : ks ≠ []) (chans : List Nat)
    (hu : framesUnique .seg (withChan (storeStack g ks) chans) = true) (rows cols : Int) (hr : 1 ≤ rows) (hc : 1 ≤ cols) :
    ∃ kmin ∈ ks, ∃ kmax ∈ ks, (∀ k ∈ ks, kmin ≤ k ∧ k ≤ kmax) ∧ ∃ out,
      getVolumeStack .seg (withChan (storeStack g ks) chans) rows cols true ({} : Request) = .ok out ∧
      out.n = (kmax : Int) - kmin + 1 ∧
      (∀ v r c : Int, out.aff.apply v r c = g.aff.apply ((kmax : Int) - v) r c) ∧
      out.frames = ks.zipIdx.map (fun (p : Nat × Nat) => (p.2, (kmax : Int) - p.1)) := by
  obtain ⟨k₁, hk₁, k₂, hk₂, out, hout, hb, hn, _, _, happ, hfr⟩ := seg_volume_roundtrip hg ks hks chans hu rows cols hr hc
  have hh : handInt g = -1 := by
    unfold handInt
    have : ¬ (g.det = 1) := by rw [hdet]; norm_num
    simp [this]
  simp only [hh] at hb hn happ hfr
  refine ⟨k₂, hk₂, k₁, hk₁, ?_, out, hout, by omega, ?_, ?_⟩
  · intro k hk
    have := hb k hk
    omega
  · intro v r c
    rw [happ]
    congr 1
    ring
  · rw [hfr]
    apply List.map_congr_left
    intro p _
    simp only [Prod.mk.injEq, true_and]
    ring

/-- **Omitted planes read as empty, kept planes are all there**: a slot of the returned volume holds a frame
exactly when the input plane lying there (`src v = k₁ + h·v`) was stored. -/
theorem omitted_planes_read_empty {g : Geom} (hg : Admissible g) (ks : List Nat) (hks : ks ≠ []) (chans : List Nat)
    (hu : framesUnique .seg (withChan (storeStack g ks) chans) = true) (rows cols : Int)
    (hr : 1 ≤ rows) (hc : 1 ≤ cols) :
    ∃ k₁ ∈ ks, ∃ out, getVolumeStack .seg (withChan (storeStack g ks) chans) rows cols true ({} : Request) = .ok out ∧
      ∀ v : Int, (∃ i, (i, v) ∈ out.frames) ↔ ∃ k ∈ ks, (k : Int) = (k₁ : Int) + handInt g * v := by
  obtain ⟨k₁, hk₁, k₂, _, out, hout, _, _, _, _, _, hfr⟩ := seg_volume_roundtrip hg ks hks chans hu rows cols hr hc
  refine ⟨k₁, hk₁, out, hout, ?_⟩
  intro v
  have h2 := handInt_sq g
  rw [hfr]
  constructor
  · rintro ⟨i, hm⟩
    obtain ⟨⟨k, j⟩, hmem, heq⟩ := List.mem_map.mp hm
    simp only [Prod.mk.injEq] at heq
    refine ⟨k, List.fst_mem_of_mem_zipIdx hmem, ?_⟩
    rw [← heq.2]
    have : (k₁ : Int) + handInt g * (handInt g * ((k : Int) - k₁)) = (k₁ : Int) + (handInt g * handInt g) * ((k : Int) - k₁) := by ring
    rw [this, h2]; ring
  · rintro ⟨k, hk, hkv⟩
    obtain ⟨i, hi, rfl⟩ := List.getElem_of_mem hk
    refine ⟨i, List.mem_map.mpr ⟨(ks[i], i), List.mem_zipIdx_iff_getElem?.mpr (by simp [hi]), ?_⟩⟩
    simp only [Prod.mk.injEq, true_and]
    rw [hkv]
    have : handInt g * ((k₁ : Int) + handInt g * v - k₁) = (handInt g * handInt g) * v := by ring
    rw [this, h2]; ring

/-- **Clause 1, with the planes chosen by the constructor** (`omit_empty_frames` on or off; `nonempty[k]` = plane `k`
of the input has a non-zero pixel): the volume read back contains every non-empty input plane at the input's
position, and a slot without frame corresponds to an input plane that is empty (or lies outside the input) — so
"even when empty slices were omitted from storage" every voxel value, zero or not, is where the input gave it. -/
theorem nonzero_planes_survive_omission {g : Geom} (hg : Admissible g) (nonempty : List Bool) (hne : nonempty ≠ [])
    (omitEmpty : Bool) (rows cols : Int) (hr : 1 ≤ rows) (hc : 1 ≤ cols) :
    ∃ k₁ < nonempty.length, ∃ out,
      getVolumeStack .seg (storeStack g (keptPlanes nonempty omitEmpty)) rows cols true ({} : Request) = .ok out ∧
      (∀ k, nonempty[k]? = some true → ∃ i v, (i, v) ∈ out.frames ∧ (keptPlanes nonempty omitEmpty)[i]? = some k ∧
          0 ≤ v ∧ v < out.n ∧ ∀ r c : Int, out.aff.apply v r c = g.aff.apply (k : Int) r c) ∧
      (∀ v : Int, (¬ ∃ i, (i, v) ∈ out.frames) → ∀ k : Nat, (k : Int) = (k₁ : Int) + handInt g * v →
          nonempty[k]? = some true → False) ∧
      (∀ v r c : Int, out.aff.apply v r c = g.aff.apply ((k₁ : Int) + handInt g * v) r c) := by
  have hks := keptPlanes_ne_nil nonempty omitEmpty hne
  have hu : framesUnique .seg (withChan (storeStack g (keptPlanes nonempty omitEmpty)) []) = true :=
    framesUnique_of_nodup .seg _ rfl (planePosition_nodup hg _ (keptPlanes_nodup nonempty omitEmpty))
  obtain ⟨k₁, hk₁, k₂, _, out, hout, hb, _, _, _, happ, hfr⟩ :=
    seg_volume_roundtrip hg (keptPlanes nonempty omitEmpty) hks [] hu rows cols hr hc
  refine ⟨k₁, keptPlanes_bound _ _ _ hk₁, out, hout, ?_, ?_, happ⟩
  · intro k hk
    have hmem := keptPlanes_contains nonempty omitEmpty k hk
    obtain ⟨i, hi, hik⟩ := List.getElem_of_mem hmem
    refine ⟨i, handInt g * ((k : Int) - k₁), ?_, by rw [List.getElem?_eq_getElem hi, hik], (hb k hmem).1, (hb k hmem).2, ?_⟩
    · rw [hfr, List.mem_map]
      exact ⟨(k, i), List.mem_zipIdx_iff_getElem?.mpr (by simp [hi, hik]), rfl⟩
    · intro r c
      rw [happ]
      have h2 := handInt_sq g
      have : (k₁ : Int) + handInt g * (handInt g * ((k : Int) - k₁)) = (k : Int) := by
        have : (k₁ : Int) + handInt g * (handInt g * ((k : Int) - k₁))
            = (k₁ : Int) + (handInt g * handInt g) * ((k : Int) - k₁) := by ring
        rw [this, h2]; ring
      rw [this]
  · intro v hno k hkv hk
    apply hno
    have hmem := keptPlanes_contains nonempty omitEmpty k hk
    obtain ⟨i, hi, hik⟩ := List.getElem_of_mem hmem
    refine ⟨i, ?_⟩
    rw [hfr, List.mem_map]
    refine ⟨(k, i), List.mem_zipIdx_iff_getElem?.mpr (by simp [hi, hik]), ?_⟩
    simp only [Prod.mk.injEq, true_and]
    rw [hkv]
    have h2 := handInt_sq g
    have : handInt g * ((k₁ : Int) + handInt g * v - k₁) = (handInt g * handInt g) * v := by ring
    rw [this, h2]; ring

/-! ## 2. Arrays aligned to source images given in any order -/

/-- **Clause 1b (aligned to a source stack in any slice order).**  Frames whose recorded positions are
`base + (e·sp)·n` for arbitrary integers `e` (any order, gaps = omitted planes, repetitions = several segments;
`n` the unit normal of the recorded orientation, `sp` the recorded SpacingBetweenSlices) are recognised as a
stack; frame `i` goes to slot `e_i − min e`, and that slot lies exactly at the frame's own recorded position,
row and column vectors being the recorded spacing × cosines. -/
theorem aligned_sources_any_order (k : Kind) (st : Stack) (hst : StackOK st) (base : V3) (sp : Rat) (hsp : 0 < sp)
    (es : List Int) (hes : es ≠ []) (hpos : st.pos = es.map (linePos (normal st.rowCos st.colCos) base sp))
    (hhint : st.hint = some sp) (hu : framesUnique k st = true) (rows cols : Int) (hr : 1 ≤ rows) (hc : 1 ≤ cols) :
    ∃ emin ∈ es, ∃ emax ∈ es, (∀ e ∈ es, emin ≤ e ∧ e ≤ emax) ∧ ∃ out,
      getVolumeStack k st rows cols true ({} : Request) = .ok out ∧
      out.n = emax - emin + 1 ∧ out.rows = rows ∧ out.cols = cols ∧
      out.frames = es.zipIdx.map (fun (p : Int × Nat) => (p.2, p.1 - emin)) ∧
      ∀ i (hi : i < es.length) (r c : Int),
        out.aff.apply (es[i] - emin) r c
          = add (add (linePos (normal st.rowCos st.colCos) base sp es[i]) (smul ((r : Rat) * st.psRow) st.colCos))
              (smul ((c : Rat) * st.psCol) st.rowCos) := by
  obtain ⟨emin, hemin, emax, hemax, hb, hok, _⟩ := getVolumeStack_line k st hst base sp hsp es hes hpos hhint hu rows cols
  have hN : 1 ≤ emax - emin + 1 := by have := hb emax hemax; omega
  have h := hok ({} : Request) 0 _ 0 rows 0 cols (sliceSpec_default _ hN false) (sliceSpec_default rows hr false)
    (sliceSpec_default cols hc false)
  refine ⟨emin, hemin, emax, hemax, hb, _, h, by simp, by simp, by simp, ?_, ?_⟩
  · simp only [sub_zero]
    rw [framePositions_all]
    · rw [List.zipIdx_map, List.map_map]
      apply List.map_congr_left
      intro p _
      rfl
    · intro v hv
      obtain ⟨e, he, rfl⟩ := List.mem_map.mp hv
      have := hb e he
      omega
  · intro i hi r c
    simp only [aff_shift_zero]
    rw [lineAff_apply]
    have : emin + (es[i] - emin) = es[i] := by ring
    rw [this]

/-- **The SpacingBetweenSlices recorded for a regular source stack is its spacing** (inferred by the strict
branch of `get_volume_positions` from all source planes before empty ones are removed, or copied from the
source): planes at `base + (e·sp)·n`, the `e` pairwise different and filling an interval of ≥ 2 integers, in
any order. -/
theorem inferred_slice_spacing (rowCos colCos base : V3) (sp : Rat) (hsp : 0 < sp)
    (hn : dot (normal rowCos colCos) (normal rowCos colCos) = 1) (es : List Int) (emin emax : Int)
    (hemin : emin ∈ es) (hemax : emax ∈ es) (hb : ∀ e ∈ es, emin ≤ e ∧ e ≤ emax)
    (hcomplete : ∀ z, emin ≤ z → z ≤ emax → z ∈ es) (hlt : emin < emax) (hnodup : es.Nodup)
    (srcHint : Option Rat) (hsrc : srcHint = none ∨ srcHint = some sp) :
    recordedHint srcHint (es.map (linePos (normal rowCos colCos) base sp)) rowCos colCos = .ok (some sp) :=
  recordedHint_regular rowCos colCos base sp hsp hn es emin emax hemin hemax hb hcomplete hlt hnodup srcHint hsrc

/-- **Clause 1b end to end (array aligned to a regular source stack given in any order, empty planes omitted
or not)**: the source planes sit at `base + (e·sp)·n` for the multiples `allEs` (pairwise different, an interval of
≥ 2 integers, ANY order); the planes with list indices `kept` (non-empty, any order) are stored.  The
segmentation records orientation, pixel spacing and the inferred slice spacing, reads back as a volume, and frame
`i` lies exactly at the source position of its plane for every row and column; slots are `e − min kept e`. -/
theorem aligned_sources_roundtrip (rowCos colCos base : V3) (psRow psCol sp : Rat) (hsp : 0 < sp)
    (hn : dot (normal rowCos colCos) (normal rowCos colCos) = 1) (horth : dot colCos rowCos = 0)
    (hpr : 0 < psRow) (hpc : 0 < psCol) (allEs : List Int) (emin emax : Int)
    (hemin : emin ∈ allEs) (hemax : emax ∈ allEs) (hb : ∀ e ∈ allEs, emin ≤ e ∧ e ≤ emax)
    (hcomplete : ∀ z, emin ≤ z → z ≤ emax → z ∈ allEs) (hlt : emin < emax) (hnodup : allEs.Nodup)
    (srcHint : Option Rat) (hsrc : srcHint = none ∨ srcHint = some sp)
    (kept : List Nat) (keptEs : List Int) (hkept : kept.mapM (fun k => allEs[k]?) = some keptEs) (hne : keptEs ≠ [])
    (hkn : keptEs.Nodup)
    (rows cols : Int) (hr : 1 ≤ rows) (hc : 1 ≤ cols) :
    ∃ st, storeAligned rowCos colCos psRow psCol srcHint (allEs.map (linePos (normal rowCos colCos) base sp)) kept = .ok st ∧
      st.hint = some sp ∧
      ∃ kmin ∈ keptEs, ∃ kmax ∈ keptEs, (∀ e ∈ keptEs, kmin ≤ e ∧ e ≤ kmax) ∧ ∃ out,
        getVolumeStack .seg st rows cols true ({} : Request) = .ok out ∧ out.n = kmax - kmin + 1 ∧
        out.frames = keptEs.zipIdx.map (fun (p : Int × Nat) => (p.2, p.1 - kmin)) ∧
        ∀ i (hi : i < keptEs.length) (r c : Int),
          out.aff.apply (keptEs[i] - kmin) r c
            = add (add (linePos (normal rowCos colCos) base sp keptEs[i]) (smul ((r : Rat) * psRow) colCos))
                (smul ((c : Rat) * psCol) rowCos) := by
  have hrec := recordedHint_regular rowCos colCos base sp hsp hn allEs emin emax hemin hemax hb hcomplete hlt hnodup srcHint hsrc
  have hpos := mapM_getElem?_map (linePos (normal rowCos colCos) base sp) allEs kept keptEs hkept
  refine ⟨{ rowCos := rowCos, colCos := colCos, psRow := psRow, psCol := psCol, hint := some sp,
            pos := keptEs.map (linePos (normal rowCos colCos) base sp) }, ?_, rfl, ?_⟩
  · unfold storeAligned
    rw [hrec]
    simp only [hpos]
  · obtain ⟨kmin, hkmin, kmax, hkmax, hbk, out, hout, hn', _, _, hfr, happ⟩ :=
      aligned_sources_any_order .seg
        { rowCos := rowCos, colCos := colCos, psRow := psRow, psCol := psCol, hint := some sp,
          pos := keptEs.map (linePos (normal rowCos colCos) base sp) }
        ⟨hn, horth, hpr, hpc⟩ base sp hsp keptEs hne rfl rfl
        (framesUnique_of_nodup .seg _ rfl (linePos_nodup _ base sp hsp hn keptEs hkn)) rows cols hr hc
    exact ⟨kmin, hkmin, kmax, hkmax, hbk, out, hout, hn', hfr, happ⟩

/-- **`Image.get_volume` of a complete stack whose frames come in any order** (strict branch,
`allow_missing_positions=False`, with or without a SpacingBetweenSlices in the image): frames at
`base + (e·sp)·n`, the multiples pairwise different (`Image.get_volume` refuses frames at equal positions) and
filling an interval of ≥ 2 integers: frame `i` goes to slot
`e_i − min e`, which lies at the frame's own position. -/
theorem image_stack_reads_back (st : Stack) (hst : StackOK st) (base : V3) (sp : Rat) (hsp : 0 < sp)
    (es : List Int) (emin emax : Int) (hemin : emin ∈ es) (hemax : emax ∈ es) (hb : ∀ e ∈ es, emin ≤ e ∧ e ≤ emax)
    (hcomplete : ∀ z, emin ≤ z → z ≤ emax → z ∈ es) (hlt : emin < emax)
    (hpos : st.pos = es.map (linePos (normal st.rowCos st.colCos) base sp))
    (hhint : st.hint = none ∨ st.hint = some sp) (hnd : es.Nodup) (rows cols : Int) (hr : 1 ≤ rows) (hc : 1 ≤ cols) :
    ∃ out, getVolumeStack .image st rows cols false ({} : Request) = .ok out ∧ out.n = emax - emin + 1 ∧
      out.rows = rows ∧ out.cols = cols ∧
      out.frames = es.zipIdx.map (fun (p : Int × Nat) => (p.2, p.1 - emin)) ∧
      ∀ i (hi : i < es.length) (r c : Int),
        out.aff.apply (es[i] - emin) r c
          = add (add (linePos (normal st.rowCos st.colCos) base sp es[i]) (smul ((r : Rat) * st.psRow) st.colCos))
              (smul ((c : Rat) * st.psCol) st.rowCos) := by
  have hes : es ≠ [] := List.ne_nil_of_mem hemin
  have hvp := volumePositions_line_strict st.rowCos st.colCos base sp hsp hst.unitN es emin emax hemin hemax hb
    hcomplete hlt st.hint hhint true (Or.inl rfl)
  obtain ⟨emin', hemin', emax', hemax', hb', hok, _⟩ :=
    getVolumeStack_line_gen false .image st hst (linePos (normal st.rowCos st.colCos) base sp) sp es hes hpos
      ⟨emin, hemin, fun e he => (hb e he).1, hvp⟩
      (by unfold framesUnique; rw [hpos]; exact (allDistinct_iff_nodup _).mpr (linePos_nodup _ base sp hsp hst.unitN es hnd))
      rows cols
  have e1 : emin' = emin := by
    have := (hb' emin hemin).1; have := (hb emin' hemin').1; omega
  have e2 : emax' = emax := by
    have := (hb' emax hemax).2; have := (hb emax' hemax').2; omega
  subst e1 e2
  have hN : 1 ≤ emax' - emin' + 1 := by omega
  have h := hok ({} : Request) 0 _ 0 rows 0 cols (sliceSpec_default _ hN false) (sliceSpec_default rows hr false)
    (sliceSpec_default cols hc false)
  refine ⟨_, h, by simp, by simp, by simp, ?_, ?_⟩
  · simp only [sub_zero]
    rw [framePositions_all]
    · rw [List.zipIdx_map, List.map_map]
      apply List.map_congr_left
      intro p _
      rfl
    · intro v hv
      obtain ⟨e, he, rfl⟩ := List.mem_map.mp hv
      have := hb e he
      omega
  · intro i hi r c
    simp only [aff_shift_zero]
    have : lineAffP st (linePos (normal st.rowCos st.colCos) base sp) sp emin' = lineAff st base sp emin' := rfl
    rw [this, lineAff_apply]
    have : emin' + (es[i] - emin') = es[i] := by ring
    rw [this]

/-- **"Up to decimal-string precision": the placement survives rounding of the recorded values.**  Recorded
positions `P e` within `sp/100000` of the ideal `base + (e·sp)·n` (error depending on the plane only), recorded
SpacingBetweenSlices `sp'` within 0.001 % of `sp`, at most 501 slots (the library accepts a plane within 1 % of a
spacing of a whole multiple of the recorded spacing, /repo 95f2029, so the admissible error shrinks with the number
of slots: `(slots + 1) · relative error ≤ 1 %`): the frames still go to the slots `e − min e`,
the volume still spans `max e − min e + 1` slots, and the affine is the one the recorded attributes describe
(translation = recorded position of the first plane, columns = recorded spacings × recorded directions). -/
theorem placement_robust_to_rounding (k : Kind) (st : Stack) (hst : StackOK st) (base : V3) (sp : Rat) (hsp : 0 < sp)
    (P : Int → V3) (hP : PertF (normal st.rowCos st.colCos) base sp P) (sp' : Rat) (h1 : sp * (99999 / 100000) ≤ sp')
    (h2 : sp' ≤ sp * (100001 / 100000)) (es : List Int) (hes : es ≠ []) (hspan : ∀ e ∈ es, ∀ e' ∈ es, e' - e ≤ 500)
    (hpos : st.pos = es.map P) (hhint : st.hint = some sp') (hu : framesUnique k st = true) (rows cols : Int)
    (hr : 1 ≤ rows) (hc : 1 ≤ cols) :
    ∃ emin ∈ es, ∃ emax ∈ es, (∀ e ∈ es, emin ≤ e ∧ e ≤ emax) ∧ ∃ out,
      getVolumeStack k st rows cols true ({} : Request) = .ok out ∧ out.n = emax - emin + 1 ∧
      out.frames = es.zipIdx.map (fun (p : Int × Nat) => (p.2, p.1 - emin)) ∧
      out.aff = lineAffP st P sp' emin := by
  obtain ⟨emin, hemin, emax, hemax, hb, hok, _⟩ :=
    getVolumeStack_line_gen true k st hst P sp' es hes hpos
      (by rw [hhint]; exact volumePositions_robust st.rowCos st.colCos base sp hsp hst.unitN P hP sp' h1 h2 es hes hspan)
      hu rows cols
  have hN : 1 ≤ emax - emin + 1 := by have := hb emax hemax; omega
  have h := hok ({} : Request) 0 _ 0 rows 0 cols (sliceSpec_default _ hN false) (sliceSpec_default rows hr false)
    (sliceSpec_default cols hc false)
  refine ⟨emin, hemin, emax, hemax, hb, _, h, by simp, ?_, by simp [aff_shift_zero]⟩
  simp only [sub_zero]
  rw [framePositions_all]
  · rw [List.zipIdx_map, List.map_map]
    apply List.map_congr_left
    intro p _
    rfl
  · intro v hv
    obtain ⟨e, he, rfl⟩ := List.mem_map.mp hv
    have := hb e he
    omega

/-! ## 3. Sub-volume requests mean the Python slice (translated helpers T2, T3) -/

/-- **`_standardize_slice_indices` (regenerated from source)**: for one-based numbers, zero-based indices and
negative values the result is exactly the Python-slice meaning of the request (`sliceSpec`). -/
theorem stdSliceIndices_spec (st en : Option Int) (n : Int) (asIdx : Bool) (r : Int × Int) :
    stdSliceIndices st en n asIdx = .ok r ↔ sliceSpec st en n asIdx = some r :=
  stdSlice_ok_iff st en n asIdx r

/-- accepted slice requests are non-empty and inside the volume: `0 ≤ start < end ≤ n` -/
theorem stdSliceIndices_range (st en : Option Int) (n : Int) (asIdx : Bool) (s e : Int)
    (h : stdSliceIndices st en n asIdx = .ok (s, e)) : 0 ≤ s ∧ s < e ∧ e ≤ n :=
  sliceSpec_range ((stdSlice_ok_iff st en n asIdx (s, e)).mp h)

/-- empty, out-of-range and zero (one-based) slice requests are refused — never wrapped or clamped -/
theorem stdSliceIndices_refuses (st en : Option Int) (n : Int) (asIdx : Bool) (h : sliceSpec st en n asIdx = none) :
    ∃ k, stdSliceIndices st en n asIdx = .error k :=
  stdSlice_refuses st en n asIdx h

/-- one-based numbers and zero-based indices address the same slices -/
theorem slice_number_eq_index (s e n : Int) (hs : 0 ≤ s) (he : 0 ≤ e) :
    stdSliceIndices (some (s + 1)) (some (e + 1)) n false = stdSliceIndices (some s) (some e) n true := by
  cases h : stdSliceIndices (some s) (some e) n true with
  | ok r =>
    rw [stdSlice_ok_iff] at h ⊢
    unfold sliceSpec convArg wrapIdx at h ⊢
    grind
  | error k =>
    cases h2 : stdSliceIndices (some (s + 1)) (some (e + 1)) n false with
    | ok r =>
      rw [stdSlice_ok_iff] at h2
      have : sliceSpec (some s) (some e) n true = some r := by
        unfold sliceSpec convArg wrapIdx at h2 ⊢
        grind
      rw [← stdSlice_ok_iff] at this
      rw [this] at h; cases h
    | error k2 =>
      unfold stdSliceIndices at h h2
      grind

/-- **`_standardize_row_column_indices` (regenerated from source, index outputs as `get_volume` uses it)**
against the same Python-slice meaning, for non-empty regions. -/
theorem stdRowColIndices_spec (rs re cs ce : Option Int) (rows cols : Int) (asIdx : Bool) (a b c d : Int) :
    (stdRowColIndices rs re cs ce rows cols asIdx true = .ok (a, b, c, d) ∧ a < b ∧ c < d) ↔
      (sliceSpec rs re rows asIdx = some (a, b) ∧ sliceSpec cs ce cols asIdx = some (c, d)) :=
  stdRowCol_idx_spec rs re cs ce rows cols asIdx a b c d

/-! ## 4. Sub-regions are placed at the position of their first voxel; volumes agree with reported geometry -/

/-- **Clause 3 (stacked images, any stack the library accepts)**: if `get_volume` accepts a request, the
result is the default (full) volume cut to the Python-slice meaning `[s0,e0) × [s1,e1) × [s2,e2)` of the
request, and its affine maps index `(i, j, k)` to the full volume's position of `(s0+i, s1+j, s2+k)` — in
particular index 0 to the position of the sub-region's first voxel.  Frames of slots `s0..e0-1` move down by `s0`.
Acceptance also means that the frames were pairwise distinguishable (`_do_columns_identify_unique_frames`). -/
theorem subvolume_origin (k : Kind) (st : Stack) (rows cols : Int) (am : Bool) (rq : Request) (out : VolOut)
    (h : getVolumeStack k st rows cols am rq = .ok out) :
    ∃ full s0 e0 s1 e1 s2 e2, volumeGeometryStack st rows cols am = .ok full ∧
      sliceSpec rq.sliceStart rq.sliceEnd full.n rq.asIdx = some (s0, e0) ∧
      sliceSpec rq.rowStart rq.rowEnd rows rq.asIdx = some (s1, e1) ∧
      sliceSpec rq.colStart rq.colEnd cols rq.asIdx = some (s2, e2) ∧
      (∀ i j k : Int, out.aff.apply i j k = full.aff.apply (s0 + i) (s1 + j) (s2 + k)) ∧
      out.aff.c0 = full.aff.c0 ∧ out.aff.c1 = full.aff.c1 ∧ out.aff.c2 = full.aff.c2 ∧
      out.n = e0 - s0 ∧ out.rows = e1 - s1 ∧ out.cols = e2 - s2 ∧ out.rowFirst = s1 ∧ out.colFirst = s2 ∧
      (∀ i v, (i, v) ∈ out.frames ↔ ((i, v + s0) ∈ full.frames ∧ 0 ≤ v ∧ v < e0 - s0)) ∧
      framesUnique k st = true := by
  obtain ⟨full, s0, e0, s1, e1, s2, e2, hf, h0, h1, h2, haff, hn, hrw, hcl, hrf, hcf, hfr, hq⟩ :=
    getVolumeStack_sub k st rows cols am rq out h
  refine ⟨full, s0, e0, s1, e1, s2, e2, hf, h0, h1, h2, ?_, ?_, ?_, ?_, hn, hrw, hcl, hrf, hcf, hfr, hq⟩
  · intro i j k; rw [haff, aff_shift_apply]
  · rw [haff]; rfl
  · rw [haff]; rfl
  · rw [haff]; rfl

/-- requests that are empty, out of range or zero in one-based numbering on any axis are refused -/
theorem subvolume_refused (k : Kind) (st : Stack) (rows cols : Int) (am : Bool) (rq : Request) (full : StackGeom)
    (hfull : volumeGeometryStack st rows cols am = .ok full)
    (hbad : sliceSpec rq.sliceStart rq.sliceEnd full.n rq.asIdx = none ∨
      sliceSpec rq.rowStart rq.rowEnd rows rq.asIdx = none ∨ sliceSpec rq.colStart rq.colEnd cols rq.asIdx = none) :
    ∃ kk, getVolumeStack k st rows cols am rq = .error kk :=
  getVolumeStack_refuses k st rows cols am rq full hfull hbad

/-- **Clause 2 (images and segmentations of two or more frames, any stack)**: whenever `get_volume()` returns a
volume, `get_volume_geometry()` reports a geometry, and it is exactly the volume's (affine, shape, placement). -/
theorem volume_agrees_with_reported_geometry (k : Kind) (st : Stack) (rows cols : Int) (am : Bool) (out : VolOut)
    (h : getVolumeStack k st rows cols am ({} : Request) = .ok out) :
    ∃ full, volumeGeometryStack st rows cols am = .ok full ∧ out.aff = full.aff ∧ out.n = full.n ∧
      out.rows = rows ∧ out.cols = cols ∧
      (∀ i v, (i, v) ∈ out.frames ↔ ((i, v) ∈ full.frames ∧ 0 ≤ v ∧ v < full.n)) := by
  obtain ⟨full, s0, e0, s1, e1, s2, e2, hf, h0, h1, h2, haff, hn, hrw, hcl, _, _, hfr, _⟩ :=
    getVolumeStack_sub k st rows cols am ({} : Request) out h
  have hs0 : s0 = 0 ∧ e0 = full.n := by
    unfold sliceSpec at h0; simp only at h0; split at h0 <;> simp_all
  have hs1 : s1 = 0 ∧ e1 = rows := by
    unfold sliceSpec at h1; simp only at h1; split at h1 <;> simp_all
  have hs2 : s2 = 0 ∧ e2 = cols := by
    unfold sliceSpec at h2; simp only at h2; split at h2 <;> simp_all
  obtain ⟨rfl, rfl⟩ := hs0
  obtain ⟨rfl, rfl⟩ := hs1
  obtain ⟨rfl, rfl⟩ := hs2
  refine ⟨full, hf, by rw [haff, aff_shift_zero], by omega, by omega, by omega, ?_⟩
  intro i v
  rw [hfr]
  simp only [add_zero, sub_zero]

/-- … and conversely: when a geometry is reported and the frames are pairwise distinguishable, the default
`get_volume()` succeeds with that geometry.  Frames that are not distinguishable make every `get_volume` request
fail although a geometry is reported (`duplicate_frames_refused`). -/
theorem reported_geometry_is_the_volumes (k : Kind) (st : Stack) (rows cols : Int) (hr : 1 ≤ rows) (hc : 1 ≤ cols)
    (am : Bool) (full : StackGeom) (hfull : volumeGeometryStack st rows cols am = .ok full)
    (hu : framesUnique k st = true) :
    ∃ out, getVolumeStack k st rows cols am ({} : Request) = .ok out ∧ out.aff = full.aff ∧ out.n = full.n ∧
      out.rows = rows ∧ out.cols = cols ∧ out.frames = full.frames :=
  ⟨_, getVolumeStack_default k st rows cols hr hc am full hfull hu, rfl, rfl, rfl, rfl, rfl⟩

/-- frames at equal positions (images) / equal position and segment (segmentations) are refused by `get_volume` -/
theorem duplicate_frames_refused (k : Kind) (st : Stack) (rows cols : Int) (am : Bool) (rq : Request)
    (hd : framesUnique k st = false) : ∃ kk, getVolumeStack k st rows cols am rq = .error kk := by
  cases hgv : getVolumeStack k st rows cols am rq with
  | error kk => exact ⟨kk, rfl⟩
  | ok out =>
    obtain ⟨_, _, _, _, _, _, _, _, _, _, _, _, _, _, _, _, _, _, hq⟩ := getVolumeStack_sub k st rows cols am rq out hgv
    rw [hd] at hq; cases hq

/-- **Clause 2 for single-frame images** (their own branch of `_get_volume_geometry`, slice spacing through the
regenerated `Gen.singleFrameSpacing`): what `get_volume` builds from the one frame is exactly the geometry
`get_volume_geometry` reports — both take the magnitude of SpacingBetweenSlices (1 when absent) and both refuse 0. -/
theorem single_frame_volume_agrees_with_reported_geometry (st : Stack) (p : V3) (hp : st.pos = [p]) (rows cols : Int)
    (hr : 1 ≤ rows) (hc : 1 ≤ cols) (am : Bool) :
    (∀ a, volumeGeometrySingle p st.rowCos st.colCos st.psRow st.psCol st.hint = .ok a →
      getVolumeStack .image st rows cols am ({} : Request)
        = .ok { aff := a, n := 1, frames := [(0, 0)], rowFirst := 0, colFirst := 0, rows := rows, cols := cols }) ∧
    (∀ e, volumeGeometrySingle p st.rowCos st.colCos st.psRow st.psCol st.hint = .error e →
      ∃ kk, getVolumeStack .image st rows cols am ({} : Request) = .error kk) := by
  have hsg := stackedGeometry_single st p hp rows cols am
  have hu : framesUnique .image st = true := by unfold framesUnique; rw [hp]; rfl
  constructor
  · intro a ha
    rw [ha] at hsg
    exact getVolumeStack_default .image st rows cols hr hc am _ hsg hu
  · intro e he
    rw [he] at hsg
    cases hgv : getVolumeStack .image st rows cols am ({} : Request) with
    | error kk => exact ⟨kk, rfl⟩
    | ok out =>
      obtain ⟨full, _, _, _, _, _, _, hf, _⟩ := getVolumeStack_sub .image st rows cols am _ out hgv
      rw [hsg] at hf; cases hf

/-- **Clause 3 (tiled images and tiled segmentations)**: an accepted request returns the reported geometry of
the total pixel matrix translated to the position of the first requested row `a` and column `c` (what the
regenerated T3 makes of the request — for non-empty regions its Python-slice meaning, `stdRowColIndices_spec`),
with `b − a` rows and `d − c` columns; the slice request must mean the single plane. -/
theorem tiled_subvolume_origin (k : Kind) (origin rowCos colCos : V3) (psRow psCol : Rat) (sbs : Option Rat) (R C : Int)
    (rq : Request) (out : VolOut) (h : tiledVolume k origin rowCos colCos psRow psCol sbs R C rq = .ok out) :
    ∃ full a b c d, volumeGeometryTiled origin rowCos colCos psRow psCol sbs = .ok full ∧
      stdRowColIndices rq.rowStart rq.rowEnd rq.colStart rq.colEnd R C rq.asIdx true = .ok (a, b, c, d) ∧
      sliceSpec rq.sliceStart rq.sliceEnd 1 rq.asIdx = some (0, 1) ∧
      (∀ i j k : Int, out.aff.apply i j k = full.apply i (a + j) (c + k)) ∧
      out.n = 1 ∧ out.rows = b - a ∧ out.cols = d - c ∧ 0 ≤ a ∧ a < R ∧ a ≤ b ∧ b ≤ R ∧ 0 ≤ c ∧ c < C ∧ c ≤ d ∧ d ≤ C := by
  obtain ⟨full, a, b, c, d, hf, hT3, hsl, haff, hn, hrw, hcl, hab, hcd, _, _⟩ :=
    tiledVolume_sub k origin rowCos colCos psRow psCol sbs R C rq out h
  have hr := stdRowCol_range_idx hT3
  refine ⟨full, a, b, c, d, hf, hT3, hsl, ?_, hn, hrw, hcl, hr.1, hr.2.1, hab, hr.2.2.2.1, hr.2.2.2.2.1, hr.2.2.2.2.2.1,
    hcd, hr.2.2.2.2.2.2.2⟩
  intro i j k
  rw [haff, aff_shift_apply]
  simp

/-- **Clause 2 (tiled)**: the default request returns exactly the reported geometry and the whole matrix. -/
theorem tiled_volume_agrees_with_reported_geometry (k : Kind) (origin rowCos colCos : V3) (psRow psCol : Rat) (sbs : Option Rat)
    (R C : Int) (hR : 1 ≤ R) (hC : 1 ≤ C) (full : Aff)
    (hfull : volumeGeometryTiled origin rowCos colCos psRow psCol sbs = .ok full) :
    ∃ out, tiledVolume k origin rowCos colCos psRow psCol sbs R C ({} : Request) = .ok out ∧ out.aff = full ∧ out.n = 1 ∧
      out.rows = R ∧ out.cols = C :=
  ⟨_, tiledVolume_default k origin rowCos colCos psRow psCol sbs R C hR hC full hfull, rfl, rfl, rfl, rfl⟩

/-- the geometry reported for a tiled image puts pixel `(r, c)` of the total pixel matrix at
`origin + r·(row spacing)·(column cosines) + c·(column spacing)·(row cosines)` -/
theorem tiled_geometry_positions (origin rowCos colCos : V3) (psRow psCol : Rat) (sbs : Option Rat) (full : Aff)
    (hfull : volumeGeometryTiled origin rowCos colCos psRow psCol sbs = .ok full) (r c : Int) :
    full.apply 0 r c = add (add origin (smul ((r : Rat) * psRow) colCos)) (smul ((c : Rat) * psCol) rowCos) := by
  unfold volumeGeometryTiled fromAttributes at hfull
  split at hfull
  · cases hfull
  · simp only at hfull
    split at hfull
    · simp only [Except.ok.injEq] at hfull
      subst hfull
      unfold Aff.apply
      obtain ⟨nx, ny, nz⟩ := normal rowCos colCos
      obtain ⟨ox, oy, oz⟩ := origin
      obtain ⟨cx, cy, cz⟩ := colCos
      obtain ⟨rx, ry, rz⟩ := rowCos
      simp only [add, smul, V3.mk.injEq]
      push_cast
      refine ⟨by ring, by ring, by ring⟩
    · cases hfull

/-- **Clause 1 for tiled segmentations written from a volume in SLIDE coordinates** (any admissible affine, either
handedness; one plane): the segmentation records the volume's plane position as total-pixel-matrix origin, its
orientation and measures; the volume read back (default request) has the total pixel matrix exactly where the
input volume has its plane: voxel `(0, r, c)` at the input's position of `(0, r, c)`. -/
theorem tiled_volume_roundtrip {g : Geom} (hg : Admissible g) (R C : Int) (hR : 1 ≤ R) (hC : 1 ≤ C) :
    ∃ out, tiledVolume .seg (storeTiled g).origin (storeTiled g).rowCos (storeTiled g).colCos (storeTiled g).psRow
        (storeTiled g).psCol (storeTiled g).sbs R C ({} : Request) = .ok out ∧
      out.n = 1 ∧ out.rows = R ∧ out.cols = C ∧ ∀ r c : Int, out.aff.apply 0 r c = g.aff.apply 0 r c := by
  obtain ⟨full, hfull, happ⟩ := tiled_store_geometry hg
  obtain ⟨out, hout, haff, hn, hr, hc⟩ := tiled_volume_agrees_with_reported_geometry .seg _ _ _ _ _ _ R C hR hC full hfull
  exact ⟨out, hout, hn, hr, hc, fun r c => by rw [haff]; exact happ r c⟩

/-- **A tiled segmentation placed by the user records the user's position** — in x, y AND z (another focal plane),
whatever else coincides with the source image: `origin_preserved` is regenerated from the constructor on every
run; were one coordinate left out of it, the source's origin would be copied and the statement fails. -/
theorem user_placed_tiled_origin (user src : V3) (sameOrientation sameSpacing sameTiles : Bool) :
    recordedTiledOrigin user src sameOrientation sameSpacing sameTiles = .ok user := by
  unfold recordedTiledOrigin originPreserved
  simp only
  split
  · rename_i h
    simp only [Bool.and_eq_true, beq_iff_eq] at h
    obtain ⟨⟨⟨⟨⟨hx, hy⟩, hz⟩, _⟩, _⟩, _⟩ := h
    cases user; cases src
    simp only at hx hy hz
    subst hx hy hz
    rfl
  · rfl

/-- **Tiled segmentation from a SLIDE volume, through the constructor's choice of origin**: whatever the source's
origin is and whatever else coincides with the source, what is recorded is what the volume says (`storeTiled`), so
`tiled_volume_roundtrip` applies to it. -/
theorem tiled_volume_records_its_own_origin (g : Geom) (src : V3) (sameOrientation sameSpacing sameTiles : Bool) :
    storeTiledFrom g src sameOrientation sameSpacing sameTiles = .ok (storeTiled g) := by
  unfold storeTiledFrom
  rw [user_placed_tiled_origin]
  rfl

/-- a segmentation of a single plane records no inferred SpacingBetweenSlices (there is none in the data); a value
carried by the source's or the user's pixel measures is kept -/
theorem single_plane_records_no_spacing (p rowCos colCos : V3) (h : Rat) :
    recordedHint none [p] rowCos colCos = .ok none ∧ recordedHint (some h) [p] rowCos colCos = .ok (some h) :=
  ⟨rfl, rfl⟩

/-! ## 5. Every pyramid level covers the same physical extent -/

/-- **Clause 4 (regenerated `row_spacing` / `column_spacing` of `create_segmentation_pyramid`)**: for masks of
rank 2 `(R, C)`, 3 `(1, R, C)` and 4 `(1, R, C, S)` — full-resolution mask and level mask independently — the
spacing written for a level satisfies `rows_level · spacing_level = rows_0 · spacing_0` (and columns). -/
theorem pyramid_extent (pr pc : Rat) (nd0 a0 a1 a2 nd b0 b1 b2 : Int) (rs cs : Rat)
    (h : pyramidSpacing pr pc nd0 a0 a1 a2 nd b0 b1 b2 = .ok (rs, cs))
    (hr : maskRows nd b0 b1 ≠ 0) (hc : maskCols nd b1 b2 ≠ 0) :
    (maskRows nd b0 b1 : Rat) * rs = (maskRows nd0 a0 a1 : Rat) * pr ∧
    (maskCols nd b1 b2 : Rat) * cs = (maskCols nd0 a1 a2 : Rat) * pc :=
  pyramidSpacing_extent pr pc nd0 a0 a1 a2 nd b0 b1 b2 rs cs h hr hc

/-- **Clause 4 for down-sampled levels, whatever size the level gets**: a level the library builds as
`(1, rows_l, cols_l[, S])` from a mask of any rank covers `R · spacing_0` by `C · spacing_0` for EVERY level size of at
least one row and column — in particular for the size `int(C / f)`, `int(R / f)` that the code computes in floating
point (which for non-dyadic factors can differ by one from the exact quotient: `int(11 / 1.1) = 10`, exact 9). -/
theorem pyramid_level_extent (pr pc : Rat) (R C : Int) (nd0 a0 a1 a2 : Int) (h0r : maskRows nd0 a0 a1 = R)
    (h0c : maskCols nd0 a1 a2 = C) (ndl : Int) (hnd : ndl ≠ 2) (rl cl : Int) (hrl : 1 ≤ rl) (hcl : 1 ≤ cl) :
    ∃ rs cs, pyramidSpacing pr pc nd0 a0 a1 a2 ndl 1 rl cl = .ok (rs, cs) ∧
      (rl : Rat) * rs = (R : Rat) * pr ∧ (cl : Rat) * cs = (C : Rat) * pc := by
  cases hsp : pyramidSpacing pr pc nd0 a0 a1 a2 ndl 1 rl cl with
  | error k => unfold pyramidSpacing at hsp; cases hsp
  | ok r =>
    obtain ⟨rs, cs⟩ := r
    have hmr : maskRows ndl 1 rl = rl := by unfold maskRows; simp [hnd]
    have hmc : maskCols ndl rl cl = cl := by unfold maskCols; simp [hnd]
    have := pyramidSpacing_extent pr pc nd0 a0 a1 a2 ndl 1 rl cl rs cs hsp (by rw [hmr]; omega) (by rw [hmc]; omega)
    rw [hmr, hmc, h0r, h0c] at this
    exact ⟨rs, cs, rfl, this.1, this.2⟩

/-- the level size computed over exact rationals (regenerated `output_size`) is at least 1 × 1 and at most the full
size for every factor `1 ≤ f ≤ min(R, C)`; the float computation of the code agrees with it for dyadic factors (those
the correspondence compares) and may differ by one otherwise — `pyramid_level_extent` does not depend on it. -/
theorem pyramid_level_size_exact (f : Rat) (hf : 1 ≤ f) (R C : Int) (hR : f ≤ (R : Rat)) (hC : f ≤ (C : Rat)) :
    ∃ cl rl, pyramidLevelSize f C R = .ok (cl, rl) ∧ 1 ≤ cl ∧ cl ≤ C ∧ 1 ≤ rl ∧ rl ≤ R :=
  pyramidLevelSize_pos f hf R C hR hC

/-! ## 6. Source-text fingerprints of the hand-modelled wiring (change detectors, no clause content)

The three theorems of this section are `decide` on string tables regenerated from the source on every run.  They
prove nothing about positions: they make the run notice (proof stage) when the source expressions that the
hand-written model functions named in each docstring were written FROM are edited — which affine column feeds which
attribute, which recorded attribute feeds `from_attributes`, which orientation feeds the spacing inference.  Whether
the model is a faithful reading of these expressions is carried by tie C (L0/L1 correspondence), not by Lean. -/

set_option maxRecDepth 20000 in
/-- **Fingerprint: what a volume records** (`storeStack`, `storeTiled` were written from these expressions): row cosines are the direction of
affine column 2 and column cosines that of column 1 — in this order; PixelSpacing = (‖column 1‖, ‖column 2‖);
SpacingBetweenSlices = SliceThickness = ‖column 0‖; plane `p` is placed at index `(p, 0, 0)`.  The expressions are
read from volume.py on every run (single-assignment locals inlined). -/
theorem volume_records_its_affine :
    wiringVolume.lookup "direction_cosines"
      = some "tuple([*self._affine[:3, 2].copy().tolist(), *self._affine[:3, 1].copy().tolist()])" ∧
    wiringVolume.lookup "pixel_spacing"
      = some "(np.sqrt((self._affine[:3, 1] ** 2).sum()).item(), np.sqrt((self._affine[:3, 2] ** 2).sum()).item())" ∧
    wiringVolume.lookup "direction_cosines.inplace"
      = some "self._affine[:3, 1].copy() /= np.sqrt((self._affine[:3, 1].copy() ** 2).sum()) ; self._affine[:3, 2].copy() /= np.sqrt((self._affine[:3, 2].copy() ** 2).sum())" ∧
    wiringVolume.lookup "pixel_spacing.inplace" = some "" ∧ wiringVolume.lookup "spacing_between_slices.inplace" = some "" ∧
    wiringVolume.lookup "spacing_between_slices" = some "np.sqrt((self._affine[:3, 0] ** 2).sum()).item()" ∧
    wiringVolume.lookup "get_plane_positions"
      = some "self.map_indices_to_reference(np.array([[p, 0, 0] for p in range(self.spatial_shape[0])]))" ∧
    wiringVolume.lookup "get_pixel_measures.pixel_spacing" = some "self.pixel_spacing" ∧
    wiringVolume.lookup "get_pixel_measures.spacing_between_slices" = some "self.spacing_between_slices" ∧
    wiringVolume.lookup "get_plane_orientation"
      = some "PlaneOrientationSequence(self.coordinate_system, self.direction_cosines)" := by
  refine ⟨by decide, by decide, by decide, by decide, by decide, by decide, by decide, by decide, by decide, by decide⟩

set_option maxRecDepth 20000 in
/-- **Fingerprint: how recorded attributes become a geometry** (`fromAttributes`, `stackedGeometry`,
`volumeGeometryTiled`, `volumeGeometrySingle` were written from these expressions): `from_attributes` passes position / orientation / spacings through with the volume index
convention, slices first, shape (frames, rows, columns); a stack takes the position of the frame at volume
position 0 from the very list it ordered, the recorded SpacingBetweenSlices as hint, the spacing returned by
`get_volume_positions`, `max(volume_positions) + 1` frames and Rows × Columns; a tiled image takes the
total-pixel-matrix origin (Z defaulting to 0), ImageOrientationSlide and TotalPixelMatrixRows × Columns, one frame. -/
theorem geometry_is_built_from_the_recorded_attributes :
    (wiringVolume.lookup "from_attributes.image_position" = some "image_position" ∧
     wiringVolume.lookup "from_attributes.image_orientation" = some "image_orientation" ∧
     wiringVolume.lookup "from_attributes.pixel_spacing" = some "pixel_spacing" ∧
     wiringVolume.lookup "from_attributes.spacing_between_slices" = some "spacing_between_slices" ∧
     wiringVolume.lookup "from_attributes.index_convention" = some "VOLUME_INDEX_CONVENTION" ∧
     wiringVolume.lookup "from_attributes.slices_first" = some "True" ∧
     wiringVolume.lookup "from_attributes.cls.spatial_shape" = some "(number_of_frames, rows, columns)") ∧
    (wiringImage.lookup "stacked.image_position" = some "[r[1:] for r in results][volume_positions.index(0)]" ∧
     wiringImage.lookup "stacked.get_volume_positions.image_positions" = some "[r[1:] for r in results]" ∧
     wiringImage.lookup "stacked.image_orientation" = wiringImage.lookup "stacked.get_volume_positions.image_orientation" ∧
     wiringImage.lookup "stacked.get_volume_positions.spacing_hint"
       = some "self._get_shared_frame_value('SpacingBetweenSlices', none_if_missing=True, filter=filter)" ∧
     wiringImage.lookup "stacked.get_volume_positions.allow_missing_positions" = some "allow_missing_positions" ∧
     wiringImage.lookup "stacked.get_volume_positions.allow_duplicate_positions" = some "allow_duplicate_positions" ∧
     wiringImage.lookup "stacked.spacing_between_slices" = some "volume_spacing" ∧
     wiringImage.lookup "stacked.number_of_frames" = some "max(volume_positions) + 1" ∧
     wiringImage.lookup "stacked.rows" = some "self.Rows" ∧ wiringImage.lookup "stacked.columns" = some "self.Columns" ∧
     wiringImage.lookup "stacked.pixel_spacing" = some "self._get_shared_frame_value('PixelSpacing', vm=2, filter=filter)") ∧
    (wiringImage.lookup "tiled.image_position"
       = some "[self.TotalPixelMatrixOriginSequence[0].XOffsetInSlideCoordinateSystem, self.TotalPixelMatrixOriginSequence[0].YOffsetInSlideCoordinateSystem, self.TotalPixelMatrixOriginSequence[0].get('ZOffsetInSlideCoordinateSystem', 0.0)]" ∧
     wiringImage.lookup "tiled.image_orientation" = some "self.ImageOrientationSlide" ∧
     wiringImage.lookup "tiled.rows" = some "self.TotalPixelMatrixRows" ∧
     wiringImage.lookup "tiled.columns" = some "self.TotalPixelMatrixColumns" ∧
     wiringImage.lookup "tiled.pixel_spacing" = some "self._get_shared_frame_value('PixelSpacing', vm=2)" ∧
     wiringImage.lookup "tiled.number_of_frames" = some "1") ∧
    (wiringImage.lookup "single.image_position" = some "self.ImagePositionPatient" ∧
     wiringImage.lookup "single.image_orientation" = some "self.ImageOrientationPatient" ∧
     wiringImage.lookup "single.pixel_spacing" = some "self.PixelSpacing" ∧
     wiringImage.lookup "single.rows" = some "self.Rows" ∧ wiringImage.lookup "single.columns" = some "self.Columns" ∧
     wiringImage.lookup "single.spacing_between_slices" = some "spacing_between_slices") := by
  refine ⟨⟨by decide, by decide, by decide, by decide, by decide, by decide, by decide⟩,
    ⟨by decide, by decide, by decide, by decide, by decide, by decide, by decide, by decide, by decide, by decide, by decide⟩,
    ⟨by decide, by decide, by decide, by decide, by decide, by decide⟩,
    ⟨by decide, by decide, by decide, by decide, by decide, by decide⟩⟩

set_option maxRecDepth 20000 in
/-- **Fingerprint: what a segmentation records of the placement it is given** (`storeStack`, `storeAligned`,
`recordedHint`, `storeTiled`, `recordedTiledOrigin` were written from these expressions; source text of `Segmentation.__init__`, block-local
locals inlined): a volume contributes its own plane positions / orientation / measures; a missing
SpacingBetweenSlices is inferred from ALL plane positions with the SEGMENTATION'S OWN orientation and recorded
when one is found; a user-placed total pixel matrix takes X, Y and Z (default 0) from the single plane position,
the source's from its origin sequence, tiles are laid out from that position, and the source's origin is copied
only when spatial locations are preserved. -/
theorem segmentation_records_the_placement :
    (wiringSeg.lookup "from_volume.plane_positions" = some "pixel_array.get_plane_positions()" ∧
     wiringSeg.lookup "from_volume.plane_orientation" = some "pixel_array.get_plane_orientation()" ∧
     wiringSeg.lookup "from_volume.pixel_measures" = some "pixel_array.get_pixel_measures()") ∧
    (wiringSeg.lookup "spacing_inference.only_if"
       = some "'SpacingBetweenSlices' not in pixel_measures[0] and len(plane_position_values) > 1" ∧
     wiringSeg.lookup "spacing_inference.image_positions" = some "plane_position_values[:, 0, :]" ∧
     wiringSeg.lookup "spacing_inference.image_orientation" = some "plane_orientation[0].ImageOrientationPatient" ∧
     wiringSeg.lookup "spacing_inference.recorded" = some "format_number_as_ds(slice_spacing)" ∧
     wiringSeg.lookup "spacing_inference.recorded_if" = some "slice_spacing is not None") ∧
    (wiringSeg.lookup "tiled.user_x_offset" = some "plane_positions[0][0].XOffsetInSlideCoordinateSystem" ∧
     wiringSeg.lookup "tiled.user_y_offset" = some "plane_positions[0][0].YOffsetInSlideCoordinateSystem" ∧
     wiringSeg.lookup "tiled.user_z_offset" = some "plane_positions[0][0].get('ZOffsetInSlideCoordinateSystem', 0.0)" ∧
     wiringSeg.lookup "tiled.src_x_offset" = some "src_img.TotalPixelMatrixOriginSequence[0].XOffsetInSlideCoordinateSystem" ∧
     wiringSeg.lookup "tiled.src_y_offset" = some "src_img.TotalPixelMatrixOriginSequence[0].YOffsetInSlideCoordinateSystem" ∧
     wiringSeg.lookup "tiled.src_z_offset"
       = some "src_img.TotalPixelMatrixOriginSequence[0].get('ZOffsetInSlideCoordinateSystem', 0.0)" ∧
     wiringSeg.lookup "tiled.image_position" = some "[x_offset, y_offset, z_offset]" ∧
     wiringSeg.lookup "tiled.tile_positions.total_pixel_matrix_image_position" = some "image_position" ∧
     wiringSeg.lookup "tiled.tile_positions.pixel_spacing" = some "pixel_measures[0].PixelSpacing") ∧
    (wiringSeg.lookup "slide_metadata.copy_source_origin_if" = some "are_spatial_locations_preserved and is_tiled" ∧
     wiringSeg.lookup "slide_metadata.copied_origin" = some "deepcopy(source_image.TotalPixelMatrixOriginSequence)" ∧
     wiringSeg.lookup "slide_metadata.call.are_spatial_locations_preserved" = some "are_spatial_locations_preserved" ∧
     wiringSeg.lookup "slide_metadata.call.plane_position_values" = some "plane_position_values") := by
  refine ⟨⟨by decide, by decide, by decide⟩, ⟨by decide, by decide, by decide, by decide, by decide⟩,
    ⟨by decide, by decide, by decide, by decide, by decide, by decide, by decide, by decide, by decide⟩,
    ⟨by decide, by decide, by decide, by decide⟩⟩

/-! ## 7. Bridges: hand-written parts of the model use exactly the regenerated expressions of the current source

`Generated/TC03getitem.lean`, `TC03volpos.lean`, `TC03rot.lean` are rebuilt from /repo on every run; these statements
fail to build when the source's bounds tests, size/origin arithmetic, tolerances, hint handling, multiples, mean gap,
perpendicularity test, or the cosine/spacing selection of `create_rotation_matrix` stop being what the model uses.
Hand-written remainders are named in `Proofs/SegGeomTie.lean` (`sliceIndices1`, `allCloseElem`, `pickCos`, `pickSp`). -/

/-- `Volume.__getitem__` / `VolumeGeometry.__getitem__`, one axis: the model = regenerated `_check_slice` bounds test,
then the regenerated emptiness test / size / new-origin index on `slice.indices(n)` -/
theorem getitem_axis_uses_the_source (start stop : Option Int) (n : Int) :
    getitemAxis start stop n = SegGeomTie.getitemAxisGen start stop n :=
  SegGeomTie.getitemAxis_eq_gen start stop n

/-- `get_volume_positions`: tolerances, hint normalisation, single-position spacing, the gaps-allowed branch (estimate
without a hint = smallest gap refined over the extent by the regenerated loop body `n = round(D / s)`, `n > 0`, `s := D / n`;
multiples from the smallest distance, 1 %-of-a-spacing regularity test, zero-gap refusal), the strict branch's mean gap and
the perpendicularity test of the model are the regenerated ones.  The target refuses (`Unsupported`) when the function or
one of the two branches of `if allow_missing_positions:` contains a statement it does not consume.  Hand-written
remainders: `np.diff` / `min` / `sort`, Python's `round` (half to even), the distinct-multiples test (`np.unique`, `len`). -/
theorem volume_positions_use_the_source :
    (tolSpacing = vpTolSpacing ∧ tolEq = vpTolEq ∧ tolPerp = vpTolPerp) ∧
    (∀ h : Option Rat, normHint h = (match h, vpNormHint h with
      | none, _ => .ok none
      | some _, .ok v => .ok (some v)
      | some _, .error e => .error e)) ∧
    (∀ h : Option Rat, vpSingleSpacing h = .ok (defaultSpacing h)) ∧
    (∀ ds du dmin dmax hint perp,
      regularMissing ds du dmin hint perp = SegGeomTie.regularMissingGen ds du dmin dmax hint perp) ∧
    (∀ ds du dmin dmax hint perp,
      regularStrict ds du dmin dmax hint perp = SegGeomTie.regularStrictGen ds du dmin dmax hint perp) ∧
    (∀ (n span : V3) (r : Rat), 0 < r → r * r = dot span span → vpIsPerp (dot n span / r) = .ok (isPerp n span)) :=
  ⟨SegGeomTie.tolerances_eq_gen, SegGeomTie.normHint_eq_gen, SegGeomTie.defaultSpacing_eq_gen,
   SegGeomTie.regularMissing_eq_gen, SegGeomTie.regularStrict_eq_gen, SegGeomTie.isPerp_eq_gen⟩

/-- `VolumeGeometry.from_attributes`: the affine of the model = the regenerated selections of
`create_rotation_matrix` (cosines, signs, spacings per index direction, cross-product order, column of the normal,
refused spacings) for `VOLUME_INDEX_CONVENTION`, `slices_first=True`, right-handed -/
theorem from_attributes_uses_the_source (origin rowCos colCos : V3) (psRow psCol sbs : Rat) :
    fromAttributes origin rowCos colCos psRow psCol sbs = SegGeomTie.fromAttributesGen origin rowCos colCos psRow psCol sbs :=
  SegGeomTie.fromAttributes_eq_gen origin rowCos colCos psRow psCol sbs

/-! ## 8. The frames the constructor stores (`Model/SegFrameLoop.lean`: `Segmentation.__init__`'s frame loop)

Which frames exist, in which order, with which PlanePositionSequence and DimensionIndexValues — for EVERY list of plane
positions at pairwise different distances along the normal (planes of a volume, source planes in any order, explicit
`plane_positions`), any orientation, any emptiness pattern, label map or individual segments.  `P k` is the position of
input plane `k`, `distOf P rowCos colCos k` its distance along the right-handed (D, R) normal the constructor sorts by.
The hand-written loop is tied to the source by `frame_loop_uses_the_source` (regenerated skip test, dimension index
value, first index, effective `omit_empty_frames`: TC03loop), the fingerprint `frame_loop_wiring` (TC03loop, TC03idxval,
TC03dist) and the correspondence stream `frames` (L1: ReferencedSegmentNumber, position and DimensionIndexValues of every
stored frame, in stored order, in memory and after a file round trip). -/

/-- **Which frames are stored, and their dimension index values.**  The constructor accepts planes at pairwise different
distances; a frame exists exactly for every segment of the loop and every kept plane (all planes, or the non-empty ones
with `omit_empty_frames`) unless the segment is absent there and empty frames are omitted; its dimension index value is
1 + the number of kept planes before its plane along the normal; the plane whose position it records (`posPlane`) is the
plane whose pixels it carries (`plane`) — in the model because `planeFrames` writes `plane_index` into both, which is
what the regenerated loop-body block `Gen.frameBookkeeping` says (`frame_loop_uses_the_source`). -/
theorem stored_frames_and_their_index_values (P : Nat → V3) (rowCos colCos : V3) (nonempty : List Bool)
    (hinj : ∀ a < nonempty.length, ∀ b < nonempty.length, distOf P rowCos colCos a = distOf P rowCos colCos b → a = b)
    (om : Bool) (segs : List (Option Nat)) (present : Option Nat → Nat → Bool) :
    ∃ frames, segFrames ((List.range nonempty.length).map P) rowCos colCos nonempty om segs present = .ok frames ∧
      ∀ f : Frame, f ∈ frames ↔
        f.seg ∈ segs ∧ f.plane ∈ keptPlanes nonempty om ∧ skipped f.seg (omitEff nonempty om) (present f.seg f.plane) = false ∧
        f.div = 1 + (((keptPlanes nonempty om).filter
          (fun k => decide (distOf P rowCos colCos k < distOf P rowCos colCos f.plane))).length : Int) ∧
        f.posPlane = f.plane :=
  mem_segFrames P rowCos colCos nonempty hinj om segs present

/-- **Every stored frame carries the position of its own input plane**: the per-frame positions, in stored order, are
`P (posPlane of the frame)`, and `posPlane` is the plane the frame's pixels come from — whatever the order of the input
planes, the handedness, the omitted planes and the skipped frames.  (The first half is how the model looks positions up;
the second half is the content: it holds because the loop indexes `pixel_array` and `plane_positions` with the same
`plane_index`, tied to the source by `Gen.frameBookkeeping` and, independently, by the L1 stream `frames` + oracle.) -/
theorem stored_frame_positions (P : Nat → V3) (rowCos colCos : V3) (nonempty : List Bool)
    (hinj : ∀ a < nonempty.length, ∀ b < nonempty.length, distOf P rowCos colCos a = distOf P rowCos colCos b → a = b)
    (om : Bool) (segs : List (Option Nat)) (present : Option Nat → Nat → Bool) (frames : List Frame)
    (hok : segFrames ((List.range nonempty.length).map P) rowCos colCos nonempty om segs present = .ok frames) :
    framePositionsOf ((List.range nonempty.length).map P) frames = some (frames.map (fun f => P f.posPlane)) ∧
      ∀ f ∈ frames, f.posPlane = f.plane :=
  framePositions_of_segFrames P rowCos colCos nonempty hinj om segs present frames hok

/-- **For a volume the stored position of every frame is the affine image of its array index**: frame `f` carries
`pixel_array[f.plane]` and is recorded at `affine · (f.plane, 0, 0)`, for every admissible geometry (any rotation, either
handedness, anisotropic spacing), every shape and every emptiness pattern.  (Uses `posPlane = plane`, see
`stored_frame_positions`; that `get_plane_positions()[k] = affine · (k, 0, 0)` is the fingerprint `volume_records_its_affine`.) -/
theorem volume_frame_positions_are_affine_images {g : Geom} (hg : Admissible g) (nonempty : List Bool) (om : Bool)
    (segs : List (Option Nat)) (present : Option Nat → Nat → Bool) :
    ∃ frames, segFrames ((List.range nonempty.length).map (planePosition g)) g.d2 g.d1 nonempty om segs present = .ok frames ∧
      framePositionsOf ((List.range nonempty.length).map (planePosition g)) frames
        = some (frames.map (fun f => g.aff.apply (f.plane : Int) 0 0)) ∧
      ∀ f ∈ frames, f.plane < nonempty.length ∧ f.posPlane = f.plane := by
  have hinj : ∀ a < nonempty.length, ∀ b < nonempty.length,
      distOf (planePosition g) g.d2 g.d1 a = distOf (planePosition g) g.d2 g.d1 b → a = b := fun a _ b _ h => volume_dist_inj hg a b h
  obtain ⟨frames, hok, hmem⟩ := mem_segFrames (planePosition g) g.d2 g.d1 nonempty hinj om segs present
  obtain ⟨hpos, hpp⟩ := framePositions_of_segFrames (planePosition g) g.d2 g.d1 nonempty hinj om segs present frames hok
  refine ⟨frames, hok, ?_, ?_⟩
  · rw [hpos]
    congr 1
    apply List.map_congr_left
    intro f hf
    rw [hpp f hf]
    rfl
  · intro f hf
    exact ⟨keptPlanes_bound nonempty om f.plane ((hmem f).mp hf).2.1, hpp f hf⟩

/-- **Dimension index values follow the normal**: of two stored frames the one with the smaller dimension index value
lies before the other along the normal, and conversely — DimensionIndexValues order the frames in space. -/
theorem dimension_index_follows_the_normal (P : Nat → V3) (rowCos colCos : V3) (nonempty : List Bool)
    (hinj : ∀ a < nonempty.length, ∀ b < nonempty.length, distOf P rowCos colCos a = distOf P rowCos colCos b → a = b)
    (om : Bool) (segs : List (Option Nat)) (present : Option Nat → Nat → Bool) (frames : List Frame)
    (hok : segFrames ((List.range nonempty.length).map P) rowCos colCos nonempty om segs present = .ok frames)
    (f f' : Frame) (hf : f ∈ frames) (hf' : f' ∈ frames) :
    f.div < f'.div ↔ distOf P rowCos colCos f.plane < distOf P rowCos colCos f'.plane :=
  div_lt_iff P rowCos colCos nonempty hinj om segs present frames hok f f' hf hf'

/-- **Frames are stored in the order of their DimensionIndexValues** (segments in ascending number outside, position
inside), strictly — so no two frames share their DimensionIndexValues. -/
theorem frames_stored_in_dimension_order (P : Nat → V3) (rowCos colCos : V3) (nonempty : List Bool)
    (hinj : ∀ a < nonempty.length, ∀ b < nonempty.length, distOf P rowCos colCos a = distOf P rowCos colCos b → a = b)
    (om : Bool) (segs : List (Option Nat)) (hsegs : segs.Pairwise (fun a b => segRank a < segRank b))
    (present : Option Nat → Nat → Bool) (frames : List Frame)
    (hok : segFrames ((List.range nonempty.length).map P) rowCos colCos nonempty om segs present = .ok frames) :
    frames.Pairwise (fun a b => segRank a.seg < segRank b.seg ∨ (a.seg = b.seg ∧ a.div < b.div)) :=
  frames_in_dimension_order P rowCos colCos nonempty hinj om segs hsegs present frames hok

/-- **Planes that coincide along the normal are refused** ("Input image/frame positions are not unique …"): the
constructor never stores two planes it could not tell apart on read-back. -/
theorem coincident_planes_refused (P : Nat → V3) (rowCos colCos : V3) (nonempty : List Bool) (a b : Nat) (ha : a < nonempty.length)
    (hb : b < nonempty.length) (hab : a ≠ b) (hd : distOf P rowCos colCos a = distOf P rowCos colCos b)
    (om : Bool) (segs : List (Option Nat)) (present : Option Nat → Nat → Bool) :
    segFrames ((List.range nonempty.length).map P) rowCos colCos nonempty om segs present = .error .value :=
  segFrames_refuses P rowCos colCos nonempty a b ha hb hab hd om segs present

/-- **Write → read of the constructor's own frames (clause 1, composed).**  For every admissible volume geometry, every
emptiness pattern, `omit_empty_frames` on or off, label map or individual segments with skipped frames: the frames the
loop stores are read back (`Segmentation.get_volume`, default request) as a volume in which frame `i` — which carries
`pixel_array[plane i]` — fills slot `h·(plane i − k₁)`, every voxel of that slot lies where the INPUT affine puts plane
`plane i` (read-back geometry ∘ stored slot = input affine ∘ array index), and the slots come in the order of the
DimensionIndexValues. -/
theorem constructor_frames_roundtrip {g : Geom} (hg : Admissible g) (nonempty : List Bool) (om labelmap : Bool)
    (described : List Nat) (hd : described.Nodup) (present : Option Nat → Nat → Bool) (rows cols : Int)
    (hr : 1 ≤ rows) (hc : 1 ≤ cols) :
    ∃ frames, segFrames ((List.range nonempty.length).map (planePosition g)) g.d2 g.d1 nonempty om
        (segmentsIterable labelmap described) present = .ok frames ∧
      (frames ≠ [] → ∃ st out, ∃ k₁ : Nat,
        framesStack g.d2 g.d1 g.s1 g.s2 (some g.s0) ((List.range nonempty.length).map (planePosition g)) frames = .ok st ∧
        getVolumeStack .seg st rows cols true ({} : Request) = .ok out ∧
        (∀ i (hi : i < frames.length),
          (i, handInt g * ((frames[i].plane : Int) - k₁)) ∈ out.frames ∧
          0 ≤ handInt g * ((frames[i].plane : Int) - k₁) ∧ handInt g * ((frames[i].plane : Int) - k₁) < out.n ∧
          ∀ r c : Int, out.aff.apply (handInt g * ((frames[i].plane : Int) - k₁)) r c = g.aff.apply (frames[i].plane : Int) r c) ∧
        (∀ i j (hi : i < frames.length) (hj : j < frames.length),
          frames[i].div < frames[j].div ↔
            handInt g * ((frames[i].plane : Int) - k₁) < handInt g * ((frames[j].plane : Int) - k₁))) := by
  have hinj : ∀ a < nonempty.length, ∀ b < nonempty.length,
      distOf (planePosition g) g.d2 g.d1 a = distOf (planePosition g) g.d2 g.d1 b → a = b := fun a _ b _ h => volume_dist_inj hg a b h
  obtain ⟨frames, hok, _⟩ := mem_segFrames (planePosition g) g.d2 g.d1 nonempty hinj om (segmentsIterable labelmap described) present
  refine ⟨frames, hok, ?_⟩
  intro hne
  have hks : frames.map (fun f => f.plane) ≠ [] := by simpa using hne
  have hu := framesUnique_volume hg nonempty om labelmap described hd present frames hok
  obtain ⟨k₁, _, k₂, _, out, hout, hb, _, _, _, happ, hfr⟩ :=
    seg_volume_roundtrip hg (frames.map (fun f => f.plane)) hks (frames.filterMap (fun f => f.seg)) hu rows cols hr hc
  refine ⟨_, out, k₁, framesStack_volume hg nonempty om _ present frames hok, hout, ?_, ?_⟩
  · intro i hi
    have hi' : i < (frames.map (fun f => f.plane)).length := by simpa using hi
    have hget : (frames.map (fun f => f.plane))[i] = frames[i].plane := by simp
    have hmem : frames[i].plane ∈ frames.map (fun f => f.plane) := List.mem_map.mpr ⟨frames[i], List.getElem_mem hi, rfl⟩
    refine ⟨?_, (hb _ hmem).1, (hb _ hmem).2, ?_⟩
    · rw [hfr, List.mem_map]
      exact ⟨(frames[i].plane, i), List.mem_zipIdx_iff_getElem?.mpr (by simp [hi]), rfl⟩
    · intro r c
      rw [happ]
      have h2 := handInt_sq g
      have : (k₁ : Int) + handInt g * (handInt g * ((frames[i].plane : Int) - k₁)) = (frames[i].plane : Int) := by
        have : (k₁ : Int) + handInt g * (handInt g * ((frames[i].plane : Int) - k₁))
            = (k₁ : Int) + (handInt g * handInt g) * ((frames[i].plane : Int) - k₁) := by ring
        rw [this, h2]; ring
      rw [this]
  · intro i j hi hj
    rw [div_lt_iff (planePosition g) g.d2 g.d1 nonempty hinj om _ present frames hok frames[i] frames[j]
      (List.getElem_mem hi) (List.getElem_mem hj), volume_dist_lt hg]
    have e1 : handInt g * ((frames[i].plane : Int) - k₁) = handInt g * (frames[i].plane : Int) - handInt g * k₁ := by ring
    have e2 : handInt g * ((frames[j].plane : Int) - k₁) = handInt g * (frames[j].plane : Int) - handInt g * k₁ := by ring
    rw [e1, e2]
    omega

/-- **Write → read of the constructor's frames for an array aligned to source planes given in ANY order (clause 1b,
composed).**  Source planes at `base + (e·sp)·n`, the multiples `allEs` pairwise different and filling an interval, in any
order; any emptiness pattern, `omit_empty_frames` on or off, one pass of the loop (label map, or one segment with skipped
frames): the frames the loop stores are read back so that frame `i` fills slot `e_i − min e`, every voxel of the slot lies
at the SOURCE position of the frame's plane, and slots come in the order of the DimensionIndexValues. -/
theorem aligned_frames_roundtrip (rowCos colCos base : V3) (psRow psCol sp : Rat) (hsp : 0 < sp)
    (hn : dot (normal rowCos colCos) (normal rowCos colCos) = 1) (horth : dot colCos rowCos = 0)
    (hpr : 0 < psRow) (hpc : 0 < psCol) (allEs : List Int) (emin emax : Int)
    (hemin : emin ∈ allEs) (hemax : emax ∈ allEs) (hb : ∀ e ∈ allEs, emin ≤ e ∧ e ≤ emax)
    (hcomplete : ∀ z, emin ≤ z → z ≤ emax → z ∈ allEs) (hlt : emin < emax) (hnodup : allEs.Nodup)
    (srcHint : Option Rat) (hsrc : srcHint = none ∨ srcHint = some sp)
    (nonempty : List Bool) (hlen : nonempty.length = allEs.length) (om : Bool) (s : Option Nat)
    (present : Option Nat → Nat → Bool) (rows cols : Int) (hr : 1 ≤ rows) (hc : 1 ≤ cols) :
    ∃ frames, segFrames (allEs.map (linePos (normal rowCos colCos) base sp)) rowCos colCos nonempty om [s] present = .ok frames ∧
      (frames ≠ [] → ∃ st out keptEs, ∃ kmin : Int,
        (frames.map (fun f => f.plane)).mapM (fun k => allEs[k]?) = some keptEs ∧
        storeAligned rowCos colCos psRow psCol srcHint (allEs.map (linePos (normal rowCos colCos) base sp))
          (frames.map (fun f => f.plane)) = .ok st ∧ st.hint = some sp ∧
        getVolumeStack .seg st rows cols true ({} : Request) = .ok out ∧
        (∀ i (hi : i < keptEs.length), (i, keptEs[i] - kmin) ∈ out.frames ∧
          ∀ r c : Int, out.aff.apply (keptEs[i] - kmin) r c
            = add (add (linePos (normal rowCos colCos) base sp keptEs[i]) (smul ((r : Rat) * psRow) colCos))
                (smul ((c : Rat) * psCol) rowCos)) ∧
        (∀ i j (hi : i < frames.length) (hj : j < frames.length) (hi' : i < keptEs.length) (hj' : j < keptEs.length),
          frames[i].div < frames[j].div ↔ keptEs[i] - kmin < keptEs[j] - kmin)) := by
  set P : Nat → V3 := fun k => linePos (normal rowCos colCos) base sp (allEs.getD k 0) with hP
  have hpos : allEs.map (linePos (normal rowCos colCos) base sp) = (List.range nonempty.length).map P := by
    rw [hlen]
    have := map_range_getD allEs 0
    conv_lhs => rw [← this]
    rw [List.map_map]
    rfl
  have hget : ∀ k, k < allEs.length → allEs.getD k 0 = allEs[k]! := by
    intro k hk; simp [List.getD_eq_getElem?_getD, hk]
  have hinj : ∀ a < nonempty.length, ∀ b < nonempty.length, distOf P rowCos colCos a = distOf P rowCos colCos b → a = b := by
    intro a ha b hb' h
    have he := linePos_inj (normal rowCos colCos) base sp hsp hn _ _ h
    rw [hlen] at ha hb'
    rw [List.getD_eq_getElem?_getD, List.getD_eq_getElem?_getD, List.getElem?_eq_getElem ha, List.getElem?_eq_getElem hb'] at he
    simp only [Option.getD_some] at he
    exact (List.Nodup.getElem_inj_iff hnodup).mp he
  obtain ⟨frames, hok, hmem⟩ := mem_segFrames P rowCos colCos nonempty hinj om [s] present
  rw [← hpos] at hok
  refine ⟨frames, hok, ?_⟩
  intro hne
  -- the planes of the frames are pairwise different kept planes below the number of sources
  have hdist := frames_distinct P rowCos colCos nonempty hinj om [s] (by simp) present frames (by rw [← hpos]; exact hok)
  have hbound : ∀ f ∈ frames, f.plane < allEs.length := by
    intro f hf
    rw [← hlen]
    exact keptPlanes_bound nonempty om f.plane ((hmem f).mp hf).2.1
  have hseg : ∀ f ∈ frames, f.seg = s := by
    intro f hf
    simpa using ((hmem f).mp hf).1
  have hplanes : (frames.map (fun f => f.plane)).Nodup := by
    rw [List.Nodup, List.pairwise_map]
    apply hdist.imp_of_mem
    intro a b ha hb' hab
    rcases hab with hab | hab
    · exact absurd ((hseg a ha).trans (hseg b hb').symm) hab
    · exact hab
  have hkept : (frames.map (fun f => f.plane)).mapM (fun k => allEs[k]?) = some (frames.map (fun f => allEs.getD f.plane 0)) := by
    have : ∀ (l : List Frame), (∀ f ∈ l, f.plane < allEs.length) →
        (l.map (fun f => f.plane)).mapM (fun k => allEs[k]?) = some (l.map (fun f => allEs.getD f.plane 0)) := by
      intro l hl
      induction l with
      | nil => rfl
      | cons a t ih =>
        have ha := hl a List.mem_cons_self
        rw [List.map_cons, List.mapM_cons, ih (fun f hf => hl f (List.mem_cons_of_mem _ hf)), List.getElem?_eq_getElem ha]
        simp [List.getD_eq_getElem?_getD, ha]
    exact this frames hbound
  set keptEs := frames.map (fun f => allEs.getD f.plane 0) with hkE
  have hkne : keptEs ≠ [] := by simpa [hkE] using hne
  have hkn : keptEs.Nodup := by
    rw [hkE, List.Nodup, List.pairwise_map]
    rw [List.Nodup, List.pairwise_map] at hplanes
    apply hplanes.imp_of_mem
    intro a b ha hb' hab heq
    apply hab
    have h1 := hbound a ha
    have h2 := hbound b hb'
    rw [List.getD_eq_getElem?_getD, List.getD_eq_getElem?_getD, List.getElem?_eq_getElem h1, List.getElem?_eq_getElem h2] at heq
    simp only [Option.getD_some] at heq
    exact (List.Nodup.getElem_inj_iff hnodup).mp heq
  obtain ⟨st, hst, hhint, kmin, _, kmax, _, _, out, hout, _, hfr, happ⟩ :=
    aligned_sources_roundtrip rowCos colCos base psRow psCol sp hsp hn horth hpr hpc allEs emin emax hemin hemax hb hcomplete hlt
      hnodup srcHint hsrc (frames.map (fun f => f.plane)) keptEs hkept hkne hkn rows cols hr hc
  refine ⟨st, out, keptEs, kmin, hkept, hst, hhint, hout, ?_, ?_⟩
  · intro i hi
    refine ⟨?_, happ i hi⟩
    rw [hfr, List.mem_map]
    exact ⟨(keptEs[i], i), List.mem_zipIdx_iff_getElem?.mpr (by simp [hi]), rfl⟩
  · intro i j hi hj hi' hj'
    have hdl := div_lt_iff P rowCos colCos nonempty hinj om [s] present frames (by rw [← hpos]; exact hok) frames[i] frames[j]
      (List.getElem_mem hi) (List.getElem_mem hj)
    rw [hdl]
    have e1 : keptEs[i] = allEs.getD frames[i].plane 0 := by simp [hkE]
    have e2 : keptEs[j] = allEs.getD frames[j].plane 0 := by simp [hkE]
    unfold distOf
    rw [hP]
    simp only
    rw [dot_linePos _ _ _ _ hn, dot_linePos _ _ _ _ hn, e1, e2]
    constructor
    · intro h
      have : ((allEs.getD frames[i].plane 0 : Int) : Rat) < ((allEs.getD frames[j].plane 0 : Int) : Rat) := by
        by_contra hc'
        have := mul_le_mul_of_nonneg_right (not_lt.mp hc') (le_of_lt hsp)
        linarith
      have : allEs.getD frames[i].plane 0 < allEs.getD frames[j].plane 0 := by exact_mod_cast this
      omega
    · intro h
      have h' : allEs.getD frames[i].plane 0 < allEs.getD frames[j].plane 0 := by omega
      have : ((allEs.getD frames[i].plane 0 : Int) : Rat) < ((allEs.getD frames[j].plane 0 : Int) : Rat) := by exact_mod_cast h'
      have := mul_lt_mul_of_pos_right this hsp
      linarith

/-- **Handedness and the stored order**: for a volume the dimension index values ascend with the plane index when the
volume is right-handed and descend when it is left-handed (the mirror image along the stacking axis is already in the
stored order). -/
theorem volume_dimension_index_and_handedness {g : Geom} (hg : Admissible g) (nonempty : List Bool) (om : Bool)
    (segs : List (Option Nat)) (present : Option Nat → Nat → Bool) (frames : List Frame)
    (hok : segFrames ((List.range nonempty.length).map (planePosition g)) g.d2 g.d1 nonempty om segs present = .ok frames)
    (f f' : Frame) (hf : f ∈ frames) (hf' : f' ∈ frames) :
    f.div < f'.div ↔ handInt g * (f.plane : Int) < handInt g * (f'.plane : Int) := by
  rw [div_lt_iff (planePosition g) g.d2 g.d1 nonempty (fun a _ b _ h => volume_dist_inj hg a b h) om segs present frames hok f f' hf hf',
    volume_dist_lt hg]

/-- **Without omission the dimension index value IS the place along the stacking axis**: all planes kept, frame of plane
`k` of an `n`-plane volume gets index `k + 1` when the volume is right-handed and `n − k` when it is left-handed (the
stored order is the mirror image, as the read-back volume is). -/
theorem volume_dimension_index_without_omission {g : Geom} (hg : Admissible g) (nonempty : List Bool)
    (segs : List (Option Nat)) (present : Option Nat → Nat → Bool) (frames : List Frame)
    (hok : segFrames ((List.range nonempty.length).map (planePosition g)) g.d2 g.d1 nonempty false segs present = .ok frames)
    (f : Frame) (hf : f ∈ frames) :
    f.plane < nonempty.length ∧
    f.div = if handInt g = 1 then (f.plane : Int) + 1 else (nonempty.length : Int) - f.plane := by
  have hinj : ∀ a < nonempty.length, ∀ b < nonempty.length,
      distOf (planePosition g) g.d2 g.d1 a = distOf (planePosition g) g.d2 g.d1 b → a = b := fun a _ b _ h => volume_dist_inj hg a b h
  obtain ⟨frames', hok', hmem⟩ := mem_segFrames (planePosition g) g.d2 g.d1 nonempty hinj false segs present
  rw [hok'] at hok
  simp only [Except.ok.injEq] at hok
  subst hok
  obtain ⟨_, hk, _, hdiv, _⟩ := (hmem f).mp hf
  have hkept : keptPlanes nonempty false = List.range nonempty.length := by
    rw [keptPlanes_eq]; simp [omitEff]
  rw [hkept] at hk hdiv
  have hp : f.plane < nonempty.length := List.mem_range.mp hk
  refine ⟨hp, ?_⟩
  rw [hdiv]
  have hh : handInt g = 1 ∨ handInt g = -1 := by unfold handInt; split <;> simp
  rcases hh with hh | hh
  · rw [if_pos hh]
    have : (List.range nonempty.length).filter (fun k => decide (distOf (planePosition g) g.d2 g.d1 k < distOf (planePosition g) g.d2 g.d1 f.plane))
        = (List.range nonempty.length).filter (fun j => decide (j < f.plane)) := by
      apply List.filter_congr
      intro x _
      have := volume_dist_lt hg x f.plane
      rw [hh] at this
      simp only [one_mul, Nat.cast_lt] at this
      simp [this]
    rw [this, range_filter_lt _ _ (le_of_lt hp)]
    omega
  · have hne : ¬ (handInt g = 1) := by rw [hh]; decide
    rw [if_neg hne]
    have : (List.range nonempty.length).filter (fun k => decide (distOf (planePosition g) g.d2 g.d1 k < distOf (planePosition g) g.d2 g.d1 f.plane))
        = (List.range nonempty.length).filter (fun j => decide (f.plane < j)) := by
      apply List.filter_congr
      intro x _
      have := volume_dist_lt hg x f.plane
      rw [hh] at this
      have e : (-1 * (x : Int) < -1 * (f.plane : Int)) ↔ f.plane < x := by omega
      rw [e] at this
      simp [this]
    rw [this, range_filter_gt _ _ hp]
    omega

/-- **Bridge (tie T): the loop of the model uses the regenerated expressions of the current source** — the skip test
(`segment_number is not None`, `omit_empty_frames and not np.any(segment_array)`), the dimension index value
(`[plane_dim_ind]`), the index bookkeeping of the loop body in source order (`Gen.frameBookkeeping`: the index into
`pixel_array`, the index into `plane_positions`, the dimension index value — the triple `planeFrames` writes into a
frame's `plane`, `posPlane`, `div`), the first value of `enumerate(plane_sort_index, 1)` and the `omit_empty_frames` the
loop sees after the all-empty decision (TC03loop).  The target refuses (`Unsupported`) when the loop body, the branches it
descends into, `get_index_values` or the set of mentions of `plane_sort_index` / `plane_index` / `plane_dim_ind` contain a
statement it does not consume. -/
theorem frame_loop_uses_the_source :
    (∀ (s : Option Nat) (om present : Bool), frameSkipped (s.map Int.ofNat) om present = .ok (skipped s om present)) ∧
    (∀ d p : Int, framePlaneIndexValue d p = .ok d) ∧
    (∀ d p : Int, frameBookkeeping d p = .ok (p, p, d)) ∧
    (∀ (s : Option Nat) (om : Bool) (present : Option Nat → Nat → Bool) (d : Int) (p : Nat) (t : List Nat),
      skipped s om (present s p) = false →
      planeFrames s om present d (p :: t) = ⟨s, p, p, d⟩ :: planeFrames s om present (d + 1) t) ∧
    frameEnumStart = 1 ∧
    (∀ (nonempty : List Bool) (om : Bool), omitEffective om (nonemptyIdx nonempty).isEmpty = .ok (omitEff nonempty om)) ∧
    (∀ (segs : List (Option Nat)) (psi : List Nat) (om : Bool) (present : Option Nat → Nat → Bool),
      frameLoop segs psi om present = segs.flatMap (fun s => planeFrames s om present frameEnumStart psi)) :=
  ⟨frameSkipped_eq, framePlaneIndexValue_eq, frameBookkeeping_eq,
   fun s om present d p t h => by simp [planeFrames, h],
   frameEnumStart_eq, omitEffective_eq, fun _ _ _ _ => rfl⟩

set_option maxRecDepth 20000 in
/-- **Fingerprint: the frame loop and the plane order** (`frameLoop`, `planeFrames`, `includedPlanes`, `planeSortIndex`,
`Frame.indexValues` were written from these expressions; change detector, no clause content): segments outside, planes in
the order of the sort index inside; a frame takes pixels and position from the SAME `plane_index` (which source frame it references is C02's matter and
not pinned here);
omitted planes leave the sort index by membership; encoded frames of a worker pool are gathered in submission order; the
sort index is `np.unique(distances, return_index=True)` of `normal · position` with the right-handed normal of the volume
index convention; DimensionIndexValues = `[segment] + [position index]`. -/
theorem frame_loop_wiring :
    (wiringLoop.lookup "loop.outer.iter" = some "segments_iterable" ∧
     wiringLoop.lookup "loop.segments_iterable"
       = some "[None] if segmentation_type == SegmentationTypeValues.LABELMAP else described_segment_numbers" ∧
     wiringLoop.lookup "loop.inner.target" = some "(plane_dim_ind, plane_index)" ∧
     wiringLoop.lookup "loop.inner.iter" = some "enumerate(plane_sort_index, 1)") ∧
    (wiringLoop.lookup "frame.plane_array" = some "pixel_array[plane_index]" ∧
     wiringLoop.lookup "frame.pffg.plane_position" = some "plane_positions[plane_index]" ∧
     wiringLoop.lookup "frame.pffg.segment_number" = some "segment_number" ∧
     wiringLoop.lookup "frame.pffg.dimension_index_values" = some "dimension_index_values") ∧
    (wiringLoop.lookup "omit.some_nonempty.plane_sort_index"
       = some "[ind for ind in plane_sort_index if ind in included_plane_indices_set]" ∧
     wiringLoop.lookup "omit.some_nonempty.included_plane_indices_set" = some "set(included_plane_indices)" ∧
     wiringLoop.lookup "omit.nonempty_call" = some "self._get_nonempty_plane_indices(occupied_array)" ∧
     wiringLoop.lookup "nonempty.indices" = some "[i for i, frm in enumerate(pixel_array) if np.any(frm)]" ∧
     wiringLoop.lookup "nonempty.all_empty_if" = some "len(source_image_indices) == 0") ∧
    (wiringLoop.lookup "encode.gather" = some "[fut.result() for fut in frame_futures]" ∧
     wiringLoop.lookup "sort.call.index_convention" = some "VOLUME_INDEX_CONVENTION" ∧
     wiringLoop.lookup "sort.call.image_orientation"
       = some "plane_orientation[0].ImageOrientationPatient if self._coordinate_system == CoordinateSystemNames.PATIENT else None" ∧
     wiringLoop.lookup "sort.call.result" = some "(plane_position_values, plane_sort_index)" ∧
     wiringLoop.lookup "sort.assignments"
       = some "[ind for ind in plane_sort_index if ind in included_plane_in | np.arange(len(raw_plane_positions)) | np.array([0]) | self.DimensionIndexSequence.get_index_values(plane_positions" ∧
     wiringLoop.lookup "tile.sparse"
       = some "pos = plane_positions[plane_index][0] ; row_offset = pos.RowPositionInTotalImagePixelMatrix ; column_offset = pos.ColumnPositionInTotalImagePixelMatrix" ∧
     wiringLoop.lookup "tile.call"
       = some "pixel_array[0], row_offset=row_offset, column_offset=column_offset, tile_rows=self.Rows, tile_columns=self.Columns" ∧
     wiringLoop.lookup "tile.full.row_offset" = some "int(plane_position_values[plane_index, row_dim_index])" ∧
     wiringLoop.lookup "tile.full.column_offset" = some "int(plane_position_values[plane_index, col_dim_index])" ∧
     wiringLoop.lookup "slide.plane_pos_val" = some "plane_position_values[plane_index]" ∧
     wiringLoop.lookup "slide.index_values"
       = some "dimension_index_values = [int(np.where(unique_dimension_values[idx] == pos)[0][0] + 1) for idx, pos in enumerate(plane_pos_val)]" ∧
     wiringLoop.lookup "slide.column_swap" = some "plane_position_values[:, [1, 0, 2, 3, 4]]" ∧
     wiringLoop.lookup "slide.unique_dimension_values"
       = some "[np.unique(plane_position_values[included_plane_indices, index], axis=0) for index in range(plane_position_values.shape[1])] | [None]") ∧
    (wiringLoop.lookup "pffg.all_index_values" = some "dimension_index_values | [int(segment_number)] + dimension_index_values" ∧
     wiringLoop.lookup "pffg.all_index_values_if" = some "segment_number is None" ∧
     wiringLoop.lookup "pffg.elements"
       = some "00209113=plane_position ; 00209157=all_index_values ; 0048021a=plane_position ; 0062000b=int(segment_number)") ∧
    (wiringIndexValues.lookup "patient.unique" = some "_, plane_sort_indices = np.unique(origin_distances, return_index=True)" ∧
     wiringIndexValues.lookup "patient.origin_distances" = some "_get_slice_distances(plane_position_values[:, 0, :], normal_vector)" ∧
     wiringIndexValues.lookup "patient.normal_vector"
       = some "get_normal_vector(image_orientation, index_convention=index_convention, handedness=handedness)" ∧
     wiringIndexValues.lookup "default.handedness" = some "AxisHandedness.RIGHT_HANDED" ∧
     wiringIndexValues.lookup "refused_if" = some "len(plane_sort_indices) != len(plane_positions)" ∧
     wiringIndexValues.lookup "returns" = some "(plane_position_values, plane_sort_indices)") ∧
    (wiringDistances.lookup "slice_distances.body"
       = some "origin_distances = normal_vector[None] @ image_positions.T ; origin_distances = origin_distances.squeeze(0) ; return origin_distances" ∧
     wiringDistances.lookup "normal.right_handed" = some "n = np.cross(rotation_columns[0], rotation_columns[1])") := by
  refine ⟨⟨by decide, by decide, by decide, by decide⟩, ⟨by decide, by decide, by decide, by decide⟩,
    ⟨by decide, by decide, by decide, by decide, by decide⟩,
    ⟨by decide, by decide, by decide, by decide, by decide, by decide, by decide, by decide, by decide, by decide, by decide, by decide,
     by decide⟩,
    ⟨by decide, by decide, by decide⟩, ⟨by decide, by decide, by decide, by decide, by decide, by decide⟩,
    ⟨by decide, by decide⟩⟩

/-! ## 9. The tiles a segmentation stores for a total-pixel-matrix mask (`tileFrames`: TILED_SPARSE, pyramid levels)

For EVERY matrix size `R × C`, tile size `tr × tc` (non-square, with remainders), orientation, pixel spacing, emptiness
pattern and segment layout.  `tileGrid` / `tilePosition` / `rankOf` are hand-written from
`compute_tile_positions_per_frame` and the constructor's `np.unique` look-up; `tileGrid` / `tilePosition` are bridged to the
regenerated expressions of that function (`tiles_use_the_source`: T7b, T7g, TC10f, TC03rot), `rankOf` and the loop are tied to
the code by the correspondence stream `tiled/frames`, `tiledpos/frames` (L1: segment,
offset, slide position and DimensionIndexValues of every stored tile in stored order — from a mask, from a SLIDE volume, from
individually handed-over tiles in any order) and the skip test by `frame_loop_uses_the_source`. -/

/-- **Every stored tile is a tile of the grid, inside the matrix, recorded at the position of its first pixel**: offsets
`(i·tr + 1, j·tc + 1)` with `1 ≤ row ≤ R`, `1 ≤ column ≤ C`; slide coordinates = origin moved `row − 1` rows and `column − 1`
columns. -/
theorem stored_tiles_are_grid_tiles (origin rowCos colCos : V3) (psRow psCol : Rat) (R C tr tc : Nat) (htr : 0 < tr) (htc : 0 < tc)
    (nonempty : List Bool) (om : Bool) (segs : List (Option Nat)) (present : Option Nat → Nat → Bool) (f : TileFrame)
    (hf : f ∈ tileFrames origin rowCos colCos psRow psCol R C tr tc nonempty om segs present) :
    f.seg ∈ segs ∧ (tileGrid R C tr tc)[f.tile]? = some (f.row, f.col) ∧
    1 ≤ f.row ∧ f.row ≤ R ∧ 1 ≤ f.col ∧ f.col ≤ C ∧
    f.pos = tilePosition origin rowCos colCos psRow psCol f.row f.col := by
  obtain ⟨h1, h2, h3, h4, _, _⟩ := mem_tileFrames origin rowCos colCos psRow psCol R C tr tc nonempty om segs present f hf
  obtain ⟨h5, h6, h7, h8⟩ := tileGrid_inside R C tr tc htr htc _ h2
  exact ⟨h1, h3, h5, h6, h7, h8, h4⟩

/-- **The stored position of every tile is the affine image of its pixel offset under the geometry the image reports**
(`get_volume_geometry` of the tiled segmentation): read-back geometry ∘ stored offset = stored position, for all shapes
and orientations. -/
theorem tile_frame_positions_are_affine_images (origin rowCos colCos : V3) (psRow psCol : Rat) (sbs : Option Rat) (R C tr tc : Nat)
    (nonempty : List Bool) (om : Bool) (segs : List (Option Nat)) (present : Option Nat → Nat → Bool) (full : Aff)
    (hfull : volumeGeometryTiled origin rowCos colCos psRow psCol sbs = .ok full) (f : TileFrame)
    (hf : f ∈ tileFrames origin rowCos colCos psRow psCol R C tr tc nonempty om segs present) :
    full.apply 0 (f.row - 1) (f.col - 1) = f.pos := by
  obtain ⟨_, _, _, h4, _, _⟩ := mem_tileFrames origin rowCos colCos psRow psCol R C tr tc nonempty om segs present f hf
  rw [tiled_geometry_positions origin rowCos colCos psRow psCol sbs full hfull, h4]
  rfl

/-- **A sub-region that starts at a stored tile starts at the tile's recorded position** (`get_volume(row_start=row,
column_start=column)` of the tiled segmentation, one-based as recorded): read side and write side agree tile by tile. -/
theorem tile_subvolume_starts_at_the_tile (origin rowCos colCos : V3) (psRow psCol : Rat) (sbs : Option Rat) (R C tr tc : Nat)
    (htr : 0 < tr) (htc : 0 < tc) (nonempty : List Bool) (om : Bool) (segs : List (Option Nat)) (present : Option Nat → Nat → Bool)
    (f : TileFrame) (hf : f ∈ tileFrames origin rowCos colCos psRow psCol R C tr tc nonempty om segs present) (out : VolOut)
    (h : tiledVolume .seg origin rowCos colCos psRow psCol sbs R C
      { rowStart := some f.row, colStart := some f.col } = .ok out) :
    out.aff.apply 0 0 0 = f.pos ∧ out.rows = (R : Int) - (f.row - 1) ∧ out.cols = (C : Int) - (f.col - 1) := by
  obtain ⟨_, _, hr1, hr2, hc1, hc2, hpos⟩ :=
    stored_tiles_are_grid_tiles origin rowCos colCos psRow psCol R C tr tc htr htc nonempty om segs present f hf
  obtain ⟨full, a, b, c, d, hfull, hT3, _, haff, _, hrw, hcl, _, _, hab, _, _, _, hcd, _⟩ :=
    tiled_subvolume_origin .seg origin rowCos colCos psRow psCol sbs R C _ out h
  have hspec : ∀ r n : Int, 1 ≤ r → r ≤ n → sliceSpec (some r) none n false = some (r - 1, n) := by
    intro r n h1 h2
    unfold sliceSpec convArg wrapIdx
    simp only [Bool.false_eq_true, if_false]
    have h0 : ¬ (r = 0) := by omega
    have hp : 0 < r := by omega
    simp [h0, hp]
    omega
  have hs1 := hspec f.row R hr1 hr2
  have hs2 := hspec f.col C hc1 hc2
  have hk := (stdRowColIndices_spec (some f.row) none (some f.col) none R C false (f.row - 1) R (f.col - 1) C).mpr ⟨hs1, hs2⟩
  simp only at hT3
  rw [hk.1] at hT3
  simp only [Except.ok.injEq, Prod.mk.injEq] at hT3
  obtain ⟨rfl, rfl, rfl, rfl⟩ := hT3
  refine ⟨?_, hrw, hcl⟩
  rw [haff, tiled_geometry_positions origin rowCos colCos psRow psCol sbs full hfull, hpos]
  simp only [add_zero]
  rfl

/-- **DimensionIndexValues of tiles follow their offsets and coordinates**: the row / column index of one stored tile is
smaller than another's exactly when its row / column offset is, and the x / y / z indices order the tiles by their slide
coordinates. -/
theorem tile_dimension_indices_follow_offsets (origin rowCos colCos : V3) (psRow psCol : Rat) (R C tr tc : Nat)
    (nonempty : List Bool) (om : Bool) (segs : List (Option Nat)) (present : Option Nat → Nat → Bool) (f f' : TileFrame)
    (hf : f ∈ tileFrames origin rowCos colCos psRow psCol R C tr tc nonempty om segs present)
    (hf' : f' ∈ tileFrames origin rowCos colCos psRow psCol R C tr tc nonempty om segs present) :
    ∃ r c x y z r' c' x' y' z' : Int, f.div = [r, c, x, y, z] ∧ f'.div = [r', c', x', y', z'] ∧
      1 ≤ r ∧ 1 ≤ c ∧ 1 ≤ x ∧ 1 ≤ y ∧ 1 ≤ z ∧
      (r < r' ↔ f.row < f'.row) ∧ (c < c' ↔ f.col < f'.col) ∧
      (x < x' ↔ f.pos.x < f'.pos.x) ∧ (y < y' ↔ f.pos.y < f'.pos.y) ∧ (z < z' ↔ f.pos.z < f'.pos.z) := by
  have hk := (mem_tileFrames origin rowCos colCos psRow psCol R C tr tc nonempty om segs present f hf).2.2.2.2.2
  have hk' := (mem_tileFrames origin rowCos colCos psRow psCol R C tr tc nonempty om segs present f' hf').2.2.2.2.2
  unfold tileFrames at hf hf'
  obtain ⟨s, _, hfs⟩ := List.mem_flatMap.mp hf
  obtain ⟨s', _, hfs'⟩ := List.mem_flatMap.mp hf'
  obtain ⟨_, _, _, hd⟩ := mem_tileFramesOf s _ present _ _ f hfs
  obtain ⟨_, _, _, hd'⟩ := mem_tileFramesOf s' _ present _ _ f' hfs'
  set kept := keptTiles (tilesOf origin rowCos colCos psRow psCol R C tr tc) nonempty om with hkept
  have hm : ((f.row, f.col), f.pos) ∈ kept.map (fun p => p.1) := List.mem_map.mpr ⟨_, hk, rfl⟩
  have hm' : ((f'.row, f'.col), f'.pos) ∈ kept.map (fun p => p.1) := List.mem_map.mpr ⟨_, hk', rfl⟩
  have mem : ∀ (g : Tile → Rat) (q : Tile), q ∈ kept.map (fun p => p.1) → g q ∈ (kept.map (fun p => p.1)).map g :=
    fun g q hq => List.mem_map.mpr ⟨q, hq, rfl⟩
  refine ⟨_, _, _, _, _, _, _, _, _, _, hd, hd', rankOf_pos _ _, rankOf_pos _ _, rankOf_pos _ _, rankOf_pos _ _, rankOf_pos _ _,
    ?_, ?_, ?_, ?_, ?_⟩
  · rw [rankOf_lt_iff _ _ _ (mem (fun k => (k.1.1 : Rat)) _ hm) (mem (fun k => (k.1.1 : Rat)) _ hm')]
    exact Int.cast_lt
  · rw [rankOf_lt_iff _ _ _ (mem (fun k => (k.1.2 : Rat)) _ hm) (mem (fun k => (k.1.2 : Rat)) _ hm')]
    exact Int.cast_lt
  · exact rankOf_lt_iff _ _ _ (mem (fun k => k.2.x) _ hm) (mem (fun k => k.2.x) _ hm')
  · exact rankOf_lt_iff _ _ _ (mem (fun k => k.2.y) _ hm) (mem (fun k => k.2.y) _ hm')
  · exact rankOf_lt_iff _ _ _ (mem (fun k => k.2.z) _ hm) (mem (fun k => k.2.z) _ hm')

/-- **No non-empty tile is lost**: a tile of the grid that is kept (non-empty, or every tile without `omit_empty_frames`) has
a frame for every segment of the loop that is not skipped there, at the grid's offset and position. -/
theorem kept_tiles_are_stored (origin rowCos colCos : V3) (psRow psCol : Rat) (R C tr tc : Nat) (nonempty : List Bool) (om : Bool)
    (segs : List (Option Nat)) (present : Option Nat → Nat → Bool) (s : Option Nat) (hs : s ∈ segs) (q : Tile) (i : Nat)
    (hq : (q, i) ∈ keptTiles (tilesOf origin rowCos colCos psRow psCol R C tr tc) nonempty om)
    (hsk : skipped s (omitEff nonempty om) (present s i) = false) :
    ∃ f ∈ tileFrames origin rowCos colCos psRow psCol R C tr tc nonempty om segs present,
      f.seg = s ∧ f.tile = i ∧ f.row = q.1.1 ∧ f.col = q.1.2 ∧ f.pos = q.2 := by
  obtain ⟨f, hf, hr⟩ := tileFramesOf_complete s (omitEff nonempty om) present
    ((keptTiles (tilesOf origin rowCos colCos psRow psCol R C tr tc) nonempty om).map (fun p => p.1)) _ q i hq hsk
  exact ⟨f, List.mem_flatMap.mpr ⟨s, hs, hf⟩, hr⟩

/-- **Bridge 5 (tie T for the tiles): grid and positions of the model are the regenerated ones of
`compute_tile_positions_per_frame`** — the tile counts (`Gen.tilesPerAxisFloor`, T7b), the running order and the 0-based /
1-based offset pairs (`Gen.tileGridRanges`, `Gen.tileOffsetOf`, T7g; regenerated for C12) and, for the slide coordinates,
the `PixelToReferenceTransformer` = `create_affine_matrix_from_attributes` with its default index convention
(`Gen.affineDefaultConvention`, TC10f, regenerated for C10) and the column selections of `create_rotation_matrix`
(`Gen.rotSelect`, TC03rot) applied to the regenerated 0-based pixel index pair of the tile.  Hand-written remainders:
`np.meshgrid(…, indexing='xy').reshape(2, -1).T` as a nested enumeration (pinned textually by T7g), the matrix-vector
product of the transformer. -/
theorem tiles_use_the_source :
    (∀ R C tr tc : Nat, 0 < R → 0 < C → 0 < tr → 0 < tc → tileGrid R C tr tc = tileGridGen R C tr tc) ∧
    (∀ (origin rowCos colCos : V3) (psRow psCol : Rat) (i j tr tc : Nat),
      match tileOffsetOf (j : Int) (i : Int) tr tc with
      | .ok (p0, p1, c1, r1) =>
        tilePosition origin rowCos colCos psRow psCol r1 c1 = pixToRefGen origin rowCos colCos psRow psCol p0 p1
      | .error _ => False) :=
  ⟨tileGrid_eq_gen, tilePosition_eq_gen⟩

/-! ## Non-vacuity: the hypotheses are satisfiable by concrete, non-trivial inputs -/

/-- a left-handed, anisotropic, axis-swapped geometry (directions: d0 = −z, d1 = x, d2 = y) -/
def gLeft : Geom := ⟨⟨0, 0, -1⟩, ⟨1, 0, 0⟩, ⟨0, 1, 0⟩, 5 / 2, 3 / 4, 1 / 2, ⟨10, -3, 7⟩⟩
/-- a right-handed oblique geometry (3-4-5 rotation about z) -/
def gOblique : Geom := ⟨⟨3 / 5, 4 / 5, 0⟩, ⟨-4 / 5, 3 / 5, 0⟩, ⟨0, 0, 1⟩, 2, 1, 5 / 4, ⟨1 / 8, 0, -100⟩⟩

example : Admissible gLeft ∧ gLeft.det = -1 := by
  refine ⟨⟨⟨?_, ?_, ?_, ?_, ?_, ?_⟩, ?_, ?_, ?_⟩, ?_⟩ <;> norm_num [gLeft, dot, cross, Geom.det]
example : Admissible gOblique ∧ gOblique.det = 1 := by
  refine ⟨⟨⟨?_, ?_, ?_, ?_, ?_, ?_⟩, ?_, ?_, ?_⟩, ?_⟩ <;> norm_num [gOblique, dot, cross, Geom.det]

/-- planes 4, 1 and 2 of a left-handed volume kept (0, 3, 5 omitted), stored out of order -/
example : ([4, 1, 2] : List Nat) ≠ [] := by decide

/-- the hypotheses of `aligned_sources_any_order` hold for the stack stored by a volume -/
example : StackOK (storeStack gLeft [4, 1, 2]) :=
  stackOK_store (by refine ⟨⟨?_, ?_, ?_, ?_, ?_, ?_⟩, ?_, ?_, ?_⟩ <;> norm_num [gLeft, dot, cross]) _

/-- `aligned_sources_roundtrip` / `inferred_slice_spacing`: a shuffled complete source stack, planes 0 and 2 kept -/
example : ([0, 2] : List Nat).mapM (fun k => ([2, 0, 1, 3] : List Int)[k]?) = some [2, 1] := by decide
example : ([2, 0, 1, 3] : List Int).Nodup ∧ (∀ z : Int, 0 ≤ z → z ≤ 3 → z ∈ ([2, 0, 1, 3] : List Int)) := by
  refine ⟨by decide, ?_⟩
  intro z h0 h3
  have : z = 0 ∨ z = 1 ∨ z = 2 ∨ z = 3 := by omega
  rcases this with rfl | rfl | rfl | rfl <;> simp

/-- `placement_robust_to_rounding`: a non-zero rounding error satisfying the hypothesis -/
example (n base : V3) (sp : Rat) (hsp : 0 < sp) :
    PertF n base sp (fun e => add (linePos n base sp e) ⟨sp / 200000, -(sp / 200000), 0⟩) := by
  refine ⟨fun e => ⟨⟨sp / 200000, -(sp / 200000), 0⟩, rfl, ?_⟩⟩
  simp only [dot]
  nlinarith [mul_pos hsp hsp]

/-- the uniqueness hypothesis holds for pairwise different kept planes (label map / one segment) … -/
example : framesUnique .seg (withChan (storeStack gLeft [4, 1, 2]) []) = true :=
  framesUnique_of_nodup .seg _ rfl (planePosition_nodup
    (by refine ⟨⟨?_, ?_, ?_, ?_, ?_, ?_⟩, ?_, ?_, ?_⟩ <;> norm_num [gLeft, dot, cross]) _ (by decide))
/-- … and `allDistinct` separates equal planes by their segment -/
example : allDistinct ([(4, 1), (1, 1), (1, 2)] : List (Nat × Nat)) = true ∧
    allDistinct ([(4, 1), (1, 2), (1, 2)] : List (Nat × Nat)) = false := by decide

/-- concrete requests: accepted ones mean the Python slice, the two repaired defects stay repaired -/
example : stdSliceIndices (some 1) (some 3) 5 false = .ok (0, 2) := by decide
example : stdSliceIndices (some (-6)) none 5 true = .error .index := by decide
example : stdSliceIndices (some (-2)) none 5 false = .ok (3, 5) := by decide
example : stdSliceIndices (some 2) (some 0) 5 false = .error .value := by decide
example : sliceSpec (some 1) (some 3) 5 false = some (0, 2) := by decide
example : sliceSpec (some (-6)) none 5 true = none := by decide

/-- `pyramid_extent` on a rank-3 mask (1, 16, 24) and its level (1, 8, 12): hypotheses hold, spacing doubles -/
example : pyramidSpacing (1 / 2) (1 / 4) 3 1 16 24 3 1 8 12 = .ok (1, 1 / 2) := by
  unfold pyramidSpacing; norm_num
example : maskRows 3 1 8 ≠ 0 ∧ maskCols 3 8 12 ≠ 0 := by decide

/-- the bridges are about non-trivial values: an accepted and two refused requests through the regenerated side, an
anisotropic oblique-free geometry whose three columns differ, a perpendicular span of rational length -/
example : SegGeomTie.getitemAxisGen (some (-3)) (some 5) 5 = .ok (2, 3) ∧
    SegGeomTie.getitemAxisGen (some 1) (some 6) 5 = .error .value ∧
    SegGeomTie.getitemAxisGen (some 3) (some 2) 5 = .error .index := by decide
example : SegGeomTie.fromAttributesGen ⟨1, 2, 3⟩ ⟨1, 0, 0⟩ ⟨0, 1, 0⟩ (1 / 2) (1 / 4) 3 =
    .ok ⟨⟨0, 0, -3⟩, ⟨0, 1 / 2, 0⟩, ⟨1 / 4, 0, 0⟩, ⟨1, 2, 3⟩⟩ := by
  rw [← SegGeomTie.fromAttributes_eq_gen]
  norm_num [fromAttributes, orthogonalCols, normal, cross, smul, dot, rabs, tolEq]
example : vpIsPerp (dot ⟨0, 0, 1⟩ ⟨0, 0, 5⟩ / 5) = .ok true := by
  rw [SegGeomTie.isPerp_eq_gen _ _ 5 (by norm_num) (by norm_num [dot])]
  norm_num [isPerp, dot, tolPerp]

-- section 8: planes of a left-handed volume lie at pairwise different distances; a concrete run of the loop (planes
-- 3, 2, 0 kept in that order for a left-handed volume, the frame of segment 1 in plane 2 skipped, dimension index 2 unused)
def presentEx : Option Nat → Nat → Bool := fun s k => (s == some 1 && k != 2) || (s == some 2 && k == 3)
example : ∀ a < 4, ∀ b < 4, distOf (planePosition gLeft) gLeft.d2 gLeft.d1 a = distOf (planePosition gLeft) gLeft.d2 gLeft.d1 b → a = b :=
  fun a _ b _ h => volume_dist_inj (by constructor <;> (try constructor) <;> norm_num [gLeft, dot]) a b h
example : segFrames ((List.range 4).map (planePosition gLeft)) gLeft.d2 gLeft.d1 [true, false, true, true] true
    (segmentsIterable false [1, 2]) presentEx = .ok [⟨some 1, 3, 3, 1⟩, ⟨some 1, 0, 0, 3⟩, ⟨some 2, 3, 3, 1⟩] := by decide +kernel
example : ([1, 2] : List Nat).Nodup ∧ (segmentsIterable false [1, 2]).Pairwise (fun a b => segRank a < segRank b) ∧
    (segmentsIterable true [1, 2]).Pairwise (fun a b => segRank a < segRank b) := by decide
example : segFrames ((List.range 3).map (fun _ => (⟨0, 0, 1⟩ : V3))) ⟨1, 0, 0⟩ ⟨0, 1, 0⟩ [true, true, true] false [none] (fun _ _ => true)
    = .error .value := by decide +kernel
example : frameSkipped (some 2) true false = .ok true ∧ frameSkipped none true false = .ok false := by decide

-- section 9: a 6 × 8 matrix in 4 × 4 tiles (remainder rows), tiles 0 and 3 kept: two frames, indices (1,1,2,2,1) and (2,2,1,1,1)
example : (tileFrames ⟨10, 20, 0⟩ ⟨0, -1, 0⟩ ⟨-1, 0, 0⟩ (1 / 2) (1 / 4) 6 8 4 4 [true, false, false, true] true [none]
    (fun _ _ => true)).map (fun f => (f.row, f.col, f.pos, f.div))
    = [(1, 1, ⟨10, 20, 0⟩, [1, 1, 2, 2, 1]), (5, 5, ⟨8, 19, 0⟩, [2, 2, 1, 1, 1])] := by decide +kernel
example : volumeGeometryTiled ⟨10, 20, 0⟩ ⟨0, -1, 0⟩ ⟨-1, 0, 0⟩ (1 / 2) (1 / 4) none
    = .ok ⟨⟨0, 0, 1⟩, ⟨-1 / 2, 0, 0⟩, ⟨0, -1 / 4, 0⟩, ⟨10, 20, 0⟩⟩ := by
  norm_num [volumeGeometryTiled, defaultSpacing, fromAttributes, orthogonalCols, normal, cross, smul, dot, rabs, tolEq]

example : ([true, false, true, true] : List Bool).length = ([2, 0, 1, 3] : List Int).length := rfl

example : tileGridGen 6 8 4 4 = [(1, 1), (1, 5), (5, 1), (5, 5)] ∧ tileGrid 6 8 4 4 = [(1, 1), (1, 5), (5, 1), (5, 5)] := by decide
example : frameBookkeeping 3 7 = .ok (7, 7, 3) := rfl

end HdVerif.C03
