import HdVerif.Proofs.Codec
import HdVerif.Proofs.CodecTie
import HdVerif.Proofs.CodecIff
import HdVerif.Proofs.CodecGlue
import HdVerif.Proofs.CodecDecode
/-! # C07  Lossless frame encoding round-trips and rejects what it cannot encode

Property theorems only (helper lemmas: `Proofs/Codec.lean`).  The accept / refuse / dispatch logic of
`frame.encode_frame` and `frame.decode_frame` is **regenerated from /repo's current source** on every
run (`Gen.encodeFrameRoute`, `Gen.decodeFrameRoute`, `Gen.bitSlice`, tie T); `Model/Codec.lean` adds the
native encodings (bit packing, little-endian two's-complement cells, pydicom's one-frame decode) and
an abstract codec for the encapsulated syntaxes.

A frame `x` is a shape `(rows, cols[, samples])`, a numpy dtype and its values in C order; `x.WF` says
there are `rows*cols*samples` values of that dtype; `FitsStored p x` that they fit `bits_stored`. -/
namespace HdVerif.C07
open HdVerif HdVerif.Bits HdVerif.Gen HdVerif.Codec

/-! ## what is accepted -/

/-- **Validation = its acceptance relation** (`validate_sound` and its converse).  For every transfer syntax
string, every integer bits allocated / stored / pixel representation, every photometric
interpretation string, planar configuration, array rank, shape and dtype: the decision tree of the
*current* `encode_frame` accepts a request and hands it to encoder `r` iff the request satisfies
`AcceptSpec` with that `r`.  `AcceptSpec` is the decision tree **flattened into one relation per transfer-syntax
family** -- it follows the docstring and PS3.5 section 8 where the code does, and the code where it has rules of its own
(the 32-pixel limit of openjpeg, cells of `ceil(bits allocated / 8)` bytes, RLE left to pydicom): it is the form in
which the refusal theorems below are provable, not an independent standard-side specification.  The standard-side
content is `Representable` (`accepted_is_representable_partial`, one direction). -/
theorem encode_accepts_iff_spec (p : Params) (x : Frame) (r : Int) :
    encodeRoute p x = .ok r ↔ AcceptSpec (Req.of p x) r :=
  route_iff (Req.of p x) r

/-- ... and on every route the codec is handed **the request's own** rows, columns, samples per pixel, bits
allocated, bits stored and pixel representation (for the pydicom encoder: the keyword arguments of the call
as they stand in the source; the remaining keywords are checked textually by the translation target). -/
theorem encode_hands_off_request (p : Params) (x : Frame) (v : Int × Int × Int × Int × Int × Int × Int) :
    encodeRouteFull p x = .ok v ↔ AcceptSpec (Req.of p x) v.1 ∧ HandOff (Req.of p x) v :=
  routeFull_iff (Req.of p x) v

/- Full statement (does NOT hold on the current code, see `counterexample_bits_allocated_12`):
   accepted_is_representable : encodeRoute p x = .ok r → p.ts ≠ rle → Representable p x -/
/-- Accepted ⇒ representable as a DICOM pixel data element (1 or 3 samples with a fitting photometric
interpretation, planar configuration iff colour, bits stored within bits allocated, and for native
frames: cell width and signedness equal to the array's, samples within the stored bits, single-bit frames
filling whole bytes).  Partial: a bits-allocated value that is neither 1 nor a multiple of 8 is excluded
(open finding C07-bits-allocated-not-byte-multiple).  RLE is excluded only because `encode_frame` leaves
those checks to pydicom's RLE encoder. -/
theorem accepted_is_representable_partial (p : Params) (x : Frame) (r : Int) (h : encodeRoute p x = .ok r)
    (hrle : p.ts ≠ rle) (hal : p.bitsAllocated = 1 ∨ p.bitsAllocated % 8 = 0) : Representable p x :=
  representable_of_accepted p x r h hrle hal

/-- **Open finding C07-bits-allocated-not-byte-multiple**: 12 bits allocated over uint16 cells (what `SCImage` passes
for `bits_allocated=12`) is accepted by the native route although PS3.5 8.1.1 allows only 1 or multiples of 8; the
bytes cannot be decoded with the same parameters (pydicom refuses the data set). -/
theorem counterexample_bits_allocated_12 (c : CodecImpl) (conv : List Int → List Int) :
    encodeFrame c ⟨"1.2.840.10008.1.2.1", 12, 12, "MONOCHROME2", 0, none⟩ ⟨1, 2, none, .u16, [1, 4095]⟩ = .ok [1, 0, 255, 15] ∧
    decodeFrame c conv ⟨"1.2.840.10008.1.2.1", 12, 12, "MONOCHROME2", 0, none⟩ 1 2 1 [1, 0, 255, 15] = .error .value ∧
    ¬ Representable ⟨"1.2.840.10008.1.2.1", 12, 12, "MONOCHROME2", 0, none⟩ ⟨1, 2, none, .u16, [1, 4095]⟩ := by
  refine ⟨?_, ?_, ?_⟩
  · have hf : encodeRouteFull ⟨"1.2.840.10008.1.2.1", 12, 12, "MONOCHROME2", 0, none⟩ ⟨1, 2, none, .u16, [1, 4095]⟩ =
        .ok (2, 1, 2, 1, 12, 12, 0) := by rfl
    unfold encodeFrame; rw [hf]; rfl
  · have hr : decodeFrameRoute (isEncapsulated "1.2.840.10008.1.2.1") 12 ((1 : Nat) : Int) "MONOCHROME2" 0 none = .ok 2 := by decide
    unfold decodeFrame
    simp only [hr, bind, Except.bind]
    have h21 : ¬ ((2 : Int) = 1) := by decide
    simp only [h21, ↓reduceIte]
    exact pydicomNative_refuses_allocated conv _ 1 2 1 _ (by decide)
  · intro h
    rcases h.allocated with h1 | h1 <;> revert h1 <;> decide

/-! ## rejects what it cannot encode -/

/-- A request is refused (an exception, no bytes) exactly when it is outside the specification. -/
theorem refused_iff_outside_spec (p : Params) (x : Frame) :
    (∃ e, encodeRoute p x = .error e) ↔ ¬ ∃ r, AcceptSpec (Req.of p x) r :=
  refused_iff p x

/-- ... and then `encode_frame` as a whole raises. -/
theorem refused_yields_no_bytes (c : CodecImpl) (p : Params) (x : Frame) (e : ErrKind)
    (h : encodeRoute p x = .error e) : encodeFrame c p x = .error e :=
  encodeFrame_refused c p x e h

/-- Native: an array whose items are not `ceil(bits_allocated / 8)` bytes wide is refused
(uint16 data declared as 8 bit, uint8 data declared as 16 bit, ...). -/
theorem refuses_cell_width_mismatch (p : Params) (x : Frame) (hts : p.ts ∈ nativeSyntaxes)
    (hba : p.bitsAllocated ≠ 1) (hw : (x.dtype.itemsize : Int) ≠ (p.bitsAllocated + 7) / 8) :
    ∃ e, encodeRoute p x = .error e := by
  rw [refused_iff]; rintro ⟨r, _, hs⟩
  have : p.ts = "1.2.840.10008.1.2" ∨ p.ts = "1.2.840.10008.1.2.1" := by simpa [nativeSyntaxes] using hts
  simp only [NativeOK, BaselineOK, RleOK, JpegFamilyOK, Req.of, jpegBaseline, rle, jpegLs, jpegLsNear, j2k, j2kLossless] at hs
  grind (splits := 40)

/-- Native: signed data declared unsigned, or unsigned (or bool) data declared signed, is refused. -/
theorem refuses_signedness_mismatch (p : Params) (x : Frame) (hts : p.ts ∈ nativeSyntaxes)
    (hba : p.bitsAllocated ≠ 1) (hs : ¬ (x.dtype.signed = true ↔ p.pixelRepresentation = 1)) :
    ∃ e, encodeRoute p x = .error e := by
  rw [refused_iff]; rintro ⟨r, _, hsp⟩
  have : p.ts = "1.2.840.10008.1.2" ∨ p.ts = "1.2.840.10008.1.2.1" := by simpa [nativeSyntaxes] using hts
  have hk := kind_signed_iff x.dtype
  simp only [NativeOK, BaselineOK, RleOK, JpegFamilyOK, Req.of, jpegBaseline, rle, jpegLs, jpegLsNear, j2k, j2kLossless] at hsp
  grind (splits := 40)

/-- Native: floating point arrays are refused. -/
theorem refuses_float (p : Params) (x : Frame) (hts : p.ts ∈ nativeSyntaxes) (hba : p.bitsAllocated ≠ 1)
    (hf : x.dtype.isInt = false) : ∃ e, encodeRoute p x = .error e := by
  rw [refused_iff]; rintro ⟨r, _, hsp⟩
  have : p.ts = "1.2.840.10008.1.2" ∨ p.ts = "1.2.840.10008.1.2.1" := by simpa [nativeSyntaxes] using hts
  have hk := kind_int_iff x.dtype
  simp only [NativeOK, BaselineOK, RleOK, JpegFamilyOK, Req.of, jpegBaseline, rle, jpegLs, jpegLsNear, j2k, j2kLossless] at hsp
  grind (splits := 40)

/-- Any syntax: bits stored outside `1 .. bits allocated` is refused. -/
theorem refuses_bits_stored_out_of_range (p : Params) (x : Frame)
    (h : p.bitsStored < 1 ∨ p.bitsAllocated < p.bitsStored) : ∃ e, encodeRoute p x = .error e := by
  rw [refused_iff]; rintro ⟨r, ⟨_, _, _, _, h1, h2⟩, _⟩
  simp only [Req.of] at h1 h2
  omega

/-- Any syntax, any request (stated over the raw inputs of the decision tree, so also for ranks a `Frame` cannot express):
an array that is neither `(rows, columns)` nor `(rows, columns, samples)` is refused (a 4-D array used to be encoded
natively and decoded to a different array: finding C07-rank-unchecked, fixed). -/
theorem refuses_other_ranks (q : Req) (h : q.ndim ≠ 2 ∧ q.ndim ≠ 3) : ∃ e, q.route = .error e := by
  cases hr : q.route with
  | error e => exact ⟨e, rfl⟩
  | ok r =>
    obtain ⟨⟨⟨hnd, _⟩, _⟩, _⟩ := (route_iff q r).mp hr
    omega

/-- Any syntax: a frame with 0 or more than 65535 rows or columns -- which the Rows / Columns attributes cannot describe and
`decode_frame` refuses -- is refused (finding C07-shape-out-of-range, fixed). -/
theorem refuses_shape_out_of_range (q : Req) (h : q.rows < 1 ∨ 65535 < q.rows ∨ q.cols < 1 ∨ 65535 < q.cols) :
    ∃ e, q.route = .error e := by
  cases hr : q.route with
  | error e => exact ⟨e, rfl⟩
  | ok r =>
    obtain ⟨⟨⟨_, h1, h2, h3, h4⟩, _⟩, _⟩ := (route_iff q r).mp hr
    omega

/-- ... hence every accepted frame has a shape pydicom's decoder takes. -/
theorem accepted_shape_in_range (p : Params) (x : Frame) (r : Int) (h : encodeRoute p x = .ok r) :
    shapeInRange x.rows x.cols = true := by
  have hs := route_sound (Req.of p x) r (by rw [← encodeRoute_eq]; exact h)
  exact shapeInRange_of_shapeOK p x hs.1.1

/-- The 1-bit JPEG 2000 lossless route (4) is reached only with a bool array or an integer array whose samples are all
0 or 1 (smallest >= 0, largest <= 1): on these the cast `array.astype(bool)` -- which the translation drops by exact
text -- changes no value (finding C07-j2k-onebit-one-sided-check, fixed: `-1` and `0.5` used to pass). -/
theorem one_bit_j2k_values_binary (q : Req) (h : q.route = .ok 4) :
    q.dtypeName = "bool" ∨ ((q.kind = "u" ∨ q.kind = "i") ∧ 0 ≤ q.arrayMin ∧ q.arrayMax ≤ 1) := by
  obtain ⟨_, hc⟩ := (route_iff q 4).mp h
  rcases hc with hn | hb | hr | hj
  · rcases hn.2.2 with h1 | h1
    · exact absurd h1.2.2 (by decide)
    · exact absurd h1.2.2.2.2.2 (by decide)
  · exact absurd hb.2.2.2.2.2 (by decide)
  · exact absurd hr.2.2 (by decide)
  · rcases hj.2.2.2.2 with h4 | h4
    · by_cases hb : q.dtypeName = "bool"
      · exact Or.inl hb
      · exact Or.inr (h4.2.2.1 hb)
    · exact absurd h4.2 (by decide)

/-- Native: when fewer bits are stored than allocated, a frame with a sample outside the stored range (already the
smallest or the largest one) is refused. -/
theorem refuses_samples_outside_stored_range (p : Params) (x : Frame) (hts : p.ts ∈ nativeSyntaxes)
    (hba : p.bitsAllocated ≠ 1) (hlt : p.bitsStored < p.bitsAllocated)
    (hout : ¬ StoredRange p.pixelRepresentation p.bitsStored x.min x.max) : ∃ e, encodeRoute p x = .error e := by
  rw [refused_iff]; rintro ⟨r, _, hs⟩
  have : p.ts = "1.2.840.10008.1.2" ∨ p.ts = "1.2.840.10008.1.2.1" := by simpa [nativeSyntaxes] using hts
  simp only [NativeOK, BaselineOK, RleOK, JpegFamilyOK, Req.of, jpegBaseline, rle, jpegLs, jpegLsNear, j2k, j2kLossless] at hs
  grind (splits := 40)

/-- Native single-bit frames that do not fill whole bytes are refused (a stand-alone frame cannot end
inside a byte). -/
theorem refuses_unaligned_bits (p : Params) (x : Frame) (hts : p.ts ∈ nativeSyntaxes) (hba : p.bitsAllocated = 1)
    (hn : (x.rows * x.cols * x.spp) % 8 ≠ 0) : ∃ e, encodeRoute p x = .error e := by
  rw [refused_iff]; rintro ⟨r, _, hsp⟩
  have : p.ts = "1.2.840.10008.1.2" ∨ p.ts = "1.2.840.10008.1.2.1" := by simpa [nativeSyntaxes] using hts
  have hspp := Req.of_spp p x
  simp only [NativeOK, BaselineOK, RleOK, JpegFamilyOK, hspp] at hsp
  simp only [Req.of, jpegBaseline, rle, jpegLs, jpegLsNear, j2k, j2kLossless] at hsp
  have e : ((x.rows : Int) * (x.cols : Int) * (x.spp : Int)) = ((x.rows * x.cols * x.spp : Nat) : Int) := by push_cast; rfl
  have key : ((x.rows : Int) * (x.cols : Int) * (x.spp : Int)) % 8 = 0 := by grind (splits := 40)
  rw [e] at key
  exact hn (by exact_mod_cast key)

/-- Transfer syntaxes other than the eight supported ones are refused. -/
theorem refuses_unsupported_syntax (p : Params) (x : Frame)
    (h : p.ts ∉ nativeSyntaxes ++ [jpegBaseline, j2k, j2kLossless, jpegLs, jpegLsNear, rle]) :
    ∃ e, encodeRoute p x = .error e := by
  rw [refused_iff]; rintro ⟨r, _, hsp⟩
  simp only [nativeSyntaxes, jpegBaseline, rle, jpegLs, jpegLsNear, j2k, j2kLossless, List.cons_append, List.nil_append,
    List.mem_cons, List.not_mem_nil, or_false, not_or] at h
  simp only [NativeOK, BaselineOK, RleOK, JpegFamilyOK, Req.of, jpegBaseline, rle, jpegLs, jpegLsNear, j2k, j2kLossless] at hsp
  grind (splits := 40)

/-- A colour array (3-D) without planar configuration is refused; so is a number of samples other
than 1 or 3. -/
theorem refuses_colour_without_planar_configuration (p : Params) (x : Frame) (h3 : x.ndim = 3)
    (hp : p.planar = none) : ∃ e, encodeRoute p x = .error e := by
  rw [refused_iff]; rintro ⟨r, ⟨_, hpl, _⟩, _⟩
  have := hpl (by simp only [Req.of]; exact (ndim_three_iff x).mpr h3)
  simp only [Req.of, hp] at this
  rcases this with h | h <;> cases h

theorem refuses_other_sample_counts (p : Params) (x : Frame) (h : x.spp ≠ 1 ∧ x.spp ≠ 3) :
    ∃ e, encodeRoute p x = .error e := by
  rw [refused_iff]; rintro ⟨r, _, hsp⟩
  have hspp := Req.of_spp p x
  simp only [NativeOK, BaselineOK, RleOK, JpegFamilyOK, hspp] at hsp
  obtain ⟨h1, h3⟩ := h
  have h1' : (x.spp : Int) ≠ 1 := by exact_mod_cast h1
  have h3' : (x.spp : Int) ≠ 3 := by exact_mod_cast h3
  grind (splits := 40)

/-- A monochrome frame with a colour photometric interpretation (or the reverse) is refused by the
native syntaxes. -/
theorem refuses_photometric_mismatch (p : Params) (x : Frame) (hts : p.ts ∈ nativeSyntaxes)
    (h : (x.spp = 1 ∧ p.pi ∉ monochromePIs) ∨ (x.spp = 3 ∧ p.pi ≠ "RGB" ∧ p.pi ≠ "YBR_FULL")) :
    ∃ e, encodeRoute p x = .error e := by
  rw [refused_iff]; rintro ⟨r, _, hsp⟩
  have : p.ts = "1.2.840.10008.1.2" ∨ p.ts = "1.2.840.10008.1.2.1" := by simpa [nativeSyntaxes] using hts
  have hspp := Req.of_spp p x
  simp only [NativeOK, BaselineOK, RleOK, JpegFamilyOK, hspp] at hsp
  simp only [Req.of, monoPI, jpegBaseline, rle, jpegLs, jpegLsNear, j2k, j2kLossless] at hsp
  simp only [monochromePIs, List.mem_cons, List.not_mem_nil, or_false, not_or] at h
  rcases h with ⟨h1, h2⟩ | ⟨h1, h2⟩
  · have : (x.spp : Int) = 1 := by exact_mod_cast h1
    grind (splits := 40)
  · have : (x.spp : Int) = 3 := by exact_mod_cast h1
    grind (splits := 40)

/-! ## what is accepted round-trips -/

/-- **Native single-bit frames**: whatever `encode_frame` accepts (any rows, columns, samples whose
product is a multiple of 8; bool or 0/1 integer content -- anything else `pack_bits` refuses) is
returned by `decode_frame` with the same parameters, and pydicom decodes the bytes as a one-frame
image to the same values. -/
theorem native_bits_roundtrip (c : CodecImpl) (conv : List Int → List Int) (p : Params) (x : Frame) (bytes : List Nat)
    (hwf : x.WF) (hts : p.ts ∈ nativeSyntaxes) (hba : p.bitsAllocated = 1)
    (henc : encodeFrame c p x = .ok bytes) :
    decodeFrame c conv p x.rows x.cols x.spp bytes = .ok x.data ∧
    pydicomOneBit x.rows x.cols x.spp bytes = .ok x.data :=
  Codec.native_bits_roundtrip c conv p x bytes hwf hts hba henc

/- Full statement (does NOT hold on the current code, see `counterexample_ybr_full`):
   native_cells_roundtrip : x.WF → p.ts ∈ nativeSyntaxes → p.bitsAllocated ≠ 1 →
     encodeFrame c p x = .ok bytes → decodeFrame c conv p x.rows x.cols x.spp bytes = .ok x.data -/
/-- **Native frames of >= 8 bits** (`native_roundtrip`): for every accepted shape (2-D or 3-D, 1..65535 rows and
columns -- anything else is refused, `refuses_other_ranks`, `refuses_shape_out_of_range`; the decoder model refuses
such shapes as pydicom does), every dtype of the model that is accepted (bool, uint8/16/32/64, int8/16/32/64 with matching
bits allocated and pixel representation), every bits stored and **every content** --
whatever is accepted has all samples within the stored bits, and `decode_frame (encode_frame x) = x` as a list of
values in C order (the returned array has pydicom's dtype for the bits allocated, bool comes back as 0 / 1 in uint8,
and the shape `(rows, columns[, samples])` handed to `decode_frame`; frame index 0), and pydicom's decode of the bytes
as a one-frame image is `x` as well.  Partial: photometric interpretations that pydicom converts to RGB while decoding (`YBR_FULL`
with 3 samples) are excluded -- exactly the region of the open finding C07-ybr-full-decoded-as-rgb -- and so are
bits-allocated values that are not a multiple of 8 (`counterexample_bits_allocated_12`). -/
theorem native_cells_roundtrip_partial (c : CodecImpl) (conv : List Int → List Int) (p : Params) (x : Frame)
    (bytes : List Nat) (hwf : x.WF) (hts : p.ts ∈ nativeSyntaxes) (hba : p.bitsAllocated ≠ 1)
    (hmul : p.bitsAllocated % 8 = 0) (hnc : convertsColour p.pi x.spp = false) (henc : encodeFrame c p x = .ok bytes) :
    decodeFrame c conv p x.rows x.cols x.spp bytes = .ok x.data ∧
    pydicomNative conv p x.rows x.cols x.spp bytes = .ok x.data := by
  have := (native_cells_decode c conv p x bytes hwf hts hba hmul henc).2
  simpa [hnc] using this

/-- **Every sample of an accepted frame fits the stored bits** -- natively by `encode_frame`'s own check (against the
smallest and largest sample when fewer bits are stored than allocated, by the dtype otherwise); on the encapsulated
routes RLE / JPEG-LS (`encoderRegion`) because the encoder validates the frame against the parameters it is handed
(`ValidatingOn encoderRegion`, exercised on the real pydicom encoders) and is handed the request's own bits stored
(`encode_hands_off_request`). -/
theorem accepted_samples_fit_stored (c : CodecImpl) (hv : c.ValidatingOn encoderRegion) (p : Params) (x : Frame)
    (bytes : List Nat) (hwf : x.WF) (hreg : p.ts ∈ nativeSyntaxes ∨ encoderRegion p) (hba : p.bitsAllocated ≠ 1)
    (hmul : p.bitsAllocated % 8 = 0) (henc : encodeFrame c p x = .ok bytes) :
    FitsStored p x := by
  by_cases hts : p.ts ∈ nativeSyntaxes
  · exact (native_cells_decode c id p x bytes hwf hts hba hmul henc).1
  · obtain ⟨r, hr, hb⟩ := encodeFrame_ok c p x bytes henc
    have hs := route_sound (Req.of p x) r (by rw [← encodeRoute_eq]; exact hr)
    rcases hb with ⟨h1, _⟩ | ⟨_, h2, _⟩ | ⟨_, _, hcodec⟩
    · exfalso; subst h1
      obtain ⟨_, hc⟩ := hs
      rcases hc with h | h | h | h
      · rcases h.1 with e | e <;> simp [Req.of] at e <;> simp [nativeSyntaxes, e] at hts
      · exact absurd h.2.2.2.2.2 (by decide)
      · exact absurd h.2.2 (by decide)
      · rcases h.2.2.2.2 with h4 | h4
        · exact absurd h4.2.2.2 (by decide)
        · exact absurd h4.2 (by decide)
    · exfalso; subst h2
      obtain ⟨_, hc⟩ := hs
      rcases hc with h | h | h | h
      · rcases h.1 with e | e <;> simp [Req.of] at e <;> simp [nativeSyntaxes, e] at hts
      · exact absurd h.2.2.2.2.2 (by decide)
      · exact absurd h.2.2 (by decide)
      · rcases h.2.2.2.2 with h4 | h4
        · exact absurd h4.2.2.2 (by decide)
        · exact absurd h4.2 (by decide)
    · exact hv p x bytes (hreg.resolve_left hts) hcodec

/- Full statement: as below without `hnc`, and for RLE without the restriction of `codecRegion` to
   `bits stored > bits allocated - 8`. -/
/-- **Encapsulated lossless syntaxes, on the region where the real codecs are lossless** (`codecRegion`: JPEG-LS Lossless;
RLE Lossless with `bits stored > bits allocated - 8`): if the codec behind the route obeys the law there
(`LosslessOn codecRegion`: the correspondence demands it of the real pydicom RLE and JPEG-LS codecs on exactly this
region and reports RLE outside it as the open finding C07-rle-narrow-stored), every frame `encode_frame` accepts and the
codec accepts comes back from `decode_frame` unchanged.  Partial: `YBR_FULL` with RLE (`hnc`), the RLE region. -/
theorem encapsulated_roundtrip_partial (c : CodecImpl) (hc : c.LosslessOn codecRegion) (conv : List Int → List Int)
    (p : Params) (x : Frame) (bytes : List Nat) (hD : codecRegion p) (hnc : convertsColour p.pi x.spp = false)
    (henc : encodeFrame c p x = .ok bytes) :
    decodeFrame c conv p x.rows x.cols x.spp bytes = .ok x.data := by
  have hts : isEncapsulated p.ts = true := by
    rcases hD with ⟨h, _⟩ | h <;> rw [h] <;> decide
  have := encapsulated_decode c codecRegion hc conv p x bytes hts hD henc
  simpa [hnc] using this

/-- **Open finding** (C07-ybr-full-decoded-as-rgb): a `YBR_FULL` colour frame is accepted by the native
syntaxes and by RLE, stored as given, but `decode_frame` returns it converted to RGB -- for every frame
on which that conversion is not the identity the round trip fails. -/
theorem ybr_full_decodes_converted (c : CodecImpl) (conv : List Int → List Int) (p : Params) (x : Frame)
    (bytes : List Nat) (hwf : x.WF) (hts : p.ts ∈ nativeSyntaxes) (hba : p.bitsAllocated ≠ 1)
    (hmul : p.bitsAllocated % 8 = 0) (hpi : p.pi = "YBR_FULL") (h3 : x.spp = 3) (henc : encodeFrame c p x = .ok bytes) :
    decodeFrame c conv p x.rows x.cols x.spp bytes = .ok (conv x.data) := by
  have := (native_cells_decode c conv p x bytes hwf hts hba hmul henc).2.1
  simpa [convertsColour, hpi, h3] using this

/-- the one-pixel witness (Y, Cb, Cr) = (255, 0, 0): accepted, stored as `FF 00 00`, decoded as `conv [255,0,0]` -/
def ybrWitnessP : Params := ⟨"1.2.840.10008.1.2.1", 8, 8, "YBR_FULL", 0, some 0⟩
def ybrWitnessX : Frame := ⟨1, 1, some 3, .u8, [255, 0, 0]⟩

theorem counterexample_ybr_full (c : CodecImpl) (conv : List Int → List Int) (hconv : conv [255, 0, 0] ≠ [255, 0, 0]) :
    encodeFrame c ybrWitnessP ybrWitnessX = .ok [255, 0, 0] ∧
    decodeFrame c conv ybrWitnessP 1 1 3 [255, 0, 0] ≠ .ok ybrWitnessX.data := by
  have henc : encodeFrame c ybrWitnessP ybrWitnessX = .ok [255, 0, 0] := by
    have hr : encodeRoute ybrWitnessP ybrWitnessX = .ok 2 := by decide
    have hf : encodeRouteFull ybrWitnessP ybrWitnessX = .ok (2, 1, 1, 3, 8, 8, 0) := by rfl
    unfold encodeFrame; rw [hf]; rfl
  refine ⟨henc, ?_⟩
  have := ybr_full_decodes_converted c conv ybrWitnessP ybrWitnessX [255, 0, 0]
    (by unfold Frame.WF ybrWitnessX; decide) (by decide) (by decide) (by decide) rfl rfl henc
  have e : ybrWitnessX.rows = 1 ∧ ybrWitnessX.cols = 1 ∧ ybrWitnessX.spp = 3 := ⟨rfl, rfl, rfl⟩
  rw [e.1, e.2.1, e.2.2] at this
  rw [this]
  intro h
  exact hconv (Except.ok.inj h)

/-! ## the hand-written arms use the expressions of the current source (bridges, `Proofs/CodecTie.lean`, T13n) -/

/-- **Tie, native cells**: on route 2 the model writes `array.flatten(ORDER).astype(array.dtype.newbyteorder(B)).tobytes()` with the
flatten order and byte order REGENERATED from `encode_frame` (`Gen.cellsFlattenOrder`, `Gen.cellsByteOrder`): the frame's values in
C order, every cell in little-endian two's complement. -/
theorem tie_native_cells (c : CodecImpl) (p : Params) (x : Frame) (v : Int × Int × Int × Int × Int × Int × Int)
    (h : encodeRouteFull p x = .ok v) (h2 : v.1 = 2) :
    encodeFrame c p x = .ok (x.data.map (fun v => leBytes x.dtype.itemsize (toUnsigned (8 * x.dtype.itemsize) v))).flatten ∧
    (flattenIn cellsFlattenOrder x).bind (fun vs => vs.mapM (cellBytesIn cellsByteOrder x.dtype.itemsize)) =
      some (x.data.map (fun v => leBytes x.dtype.itemsize (toUnsigned (8 * x.dtype.itemsize) v))) :=
  ⟨encodeFrame_cells_tie c p x v h h2, (encodeCells_tie x).1⟩

/-- **Tie, native bits**: on route 1 the model packs `array.flatten(ORDER)` with the regenerated order (`Gen.packBitsFlattenOrder`). -/
theorem tie_native_bits (c : CodecImpl) (p : Params) (x : Frame) (v : Int × Int × Int × Int × Int × Int × Int)
    (h : encodeRouteFull p x = .ok v) (h1 : v.1 = 1) :
    flattenIn packBitsFlattenOrder x = some x.data ∧ encodeFrame c p x = packBits x.data :=
  packBits_tie c p x v h h1

/-- **Tie, 1-bit decode**: the bits the model's route 1 keeps are given the regenerated shape (`Gen.decodeOneBitShape`,
the arguments of `pixel_array.reshape(..)` in `decode_frame`): `(rows, columns[, samples])`, `rows*columns*samples` bits. -/
theorem tie_one_bit_decode_shape (rows cols samples : Nat) (hs : 1 ≤ samples) :
    (decodeOneBitShape rows cols samples).prod = rows * cols * samples ∧
    decodeOneBitShape rows cols samples = (if samples > 1 then [rows, cols, samples] else [rows, cols]) :=
  decodeOneBitShape_tie rows cols samples hs

/-- **Tie, transfer-syntax sets**: the model's `nativeSyntaxes` / `isEncapsulated` / `losslessSyntaxes` agree with the sets
`uncompressed_transfer_syntaxes`, `compressed_transfer_syntaxes` regenerated from `encode_frame` (tables of T13a). -/
theorem tie_syntax_tables :
    (∀ ts, ts ∈ nativeSyntaxes ↔ ts ∈ encodeFrameUncompressedTransferSyntaxes) ∧
    (∀ ts ∈ encodeFrameUncompressedTransferSyntaxes, isEncapsulated ts = false) ∧
    (∀ ts ∈ encodeFrameCompressedTransferSyntaxes, isEncapsulated ts = true) ∧
    (∀ ts ∈ losslessSyntaxes, ts ∈ encodeFrameUncompressedTransferSyntaxes ∨ ts ∈ encodeFrameCompressedTransferSyntaxes) ∧
    (∀ ts, ts ∈ encodeFrameCompressedTransferSyntaxes ↔
      ts = jpegBaseline ∨ ts = jpegLs ∨ ts = jpegLsNear ∨ ts = j2kLossless ∨ ts = j2k ∨ ts = rle) :=
  syntax_tables_tie

/-- **Tie, optional parameters** (T13d: (function, parameter, default) regenerated from the signatures): every default that
`encode_frame` and `decode_frame` share is the same -- a frame encoded with optional arguments left out decodes with the same arguments
left out -- and the defaults are the values the model is given for an omitted argument (pixel representation 0, no planar
configuration, index 0). -/
theorem tie_defaults_agree :
    (∀ k d1 d2, ("encode_frame", k, d1) ∈ frameDefaults → ("decode_frame", k, d2) ∈ frameDefaults → d1 = d2) ∧
    ("encode_frame", "pixel_representation", "0") ∈ frameDefaults ∧ ("decode_frame", "pixel_representation", "0") ∈ frameDefaults ∧
    ("encode_frame", "planar_configuration", "None") ∈ frameDefaults ∧ ("decode_frame", "planar_configuration", "None") ∈ frameDefaults ∧
    ("decode_frame", "index", "0") ∈ frameDefaults ∧ frameDefaults.length = 5 :=
  defaults_tie

/-- a 2x3 frame in Fortran order differs from its C order: the tie is not vacuous -/
example : flattenIn "F" ⟨2, 3, none, .u8, [1, 2, 3, 4, 5, 6]⟩ = some [1, 4, 2, 5, 3, 6] := by decide
example : cellBytesIn ">" 2 258 = some [1, 2] ∧ cellBytesIn "<" 2 258 = some [2, 1] := by decide


/-! ## accepted ⇔ representable, per transfer-syntax family (round 2; `Proofs/CodecIff.lean`) -/

/-- **Native syntaxes: accepted ⇔ representable.**  For implicit / explicit VR little endian and a bits-allocated value the
standard allows (1 or a multiple of 8 -- other values are the open finding C07-bits-allocated-not-byte-multiple), the decision
tree REGENERATED from `encode_frame` accepts a frame **iff** a pixel data element can represent it (`Representable`) and it is
inside `NativeScope` (rows / columns in 1..65535; colour frames colour-by-pixel, RGB or YBR_FULL): every refusal branch of the
native family is an unrepresentable request, and every representable request is encoded. -/
theorem native_accepted_iff_representable (p : Params) (x : Frame) (hts : p.ts ∈ nativeSyntaxes)
    (hal : p.bitsAllocated = 1 ∨ p.bitsAllocated % 8 = 0) :
    (∃ r, encodeRoute p x = .ok r) ↔ (Representable p x ∧ NativeScope p x) :=
  native_accepted_iff p x hts hal

/-- **JPEG-LS Lossless / JPEG 2000 Lossless: own checks pass ⇔ representable and inside the codec's scope**
(`JpegLosslessScope`: unsigned; monochrome 2-D without planar configuration at 8 / 16 bits -- JPEG 2000 also 1 bit with 0 / 1
content; colour by pixel in RGB resp. YBR_RCT at 8 / 16 bits; JPEG 2000 from 32 x 32). -/
theorem jpeg_lossless_accepted_iff_representable (p : Params) (x : Frame) (hts : p.ts = jpegLs ∨ p.ts = j2kLossless) :
    (∃ r, encodeRoute p x = .ok r) ↔ (Representable p x ∧ JpegLosslessScope p x) :=
  jpeg_lossless_accepted_iff p x hts

/-- **RLE Lossless: own checks pass ⇔ the general rules and 1 or 3 samples** -- exactly what `encode_frame` leaves to
pydicom's RLE encoder is everything else (dtype, cell width, photometric interpretation, content: the codec laws). -/
theorem rle_accepted_iff_general_rules (p : Params) (x : Frame) (hts : p.ts = rle) :
    (∃ r, encodeRoute p x = .ok r) ↔ (Common (Req.of p x) ∧ (x.spp = 1 ∨ x.spp = 3)) :=
  rle_accepted_iff p x hts

/-- **`decode_frame`'s own parameter checks = `DecodeSpec`** (tree regenerated as `Gen.decodeFrameRoute`, all inputs): the
native single-bit branch takes any parameters; otherwise pixel representation 0 / 1, a known photometric interpretation and --
for more than one sample -- a planar configuration of 0 / 1 are demanded, and the bytes go to pydicom's native (2) or
encapsulated (3) decoder. -/
theorem decode_checks_iff_spec (enc : Bool) (ba s : Int) (pi : String) (pr : Int) (pc : Option Int) (r : Int) :
    decodeFrameRoute enc ba s pi pr pc = .ok r ↔ DecodeSpec enc ba s pi pr pc r :=
  decode_route_iff enc ba s pi pr pc r

/-- **What `encode_frame` accepts, `decode_frame` does not refuse by itself**: with the same parameters the decoder's own
checks pass and the bytes reach the decoder that matches the encoder's route (1 ↦ bit unpacking, 2 ↦ pydicom native,
3 / 4 / 5 ↦ pydicom encapsulated). -/
theorem accepted_passes_decode_checks (p : Params) (x : Frame) (r : Int) (h : encodeRoute p x = .ok r) :
    decodeFrameRoute (isEncapsulated p.ts) p.bitsAllocated x.spp p.pi p.pixelRepresentation p.planar =
      .ok (if r = 1 then 1 else if r = 2 then 2 else 3) :=
  Codec.accepted_passes_decode_checks p x r h

/-! ## the glue: how the image classes call the two functions (round 2; `Model/CodecGlue.lean`, `Proofs/CodecGlue.lean`, T13g) -/

/-- **Tie, call sites** (T13g: every call of `decode_frame` / `encode_frame` in `image.py`, `io.py`, `sc/sop.py`, `pm/sop.py`,
`legacy/sop.py`, `seg/sop.py`, regenerated with the argument passed for every parameter): each of the four readers passes all eleven
parameters of `decode_frame`, each the data set's own attribute (`readerSource`: Rows ↦ rows, ..., Bits Stored -- or Bits
Allocated when absent -- ↦ bits_stored, Planar Configuration or None, the frame's own index), so that the call is `readFrame`;
each of the writers -- `SCImage`, `ParametricMap`, the legacy converter, and the `Segmentation` constructor's direct call AND its
submission to a worker pool (`workers`), both through one keyword dictionary built in the same function and used only as `**kw` --
hands `encode_frame` the object's own attributes (`writerSource`). -/
theorem tie_call_sites :
    (∀ s ∈ decodeSites, siteAgrees frameCodecCallSites s "decode_frame" readerSource = true) ∧
    (∀ s ∈ encodeSites, siteAgrees frameCodecCallSites s "encode_frame" writerSource = true) ∧
    (∀ r ∈ frameCodecCallSites, r.1 ∈ decodeSites ++ encodeSites) ∧
    frameCodecCallSites ≠ [] :=
  call_sites_tie

/-- **The frame index has no effect** outside the native single-bit branch (docstring of `decode_frame`), and inside it when
the frame fills whole bytes. -/
theorem decode_index_has_no_effect (c : CodecImpl) (conv : List Int → List Int) (p : Params) (rows cols samples : Nat)
    (bytes : List Nat) (i : Int)
    (h : ¬ (p.bitsAllocated = 1 ∧ isEncapsulated p.ts = false) ∨ (rows * cols * samples) % 8 = 0) :
    decodeFrame c conv p rows cols samples bytes i = decodeFrame c conv p rows cols samples bytes 0 := by
  rcases h with h | h
  · exact decode_index_irrelevant c conv p rows cols samples bytes i 0 h
  · exact decode_index_irrelevant_aligned c conv p rows cols samples bytes i h

/-- **Single-bit frames of any size inside one bit-packed element**: the bytes covering frame `i` of `pack (f_0 ++ f_1 ++ ..)`
(`floor(i*n/8) .. ceil((i+1)*n/8)`, `n = rows*columns*samples`, divisible by 8 or not) decode with `index = i` to frame `i`
-- by induction over the frames (`extract_frame_nat`), for every number of frames. -/
theorem native_bits_multiframe_roundtrip (c : CodecImpl) (conv : List Int → List Int) (p : Params) (rows cols samples : Nat)
    (frames : List (List Bool)) (hn : 0 < rows * cols * samples) (hlen : ∀ f ∈ frames, f.length = rows * cols * samples)
    (hts : p.ts ∈ nativeSyntaxes) (hba : p.bitsAllocated = 1) (i : Nat) (hi : i < frames.length) :
    decodeFrame c conv p rows cols samples
        (pySlice (pack frames.flatten) ((i * (rows * cols * samples)) / 8) (((i + 1) * (rows * cols * samples) + 7) / 8)) (i : Int)
      = .ok (frames[i].map (fun b => if b then 1 else 0)) :=
  native_bits_multiframe c conv p rows cols samples frames hn hlen hts hba i hi

/-- ... hence a reader of the image classes, which passes the frame's own index (T13g: `index=frame_index`), returns frame `i` of a
bit-packed multi-frame image (a segmentation, a single-bit secondary capture) from the bytes `get_raw_frame` cuts for it (C05). -/
theorem reader_reads_packed_bit_frames (c : CodecImpl) (conv : List Int → List Int) (m : PixelModule) (frames : List (List Bool))
    (hn : 0 < m.rows * m.cols * m.samples) (hlen : ∀ f ∈ frames, f.length = m.rows * m.cols * m.samples)
    (hts : m.ts ∈ nativeSyntaxes) (hba : m.bitsAllocated = 1) (i : Nat) (hi : i < frames.length) :
    readFrame c conv m
        (pySlice (pack frames.flatten) ((i * (m.rows * m.cols * m.samples)) / 8) (((i + 1) * (m.rows * m.cols * m.samples) + 7) / 8))
        (i : Int)
      = .ok (frames[i].map (fun b => if b then 1 else 0)) :=
  native_bits_multiframe c conv m.params m.rows m.cols m.samples frames hn hlen hts hba i hi

/- Full statement: as below without `hnc` (YBR_FULL) and with `codecRegion` replaced by "any lossless syntax". -/
/-- **A reader returns the frame a writer encoded**: an image whose pixel module carries the parameters its frames were
encoded with (`PixelModule.written`; the writers' call sites are in `tie_call_sites`), read through any of the four readers
(`readFrame` = the call regenerated in T13g) with ANY frame index, gives back the frame -- native single bits, native cells of
a multiple of 8 bits, and the encapsulated syntaxes on the region where the codec is lossless.  Partial as the round-trip
theorems: YBR_FULL (open finding), the RLE region. -/
theorem reader_returns_encoded_frame_partial (c : CodecImpl) (hc : c.LosslessOn codecRegion) (conv : List Int → List Int)
    (p : Params) (x : Frame) (bytes : List Nat) (index : Int) (hwf : x.WF)
    (hcase : (p.ts ∈ nativeSyntaxes ∧ p.bitsAllocated = 1) ∨
             (p.ts ∈ nativeSyntaxes ∧ p.bitsAllocated ≠ 1 ∧ p.bitsAllocated % 8 = 0) ∨ codecRegion p)
    (hnc : convertsColour p.pi x.spp = false) (henc : encodeFrame c p x = .ok bytes) :
    readFrame c conv (PixelModule.written p x) bytes index = .ok x.data :=
  Codec.reader_returns_encoded_frame_partial c hc conv p x bytes index hwf hcase hnc henc

/-- **Bits Stored absent**: the image readers then decode with Bits Allocated (`X.get('BitsStored', X.BitsAllocated)`, T13g);
for native cells the result is still the encoded frame, because every accepted sample fits the stored bits
(`accepted_samples_fit_stored`), so the bits above them are its sign / zero extension. -/
theorem reader_without_bits_stored (c : CodecImpl) (conv : List Int → List Int) (p : Params) (x : Frame) (bytes : List Nat)
    (index : Int) (hwf : x.WF) (hts : p.ts ∈ nativeSyntaxes) (hba : p.bitsAllocated ≠ 1) (hmul : p.bitsAllocated % 8 = 0)
    (hnc : convertsColour p.pi x.spp = false) (henc : encodeFrame c p x = .ok bytes) :
    readFrame c conv (PixelModule.written p x).withoutStored bytes index = .ok x.data :=
  Codec.reader_without_bits_stored c conv p x bytes index hwf hts hba hmul hnc henc


/-! ## decoding what `encode_frame` did not write (round 2; `Proofs/CodecDecode.lean`) -/

/-- **The bits above Bits Stored are ignored on decoding** (`decode_frame`'s native route, pydicom's unused-bit correction): a
native frame of 8 / 16 / 32-bit cells whose samples `xs` fit Bits Stored decodes to `xs` **whatever** the remaining high bits of
every cell carry (`gs`: overlay planes of older objects, garbage) -- unsigned and two's complement alike, the sign being bit
`stored - 1`; 1 or 3 samples per pixel (anything else is refused).  Together with `accepted_samples_fit_stored` this is the mask on both sides: nothing outside the stored bits is
written, nothing outside them is read.  `maskStored` / `decodeCells` are hand-written (pydicom's decoder): tie C, stream `glue` with
`glue_high_bits = garbage` (every reader and the model's `readFrame` on the same dirty bytes, L0) and stream `values`. -/
theorem decode_ignores_unused_high_bits (c : CodecImpl) (conv : List Int → List Int) (p : Params) (rows cols samples : Nat)
    (dt : DType) (xs : List Int) (gs : List Nat) (hts : p.ts ∈ nativeSyntaxes) (hba : p.bitsAllocated ≠ 1)
    (hdt : decodedDType p.bitsAllocated p.pixelRepresentation = .ok dt)
    (hpr : p.pixelRepresentation = 0 ∨ p.pixelRepresentation = 1) (hpi : knownPI p.pi) (hs13 : samples = 1 ∨ samples = 3)
    (hpc : (samples : Int) > 1 → p.planar = some 0) (hbs : 1 ≤ p.bitsStored ∧ p.bitsStored ≤ p.bitsAllocated)
    (hshape : shapeInRange rows cols = true) (hlen : xs.length = rows * cols * samples)
    (hfit : ∀ v ∈ xs, if p.pixelRepresentation = 1 then
        -(2 : Int) ^ (p.bitsStored.toNat - 1) ≤ v ∧ v < (2 : Int) ^ (p.bitsStored.toNat - 1)
      else 0 ≤ v ∧ v < (2 : Int) ^ p.bitsStored.toNat)
    (hnc : convertsColour p.pi samples = false) :
    decodeFrame c conv p rows cols samples (dirtyBytes dt.itemsize p.bitsStored.toNat xs gs) = .ok xs :=
  decode_ignores_high_bits c conv p rows cols samples dt xs gs hts hba hdt hpr hpi hs13 hpc hbs hshape hlen hfit hnc

/-- **Samples per Pixel other than 1 and 3 are refused on decoding** outside the native single-bit branch (pydicom: "'Samples per
Pixel' value of '2' is invalid, it must be 1 or 3"; audit 2): no bytes of a 2- or 4-sample frame are ever interpreted. -/
theorem samples_other_than_1_3_refused (c : CodecImpl) (conv : List Int → List Int) (p : Params) (rows cols samples : Nat)
    (bytes : List Nat) (index : Int) (hs : samples ≠ 1 ∧ samples ≠ 3) (h1 : ¬ (p.bitsAllocated = 1 ∧ isEncapsulated p.ts = false)) :
    ∃ e, decodeFrame c conv p rows cols samples bytes index = .error e := by
  unfold decodeFrame
  cases hr : decodeFrameRoute (isEncapsulated p.ts) p.bitsAllocated samples p.pi p.pixelRepresentation p.planar with
  | error e => exact ⟨e, rfl⟩
  | ok r =>
    have hr1 : r ≠ 1 := fun e => h1 ((decodeRoute_one_iff _ _ _ _ _ _).mp (e ▸ hr))
    simp only [bind, Except.bind, hr1, ↓reduceIte]
    by_cases h2 : r = 2
    · simp only [h2, ↓reduceIte]
      unfold pydicomNative
      cases decodedDType p.bitsAllocated p.pixelRepresentation with
      | error e => exact ⟨e, rfl⟩
      | ok dt => exact ⟨.value, by simp only [bind, Except.bind, hs, ne_eq, not_false_eq_true, and_self, ↓reduceIte]⟩
    · exact ⟨.value, by simp only [h2, ↓reduceIte, hs, ne_eq, not_false_eq_true, and_self]⟩

/-- **Planar Configuration 1 is read back colour-by-pixel**: native cells that hold the planes of a colour frame one after the
other (`planarOf`: `R1 R2 .. G1 G2 .. B1 B2 ..`) decode through `decode_frame(planar_configuration=1)` to the frame in the
pixel-interleaved order (`interleave_planarOf`: pixel `k`, sample `c` is stored item `c * npix + k`) -- every shape, 8 / 16 /
32 / 64-bit cells, signed or unsigned, **3 samples** (pydicom refuses every Samples per Pixel other than 1 and 3, and so does the
decoder model: `samples_other_than_1_3_refused`).  (`encode_frame` itself never writes colour-by-plane natively:
`native_accepted_iff_representable`.)  `interleavePlanes` is hand-written (pydicom's reshape): tie C, stream `glue` with `glue_planar = 1`
(readers and the model's `readFrame` on the same colour-by-plane bytes, L0). -/
theorem planar_frame_decodes_colour_by_pixel (c : CodecImpl) (conv : List Int → List Int) (p : Params) (rows cols samples : Nat)
    (dt : DType) (data : List Int) (hts : p.ts ∈ nativeSyntaxes) (hba : p.bitsAllocated ≠ 1)
    (hdt : decodedDType p.bitsAllocated p.pixelRepresentation = .ok dt)
    (hpr : p.pixelRepresentation = 0 ∨ p.pixelRepresentation = 1) (hpi : knownPI p.pi)
    (hs3 : samples = 3) (hpc : p.planar = some 1) (hbs : 1 ≤ p.bitsStored ∧ p.bitsStored ≤ p.bitsAllocated)
    (hshape : shapeInRange rows cols = true) (hlen : data.length = rows * cols * samples)
    (hfit : ∀ v ∈ data, if p.pixelRepresentation = 1 then
        -(2 : Int) ^ (p.bitsStored.toNat - 1) ≤ v ∧ v < (2 : Int) ^ (p.bitsStored.toNat - 1)
      else 0 ≤ v ∧ v < (2 : Int) ^ p.bitsStored.toNat)
    (hnc : convertsColour p.pi samples = false) :
    decodeFrame c conv p rows cols samples (encodeCells dt.itemsize (planarOf (rows * cols) samples data)) = .ok data :=
  planar_frame_decodes_interleaved c conv p rows cols samples dt data hts hba hdt hpr hpi hs3 hpc hbs hshape hlen hfit hnc

/-! ## non-vacuity: concrete frames meeting the hypotheses -/

/-- a stand-in codec that refuses everything (the native examples never reach it) -/
def noCodec : CodecImpl := ⟨fun _ _ _ _ _ => .error .other, fun _ _ _ _ _ => .error .other⟩

/-! ### a non-trivial codec that obeys the laws, and encapsulated requests that reach it -/

/-- zig-zag: an injective coding of integers as naturals -/
def zig (v : Int) : Nat := if 0 ≤ v then (2 * v).toNat else (-2 * v - 1).toNat
def zag (n : Nat) : Int := if n % 2 = 0 then ((n / 2 : Nat) : Int) else -(((n + 1) / 2 : Nat) : Int)

theorem zag_zig (v : Int) : zag (zig v) = v := by
  unfold zig zag
  by_cases h : 0 ≤ v
  · rw [if_pos h]
    have : (2 * v).toNat % 2 = 0 := by omega
    rw [if_pos this]; omega
  · rw [if_neg h]
    have : ¬ (-2 * v - 1).toNat % 2 = 0 := by omega
    rw [if_neg this]; omega

/-- the samples fit the stored bits (`FitsStored` as a test) -/
def fitsStoredB (p : Params) (x : Frame) : Bool :=
  x.data.all (fun v =>
    if p.pixelRepresentation = 1 then
      decide (-(2 : Int) ^ (p.bitsStored.toNat - 1) ≤ v ∧ v < (2 : Int) ^ (p.bitsStored.toNat - 1))
    else decide (0 ≤ v ∧ v < (2 : Int) ^ p.bitsStored.toNat))

/-- a stand-in codec that is **not** trivial: the encoder validates the samples against the stored bits it is told
(as pydicom's encoders do) and writes a one-byte header followed by the samples; the decoder checks the header -/
def tagCodec : CodecImpl :=
  ⟨fun p _ _ _ x => if fitsStoredB p x then .ok (0x54 :: x.data.map zig) else .error .value,
   fun _ _ _ _ b => match b with
     | 0x54 :: t => .ok (t.map zag)
     | _ => .error .value⟩

theorem tagCodec_lossless (D : Params → Prop) : tagCodec.LosslessOn D := by
  intro p x bytes _ h
  simp only [tagCodec] at h ⊢
  split at h
  · cases h
    simp only [List.map_map]
    congr 1
    conv => rhs; rw [← List.map_id x.data]
    apply List.map_congr_left
    intro v _
    exact zag_zig v
  · cases h

theorem tagCodec_validating (D : Params → Prop) : tagCodec.ValidatingOn D := by
  intro p x bytes _ h
  simp only [tagCodec] at h
  split at h
  · rename_i hf
    unfold fitsStoredB at hf
    rw [List.all_eq_true] at hf
    intro v hv
    have := hf v hv
    by_cases hp : p.pixelRepresentation = 1
    · simp only [hp, ↓reduceIte, decide_eq_true_eq] at this ⊢; exact this
    · simp only [hp, ↓reduceIte, decide_eq_true_eq] at this ⊢; exact this
  · cases h

/-- RLE Lossless, 16 bits allocated, 12 stored (inside `codecRegion`): the request reaches the codec ... -/
def rleP : Params := ⟨rle, 16, 12, "MONOCHROME2", 0, none⟩
def rleX : Frame := ⟨2, 3, none, .u16, [0, 1, 4095, 256, 255, 7]⟩
example : encodeFrame tagCodec rleP rleX = .ok [0x54, 0, 2, 8190, 512, 510, 14] := by decide
/-- ... and the round-trip theorem applies to it (hypotheses met by a codec that accepts) -/
example : decodeFrame tagCodec id rleP 2 3 1 [0x54, 0, 2, 8190, 512, 510, 14] = .ok [0, 1, 4095, 256, 255, 7] :=
  encapsulated_roundtrip_partial tagCodec (tagCodec_lossless _) id rleP rleX _ (Or.inl ⟨rfl, by decide⟩) (by decide) (by decide)
/-- a sample outside the 12 stored bits is refused by the validating encoder, and `accepted_samples_fit_stored` applies to
what is accepted -/
example : (encodeFrame tagCodec rleP ⟨2, 3, none, .u16, [0, 1, 4096, 256, 255, 7]⟩).toOption = none := by decide
example : FitsStored rleP rleX :=
  accepted_samples_fit_stored tagCodec (tagCodec_validating _) rleP rleX _ (by unfold Frame.WF rleX; decide)
    (Or.inr (Or.inl rfl)) (by decide) (by decide) (by decide : encodeFrame tagCodec rleP rleX = .ok [0x54, 0, 2, 8190, 512, 510, 14])
/-- JPEG-LS Lossless, RGB 8 bit -/
def jlsP : Params := ⟨jpegLs, 8, 8, "RGB", 0, some 0⟩
def jlsX : Frame := ⟨1, 2, some 3, .u8, [255, 0, 0, 1, 2, 3]⟩
example : decodeFrame tagCodec id jlsP 1 2 3 [0x54, 510, 0, 0, 2, 4, 6] = .ok [255, 0, 0, 1, 2, 3] :=
  encapsulated_roundtrip_partial tagCodec (tagCodec_lossless _) id jlsP jlsX _ (Or.inr rfl) (by decide) (by decide)
/-- outside the region (RLE, 16 allocated, 8 stored) the theorem says nothing: there the real codec breaks the law
(open finding C07-rle-narrow-stored) -/
example : ¬ codecRegion ⟨rle, 16, 8, "MONOCHROME2", 0, none⟩ := by
  unfold codecRegion rle jpegLs; simp

/-- 2x3 uint16 frame with extremes, explicit VR little endian -/
example : encodeFrame noCodec ⟨"1.2.840.10008.1.2.1", 16, 16, "MONOCHROME2", 0, none⟩
    ⟨2, 3, none, .u16, [0, 1, 65535, 256, 255, 4096]⟩ = .ok [0,0, 1,0, 255,255, 0,1, 255,0, 0,16] := by decide
example : decodeFrame noCodec id ⟨"1.2.840.10008.1.2.1", 16, 16, "MONOCHROME2", 0, none⟩ 2 3 1
    [0,0, 1,0, 255,255, 0,1, 255,0, 0,16] = .ok [0, 1, 65535, 256, 255, 4096] := by decide
/-- 1x4 int16 frame with extremes, 12 bits stored, implicit VR little endian -/
example : encodeFrame noCodec ⟨"1.2.840.10008.1.2", 16, 12, "MONOCHROME1", 1, none⟩
    ⟨1, 4, none, .i16, [-2048, -1, 0, 2047]⟩ = .ok [0,248, 255,255, 0,0, 255,7] := by decide
example : decodeFrame noCodec id ⟨"1.2.840.10008.1.2", 16, 12, "MONOCHROME1", 1, none⟩ 1 4 1
    [0,248, 255,255, 0,0, 255,7] = .ok [-2048, -1, 0, 2047] := by decide
/-- 1x1 RGB pixel -/
example : encodeFrame noCodec ⟨"1.2.840.10008.1.2.1", 8, 8, "RGB", 0, some 0⟩ ⟨1, 1, some 3, .u8, [1, 2, 255]⟩
    = .ok [1, 2, 255] := by decide
/-- a 2x4 single-bit frame is accepted on the bit-packing route -/
example : encodeRoute ⟨"1.2.840.10008.1.2.1", 1, 1, "MONOCHROME2", 0, none⟩ ⟨2, 4, none, .bool, [1,0,0,1, 1,1,0,0]⟩
    = .ok 1 := by decide
/-- refusals really occur: uint16 declared as 8 bit; 2x3 single-bit frame; unknown syntax -/
example : encodeRoute ⟨"1.2.840.10008.1.2.1", 8, 8, "MONOCHROME2", 0, none⟩ ⟨1, 2, none, .u16, [1, 258]⟩
    = .error .value := by decide
example : encodeRoute ⟨"1.2.840.10008.1.2.1", 1, 1, "MONOCHROME2", 0, none⟩ ⟨2, 3, none, .bool, [1,0,0,1,1,1]⟩
    = .error .value := by decide
example : encodeRoute ⟨"1.2.840.10008.1.2.1.99", 8, 8, "MONOCHROME2", 0, none⟩ ⟨1, 2, none, .u8, [1, 2]⟩
    = .error .value := by decide
/-- one sample above 12 stored bits / below the signed 12-bit range: refused; the same frame with 4095 is accepted -/
example : encodeRoute ⟨"1.2.840.10008.1.2.1", 16, 12, "MONOCHROME2", 0, none⟩ ⟨1, 3, none, .u16, [1, 4096, 7]⟩
    = .error .value := by decide
example : encodeRoute ⟨"1.2.840.10008.1.2.1", 16, 12, "MONOCHROME2", 1, none⟩ ⟨1, 3, none, .i16, [1, -2049, 7]⟩
    = .error .value := by decide
example : encodeRoute ⟨"1.2.840.10008.1.2.1", 16, 12, "MONOCHROME2", 0, none⟩ ⟨1, 3, none, .u16, [1, 4095, 7]⟩
    = .ok 2 := by decide

/-! ### round 2: non-vacuity of the iff / glue theorems -/
/-- a 16 / 12 signed frame: representable, inside the native scope, hence accepted (right-to-left direction used) -/
example : ∃ r, encodeRoute ⟨"1.2.840.10008.1.2", 16, 12, "MONOCHROME1", 1, none⟩ ⟨1, 4, none, .i16, [-2048, -1, 0, 2047]⟩ = .ok r :=
  ⟨2, by decide⟩
example : NativeScope ⟨"1.2.840.10008.1.2.1", 8, 8, "RGB", 0, some 0⟩ ⟨1, 1, some 3, .u8, [1, 2, 255]⟩ := by
  unfold NativeScope; decide
/-- an RGB frame given colour-by-plane is outside the native scope and refused -/
example : ¬ NativeScope ⟨"1.2.840.10008.1.2.1", 8, 8, "RGB", 0, some 1⟩ ⟨1, 1, some 3, .u8, [1, 2, 255]⟩ := by
  unfold NativeScope; decide
example : encodeRoute ⟨"1.2.840.10008.1.2.1", 8, 8, "RGB", 0, some 1⟩ ⟨1, 1, some 3, .u8, [1, 2, 255]⟩ = .error .value := by decide
/-- JPEG-LS: accepted RGB request; signed request refused -/
example : encodeRoute jlsP jlsX = .ok 5 := by decide
example : encodeRoute ⟨jpegLs, 16, 16, "MONOCHROME2", 1, none⟩ ⟨1, 2, none, .i16, [-1, 2]⟩ = .error .value := by decide
/-- decode_frame's checks: an unknown photometric interpretation is refused, the 1-bit native branch takes it -/
example : decodeFrameRoute false 8 1 "XYZ" 0 none = .error .value := by decide
example : decodeFrameRoute false 1 1 "XYZ" 7 none = .ok 1 := by decide
example : decodeFrameRoute true 8 3 "RGB" 0 none = .error .value := by decide
/-- three 1x3 single-bit frames `101 011 100` packed into two bytes (`[117, 0]`); frame 1 starts at bit 3 of byte 0, frame 2 at
bit 6: the theorem applies (hypotheses met), and the model computes the frames from the raw bytes -/
example := native_bits_multiframe_roundtrip noCodec id ⟨"1.2.840.10008.1.2.1", 1, 1, "MONOCHROME2", 0, none⟩ 1 3 1
  [[true, false, true], [false, true, true], [true, false, false]] (by decide) (by decide) (by decide) rfl 1 (by decide)
example : decodeFrame noCodec id ⟨"1.2.840.10008.1.2.1", 1, 1, "MONOCHROME2", 0, none⟩ 1 3 1 [117] 1 = .ok [0, 1, 1] := by
  decide +kernel
example : decodeFrame noCodec id ⟨"1.2.840.10008.1.2.1", 1, 1, "MONOCHROME2", 0, none⟩ 1 3 1 [117, 0] 2 = .ok [1, 0, 0] := by
  decide +kernel
/-- with the wrong index the same bytes give another frame: the index matters for unaligned single-bit frames -/
example : decodeFrame noCodec id ⟨"1.2.840.10008.1.2.1", 1, 1, "MONOCHROME2", 0, none⟩ 1 3 1 [117] 0 = .ok [1, 0, 1] := by
  decide +kernel
/-- a reader on the written module of the 16 / 12 signed frame, with and without Bits Stored, frame index 5 -/
example : readFrame noCodec id (PixelModule.written ⟨"1.2.840.10008.1.2", 16, 12, "MONOCHROME1", 1, none⟩
    ⟨1, 4, none, .i16, [-2048, -1, 0, 2047]⟩) [0,248, 255,255, 0,0, 255,7] 5 = .ok [-2048, -1, 0, 2047] := by decide
example : readFrame noCodec id (PixelModule.written ⟨"1.2.840.10008.1.2", 16, 12, "MONOCHROME1", 1, none⟩
    ⟨1, 4, none, .i16, [-2048, -1, 0, 2047]⟩).withoutStored [0,248, 255,255, 0,0, 255,7] 5 = .ok [-2048, -1, 0, 2047] := by decide
/-- the call-site table is not empty and a reader that dropped a parameter would not agree -/
example : siteAgrees (frameCodecCallSites.filter (fun r => r.2.2.1 != "pixel_representation"))
    "image.py:_Image.get_stored_frame" "decode_frame" readerSource = false := by decide +kernel

/-- 16 / 12 signed cells with garbage above bit 11: `0x7800 = 0111 1000 0000 0000` decodes to -2048, `0x0FFF` to -1 -/
example : decodeFrame noCodec id ⟨"1.2.840.10008.1.2.1", 16, 12, "MONOCHROME2", 1, none⟩ 1 4 1
    [0x00, 0x78, 0xFF, 0x0F, 0x00, 0xF0, 0xFF, 0x87] = .ok [-2048, -1, 0, 2047] := by decide
example : dirtyBytes 2 12 [-2048, -1, 0, 2047] [7, 0, 15, 8] = [0x00, 0x78, 0xFF, 0x0F, 0x00, 0xF0, 0xFF, 0x87] := by decide
/-- a 1x2 RGB frame stored colour-by-plane (R1 R2 G1 G2 B1 B2) comes back colour-by-pixel -/
example : planarOf 2 3 [1, 2, 3, 4, 5, 6] = [1, 4, 2, 5, 3, 6] := by decide
example : decodeFrame noCodec id ⟨"1.2.840.10008.1.2.1", 8, 8, "RGB", 0, some 1⟩ 1 2 3 [1, 4, 2, 5, 3, 6] = .ok [1, 2, 3, 4, 5, 6] := by
  decide
example : decodeFrame noCodec id ⟨"1.2.840.10008.1.2.1", 8, 8, "RGB", 0, some 0⟩ 1 2 3 [1, 4, 2, 5, 3, 6] = .ok [1, 4, 2, 5, 3, 6] := by
  decide
/-- two samples per pixel: refused (the audit's witness), as the real `decode_frame` does -/
example : decodeFrame noCodec id ⟨"1.2.840.10008.1.2.1", 8, 8, "RGB", 0, some 1⟩ 1 2 2 [0, 1, 2, 3] = .error .value := by decide

end HdVerif.C07
