import HdVerif.Proofs.SegReadOrder
import HdVerif.Proofs.SegMeta
import HdVerif.Proofs.Effects
import HdVerif.Proofs.SegReadTie
import HdVerif.Proofs.SegReadSpec
import HdVerif.Generated.T8h
import HdVerif.Generated.T8s
import HdVerif.Generated.T8r
import HdVerif.Proofs.SegReadState
/-! # C02  Segment selection, ordering, combining and relabelling are exact

Error kinds in the statements (`.error .runtime`, `.value`, `.key`) are the model's labels for the refusals; the
correspondence compares ok-vs-refused only (e.g. `get_pixels_by_source_frame` raises ValueError for a frame number
beyond the referenced ones where the model says `.key`).

Property theorems only.  The statements are about `SegRead.readCore` (`Segmentation._get_pixels_by_seg_frame`) and
`SegRead.read` (the validation the five public entry points share), whose decisions — largest output value,
default output dtype, `need_remap`, intermediate dtype, refusals — are the definitions *regenerated from /repo's
current source* (`Gen.readHead`, `Gen.labelmapDecision`, `Gen.stackDecision`, `Gen.unsignedDtype`), and about
`SegMeta.getSegmentNumbers` / `getTrackingIds`.

A stored object is a list of frames (stack value, referenced segment number, pixels).  "The mask of segment `s` at
stack value `k`" is, for a label map, the set of pixels of `rawLabels st k` (the plane stored for `k`, all zero when
the object has none) that equal `s`; for a BINARY / FRACTIONAL object it is `segPlane st k s`, the pixels of the one
frame stored for (`k`, `s`), all zero when there is none (`covers st k s i`: pixel `i` of it is set).  That the stored
frames represent the mask given to the constructor is property C01. -/
namespace HdVerif.C02
open HdVerif HdVerif.Gen HdVerif.SegRead HdVerif.SegMeta HdVerif.SegReadLemmas HdVerif.SegMetaLemmas HdVerif.Effects

/-! ## Output dtype capacity (tie T: T8, T8b) -/

/-- `_get_unsigned_dtype` picks the smallest of uint8 / uint16 / uint32 that holds the value. -/
theorem unsigned_dtype_smallest (v : Int) (c : Int) (h : unsignedDtype v = .ok c) (h0 : 0 ≤ v) (h32 : v < 2 ^ 32) :
    (c = 8 ∨ c = 16 ∨ c = 32) ∧ v < 2 ^ c.toNat ∧ (c = 16 → 2 ^ 8 ≤ v) ∧ (c = 32 → 2 ^ 16 ≤ v) := by
  rw [unsignedDtype_eq] at h
  by_cases h1 : v < 256
  · simp only [h1, ↓reduceIte, Except.ok.injEq] at h; subst h; simp; omega
  · by_cases h2 : v < 65536
    · simp only [h1, h2, ↓reduceIte, Except.ok.injEq] at h; subst h; simp; omega
    · simp only [h1, h2, ↓reduceIte, Except.ok.injEq] at h; subst h; simp; omega

/-- **Capacity, refusal**: a request whose largest possible output value (the largest requested number, the number
of requested segments under `relabel`, MaximumFractionalValue for an unrescaled FRACTIONAL read, else 1) exceeds the
output dtype is refused with a ValueError — for every type, every request, every dtype. -/
theorem capacity_refused (st : Stored) (rq : Req) (hsub : ∀ s ∈ rq.segs, s ∈ st.segNums) (hnd : rq.segs.Nodup)
    (h : ceiling st rq > (chosenDtype st rq).maxVal) : readCore st rq = .error .value := by
  rw [readCore_eq st rq hsub hnd]; simp [h]

/-- **Capacity, no other refusal by the check**: when the value fits, the request reaches the type-specific branch
with exactly the dtype asked for. -/
theorem capacity_accepted (st : Stored) (rq : Req) (hsub : ∀ s ∈ rq.segs, s ∈ st.segNums) (hnd : rq.segs.Nodup)
    (h : ceiling st rq ≤ (chosenDtype st rq).maxVal) :
    readCore st rq = (if st.type = .labelmap then labelmapRead st rq (chosenDtype st rq)
                      else stackRead st rq (chosenDtype st rq) (willRescale st rq)) := by
  rw [readCore_eq st rq hsub hnd]
  have : ¬ ceiling st rq > (chosenDtype st rq).maxVal := by omega
  simp [this]

/-- The dtype chosen when the caller gives none always holds the largest output value (below 2^32). -/
theorem default_dtype_fits (st : Stored) (rq : Req) (hd : rq.dtype = none) (h0 : 0 ≤ ceiling st rq)
    (h32 : ceiling st rq < 2 ^ 32) : ceiling st rq ≤ (chosenDtype st rq).maxVal := by
  unfold chosenDtype
  rw [hd]
  by_cases hw : willRescale st rq = true
  · simp only [hw, ↓reduceIte, DType.maxVal]; omega
  · simp only [hw, Bool.false_eq_true, ↓reduceIte]
    by_cases h1 : ceiling st rq < 256
    · simp only [h1, ↓reduceIte, DType.maxVal]; omega
    · by_cases h2 : ceiling st rq < 65536
      · simp only [h1, h2, ↓reduceIte, DType.maxVal]; omega
      · simp only [h1, h2, ↓reduceIte, DType.maxVal]; omega

/-- … and is the *smallest* unsigned type that does (float32 for a rescaled FRACTIONAL read). -/
theorem default_dtype_smallest (st : Stored) (rq : Req) (hd : rq.dtype = none) :
    (willRescale st rq = true → chosenDtype st rq = .f32) ∧
    (willRescale st rq = false →
      (chosenDtype st rq = .u8 ∧ ceiling st rq < 256) ∨
      (chosenDtype st rq = .u16 ∧ 256 ≤ ceiling st rq ∧ ceiling st rq < 65536) ∨
      (chosenDtype st rq = .u32 ∧ 65536 ≤ ceiling st rq)) := by
  unfold chosenDtype
  rw [hd]
  constructor
  · intro hw; simp [hw]
  · intro hw
    simp only [hw, Bool.false_eq_true, ↓reduceIte]
    by_cases h1 : ceiling st rq < 256
    · left; simp [h1]
    · by_cases h2 : ceiling st rq < 65536
      · right; left; simp [h1, h2]; omega
      · right; right; simp [h1, h2]; omega

/-- A request naming a segment number the object does not have is refused. -/
theorem unknown_segment_refused (st : Stored) (rq : Req) (s : Nat) (hs : s ∈ rq.segs) (hn : s ∉ st.segNums) :
    readCore st rq = .error .value :=
  readCore_not_admitted st rq (fun h => hn (h.1 s hs))

/-- **A request naming a segment number twice is refused** (tie T: T8p), for every segmentation type and every option — a
repeated number has no single "1-based position in the request", and a label-map pixel cannot be set in two channels.  The test
is the first statement of `_get_segment_remap_values`, which all five entry points call with the caller's numbers before they
open the frame query (T8k: exactly one such call each), so the refusal is a ValueError for all 48 combinations of type ×
combine × relabel × skip — never the UNIQUE constraint of the temporary channel table (`remapDup` below it is unreachable for
accepted requests and kept as what the database would do).  The correspondence fails any refusal that is an sqlite3 error. -/
theorem repeated_segment_refused (st : Stored) (rq : Req) (h : ¬ rq.segs.Nodup) : readCore st rq = .error .value :=
  readCore_not_admitted st rq (fun h' => h h'.2)

/-! ## LABELMAP (tie T: T8c) -/

/-- **16-bit label maps are decided here**: whenever the LABELMAP branch remaps, the dtype the stored frames are
first read into holds every value a pixel of that bit depth can have. -/
theorem intermediate_holds_every_stored_value (combine relabel : Bool) (dc n x : Int) (one : Bool) (bits : Nat)
    (hb : bits = 8 ∨ bits = 16) (hn : 1 ≤ n) (ic : Int) (i : DType)
    (h : labelmapDecision false combine relabel dc n x one bits = .ok (true, ic)) (hi : DType.ofCode ic = some i) :
    (2 : Int) ^ bits - 1 ≤ i.maxVal := by
  rw [labelmapDecision_eq combine relabel dc n x one bits hb hn] at h
  simp only [Except.ok.injEq, Prod.mk.injEq] at h
  obtain ⟨h1, h2⟩ := h
  rw [h1] at h2
  simp only [↓reduceIte] at h2
  subst h2
  rcases hb with rfl | rfl
  · have : i = .u8 := by
      have : DType.ofCode ((8 : Nat) : Int) = some .u8 := rfl
      rw [this] at hi; exact (Option.some.inj hi).symm
    subst this; simp [DType.maxVal]
  · have : i = .u16 := by
      have : DType.ofCode ((16 : Nat) : Int) = some .u16 := rfl
      rw [this] at hi; exact (Option.some.inj hi).symm
    subst this; simp [DType.maxVal]

/-- The LABELMAP branch skips the remapping only for a combined, not relabelled read in which no stored segment is
left out (`x` = size of the symmetric difference of requested and stored numbers). -/
theorem no_remap_only_when_nothing_left_out (combine relabel : Bool) (dc n x : Int) (one : Bool) (bits : Nat)
    (hb : bits = 8 ∨ bits = 16) (hn : 1 ≤ n) (hx : 0 ≤ x) (ic : Int)
    (h : labelmapDecision false combine relabel dc n x one bits = .ok (false, ic)) :
    combine = true ∧ relabel = false ∧ x = 0 ∧ ic = dc := by
  rw [labelmapDecision_eq combine relabel dc n x one bits hb hn] at h
  simp only [Except.ok.injEq, Prod.mk.injEq] at h
  obtain ⟨h1, h2⟩ := h
  rw [h1] at h2
  cases combine <;> cases relabel <;> simp at h1 h2 ⊢
  exact ⟨by omega, h2.symm⟩

/-- **Combined read of a label map** (any subset, any order, sparse numbers, 8 or 16 bit): accepted whenever the
largest output value fits the dtype, and every pixel holds the requested segment covering it — its own number, or
its 1-based position in the request under `relabel` — and 0 otherwise (`outVal`).  A stack value the object has
no frame for reads as zeros. -/
theorem labelmap_combined_value (st : Stored) (rq : Req) (wf : WfLabel st) (hc : rq.combine = true)
    (hne : rq.segs ≠ []) (hnd : rq.segs.Nodup) (hsub : ∀ s ∈ rq.segs, s ∈ st.segNums)
    (hcap : ceiling st rq ≤ (chosenDtype st rq).maxVal) :
    readCore st rq = .ok (.combined (rq.keys.map fun k => (rawLabels st k).map (outVal rq.segs rq.relabel))) := by
  rw [capacity_accepted st rq hsub hnd hcap]
  simp only [wf.type, ↓reduceIte]
  apply labelmapRead_combined st rq _ wf hc hne
  unfold ceiling at hcap
  simpa [hc] using hcap

/-- what `outVal` is: own number / position for a requested segment … -/
theorem combined_value_requested (segs : List Nat) (v : Nat) (h : v ∈ segs) :
    outVal segs false v = v ∧
    ∃ i, ∃ hi : i < segs.length, segs[i] = v ∧ outVal segs true v = ((i + 1 : Nat) : Int) := by
  refine ⟨outVal_own segs v h, ?_⟩
  obtain ⟨i, hi, h1, _, h3⟩ := outVal_position segs v h
  exact ⟨i, hi, h1, h3⟩

/-- … and **segments that were not requested never appear**: a non-zero output value stems from a requested
segment, and an unrequested one maps to 0. -/
theorem unrequested_never_appear (segs : List Nat) (relabel : Bool) (v : Nat) :
    (v ∉ segs → outVal segs relabel v = 0) ∧ (outVal segs relabel v ≠ 0 → v ∈ segs) :=
  ⟨outVal_not_mem segs relabel v, outVal_ne_zero segs relabel v⟩

/-- **Stacked read of a label map**: channel `c` of every output frame is the indicator of the `c`-th requested
segment in the stored label plane — any order, any subset, any output dtype that holds 1. -/
theorem labelmap_stacked_channel (st : Stored) (rq : Req) (wf : WfLabel st) (hc : rq.combine = false)
    (hne : rq.segs ≠ []) (hnd : rq.segs.Nodup) (hsub : ∀ s ∈ rq.segs, s ∈ st.segNums)
    (hlen : rq.segs.length < 2 ^ st.bitsStored) :
    readCore st rq = .ok (.stacked 1 (rq.keys.map fun k => (List.range rq.segs.length).map fun c =>
      (rawLabels st k).map fun v => if rq.segs[c]? = some v then (1 : Int) else 0)) := by
  have hcap : ceiling st rq ≤ (chosenDtype st rq).maxVal := by
    unfold ceiling
    have hnf : (st.type == SegType.fractional) = false := by rw [wf.type]; rfl
    simp only [hc, Bool.false_eq_true, ↓reduceIte, hnf, Bool.false_and]
    exact one_le_maxVal _
  rw [capacity_accepted st rq hsub hnd hcap]
  simp only [wf.type, ↓reduceIte]
  rw [labelmapRead_stacked st rq _ wf hc hne hlen]
  congr 2
  apply List.map_congr_left
  intro k _
  apply List.map_congr_left
  intro c _
  apply List.map_congr_left
  intro v _
  by_cases h : posNat rq.segs v = c + 1
  · simp [h, (posNat_eq_succ_iff rq.segs hnd v c).mp h]
  · have : ¬ rq.segs[c]? = some v := fun h' => h ((posNat_eq_succ_iff rq.segs hnd v c).mpr h')
    simp [h, this]

/-! ## BINARY / FRACTIONAL (tie T: T8d) -/

/-- **Stacked read, BINARY and FRACTIONAL**: channel `c` of output frame `j` is the plane stored for the `c`-th
requested segment at the `j`-th requested stack value (all zero when the object has no such frame) — any subset, any
order; for a rescaled FRACTIONAL read every entry means value / MaximumFractionalValue (an exact rational here; the code
divides in the float output dtype, so its array agrees with this up to float rounding — the correspondence compares with
tolerance 2^-20). -/
theorem stacked_channel (st : Stored) (rq : Req) (wf : WfStack st) (hc : rq.combine = false) (hnd : rq.segs.Nodup)
    (hsub : ∀ s ∈ rq.segs, s ∈ st.segNums) (hcap : ceiling st rq ≤ (chosenDtype st rq).maxVal)
    (hfl : willRescale st rq = true → (chosenDtype st rq).isFloat = true) :
    readCore st rq = .ok (.stacked (if willRescale st rq then st.mfv else 1)
      (rq.keys.map fun k => rq.segs.map fun s => (segPlane st k s).map Int.ofNat)) := by
  rw [capacity_accepted st rq hsub hnd hcap]
  simp only [wf.type, ↓reduceIte]
  exact stackRead_stacked st rq _ wf hc hcap hfl

/-- a rescaled FRACTIONAL read into a non-float dtype is refused -/
theorem rescaled_requires_float (st : Stored) (rq : Req) (hnl : st.type ≠ .labelmap)
    (hsub : ∀ s ∈ rq.segs, s ∈ st.segNums) (hnd : rq.segs.Nodup) (hw : willRescale st rq = true)
    (hnf : (chosenDtype st rq).isFloat = false) : readCore st rq = .error .value := by
  rw [readCore_eq st rq hsub hnd]
  by_cases h : ceiling st rq > (chosenDtype st rq).maxVal
  · simp [h]
  · simp only [h, ↓reduceIte, hnl]
    unfold stackRead
    rw [stackDecision_eq]
    simp [hw, hnf, bind, Except.bind]

/-- combining a FRACTIONAL segmentation without rescaling is refused -/
theorem fractional_combine_requires_rescale (st : Stored) (rq : Req) (hty : st.type = .fractional)
    (hsub : ∀ s ∈ rq.segs, s ∈ st.segNums) (hnd : rq.segs.Nodup) (hc : rq.combine = true) (hr : rq.rescale = false) :
    readCore st rq = .error .value := by
  rw [readCore_eq st rq hsub hnd]
  by_cases h : ceiling st rq > (chosenDtype st rq).maxVal
  · simp [h]
  · simp only [h, ↓reduceIte, hty]
    unfold stackRead
    rw [stackDecision_eq]
    have : willRescale st rq = false := by unfold willRescale; simp [hc]
    simp [this, hc, hr, hty, bind, Except.bind]

/-- **A stored value the output dtype cannot hold is refused, not wrapped** (`_check_output_range` of the frame
transform): an uncombined, unrescaled read of a BINARY / FRACTIONAL object into an integer dtype narrower than the
stored one raises when a frame it uses holds a value above the dtype's maximum (only possible for objects whose values
exceed what their own attributes promise; well-formed objects never get here, see `stacked_channel`). -/
theorem stored_value_beyond_dtype_refused (st : Stored) (rq : Req) (hnl : st.type ≠ .labelmap)
    (hsub : ∀ s ∈ rq.segs, s ∈ st.segNums) (hnd : rq.segs.Nodup) (hc : rq.combine = false) (hw : willRescale st rq = false)
    (hact : rangeCheckActive st.bitsStored (chosenDtype st rq) = true) (f : SFrame) (hf : f ∈ st.frames)
    (hk : f.key ∈ rq.keys) (hs : f.seg ∈ rq.segs) (p : Nat) (hp : p ∈ f.pix)
    (hbig : (p : Int) > (chosenDtype st rq).maxVal) : readCore st rq = .error .value := by
  rw [readCore_eq st rq hsub hnd]
  by_cases hcap : ceiling st rq > (chosenDtype st rq).maxVal
  · simp [hcap]
  · simp only [hcap, ↓reduceIte, hnl, hw]
    unfold stackRead
    rw [stackDecision_eq]
    simp only [hc, Bool.false_and, Bool.false_eq_true, ↓reduceIte, remapValues, remapDup, bind, Except.bind, ofCode_code]
    have hall : (rq.keys.all fun k => (joinRows st.frames (chanTable rq.segs none) k).all
        fun r => frameInRange st.bitsStored (chosenDtype st rq) r.1) = false := by
      rw [List.all_eq_false]
      refine ⟨f.key, hk, ?_⟩
      rw [Bool.not_eq_true, List.all_eq_false]
      obtain ⟨i, hi⟩ := List.mem_iff_getElem?.mp hs
      refine ⟨(f, i), ?_, ?_⟩
      · unfold joinRows
        rw [List.mem_flatMap]
        refine ⟨f, List.mem_filter.mpr ⟨hf, by simp⟩, ?_⟩
        rw [List.mem_map]
        refine ⟨(i, f.seg), List.mem_filter.mpr ⟨?_, by simp⟩, rfl⟩
        unfold chanTable
        exact (mem_zip_range rq.segs i f.seg).mpr hi
      · unfold frameInRange
        have : (f.pix.all fun q => decide ((q : Int) ≤ (chosenDtype st rq).maxVal)) = false := by
          rw [List.all_eq_false]
          exact ⟨p, hp, by simpa using hbig⟩
        simp [hact, this]
    simp only [hall, Bool.not_false, ↓reduceIte]

/-- **Overlap refused**: with the check on, a combined read in which two different requested segments share a
pixel of a requested plane raises the RuntimeError (BINARY, and FRACTIONAL with 0/max-valued frames). -/
theorem overlap_refused (st : Stored) (rq : Req) (wf : WfStack st) (hc : rq.combine = true) (hnd : rq.segs.Nodup)
    (hsub : ∀ s ∈ rq.segs, s ∈ st.segNums) (hbin : UsedBinary st rq.keys rq.segs)
    (hfr : st.type = .fractional → rq.rescale = true)
    (hcap : ceiling st rq ≤ (chosenDtype st rq).maxVal) (hskip : rq.skipOverlap = false)
    (k : Nat) (hk : k ∈ rq.keys) (s₁ s₂ i : Nat) (h1 : s₁ ∈ rq.segs) (h2 : s₂ ∈ rq.segs) (hne : s₁ ≠ s₂)
    (hc1 : covers st k s₁ i) (hc2 : covers st k s₂ i) : readCore st rq = .error .runtime := by
  rw [capacity_accepted st rq hsub hnd hcap]
  simp only [wf.type, ↓reduceIte]
  have hw : willRescale st rq = false := by unfold willRescale; simp [hc]
  rw [hw]
  apply stackRead_combined_overlap st rq _ wf hc hnd hsub hbin hfr hcap hskip k hk
  intro hno
  exact hno s₁ h1 s₂ h2 hne i ⟨hc1, hc2⟩

/-- **No overlap (or check skipped) ⇒ accepted, and every pixel is the combined value**: the result has one frame
per requested stack value, and pixel `i` of frame `j` is the largest output value (own number, or 1-based position
under `relabel`) among the requested segments covering it, 0 when none does. -/
theorem combined_value (st : Stored) (rq : Req) (wf : WfStack st) (hc : rq.combine = true) (hnd : rq.segs.Nodup)
    (hsub : ∀ s ∈ rq.segs, s ∈ st.segNums) (hbin : UsedBinary st rq.keys rq.segs)
    (hfr : st.type = .fractional → rq.rescale = true)
    (hcap : ceiling st rq ≤ (chosenDtype st rq).maxVal)
    (hno : rq.skipOverlap = true ∨ ∀ k ∈ rq.keys, NoOverlap st rq.segs k) :
    ∃ out, readCore st rq = .ok (.combined out) ∧ out.length = rq.keys.length ∧ (∀ fr ∈ out, fr.length = st.npix) ∧
      ∀ j (hj : j < rq.keys.length) (hj' : j < out.length) i, i < st.npix →
        ∃ v, (out[j])[i]? = some v ∧ IsCombinedValue st rq.segs rq.relabel rq.keys[j] i v := by
  rw [capacity_accepted st rq hsub hnd hcap]
  simp only [wf.type, ↓reduceIte]
  have hw : willRescale st rq = false := by unfold willRescale; simp [hc]
  rw [hw, stackRead_combined_ok st rq _ wf hc hnd hsub hbin hfr hcap hno]
  have hcapV : ∀ s ∈ rq.segs, outVal rq.segs rq.relabel s ≤ (chosenDtype st rq).maxVal :=
    fun s hs => Int.le_trans (outVal_le_ceiling st rq hc s hs) hcap
  refine ⟨_, rfl, by simp, ?_, ?_⟩
  · intro fr hfr
    obtain ⟨k, hk, rfl⟩ := List.mem_map.mp hfr
    exact maxFold_length st.npix _ _ (rows_ok st wf rq.segs rq.relabel hnd k hsub
      (fun f hf hfk hs => hbin f hf (hfk ▸ hk) hs) _ hcapV) (by simp [zeros])
  · intro j hj hj' i hi
    simp only [List.getElem_map]
    exact combined_pixel st wf rq.segs rq.relabel hnd rq.keys[j] hsub
      (fun f hf hfk hs => hbin f hf (hfk ▸ List.getElem_mem hj) hs) _ hcapV i hi

/-- reading `IsCombinedValue`: a pixel no requested segment covers is 0 — in particular **segments that were not
requested never appear** — and, without overlap, a pixel covered by requested segment `s` holds `outVal s`. -/
theorem combined_value_cases (st : Stored) (segs : List Nat) (relabel : Bool) (k i : Nat) (v : Int)
    (h : IsCombinedValue st segs relabel k i v) :
    ((∀ s ∈ segs, ¬ covers st k s i) → v = 0) ∧
    (∀ s ∈ segs, 0 < s → covers st k s i → NoOverlap st segs k → v = outVal segs relabel s) := by
  obtain ⟨hdom, hatt⟩ := h
  constructor
  · intro hnone
    rcases hatt with h0 | ⟨s, hs, hcv, _⟩
    · exact h0
    · exact absurd hcv (hnone s hs)
  · intro s hs hpos hcv hno
    have h1 := hdom s hs hcv
    have hp := outVal_pos segs relabel s hs hpos
    rcases hatt with h0 | ⟨s', hs', hcv', hv'⟩
    · omega
    · by_cases hss : s' = s
      · rw [hv', hss]
      · exact absurd ⟨hcv', hcv⟩ (hno s' hs' s hs hss i)

/-- the combined value is determined by the stored frames and the request alone … -/
theorem combined_value_unique (st : Stored) (segs : List Nat) (relabel : Bool) (k i : Nat) (v v' : Int)
    (hpos : ∀ s ∈ segs, 0 < s) (h : IsCombinedValue st segs relabel k i v)
    (h' : IsCombinedValue st segs relabel k i v') : v = v' :=
  isCombinedValue_unique st segs relabel k i v v' hpos h h'

/-- … so **the order in which the query delivers the rows of one output frame does not matter**: the combination
loop returns the same array, or the same refusal, for every permutation of those rows (the query only says
`ORDER BY F.OutputFrameIndex`). -/
theorem combine_order_independent (st : Stored) (rq : Req) (d : DType) (wf : WfStack st) (hnd : rq.segs.Nodup)
    (hsub : ∀ s ∈ rq.segs, s ∈ st.segNums) (hbin : UsedBinary st rq.keys rq.segs) (hc : rq.combine = true)
    (hcap : ceiling st rq ≤ d.maxVal) (k : Nat) (hk : k ∈ rq.keys) (rows' : List (SFrame × Nat))
    (hperm : rows'.Perm (joinRows st.frames (chanTable rq.segs (remapValues rq.segs true rq.relabel)) k)) :
    combineRow st.type st.mfv rq.skipOverlap d st.npix rows' =
      combineRow st.type st.mfv rq.skipOverlap d st.npix
        (joinRows st.frames (chanTable rq.segs (remapValues rq.segs true rq.relabel)) k) :=
  combineRow_perm st wf rq.segs rq.relabel hnd k hsub (fun f hf hfk hs => hbin f hf (hfk ▸ hk) hs) d
    (fun s hs => Int.le_trans (outVal_le_ceiling st rq hc s hs) hcap) rq.skipOverlap rows' hperm

/-- **Truly fractional frames cannot be combined**: when a frame that the combined read uses (requested stack value,
requested segment) holds a value other than 0 and MaximumFractionalValue, the read is refused. -/
theorem fractional_nonbinary_combine_refused (st : Stored) (rq : Req) (hty : st.type = .fractional)
    (hc : rq.combine = true) (hnd : rq.segs.Nodup) (f : SFrame) (hf : f ∈ st.frames) (hk : f.key ∈ rq.keys)
    (hs : f.seg ∈ rq.segs) (p : Nat) (hp : p ∈ f.pix) (h0 : p ≠ 0) (h1 : p ≠ st.mfv) :
    ∃ e, readCore st rq = .error e := by
  by_cases hsub : ∀ s ∈ rq.segs, s ∈ st.segNums
  · rw [readCore_eq st rq hsub hnd]
    by_cases hcap : ceiling st rq > (chosenDtype st rq).maxVal
    · exact ⟨.value, by simp [hcap]⟩
    · simp only [hcap, ↓reduceIte, hty]
      have hw : willRescale st rq = false := by unfold willRescale; simp [hc]
      rw [hw]
      by_cases hr : rq.rescale = true
      · rw [stackRead_combined_head st rq _ hc hnd (fun _ => hr)]
        have hrow : (f, outValNat rq.segs rq.relabel f.seg) ∈
            joinRows st.frames (chanTable rq.segs (remapValues rq.segs true rq.relabel)) f.key := by
          rw [mem_joinRows]
          exact ⟨hf, rfl, (mem_chan_combined rq.segs rq.relabel hnd _ _).mpr ⟨hs, outValNat_eq _ _ _ hs⟩⟩
        obtain ⟨e, he⟩ := mapM_error_of_mem (fun k => combineRow st.type st.mfv rq.skipOverlap (chosenDtype st rq) st.npix
            (joinRows st.frames (chanTable rq.segs (remapValues rq.segs true rq.relabel)) k)) rq.keys
          ⟨f.key, hk, by
            unfold combineRow
            rw [hty]
            exact foldlM_error_of_mem _ _ _ ⟨_, hrow, fun a => combineStep_nonbinary st.mfv _ _ a _ ⟨p, hp, h0, h1⟩⟩⟩
        exact ⟨e, by rw [he]; rfl⟩
      · have hr' : rq.rescale = false := by simpa using hr
        unfold stackRead
        rw [stackDecision_eq]
        exact ⟨.value, by simp [hc, hr', hty, bind, Except.bind]⟩
  · exact ⟨.value, readCore_not_admitted st rq (fun h => hsub h.1)⟩

/-! ## Construction: stacked mask → label map -/

/-- **Combining at construction** (`_combine_segments` + the segment-number look-up): for a pixel of a stacked 0/1
mask in which at most one of the described segments is set, the stored label is accepted, and extracting segment
`nums[c]` from it gives back exactly channel `c` — for every number of segments (the single-channel shortcut
included) and for sparse numbers. -/
theorem combine_at_construction (nums chans : List Nat) (hlen : chans.length = nums.length)
    (hbin : ∀ c ∈ chans, c = 0 ∨ c = 1) (hno : ∀ i j : Nat, chans[i]? = some 1 → chans[j]? = some 1 → i = j)
    (hnd : nums.Nodup) (hpos : ∀ s ∈ nums, 0 < s) :
    ∃ v, labelPixel nums chans = .ok v ∧ ∀ c (hc : c < nums.length), (v = nums[c] ↔ chans[c]? = some 1) := by
  by_cases hex : ∃ j : Nat, chans[j]? = some 1
  · obtain ⟨j, hj⟩ := hex
    have hjl : j < nums.length := by rw [← hlen]; exact (List.getElem?_eq_some_iff.mp hj).1
    have hcp := combinePixel_one chans hbin j hj (fun i hi => hno i j hi hj)
    refine ⟨nums[j], ?_, ?_⟩
    · unfold labelPixel
      rw [hcp, List.getElem?_cons_succ, List.getElem?_eq_getElem hjl]
    · intro c hc
      constructor
      · intro h
        have : j = c := by
          apply Decidable.byContradiction
          intro hne
          rcases Nat.lt_or_gt_of_ne hne with hlt | hgt
          · exact (List.pairwise_iff_getElem.mp hnd) j c hjl hc hlt h
          · exact (List.pairwise_iff_getElem.mp hnd) c j hc hjl hgt h.symm
        rw [← this]; exact hj
      · intro h
        have := hno c j h hj
        subst this; rfl
  · have hz : ∀ c ∈ chans, c = 0 := by
      intro c hc
      rcases hbin c hc with h | h
      · exact h
      · obtain ⟨i, hi⟩ := List.mem_iff_getElem?.mp hc
        exact absurd ⟨i, by rw [hi, h]⟩ hex
    refine ⟨0, ?_, ?_⟩
    · unfold labelPixel
      rw [combinePixel_zero chans hz]; rfl
    · intro c hc
      constructor
      · intro h
        have := hpos nums[c] (List.getElem_mem hc)
        omega
      · intro h
        exact absurd ⟨c, h⟩ hex

example : labelPixel [3, 700, 9] [0, 1, 0] = .ok 700 := by decide
example : labelPixel [5] [1] = .ok 5 := by decide

/-! ## Missing source frames

"Absent from the object" means **unknown to the object's reference tables**, for all three stack entry points
(`missingRefused`): by source instance an instance the object does not reference (`st.refs`, its `InstanceUIDs` table);
by source frame an instance no frame derives from (`st.frameSrcs`; an instance that is merely *listed* in
ReferencedSeriesSequence does not count — `listed_but_not_source_is_unknown_by_frame`), or a frame number above the highest
referenced one; by dimension index values
a position no frame has.  A *referenced* source without any frame (its plane was empty and omitted) is known: it reads as
empty without any assertion — that is what the library documents and does. -/

/-- **Unknown ⇒ refused unless asserted**, spelled out per entry point in terms of the object: a requested instance the
object does not reference; a frame request for an instance no frame derives from or for a number above every referenced
frame number; index values no stored frame has. -/
theorem unknown_source_refused (st : Stored) (rq : Req) :
    (∀ k ∈ rq.keys, k ∉ st.refs → ∃ e, SegRead.read st .bySource false rq = .error e) ∧
    (∀ uid, uid ∉ st.frameSrcs → ∃ e, SegRead.read st (.frame uid) false rq = .error e) ∧
    (∀ uid, ∀ k ∈ rq.keys, st.frames ≠ [] → (∀ f ∈ st.frames, f.key < k) →
      ∃ e, SegRead.read st (.frame uid) false rq = .error e) ∧
    (∀ k ∈ rq.keys, (∀ f ∈ st.frames, f.key ≠ k) → ∃ e, SegRead.read st .div false rq = .error e) := by
  refine ⟨?_, ?_, ?_, ?_⟩
  · intro k hk hn
    apply read_missing_refused
    simp only [missingRefused, List.any_eq_true]
    exact ⟨k, hk, by simpa using hn⟩
  · intro uid hn
    apply read_missing_refused
    have : st.frameSrcs.contains uid = false := by simpa using hn
    simp only [missingRefused, this, Bool.not_false, Bool.true_or]
  · intro uid k hk hne hall
    apply read_missing_refused
    have hmax : listMax (st.frames.map (·.key)) < k := by
      have := listMax_le_of_forall (st.frames.map (·.key)) (k - 1) (by
        intro x hx
        obtain ⟨f, hf, rfl⟩ := List.mem_map.mp hx
        have := hall f hf; omega)
      have hk0 : 0 < k := by
        cases hfr : st.frames with
        | nil => exact absurd hfr hne
        | cons f t => have := hall f (by rw [hfr]; simp); omega
      omega
    simp only [missingRefused, Bool.or_eq_true, List.any_eq_true]
    right
    exact ⟨k, hk, by simpa using hmax⟩
  · intro k hk hall
    apply read_missing_refused
    simp only [missingRefused, List.any_eq_true]
    refine ⟨k, hk, ?_⟩
    have : ¬ k ∈ st.frames.map (·.key) := by
      intro hm
      obtain ⟨f, hf, hfk⟩ := List.mem_map.mp hm
      exact hall f hf hfk
    simpa using this

/-- the same in one statement over all entry points: `missingRefused st mode keys` is computed from the object's own
tables (`st.refs`, the keys of `st.frames`), see its definition — `unknown_source_refused` spells it out -/
theorem missing_refused_unless_asserted (st : Stored) (mode : Mode) (rq : Req)
    (hm : missingRefused st mode rq.keys = true) : ∃ e, SegRead.read st mode false rq = .error e :=
  read_missing_refused st mode rq hm

/-- a stored frame's source is never refused (the reference table covers the frames) -/
theorem stored_sources_are_known (st : Stored) (hcov : RefsCover st) (keys : List Nat)
    (h : ∀ k ∈ keys, ∃ f ∈ st.frames, f.key = k) : missingRefused st .bySource keys = false := by
  simp only [missingRefused, List.any_eq_false]
  intro k hk
  obtain ⟨f, hf, rfl⟩ := h k hk
  have := hcov f hf
  simpa using this

/-- **Known ⇒ read, assertion or not**: when every requested value is known to the reference tables (or the caller
asserts), the entry point is exactly `_get_pixels_by_seg_frame` on the request, over the object's frames (over no
frames for an unreferenced instance under the assertion) … -/
theorem asserted_or_known_reads (st : Stored) (mode : Mode) (a : Bool) (rq : Req)
    (h0 : sourceIndexingRefused st mode rq.ignoreSpatial = false) (h1 : rq.segs ≠ [])
    (h2 : rq.keys ≠ []) (h3 : ∀ k ∈ rq.keys, k ≠ 0) (hu : framesUnique st = true)
    (hsi : st.type = .labelmap ∨ st.segIndexed = true)
    (hm : a = true ∨ missingRefused st mode rq.keys = false) :
    SegRead.read st mode a rq = readCore (effective st mode) rq :=
  read_eq_readCore st mode a rq h0 h1 h2 h3 hu hsi hm

/-- **The positive companion — referenced but frameless reads as empty WITHOUT the assertion**: by source instance,
when all requested instances are referenced, the read is not refused for want of the assertion; the plane of a
referenced instance that has no frame is all zero (`rawLabels` / `segPlane`), so it contributes zeros to every
result theorem above. -/
theorem referenced_frameless_reads_empty (st : Stored) (rq : Req)
    (h0 : sourceIndexingRefused st .bySource rq.ignoreSpatial = false) (h1 : rq.segs ≠ []) (h2 : rq.keys ≠ [])
    (h3 : ∀ k ∈ rq.keys, k ≠ 0) (hu : framesUnique st = true) (hsi : st.type = .labelmap ∨ st.segIndexed = true) (href : ∀ k ∈ rq.keys, k ∈ st.refs) :
    SegRead.read st .bySource false rq = readCore st rq ∧
    ∀ k, (∀ f ∈ st.frames, f.key ≠ k) →
      rawLabels st k = List.replicate st.npix 0 ∧ ∀ s, segPlane st k s = List.replicate st.npix 0 := by
  constructor
  · have := read_eq_readCore st .bySource false rq h0 h1 h2 h3 hu hsi (Or.inr (by
      simp only [missingRefused, List.any_eq_false]
      intro k hk; simpa using href k hk))
    simpa [effective] using this
  · intro k hk
    constructor
    · unfold rawLabels
      have : st.frames.filter (fun f => f.key == k) = [] := by
        rw [List.filter_eq_nil_iff]; intro f hf; simpa using hk f hf
      rw [this]; rfl
    · intro s
      unfold segPlane
      have : st.frames.find? (fun f => f.key == k && f.seg == s) = none := by
        rw [List.find?_eq_none]; intro f hf
        have := hk f hf
        simp [this]
      rw [this]

/-- **listed is not enough**: by source frame, an instance that is among the referenced instances (`st.refs`) but from which
no frame derives is refused without the assertion, although the same instance requested by source instance is known and
reads as empty -/
theorem listed_but_not_source_is_unknown_by_frame (st : Stored) (uid : Nat) (hl : uid ∈ st.refs) (hn : uid ∉ st.frameSrcs)
    (rq : Req) : (∃ e, SegRead.read st (.frame uid) false rq = .error e) ∧ missingRefused st .bySource [uid] = false := by
  constructor
  · apply read_missing_refused
    have : st.frameSrcs.contains uid = false := by simpa using hn
    simp only [missingRefused, this, Bool.not_false, Bool.true_or]
  · simp only [missingRefused, List.any_cons, List.any_nil, Bool.or_false]
    simpa using hl

/-- by source frame with an instance no frame derives from, under the assertion: no frame is used, every plane is
empty -/
theorem unreferenced_instance_asserted_reads_empty (st : Stored) (uid : Nat) (hn : uid ∉ st.frameSrcs) (rq : Req)
    (h0 : sourceIndexingRefused st (.frame uid) rq.ignoreSpatial = false) (h1 : rq.segs ≠ []) (h2 : rq.keys ≠ []) (h3 : ∀ k ∈ rq.keys, k ≠ 0) (hu : framesUnique st = true)
    (hsi : st.type = .labelmap ∨ st.segIndexed = true) :
    SegRead.read st (.frame uid) true rq = readCore { st with frames := [] } rq := by
  have := read_eq_readCore st (.frame uid) true rq h0 h1 h2 h3 hu hsi (Or.inl rfl)
  have hc : st.frameSrcs.contains uid = false := by simpa using hn
  simp only [effective, hc, Bool.false_eq_true, ↓reduceIte] at this
  exact this

/-! ## Indexing by source is only offered when it means something (tie T: T8q)

`get_pixels_by_source_instance` / `get_pixels_by_source_frame` apply `_check_indexing_with_source_frames` before anything
else (`Gen.indexingChecked`); the other three entry points do not. -/

/-- **When reading by source is refused**: iff the object is TILED_FULL, or a frame derives from several source frames, or the
object does not state for every source that spatial locations are preserved and the caller did not pass
`ignore_spatial_locations`; the entry points by dimension index, as volume and as total pixel matrix never refuse on
these grounds. -/
theorem source_indexing_refused_iff (st : Stored) (mode : Mode) (ign : Bool) :
    sourceIndexingRefused st mode ign = true ↔
      (mode = .bySource ∨ ∃ uid, mode = .frame uid) ∧
        (st.tiledFull = true ∨ st.singleSource = false ∨ (ign = false ∧ st.locPreserved ≠ some true)) := by
  rw [sourceIndexingRefused_eq]
  cases mode <;> cases st.tiledFull <;> cases st.singleSource <;> cases ign <;> rcases st.locPreserved with _ | _ | _ <;>
    simp

/-- … and such a request is refused whatever else it says -/
theorem source_indexing_refused (st : Stored) (mode : Mode) (a : Bool) (rq : Req)
    (h : sourceIndexingRefused st mode rq.ignoreSpatial = true) : SegRead.read st mode a rq = .error .runtime := by
  unfold SegRead.read
  simp only [h, ↓reduceIte]

/-- only the two entry points that index by source apply the check, first, with the caller's flag (T8q) -/
theorem source_indexing_checked_where :
    indexingChecked = [("get_pixels_by_source_instance", "first", "ignore_spatial_locations"),
                       ("get_pixels_by_source_frame", "first", "ignore_spatial_locations"),
                       ("get_volume", "none", ""), ("get_pixels_by_dimension_index_values", "none", ""),
                       ("get_total_pixel_matrix", "none", "")] := by decide

/-- **`ignore_spatial_locations` lifts that one refusal and changes nothing else**: with the flag, an object that does not
state that locations are preserved (or says they are not) is read exactly as the same object saying YES is read without it;
on an object that says YES the flag has no effect at all. -/
theorem ignore_spatial_locations_only_lifts_the_refusal (st : Stored) (mode : Mode) (a : Bool) (rq : Req) (x : Option Bool) :
    SegRead.read { st with locPreserved := x } mode a { rq with ignoreSpatial := true } =
      SegRead.read { st with locPreserved := some true } mode a { rq with ignoreSpatial := false } := by
  unfold SegRead.read
  have h : sourceIndexingRefused { st with locPreserved := x } mode true =
      sourceIndexingRefused { st with locPreserved := some true } mode false := by
    simp only [sourceIndexingRefused_eq]
    cases mode <;> cases st.tiledFull <;> cases st.singleSource <;> rfl
  simp only [h]
  cases mode with
  | frame uid =>
    by_cases hc : st.frameSrcs.contains uid = true <;>
      simp only [hc, framesUnique, entryRefuses, framesAdmitted, effective, readCore, labelmapRead, stackRead, remapTableT,
        Bool.false_eq_true, ↓reduceIte] <;> rfl
  | _ => simp only [framesUnique, entryRefuses, effective, readCore, labelmapRead, stackRead, remapTableT] <;> rfl

/-- **An object without a segment dimension cannot be read by segment** (what the code does today, see docs/C02.md "open"):
a BINARY / FRACTIONAL object whose frame table has no ReferencedSegmentNumber column — the Segment Identification macro
only in the shared functional groups, or not used as a dimension index — has every read refused. -/
theorem segment_number_not_indexed_refused (st : Stored) (mode : Mode) (a : Bool) (rq : Req) (hty : st.type ≠ .labelmap)
    (hsi : st.segIndexed = false) : ∃ e, SegRead.read st mode a rq = .error e := by
  unfold SegRead.read
  by_cases e0 : sourceIndexingRefused st mode rq.ignoreSpatial = true
  · exact ⟨.runtime, by simp only [e0, ↓reduceIte]⟩
  by_cases e1 : rq.segs.isEmpty = true
  · exact ⟨.value, by simp only [e0, e1, Bool.false_eq_true, ↓reduceIte]⟩
  by_cases e2 : rq.keys.isEmpty = true
  · exact ⟨.value, by simp only [e0, e1, e2, Bool.false_eq_true, ↓reduceIte]⟩
  · exact ⟨.key, by simp [e0, e1, e2, hty, hsi]⟩

/-- … in which a stack value without any stored frame reads as an all-zero plane (label maps). -/
theorem absent_plane_reads_empty (st : Stored) (k : Nat) (h : ∀ f ∈ st.frames, f.key ≠ k) (segs : List Nat)
    (h0 : 0 ∉ segs) (relabel : Bool) : (rawLabels st k).map (outVal segs relabel) = List.replicate st.npix 0 := by
  unfold rawLabels
  have : st.frames.filter (fun f => f.key == k) = [] := by
    rw [List.filter_eq_nil_iff]; intro f hf; simpa using h f hf
  rw [this]
  simp only [List.getLast?_nil, List.map_replicate]
  congr 1
  exact outVal_not_mem segs relabel 0 h0

/-! ## Reads are pure (tie T: T8h)

Location 0 of the store model (`Model/Effects.lean`) is the object's stored pixel data (`PixelData` and the decoded
pixel array pydicom keeps on the object).  The three tables are the assignments of
`Segmentation._get_pixels_by_seg_frame`, `_Image._get_pixels_by_frame` and `_CombinedPixelTransform.__call__`,
regenerated from the source: for each, whether it rebinds a name (`x = e`) or writes in place (`x op= e`, `x[i] = e`,
`x.a = e`), and what `e` may share memory with. -/

/-- names are numbered (`Gen.effectNames`), 0 is `self`; the analysis accepts the current read paths: the may-alias set of the object's cells is closed under every
statement and no in-place statement writes through a name in it -/
theorem read_paths_pure_by_analysis :
    pureProg [0] (segReadEffects ++ frameLoopEffects ++ frameTransformEffects) = true := by decide +kernel

/-- `_get_pixels_by_frame` returns a new array (what T8h assumes about that call) -/
theorem frame_loop_returns_new_array :
    (frameLoopReturns.all fun n =>
      !(mayAlias [0] (segReadEffects ++ frameLoopEffects ++ frameTransformEffects)).contains n) = true := by
  decide +kernel

/-- **Reads do not modify the object**: whatever statements of the three read functions run, in whatever order and
however often (any branch, any number of loop iterations, calls interleaved), with whatever values, the object's
stored pixel cells are the same afterwards — so a later read sees what an earlier one saw. -/
theorem reads_do_not_modify_the_object (σ σ' : St) (hinit : ∀ x, σ.env x = some 0 → x = 0)
    (h : Exec (segReadEffects ++ frameLoopEffects ++ frameTransformEffects) σ σ') : σ'.store 0 = σ.store 0 :=
  pureProg_sound [0] _ read_paths_pure_by_analysis σ σ' (fun x hx => by simp [hinit x hx]) h

/-! Non-vacuity: the semantics does see in-place writes.  A three-statement program — take a stored frame, slice it,
floor-divide the slice in place — is rejected by the analysis, and it has an execution that changes location 0. -/

def exInPlace : List Stmt :=
  [⟨1, false, .stored⟩, ⟨1, false, .view [1]⟩, ⟨1, true, .fresh⟩]

example : pureProg [0] exInPlace = false := by decide

example : ∃ σ σ' : St, (∀ x, σ.env x = some 0 → x = 0) ∧ Exec exInPlace σ σ' ∧ σ'.store 0 ≠ σ.store 0 := by
  let σ : St := { env := fun x => if x = 0 then some 0 else none, store := fun _ => 255 }
  refine ⟨σ, (σ.bind 1 (some 0)).write 0 1, ?_, ?_, ?_⟩
  · intro x hx
    simp only [σ] at hx
    by_cases h : x = 0
    · exact h
    · simp [h] at hx
  · apply Exec.step (σ₂ := σ.bind 1 (some 0))
    · apply Exec.step (Exec.refl σ)
      exact Step.bindStored ⟨1, false, .stored⟩ (by simp [exInPlace]) rfl rfl σ
    · exact Step.writeInPlace ⟨1, true, .fresh⟩ (by simp [exInPlace]) rfl 0 1 _ (by simp [St.bind])
  · simp [St.write, σ]

/-! ## Histories on one object (tie T: T8r, T8h; correspondence: every object is read ~40 times in one history)

Between two calls an object carries (1) the temporary tables of its SQLite database and (2) possibly the decoded pixel array.
`Model/SegReadState.lean` is a state machine over both; the operations on the tables are the ones extracted from
`_generate_temp_tables` (T8r). -/

/-- the extracted program passes the check the induction needs: before the `yield` every table is dropped if it exists and then
created, so the outcome does not depend on what an earlier (refused) read left; after it the table is dropped -/
theorem temp_table_program_is_restartable :
    SegState.tempProgOk tempTablesPre tempTablesPost = true := by decide

/-- **No function on a read path keeps state on the object** except the accessor `pixel_array`, which stores the decoded
array: every `self.x = …` / `del self.x` in the functions reachable from the five entry points (T8r) is that one. -/
theorem reads_keep_no_state_on_the_object :
    (readPathSelfWrites.all fun w => w == ("_Image.pixel_array", "_pixel_array")) = true ∧
    (["Segmentation._get_pixels_by_seg_frame", "_Image._get_pixels_by_frame", "_Image._iterate_indices_for_stack",
      "_Image._generate_temp_tables", "_Image.get_stored_frame"].all fun f => readPathFunctions.contains f) = true := by
  decide

/-- the program a read runs around its frame loop, as extracted from the current source (T8r): table operations before and after
the `yield` of `_generate_temp_tables`, whether the clean-up is in `try … finally`, and whether every query cursor on a read path
is closed or exhausted on every exit -/
def readProgram : SegState.Prog := ⟨tempTablesPre, tempTablesPost, tempTablesGuarded, cursorsClosedOnExit⟩

/-- **No query outlives a read** (T8r): every query executed by a function on a read path is a statement, is handed at once to
`list` / `set` / `next` / `fetchone` / an eager comprehension, or — the two frame queries, which are iterated lazily while the
frames are read — has its cursor closed in a `finally` around the `yield`.  So a read that raises part way through the rows, whose
exception the caller may keep, leaves tables behind but no open query on them.  This is the premise `closes` of the state
machine: a table left behind is dropped by the next read, a table left LOCKED cannot be ("database table is locked": defect
C02-stack-cursor-left-open, fixed 33861f5; the tiled iterator e921751). -/
theorem frame_query_cursor_is_closed :
    cursorsClosedOnExit = true ∧
    (queryCursorUse.all fun u => u.2 == "statement" || u.2 == "consumed" || u.2 == "closed-on-exit") = true ∧
    frameQueryCursorClosed = [("_iterate_indices_for_stack", true), ("_iterate_indices_for_tiled_region", true)] := by decide

/-- **State-independence of reads** over the machine with tables, LOCK and pixel cache (`Model/SegReadState.lean`).  Take any
state in which no lock is in force — any temporary tables left behind, pixel array cached or not; a fresh or freshly parsed
object is such a state — and any history of operations: reads of any kind, accepted or refused, refused before or inside the
frame loop, with the caller KEEPING the exception or not; looks at `pixel_array`; the caller releasing what it kept.  Then every
read answers exactly as on a fresh object (`stateless`), in particular a request repeated later gets the same answer.  What
carries the proof: `temp_table_program_is_restartable` (left-over tables are dropped first) and `frame_query_cursor_is_closed`
(no read leaves a lock: `withTemp_answer` shows the lock flag stays false).  Hypotheses: `hlen` every read uses the object's
tables; `hlaw` the frames taken from the cached array are the frames decoded one by one (pydicom's whole-array decoding vs
frame decoding — a law about pydicom, exercised by the correspondence, which accesses `pixel_array` at a random step of every
history).  A state WITH a lock in force is outside: there the first read fails whatever the program does — and
`open_cursor_breaks_state_independence` shows such states are reached from a fresh object as soon as `closes` is false. -/
theorem reads_are_state_independent (n : Nat) (ops : List (SegState.Op Out))
    (hlen : ∀ f k x d c, SegState.Op.read f k x d c ∈ ops → f.length = n)
    (hlaw : ∀ f k x d c, SegState.Op.read f k x d c ∈ ops → c = d)
    (σ σ' : SegState.ObjState) (hσ : σ.db.length = n) (hσ' : σ'.db.length = n) (hl : σ.locked = false)
    (hl' : σ'.locked = false) :
    SegState.run readProgram ops σ = ops.map SegState.stateless ∧
    SegState.run readProgram ops σ = SegState.run readProgram ops σ' := by
  have hp : SegState.ProgFacts readProgram.pre readProgram.post :=
    SegState.progFacts_of_ok _ _ temp_table_program_is_restartable
  have hc : readProgram.closes = true := frame_query_cursor_is_closed.1
  have h1 := SegState.run_stateless readProgram hp hc n ops hlen hlaw σ hσ hl
  have h2 := SegState.run_stateless readProgram hp hc n ops hlen hlaw σ' hσ' hl'
  exact ⟨h1, by rw [h1, h2]⟩

/-- **Counterexample for the unfixed shape** (the program as it was before 33861f5: same table operations, cursor of the frame
query not closed): on a FRESH object, a read refused inside the frame loop whose exception the caller keeps, followed by any
read — the second read fails ("database table is locked": the drop-if-exists of a locked table) although it would succeed on a
fresh object; once the caller releases the exception the same read succeeds again.  Moving the clean-up into `try … finally`
does not help: it then runs against the locked tables.  So state independence is exactly as strong as `closes`. -/
theorem open_cursor_breaks_state_independence (a : Out) :
    let unfixed : SegState.Prog := { readProgram with closes := false }
    let refused : SegState.Op Out := .read [false, false] true false (.error .runtime) (.error .runtime)
    let good : SegState.Op Out := .read [false, false] false true (.ok a) (.ok a)
    SegState.run unfixed [refused, good, .release, good] ⟨false, [false, false], false⟩ =
      [some (.error .runtime), some (.error .other), none, some (.ok a)] ∧
    SegState.run { unfixed with guarded := true } [refused, good] ⟨false, [false, false], false⟩ =
      [some (.error .runtime), some (.error .other)] ∧
    SegState.run readProgram [refused, good, .release, good] ⟨false, [false, false], false⟩ =
      [some (.error .runtime), some (.ok a), none, some (.ok a)] := by
  refine ⟨?_, ?_, ?_⟩ <;> rfl

/-! ## The hand-written loops use the expressions of the source (tie T: T8j, T8k, T8m)

Bridges between hand-written definitions of `Model/SegRead.lean` and definitions regenerated from the current source
(`Proofs/SegReadTie.lean`).  They are extra statements: the result theorems above are about the hand-written definitions,
these say that those definitions contain exactly what the source contains now. -/

/-- the combination loop: admissible FRACTIONAL values, divisor, overlap test at a pixel, update of a pixel (T8j) -/
theorem combination_loop_is_source (ty : SegType) (mfv : Nat) (skip : Bool) (d : DType) (acc : List Int)
    (r : SFrame × Nat) : combineStep ty mfv skip d acc r = SegReadTie.combineStepGen ty mfv skip d acc r :=
  SegReadTie.combineStep_uses_source ty mfv skip d acc r

/-- `_get_segment_remap_values`, the default channel numbering and pairing of `_prepare_channel_tables` (T8k) -/
theorem channel_mapping_is_source (segs : List Nat) (combine relabel : Bool) :
    remapValues segs combine relabel =
      (match remapKind combine relabel (segs.length : Int) with
       | .ok (k, a, b) =>
         if k = 0 then none else if k = 1 then some (List.range' a.toNat (b - a).toNat) else some segs
       | .error _ => none) ∧
    chanTable segs none =
      (match defaultChannels (segs.length : Int) with
       | .ok (lo, hi) => (List.range' lo.toNat (hi - lo).toNat).zip segs
       | .error _ => []) :=
  ⟨SegReadTie.remapValues_uses_source segs combine relabel, SegReadTie.chanTable_default_uses_source segs⟩

/-- all five read entry points hand `segment_numbers`, `combine_segments`, `relabel`, `rescale_fractional`,
`skip_overlap_checks`, `dtype` on under the same name — to the frame loop, to `_get_segment_remap_values`, to the channel
table (T8k): the model's `read` passes the request through unchanged -/
theorem entry_points_forward_options_unchanged :
    forwarding.all SegReadTie.rowOk = true ∧
    (["get_pixels_by_source_instance", "get_pixels_by_source_frame", "get_volume",
      "get_pixels_by_dimension_index_values", "get_total_pixel_matrix"].all fun e =>
        ["frames:relabel", "frames:combine_segments", "remap:relabel", "channel:segment_numbers"].all fun k =>
          forwarding.any fun r => r.1 == e && r.2.1 == k) = true :=
  ⟨SegReadTie.forwarding_passes_options_unchanged, SegReadTie.forwarding_covers_entry_points⟩

/-- an option left out of a call means the documented default at every one of the five entry points (T8k) -/
theorem omitted_options_mean_the_documented_defaults :
    optionDefaults.all (fun r => SegReadTie.documentedDefaults.lookup r.2.1 == some r.2.2) = true ∧
    (["get_pixels_by_source_instance", "get_pixels_by_source_frame", "get_volume",
      "get_pixels_by_dimension_index_values", "get_total_pixel_matrix"].all fun e =>
        ["segment_numbers", "combine_segments", "relabel", "rescale_fractional", "skip_overlap_checks", "dtype"].all fun k =>
          optionDefaults.any fun r => r.1 == e && r.2.1 == k) = true :=
  SegReadTie.option_defaults_agree

/-- the list-valued accessors return values the caller may edit without the object noticing (T8n + the alias analysis) -/
theorem returned_lists_are_the_callers :
    Effects.pureProg [0] accessorEffects = true ∧
    (accessorResults.all fun n => !(Effects.mayAlias [0] accessorEffects).contains n) = true :=
  SegReadTie.accessors_return_new_values

/-- the one-hot expansion of a label map and the rescaling tail of a FRACTIONAL read (T8m) -/
theorem post_processing_is_source (d : DType) (n : Nat) (v : Int) (mfv : Nat) (frames : List (List (List Int))) :
    oneHot d n v =
      (match oneHotShape (n : Int) with
       | .ok (size, start) =>
         let i := if v < 0 then v + size else v
         if i < 0 ∨ i ≥ size then .error .index
         else .ok (((List.range size.toNat).map fun (k : Nat) => castVal d (if i = (k : Int) then 1 else 0)).drop start.toNat)
       | .error e => .error e) ∧
    (if frames.any (fun fr => fr.any (fun ch => ch.any (fun v => v > (mfv : Int)))) then (.error .runtime : Except ErrKind Nat)
     else .ok mfv) =
      (match rescaleGuard (SegReadTie.flatMax (frames.flatten.flatten)) (mfv : Int) with
       | .ok dv => .ok dv.toNat
       | .error e => .error e) :=
  ⟨SegReadTie.oneHot_uses_source d n v, SegReadTie.rescale_tail_uses_source mfv frames⟩

/-- non-vacuity: the regenerated step on a FRACTIONAL frame (0/100 valued) meeting an output plane — overlap at pixel 1 -/
example : SegReadTie.combineStepGen .fractional 100 false .u8 [0, 3, 0] (⟨7, 2, [100, 100, 0]⟩, 5) = .error .runtime := by decide
example : SegReadTie.combineStepGen .fractional 100 true .u8 [0, 3, 0] (⟨7, 2, [100, 100, 0]⟩, 5) = .ok [5, 5, 0] := by decide
example : SegReadTie.combineStepGen .fractional 100 true .u8 [0, 3, 0] (⟨7, 2, [100, 50, 0]⟩, 5) = .error .value := by decide


/-! ## ONE specification for every read (Model/SegReadSpec.lean) and the refinement theorem

`maskPlane st k s` is "the mask of segment `s` at stack value `k`" for all three segmentation types.  `specOut` gives the result
pixel by pixel (`stacked[plane][channel c]` = mask of the c-th requested segment; `combined[plane][pixel]` = `combinedSpec`:
label of the requested segment present, the largest label if several are, 0 if none); `specRefuses` lists every reason for a
refusal.  Neither contains a loop, a table or a dtype decision of the implementation.  The model `SegRead.read` — whose
decisions are the regenerated definitions T8…T8q and whose loops are bridged to the source by T8j/T8k/T8m — is proved to refine
it, for all objects, requests, entry points and options at once; the per-clause theorems above are its special cases. -/

/-- **REFINEMENT (all types × all entry points × all options)**: on a well-formed object the read is accepted exactly when no
listed reason for refusal applies, and then returns exactly the specified array. -/
theorem read_refines_the_specification (st : Stored) (wf : WfObj st) (mode : Mode) (a : Bool) (rq : Req) :
    (specRefuses st mode a rq = true → ∃ e, SegRead.read st mode a rq = .error e) ∧
    (specRefuses st mode a rq = false → SegRead.read st mode a rq = .ok (specOut (effective st mode) rq)) :=
  read_refines_spec st wf mode a rq

/-- … so acceptance is decided by the list of reasons alone -/
theorem accepted_iff_no_reason_to_refuse (st : Stored) (wf : WfObj st) (mode : Mode) (a : Bool) (rq : Req) :
    (∃ out, SegRead.read st mode a rq = .ok out) ↔ specRefuses st mode a rq = false := by
  obtain ⟨h1, h2⟩ := read_refines_spec st wf mode a rq
  constructor
  · rintro ⟨out, ho⟩
    cases hs : specRefuses st mode a rq
    · rfl
    · obtain ⟨e, he⟩ := h1 hs
      rw [ho] at he; cases he
  · intro hs; exact ⟨_, h2 hs⟩

/-- reading `specOut`, stacked: channel `c` of output plane `j` is the mask of the `c`-th requested segment at the `j`-th
requested stack value — **any subset, any order**; entries mean value / MaximumFractionalValue for a rescaled FRACTIONAL read -/
theorem spec_stacked_channel (st : Stored) (rq : Req) (hc : rq.combine = false) :
    ∃ px, specOut st rq = .stacked (if willRescale st rq then st.mfv else 1) px ∧ px.length = rq.keys.length ∧
      ∀ j (hj : j < rq.keys.length) (hj' : j < px.length), (px[j]).length = rq.segs.length ∧
        ∀ c (hcl : c < rq.segs.length) (hcl' : c < (px[j]).length),
          (px[j])[c] = (maskPlane st rq.keys[j] rq.segs[c]).map Int.ofNat := by
  unfold specOut
  simp only [hc, Bool.false_eq_true, ↓reduceIte]
  refine ⟨_, rfl, by simp, ?_⟩
  intro j hj hj'
  simp

/-- reading `specOut`, combined: a pixel at which exactly one requested segment is present holds that segment's label — its own
number, or its 1-based position in the request under `relabel`; a pixel at which none is present holds 0; and whatever it
holds is 0 or the label of a requested segment present there: **segments that were not requested never appear** -/
theorem spec_combined_pixel (st : Stored) (segs : List Nat) (relabel : Bool) (k i : Nat) :
    (∀ s, presentAt st segs k i = [s] → combinedSpec st segs relabel k i = outVal segs relabel s) ∧
    (presentAt st segs k i = [] → combinedSpec st segs relabel k i = 0) ∧
    (combinedSpec st segs relabel k i = 0 ∨
      ∃ s ∈ segs, present st k s i = true ∧ combinedSpec st segs relabel k i = outVal segs relabel s) := by
  refine ⟨?_, ?_, ?_⟩
  · intro s h
    unfold combinedSpec
    rw [h]
    have := outVal_nonneg segs relabel s
    simp only [List.map_cons, List.map_nil, List.foldl_cons, List.foldl_nil]
    omega
  · intro h
    unfold combinedSpec
    rw [h]; rfl
  · unfold combinedSpec
    obtain ⟨_, _, h3⟩ := foldl_max_acc ((presentAt st segs k i).map (outVal segs relabel)) 0
    rcases h3 with h | h
    · exact Or.inl h
    · right
      obtain ⟨s, hs, hv⟩ := List.mem_map.mp h
      obtain ⟨hs1, hs2⟩ := List.mem_filter.mp hs
      exact ⟨s, hs1, hs2, hv.symm⟩

/-- … and without overlap at most one requested segment is present at a pixel, so the two cases above are all there is -/
theorem spec_no_overlap_unique (st : Stored) (segs keys : List Nat) (h : overlaps st segs keys = false) (k : Nat)
    (hk : k ∈ keys) (i : Nat) (hi : i < st.npix) : presentAt st segs k i = [] ∨ ∃ s, presentAt st segs k i = [s] := by
  unfold overlaps at h
  rw [List.any_eq_false] at h
  have := h k hk
  rw [Bool.not_eq_true, List.any_eq_false] at this
  have := this i (List.mem_range.mpr hi)
  have hl : (presentAt st segs k i).length ≤ 1 := by simp at this; omega
  match hp : presentAt st segs k i, hl with
  | [], _ => exact Or.inl rfl
  | [s], _ => exact Or.inr ⟨s, rfl⟩
  | _ :: _ :: _, hl => simp at hl

/-- **`relabel` only renames**: where no two requested segments overlap, the relabelled combined value of a pixel is the 1-based
position (in the request) of the value the same read gives without `relabel`, and 0 stays 0 — the segment chosen is the same,
only its label differs. -/
theorem relabel_only_renames (st : Stored) (segs keys : List Nat) (hpos : ∀ s ∈ segs, 0 < s)
    (h : overlaps st segs keys = false) (k : Nat) (hk : k ∈ keys) (i : Nat) (hi : i < st.npix) :
    combinedSpec st segs true k i = posVal segs (combinedSpec st segs false k i).toNat := by
  obtain ⟨h1, h2, _⟩ := spec_combined_pixel st segs true k i
  obtain ⟨g1, g2, _⟩ := spec_combined_pixel st segs false k i
  rcases spec_no_overlap_unique st segs keys h k hk i hi with he | ⟨s, hs⟩
  · rw [h2 he, g2 he]
    have h0 : (0 : Nat) ∉ segs := fun hm => by have := hpos 0 hm; omega
    unfold posVal posNat
    simp [h0]
  · have hm : s ∈ segs := by
      have : s ∈ presentAt st segs k i := by rw [hs]; simp
      exact (List.mem_filter.mp this).1
    rw [h1 s hs, g1 s hs, outVal_own segs s hm, outVal_relabel]
    simp

/-- **Overlap detection is sound and complete**: with the check on, a combined read of a BINARY / FRACTIONAL object is accepted
iff it is accepted with the check off AND no two different requested segments share a pixel of a requested plane. -/
theorem overlap_check_sound_and_complete (st : Stored) (wf : WfObj st) (mode : Mode) (a : Bool) (rq : Req)
    (hc : rq.combine = true) (hnl : st.type ≠ .labelmap) :
    (∃ out, SegRead.read st mode a { rq with skipOverlap := false } = .ok out) ↔
      ((∃ out, SegRead.read st mode a { rq with skipOverlap := true } = .ok out) ∧
        overlaps (effective st mode) rq.segs rq.keys = false) := by
  rw [accepted_iff_no_reason_to_refuse st wf, accepted_iff_no_reason_to_refuse st wf]
  have hty : (effective st mode).type ≠ .labelmap := by
    rcases effective_cases st mode with h | h <;> rw [h] <;> exact hnl
  have hty' : ((effective st mode).type != SegType.labelmap) = true := by simpa using hty
  simp only [specRefuses_eq]
  have he : entrySpecRefuses st mode a { rq with skipOverlap := false } =
      entrySpecRefuses st mode a { rq with skipOverlap := true } := rfl
  rw [he]
  cases entrySpecRefuses st mode a { rq with skipOverlap := true }
  · simp only [Bool.false_or, coreRefuses, ceiling, chosenDtype, willRescale, hc, hty', Bool.true_and, Bool.not_false,
      Bool.not_true, Bool.and_false, Bool.or_false, Bool.and_true]
    cases (overlaps (effective st mode) rq.segs rq.keys) <;> simp
  · simp

/-- **`skip_overlap_checks` lifts that one refusal and changes nothing else**: a read accepted with the check on gives the
same array with the check off. -/
theorem skip_overlap_checks_only_lifts_the_refusal (st : Stored) (wf : WfObj st) (mode : Mode) (a : Bool) (rq : Req) (out : Out)
    (h : SegRead.read st mode a { rq with skipOverlap := false } = .ok out) :
    SegRead.read st mode a { rq with skipOverlap := true } = .ok out := by
  have hacc := (accepted_iff_no_reason_to_refuse st wf mode a _).mp ⟨out, h⟩
  have hout : out = specOut (effective st mode) { rq with skipOverlap := false } := by
    have := (read_refines_spec st wf mode a _).2 hacc
    rw [h] at this; exact Except.ok.inj this
  have hacc' : specRefuses st mode a { rq with skipOverlap := true } = false := by
    rw [specRefuses_eq] at hacc ⊢
    have he : entrySpecRefuses st mode a { rq with skipOverlap := true } =
        entrySpecRefuses st mode a { rq with skipOverlap := false } := rfl
    rw [he]
    simp only [Bool.or_eq_false_iff] at hacc ⊢
    refine ⟨hacc.1, ?_⟩
    have h2 := hacc.2
    simp only [coreRefuses, ceiling, chosenDtype, willRescale, Bool.or_eq_false_iff, Bool.and_eq_false_iff] at h2 ⊢
    obtain ⟨⟨⟨h21, h22⟩, h23⟩, h24⟩ := h2
    refine ⟨⟨⟨h21, h22⟩, h23⟩, ?_⟩
    rcases h24 with h | h
    · exact Or.inl h
    · right
      obtain ⟨⟨⟨ha, hb⟩, hcc⟩, _⟩ := h
      exact ⟨⟨⟨ha, hb⟩, hcc⟩, by simp⟩
  rw [(read_refines_spec st wf mode a _).2 hacc', hout]
  rfl

/-- **The output dtype decides acceptance only, never a value**: two accepted reads that differ only in `dtype` return the same
array (the smallest unsigned type chosen for `dtype=None` included). -/
theorem dtype_never_changes_a_value (st : Stored) (wf : WfObj st) (mode : Mode) (a : Bool) (rq : Req) (d' : Option DType)
    (o o' : Out) (h : SegRead.read st mode a rq = .ok o) (h' : SegRead.read st mode a { rq with dtype := d' } = .ok o') :
    o = o' := by
  have e1 := (read_refines_spec st wf mode a rq).2 ((accepted_iff_no_reason_to_refuse st wf mode a rq).mp ⟨o, h⟩)
  have e2 := (read_refines_spec st wf mode a _).2 ((accepted_iff_no_reason_to_refuse st wf mode a _).mp ⟨o', h'⟩)
  rw [h] at e1; rw [h'] at e2
  rw [Except.ok.inj e1, Except.ok.inj e2]
  rfl

/-! ## Metadata search -/

/-- **Search is sound and complete, in sequence order**: `get_segment_numbers` returns exactly the numbers of the
non-background items of the SegmentSequence that meet every given criterion.  Codes are compared as pydicom compares
them (`matchesFilter` uses `Gen.pydCodeEq`, regenerated from pydicom's `Code.__eq__`): retired SRT values are mapped to
SCT through `m` (= `snomed_mapping`, any table), and value, scheme designator and scheme version must then agree. -/
theorem search_sound_complete (m : Mapping) (descs : List Desc) (ppv : Option Nat) (f : Filter)
    (ha : ∀ a, f.algo = some a → a ∈ algoValues) :
    getSegmentNumbers m descs ppv f =
      .ok ((descs.filter fun d => matchesFilter m f d && !isBackground ppv d).map (·.number)) := by
  unfold getSegmentNumbers
  have : badAlgo f = false := by
    unfold badAlgo
    cases h : f.algo with
    | none => rfl
    | some a => simpa using ha a h
  simp only [this, Bool.false_eq_true, ↓reduceIte, numberFilterFuncs_all]

/-- an algorithm type outside the enumeration is refused -/
theorem search_bad_algorithm_type_refused (m : Mapping) (descs : List Desc) (ppv : Option Nat) (f : Filter) (a : String)
    (h : f.algo = some a) (hn : a ∉ algoValues) : getSegmentNumbers m descs ppv f = .error .value := by
  unfold getSegmentNumbers badAlgo
  simp [h, hn]

/-- what code matching means (C17 proves the laws of this equality; here only its use): an SRT code matches its SCT
alias, and a code carrying a scheme version does not match the versionless code -/
theorem code_matching_is_pydicom_equality (m : Mapping) (srt sct : String) (hm : m "SRT" srt = some sct) (ver : String) :
    pydCodeEq m ⟨some srt, some "SRT", none, none⟩ ⟨some sct, some "SCT", none, none⟩ = true ∧
    pydCodeEq m ⟨some sct, some "SCT", none, some ver⟩ ⟨some sct, some "SCT", none, none⟩ = false := by
  unfold pydCodeEq dictHas dictGet
  simp [hm]

/-- `segment_numbers` / `number_of_segments`: the non-background items, counted once each. -/
theorem segment_numbers_spec (descs : List Desc) (ppv : Option Nat) :
    segmentNumbersAll descs ppv = (descs.filter fun d => !isBackground ppv d).map (·.number) ∧
    numberOfSegments descs ppv = (descs.filter fun d => !isBackground ppv d).length := by
  unfold numberOfSegments segmentNumbersAll isBackground
  cases ppv with
  | none =>
    have : descs.filter (fun _ => true) = descs := List.filter_eq_self.mpr (fun _ _ => rfl)
    simp [this]
  | some p => simp [bne]

/-- **Tracking identifiers**: exactly the (id, uid) pairs of items that carry both and meet every criterion, each
pair once. -/
theorem tracking_ids_sound_complete (m : Mapping) (descs : List Desc) (f : Filter)
    (hf : f.label = none ∧ f.trackingUid = none ∧ f.trackingId = none)
    (ha : ∀ a, f.algo = some a → a ∈ algoValues) :
    ∃ l, getTrackingIds m descs f = .ok l ∧ l.Nodup ∧
      ∀ p, p ∈ l ↔ ∃ d ∈ descs, d.trackingId = some p.1 ∧ d.trackingUid = some p.2 ∧ matchesFilter m f d = true := by
  unfold getTrackingIds
  have : badAlgo f = false := by
    unfold badAlgo
    cases h : f.algo with
    | none => rfl
    | some a => simpa using ha a h
  simp only [this, Bool.false_eq_true, ↓reduceIte]
  refine ⟨_, rfl, nodup_eraseDups _, ?_⟩
  intro p
  rw [List.mem_eraseDups, List.mem_filterMap]
  constructor
  · rintro ⟨d, hd, h⟩
    refine ⟨d, hd, ?_⟩
    cases hi : d.trackingId <;> cases hu : d.trackingUid <;> simp only [hi, hu] at h
    · cases h
    · cases h
    · cases h
    · rw [trackingFilterFuncs_all m f d hf] at h
      by_cases hm : matchesFilter m f d = true
      · simp only [hm, ↓reduceIte, Option.some.injEq] at h
        subst h
        exact ⟨rfl, rfl, hm⟩
      · simp [hm] at h
  · rintro ⟨d, hd, hi, hu, hm⟩
    refine ⟨d, hd, ?_⟩
    simp only [hi, hu, trackingFilterFuncs_all m f d hf, hm, ↓reduceIte]

/-- **Segmented property categories / types** (`segmented_property_categories`, `segmented_property_types`; the loop shape is
T8s, the equality T17p, correspondence streams `property_categories` / `property_types`): the result is a sub-sequence of the
codes of the non-background items in SegmentSequence order; every such code is in it or equals (pydicom's code equality) a
member; and no member equals an earlier member — each concept once, represented by its first occurrence. -/
theorem property_codes_first_occurrence (m : Mapping) (descs : List Desc) (ppv : Option Nat) :
    let cats := (descs.filter fun d => !isBackground ppv d).map (·.category)
    let typs := (descs.filter fun d => !isBackground ppv d).map (·.ptype)
    ((propertyCategories m descs ppv).Sublist cats ∧
      (∀ c ∈ cats, ∃ e ∈ propertyCategories m descs ppv, pydCodeEq m c e = true ∨ c = e) ∧
      (propertyCategories m descs ppv).Pairwise (fun a b => pydCodeEq m b a = false)) ∧
    ((propertyTypes m descs ppv).Sublist typs ∧
      (∀ c ∈ typs, ∃ e ∈ propertyTypes m descs ppv, pydCodeEq m c e = true ∨ c = e) ∧
      (propertyTypes m descs ppv).Pairwise (fun a b => pydCodeEq m b a = false)) := by
  have hc : propertyCategories m descs ppv = dedupCodes m ((descs.filter fun d => !isBackground ppv d).map (·.category)) := by
    unfold propertyCategories isBackground
    cases ppv <;> simp [bne]
  have ht : propertyTypes m descs ppv = dedupCodes m ((descs.filter fun d => !isBackground ppv d).map (·.ptype)) := by
    unfold propertyTypes isBackground
    cases ppv <;> simp [bne]
  rw [hc, ht]
  exact ⟨dedupCodes_spec m _, dedupCodes_spec m _⟩

/-- **`get_segment_description`** is the first item of the SegmentSequence carrying that number, and is refused (IndexError) iff
no item does (shape: T8s; correspondence stream `get_segment_description`). -/
theorem segment_description_spec (descs : List Desc) (n : Nat) :
    (∀ d, getSegmentDescription descs n = .ok d ↔ descs.find? (fun x => x.number == n) = some d) ∧
    (getSegmentDescription descs n = .error .index ↔ ∀ d ∈ descs, d.number ≠ n) := by
  unfold getSegmentDescription
  cases h : descs.find? (fun x => x.number == n) with
  | none =>
    refine ⟨fun d => by simp, ?_⟩
    simp only [true_iff]
    intro d hd
    have := List.find?_eq_none.mp h d hd
    simpa using this
  | some d0 =>
    refine ⟨fun d => by simp, ?_⟩
    simp only [false_iff, reduceCtorEq]
    intro hall
    have hm := List.mem_of_find?_eq_some h
    have := List.find?_some h
    exact hall d0 hm (by simpa using this)

/-- the loops of the three description accessors have the shape the model gives them (T8s): which attribute is collected, that
the background item is skipped, `not in` + `append`, `==` on the segment number, IndexError otherwise -/
theorem description_accessors_are_source :
    descriptionAccessors =
      [("segmented_property_categories", "skip", "'PixelPaddingValue'inselfanddesc.segment_number==self.PixelPaddingValue"),
       ("segmented_property_categories", "test", "not in acc"),
       ("segmented_property_categories", "collect", "desc.segmented_property_category"),
       ("segmented_property_categories", "do", "acc.append(desc.segmented_property_category)"),
       ("segmented_property_types", "skip", "'PixelPaddingValue'inselfanddesc.segment_number==self.PixelPaddingValue"),
       ("segmented_property_types", "test", "not in acc"),
       ("segmented_property_types", "collect", "desc.segmented_property_type"),
       ("segmented_property_types", "do", "acc.append(desc.segmented_property_type)"),
       ("get_segment_description", "test", "desc.segment_number==segment_number"),
       ("get_segment_description", "do", "return desc"),
       ("get_segment_description", "else", "raise IndexError")] := by decide

/-! ## Non-vacuity: concrete objects meeting the hypotheses

A 16-bit label map with sparse numbers 3, 300, 700 and two stored planes; the request leaves out exactly one
segment, reverses the order and asks for a plane the object does not have. -/

def exStored : Stored :=
  { type := .labelmap, segNums := [3, 300, 700], bitsStored := 16, mfv := 1, bg := 0, npix := 4,
    frames := [⟨1, 0, [3, 300, 700, 0]⟩, ⟨2, 0, [0, 700, 700, 3]⟩] }

theorem exStored_wf : WfLabel exStored :=
  { type := rfl, bits := Or.inr rfl, bg := rfl,
    described := by decide, fit := by decide }

example : readCore exStored { keys := [2, 1, 5], segs := [700, 3], combine := true, relabel := false, rescale := true, skipOverlap := false, dtype := none } =
    .ok (.combined [[0, 700, 700, 3], [3, 0, 700, 0], [0, 0, 0, 0]]) := by
  rw [labelmap_combined_value exStored _ exStored_wf rfl (by decide) (by decide) (by decide) (by decide)]
  decide

example : readCore exStored { keys := [1], segs := [700, 3], combine := true, relabel := true, rescale := true, skipOverlap := false, dtype := some .i8 } = .ok (.combined [[2, 0, 1, 0]]) := by
  rw [labelmap_combined_value exStored _ exStored_wf rfl (by decide) (by decide) (by decide) (by decide)]
  decide

example : readCore exStored { keys := [1], segs := [700, 3], combine := false, relabel := false, rescale := true, skipOverlap := false, dtype := some .bool } = .ok (.stacked 1 [[[0, 0, 1, 0], [1, 0, 0, 0]]]) := by
  rw [labelmap_stacked_channel exStored _ exStored_wf rfl (by decide) (by decide) (by decide) (by decide)]
  decide

/-- 700 does not fit int8: refused -/
example : readCore exStored { keys := [1], segs := [700, 3], combine := true, relabel := false, rescale := true, skipOverlap := false, dtype := some .i8 } = .error .value :=
  capacity_refused exStored _ (by decide) (by decide) (by decide)


/-! A BINARY object: segments 1 and 2 overlap in pixel 1 of the plane at 7, segment 3 is stored only at 8. -/

def exBin : Stored :=
  { type := .binary, segNums := [1, 2, 3], bitsStored := 1, mfv := 1, bg := 0, npix := 3,
    frames := [⟨7, 2, [0, 1, 1]⟩, ⟨7, 1, [1, 1, 0]⟩, ⟨8, 3, [0, 0, 1]⟩, ⟨8, 1, [1, 0, 0]⟩] }

theorem exBin_wf : WfStack exBin :=
  { type := by decide, unique := by decide, range := by decide, mfv := by decide, pos := by decide, len := by decide,
    bits := by decide }

theorem exBin_binary (keys segs : List Nat) : UsedBinary exBin keys segs := by
  have h : ∀ f ∈ exBin.frames, ∀ p ∈ f.pix, p ≤ 1 := by decide
  intro f hf _ _
  have hty : ¬ exBin.type = SegType.fractional := by decide
  simp only [hty, ↓reduceIte]
  exact h f hf

example : readCore exBin { keys := [8, 7, 9], segs := [3, 1], combine := false, relabel := false, rescale := true, skipOverlap := false, dtype := none } =
    .ok (.stacked 1 [[[0, 0, 1], [1, 0, 0]], [[0, 0, 0], [1, 1, 0]], [[0, 0, 0], [0, 0, 0]]]) := by
  rw [stacked_channel exBin _ exBin_wf rfl (by decide) (by decide) (by decide) (by decide)]
  decide

/-- segments 1 and 2 share pixel 1 at stack value 7: refused … -/
example : readCore exBin { keys := [8, 7], segs := [2, 1], combine := true, relabel := false, rescale := true, skipOverlap := false, dtype := none } = .error .runtime :=
  overlap_refused exBin _ exBin_wf rfl (by decide) (by decide) (exBin_binary _ _) (by decide) (by decide) rfl 7 (by decide)
    2 1 1 (by decide) (by decide) (by decide) ⟨1, by decide, by decide⟩ ⟨1, by decide, by decide⟩

/-- … but reading 3 and 1 (which do not overlap anywhere) is accepted -/
example : ∃ out, readCore exBin { keys := [8, 7], segs := [3, 1], combine := true, relabel := true, rescale := true, skipOverlap := false, dtype := none } = .ok (.combined out) ∧ out.length = 2 := by
  obtain ⟨out, h, hl, _⟩ := combined_value exBin { keys := [8, 7], segs := [3, 1], combine := true, relabel := true, rescale := true, skipOverlap := false, dtype := none } exBin_wf rfl (by decide) (by decide) (exBin_binary _ _)
      (by decide) (by decide) (Or.inr (by
        intro k hk s₁ h1 s₂ h2 hne i ⟨⟨p, hp, hpp⟩, ⟨q, hq, hqq⟩⟩
        simp only [List.mem_cons, List.not_mem_nil, or_false] at hk h1 h2
        rcases hk with rfl | rfl <;> rcases h1 with rfl | rfl <;> rcases h2 with rfl | rfl <;>
          first | exact absurd rfl hne | skip
        all_goals (
          match i with
          | 0 | 1 | 2 => simp [segPlane, exBin] at hp hq; omega
          | (n + 3) => simp [segPlane, exBin] at hp)))
  exact ⟨out, h, hl⟩

example : (readCore exBin { keys := [8, 7], segs := [3, 1], combine := true, relabel := true, rescale := true, skipOverlap := false, dtype := none }) = .ok (.combined [[2, 0, 1], [2, 2, 0]]) := by decide

/-- the audit's witness: categories 1 = (T-D0050, SRT), 2 = (85756007, SCT), 3 = (…, SCT, version 2020), 4 = (…, 2021);
searching for (85756007, SCT) finds the SRT alias and the versionless code, not the versioned ones -/
def exMap : Mapping := fun s v => if s == "SRT" && v == "T-D0050" then some "85756007" else none

def exDescs : List Desc :=
  [⟨1, "a", ⟨some "T-D0050", some "SRT", none, none⟩, ⟨some "T-2", some "99V", none, none⟩, "MANUAL", some "t", some "1.2"⟩,
   ⟨2, "b", ⟨some "85756007", some "SCT", none, none⟩, ⟨some "T-2", some "99V", none, none⟩, "MANUAL", none, none⟩,
   ⟨3, "c", ⟨some "85756007", some "SCT", none, some "2020"⟩, ⟨some "T-2", some "99V", none, none⟩, "AUTOMATIC", none, none⟩,
   ⟨4, "d", ⟨some "85756007", some "SCT", none, some "2021"⟩, ⟨some "T-2", some "99V", none, none⟩, "MANUAL", some "t", some "1.3"⟩]

example : getSegmentNumbers exMap exDescs none { category := some ⟨some "85756007", some "SCT", none, none⟩ } = .ok [1, 2] := by
  rw [search_sound_complete _ _ _ _ (by simp)]
  decide

example : ∃ l, getTrackingIds exMap exDescs { algo := some "MANUAL" } = .ok l ∧ l = [("t", "1.2"), ("t", "1.3")] := by
  refine ⟨_, rfl, by decide⟩

/-- the SRT alias and the versionless SCT code are one concept (first occurrence kept), the versioned codes two more -/
example : (propertyCategories exMap exDescs none).map (·.value) = [some "T-D0050", some "85756007", some "85756007"] := by decide
example : (getSegmentDescription exDescs 3).map (·.label) = .ok "c" ∧ getSegmentDescription exDescs 9 = .error .index := by decide

/-! A FRACTIONAL object (MaximumFractionalValue 100), referenced sources 7, 8, 9 of which 9 has no frame. -/

def exFrac : Stored :=
  { type := .fractional, segNums := [1, 2], bitsStored := 8, mfv := 100, bg := 0, npix := 2,
    frames := [⟨7, 1, [50, 100]⟩, ⟨7, 2, [0, 25]⟩, ⟨8, 1, [100, 0]⟩], refs := [7, 8, 9] }

theorem exFrac_wf : WfStack exFrac :=
  { type := by decide, unique := by decide, range := by decide, mfv := by decide, pos := by decide, len := by decide,
    bits := by decide }

/-- rescaled stacked read (values mean value / 100; the code divides in float32, so the array agrees up to float
rounding), reversed order, the frameless referenced source 9 reads as zeros without any assertion -/
example : SegRead.read exFrac .bySource false { keys := [9, 7], segs := [2, 1], combine := false, relabel := false, rescale := true, skipOverlap := false, dtype := none } =
    .ok (.stacked 100 [[[0, 0], [0, 0]], [[0, 25], [50, 100]]]) := by
  rw [(referenced_frameless_reads_empty exFrac _ (by decide) (by decide) (by decide) (by decide) (by decide) (by decide) (by decide)).1,
    stacked_channel exFrac _ exFrac_wf rfl (by decide) (by decide) (by decide) (by decide)]
  decide

/-- an instance the object does not reference is refused without the assertion … -/
example : ∃ e, SegRead.read exFrac .bySource false { keys := [7, 5], segs := [1], combine := false, relabel := false, rescale := true, skipOverlap := false, dtype := none } = .error e :=
  (unknown_source_refused exFrac _).1 5 (by decide) (by decide)

/-- … and a rescaled read into an integer dtype, or raw values into int8 (100 fits, so the capacity check passes;
into bool it does not) -/
example : readCore exFrac { keys := [7], segs := [1], combine := false, relabel := false, rescale := true, skipOverlap := false, dtype := some .u8 } = .error .value :=
  rescaled_requires_float exFrac _ (by decide) (by decide) (by decide) (by decide) (by decide)

example : readCore exFrac { keys := [7], segs := [1], combine := false, relabel := false, rescale := false, skipOverlap := false, dtype := some .bool } = .error .value :=
  capacity_refused exFrac _ (by decide) (by decide) (by decide)

/-! Non-vacuity of the refinement theorem: the three example objects are well-formed in its sense; an accepted read of each is
computed from the specification, a refused one from the list of reasons. -/

theorem exStored_wfObj : WfObj exStored := Or.inl ⟨exStored_wf, by decide, by decide⟩
theorem exBin_wfObj : WfObj exBin := Or.inr exBin_wf
theorem exFrac_wfObj : WfObj exFrac := Or.inr exFrac_wf

/-- label map, by dimension index, reversed subset, relabelled, an absent plane asserted empty -/
example : SegRead.read exStored .div true { keys := [2, 5], segs := [700, 3], combine := true, relabel := true, rescale := true, skipOverlap := false, dtype := none } =
    .ok (.combined [[0, 1, 1, 2], [0, 0, 0, 0]]) := by
  rw [(read_refines_the_specification exStored exStored_wfObj _ _ _).2 (by decide)]
  decide

/-- BINARY, overlap of 1 and 2 at stack value 7: a reason for refusal with the check on, none with the check off (the larger
label wins) -/
example : overlaps exBin [2, 1] [8, 7] = true := by decide
example : ∃ e, SegRead.read exBin .all true { keys := [8, 7], segs := [2, 1], combine := true, relabel := false, rescale := true, skipOverlap := false, dtype := none } = .error e :=
  (read_refines_the_specification exBin exBin_wfObj _ _ _).1 (by decide)
example : SegRead.read exBin .all true { keys := [8, 7], segs := [2, 1], combine := true, relabel := false, rescale := true, skipOverlap := true, dtype := none } =
    .ok (.combined [[1, 0, 0], [1, 2, 2]]) := by
  rw [(read_refines_the_specification exBin exBin_wfObj _ _ _).2 (by decide)]
  decide

/-- FRACTIONAL, raw values into uint16 -/
example : SegRead.read exFrac .bySource false { keys := [8, 7], segs := [1, 2], combine := false, relabel := false, rescale := false, skipOverlap := false, dtype := some .u16 } =
    .ok (.stacked 1 [[[100, 0], [0, 0]], [[50, 100], [0, 25]]]) := by
  rw [(read_refines_the_specification exFrac exFrac_wfObj _ _ _).2 (by decide)]
  decide

/-- a number requested twice; an object that says spatial locations are not preserved, read by source without / with the flag -/
example : readCore exBin { keys := [8], segs := [1, 3, 1], combine := false, relabel := false, rescale := true, skipOverlap := false, dtype := none } = .error .value :=
  repeated_segment_refused exBin _ (by decide)
example : SegRead.read { exBin with locPreserved := some false, refs := [7, 8] } .bySource false { keys := [8], segs := [1], combine := true, relabel := false, rescale := true, skipOverlap := false, dtype := none } = .error .runtime :=
  source_indexing_refused _ _ _ _ (by decide)
example : SegRead.read { exBin with locPreserved := some false, refs := [7, 8] } .bySource false { keys := [8], segs := [1], combine := true, relabel := false, rescale := true, skipOverlap := false, dtype := none, ignoreSpatial := true } = .ok (.combined [[1, 0, 0]]) := by
  decide

/-- non-vacuity, both ways.  (a) A history on the BINARY example: a refused read (overlap) leaves both tables behind, a look at
`pixel_array`, then the read A, a read whose channel INSERT fails (repeated output channel), and A again: the two A answer
alike.  (b) The same history under a program WITHOUT the drop-if-exists step is not state-independent: after the refused
read every later read fails on CREATE TABLE. -/
def exHistory : List (SegState.Op Out) :=
  let bad := SegRead.read exBin .all true { keys := [8, 7], segs := [2, 1], combine := true, relabel := false, rescale := true, skipOverlap := false, dtype := none }
  let a := SegRead.read exBin .all true { keys := [8, 7], segs := [3, 1], combine := true, relabel := true, rescale := true, skipOverlap := false, dtype := none }
  [.read [false, false] true false bad bad, .touch, .read [false, false] false true a a, .read [false, true] true true bad bad,
   .release, .read [false, false] false true a a]

example : SegState.run readProgram exHistory ⟨false, [false, false], false⟩ =
    [some (.error .runtime), none, some (.ok (.combined [[2, 0, 1], [2, 2, 0]])), some (.error .other), none,
     some (.ok (.combined [[2, 0, 1], [2, 2, 0]]))] := by decide

example : SegState.tempProgOk [.create, .insert] [.drop] = false ∧
    SegState.run ⟨[.create, .insert], [.drop], false, true⟩ exHistory ⟨false, [false, false], false⟩ =
      [some (.error .runtime), none, some (.error .other), some (.error .other), none, some (.error .other)] := by decide

/-! the hypotheses of the remaining round-2 theorems are satisfiable on the example objects -/

example : ∃ e, SegRead.read { exBin with segIndexed := false } .all true { keys := [8], segs := [1], combine := false, relabel := false, rescale := true, skipOverlap := false, dtype := none } = .error e :=
  segment_number_not_indexed_refused _ _ _ _ (by decide) rfl

/-- 3 and 1 never share a pixel: accepted with the check on, hence (same array) with the check off; relabelling renames 3 ↦ 1, 1 ↦ 2 -/
example : overlaps exBin [3, 1] [8, 7] = false := by decide
example : SegRead.read exBin .all true { keys := [8, 7], segs := [3, 1], combine := true, relabel := true, rescale := true, skipOverlap := true, dtype := none } =
    .ok (.combined [[2, 0, 1], [2, 2, 0]]) :=
  skip_overlap_checks_only_lifts_the_refusal exBin exBin_wfObj .all true
    { keys := [8, 7], segs := [3, 1], combine := true, relabel := true, rescale := true, skipOverlap := true, dtype := none } _ (by decide)
example : combinedSpec exBin [3, 1] true 8 0 = posVal [3, 1] (combinedSpec exBin [3, 1] false 8 0).toNat :=
  relabel_only_renames exBin [3, 1] [8, 7] (by decide) (by decide) 8 (by decide) 0 (by decide)
example : (∃ out, SegRead.read exBin .all true { keys := [8, 7], segs := [2, 1], combine := true, relabel := false, rescale := true, skipOverlap := false, dtype := none } = .ok out) ↔
    ((∃ out, SegRead.read exBin .all true { keys := [8, 7], segs := [2, 1], combine := true, relabel := false, rescale := true, skipOverlap := true, dtype := none } = .ok out) ∧
      overlaps (effective exBin .all) [2, 1] [8, 7] = false) :=
  overlap_check_sound_and_complete exBin exBin_wfObj .all true
    { keys := [8, 7], segs := [2, 1], combine := true, relabel := false, rescale := true, skipOverlap := false, dtype := none } rfl (by decide)
/-- the same stacked read into the default dtype and into int16 -/
example : (.stacked 1 [[[0, 0, 1], [1, 0, 0]]] : Out) = .stacked 1 [[[0, 0, 1], [1, 0, 0]]] :=
  dtype_never_changes_a_value exBin exBin_wfObj .all true
    { keys := [8], segs := [3, 1], combine := false, relabel := false, rescale := true, skipOverlap := false, dtype := none } (some .i16) _ _
    (by decide) (by decide)
/-- the example history meets the hypotheses of the state-independence theorem: started with both tables left behind and the
pixel array cached it answers as from a clean object -/
example : SegState.run readProgram exHistory ⟨true, [true, true], false⟩ =
    SegState.run readProgram exHistory ⟨false, [false, false], false⟩ :=
  (reads_are_state_independent 2 exHistory
    (by intro f k x d c hm
        simp only [exHistory, List.mem_cons, SegState.Op.read.injEq, List.not_mem_nil, or_false, reduceCtorEq, false_or] at hm
        rcases hm with h | h | h | h <;> rw [h.1] <;> rfl)
    (by intro f k x d c hm
        simp only [exHistory, List.mem_cons, SegState.Op.read.injEq, List.not_mem_nil, or_false, reduceCtorEq, false_or] at hm
        rcases hm with h | h | h | h <;> rw [h.2.2.2.1, h.2.2.2.2])
    ⟨true, [true, true], false⟩ ⟨false, [false, false], false⟩ rfl rfl rfl rfl).2

end HdVerif.C02
