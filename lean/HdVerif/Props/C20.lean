import HdVerif.Proofs.VR
import HdVerif.Proofs.Aliasing
import HdVerif.Proofs.C20Tie
import HdVerif.Proofs.C20Tables
import HdVerif.Proofs.C20Tables.Corpus
import HdVerif.Model.VRGuards
import HdVerif.Generated.T20uid
import HdVerif.Generated.T20sites
import HdVerif.Generated.T20ds
import HdVerif.Generated.T20shared
import HdVerif.Model.AliasTables
/-!
# C20  Building objects never alters inputs and always yields valid files

Clauses proved here (everything else of C20 — strict write, read-back equality — is carried by the
correspondence only and is labelled *support*):

* `guard_sound_*`, `*_accept_iff`: the string guards of `valuerep.py`, **as regenerated from the source**
  (`Gen.checkCodeString` … in `Generated/T20vr.lean`), accept only values that are valid for their value
  representation according to PS3.5 §6.2 (`VR.validCS`, `validSH`, `validLO`, `validST`, `validLT`), and the
  exact set they accept;
* `uuid_uid_valid`, `default_uid_valid`, `uid_unique_per_draw`: identifiers built by `UID.from_uuid` and `UID()`
  (root / prefix literals regenerated from `uid.py`) are valid UIDs for **every** 128-bit value / every draw, and two
  calls yield the same identifier only if the random draws coincide;
* `inputs_never_written`, `copy_leaves_original`, `nocopy_returns_same`: the copy-or-alias data flow of **every**
  `from_dataset` / `from_sequence` converter of content, seg, ann, ko, sr (coding, content, value types, templates, sop)
  and image, and of the two array helpers of the segmentation constructor, **as extracted from the current source**
  (`Generated/T20alias_*.lean`, 64 programs): under every valuation of the conditions the code branches on, and
  whatever a write does to the regions it hits, the caller's objects keep their content unless in-place conversion
  was asked for, a copying conversion returns a newly allocated object, a non-copying one the very object it was given;
* `constructors_never_write_arguments`: the same for the `__init__` and alternative constructors of every public class (153 programs): no constructor
  writes (a part of) an argument.
-/
namespace HdVerif.C20
open HdVerif HdVerif.VR HdVerif.Gen

/-! ## value-representation guards -/

private theorem cs_re1 (s : List Char) :
    reMatch [.rep ⟨false, [(32, 32), (48, 57), (65, 90), (95, 95)]⟩ 1 (some 16), .eos] s = true ↔
      1 ≤ s.length ∧ s.length ≤ 16 ∧ ∀ c ∈ s, isCSChar c := by
  rw [reMatch_rep_eos]
  have : ∀ c : Char, Cls.mem ⟨false, [(32, 32), (48, 57), (65, 90), (95, 95)]⟩ c = true ↔ isCSChar c := by
    intro c; simp [Cls.mem, isCSChar]; omega
  simp only [this]

private theorem cs_re2 (s : List Char) :
    reMatch [.rep ⟨false, [(32, 32), (48, 57), (95, 95)]⟩ 1 (some 1), .rep ⟨true, [(10, 10)]⟩ 0 none] s = true ↔
      ∃ c, s.head? = some c ∧ isDigitSpaceUnderscore c := by
  rw [reMatch_first]
  have : ∀ c : Char, Cls.mem ⟨false, [(32, 32), (48, 57), (95, 95)]⟩ c = true ↔ isDigitSpaceUnderscore c := by
    intro c; simp [Cls.mem, isDigitSpaceUnderscore]; omega
  simp only [this]
  cases s with
  | nil => simp
  | cons a t => simp

private theorem cs_re3 (s : List Char) (hs : ∀ c ∈ s, isCSChar c) :
    reMatch [.rep ⟨true, [(10, 10)]⟩ 0 none, .rep ⟨false, [(32, 32), (95, 95)]⟩ 1 (some 1), .eol] s = true ↔
      ∃ c, s.getLast? = some c ∧ isSpaceUnderscore c := by
  have hnl : ∀ c ∈ s, c.toNat ≠ 10 := fun c hc' => by have := hs c hc'; unfold isCSChar at this; omega
  have hdot : ∀ c ∈ s, Cls.mem ⟨true, [(10, 10)]⟩ c = true := by
    intro c hc'
    have := hnl c hc'
    simp [Cls.mem]
    omega
  rw [reMatch_last _ _ s hdot hnl]
  have : ∀ c : Char, Cls.mem ⟨false, [(32, 32), (95, 95)]⟩ c = true ↔ isSpaceUnderscore c := by
    intro c; simp [Cls.mem, isSpaceUnderscore]; omega
  simp only [this]

/-- **guard, exact acceptance set (CS).**  The regenerated `_check_code_string` accepts a string iff it has 1–16
characters of the CS repertoire, does not start with a digit, space or underscore and does not end with a space or
underscore — in particular never a string containing a newline. -/
theorem code_string_accept_iff (s : List Char) :
    checkCodeString s = .ok () ↔
      (1 ≤ s.length ∧ s.length ≤ 16 ∧ (∀ c ∈ s, isCSChar c)) ∧
        (¬ ∃ c, s.head? = some c ∧ isDigitSpaceUnderscore c) ∧
        (¬ ∃ c, s.getLast? = some c ∧ isSpaceUnderscore c) := by
  unfold checkCodeString
  rw [← cs_re1, ← cs_re2]
  cases h1 : reMatch [.rep ⟨false, [(32, 32), (48, 57), (65, 90), (95, 95)]⟩ 1 (some 16), .eos] s
  · simp
  · have hs := ((cs_re1 s).mp h1).2.2
    rw [← cs_re3 s hs]
    cases h2 : reMatch [.rep ⟨false, [(32, 32), (48, 57), (95, 95)]⟩ 1 (some 1), .rep ⟨true, [(10, 10)]⟩ 0 none] s
    · cases h3 : reMatch [.rep ⟨true, [(10, 10)]⟩ 0 none, .rep ⟨false, [(32, 32), (95, 95)]⟩ 1 (some 1), .eol] s <;> simp
    · simp

/-- **guard_sound (CS)**: accepted ⇒ valid Code String (PS3.5: ≤ 16 characters out of `A–Z 0–9 SPACE _`). -/
theorem guard_sound_code_string (s : List Char) (h : checkCodeString s = .ok ()) : validCS s := by
  have := (code_string_accept_iff s).mp h
  exact ⟨this.1.2.1, this.1.2.2⟩

/-- a refused code string is refused with `ValueError` (the model is typed, so `TypeError` cannot occur) -/
theorem code_string_refusal_kind (s : List Char) : checkCodeString s = .ok () ∨ checkCodeString s = .error .value := by
  unfold checkCodeString
  split
  · right; rfl
  · split
    · right; rfl
    · split
      · right; rfl
      · left; rfl

private theorem string_guard_iff (n : Nat) (s : List Char) :
    (if (decide (s.length > n)) then Except.error ErrKind.value else
      if (s.contains (Char.ofNat 92)) then .error .value else
      if (VR.reSearch [.rep ⟨false, [(0, 26), (28, 31), (127, 127)]⟩ 1 (some 1)] s) then .error .value else
      .ok ()) = .ok () ↔ validString n s := by
  unfold validString
  have hb := contains_code s 92 (by decide)
  have hr := reSearch_single ⟨false, [(0, 26), (28, 31), (127, 127)]⟩ s
  have hm : ∀ c : Char, Cls.mem ⟨false, [(0, 26), (28, 31), (127, 127)]⟩ c = true ↔ (isControl c ∧ c.toNat ≠ 27) := by
    intro c; simp [Cls.mem, isControl]; omega
  simp only [hm] at hr
  by_cases h1 : s.length > n
  · simp [h1]; omega
  · simp only [h1, decide_false, Bool.false_eq_true, if_false]
    cases h2 : s.contains (Char.ofNat 92)
    · cases h3 : VR.reSearch [.rep ⟨false, [(0, 26), (28, 31), (127, 127)]⟩ 1 (some 1)] s
      · simp
        rw [h2] at hb; rw [h3] at hr
        simp at hb hr
        refine ⟨by omega, hb, ?_⟩
        intro c hc hcc
        exact hr c hc hcc
      · simp
        rw [h3] at hr
        obtain ⟨c, hc, h4, h5⟩ := hr.mp rfl
        intro _ _
        exact ⟨c, hc, h4, h5⟩
    · simp
      rw [h2] at hb
      obtain ⟨c, hc, h4⟩ := hb.mp rfl
      intro _ h
      exact absurd h4 (h c hc)

/-- **guard_sound and exact acceptance set (SH)**: `_check_short_string` accepts exactly the valid Short Strings
(≤ 16 characters, no backslash, no control character other than ESC). -/
theorem short_string_accept_iff (s : List Char) : checkShortString s = .ok () ↔ validSH s :=
  string_guard_iff 16 s

/-- **guard_sound and exact acceptance set (LO)**: `_check_long_string` accepts exactly the valid Long Strings
(≤ 64 characters, no backslash, no control character other than ESC). -/
theorem long_string_accept_iff (s : List Char) : checkLongString s = .ok () ↔ validLO s :=
  string_guard_iff 64 s

private theorem text_guard_iff (n : Nat) (s : List Char) :
    (if (decide (s.length > n)) then Except.error ErrKind.value else
      if (s.contains (Char.ofNat 92)) then .error .value else
      if (VR.reSearch [.rep ⟨false, [(0, 8), (11, 11), (14, 26), (28, 31), (127, 127)]⟩ 1 (some 1)] s) then .error .value else
      .ok ()) = .ok () ↔ (validText n s ∧ ∀ c ∈ s, c.toNat ≠ 92) := by
  unfold validText
  have hb := contains_code s 92 (by decide)
  have hr := reSearch_single ⟨false, [(0, 8), (11, 11), (14, 26), (28, 31), (127, 127)]⟩ s
  have hm : ∀ c : Char, Cls.mem ⟨false, [(0, 8), (11, 11), (14, 26), (28, 31), (127, 127)]⟩ c = true ↔
      (isControl c ∧ ¬ (c.toNat = 9 ∨ c.toNat = 10 ∨ c.toNat = 12 ∨ c.toNat = 13 ∨ c.toNat = 27)) := by
    intro c; simp [Cls.mem, isControl]; omega
  simp only [hm] at hr
  by_cases h1 : s.length > n
  · simp [h1]; omega
  · simp only [h1, decide_false, Bool.false_eq_true, if_false]
    cases h2 : s.contains (Char.ofNat 92)
    · cases h3 : VR.reSearch [.rep ⟨false, [(0, 8), (11, 11), (14, 26), (28, 31), (127, 127)]⟩ 1 (some 1)] s
      · simp only [Bool.false_eq_true, if_false, true_iff]
        rw [h2] at hb; rw [h3] at hr
        simp only [Bool.false_eq_true, false_iff, not_exists, not_and] at hb hr
        refine ⟨⟨by omega, ?_⟩, hb⟩
        intro c hc hcc
        exact Classical.byContradiction (hr c hc hcc)
      · rw [h3] at hr
        obtain ⟨c, hc, h4, h5⟩ := hr.mp rfl
        simp only [Bool.false_eq_true, if_false, if_true, reduceCtorEq, false_iff, not_and]
        intro h _
        exact absurd (h.2 c hc h4) h5
    · simp only [if_true, reduceCtorEq, false_iff, not_and]
      rw [h2] at hb
      obtain ⟨c, hc, h4⟩ := hb.mp rfl
      intro _ h
      exact absurd h4 (h c hc)

/-- **exact acceptance set (ST)**: `_check_short_text` accepts exactly the valid Short Texts that contain no
backslash (the guard is stricter than PS3.5 there: a backslash is legal in ST). -/
theorem short_text_accept_iff (s : List Char) : checkShortText s = .ok () ↔ (validST s ∧ ∀ c ∈ s, c.toNat ≠ 92) :=
  text_guard_iff 1024 s

/-- **exact acceptance set (LT)** -/
theorem long_text_accept_iff (s : List Char) : checkLongText s = .ok () ↔ (validLT s ∧ ∀ c ∈ s, c.toNat ≠ 92) :=
  text_guard_iff 10240 s

/-- **guard_sound (SH, LO, ST, LT)**: accepted ⇒ valid for the value representation. -/
theorem guard_sound (s : List Char) :
    (checkShortString s = .ok () → validSH s) ∧ (checkLongString s = .ok () → validLO s) ∧
    (checkShortText s = .ok () → validST s) ∧ (checkLongText s = .ok () → validLT s) :=
  ⟨(short_string_accept_iff s).mp, (long_string_accept_iff s).mp,
   fun h => ((short_text_accept_iff s).mp h).1, fun h => ((long_text_accept_iff s).mp h).1⟩

/-- `check_person_name` refuses no string; it warns exactly for a non-empty name without a caret, so a name that
passes silently is empty or has at least two components. -/
theorem person_name_silent_iff (s : List Char) :
    personNameWarns s = false ↔ (s = [] ∨ ∃ c ∈ s, c.toNat = 94) := by
  unfold personNameWarns
  have hb := contains_code s 94 (by decide)
  cases h : s.contains (Char.ofNat 94)
  · rw [h] at hb
    cases s with
    | nil => simp
    | cons a t =>
      simp only [Bool.false_eq_true, false_iff, not_exists, not_and] at hb
      simp only [Bool.not_false, List.isEmpty_cons, Bool.and_self, Bool.true_eq_false, reduceCtorEq, false_or, false_iff,
        not_exists, not_and]
      exact hb
  · rw [h] at hb
    simp only [Bool.not_true, Bool.false_and, true_iff]
    right; exact hb.mp rfl

/-! ### the guards are applied to attributes of the value representation they check -/

private theorem sites_same_vr :
    (guardSites.all fun x => x.2.1 == x.2.2 && ["CS", "SH", "LO", "ST", "LT"].contains x.2.1) = true := by decide

/-- **guard sites.**  At every place of the package where a `valuerep` guard protects a value (table regenerated from all
modules: guard call → the DICOM attribute the value is then stored under, with that attribute's VR from the data dictionary),
whatever the guard lets through is a valid value for the attribute's own value representation — no attribute is guarded by
the check of a laxer VR. -/
theorem guard_sites_sound (site : String × String × String) (h : site ∈ guardSites) (s : List Char)
    (ha : guardAccepts site.2.1 s = true) : validFor site.2.2 s := by
  have hk := List.all_eq_true.mp sites_same_vr site h
  simp only [Bool.and_eq_true, beq_iff_eq, List.contains_iff_mem] at hk
  obtain ⟨heq, hmem⟩ := hk
  rw [← heq]
  simp only [List.mem_cons, List.not_mem_nil, or_false] at hmem
  rcases hmem with h' | h' | h' | h' | h' <;> rw [h'] at ha ⊢ <;>
    simp only [guardAccepts, validFor, decide_eq_true_eq, if_true, if_false, String.reduceEq] at ha ⊢
  · exact guard_sound_code_string s ha
  · exact (guard_sound s).1 ha
  · exact (guard_sound s).2.1 ha
  · exact (guard_sound s).2.2.1 ha
  · exact (guard_sound s).2.2.2 ha

example : guardSites.length ≥ 30 := by decide

/-! ### what a guard accepts, pydicom's validator accepts -/

private theorem pyd_kind_text :
    (["SH", "LO", "ST", "LT"].all fun vr => pydValidators.find? (·.1 == vr) == some (vr, "validate_type_and_length")) = true := by
  decide

private theorem pyd_text (vr : String) (n : Nat) (hk : pydValidators.find? (·.1 == vr) = some (vr, "validate_type_and_length"))
    (hm : pydMax vr = n) (s : List Char) (hs : s.length ≤ n) : pydAccepts vr s = true := by
  unfold pydAccepts pydLenOk
  rw [hk, hm]
  simp [hs]

/-- **guard_accepts_pydicom_writable.**  Whatever one of the five guards accepts, pydicom's own validator for that value
representation accepts (`validate_value(vr, s, RAISE)`, the rule applied when the value is assigned and written under strict
validation): rule table (`MAX_VALUE_LEN`, `VALIDATORS`, the CS regular expression) regenerated from the **installed pydicom**
(`Generated/T20pyd.lean`), interpreted by `VR.pydAccepts` (hand-written after `validate_vr_length` / `validate_regex`, compared with
the real validator by correspondence stream `pydicom_rule`).  Character-set encoding at write time is not part of that rule
(open finding `C20-non-latin1-text-unwritable`). -/
theorem guard_accepts_pydicom_writable (s : List Char) :
    (checkCodeString s = .ok () → pydAccepts "CS" s = true) ∧
    (checkShortString s = .ok () → pydAccepts "SH" s = true) ∧
    (checkLongString s = .ok () → pydAccepts "LO" s = true) ∧
    (checkShortText s = .ok () → pydAccepts "ST" s = true) ∧
    (checkLongText s = .ok () → pydAccepts "LT" s = true) := by
  refine ⟨fun h => ?_, fun h => ?_, fun h => ?_, fun h => ?_, fun h => ?_⟩
  · obtain ⟨⟨_, h16, hall⟩, _, _⟩ := (code_string_accept_iff s).mp h
    have hk : pydValidators.find? (·.1 == "CS") = some ("CS", "validate_length_and_type_and_regex") := by decide
    have hm : pydMax "CS" = 16 := by decide
    unfold pydAccepts pydLenOk pydRegexOk
    rw [hk, hm]
    have hcls : ∀ c ∈ s, Cls.mem ⟨false, [(32, 32), (48, 57), (65, 90), (95, 95)]⟩ c = true := by
      intro c hc
      have := hall c hc
      unfold isCSChar at this
      simp [Cls.mem]; omega
    have hre : reMatch pydRegexCS s = true := reMatch_star_eol _ s hcls
    have hlast : (s.getLast? != some '\n') = true := by
      cases hl : s.getLast? with
      | none => rfl
      | some c =>
        have hc : c ∈ s := List.mem_of_getLast? hl
        have := hall c hc
        unfold isCSChar at this
        have hne : c ≠ '\n' := by
          intro e; subst e
          revert this; decide
        simp [hne]
    simp [h16, hre, hlast]
  · exact pyd_text "SH" 16 (by decide) (by decide) s ((short_string_accept_iff s).mp h).1
  · exact pyd_text "LO" 64 (by decide) (by decide) s ((long_string_accept_iff s).mp h).1
  · exact pyd_text "ST" 1024 (by decide) (by decide) s ((short_text_accept_iff s).mp h).1.1
  · exact pyd_text "LT" 10240 (by decide) (by decide) s ((long_text_accept_iff s).mp h).1.1

example : pydAccepts "CS" "DERIVED".toList = true := by decide
example : pydAccepts "CS" "derived".toList = false := by decide
example : pydAccepts "CS" "ABC\n".toList = false := by decide
example : pydAccepts "SH" "seventeen chars..".toList = false := by decide

/-! ### nothing outlives a call that a call could alter -/

/-- **no_state_shared_between_calls.**  No function of the package (834 definitions scanned, table regenerated from all modules)
has a mutable default argument, and none of the mutable objects that outlive a call — class attributes and module globals
built from list / dict / set / constructor expressions (28: SOP class maps, the module-level `CodedConcept`s of seg / sr) — is
changed in place by name anywhere in its module (`x[...] = …`, `x.f = …`, `x.append(…)`, `del x[...]` on `x`, `self.x`, `cls.x`,
`C.x`): two constructions from the same inputs cannot differ because of an earlier call.  A kernel-checked lint over labels the
translator assigns; alteration through an alias is covered by the oracle's second call with the same arguments. -/
theorem no_state_shared_between_calls :
    mutableDefaults = [] ∧ ∀ x ∈ sharedState, x.2 = "constant" := by
  refine ⟨by decide, fun x hx => ?_⟩
  have hk : (sharedState.all fun x => x.2 == "constant") = true := by decide
  simpa using List.all_eq_true.mp hk x hx

example : sharedScanFunctions ≥ 300 ∧ sharedState.length ≥ 10 := by decide

/-! ### every value stored in a DS attribute is formatted -/

/-- **ds_sites_formatted.**  At every assignment to an attribute of value representation DS in the package (table regenerated
from all modules, 42 sites: window centers / widths, rescale parameters, spacings, positions, orientations, slide offsets, …) the
value is obtained through the decimal-string formatter (`format_number_as_ds` / `DS(auto_format=True)`, element by element for
multi-valued attributes), copied from the same attribute of another data set, or a short literal — never a raw float, whose
`repr` may exceed the 16 characters a DS value may have.  (Failed on the pinned tree for `ParametricMap`'s slide origin.) -/
theorem ds_sites_formatted (site : String × String) (h : site ∈ dsSites) :
    site.2 = "formatted" ∨ site.2 = "copied" ∨ site.2 = "constant" := by
  have hk : (dsSites.all fun x => x.2 == "formatted" || x.2 == "copied" || x.2 == "constant") = true := by decide
  have := List.all_eq_true.mp hk site h
  simp only [Bool.or_eq_true, beq_iff_eq] at this
  rcases this with (h1 | h2) | h3
  · exact Or.inl h1
  · exact Or.inr (Or.inl h2)
  · exact Or.inr (Or.inr h3)

example : dsSites.length ≥ 40 := by decide

/-- **fl_sites_rounded.**  Every assignment to an attribute of value representation FL (GraphicData of SCOORD / SCOORD3D / graphic
objects, bounding boxes, anchor points, relative opacity; 7 sites) rounds the value to a 32-bit float first, so the in-memory element
equals what is written and read back.  (All 7 were `raw` on the pinned tree.) -/
theorem fl_sites_rounded (site : String × String) (h : site ∈ flSites) : site.2 = "rounded" := by
  have hk : (flSites.all fun x => x.2 == "rounded") = true := by decide
  simpa using List.all_eq_true.mp hk site h

example : flSites.length ≥ 7 := by decide

/-! non-vacuity: the guards accept ordinary values and refuse the witnesses of the two repaired defects -/
example : checkCodeString "DERIVED".toList = .ok () := by decide
example : checkCodeString "ABC\n".toList = .error .value := by decide
example : checkCodeString "A B_C".toList = .ok () := by decide
example : checkLongString "series description".toList = .ok () := by decide
example : checkLongString "a\nb".toList = .error .value := by decide
example : checkShortText "line 1\r\nline 2".toList = .ok () := by decide
example : checkShortText "a\\b".toList = .error .value := by decide

/-! ## identifiers -/

theorem two_pow_128_lt : 2 ^ 128 < 10 ^ 39 := by decide

/-- **uuid_uid_valid**: for every one of the 2^128 UUID values the identifier `f'2.25.{UUID(uuid).int}'` built by
`UID.from_uuid` (root literal regenerated from `uid.py`) is a valid UID: at most 64 characters, digits and dots
only, no empty component, no component with a leading zero. -/
theorem uuid_uid_valid (n : Nat) (s : List Char) (h : fromUuid uuidRoot n = .ok s) : validUID s := by
  unfold fromUuid at h
  split at h
  · injection h with h
    subst h
    have hn : n < 10 ^ 39 := by have := two_pow_128_lt; omega
    have hroot : uuidRoot.toList = ['2', '.', '2', '5'] ++ '.' :: [] := by decide
    unfold renderUid
    rw [hroot, List.append_assoc]
    exact render_valid _ 39 n (by omega) (by decide) (by decide) hn
  · cases h

/-- every 128-bit value is accepted (the theorem above is not vacuous for any of them) -/
theorem uuid_uid_total (n : Nat) (h : n < 2 ^ 128) : ∃ s, fromUuid uuidRoot n = .ok s := by
  unfold fromUuid; simp [h]

/-- **default_uid_valid**: `UID()` = `generate_uid(prefix)` with the prefix literal regenerated from `uid.py`: whatever
number below `10^(64 - len(prefix))` pydicom draws, the identifier is a valid UID. -/
theorem default_uid_valid (n : Nat) (s : List Char) (h : defaultUid defaultPrefix n = .ok s) : validUID s := by
  unfold defaultUid at h
  split at h
  · rename_i hn
    injection h with h
    subst h
    have hlen : defaultPrefix.length = 29 := by decide
    rw [hlen] at hn
    have hpre : defaultPrefix.toList = "1.2.826.0.1.3680043.10.511.3".toList ++ '.' :: [] := by decide
    unfold renderUid
    rw [hpre, List.append_assoc]
    exact render_valid _ 35 n (by omega) (by decide) (by decide) hn
  · cases h

/-- **unique per call** (as far as logic goes): two identifiers built from the same root / prefix coincide only if
the UUID values / random draws coincide. -/
theorem uid_unique_per_draw (p : String) (n m : Nat) (h : renderUid p n = renderUid p m) : n = m :=
  renderUid_injective p h

example : fromUuid uuidRoot 0 = .ok "2.25.0".toList := by decide
example : validUID "2.25.0".toList := by decide
example : ¬ validUID "2.25.01".toList := by decide
example : ¬ validUID "2..25".toList := by decide
example : fromUuid uuidRoot (2 ^ 128 - 1) = .ok "2.25.340282366920938463463374607431768211455".toList := by decide

/-! ## copy-or-alias data flow

The statements are about **concrete runs** of the extracted programs on the store semantics of `Model/AliasConcrete.lean`
(`runC`): any world of the caller `W` (any number of cells, any references among them, any cells as arguments — shared and
nested arguments included; `W.ok`), any valuation `v` of the opaque conditions, any oracle `ch` (which stored item a subscript
yields, which side of a merged arm is taken), any effect `w` of a write on a cell's content.  They follow from the soundness of the
analysis for all programs (`Proofs/AliasSound.lean`: `exec_inv`, by induction over statements) and one kernel evaluation of the
analysis per regenerated program file (`Proofs/C20Tables/*.lean`). -/
open HdVerif.Aliasing

/-- nothing was left out of the tables: every converter and both array helpers were abstracted -/
theorem alias_extraction_complete : allSkipped = [] ∧ 60 ≤ allEntries.length := by decide +kernel

private theorem wf {e : Entry} (he : e ∈ allEntries) : condsBelowList e.nCond e.prog = true ∧ 0 < e.nCond := by
  have := (C20Tie.facts_of_ok (C20Tables.entry_ok he)).2.2
  unfold wellFormed at this
  simpa using this

/-- **inputs_never_written.**  A constructor path or converter that offers no in-place mode (no `copy` parameter: the
segmentation constructor's `_check_and_cast_pixel_array` and `_get_segment_pixel_array`, `KeyObjectSelectionDocument.
from_dataset`, `SpecimenDescription.from_dataset`, the SR template converters, …) never alters what it was given: in every
run — any world of the caller, any valuation `v` of the conditions it branches on, any oracle, any effect `w` of the writes it
performs — every cell `c < W.base` of the caller (the arguments and everything reachable from them, whether or not shared between
arguments) ends with the content it started with. -/
theorem inputs_never_written (e : Entry) (he : e ∈ allEntries) (hc : e.hasCopy = false)
    (W : World) (hW : W.ok e.nIn) (v : Nat) (ch : Nat → Nat) (w : Nat → Nat → Nat) (c : Nat) (hlt : c < W.base) :
    (runC e.prog e.nIn W v ch w).store c = W.store c :=
  neverWritesInputs_sound e (wf he).1 ((C20Tie.facts_of_ok (C20Tables.entry_ok he)).2.1 hc) W hW v ch w c hlt

/-- **copy_leaves_original.**  For every converter with a `copy` parameter, called with `copy=True` (bit 0 of the
valuation): every cell of the caller keeps its content, and what is returned is a cell allocated during the call, not the
original or a part of it. -/
theorem copy_leaves_original (e : Entry) (he : e ∈ allEntries) (hc : e.hasCopy = true)
    (W : World) (hW : W.ok e.nIn) (v : Nat) (hv : v.testBit 0 = true) (ch : Nat → Nat) (w : Nat → Nat → Nat) :
    (∀ c, c < W.base → (runC e.prog e.nIn W v ch w).store c = W.store c) ∧
    (∀ val, (runC e.prog e.nIn W v ch w).result = some val → W.base ≤ val.cell) :=
  copyLeavesOriginal_sound e (wf he).1 (wf he).2 ((C20Tie.facts_of_ok (C20Tables.entry_ok he)).1 hc).1 W hW v hv ch w

/-- **nocopy_returns_same.**  For every converter with a `copy` parameter, called with `copy=False`: whatever it returns
is the very object that was passed in (the cell of argument 0, referred to directly — not a view, not an item, not a copy), although
the call converts that object in place.  Full statement: for *every* such converter.  Proved for all but
`ContentSequence.from_sequence` and `MeasurementReport.from_sequence`, which return a new container holding the caller's items
converted in place (`nocopy_content_sequence_rebuilds`); the correspondence checks item identity for it. -/
theorem nocopy_returns_same (e : Entry) (he : e ∈ allEntries) (hc : e.hasCopy = true) (hq : rebuildsContainer e = false)
    (W : World) (hW : W.ok e.nIn) (v : Nat) (hv : v.testBit 0 = false) (ch : Nat → Nat) (w : Nat → Nat → Nat)
    (val : CVal) (hval : (runC e.prog e.nIn W v ch w).result = some val) : val = ⟨W.args.getD 0 0, true⟩ := by
  obtain ⟨_, h2, h3⟩ := (C20Tie.facts_of_ok (C20Tables.entry_ok he)).1 hc
  rw [hq] at h2
  have h4 : nocopyReturnsSame e = true := by
    cases h : nocopyReturnsSame e
    · rw [h] at h2; cases h2
    · rfl
  exact nocopyReturnsSame_sound e (wf he).1 h3 h4 W hW v hv ch w val hval

set_option maxRecDepth 1000000 in
/-- the excluded converter really is different: with `copy=False` the analysis finds that it returns a newly allocated
container (a statement about the analysis, not about every run: the items are converted in place) … -/
theorem nocopy_content_sequence_rebuilds :
    ∃ e ∈ allEntries, rebuildsContainer e = true ∧
      ((analyse e.prog e.nIn 0).result.map fun r => Nat.beq (r.mask &&& (2 ^ e.nIn - 1)) 0) = some true := by
  decide +kernel

/-- … and with `copy=True` it still leaves the caller's sequence and items untouched (instance of `copy_leaves_original`) -/
theorem copy_content_sequence_untouched (e : Entry) (he : e ∈ allEntries) (_hq : rebuildsContainer e = true)
    (hc : e.hasCopy = true) (W : World) (hW : W.ok e.nIn) (v : Nat) (hv : v.testBit 0 = true) (ch : Nat → Nat)
    (w : Nat → Nat → Nat) (c : Nat) (hlt : c < W.base) : (runC e.prog e.nIn W v ch w).store c = W.store c :=
  (copy_leaves_original e he hc W hW v hv ch w).1 c hlt

/-- **the segmentation constructor's pixel path.**  `_check_and_cast_pixel_array` hands on either the caller's array (a view
of region 0) or a new one, the frame loop takes `pixel_array[plane_index]` (a view), and `_get_segment_pixel_array` turns it
into the stored plane; both helpers are in the table, so the caller's `pixel_array` (and every other argument) is never
written whatever dtype / rank / segmentation type / `max_fractional_value` select. -/
theorem seg_pixel_array_never_written (e : Entry) (he : e ∈ alias_seg_sop) (hc : e.hasCopy = false)
    (W : World) (hW : W.ok e.nIn) (v : Nat) (ch : Nat → Nat) (w : Nat → Nat → Nat) (c : Nat) (hlt : c < W.base) :
    (runC e.prog e.nIn W v ch w).store c = W.store c :=
  inputs_never_written e (by simp [allEntries, he]) hc W hW v ch w c hlt

/-! ### constructors -/

/-- every `__init__` of base, content, seg, pm, sc, sr, ko, ann, pr, legacy was abstracted -/
theorem ctor_extraction_complete : allCtorSkipped = [] ∧ 100 ≤ allCtors.length := by decide +kernel

/-- **constructors_never_write_arguments** (the first clause of C20 for constructors).  For every `__init__` and alternative
constructor of the package's public classes (153 programs in 27 files regenerated from the source, none skipped) — extracted
**interprocedurally**: own and inherited methods (`super().__init__` up to `SOPClass.__init__`), helper functions of the whole
package (`_convert_legacy_to_enhanced`, the `_add_*` helpers of the presentation states, `collect_evidence`, `encode_frame`, …),
closures and generators are inlined to depth 4; an internal callee that is handed a reference and cannot be inlined would put the
constructor on `allCtorSkipped` (see `ctor_extraction_complete`); external pydicom / numpy / builtin callees are assumed not to write
their arguments and are listed per entry in the generated files — in every run on the store semantics (any world of the caller: the
same object passed as two arguments, a data set that is also an item of another argument, any nesting; any valuation of the
conditions, loops unrolled twice; any oracle; any effect of writes) each cell of the caller `c < W.base` ends with the content it
started with.  Objects that exist before the call and outlive it (mutable module globals, class attributes, the result of an
`lru_cache`'d helper) are extra parameters of the programs, so they are among the cells that are never written.  Shared `DataElement` objects (`Dataset.add`) are cells: assigning an attribute of a data set writes the elements that
were shared into it.  Constructors with more than 2^5 paths (marked `(arms merged)`) have the arms of their branches merged (weak
update at the join) instead of enumerated — a coarser but still sound abstraction of the same code. -/
theorem constructors_never_write_arguments (e : Entry) (he : e ∈ allCtors)
    (W : World) (hW : W.ok e.nIn) (v : Nat) (ch : Nat → Nat) (w : Nat → Nat → Nat) (c : Nat) (hlt : c < W.base) :
    (runC e.prog e.nIn W v ch w).store c = W.store c := by
  have hok := C20Tables.ctor_ok he
  unfold constructorOk wellFormed at hok
  simp only [Bool.and_eq_true, decide_eq_true_eq] at hok
  exact neverWritesInputs_sound e hok.1.1 hok.2 W hW v ch w c hlt

/-- **extractor_rejects_writing_constructors** (negative tests of the trusted extractor, second-round audit).  The soundness theorem
below is about the extracted language; that the extractor abstracts Python faithfully is an assumption — tested here on a
committed corpus (`translate/tests_C20/corpus.py`, regenerated through the extractor of this run as `Generated/T20neg.lean`): every
one of the ≥ 150 synthetic constructors that write an argument in some run (loop-carried rebinding of any depth, augmented
assignment through attributes and subscripts, results of external calls that alias their arguments — `copy.copy`, `.copy()`,
`filter`, `min` / `max`, `itemgetter`, `get_item`, `pydicom.Sequence`, `pop()`, `np.require` —, positional `out`, closures and
lambdas writing captured parameters or handed to `map` / `walk`, one stored element reached under two labels, `*args` / `**kwargs`,
every mutator / view function of the first audit …) is rejected by `neverWritesInputs`, and every twin that writes nothing the
caller can see is accepted.  (Constructors the extractor refuses — `exec`, … — would land on the skipped list.) -/
theorem extractor_rejects_writing_constructors :
    (negCorpus.all fun e => wellFormed e && !neverWritesInputs e) = true ∧ (twinCorpus.all constructorOk) = true ∧
      twinRefused = [] ∧ 150 ≤ negCorpus.length ∧ 15 ≤ twinCorpus.length :=
  C20Tables.corpus_ok

/-- **analysis_sound** (the meta-theorem the table theorems rest on, restated here so that it cannot be dropped): for **every**
program of the language, every world of the caller and every run, either the analysis logs a write into a parameter region (or
gives up), or its final state covers the final concrete state — in particular no cell of the caller has changed.  `widen`, the
extractor's hint at the head of the loop pass that stands for all later iterations, is a statement like any other: no action in the
store semantics, a fixpoint of weak updates in the analysis (no bound on the depth of re-binding chains or of walks along links). -/
theorem analysis_sound (p : Prog) (nIn : Nat) (W : World) (hW : W.ok nIn) (v : Nat) (ch : Nat → Nat) (w : Nat → Nat → Nat) :
    (analyse p nIn v).overflow = true ∨ (∃ r, r < nIn ∧ (analyse p nIn v).writes.testBit r = true) ∨
      ∀ c, c < W.base → (runC p nIn W v ch w).store c = W.store c := by
  rcases run_inv p hW v ch w with (h | h) | h
  · exact Or.inl h
  · exact Or.inr (Or.inl h)
  · exact Or.inr (Or.inr h.store)

/-- the world of the theorems above is not a fiction: two arguments that are the same object, which has a nested item -/
example : (⟨2, [(0, 1, 1)], [0, 0], fun _ => 7⟩ : World).ok 2 := by
  refine ⟨rfl, ?_, ?_⟩ <;> simp

/-- … and the store semantics can alter the caller's cells (the theorems are not true of every program): a write through an item of
argument 0 changes cell 1 — which is also argument 1 — and the analysis rejects that program -/
example : (runC [.write (.view 1 (.var 0))] 2 ⟨2, [(0, 1, 1)], [0, 1], fun _ => 7⟩ 0 (fun _ => 0) (fun _ x => x + 1)).store 1 = 8 := by
  simp [runC, execListC, execC, initC, evalC, lookupC_map, targetsC, pick]
example : neverWritesInputs ⟨"writes an item of its argument", 2, 1, false, [.write (.view 1 (.var 0))]⟩ = false := by decide

example : (allCtors.map (·.name)).contains "Segmentation.__init__ (arms merged)" = true := by decide +kernel
/-- the two constructor defects repaired in /repo are rejected by the check: writing an attribute of an item of an argument
(`ImageLibraryEntryDescriptors`), and writing through a variable that may still be the argument (`Segmentation`) -/
example : neverWritesInputs ⟨"alters the items it is given", 1, 2, false,
    [.assign 1 .fresh, .ite 1 [.assign 2 (.view 1 (.var 0)), .write (.var 2), .write (.var 1), .link (.var 1) 1 (.var 2)] []]⟩
    = false := by decide
example : neverWritesInputs ⟨"writes into the argument unless it was None", 1, 2, false,
    [.ite 1 [.assign 0 .fresh] [], .write (.view 1 (.var 0))]⟩ = false := by decide
example : neverWritesInputs ⟨"writes into a copy", 1, 2, false,
    [.ite 1 [.assign 0 .fresh] [], .assign 0 .fresh, .write (.view 1 (.var 0))]⟩ = true := by decide

/-! non-vacuity: the tables contain the programs the theorems are meant for, and the checks can fail -/
example : (allEntries.filter (·.hasCopy)).length ≥ 40 := by decide +kernel
example : (alias_seg_sop.map (·.name)).contains "Segmentation._get_segment_pixel_array" = true := by decide +kernel
/-- the defect that was repaired in /repo (`segment_array *= max_fractional_value` on a plane that aliases the caller's
array) is rejected by the very check used above -/
example : neverWritesInputs ⟨"in-place scaling", 1, 2, false,
    [.assign 1 (.view 1 (.var 0)), .ite 1 [.write (.var 1)] [], .ret (.var 1)]⟩ = false := by decide
/-- so is the `LUT.from_dataset` shape that re-bound the original after copying it -/
example : copyLeavesOriginal ⟨"rebinding", 2, 1, true,
    [.ite 0 [.assign 2 .fresh] [.assign 2 (.var 0)], .assign 2 (.var 0), .write (.var 2), .ret (.var 2)]⟩ = false := by decide
/-- and a converter that always copies fails `nocopyReturnsSame` (the `SourceImageForRegion` defect) -/
example : nocopyReturnsSame ⟨"always copies", 2, 1, true, [.assign 2 .fresh, .writeDeep (.var 2), .ret (.var 2)]⟩ = false := by
  decide
/-- deep conversion through a link reaches the original (the `_SR.from_dataset` defect) -/
example : copyLeavesOriginal ⟨"content taken from the original", 2, 1, true,
    [.ite 0 [.assign 2 .fresh] [.assign 2 (.var 0)], .assign 3 .fresh, .write (.var 3), .link (.var 3) 5 (.view 5 (.var 0)),
     .writeDeep (.var 3), .ret (.var 2)]⟩ = false := by decide
/-- a shallow write through an attribute reaches what was stored under that attribute (and nothing stored elsewhere) -/
example : neverWritesInputs ⟨"append to the caller's list through self", 1, 1, false,
    [.assign 1 .fresh, .write (.var 1), .link (.var 1) 5 (.var 0), .write (.view 5 (.var 1))]⟩ = false := by decide
example : neverWritesInputs ⟨"append to another attribute", 1, 1, false,
    [.assign 1 .fresh, .write (.var 1), .link (.var 1) 5 (.var 0), .write (.view 6 (.var 1))]⟩ = true := by decide
/-- storing a reference in an argument is a write of that argument -/
example : neverWritesInputs ⟨"stores into the argument", 1, 1, false, [.link (.var 0) 5 .fresh]⟩ = false := by decide
/-- an attribute of a new object that certainly holds a new list does not denote the object itself, whose items may be arguments
(`self._lut[name].append(item)` in `ContentSequence`); through a holder that is only *possibly* the new object it does -/
example : neverWritesInputs ⟨"must link", 1, 1, false,
    [.assign 1 .fresh, .link (.var 1) 1 (.var 0), .link (.var 1) 7 .fresh, .write (.view 1 (.view 7 (.var 1)))]⟩ = true := by decide
example : neverWritesInputs ⟨"may link", 1, 1, false,
    [.assign 1 .fresh, .assign 2 .fresh, .link (.var 1) 1 (.var 0), .link (.join (.var 1) (.var 2)) 7 .fresh,
     .write (.view 1 (.view 7 (.var 1)))]⟩ = false := by decide

/-! ## bridges: hand-written definitions use exactly the expressions of the current source (proved in `Proofs/C20Tie.lean`) -/

/-- **tie: `UID.from_uuid`.**  The hand-written `VR.fromUuid` renders exactly the f-string that stands in `uid.py` (regenerated part
by part as `Gen.uuidRender`): a part added, removed or reordered in the source breaks this bridge. -/
theorem tie_fromUuid_is_source_expression (n : Nat) :
    fromUuid uuidRoot n = if n < 2 ^ 128 then .ok (uuidRender n) else .error .value :=
  C20Tie.fromUuid_is_source_expression n

/-- **tie: table coverage.**  The hand-written concatenations `allEntries` / `allCtors` (per-file tables generated from hand-written
file lists) contain every converter and every constructor that a scan of *all* modules of the package finds
(`Gen.pkgConverters`, `Gen.pkgConstructors`), up to the three documented exclusions. -/
theorem tie_tables_cover_package :
    (pkgConverters.all fun n => tabled allEntries n) = true ∧
    (pkgConstructors.all fun n => tabled allCtors n || excludedConstructors.contains n) = true :=
  ⟨C20Tie.converter_tables_cover_package, C20Tie.constructor_tables_cover_package⟩

/-- **tie: nested converter calls.**  The rule by which the extractor models each converter call inside the package (`copy=False`
⇒ converted in place and the argument returned; no argument / `copy=True` ⇒ a new object; `ContentSequence` / `MeasurementReport`
⇒ a new container) is what the callee's own regenerated program and signature do: the rules agree call by call, every `copy`
parameter defaults to `True`, and the hand-written `rebuildsContainer` names exactly the converters that return a new object. -/
theorem tie_converter_call_rules :
    (converterCalls.all C20Tie.ruleAgrees) = true ∧ (converterCopyDefaults.all fun x => x.2) = true ∧
    (allEntries.all fun e => !e.hasCopy || (rebuildsContainer e == !nocopyReturnsSame e)) = true :=
  ⟨C20Tie.converter_call_rules_agree, C20Tie.converter_copy_defaults_true, C20Tie.rebuilders_are_exactly_the_non_returning⟩

example : pkgConverters.length ≥ 60 ∧ pkgConstructors.length ≥ 150 ∧ converterCalls.length ≥ 40 ∧ converterCopyDefaults.length ≥ 40 := by
  decide +kernel
example : uuidRender 7 = "2.25.7".toList := by decide
/-- the call-rule check can fail: a converter that always copies does not agree with the in-place rule -/
example : (let e : Entry := ⟨"always copies", 2, 1, true, [.assign 2 .fresh, .writeDeep (.var 2), .ret (.var 2)]⟩
           e.hasCopy && !rebuildsContainer e && nocopyReturnsSame e && copyLeavesOriginal e) = false := by decide

end HdVerif.C20
