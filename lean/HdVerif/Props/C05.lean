import HdVerif.Proofs.FrameAccess
import HdVerif.Proofs.Offsets
import HdVerif.Proofs.OffsetsTie
import HdVerif.Generated.T11e
import HdVerif.Generated.T12b
import HdVerif.Proofs.EncapBytes
import HdVerif.Proofs.FramePaths
/-! # C05  Every way of fetching stored frames returns the same pixels

Property theorems only (helper lemmas live in `Proofs/`).  All statements are about the
definitions *regenerated from /repo's current source* (`HdVerif.Gen.*`: `stdFrameIndex`,
`rawFrameRange`, `bitSlice`, `lazyIndexGuard`, `lazyBytesPerFrame`, `lazyOffsetBit/Byte`,
`lazyReadLength`) composed in `Model/FrameAccess.lean`.

Native (unencapsulated) images.  `PixelData` of a 1-bit image is `pack frames.flatten`
(DICOM PS3.5 bit order; tie C checks this against pydicom's `pack_bits`); for >= 8 bits it
is the concatenation of the frames' bytes. -/
namespace HdVerif.C05
open HdVerif HdVerif.Bits HdVerif.Gen HdVerif.FrameAccess HdVerif.FrameAccessLemmas HdVerif.Offsets HdVerif.EncapBytes HdVerif.FramePaths HdVerif.FramePathsLemmas

/-- Frame numbers: accepted iff inside the image, result 0-based, 1-based unless `as_index`. -/
theorem frame_number_accepted_iff (k N : Int) (asIndex : Bool) (r : Int) :
    stdFrameIndex k asIndex N = .ok r ↔ (0 ≤ r ∧ r < N ∧ r = (if asIndex then k else k - 1)) :=
  stdFrameIndex_ok_iff k N asIndex r

/-- Numbers outside the image are rejected with an IndexError — never wrapped. -/
theorem frame_number_rejected (k N : Int) (asIndex : Bool)
    (h : (if asIndex then k else k - 1) < 0 ∨ N ≤ (if asIndex then k else k - 1)) :
    stdFrameIndex k asIndex N = .error .index := by
  unfold stdFrameIndex
  grind (splits := 40)

/-- The lazy reader's own guard accepts exactly the indices of the image. -/
theorem lazy_index_accepted_iff (i N r : Int) :
    lazyIndexGuard i N = .ok r ↔ (r = i ∧ 0 ≤ i ∧ i < N) :=
  lazyIndexGuard_ok_iff i N r

theorem lazy_index_rejected (i N : Int) (h : i < 0 ∨ N ≤ i) : lazyIndexGuard i N = .error .value := by
  unfold lazyIndexGuard
  grind (splits := 40)

/-- **In-memory 1-bit frames**: for every frame size (divisible by 8 or not), every number of
frames and every frame, the bytes `get_raw_frame` cuts and the bit slice `decode_frame` takes
recover exactly the frame that was packed. -/
theorem memory_frame_bits (frames : List (List Bool)) (rows cols : Nat) (hn : 0 < rows * cols)
    (hlen : ∀ f ∈ frames, f.length = rows * cols) (i : Nat) (hi : i < frames.length) :
    memFrameBits (pack frames.flatten) rows cols 1 frames.length ((i : Int) + 1) false = .ok frames[i] :=
  mem_frame_bits frames rows cols hn hlen i hi

/-- **Lazy 1-bit frames** (offset table entry, read length, bit slice) give the same frame. -/
theorem lazy_frame_bits_eq (frames : List (List Bool)) (rows cols : Nat) (hn : 0 < rows * cols)
    (hlen : ∀ f ∈ frames, f.length = rows * cols) (i : Nat) (hi : i < frames.length) :
    lazyFrameBits (pack frames.flatten) rows cols 1 frames.length ((i : Int) + 1) false = .ok frames[i] :=
  lazy_frame_bits frames rows cols hn hlen i hi

/-- Hence lazy and in-memory access agree on every 1-bit frame of every image. -/
theorem lazy_eq_memory_bits (frames : List (List Bool)) (rows cols : Nat) (hn : 0 < rows * cols)
    (hlen : ∀ f ∈ frames, f.length = rows * cols) (i : Nat) (hi : i < frames.length) :
    lazyFrameBits (pack frames.flatten) rows cols 1 frames.length ((i : Int) + 1) false
      = memFrameBits (pack frames.flatten) rows cols 1 frames.length ((i : Int) + 1) false := by
  rw [memory_frame_bits frames rows cols hn hlen i hi, lazy_frame_bits_eq frames rows cols hn hlen i hi]

/-- 0-based indices address the same frames as 1-based numbers. -/
theorem index_eq_number (pd : List Nat) (rows cols samples N k : Int) :
    memFrameBits pd rows cols samples N k true = memFrameBits pd rows cols samples N (k + 1) false := by
  unfold memFrameBits Skel.frameBits Skel.index
  have : stdFrameIndex k true N = stdFrameIndex (k + 1) false N := by
    unfold stdFrameIndex; grind (splits := 40)
  simp only [singleSkel, singleStdArgs, singleRawArgs, singleDecodeIndex, bind, Except.bind]
  rw [this]

/-- Out-of-range numbers are refused on the whole access path (not only by the helper). -/
theorem memory_frame_rejected (pd : List Nat) (rows cols samples N k : Int) (asIndex : Bool)
    (h : (if asIndex then k else k - 1) < 0 ∨ N ≤ (if asIndex then k else k - 1)) :
    memFrameBits pd rows cols samples N k asIndex = .error .index ∧
    lazyFrameBits pd rows cols samples N k asIndex = .error .index := by
  unfold memFrameBits lazyFrameBits Skel.frameBits Skel.index
  simp only [singleSkel, singleStdArgs, singleRawArgs, singleDecodeIndex, bind, Except.bind]
  rw [frame_number_rejected k N asIndex h]
  exact ⟨rfl, rfl⟩

/-- **Frames of >= 8 bits per sample**, in memory: the byte range of frame `i` is frame `i`.
`flen` is the frame length in bytes, `bits * rows * cols * samples / 8`. -/
theorem memory_frame_bytes (frames : List (List Nat)) (rows cols samples bits : Nat) (pi : String)
    (hpi : pi ≠ "YBR_FULL_422") (hb : bits ≠ 1)
    (hlen : ∀ f ∈ frames, f.length = bits * (rows * cols * samples) / 8)
    (i : Nat) (hi : i < frames.length) :
    memFrameBytes frames.flatten rows cols samples bits frames.length pi ((i : Int) + 1) false = .ok frames[i] := by
  have h1 : stdFrameIndex ((i : Int) + 1) false frames.length = .ok (i : Int) := by
    rw [stdFrameIndex_ok_iff]; simp; omega
  unfold memFrameBytes Skel.frameBytes Skel.index
  simp only [singleSkel, singleStdArgs, singleRawArgs, singleDecodeIndex, bind, Except.bind]
  rw [h1]
  simp only []
  unfold memRaw
  simp only [bind, Except.bind]
  unfold rawFrameRange
  have hpi' : (pi == "YBR_FULL_422") = false := by simpa using hpi
  have hb' : (((bits : Int)) == 1) = false := by
    have : (bits : Int) ≠ 1 := by exact_mod_cast hb
    simpa using this
  simp only [hpi', hb', Bool.false_and, Bool.false_eq_true, ↓reduceIte, fdiv_pos _ 8 (by omega)]
  have e : (bits : Int) * ((rows : Int) * cols * samples) / 8 = ((bits * (rows * cols * samples) / 8 : Nat) : Int) := by
    push_cast; rfl
  rw [e]
  generalize hL : bits * (rows * cols * samples) / 8 = L at *
  have e2 : (i : Int) * (L : Int) = ((i * L : Nat) : Int) := by push_cast; rfl
  have e3 : ((i * L : Nat) : Int) + (L : Int) = ((i * L + L : Nat) : Int) := by push_cast; rfl
  rw [e2, e3, slice_nat]
  unfold pySlice
  have : i * L + L - i * L = L := by omega
  rw [this, flatten_drop_take frames L hlen i hi]

/-- **Frames of >= 8 bits, in memory, every photometric interpretation** (YBR_FULL_422 stores 2 bytes per pixel). -/
theorem memory_frame_bytes_any (frames : List (List Nat)) (rows cols samples bits : Nat) (pi : String)
    (hb : bits ≠ 1)
    (hlen : ∀ f ∈ frames, f.length = frameBytes rows cols samples bits pi)
    (i : Nat) (hi : i < frames.length) :
    memFrameBytes frames.flatten rows cols samples bits frames.length pi ((i : Int) + 1) false = .ok frames[i] := by
  have h1 : stdFrameIndex ((i : Int) + 1) false frames.length = .ok (i : Int) := by
    rw [stdFrameIndex_ok_iff]; simp; omega
  unfold memFrameBytes Skel.frameBytes Skel.index
  simp only [singleSkel, singleStdArgs, singleRawArgs, singleDecodeIndex, bind, Except.bind]
  rw [h1]
  simp only []
  unfold memRaw
  simp only [bind, Except.bind]
  unfold rawFrameRange
  have hb' : (((bits : Int)) == 1) = false := by
    have : (bits : Int) ≠ 1 := by exact_mod_cast hb
    simpa using this
  simp only [hb', Bool.false_and, Bool.false_eq_true, ↓reduceIte, fdiv_pos _ 8 (by omega)]
  have e : (bits : Int) * (if (pi == "YBR_FULL_422") = true then (rows : Int) * cols * 2 else (rows : Int) * cols * samples) / 8
      = ((frameBytes rows cols samples bits pi : Nat) : Int) := by
    unfold frameBytes
    by_cases hp : pi = "YBR_FULL_422"
    · simp [hp]
    · have : (pi == "YBR_FULL_422") = false := by simpa using hp
      simp [hp, this]
  rw [e]
  generalize frameBytes rows cols samples bits pi = L at *
  have e2 : (i : Int) * (L : Int) = ((i * L : Nat) : Int) := by push_cast; rfl
  have e3 : ((i * L : Nat) : Int) + (L : Int) = ((i * L + L : Nat) : Int) := by push_cast; rfl
  rw [e2, e3, slice_nat]
  unfold pySlice
  have : i * L + L - i * L = L := by omega
  rw [this, flatten_drop_take frames L hlen i hi]

/-- lazy path for >= 8 bits: offset `i * bytes_per_frame`, read length `bytes_per_frame` with
    `bytes_per_frame = n_pixels * bits // 8` (n_pixels halved for YBR_FULL_422) -/
theorem lazy_frame_bytes_any (frames : List (List Nat)) (rows cols samples bits : Nat) (pi : String)
    (hb : bits ≠ 1) (hpos : 0 < frameBytes rows cols samples bits pi)
    (hlen : ∀ f ∈ frames, f.length = frameBytes rows cols samples bits pi)
    (i : Nat) (hi : i < frames.length) :
    lazyFrameBytes frames.flatten rows cols samples bits frames.length pi ((i : Int) + 1) false = .ok frames[i] := by
  have h1 : stdFrameIndex ((i : Int) + 1) false frames.length = .ok (i : Int) := by
    rw [stdFrameIndex_ok_iff]; simp; omega
  have h2 : lazyIndexGuard (i : Int) frames.length = .ok (i : Int) := by
    rw [lazyIndexGuard_ok_iff]; omega
  unfold lazyFrameBytes Skel.frameBytes Skel.index
  simp only [singleSkel, singleStdArgs, singleRawArgs, singleDecodeIndex, bind, Except.bind]
  rw [h1]
  simp only []
  unfold lazyRaw
  simp only [bind, Except.bind, h2]
  have hb' : (((bits : Int)) == 1) = false := by
    have : (bits : Int) ≠ 1 := by exact_mod_cast hb
    simpa using this
  have hbne : ¬ ((bits : Int) = 1) := by exact_mod_cast hb
  have hbpf : lazyBytesPerFrame ((rows : Int) * cols * samples) bits pi rows cols
      = .ok ((frameBytes rows cols samples bits pi : Nat) : Int) := by
    unfold lazyBytesPerFrame frameBytes
    simp only [hb', Bool.false_eq_true, ↓reduceIte, Bool.not_false, fdiv_pos _ 8 (by omega)]
    by_cases hp : pi = "YBR_FULL_422"
    · simp [hp]; congr 1; rw [Int.mul_comm]
    · have : (pi == "YBR_FULL_422") = false := by simpa using hp
      simp [hp, this]; congr 1; rw [Int.mul_comm]
  rw [hbpf]
  simp only [hbne, ↓reduceIte]
  unfold lazyOffsetByte lazyReadLength
  simp only [hb', Bool.false_eq_true, ↓reduceIte]
  generalize hL : frameBytes rows cols samples bits pi = L at *
  have e2 : (i : Int) * (L : Int) = ((i * L : Nat) : Int) := by push_cast; rfl
  have e3 : ((i * L : Nat) : Int) + (L : Int) = ((i * L + L : Nat) : Int) := by push_cast; rfl
  rw [e2, e3, slice_nat]
  unfold pySlice
  have : i * L + L - i * L = L := by omega
  rw [this, flatten_drop_take frames L hlen i hi]
  have : frames[i].length ≠ 0 := by rw [hlen _ (List.getElem_mem hi)]; omega
  simp [this]

/-- Hence lazy and in-memory access agree on every frame of every native image with >= 8 bits. -/
theorem lazy_eq_memory_bytes (frames : List (List Nat)) (rows cols samples bits : Nat) (pi : String)
    (hb : bits ≠ 1) (hpos : 0 < frameBytes rows cols samples bits pi)
    (hlen : ∀ f ∈ frames, f.length = frameBytes rows cols samples bits pi)
    (i : Nat) (hi : i < frames.length) :
    lazyFrameBytes frames.flatten rows cols samples bits frames.length pi ((i : Int) + 1) false
      = memFrameBytes frames.flatten rows cols samples bits frames.length pi ((i : Int) + 1) false := by
  rw [lazy_frame_bytes_any frames rows cols samples bits pi hb hpos hlen i hi,
      memory_frame_bytes_any frames rows cols samples bits pi hb hlen i hi]

example : lazyFrameBytes [[1,2,3,4],[5,6,7,8]].flatten 1 2 3 8 2 "YBR_FULL_422" 2 false = .ok [5,6,7,8] :=
  lazy_frame_bytes_any [[1,2,3,4],[5,6,7,8]] 1 2 3 8 "YBR_FULL_422" (by decide) (by decide) (by simp [frameBytes]) 1 (by simp)

/-! ## Batch access and the cached pixel array (over the call skeleton regenerated from source, target T1b) -/

/-- **Batch = single, per frame**: the batch method hands the same expressions to `_standardize_frame_index`,
`get_raw_frame` and `decode_frame(index=…)` as the single-frame method — for every image, number and convention.
(A batch method decoding with `index=frame_number - 1`, or subscripting the cache with it, breaks this theorem.) -/
theorem batch_eq_single (pd : List Nat) (rows cols samples N k : Int) (asIndex : Bool) :
    batchOneBits pd rows cols samples N k asIndex = memFrameBits pd rows cols samples N k asIndex := by
  unfold batchOneBits memFrameBits Skel.frameBits Skel.index
  simp only [batchSkel, singleSkel, batchStdArgs, singleStdArgs, batchRawArgs, singleRawArgs, batchDecodeIndex, singleDecodeIndex]

/-- mapM over an `Except` either fails or yields one answer per request, in request order -/
theorem mapM_spec {α β} (f : α → Except ErrKind β) (ks : List α) (out : List β) (h : ks.mapM f = .ok out) :
    out.length = ks.length ∧ ∀ j (hj : j < ks.length) (hj' : j < out.length), f ks[j] = .ok out[j] := by
  induction ks generalizing out with
  | nil =>
    simp [List.mapM_nil, pure, Except.pure] at h
    subst h; simp
  | cons k ks ih =>
    rw [List.mapM_cons] at h
    simp only [bind, Except.bind, pure, Except.pure] at h
    split at h
    · simp at h
    · rename_i v hv
      split at h
      · simp at h
      · rename_i vs hvs
        simp at h
        subst h
        obtain ⟨hl, hall⟩ := ih vs hvs
        refine ⟨by simp [hl], ?_⟩
        intro j hj hj'
        cases j with
        | zero => simpa using hv
        | succ j => simpa using hall j (by simpa using hj) (by simpa using hj')

/-- **A batch is the list of the single fetches, in request order**; an empty batch is refused (`np.stack`). -/
theorem batch_is_map_of_single (pd : List Nat) (rows cols samples N : Int) (ks : List Int) (asIndex : Bool)
    (out : List (List Bool)) (h : memFramesBits pd rows cols samples N (some ks) asIndex = .ok out) :
    ks ≠ [] ∧ out.length = ks.length ∧
    ∀ j (hj : j < ks.length) (hj' : j < out.length),
      memFrameBits pd rows cols samples N ks[j] asIndex = .ok out[j] := by
  unfold memFramesBits at h
  simp only [bind, Except.bind, pure, Except.pure] at h
  split at h
  · simp at h
  · rename_i frames hf
    split at h
    · simp at h
    · rename_i hne
      simp at h
      subst h
      obtain ⟨hl, hall⟩ := mapM_spec _ ks frames hf
      refine ⟨?_, hl, ?_⟩
      · intro hk; subst hk
        simp at hl
        simp [hl] at hne
      · intro j hj hj'
        rw [← batch_eq_single]
        exact hall j hj hj'

theorem batch_empty_refused (pd : List Nat) (rows cols samples N : Int) (asIndex : Bool) :
    memFramesBits pd rows cols samples N (some []) asIndex = .error .value := by
  simp [memFramesBits, bind, Except.bind, pure, Except.pure]

/-- a batch containing a number outside the image is refused as a whole -/
theorem batch_with_bad_number_refused (pd : List Nat) (rows cols samples N : Int) (pre post : List Int) (k : Int)
    (asIndex : Bool) (h : (if asIndex then k else k - 1) < 0 ∨ N ≤ (if asIndex then k else k - 1)) :
    ∃ e, memFramesBits pd rows cols samples N (some (pre ++ k :: post)) asIndex = .error e := by
  cases hr : memFramesBits pd rows cols samples N (some (pre ++ k :: post)) asIndex with
  | error e => exact ⟨e, rfl⟩
  | ok out =>
    exfalso
    obtain ⟨_, hl, hall⟩ := batch_is_map_of_single pd rows cols samples N _ asIndex out hr
    have hj : pre.length < (pre ++ k :: post).length := by simp
    have := hall pre.length hj (by omega)
    simp only [List.getElem_append_right (Nat.le_refl _), Nat.sub_self, List.getElem_cons_zero] at this
    rw [(memory_frame_rejected pd rows cols samples N k asIndex h).1] at this
    simp at this

/-- `frame_numbers=None` asks for every frame once, in stored order, in either convention -/
theorem batch_default_is_all_frames (N : Nat) (asIndex : Bool) :
    (do let (a, b) ← batchDefaultRange asIndex (N : Int); pure (pyRange a b) : Except ErrKind (List Int))
      = .ok ((List.range N).map (fun (i : Nat) => (if asIndex then (i : Int) else (i : Int) + 1))) := by
  unfold batchDefaultRange pyRange
  cases asIndex <;> simp [bind, Except.bind, pure, Except.pure] <;> intro a _ <;> omega

/-- **Cached pixel array = stored frame** (both methods): once `pixel_array` is decoded, frame number `i+1` (or index
`i`) is answered with element `i` of the array, and numbers outside the image are refused — never wrapped by the
negative-index semantics of the array subscript. -/
theorem cached_frame {α} (sk : Skel) (hsk : sk = singleSkel ∨ sk = batchSkel) (frames : List α) (whole : α)
    (hw : frames.length = 1 → frames = [whole]) (i : Nat) (hi : i < frames.length) (asIndex : Bool) :
    sk.cached frames whole (if asIndex then (i : Int) else (i : Int) + 1) asIndex = .ok frames[i] := by
  have h1 : stdFrameIndex (if asIndex then (i : Int) else (i : Int) + 1) asIndex (frames.length : Int) = .ok (i : Int) := by
    rw [stdFrameIndex_ok_iff]; cases asIndex <;> simp <;> omega
  unfold Skel.cached Skel.index
  rcases hsk with rfl | rfl
  all_goals
    simp only [singleSkel, batchSkel, singleStdArgs, batchStdArgs, singleCacheIndex, batchCacheIndex, bind, Except.bind, h1]
    by_cases hn : frames.length = 1
    · have hf := hw hn
      have hi0 : i = 0 := by omega
      subst hi0
      simp [hn, hf]
    · have hn' : ¬ ((frames.length : Int) = 1) := by omega
      simp only [hn', ↓reduceIte, pyIndex]
      have : ¬ ((i : Int) < 0) := by omega
      simp [this, hi]

theorem cached_frame_rejected {α} (sk : Skel) (hsk : sk = singleSkel ∨ sk = batchSkel) (frames : List α) (whole : α)
    (k : Int) (asIndex : Bool)
    (h : (if asIndex then k else k - 1) < 0 ∨ (frames.length : Int) ≤ (if asIndex then k else k - 1)) :
    sk.cached frames whole k asIndex = .error .index := by
  unfold Skel.cached Skel.index
  rcases hsk with rfl | rfl
  all_goals
    simp only [singleSkel, batchSkel, singleStdArgs, batchStdArgs, bind, Except.bind,
      frame_number_rejected k (frames.length : Int) asIndex h]

/-! Non-vacuity: concrete images meeting the hypotheses (three 2x3 one-bit frames: frame
boundaries are not byte aligned; two 2-byte frames). -/
example : memFrameBits (pack [[true,false,false,false,false,true],[true,true,false,false,false,false],
    [false,true,false,true,false,true]].flatten) 2 3 1 3 2 false = .ok [true,true,false,false,false,false] :=
  memory_frame_bits [[true,false,false,false,false,true],[true,true,false,false,false,false],
    [false,true,false,true,false,true]] 2 3 (by decide) (by simp) 1 (by simp)

example : memFrameBytes [[1,2],[3,4]].flatten 1 2 1 8 2 "MONOCHROME2" 2 false = .ok [3,4] :=
  memory_frame_bytes [[1,2],[3,4]] 1 2 1 8 "MONOCHROME2" (by decide) (by decide) (by simp) 1 (by simp)



/-! ## What may be handed in as a frame number (values, not only integers) -/

/-- **A frame number is accepted iff it is an integer object that lies inside the image** - Python ints, numpy integer
scalars of every width, and `True` / `False` as the ints they are; the answer is its 0-based index, never wrapped.
(`stdFrameIndexV` = the conversion the source applies first - regenerated name, T1c - followed by the regenerated guard T1; what
`operator.index` does with each kind of value is Python's and hand-written in `opIndex`: tie C, the L2 value-kind grid on the real
helper and the non-integer spellings drawn on every method.) -/
theorem frame_number_value_accepted_iff (v : PyVal) (asIndex : Bool) (N r : Int) :
    stdFrameIndexV v asIndex N = .ok r ↔
      ∃ k, v.asInteger = some k ∧ 0 ≤ r ∧ r < N ∧ r = (if asIndex then k else k - 1) := by
  unfold stdFrameIndexV convertBy frameNumberConversion
  simp only [↓reduceIte, bind, Except.bind]
  cases v <;> simp [opIndex, PyVal.asInteger, frame_number_accepted_iff]

/-- floats (integral or not), numeric strings, None and numpy booleans are refused with a TypeError - never truncated,
    parsed or read as 0 / 1 -/
theorem non_integer_frame_number_refused (v : PyVal) (asIndex : Bool) (N : Int) (h : v.asInteger = none) :
    stdFrameIndexV v asIndex N = .error .type ∧ lazyIndexGuardV v N = .error .type := by
  unfold stdFrameIndexV lazyIndexGuardV convertBy frameNumberConversion readerIndexConversion
  simp only [↓reduceIte, bind, Except.bind, List.headD_cons]
  cases v <;> simp_all [opIndex, PyVal.asInteger]

/-- the reader's own guard on values: accepted iff an integer object inside the image -/
theorem reader_index_value_accepted_iff (v : PyVal) (N r : Int) :
    lazyIndexGuardV v N = .ok r ↔ ∃ k, v.asInteger = some k ∧ r = k ∧ 0 ≤ k ∧ k < N := by
  unfold lazyIndexGuardV convertBy readerIndexConversion
  simp only [↓reduceIte, bind, Except.bind, List.headD_cons]
  cases v <;> simp [opIndex, PyVal.asInteger, lazy_index_accepted_iff]
  all_goals (constructor <;> rintro ⟨h1, h2, h3⟩ <;> subst h1 <;> exact ⟨rfl, h2, h3⟩)

/-- both reader methods convert their index first (regenerated, T11f) -/
theorem reader_converts_index_first : readerIndexConversion = ["operator.index", "operator.index"] := by decide

example : stdFrameIndexV (.npInt 8 false 3) false 3 = .ok 2 := by decide
example : stdFrameIndexV (.float (3/2)) false 3 = .error .type := (non_integer_frame_number_refused (.float (3/2)) false 3 rfl).1
example : stdFrameIndexV (.bool true) false 3 = .ok 0 := by decide


/-- **Every kind of `fp` that `imread` documents is opened lazily as well**: a path as str, `pathlib.Path`, any other
`os.PathLike` (a `PurePath`, an object with `__fspath__` - refused before fix cd829d3), the file content as bytes, a
DicomIO, any other binary file object.  Over the regenerated type tuples of `Image.from_file` (T1c) and
`ImageFileReader.__init__` (T11f); what the types mean (`isInstance`) is Python's and is exercised by the `path` dimension
of the correspondence. -/
theorem lazy_opens_every_documented_kind : ∀ k ∈ FpKind.all, lazyOpens k = true := by decide

example : lazyHandedToReader .binaryIO = .dicomIO ∧ lazyHandedToReader .purePath = .purePath := by decide

/-! ## ONE specification for every access path: frame i = slice i of the decoded pixel data

`sliceBits pd N i` = bits `i*N .. (i+1)*N` of the unpacked PixelData (native 1-bit), `sliceBytes pd L i` = bytes
`i*L .. (i+1)*L` (>= 8 bits allocated; turning the bytes into numbers and rearranging colour planes is numpy's / pydicom's
and is the same on every path - every path hands the decoder the same parameters: `reader_forwards_every_decode_parameter`,
T1b, `transform_forwards_every_decode_parameter`).  The theorems below hold for ARBITRARY pixel data bytes (junk in padding
bits, data longer than the frames need), every frame count, every frame size modulo 8, every frame. -/

/-- `get_stored_frame` on an in-memory native 1-bit image returns the slice -/
theorem memory_frame_is_slice (pd : List Nat) (rows cols n i : Nat) (hi : i < n)
    (h : (i + 1) * (rows * cols) ≤ 8 * pd.length) :
    memFrameBits pd rows cols 1 n ((i : Int) + 1) false = .ok (sliceBits pd (rows * cols) i) :=
  mem_frame_slice pd rows cols n i hi h

/-- ... and so does the lazily read image (offset table entry, read length, bit slice) -/
theorem lazy_frame_is_slice (pd : List Nat) (rows cols n i : Nat) (hN : 0 < rows * cols) (hi : i < n)
    (h : (i + 1) * (rows * cols) ≤ 8 * pd.length) :
    lazyFrameBits pd rows cols 1 n ((i : Int) + 1) false = .ok (sliceBits pd (rows * cols) i) :=
  lazy_of_mem pd rows cols hN n i hi _ (mem_frame_slice pd rows cols n i hi h)

/-- >= 8 bits allocated, in memory, every photometric interpretation: the frame's bytes are the slice - no hypothesis on
    the pixel data at all -/
theorem memory_bytes_is_slice (pd : List Nat) (rows cols samples bits : Nat) (pi : String) (hb : bits ≠ 1) (n i : Nat) (hi : i < n) :
    memFrameBytes pd rows cols samples bits n pi ((i : Int) + 1) false
      = .ok (sliceBytes pd (frameBytes rows cols samples bits pi) i) := by
  have h1 : stdFrameIndex ((i : Int) + 1) false n = .ok (i : Int) := by
    rw [stdFrameIndex_ok_iff]; simp; omega
  unfold memFrameBytes Skel.frameBytes Skel.index
  simp only [singleSkel, singleStdArgs, singleRawArgs, singleDecodeIndex, bind, Except.bind]
  rw [h1]
  simp only []
  unfold memRaw
  simp only [bind, Except.bind]
  unfold rawFrameRange
  have hb' : (((bits : Int)) == 1) = false := by
    have : (bits : Int) ≠ 1 := by exact_mod_cast hb
    simpa using this
  simp only [hb', Bool.false_and, Bool.false_eq_true, ↓reduceIte, fdiv_pos _ 8 (by omega)]
  have e : (bits : Int) * (if (pi == "YBR_FULL_422") = true then (rows : Int) * cols * 2 else (rows : Int) * cols * samples) / 8
      = ((frameBytes rows cols samples bits pi : Nat) : Int) := by
    unfold frameBytes
    by_cases hp : pi = "YBR_FULL_422"
    · simp [hp]
    · have : (pi == "YBR_FULL_422") = false := by simpa using hp
      simp [hp, this]
  rw [e]
  generalize frameBytes rows cols samples bits pi = L at *
  have e2 : (i : Int) * (L : Int) = ((i * L : Nat) : Int) := by push_cast; rfl
  have e3 : ((i * L : Nat) : Int) + (L : Int) = (((i + 1) * L : Nat) : Int) := by push_cast; ring
  rw [e2, e3, slice_nat]
  rfl

/-- **`get_frames` (behind `get_frame` / `get_frames` with every transform off) fetches exactly like `get_stored_frame`**:
the same raw bytes from the same place and the same index for the decoder, in memory and lazily, for every image, frame
number and convention (regenerated loop skeleton T1c against T1b) -/
theorem get_frames_fetch_eq_stored (lazy : Bool) (m l : Int → Except ErrKind (List Nat)) (n k : Int) (asIndex : Bool) :
    getFramesFetch lazy m l n k asIndex = Skel.fetch singleSkel lazy m l n k asIndex :=
  getFramesFetch_eq lazy m l n k asIndex

/-- **the loop of `_get_pixels_by_frame` (behind `get_volume` and `get_total_pixel_matrix`) fetches frame index `idx` like
`get_stored_frame(idx + 1)`**, and refuses indices outside the image -/
theorem pixels_by_frame_fetch_eq_stored (lazy : Bool) (m l : Int → Except ErrKind (List Nat)) (n idx : Int)
    (h0 : 0 ≤ idx) (h1 : idx < n) :
    pixelsSkel.fetch lazy m l n idx = Skel.fetch singleSkel lazy m l n (idx + 1) false :=
  pixelsFetch_eq lazy m l n idx h0 h1

theorem pixels_by_frame_fetch_refused (lazy : Bool) (pd : List Nat) (rows cols samples bits n idx : Int) (pi : String)
    (h : idx < 0 ∨ n ≤ idx) :
    ∃ e, pixelsSkel.fetch lazy (memRaw pd rows cols samples bits pi) (lazyRaw pd rows cols samples bits n pi) n idx = .error e :=
  pixelsFetch_refused lazy pd rows cols samples bits n idx pi h

/-- the single fetch of `Model/FrameAccess.lean` IS `Skel.fetch` followed by the decoder (so the two theorems above are
    statements about `memFrameBits` / `lazyFrameBits`) -/
theorem stored_frame_is_fetch_then_decode (pd : List Nat) (rows cols samples n k : Int) (asIndex : Bool) :
    memFrameBits pd rows cols samples n k asIndex
      = (Skel.fetch singleSkel false (memRaw pd rows cols samples 1 "MONOCHROME2") (lazyRaw pd rows cols samples 1 n "MONOCHROME2")
          n k asIndex >>= decodeFetchedBits rows cols samples) ∧
    lazyFrameBits pd rows cols samples n k asIndex
      = (Skel.fetch singleSkel true (memRaw pd rows cols samples 1 "MONOCHROME2") (lazyRaw pd rows cols samples 1 n "MONOCHROME2")
          n k asIndex >>= decodeFetchedBits rows cols samples) := by
  unfold memFrameBits lazyFrameBits Skel.frameBits Skel.fetch decodeFetchedBits
  simp only [rawLazyArg, bind, Except.bind, pure, Except.pure, Bool.false_eq_true, ↓reduceIte]
  constructor
  · cases singleSkel.index n k asIndex with
    | error e => rfl
    | ok idx =>
      simp only []
      cases singleSkel.rawArgs k asIndex idx with
      | error e => rfl
      | ok p =>
        simp only []
        cases stdFrameIndex p.1 p.2 n with
        | error e => rfl
        | ok r =>
          simp only []
          cases memRaw pd rows cols samples 1 "MONOCHROME2" r with
          | error e => rfl
          | ok raw => simp only []; cases singleSkel.decodeIndex k asIndex idx <;> rfl
  · cases singleSkel.index n k asIndex with
    | error e => rfl
    | ok idx =>
      simp only []
      cases singleSkel.rawArgs k asIndex idx with
      | error e => rfl
      | ok p =>
        simp only []
        cases stdFrameIndex p.1 p.2 n with
        | error e => rfl
        | ok r =>
          simp only []
          cases lazyRaw pd rows cols samples 1 n "MONOCHROME2" r with
          | error e => rfl
          | ok raw => simp only []; cases singleSkel.decodeIndex k asIndex idx <;> rfl

/-- once the whole array is cached, the loops hand out the same element as `get_stored_frame` does -/
theorem loop_cached_eq_stored_cached {α} (sk : LoopSkel) (hsk : sk = framesSkel ∨ sk = pixelsSkel) (frames : List α) (whole : α)
    (k : Int) (asIndex : Bool) :
    (do let idx ← stdFrameIndex k asIndex frames.length; sk.cached frames whole idx) = singleSkel.cached frames whole k asIndex :=
  loopCached_eq sk hsk frames whole k asIndex

/-- **`pixel_array` of a lazily read image** (first access; assembled from `get_stored_frame(1)` or `get_stored_frames()`,
regenerated shape T1c) **is the list of all slices in stored order** -/
theorem whole_array_lazy_is_all_slices (pd : List Nat) (rows cols : Nat) (hN : 0 < rows * cols) (n : Nat) (hn : 0 < n)
    (h : n * (rows * cols) ≤ 8 * pd.length) :
    lazyWholeBits pd rows cols 1 n = .ok ((List.range n).map (sliceBits pd (rows * cols))) :=
  lazyWhole_slices pd rows cols hN n hn h

/-- the transform object that decodes for `get_frame(s)` / `get_volume` / `get_total_pixel_matrix` feeds every parameter of
    `decode_frame` from the image attribute of the same meaning, the raw frame it was handed and the frame index it was
    handed (regenerated forwarding table T1c; the third site of the fixed defect C05-transform-bits-stored) -/
theorem transform_forwards_every_decode_parameter :
    transformDecodeArgs =
      [("bits_allocated", "image.BitsAllocated"),
       ("bits_stored", "image.get('BitsStored', image.BitsAllocated)"),
       ("columns", "image.Columns"),
       ("index", "frame_index"),
       ("photometric_interpretation", "image.PhotometricInterpretation"),
       ("pixel_representation", "image.PixelRepresentation"),
       ("planar_configuration", "image.get('PlanarConfiguration')"),
       ("rows", "image.Rows"),
       ("samples_per_pixel", "image.SamplesPerPixel"),
       ("transfer_syntax_uid", "image.file_meta.TransferSyntaxUID"),
       ("value", "frame")] := by decide


/-- **What `decode_frame` hands to pydicom** (everything but the native 1-bit branch, which is T12): a one-frame dataset whose
attributes are the parameters of the same meaning - value-preserving conversions only (`operator.index`, enum `.value`),
HighBit = BitsStored - 1, PlanarConfiguration only for colour frames, the frame's bytes as they are (native) or as the single
item of an encapsulated element.  Together with the three forwarding tables (`reader_forwards_every_decode_parameter`,
`transform_forwards_every_decode_parameter`, T1b) every access path decodes frame `i` from the same bytes with the same
description of the pixels.  (Table equality on regenerated lists: a trip-wire, changed by any edit of that glue.) -/
theorem decode_dataset_mirrors_parameters :
    decodeDatasetAttributes =
      [("file_meta", "file_meta", ""), ("Rows", "rows", ""), ("Columns", "columns", ""),
       ("SamplesPerPixel", "samples_per_pixel", ""), ("BitsAllocated", "bits_allocated", ""), ("BitsStored", "bits_stored", ""),
       ("HighBit", "bits_stored - 1", ""), ("PixelRepresentation", "pixel_representation", ""),
       ("PhotometricInterpretation", "photometric_interpretation", ""),
       ("PlanarConfiguration", "planar_configuration", "samples_per_pixel > 1"),
       ("PixelData", "encapsulate(frames=[value])", "is_encapsulated"), ("PixelData", "value", "not (is_encapsulated)")] ∧
    decodeParameterConversions =
      [("bits_allocated", ["operator.index(bits_allocated)"]), ("bits_stored", ["operator.index(bits_stored)"]),
       ("columns", ["operator.index(columns)"]), ("index", ["operator.index(index)"]),
       ("photometric_interpretation", ["PhotometricInterpretationValues(photometric_interpretation).value"]),
       ("pixel_representation", ["PixelRepresentationValues(pixel_representation).value"]),
       ("planar_configuration", ["PlanarConfigurationValues(planar_configuration).value"]),
       ("rows", ["operator.index(rows)"]), ("samples_per_pixel", ["operator.index(samples_per_pixel)"])] := by
  constructor <;> decide

/-- **Every way of fetching a stored frame of a native 1-bit image returns slice `i`** - in one statement: single fetch
in memory and lazily, by number and by index, an element of a batch, the fetch of `get_frames` and of the
`get_volume` / `get_total_pixel_matrix` loop followed by the decoder (in memory and lazily), and the element of the
lazily assembled whole array. -/
theorem every_path_is_slice (pd : List Nat) (rows cols n i : Nat) (hN : 0 < rows * cols) (hi : i < n)
    (h : n * (rows * cols) ≤ 8 * pd.length) :
    let want : Except ErrKind (List Bool) := .ok (sliceBits pd (rows * cols) i)
    let m := memRaw pd rows cols 1 1 "MONOCHROME2"
    let l := lazyRaw pd rows cols 1 1 n "MONOCHROME2"
    memFrameBits pd rows cols 1 n ((i : Int) + 1) false = want ∧
    memFrameBits pd rows cols 1 n (i : Int) true = want ∧
    lazyFrameBits pd rows cols 1 n ((i : Int) + 1) false = want ∧
    batchOneBits pd rows cols 1 n ((i : Int) + 1) false = want ∧
    (getFramesFetch false m l n ((i : Int) + 1) false >>= decodeFetchedBits rows cols 1) = want ∧
    (getFramesFetch true m l n ((i : Int) + 1) false >>= decodeFetchedBits rows cols 1) = want ∧
    (pixelsSkel.fetch false m l n (i : Int) >>= decodeFetchedBits rows cols 1) = want ∧
    (pixelsSkel.fetch true m l n (i : Int) >>= decodeFetchedBits rows cols 1) = want ∧
    (lazyWholeBits pd rows cols 1 n).map (fun fr => fr[i]?) = .ok (some (sliceBits pd (rows * cols) i)) := by
  have hle : (i + 1) * (rows * cols) ≤ 8 * pd.length := by
    have : (i + 1) * (rows * cols) ≤ n * (rows * cols) := Nat.mul_le_mul_right _ hi
    omega
  have hm := memory_frame_is_slice pd rows cols n i hi hle
  have hl := lazy_frame_is_slice pd rows cols n i hN hi hle
  have hd := stored_frame_is_fetch_then_decode pd rows cols 1 n ((i : Int) + 1) false
  simp only []
  refine ⟨hm, ?_, hl, ?_, ?_, ?_, ?_, ?_, ?_⟩
  · rw [index_eq_number]; exact hm
  · rw [batch_eq_single]; exact hm
  · rw [get_frames_fetch_eq_stored, ← hd.1]; exact hm
  · rw [get_frames_fetch_eq_stored, ← hd.2]; exact hl
  · rw [pixels_by_frame_fetch_eq_stored _ _ _ _ _ (by omega) (by omega), ← hd.1]; exact hm
  · rw [pixels_by_frame_fetch_eq_stored _ _ _ _ _ (by omega) (by omega), ← hd.2]; exact hl
  · rw [whole_array_lazy_is_all_slices pd rows cols hN n (by omega) h]
    simp [Except.map, hi]

/-- non-vacuity of the umbrella statement, of the whole-array statement and of the loop statement: three 2x3 one-bit frames in
    3 bytes (frame boundaries inside bytes) -/
example : memFrameBits [0x61, 0x0C, 0x2A] 2 3 1 3 2 false = .ok (sliceBits [0x61, 0x0C, 0x2A] (2 * 3) 1) :=
  (every_path_is_slice [0x61, 0x0C, 0x2A] 2 3 3 1 (by decide) (by decide) (by decide)).1
example : lazyWholeBits [0x61, 0x0C, 0x2A] 2 3 1 3 = .ok ((List.range 3).map (sliceBits [0x61, 0x0C, 0x2A] (2 * 3))) :=
  whole_array_lazy_is_all_slices [0x61, 0x0C, 0x2A] 2 3 (by decide) 3 (by decide) (by decide)
example : pixelsSkel.fetch true (memRaw [0x61, 0x0C, 0x2A] 2 3 1 1 "MONOCHROME2") (lazyRaw [0x61, 0x0C, 0x2A] 2 3 1 1 3 "MONOCHROME2") 3 2
    = Skel.fetch singleSkel true (memRaw [0x61, 0x0C, 0x2A] 2 3 1 1 "MONOCHROME2") (lazyRaw [0x61, 0x0C, 0x2A] 2 3 1 1 3 "MONOCHROME2") 3 (2 + 1) false :=
  pixels_by_frame_fetch_eq_stored true _ _ 3 2 (by decide) (by decide)
example : pixelsSkel.fetch true (memRaw [0x61, 0x0C, 0x2A] 2 3 1 1 "MONOCHROME2") (lazyRaw [0x61, 0x0C, 0x2A] 2 3 1 1 3 "MONOCHROME2") 3 2
    = .ok ([0x0C, 0x2A], 2) := by decide +kernel

/-- non-vacuity: three 2x3 one-bit frames in 3 bytes (frame boundaries inside bytes), frame 2 -/
example : lazyFrameBits [0x61, 0x0C, 0x2A] 2 3 1 3 2 false = .ok (sliceBits [0x61, 0x0C, 0x2A] 6 1) :=
  lazy_frame_is_slice [0x61, 0x0C, 0x2A] 2 3 3 1 (by decide) (by decide) (by decide)
example : sliceBits [0x61, 0x0C, 0x2A] 6 1 = [true, false, false, false, true, true] := by decide
example : memFrameBytes [1, 2, 3, 4, 5, 6, 7] 1 2 1 8 3 "MONOCHROME2" 2 false = .ok [3, 4] :=
  memory_bytes_is_slice [1, 2, 3, 4, 5, 6, 7] 1 2 1 8 "MONOCHROME2" (by decide) 3 1 (by decide)

/-- >= 8 bits allocated, lazily: offset table entry `i * L`, read length `L` - the slice, for ARBITRARY pixel data, as long as the
    file holds at least one byte of the frame (an empty read is an OSError) -/
theorem lazy_bytes_is_slice (pd : List Nat) (rows cols samples bits : Nat) (pi : String) (hb : bits ≠ 1) (n i : Nat) (hi : i < n)
    (hne : i * frameBytes rows cols samples bits pi < pd.length) (hpos : 0 < frameBytes rows cols samples bits pi) :
    lazyFrameBytes pd rows cols samples bits n pi ((i : Int) + 1) false
      = .ok (sliceBytes pd (frameBytes rows cols samples bits pi) i) := by
  have h1 : stdFrameIndex ((i : Int) + 1) false n = .ok (i : Int) := by
    rw [stdFrameIndex_ok_iff]; simp; omega
  have h2 : lazyIndexGuard (i : Int) n = .ok (i : Int) := by
    rw [lazyIndexGuard_ok_iff]; omega
  unfold lazyFrameBytes Skel.frameBytes Skel.index
  simp only [singleSkel, singleStdArgs, singleRawArgs, singleDecodeIndex, bind, Except.bind]
  rw [h1]
  simp only []
  unfold lazyRaw
  simp only [bind, Except.bind, h2]
  have hb' : (((bits : Int)) == 1) = false := by
    have : (bits : Int) ≠ 1 := by exact_mod_cast hb
    simpa using this
  have hbne : ¬ ((bits : Int) = 1) := by exact_mod_cast hb
  have hbpf : lazyBytesPerFrame ((rows : Int) * cols * samples) bits pi rows cols
      = .ok ((frameBytes rows cols samples bits pi : Nat) : Int) := by
    unfold lazyBytesPerFrame frameBytes
    simp only [hb', Bool.false_eq_true, ↓reduceIte, Bool.not_false, fdiv_pos _ 8 (by omega)]
    by_cases hp : pi = "YBR_FULL_422"
    · simp [hp]; congr 1; rw [Int.mul_comm]
    · have : (pi == "YBR_FULL_422") = false := by simpa using hp
      simp [hp, this]; congr 1; rw [Int.mul_comm]
  rw [hbpf]
  simp only [hbne, ↓reduceIte]
  unfold lazyOffsetByte lazyReadLength
  simp only [hb', Bool.false_eq_true, ↓reduceIte]
  generalize hL : frameBytes rows cols samples bits pi = L at *
  have e2 : (i : Int) * (L : Int) = ((i * L : Nat) : Int) := by push_cast; rfl
  have e3 : ((i * L : Nat) : Int) + (L : Int) = (((i + 1) * L : Nat) : Int) := by push_cast; ring
  rw [e2, e3, slice_nat]
  have hlen : (pySlice pd (i * L) ((i + 1) * L)).length ≠ 0 := by
    unfold pySlice
    simp only [List.length_take, List.length_drop]
    have : (i + 1) * L - i * L = L := by rw [Nat.succ_mul]; omega
    omega
  simp [hlen, sliceBytes]

/-- the single fetch for >= 8 bits is the fetch pair with the decode index dropped -/
theorem stored_bytes_is_fetch (pd : List Nat) (rows cols samples bits n : Int) (pi : String) (k : Int) (asIndex : Bool) :
    memFrameBytes pd rows cols samples bits n pi k asIndex
      = (Skel.fetch singleSkel false (memRaw pd rows cols samples bits pi) (lazyRaw pd rows cols samples bits n pi) n k asIndex).map Prod.fst ∧
    lazyFrameBytes pd rows cols samples bits n pi k asIndex
      = (Skel.fetch singleSkel true (memRaw pd rows cols samples bits pi) (lazyRaw pd rows cols samples bits n pi) n k asIndex).map Prod.fst := by
  unfold memFrameBytes lazyFrameBytes Skel.frameBytes Skel.fetch
  simp only [rawLazyArg, bind, Except.bind, pure, Except.pure, Bool.false_eq_true, ↓reduceIte, Except.map]
  constructor
  · cases singleSkel.index n k asIndex with
    | error e => rfl
    | ok idx =>
      simp only []
      cases singleSkel.rawArgs k asIndex idx with
      | error e => rfl
      | ok p =>
        simp only []
        cases stdFrameIndex p.1 p.2 n with
        | error e => rfl
        | ok r =>
          simp only []
          cases memRaw pd rows cols samples bits pi r with
          | error e => rfl
          | ok raw => simp only [singleSkel, singleDecodeIndex]
  · cases singleSkel.index n k asIndex with
    | error e => rfl
    | ok idx =>
      simp only []
      cases singleSkel.rawArgs k asIndex idx with
      | error e => rfl
      | ok p =>
        simp only []
        cases stdFrameIndex p.1 p.2 n with
        | error e => rfl
        | ok r =>
          simp only []
          cases lazyRaw pd rows cols samples bits n pi r with
          | error e => rfl
          | ok raw => simp only [singleSkel, singleDecodeIndex]

/-- **Every way of fetching the bytes of a stored frame with >= 8 bits allocated returns slice `i`** (the analogue of
`every_path_is_slice`; turning bytes into numbers is the decoder's, which every path feeds alike - pinned tables): single fetch in
memory and lazily, by number and by index, and the raw bytes fetched by `get_frames` and by the `get_volume` /
`get_total_pixel_matrix` loop, in memory and lazily. -/
theorem every_path_is_slice_bytes (pd : List Nat) (rows cols samples bits : Nat) (pi : String) (hb : bits ≠ 1) (n i : Nat) (hi : i < n)
    (hne : i * frameBytes rows cols samples bits pi < pd.length) (hpos : 0 < frameBytes rows cols samples bits pi) :
    let want : Except ErrKind (List Nat) := .ok (sliceBytes pd (frameBytes rows cols samples bits pi) i)
    let m := memRaw pd rows cols samples bits pi
    let l := lazyRaw pd rows cols samples bits n pi
    memFrameBytes pd rows cols samples bits n pi ((i : Int) + 1) false = want ∧
    lazyFrameBytes pd rows cols samples bits n pi ((i : Int) + 1) false = want ∧
    (getFramesFetch false m l n ((i : Int) + 1) false).map Prod.fst = want ∧
    (getFramesFetch true m l n ((i : Int) + 1) false).map Prod.fst = want ∧
    (pixelsSkel.fetch false m l n (i : Int)).map Prod.fst = want ∧
    (pixelsSkel.fetch true m l n (i : Int)).map Prod.fst = want := by
  have hm := memory_bytes_is_slice pd rows cols samples bits pi hb n i hi
  have hl := lazy_bytes_is_slice pd rows cols samples bits pi hb n i hi hne hpos
  have hd := stored_bytes_is_fetch pd rows cols samples bits n pi ((i : Int) + 1) false
  simp only []
  refine ⟨hm, hl, ?_, ?_, ?_, ?_⟩
  · rw [get_frames_fetch_eq_stored, ← hd.1]; exact hm
  · rw [get_frames_fetch_eq_stored, ← hd.2]; exact hl
  · rw [pixels_by_frame_fetch_eq_stored _ _ _ _ _ (by omega) (by omega), ← hd.1]; exact hm
  · rw [pixels_by_frame_fetch_eq_stored _ _ _ _ _ (by omega) (by omega), ← hd.2]; exact hl

example : lazyFrameBytes [1, 2, 3, 4, 5, 6, 7] 1 2 1 8 3 "MONOCHROME2" 2 false = .ok [3, 4] :=
  lazy_bytes_is_slice [1, 2, 3, 4, 5, 6, 7] 1 2 1 8 "MONOCHROME2" (by decide) 3 1 (by decide) (by decide) (by decide)



/-- **Native pixel data read from the FILE**: with the header of the Pixel Data element in front of the value - 8 bytes under
implicit VR, 12 under explicit VR (regenerated `nativeFirstFrameOffset`, T11f) - and anything in front of the element, the lazy
reader's read at its remembered file position returns slice `i` of the value, for >= 8 bits allocated, both VR encodings, every
photometric interpretation, frame count and frame.  (The file-level read is proved equal to the value-level `lazyRaw` whenever
offset and length are not negative: `lazy_native_file_eq`.  Tie C: stream `native-file`, the reader against the file's own bytes.) -/
theorem lazy_native_file_frame (pre value : Bytes) (implicit : Bool) (vr : Bytes) (hvr : 2 ≤ vr.length)
    (rows cols samples bits : Nat) (pi : String) (hb : bits ≠ 1) (n i : Nat) (hi : i < n)
    (hne : i * frameBytes rows cols samples bits pi < value.length) (hpos : 0 < frameBytes rows cols samples bits pi) :
    lazyRawNativeFile (pre ++ (nativeHeader implicit vr value.length ++ value)) pre.length implicit rows cols samples bits n pi i
      = .ok (sliceBytes value (frameBytes rows cols samples bits pi) i) := by
  have h1 : stdFrameIndex ((i : Int) + 1) false n = .ok (i : Int) := by
    rw [stdFrameIndex_ok_iff]; simp; omega
  have h2 : lazyIndexGuard (i : Int) n = .ok (i : Int) := by
    rw [lazyIndexGuard_ok_iff]; omega
  have hb' : (((bits : Int)) == 1) = false := by
    have : (bits : Int) ≠ 1 := by exact_mod_cast hb
    simpa using this
  have hbne : ¬ ((bits : Int) = 1) := by exact_mod_cast hb
  have hbpf : lazyBytesPerFrame ((rows : Int) * cols * samples) bits pi rows cols
      = .ok ((frameBytes rows cols samples bits pi : Nat) : Int) := by
    unfold lazyBytesPerFrame frameBytes
    simp only [hb', Bool.false_eq_true, ↓reduceIte, Bool.not_false, fdiv_pos _ 8 (by omega)]
    by_cases hp : pi = "YBR_FULL_422"
    · simp [hp]; congr 1; rw [Int.mul_comm]
    · have : (pi == "YBR_FULL_422") = false := by simpa using hp
      simp [hp, this]; congr 1; rw [Int.mul_comm]
  have hs := lazy_bytes_is_slice value rows cols samples bits pi hb n i hi hne hpos
  unfold lazyFrameBytes Skel.frameBytes Skel.index at hs
  simp only [singleSkel, singleStdArgs, singleRawArgs, bind, Except.bind, h1] at hs
  rw [← hs]
  generalize hL : frameBytes rows cols samples bits pi = L at *
  apply lazy_native_file_eq pre value implicit vr hvr rows cols samples bits n pi (i : Int) (i : Int) (L : Int)
    ((i : Int) * (L : Int)) (L : Int) h2 hbpf
  · simp only [hbne, ↓reduceIte, lazyOffsetByte]
  · simp only [lazyReadLength, hb', Bool.false_eq_true, ↓reduceIte]
  · positivity
  · omega

example : lazyRawNativeFile ([9, 9] ++ (nativeHeader false [0x4F, 0x42] 6 ++ [1, 2, 3, 4, 5, 6])) 2 false 1 2 1 8 3 "MONOCHROME2" 1
    = .ok [3, 4] := by decide +kernel

/-! ## Histories on one image object (cache empty / filled / stale after the PixelData value was replaced) -/

/-- **After ANY history the next fetch answers from the CURRENT pixel data.**  `one` = the un-cached fetch, `all` = the
decode of the whole array, with the laws that relate them (`hagree`: the whole array is the list of the single fetches;
`hidx`: 0-based = 1-based - 1; `hrej`: numbers outside the image are refused).  From any state that satisfies the cache
invariant - in particular from every state reachable from a fresh object by fetches (accepted or refused, single or
batch), whole-array accesses and replacements of the PixelData value (`run_inv`) - a fetch through either method returns
what a fresh object holding the current pixel data returns.  (The model of the cache is hand-written after pydicom's
`Dataset.pixel_array`; tie C: stream `history`.  That the cached branches use the REVALIDATING property `self.pixel_array`
is pinned by T1b / T1c.) -/
theorem fetch_after_any_history {α} (one : List Nat → Int → Bool → Except ErrKind α) (all : List Nat → Except ErrKind (List α))
    (n : Nat)
    (hagree : ∀ pd fr, all pd = .ok fr → fr.length = n ∧ ∀ i (hi : i < fr.length), one pd ((i : Int) + 1) false = .ok fr[i])
    (hidx : ∀ pd k, one pd k true = one pd (k + 1) false)
    (hrej : ∀ pd k ai, ((if ai then k else k - 1) < 0 ∨ (n : Int) ≤ (if ai then k else k - 1)) → one pd k ai = .error .index)
    (s0 : Img α) (hinv0 : Inv all s0) (ops : List Op) (sk : Skel) (hsk : sk = singleSkel ∨ sk = batchSkel)
    (k : Int) (asIndex : Bool) (fr : List α) (hdec : all (run one all n s0 ops).pd = .ok fr) :
    (fetchStep one all n sk (run one all n s0 ops) k asIndex).2 = one (run one all n s0 ops).pd k asIndex := by
  have hinv := run_inv one all n s0 ops hinv0
  generalize run one all n s0 ops = s at *
  obtain ⟨hlen, hone⟩ := hagree s.pd fr hdec
  unfold fetchStep
  cases hc : s.cache with
  | none => rfl
  | some p =>
    simp only []
    by_cases hr : (if asIndex then k else k - 1) < 0 ∨ (n : Int) ≤ (if asIndex then k else k - 1)
    · have : sk.index n k asIndex = .error .index := by
        unfold Skel.index
        rcases hsk with rfl | rfl <;>
          simp only [singleSkel, batchSkel, singleStdArgs, batchStdArgs, bind, Except.bind, frame_number_rejected k n asIndex hr]
      rw [this, hrej s.pd k asIndex hr]
    · have hr0 : 0 ≤ (if asIndex then k else k - 1) := by omega
      have hr1 : (if asIndex then k else k - 1) < (n : Int) := by omega
      obtain ⟨i, hi⟩ : ∃ i : Nat, (i : Int) = (if asIndex then k else k - 1) := ⟨(if asIndex then k else k - 1).toNat, by omega⟩
      have hin : i < fr.length := by omega
      have hk : k = if asIndex then (i : Int) else (i : Int) + 1 := by cases asIndex <;> simp at hi ⊢ <;> omega
      have hidx' : sk.index n k asIndex = .ok (i : Int) := by
        unfold Skel.index
        have : stdFrameIndex k asIndex n = .ok (i : Int) := by
          rw [stdFrameIndex_ok_iff]; omega
        rcases hsk with rfl | rfl <;>
          simp only [singleSkel, batchSkel, singleStdArgs, batchStdArgs, bind, Except.bind, this]
      rw [hidx']
      simp only []
      obtain ⟨s', hs', _, _⟩ := (revalidate_spec all s hinv).2 fr hdec
      rw [hs']
      simp only []
      have hone_k : one s.pd k asIndex = .ok fr[i] := by
        rw [hk]
        cases asIndex
        · exact hone i hin
        · simp only [↓reduceIte]; rw [hidx]; exact hone i hin
      cases fr with
      | nil => simp at hin
      | cons w rest =>
        simp only []
        have hcf := cached_frame sk hsk (w :: rest) w (by
          intro h1
          cases rest with
          | nil => rfl
          | cons _ _ => simp at h1) i hin asIndex
        rw [← hk] at hcf
        rw [hcf, hone_k]


/-- **Results are values.**  A caller who writes, in place, into a frame that an earlier fetch returned does not change the
object: the cached branch of `get_stored_frame` hands out a copy and `get_stored_frames` stacks its frames into a new array
(regenerated constants `singleCachedIsCopy`, `batchCachedIsCopy`, T1b; false before fix d078db8, where the frame was a writable
view of the cached array).  Hence `fetch_after_any_history` holds for histories that contain such writes as well. -/
theorem results_are_values {α} (one : List Nat → Int → Bool → Except ErrKind α) (all : List Nat → Except ErrKind (List α)) (n : Int)
    (s : Img α) (i : Nat) : step one all n s (.scribble i) = s := by
  simp [step, singleCachedIsCopy, batchCachedIsCopy]

/-- **... instantiated for native 1-bit images**: whatever was fetched, cached or replaced before, frame `i + 1` is
slice `i` of the pixel data the object holds NOW -/
theorem history_native_bits (rows cols n : Nat) (hN : 0 < rows * cols) (pd0 : List Nat) (ops : List Op)
    (sk : Skel) (hsk : sk = singleSkel ∨ sk = batchSkel) (i : Nat) (hi : i < n) :
    let one := fun pd k ai => memFrameBits pd rows cols 1 n k ai
    let all : List Nat → Except ErrKind (List (List Bool)) := fun pd =>
      if n * (rows * cols) ≤ 8 * pd.length then .ok ((List.range n).map (sliceBits pd (rows * cols))) else .error .value
    let s := run one all n ⟨pd0, none⟩ ops
    n * (rows * cols) ≤ 8 * s.pd.length →
      (fetchStep one all n sk s ((i : Int) + 1) false).2 = .ok (sliceBits s.pd (rows * cols) i) := by
  intro one all s hlen
  have hagree : ∀ pd fr, all pd = .ok fr → fr.length = n ∧ ∀ j (hj : j < fr.length), one pd ((j : Int) + 1) false = .ok fr[j] := by
    intro pd fr h
    simp only [all] at h
    split at h
    · rename_i hle
      injection h with h
      subst h
      refine ⟨by simp, ?_⟩
      intro j hj
      simp at hj
      have hle' : (j + 1) * (rows * cols) ≤ 8 * pd.length := by
        have : (j + 1) * (rows * cols) ≤ n * (rows * cols) := Nat.mul_le_mul_right _ hj
        omega
      simp [one, memory_frame_is_slice pd rows cols n j hj hle']
    · cases h
  have hdec : all s.pd = .ok ((List.range n).map (sliceBits s.pd (rows * cols))) := by simp [all, hlen]
  have := fetch_after_any_history one all n hagree (fun pd k => index_eq_number pd rows cols 1 n k)
    (fun pd k ai h => (memory_frame_rejected pd rows cols 1 n k ai h).1) ⟨pd0, none⟩ (by intro src fr h; cases h) ops sk hsk
    ((i : Int) + 1) false _ hdec
  rw [this]
  have hle' : (i + 1) * (rows * cols) ≤ 8 * s.pd.length := by
    have : (i + 1) * (rows * cols) ≤ n * (rows * cols) := Nat.mul_le_mul_right _ hi
    omega
  exact memory_frame_is_slice s.pd rows cols n i hi hle'


/-- 0-based indices address the same frames as 1-based numbers on the lazy path as well -/
theorem index_eq_number_lazy (pd : List Nat) (rows cols samples N k : Int) :
    lazyFrameBits pd rows cols samples N k true = lazyFrameBits pd rows cols samples N (k + 1) false := by
  unfold lazyFrameBits Skel.frameBits Skel.index
  have : stdFrameIndex k true N = stdFrameIndex (k + 1) false N := by
    unfold stdFrameIndex; grind (splits := 40)
  simp only [singleSkel, singleStdArgs, singleRawArgs, singleDecodeIndex, bind, Except.bind]
  rw [this]

/-- **... and for a lazily read native 1-bit image** (nothing replaces its pixel data; the whole array, once assembled from the
file, is kept): whatever single fetches, batches in any order, refused requests, whole-array accesses and writes into results
came before, frame `i + 1` is slice `i` of the file's pixel data (tie C: a third of the `history` stream runs on lazily read
objects, with multi-element batches) -/
theorem history_native_bits_lazy (rows cols n : Nat) (hN : 0 < rows * cols) (pd : List Nat) (ops : List Op)
    (hrep : ∀ op ∈ ops, ∀ q, op ≠ .replace q)
    (sk : Skel) (hsk : sk = singleSkel ∨ sk = batchSkel) (i : Nat) (hi : i < n) (hlen : n * (rows * cols) ≤ 8 * pd.length) :
    let one := fun pd k ai => lazyFrameBits pd rows cols 1 n k ai
    let all : List Nat → Except ErrKind (List (List Bool)) := fun pd =>
      if n * (rows * cols) ≤ 8 * pd.length then .ok ((List.range n).map (sliceBits pd (rows * cols))) else .error .value
    (fetchStep one all n sk (run one all n ⟨pd, none⟩ ops) ((i : Int) + 1) false).2 = .ok (sliceBits pd (rows * cols) i) := by
  intro one all
  have hinv0 : Inv all (⟨pd, none⟩ : Img (List Bool)) := by intro src fr h; cases h
  have hpd := run_pd one all n ⟨pd, none⟩ ops hinv0 hrep
  have hagree : ∀ pd' fr, all pd' = .ok fr → fr.length = n ∧ ∀ j (hj : j < fr.length), one pd' ((j : Int) + 1) false = .ok fr[j] := by
    intro pd' fr h
    simp only [all] at h
    split at h
    · rename_i hle
      injection h with h
      subst h
      refine ⟨by simp, ?_⟩
      intro j hj
      simp at hj
      have hle' : (j + 1) * (rows * cols) ≤ 8 * pd'.length := by
        have : (j + 1) * (rows * cols) ≤ n * (rows * cols) := Nat.mul_le_mul_right _ hj
        omega
      simp [one, lazy_frame_is_slice pd' rows cols n j hN hj hle']
    · cases h
  have hdec : all (run one all n ⟨pd, none⟩ ops).pd = .ok ((List.range n).map (sliceBits pd (rows * cols))) := by
    rw [hpd]; simp [all, hlen]
  have := fetch_after_any_history one all n hagree (fun pd' k => index_eq_number_lazy pd' rows cols 1 n k)
    (fun pd' k ai h => (memory_frame_rejected pd' rows cols 1 n k ai h).2) ⟨pd, none⟩ hinv0 ops sk hsk ((i : Int) + 1) false _ hdec
  rw [this, hpd]
  have hle' : (i + 1) * (rows * cols) ≤ 8 * pd.length := by
    have : (i + 1) * (rows * cols) ≤ n * (rows * cols) := Nat.mul_le_mul_right _ hi
    omega
  exact lazy_frame_is_slice pd rows cols n i hN hi hle'

/-- non-vacuity: fetch, cache the whole array, replace the pixel data (two 1x4 frames swapped), fetch through the batch
    method: the answer comes from the new data -/
example :
    (fetchStep (fun pd k ai => memFrameBits pd 1 4 1 2 k ai)
      (fun pd => if 2 * (1 * 4) ≤ 8 * pd.length then .ok ((List.range 2).map (sliceBits pd (1 * 4))) else .error .value) 2 batchSkel
      (run (fun pd k ai => memFrameBits pd 1 4 1 2 k ai)
        (fun pd => if 2 * (1 * 4) ≤ 8 * pd.length then .ok ((List.range 2).map (sliceBits pd (1 * 4))) else .error .value) 2
        ⟨[0xA5], none⟩ [.fetch 1 false, .whole, .scribble 0, .fetch 7 false, .replace [0x5A]]) 1 false).2
      = .ok (sliceBits [0x5A] 4 0) :=
  history_native_bits 1 4 2 (by decide) [0xA5] [.fetch 1 false, .whole, .scribble 0, .fetch 7 false, .replace [0x5A]] batchSkel (Or.inr rfl) 0
    (by decide) (by decide)


/-- **The file behind a lazily read image is open for every read and closed again after every call** - for ANY sequence
of calls (single fetches, batch reads of any length, whether the batch reads go through `get_raw_frame` - a nested `with
reader:` - or straight to the reader): every read finds the file open, and between two calls the reader is back in its rest
state (nothing entered; the file closed iff the reader was given a path and owns the file).  REGENERATED: what `__enter__` /
`__exit__` do with the depth counter and the file (T11g).  HAND-WRITTEN: that `get_raw_frame` wraps its one read and the batch
methods their loop in `with reader:` (`LazyCall.ops`) - dropping a `with` in the source leaves this theorem true; that half is tied
by the L2 `reader-calls` comparison (depth / open flag / reads after real call sequences).  By induction over the calls.  (Tie C: images opened from a path are read in every order,
after refused requests and in batches.) -/
theorem reader_reopens_for_every_call (shouldClose : Bool) (calls : List LazyCall) :
    runCalls shouldClose calls = (restState shouldClose, List.replicate (calls.map LazyCall.reads).sum true) :=
  runCalls_spec shouldClose calls

/-- non-vacuity: a path reader - single fetch, batch of three through get_raw_frame, batch of two straight from the reader -/
example : runCalls true [.single, .batch 3 true, .batch 2 false] = (⟨0, false⟩, [true, true, true, true, true, true]) := by decide

/-! ## Encapsulated pixel data: offset tables and the fragment walk of the lazy reader -/

/-- The table `_build_bot` constructs for one-fragment-per-frame streams (RLE, …) lists the byte
offset of every frame — whether or not some fragments happen to begin with marker bytes. -/
theorem bot_single_fragment (frames : List (List Frag)) (hw : WellFormed frames.flatten)
    (h1 : ∀ fr ∈ frames, ∃ f, fr = [f]) :
    buildBot frames.flatten frames.length = .ok (frameOffsetsFrom 0 frames) := by
  unfold buildBot
  rw [botLoop_spec _ hw]
  simp only [bind, Except.bind, List.nil_append]
  have hlen : frames.flatten.length = frames.length := by
    clear hw
    induction frames with
    | nil => rfl
    | cons fr frs ih =>
      obtain ⟨f, rfl⟩ := h1 fr (by simp)
      simp [ih (fun g hg => h1 g (by simp [hg]))]
  by_cases hm : (markedFrom 0 frames.flatten).length = frames.length
  · simp only [hm, ↓reduceIte]
    rw [marked_eq_offsets_of_length 0 _ (by rw [hm, hlen]), offsets_singletons 0 frames h1]
  · simp only [hm, ↓reduceIte, offsetsFrom_length, hlen]
    rw [offsets_singletons 0 frames h1]

/-- For marker-delimited frames (JPEG, JPEG-LS, JPEG 2000; any number of fragments per frame) the
table lists the offset of the first fragment of every frame. -/
theorem bot_marker_delimited (frames : List (List Frag)) (hw : WellFormed frames.flatten)
    (hm : MarkerDelimited frames) :
    buildBot frames.flatten frames.length = .ok (frameOffsetsFrom 0 frames) := by
  unfold buildBot
  rw [botLoop_spec _ hw]
  simp only [bind, Except.bind, List.nil_append]
  rw [marked_frames 0 frames hm]
  simp [frameOffsetsFrom_length]

/-- **Fragment walk**: with the table of frame offsets, `read_frame_raw i` returns the concatenation
of exactly the fragments of frame `i` — for every frame, every fragmentation, last frame included. -/
theorem read_frame_fragments (frames : List (List Frag))
    (hne : ∀ fr ∈ frames, fr.flatten ≠ []) (i : Nat) (hi : i < frames.length) :
    readFrameRaw frames.flatten (frameOffsetsFrom 0 frames) i = .ok frames[i].flatten := by
  unfold readFrameRaw
  rw [frameOffsets_getElem 0 frames i hi]
  simp only [Nat.zero_add]
  have hsplit : frames.flatten = (frames.take i).flatten ++ (frames[i] ++ (frames.drop (i + 1)).flatten) := by
    conv => lhs; rw [← List.take_append_drop i frames]
    rw [List.flatten_append, List.drop_eq_getElem_cons hi, List.flatten_cons]
  have hseek : seekFrag frames.flatten 0 (streamSize (frames.take i).flatten)
      = .ok (frames[i] ++ (frames.drop (i + 1)).flatten) := by
    have := seekFrag_ok (frames.take i).flatten (frames[i] ++ (frames.drop (i + 1)).flatten) 0
    rw [← hsplit] at this
    simpa using this
  have hdata : frames[i].flatten.length ≠ 0 := by
    intro h0; exact hne _ (List.getElem_mem hi) (List.length_eq_zero_iff.mp h0)
  by_cases hlast : i + 1 < frames.length
  · rw [frameOffsets_getElem 0 frames (i + 1) hlast]
    simp only [Nat.zero_add, bind, Except.bind, hseek]
    have e : ((streamSize (frames.take (i + 1)).flatten : Nat) : Int) - (streamSize (frames.take i).flatten : Nat)
        = ((0 + streamSize frames[i] : Nat) : Int) := by
      rw [List.take_succ_eq_append_getElem hi, List.flatten_append, streamSize_append]
      simp
    rw [e]
    have hr := readLoop_exact frames[i] (frames.drop (i + 1)).flatten 0 [] trivial
    rcases hr with h | ⟨hnil, _⟩
    · simp only [Int.natCast_zero] at h
      rw [h]
      simpa using hdata
    · exfalso; rw [hnil] at hdata; simp at hdata
  · have hnone : (frameOffsetsFrom 0 frames)[i + 1]? = none := by
      rw [List.getElem?_eq_none]; rw [frameOffsetsFrom_length]; omega
    simp only [hnone, bind, Except.bind, hseek]
    have hd : frames.drop (i + 1) = [] := by
      rw [List.drop_eq_nil_iff]; omega
    rw [hd, List.flatten_nil, List.append_nil, readLoop_all _ 0 (by omega)]
    simpa using hdata

/-- Stored vs rebuilt Basic Offset Table: ANY stored table whose length is not the number of frames (empty, or per
fragment) is rebuilt from the fragments; a stored table that already lists the frame offsets is used as it is; both ways
the reader works with the frame offsets.  (A stored table of the right length but wrong content is trusted — `getBot`
does not and cannot check it; the Extended Offset Table path `_read_eot` is a length check on a decoded list and is
carried by the correspondence only.) -/
theorem stored_or_rebuilt_table (frames : List (List Frag)) (stored : List Nat)
    (hw : WellFormed frames.flatten) (hm : MarkerDelimited frames ∨ ∀ fr ∈ frames, ∃ f, fr = [f])
    (hs : stored.length ≠ frames.length ∨ stored = frameOffsetsFrom 0 frames) :
    getBot stored frames.flatten frames.length = .ok (frameOffsetsFrom 0 frames) := by
  unfold getBot
  rcases hs with h | rfl
  · simp only [h, ne_eq, not_false_eq_true, ↓reduceIte]
    rcases hm with hm | h1
    · exact bot_marker_delimited frames hw hm
    · exact bot_single_fragment frames hw h1
  · simp [frameOffsetsFrom_length]

/-- non-vacuity: two frames, the first in two fragments, JPEG-style markers -/
example : readFrameRaw [[0xFF,0xD8,1,2],[3,4],[0xFF,0xD8,5,6]] (frameOffsetsFrom 0 [[[0xFF,0xD8,1,2],[3,4]],[[0xFF,0xD8,5,6]]]) 0
    = .ok [0xFF,0xD8,1,2,3,4] :=
  read_frame_fragments [[[0xFF,0xD8,1,2],[3,4]],[[0xFF,0xD8,5,6]]] (by simp) 0 (by simp)
example : buildBot [[0xFF,0xD8,1,2],[3,4],[0xFF,0xD8,5,6]] 2 = .ok [0, 22] := by decide

/-! more non-vacuity: the lazy path on unaligned frames; a batch; the cached path -/
example : lazyFrameBits (pack [[true,false,false,false,false,true],[true,true,false,false,false,false],
    [false,true,false,true,false,true]].flatten) 2 3 1 3 3 false = .ok [false,true,false,true,false,true] :=
  lazy_frame_bits_eq [[true,false,false,false,false,true],[true,true,false,false,false,false],
    [false,true,false,true,false,true]] 2 3 (by decide) (by simp) 2 (by simp)
example : memFramesBits (pack [[true,false,false],[false,true,true]].flatten) 1 3 1 2 (some [1, 0, 1]) true
    = .ok [[false,true,true],[true,false,false],[false,true,true]] := by decide +kernel
example : memFramesBits (pack [[true,false,false],[false,true,true]].flatten) 1 3 1 2 none false
    = .ok [[true,false,false],[false,true,true]] := by decide +kernel
example : batchSkel.cached [10, 20, 30] 0 2 true = .ok 30 := cached_frame batchSkel (Or.inr rfl) [10,20,30] 0 (by simp) 2 (by simp) true
example : singleSkel.cached [10, 20, 30] 0 (-1) true = .error .index :=
  cached_frame_rejected singleSkel (Or.inl rfl) [10,20,30] 0 (-1) true (by simp)
example : getBot [0, 12, 18] [[0xFF,0xD8,1,2],[3,4],[0xFF,0xD8,5,6]] 2 = .ok [0, 22] :=
  stored_or_rebuilt_table [[[0xFF,0xD8,1,2],[3,4]],[[0xFF,0xD8,5,6]]] [0,12,18] (by simp [WellFormed]) (Or.inl (by simp [MarkerDelimited, isStart])) (Or.inl (by simp))


/-! ## Encapsulated pixel data as BYTES: the lazy reader on the file itself (`Model/EncapBytes.lean`)

The theorems above speak about lists of fragments.  The reader works on bytes: it reads item tags and lengths with
`fp.read_tag()` / `fp.read_UL()`, parses the Basic Offset Table item or decodes the Extended Offset Table, seeks and walks.
`Model/EncapBytes.lean` models exactly that over a byte string (step arithmetic = regenerated T11d, table choice / first
frame position / seek = regenerated T11f), `Proofs/EncapBytes.lean` proves by induction over the items that on the PS3.5
A.4 encoding of ANY fragment list the byte-level loops are the fragment-level ones.  Tie C: the byte-level model is run
on the actual file bytes of generated and synthetic images, well-formed and malformed (stream `bytes`). -/

/-- what a well-formed encapsulated stream is: item lengths even, non-zero and below 2^32; at least one frame; frames
    either marker-delimited (JPEG family, any fragmentation) or one fragment each (RLE, ...) -/
structure EncStream (frames : List (List Frag)) : Prop where
  wf : WellFormed frames.flatten
  small : ∀ f ∈ frames.flatten, f.length < 4294967296
  shape : MarkerDelimited frames ∨ ∀ fr ∈ frames, ∃ f, fr = [f]
  nonempty : frames ≠ []

theorem EncStream.frame_data_ne {frames : List (List Frag)} (h : EncStream frames) : ∀ fr ∈ frames, fr.flatten ≠ [] := by
  intro fr hfr
  obtain ⟨f, rest, rfl⟩ : ∃ f rest, fr = f :: rest := by
    rcases h.shape with hm | h1
    · obtain ⟨f, rest, e, _⟩ := hm fr hfr; exact ⟨f, rest, e⟩
    · obtain ⟨f, e⟩ := h1 fr hfr; exact ⟨f, [], e⟩
  have hf : f ∈ frames.flatten := List.mem_flatten.mpr ⟨_, hfr, by simp⟩
  have hne := (h.wf f hf).2
  intro h0
  have h1 : f ++ rest.flatten = [] := by simpa using h0
  have h2 : f = [] := (List.append_eq_nil_iff.mp h1).1
  exact hne (by simp [h2])

theorem EncStream.flatten_ne {frames : List (List Frag)} (h : EncStream frames) : frames.flatten ≠ [] := by
  obtain ⟨fr, frs, rfl⟩ : ∃ fr frs, frames = fr :: frs := by
    cases frames with
    | nil => exact absurd rfl h.nonempty
    | cons a b => exact ⟨a, b, rfl⟩
  have := h.frame_data_ne fr (by simp)
  intro h0
  apply this
  have : fr ++ frs.flatten = [] := by simpa using h0
  simp [List.append_eq_nil_iff.mp this]

/-- the table entry of frame `i` is an item boundary of the stream (so the byte-level walk starts on an item tag) -/
theorem frame_offset_is_boundary (frames : List (List Frag)) (i : Nat) (hi : i < frames.length) :
    (frameOffsetsFrom 0 frames)[i]? = some (streamSize (frames.take i).flatten) ∧
    seekFrag frames.flatten 0 (streamSize (frames.take i).flatten) = .ok (frames[i] ++ (frames.drop (i + 1)).flatten) := by
  constructor
  · have := frameOffsets_getElem 0 frames i hi
    simpa using this
  · have hsplit : frames.flatten = (frames.take i).flatten ++ (frames[i] ++ (frames.drop (i + 1)).flatten) := by
      conv => lhs; rw [← List.take_append_drop i frames]
      rw [List.flatten_append, List.drop_eq_getElem_cons hi, List.flatten_cons]
    have := seekFrag_ok (frames.take i).flatten (frames[i] ++ (frames.drop (i + 1)).flatten) 0
    rw [← hsplit] at this
    simpa using this

/-- **Raw frame `i` read from the BYTES of the file, Basic Offset Table present / empty / of the wrong length**: for
every well-formed stream - any number of frames, any fragmentation of marker-delimited frames, whatever follows the
sequence delimiter in the file - the lazy reader (table parsed or rebuilt, index guard, seek, item walk) returns exactly
the concatenated fragments of frame `i`. -/
theorem lazy_encapsulated_frame_bot (frames : List (List Frag)) (h : EncStream frames) (stored : List Nat) (rest : Bytes)
    (hs : stored.length ≠ frames.length ∨ stored = frameOffsetsFrom 0 frames)
    (hn : 4 * stored.length < 4294967296) (hsm : ∀ e ∈ stored, e < 4294967296)
    (i : Nat) (hi : i < frames.length) :
    lazyRawEnc (encBot stored ++ (encItems frames.flatten ++ (delimiter ++ rest))) none frames.length i
      = .ok frames[i].flatten := by
  have hbot := stored_or_rebuilt_table frames stored h.wf h.shape hs
  have hg : lazyIndexGuard (i : Int) frames.length = .ok (i : Int) := by
    rw [lazyIndexGuard_ok_iff]; omega
  obtain ⟨ht, hseek⟩ := frame_offset_is_boundary frames i hi
  unfold lazyRawEnc openEncapsulated
  simp only [bind, Except.bind, getBotB_stream stored frames.flatten h.flatten_ne rest frames.length h.small hn hsm, hbot,
    tableLengthCheck, frameOffsetsFrom_length, bne_self_eq_false, Bool.false_eq_true, ↓reduceIte, Bool.not_false, hg,
    Int.toNat_natCast]
  rw [show (8 + 4 * stored.length) = (encBot stored).length from (encBot_length stored).symm, List.drop_left,
    readFrameRawB_stream frames.flatten h.small rest _ i _ _ ht hseek]
  exact read_frame_fragments frames h.frame_data_ne i hi

/-- **... and with an Extended Offset Table** (64-bit entries in the ExtendedOffsetTable attribute, Basic Offset Table
item present but empty as PS3.5 A.4 demands): the table is taken from the attribute, the first frame is found 8 bytes
into the element value, and the same fragments come out. -/
theorem lazy_encapsulated_frame_eot (frames : List (List Frag)) (h : EncStream frames) (rest : Bytes)
    (hbig : ∀ e ∈ frameOffsetsFrom 0 frames, e < 18446744073709551616)
    (i : Nat) (hi : i < frames.length) :
    lazyRawEnc (encBot [] ++ (encItems frames.flatten ++ (delimiter ++ rest)))
        (some (encEot (frameOffsetsFrom 0 frames))) frames.length i
      = .ok frames[i].flatten := by
  have hg : lazyIndexGuard (i : Int) frames.length = .ok (i : Int) := by
    rw [lazyIndexGuard_ok_iff]; omega
  obtain ⟨ht, hseek⟩ := frame_offset_is_boundary frames i hi
  unfold lazyRawEnc openEncapsulated
  simp only [bind, Except.bind, pure, Except.pure, readEot_enc _ _ hbig, frameOffsetsFrom_length, ↓reduceIte, eotFirstFrameOffset,
    tableLengthCheck, bne_self_eq_false, Bool.false_eq_true, Bool.not_false, hg, Int.toNat_natCast]
  have h8 : ((0 : Int) + 20 - 12).toNat = (encBot []).length := by decide
  rw [h8, List.drop_left, readFrameRawB_stream frames.flatten h.small rest _ i _ _ ht hseek]
  exact read_frame_fragments frames h.frame_data_ne i hi

/-- frame indices outside the image are refused by the byte-level reader too, whatever the file holds -/
theorem lazy_encapsulated_index_refused (pd : Bytes) (eot : Option Bytes) (n : Nat) (index : Int)
    (h : index < 0 ∨ (n : Int) ≤ index) : ∃ e, lazyRawEnc pd eot n index = .error e := by
  unfold lazyRawEnc
  cases openEncapsulated pd eot n with
  | error e => exact ⟨e, rfl⟩
  | ok r =>
    simp only [bind, Except.bind, lazy_index_rejected index n h]
    exact ⟨_, rfl⟩

/-- **Malformed streams are refused when the table has to be built**: a fragment stream that ends without a sequence
delimiter (truncated file) or continues with bytes that are neither an item nor the delimiter is refused by the table
construction, for every fragment list and every claimed number of frames. -/
theorem build_bot_refuses_undelimited (fs : List Frag) (hlen : ∀ f ∈ fs, f.length < 4294967296) (tail : Bytes) (n : Nat)
    (hbad : readAt tail 0 4 ≠ itemTag ∧ readAt tail 0 4 ≠ delimTag) :
    ∃ e, buildBotB (encItems fs ++ tail) n = .error e := by
  unfold buildBotB
  have hf : fs.length < (encItems fs ++ tail).length + 1 := by
    have := length_le_streamSize fs
    simp [encItems_length]; omega
  obtain ⟨e, he⟩ := botLoopB_refuses_bad_tail fs hlen [] tail _ ([], []) hf hbad
  simp only [List.nil_append, List.length_nil] at he
  refine ⟨e, ?_⟩
  simp only [bind, Except.bind]
  rw [he]

/-- **What `_build_bot` accepts** (the refusals are the complement): on the bytes of a delimited stream the table is
built iff every item length is even and non-zero and either exactly `n` fragments start with a JPEG / JPEG 2000 start
marker (table = their offsets) or, failing that, there are exactly `n` fragments (table = all offsets). -/
theorem build_bot_accepts_iff (fs : List Frag) (hlen : ∀ f ∈ fs, f.length < 4294967296) (rest : Bytes) (n : Nat) (t : List Nat) :
    buildBotB (encItems fs ++ (delimiter ++ rest)) n = .ok t ↔
      WellFormed fs ∧
        (((markedFrom 0 fs).length = n ∧ t = markedFrom 0 fs) ∨
         ((markedFrom 0 fs).length ≠ n ∧ fs.length = n ∧ t = offsetsFrom 0 fs)) := by
  rw [buildBotB_stream fs hlen rest n]
  exact buildBot_ok_iff fs n t

/-- non-vacuity: two frames, the first in two fragments, JPEG markers, nothing / an empty / a stale per-fragment table
    stored; trailing bytes after the delimiter -/
example : EncStream [[[0xFF,0xD8,1,2],[3,4]],[[0xFF,0xD8,5,6]]] :=
  ⟨by simp [WellFormed], by simp, Or.inl (by simp [MarkerDelimited, isStart]), by simp⟩
example : lazyRawEnc (encBot [] ++ (encItems [[0xFF,0xD8,1,2],[3,4],[0xFF,0xD8,5,6]] ++ (delimiter ++ [9, 9]))) none 2 0
    = .ok [0xFF,0xD8,1,2,3,4] :=
  lazy_encapsulated_frame_bot [[[0xFF,0xD8,1,2],[3,4]],[[0xFF,0xD8,5,6]]]
    ⟨by simp [WellFormed], by simp, Or.inl (by simp [MarkerDelimited, isStart]), by simp⟩ [] [9, 9] (Or.inl (by simp)) (by simp) (by simp) 0 (by simp)
example : lazyRawEnc (encBot [] ++ (encItems [[0xFF,0xD8,1,2],[3,4],[0xFF,0xD8,5,6]] ++ (delimiter ++ []))) (some (encEot [0, 22])) 2 1
    = .ok [0xFF,0xD8,5,6] := by decide +kernel
example : lazyRawEnc (encBot [] ++ (encItems [[0xFF,0xD8,1,2],[3,4],[0xFF,0xD8,5,6]] ++ (delimiter ++ []))) (some (encEot [0, 22])) 2 1
    = .ok [0xFF,0xD8,5,6] :=
  lazy_encapsulated_frame_eot [[[0xFF,0xD8,1,2],[3,4]],[[0xFF,0xD8,5,6]]]
    ⟨by simp [WellFormed], by simp, Or.inl (by simp [MarkerDelimited, isStart]), by simp⟩ [] (by decide) 1 (by simp)
example : buildBotB (encItems [[1,2],[3,4]] ++ (delimiter ++ [7])) 2 = .ok [0, 10] :=
  (build_bot_accepts_iff [[1,2],[3,4]] (by simp) [7] 2 [0, 10]).mpr ⟨by simp [WellFormed], Or.inr (by decide)⟩
example : ∃ e, buildBotB (encItems [[1,2],[3,4]] ++ []) 2 = .error e :=
  build_bot_refuses_undelimited [[1,2],[3,4]] (by simp) [] 2 (by decide)
example : lazyRawEnc (encBot [] ++ (encItems [[1,2,3]] ++ delimiter)) none 1 0 = .error .other := by decide +kernel

/-! ### The encapsulated bookkeeping is the source's (tie T, target T11d)

The theorems above (`bot_*`, `read_frame_fragments`, `stored_or_rebuilt_table`) speak about the hand-written loops of
`Model/Offsets.lean`.  The four statements below tie those loops to `io.py` as it is now: each side condition, offset,
increment and choice in them is the expression regenerated from the current source (`Generated/T11d.lean`). -/

/-- every iteration of the `_build_bot` loop of the model refuses, records and advances exactly as the regenerated
    expressions of the source say (`_START_MARKERS`, `length % 2`, `length == 0`, `frame_position - initial_position`,
    4 + 4 + 2 + `fp.seek(length - 2, 1)`) -/
theorem bot_loop_is_the_source_loop (f : Frag) (fs : List Frag) (pos : Nat) (acc : List Nat × List Nat) :
    botLoop (f :: fs) pos acc =
      (match botStepGen f pos acc with
       | .ok (p, a) => botLoop fs p a
       | .error e => .error e) := botLoop_cons f fs pos acc

/-- the table `_build_bot` returns is chosen by the regenerated test (frame offsets first, then fragment offsets,
    otherwise ValueError) -/
theorem bot_choice_is_the_source_choice (fs : List Frag) (n : Nat) :
    buildBot fs n =
      (match botLoop fs 0 ([], []) with
       | .error e => .error e
       | .ok (frag, frm) =>
         match botChoice frm.length frag.length n with
         | .ok 0 => .ok frm
         | .ok _ => .ok frag
         | .error e => .error e) := buildBot_choice fs n

/-- the fragment walk of `read_frame_raw` stops and advances by the regenerated expressions (`n == stop_at` tested
    before the fragment is taken, `n += 4 + 4 + length`) -/
theorem read_loop_is_the_source_loop (f : Frag) (fs : List Frag) (n stopAt : Int) (acc : List Frag) :
    readLoop (f :: fs) n stopAt acc =
      if n = stopAt then acc
      else match readAdvance n f.length with
        | .ok n' => readLoop fs n' stopAt (acc ++ [f])
        | .error _ => acc := readLoop_cons f fs n stopAt acc

/-- `stop_at` is the regenerated `offset_table[index + 1] - frame_offset`, `-1` for the last frame, and the count starts
    at the regenerated value -/
theorem read_stop_is_the_source_stop (fs : List Frag) (table : List Nat) (i off : Nat) (h : table[i]? = some off) :
    readFrameRaw fs table i =
      (match readNextEntry i, readStart with
       | .ok j, .ok n0 =>
         let stopAt : Except ErrKind Int := match table[j.toNat]? with
           | some nxt => readStopAt nxt off
           | none => readStopAtLast
         match stopAt with
         | .ok s => (do
             let rest ← seekFrag fs 0 off
             let data := (readLoop rest n0 s []).flatten
             if data.length = 0 then .error .other else .ok data)
         | .error e => .error e
       | _, _ => .error .other) := readFrameRaw_stop fs table i off h

/-- non-vacuity: a JPEG-marked two-fragment stream through the regenerated step -/
example : botStepGen [0xFF, 0xD8, 1, 2] 0 ([], []) = .ok (12, ([0], [0])) := by decide
example : botStepGen [1, 2, 3] 0 ([], []) = .error .other := by decide


/-- the file reader decodes a frame with the image's own parameters: every parameter of `decode_frame` is handed the
    metadata attribute of the same meaning, the data are `read_frame_raw` of the same index, and the planar configuration
    is forwarded when present (regenerated forwarding table T11e; dropping or redirecting an argument — e.g. the planar
    configuration, seeded R4C05-2 — changes the table) -/
theorem reader_forwards_every_decode_parameter :
    readerDecodeArgs =
      [("value", "self.read_frame_raw(index)"),
       ("bits_allocated", "self.metadata.BitsAllocated"),
       ("bits_stored", "self.metadata.BitsStored"),
       ("columns", "self.metadata.Columns"),
       ("index", "index"),
       ("photometric_interpretation", "self.metadata.PhotometricInterpretation"),
       ("pixel_representation", "self.metadata.PixelRepresentation"),
       ("planar_configuration", "getattr(self.metadata, 'PlanarConfiguration', None)"),
       ("rows", "self.metadata.Rows"),
       ("samples_per_pixel", "self.metadata.SamplesPerPixel"),
       ("transfer_syntax_uid", "self.transfer_syntax_uid")] := by decide


end HdVerif.C05
