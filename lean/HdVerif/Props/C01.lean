import HdVerif.Proofs.SegTilesTie
import HdVerif.Proofs.SegTilesCast
import HdVerif.Generated.T21
import HdVerif.Generated.T26
/-! # C01  Segmentation masks survive encode, write and read unchanged

Property theorems only (helper lemmas: `Proofs/SegEncode.lean`, `Proofs/SegCast.lean`, `Proofs/SegRoundtrip.lean`,
`Proofs/Bits.lean`, `Proofs/FrameAccess.lean`).
The model is `Model/SegEncode.lean`; the frame-loop guard, the carry arithmetic, the flush test, the trailing
pad and the admission test on `max_fractional_value` are the definitions *regenerated from seg/sop.py on every
run* (`Gen.segPackGuard`, `segCarryTake`, `segFlushGuard`, `segPadGuard`, `segPadByte`, `segMfvGuard`; T20), the
read side uses the regenerated `stdFrameIndex`, `rawFrameRange`, `bitSlice` (T1, T4, T12). -/
namespace HdVerif.C01
open HdVerif HdVerif.Bits HdVerif.Gen HdVerif.FrameAccess HdVerif.SegEncode HdVerif.SegEncodeLemmas

/-- (1) Bit packing loses nothing: unpacking the packed bits gives the bits back, followed by fewer than
8 zero padding bits up to the byte boundary. -/
theorem unpack_pack (bs : List Bool) :
    ∃ pad, unpack (pack bs) = bs ++ List.replicate pad false ∧ pad < 8 ∧ (bs.length + pad) % 8 = 0 :=
  Bits.unpack_pack bs

/-- (2) **Bits carried from one BINARY frame to the next.**  The native branch of the frame loop exactly as
the source has it now -- translated guard, translated `n_pixels_to_take`, translated flush test -- emits, for
every frame size `rows*cols` (divisible by 8 or not, smaller than 8 or not) and every number of frames, the
packing of the concatenated frames. -/
theorem packLoop_eq_pack_flatten (rows cols : Nat) (frames : List (List Bool))
    (hlen : ∀ f ∈ frames, f.length = rows * cols) :
    nativeBits rows cols frames = .ok (pack frames.flatten) :=
  nativeBits_spec rows cols frames hlen

/-- (2') the guard the source has now carries bits over exactly when a frame is not a whole number of bytes -/
theorem carry_guard_iff (rows cols : Nat) :
    segPackGuard "BINARY" rows cols = .ok (decide ((rows * cols) % 8 ≠ 0)) :=
  segPackGuard_binary rows cols

/-- (3) **Frame extraction, 1 bit**: from the bytes the loop produced (whatever trailing pad follows) the
translated `get_raw_frame` byte range and `decode_frame` bit slice recover frame `i`, for all frame sizes,
frame counts and `i`. -/
theorem frame_extract (rows cols : Nat) (hn : 0 < rows * cols) (frames : List (List Bool))
    (hlen : ∀ f ∈ frames, f.length = rows * cols) (i : Nat) (hi : i < frames.length)
    (bytes : List Nat) (hb : nativeBits rows cols frames = .ok bytes) (pad : List Nat) :
    memFrameBits (bytes ++ pad) rows cols 1 frames.length ((i : Int) + 1) false = .ok frames[i] := by
  rw [nativeBits_spec rows cols frames hlen] at hb
  cases hb
  exact memFrameBits_append frames rows cols hn hlen i hi pad

/-- (3') **Frame extraction, 8 and 16 bit** (FRACTIONAL, LABELMAP): the byte range of frame `i`, decoded
little-endian, is frame `i`. -/
theorem frame_extract_bytes (rows cols bits : Nat) (hb : bits = 8 ∨ bits = 16) (frames : List (List Nat))
    (hlen : ∀ f ∈ frames, f.length = rows * cols) (hr : ∀ f ∈ frames, ∀ v ∈ f, v < 2 ^ bits)
    (i : Nat) (hi : i < frames.length) (pad : List Nat) :
    (memFrameBytes ((frames.flatMap fun f => f.flatMap (leBytes bits)) ++ pad) rows cols 1 bits frames.length
        "MONOCHROME2" ((i : Int) + 1) false).map (unLe bits) = .ok frames[i] := by
  have hflat : (frames.flatMap fun f => f.flatMap (leBytes bits)) = (frames.map fun f => f.flatMap (leBytes bits)).flatten := by
    rw [List.flatMap_def]
  have hlenb : ∀ f ∈ frames.map (fun f => f.flatMap (leBytes bits)), f.length = bits * (rows * cols * 1) / 8 := by
    intro f hf
    obtain ⟨g, hg, rfl⟩ := List.mem_map.mp hf
    rw [leBytes_flat_length _ hb, hlen g hg]
  have hN : ((frames.length : Nat) : Int) = (((frames.map fun f => f.flatMap (leBytes bits)).length : Nat) : Int) := by simp
  rw [hflat, hN, memFrameBytes_append _ _ _ _ (by omega) hlenb i (by simpa using hi)]
  simp only [Except.map, List.getElem_map]
  congr 1
  have hr' := hr frames[i] (List.getElem_mem hi)
  rcases hb with rfl | rfl
  · exact unLe_leBytes8 _ (by simpa using hr')
  · exact unLe_leBytes16 _ (by simpa using hr')

/-- (3'') **Whatever the transport** -- native 1/8/16 bit with the trailing pad as written, or an
encapsulated syntax with a lossless codec -- `get_stored_frame(i+1)` of the object is the `i`-th frame that was
encoded. -/
theorem stored_frame_is_encoded_frame (codec : Option Codec)
    (hcodec : ∀ c, codec = some c → ∀ x, c.dec (c.enc x) = x)
    (o : SegObj) (F : List (List Nat)) (hbits : o.bits = 1 ∨ o.bits = 8 ∨ o.bits = 16)
    (hn : 0 < o.rows * o.cols) (hlen : ∀ f ∈ F, f.length = o.rows * o.cols)
    (hrange : ∀ f ∈ F, ∀ v ∈ f, v < 2 ^ o.bits) (hk : o.keys.length = F.length)
    (hpd : encodePixelData codec o.rows o.cols o.bits F = .ok o.pd) (i : Nat) (hi : i < F.length) :
    readFrame codec o i = .ok F[i] :=
  readFrame_spec codec hcodec o F hbits hn hlen hrange hk hpd i hi

/-- (4) **Stored frames are exactly the comprehension** `[(s, p, pixels s p) | s ← segments, p ← visited planes,
kept]` in loop order: segments outer (a single pass for LABELMAP), planes in `plane_sort_index` order with the
globally empty planes removed when `omit_empty_frames` (unless every plane is empty), and a frame dropped iff it
belongs to a single segment, empty frames are omitted and it is all zero. -/
theorem storedFrames_spec (arr : Mask) (segs : List Nat) (t : SegType) (mfv : Nat) (omt : Bool) (order : List Nat)
    (hcell : ∀ c ∈ cells t segs (planOrder arr mfv omt order).2, ∃ px, cellE arr segs t mfv c.1 c.2 = .ok px) :
    storedFrames arr segs t mfv omt order =
      .ok ((cells t segs (planOrder arr mfv omt order).2).filterMap
            (cellFrame arr segs t mfv (planOrder arr mfv omt order).1)) :=
  storedFrames_eq arr segs t mfv omt order hcell

/-- (5) **What is stored per segment** (`_get_segment_pixel_array` on the array `_check_and_cast_pixel_array`
returns), for every segmentation type, layout and dtype class: for a mask the constructor accepts, the pixels the
loop stores for the `j`-th described segment in plane `p` -- for LABELMAP: the one-hot expansion of the stored label
plane -- are the property's expectation computed from the *user's* mask (`expectedPlane`): the indicator of the
segment (times `max_fractional_value` for FRACTIONAL) for bool/integer input, `round_half_even(q * mfv)` for
fractional input. -/
theorem segPlane_spec (segs : List Nat) (t : SegType) (mfv n : Nat) (m arr : Mask) (ov : Overlap)
    (hsegs : checkSegs t segs = .ok ()) (hcast : castMask segs t m = .ok (arr, ov))
    (hsz : ∀ sz ∈ m.planeSizes, sz = n) (hmfv : t = .fractional → mfv ≤ 255)
    (bits : Nat) (hbits : bitsFor t segs = .ok bits)
    (j : Nat) (hj : j < segs.length) (p : Nat) (mpl : Plane) (hmp : m.plane? p = some mpl) :
    ∃ e, expectedPlane t mfv j segs[j] mpl = some e ∧
      (t ≠ .labelmap → cellE arr segs t mfv (some segs[j]) p = .ok e) ∧
      (t = .labelmap → ∃ lab, cellE arr segs t mfv none p = .ok lab ∧
          lab.map (fun v => if v = segs[j] then 1 else 0) = e) := by
  have hs := checkSegs_ok t segs hsegs
  obtain ⟨hrel, _, _⟩ := castMask_rel segs t m arr ov hs hcast
  exact cell_spec segs t mfv n m arr hs hrel hsz hmfv bits hbits j hj p mpl hmp

/-- (5-casts) **No `astype` ever wraps.**  The model has a wrap-around cast (`wrap w v = v mod 2^w`, `w` = the
width of the output pixel type: 8 for BINARY and FRACTIONAL, the LABELMAP depth otherwise) at every place the source
has `astype(dtype)` -- after the comparison with the segment number, after channel selection, after `np.around`,
after the multiplication by `max_fractional_value`, and on the LABELMAP planes (the cast sites are pinned by
`cast_sites_pinned`).  On every cell of every accepted mask the computation with casts equals the computation
without: in particular a label above 255 of a uint16 label map stored as BINARY/FRACTIONAL is compared *before*
anything is narrowed to uint8. -/
theorem casts_never_wrap (segs : List Nat) (t : SegType) (mfv n : Nat) (m arr : Mask) (ov : Overlap)
    (hsegs : checkSegs t segs = .ok ()) (hcast : castMask segs t m = .ok (arr, ov))
    (hsz : ∀ sz ∈ m.planeSizes, sz = n) (hmfv : t = .fractional → mfv ≤ 255)
    (bits : Nat) (hbits : bitsFor t segs = .ok bits)
    (sg : Option Nat) (hsg : sg ∈ segmentsIterable t segs) (p : Nat) (pl : Plane) (hp : arr.plane? p = some pl) :
    cellE arr segs t mfv sg p = cellEU arr segs t mfv sg p := by
  have hs := checkSegs_ok t segs hsegs
  obtain ⟨hrel, _, _⟩ := castMask_rel segs t m arr ov hs hcast
  obtain ⟨harr, _⟩ := arrOK_of_castRel segs t n m arr hs hrel hsz
  exact cellE_eq_U segs t mfv n arr hs harr hmfv bits hbits sg hsg p pl hp

/-- (5-pin) **Where the source casts** (tie T, target T21).  The statements of `_check_and_cast_pixel_array`,
`_combine_segments` and `_get_segment_pixel_array` that narrow, round or scale pixel values -- regenerated from
seg/sop.py on every run, each with the `if` tests it sits under -- are the ones the model's `wrap`s, `quantise` and
`stretch` were written against (that link is by reading; this theorem is a *change detector*: any cast added,
removed, moved or re-conditioned makes it fail and sends the check into the failing-input search): no cast in the integer branch of `_check_and_cast_pixel_array`, the comparison
`pixel_array == segment_number` *inside* the cast, rounding before the cast for fractions.  A cast that is added,
removed or moved breaks this theorem. -/
theorem cast_sites_pinned : segCastSites =
  ["_check_and_cast_pixel_array | not(pixel_array.dtypein(np.bool_,np.uint8,np.uint16)) & pixel_array.dtypein(np.float32,np.float64) & segmentation_typein(SegmentationTypeValues.BINARY,SegmentationTypeValues.LABELMAP) | pixel_array=pixel_array.astype(dtype)",
   "_check_and_cast_pixel_array | segmentation_type==SegmentationTypeValues.LABELMAP & pixel_array.ndim==4 | pixel_array=np.concatenate([np.array([0]),segment_numbers]).astype(dtype)[pixel_array]",
   "_check_and_cast_pixel_array | segmentation_type==SegmentationTypeValues.LABELMAP & not(pixel_array.ndim==4) | pixel_array=pixel_array.astype(dtype)",
   "_combine_segments | pixel_array.shape[3]==1 | returnpixel_array[:,:,:,0].astype(labelmap_dtype)",
   "_combine_segments | - | indices=pixel_array.argmax(axis=3,out=indices)+1",
   "_combine_segments | - | is_non_empty=pixel_array.max(axis=3,out=is_non_empty)",
   "_get_segment_pixel_array | pixel_array.dtypein(np.float32,np.float64) | segment_array=np.around(segment_array*float(max_fractional_value))",
   "_get_segment_pixel_array | pixel_array.dtypein(np.float32,np.float64) | segment_array=segment_array.astype(dtype)",
   "_get_segment_pixel_array | not(pixel_array.dtypein(np.float32,np.float64)) & pixel_array.ndim==2 & np.array_equal(described_segment_numbers,np.array([1])) & pixel_array.dtype!=dtype | segment_array=pixel_array.astype(dtype)",
   "_get_segment_pixel_array | not(pixel_array.dtypein(np.float32,np.float64)) & pixel_array.ndim==2 & not(np.array_equal(described_segment_numbers,np.array([1]))) | segment_array=(pixel_array==segment_number).astype(dtype)",
   "_get_segment_pixel_array | not(pixel_array.dtypein(np.float32,np.float64)) & not(pixel_array.ndim==2) & segment_array.dtype!=dtype | segment_array=segment_array.astype(dtype)",
   "_get_segment_pixel_array | not(pixel_array.dtypein(np.float32,np.float64)) & segmentation_type==SegmentationTypeValues.FRACTIONAL & int(max_fractional_value)!=1 | segment_array=segment_array*int(max_fractional_value)"] := by
  rfl

/-- ... and a cast in front of the comparison *would* wrap: label 300 narrowed to uint8 is 44 -/
example : wrap 8 300 = 44 ∧ (if wrap 8 300 = 300 then 1 else 0) = (0 : Nat) := by decide

/-- (6) **C01_roundtrip.**  For every segmentation type (BINARY, FRACTIONAL, LABELMAP), every layout and dtype
class of the mask (2-D/3-D label map or 4-D stack; bool/unsigned integers or floats), every
`max_fractional_value`, either empty-frame policy (including masks that are entirely empty, and planes or single
(segment, plane) frames that are empty), every frame size `rows*cols` (divisible by 8 or not, smaller than 8 or
not), every plane order, and either transport (native 1/8/16 bit with the trailing pad as written, or an
encapsulated syntax with *any* lossless codec): if the constructor accepts the input (`build … = .ok o`; a 2-D/3-D float
mask is accepted only with descriptions it can address -- `castMask_rejects_undescribed_float`,
`castMask_rejects_float_fraction_several`, the two defects fixed in f08a76b / d437594), then reading any
list of source planes back with `assert_missing_frames_are_empty` -- in particular all of them in the order supplied
-- succeeds and returns, for every requested plane `i` and every described segment `j`, exactly the property's
expectation `expectedPlane` computed from the user's mask.  Fractions: `expectedPlane` rounds the *exact* product
`q·mfv`; the code rounds the float product, which is the same integer unless `q·mfv` is within float error of a tie
(`float_product_rounds_alike`). -/
theorem C01_roundtrip (codec : Option Codec) (hcodec : ∀ c, codec = some c → ∀ x, c.dec (c.enc x) = x)
    (rows cols : Nat) (t : SegType) (segs : List Nat) (mfv : Nat) (omt : Bool) (order : List Nat) (m : Mask)
    (hperm : order.Perm (List.range m.numPlanes))
    (request : List Nat) (hreq : ∀ p ∈ request, p < m.numPlanes)
    (o : SegObj) (hb : build codec rows cols t segs mfv omt order m = .ok o) :
    ∃ out, readBySource codec o request .assertEmpty = .ok out ∧ out.length = request.length ∧
      ∀ i (hi : i < request.length) (ho : i < out.length),
        out[i].length = segs.length ∧
        ∀ j (hj : j < segs.length) (hj' : j < out[i].length),
          ∃ mpl, m.plane? request[i] = some mpl ∧ expectedPlane t mfv j segs[j] mpl = some out[i][j] := by
  apply roundtrip_main codec hcodec rows cols t segs mfv omt order m ?_ ?_ ?_ request hreq o hb
  · intro p hp; exact hperm.symm.subset (List.mem_range.mpr hp)
  · intro p hp; exact List.mem_range.mp (hperm.subset hp)
  · exact hperm.symm.nodup List.nodup_range

/-- (6a) ... in particular for the source planes *in the order they were supplied*. -/
theorem C01_roundtrip_supplied_order (codec : Option Codec) (hcodec : ∀ c, codec = some c → ∀ x, c.dec (c.enc x) = x)
    (rows cols : Nat) (t : SegType) (segs : List Nat) (mfv : Nat) (omt : Bool) (order : List Nat) (m : Mask)
    (hperm : order.Perm (List.range m.numPlanes))
    (o : SegObj) (hb : build codec rows cols t segs mfv omt order m = .ok o) :
    ∃ out, readBySource codec o (List.range m.numPlanes) .assertEmpty = .ok out ∧ out.length = m.numPlanes ∧
      ∀ p (_ : p < m.numPlanes) (ho : p < out.length) j (hj : j < segs.length) (hj' : j < out[p].length),
        ∃ mpl, m.plane? p = some mpl ∧ expectedPlane t mfv j segs[j] mpl = some out[p][j] := by
  obtain ⟨out, h1, h2, h3⟩ := C01_roundtrip codec hcodec rows cols t segs mfv omt order m hperm
    (List.range m.numPlanes) (fun p hp => List.mem_range.mp hp) o hb
  refine ⟨out, h1, by simpa using h2, ?_⟩
  intro p hp ho j hj hj'
  have := (h3 p (by simpa using hp) ho).2 j hj hj'
  simpa using this

/-- (6-strict) **Without `assert_missing_frames_are_empty`**, as the code has it (audit A, C01-1; restated for a built
object after audit 2, C01-1): `get_pixels_by_source_instance` accepts every one of the object's `m.numPlanes` source images,
*whether or not a frame references it* -- so a source plane that was empty and omitted reads back as zeros without any
assertion: for every accepted mask, any empty-frame policy and any request among the source images the read succeeds, is the
read with the flag, and returns the property's expectation.  (`nsrc` = `m.numPlanes` is what the constructor lists as
source images; that the library's InstanceUIDs table holds exactly those is tie C, L0 `strict` stream.) -/
theorem C01_roundtrip_strict_by_instance (codec : Option Codec) (hcodec : ∀ c, codec = some c → ∀ x, c.dec (c.enc x) = x)
    (rows cols : Nat) (t : SegType) (segs : List Nat) (mfv : Nat) (omt : Bool) (order : List Nat) (m : Mask)
    (hperm : order.Perm (List.range m.numPlanes))
    (request : List Nat) (hreq : ∀ p ∈ request, p < m.numPlanes)
    (o : SegObj) (hb : build codec rows cols t segs mfv omt order m = .ok o) :
    readBySource codec o request (.byInstance m.numPlanes) = readBySource codec o request .assertEmpty ∧
    ∃ out, readBySource codec o request (.byInstance m.numPlanes) = .ok out ∧ out.length = request.length ∧
      ∀ i (hi : i < request.length) (ho : i < out.length),
        out[i].length = segs.length ∧
        ∀ j (hj : j < segs.length) (hj' : j < out[i].length),
          ∃ mpl, m.plane? request[i] = some mpl ∧ expectedPlane t mfv j segs[j] mpl = some out[i][j] := by
  have he := strict_eq codec o request _ (byInstance_not_refused o request m.numPlanes hreq)
  refine ⟨he, ?_⟩
  rw [he]
  exact C01_roundtrip codec hcodec rows cols t segs mfv omt order m hperm request hreq o hb

/-- (6-strict') `get_pixels_by_source_frame` without the flag accepts every frame number up to the highest one a
stored frame references (an omitted frame *below* it reads back as zeros); in particular every source frame when
nothing is omitted. -/
theorem C01_roundtrip_strict_by_frame (codec : Option Codec) (rows cols : Nat) (t : SegType) (segs : List Nat) (mfv : Nat)
    (order : List Nat) (m : Mask) (hperm : order.Perm (List.range m.numPlanes))
    (request : List Nat) (hreq : ∀ p ∈ request, p < m.numPlanes)
    (o : SegObj) (hb : build codec rows cols t segs mfv false order m = .ok o) :
    readBySource codec o request .byFrame = readBySource codec o request .assertEmpty ∧
    ∀ (o' : SegObj) (req' : List Nat), (∀ p ∈ req', ∃ k ∈ o'.keys, p ≤ k.2) →
      readBySource codec o' req' .byFrame = readBySource codec o' req' .assertEmpty := by
  constructor
  · apply strict_eq
    apply byFrame_not_refused
    intro p hp
    have hcover : ∀ p, p < m.numPlanes → p ∈ order := fun p hp => hperm.symm.subset (List.mem_range.mpr hp)
    have hin : ∀ p ∈ order, p < m.numPlanes := fun p hp => List.mem_range.mp (hperm.subset hp)
    obtain ⟨_, _, _, _, _, hs, _⟩ := build_frames codec rows cols t segs mfv false order m hin o hb
    obtain ⟨sg, hsg⟩ := List.exists_mem_of_ne_nil _ (segmentsIterable_ne_nil t segs hs.ne)
    exact ⟨(sg, p), all_cells_stored codec rows cols t segs mfv order m hcover hin o hb sg hsg p (hreq p hp), Nat.le_refl _⟩
  · intro o' req' h
    exact strict_eq codec o' req' _ (byFrame_not_refused o' req' h)

/-- (5a) **"Rounded to the stored quantisation."**  What a FRACTIONAL segmentation delivers after rescaling,
`quantise mfv x / mfv`, differs from the fraction `x` that was passed in by at most half a quantisation step
`1 / (2 * mfv)` -- for every admissible `max_fractional_value`. -/
theorem quantisation_error (mfv : Nat) (hm : 1 ≤ mfv) (x : Rat) (h0 : 0 ≤ x) :
    |((quantise mfv x : Nat) : Rat) / (mfv : Rat) - x| ≤ 1 / (2 * (mfv : Rat)) :=
  quantise_error_bound mfv hm x h0

/-- (6-refusal) What the reads without `assert_missing_frames_are_empty` refuse is a source **unknown to the object's
reference tables**: `get_pixels_by_source_instance` a UID that is not one of its source images (KeyError),
`get_pixels_by_source_frame` a frame number above the highest one any stored frame references (ValueError).  (A
listed source without a frame is *not* refused: (6-strict).) -/
theorem strict_read_refuses_unknown (codec : Option Codec) (o : SegObj) (request : List Nat) (hnd : o.keys.Nodup)
    (p : Nat) (hp : p ∈ request) :
    (∀ nsrc, nsrc ≤ p → readBySource codec o request (.byInstance nsrc) = .error .key) ∧
    ((∀ k ∈ o.keys, k.2 < p) → readBySource codec o request .byFrame = .error .value) :=
  ⟨fun nsrc hle => byInstance_refuses codec o request nsrc hnd p hp hle,
   fun hgt => byFrame_refuses codec o request hnd p hp hgt⟩

/-- (5b) **Float products** (audit A, C01-2).  The model rounds the exact rational `q·mfv`; NumPy rounds the product
computed in the array's float type.  Any computed product within `ε` of the exact one rounds to the same stored value
as long as the exact product is farther than `ε` from every tie `k + 1/2` -- which is the hypothesis under which the
theorems about `quantise` speak about the code (float32: ε ≈ 2⁻²⁴·q·mfv; float64: 2⁻⁵³·q·mfv).  Within `ε` of a tie
either neighbour may be stored; the correspondence feeds the model the float product and the oracle accepts both. -/
theorem float_product_rounds_alike (q q' ε : Rat) (hclose : |q' - q| ≤ ε)
    (hfar : ∀ k : Int, ε < |q - ((k : Rat) + 1 / 2)|) : roundHalfEven q' = roundHalfEven q :=
  rhe_stable q q' ε hclose hfar

/-- (4a) **Every non-empty (segment, plane) pair is stored, and stored once**: a cell of the loop whose pixels
are not all zero has its (segment, source plane) key among the frames of the object, and no key occurs twice --
whatever the empty-frame policy.  (That a pair *without* a frame is all zero is part of (6): it reads back as
zeros and that equals the expectation.) -/
theorem nonempty_pair_stored_once (codec : Option Codec) (rows cols : Nat) (t : SegType) (segs : List Nat) (mfv : Nat)
    (omt : Bool) (order : List Nat) (m : Mask) (hperm : order.Perm (List.range m.numPlanes))
    (o : SegObj) (hb : build codec rows cols t segs mfv omt order m = .ok o) :
    o.keys.Nodup ∧
    ∀ arr ov, castMask segs t m = .ok (arr, ov) → ∀ sg ∈ segmentsIterable t segs, ∀ p, p < m.numPlanes →
      ∀ px, cellE arr segs t mfv sg p = .ok px → px.any (· != 0) = true → (sg, p) ∈ o.keys := by
  have hcover : ∀ p, p < m.numPlanes → p ∈ order := fun p hp => hperm.symm.subset (List.mem_range.mpr hp)
  have hin : ∀ p ∈ order, p < m.numPlanes := fun p hp => List.mem_range.mp (hperm.subset hp)
  constructor
  · obtain ⟨_, arr, _, _, _, hs, _, _, _, _, _, _, rfl⟩ := build_frames codec rows cols t segs mfv omt order m hin o hb
    exact keys_nodup arr segs t mfv _ _ hs.nodup (planOrder_nodup arr omt order (hperm.symm.nodup List.nodup_range))
  · intro arr ov hcm sg hsg p hp px hpx hne
    exact nonempty_cell_stored codec rows cols t segs mfv omt order m hcover hin o hb arr ov hcm sg hsg p hp px hpx hne

/-- (4b) **An accepted mask always yields at least one frame** (NumberOfFrames ≥ 1, which the frame LUT needs):
with `omit_empty_frames` a plane that is non-empty *after quantisation* keeps a frame, and a mask that is empty
after quantisation keeps all its frames. -/
theorem frames_nonempty (codec : Option Codec) (rows cols : Nat) (t : SegType) (segs : List Nat) (mfv : Nat)
    (omt : Bool) (order : List Nat) (m : Mask) (hperm : order.Perm (List.range m.numPlanes))
    (o : SegObj) (hb : build codec rows cols t segs mfv omt order m = .ok o) : o.keys ≠ [] :=
  SegEncodeLemmas.frames_nonempty codec rows cols t segs mfv omt order m
    (fun _ hp => hperm.symm.subset (List.mem_range.mpr hp)) (fun _ hp => List.mem_range.mp (hperm.subset hp)) o hb

/-- (6b) The hypothesis of (6) is satisfiable exactly as expected: whenever the argument checks and
`castMask` pass and the shapes fit (one plane order entry per plane, `rows*cols` pixels per plane), the
constructor succeeds -- nothing after the checks can fail. -/
theorem build_succeeds (codec : Option Codec) (rows cols : Nat) (t : SegType) (segs : List Nat) (mfv : Nat)
    (omt : Bool) (order : List Nat) (m : Mask) (bits : Nat) (arr : Mask) (ov : Overlap)
    (hca : checkArgs codec t segs mfv = .ok bits) (hcm : castMask segs t m = .ok (arr, ov))
    (hperm : order.Perm (List.range m.numPlanes)) (hsz : ∀ sz ∈ m.planeSizes, sz = rows * cols) :
    ∃ o, build codec rows cols t segs mfv omt order m = .ok o :=
  build_total codec rows cols t segs mfv omt order m bits arr ov hca hcm
    (by have := hperm.length_eq; simpa using this.symm) hsz
    (fun p hp => List.mem_range.mp (hperm.subset hp))

/-- (6c) Stored values fit the pixel depth, so nothing wraps on the way into `PixelData`, and reading back never
divides by zero: an accepted `max_fractional_value` lies in 1..255 (this is the translated admission test). -/
theorem mfv_fits (mfv : Nat) (v : Int) (h : segMfvGuard (mfv : Int) = .ok v) : 1 ≤ mfv ∧ mfv ≤ 255 :=
  segMfvGuard_ok mfv v h

/-- (7) **Encoding workers** (model level).  Results are gathered by position from the futures; whatever order the
workers complete in (`done` = any log containing each task's result once), the gathered list is `tasks.map run`.
That the source gathers by position -- `frames = [fut.result() for fut in frame_futures]` -- is pinned textually by
translation target T20; the executor that completes in reverse order exercises it on the real code. -/
theorem collect_order_independent {α β} (run : α → β) (tasks : List α) (done : List (Nat × β))
    (hperm : done.Perm (tasks.zipIdx.map fun a => (a.2, run a.1))) :
    collect tasks.length done = some (tasks.map run) := by
  unfold collect
  apply collect_aux run done ?_ tasks 0
  · intro j hj
    apply hperm.symm.subset
    refine List.mem_map.mpr ⟨(tasks[j], j), ?_, by simp⟩
    rw [List.mem_zipIdx_iff_getElem?]
    simp [List.getElem?_eq_getElem hj]
  · have : (done.map (·.1)).Perm ((tasks.zipIdx.map fun a => (a.2, run a.1)).map (·.1)) := hperm.map _
    apply this.symm.nodup
    simp only [List.map_map]
    have e : (tasks.zipIdx.map ((fun x => x.1) ∘ fun a => (a.2, run a.1))) = List.range' 0 tasks.length := by
      apply List.ext_getElem (by simp)
      intro i h1 h2
      simp
    rw [e]
    exact List.nodup_range'

/-! (8) **Refusals**: masks outside the documented domain are refused, never stored. -/

/-- a label-map style (3-D integer) mask with a pixel value that is neither background nor a described segment -/
theorem castMask_rejects_undescribed (segs : List Nat) (t : SegType) (ps : List (List Nat)) (pl : List Nat) (v : Nat)
    (hpl : pl ∈ ps) (hv : v ∈ pl) (hnot : v ∉ 0 :: segs) : castMask segs t (.intLabel ps) = .error .value :=
  reject_undescribed segs t ps pl v hpl hv hnot

/-- ... and the same for a binary 2-D/3-D *float* mask (after the cast it is a label map holding label 1): if a pixel is
1.0 and segment number 1 is not described the mask is refused, exactly like the integer mask above.  (This was the open
finding `C01-float-labelmap-undescribed`: such a mask was stored under the undescribed label 1; fixed in /repo f08a76b,
the guard is regenerated as `castFloatLabelGuard`, T22.) -/
theorem castMask_rejects_undescribed_float (segs : List Nat) (t : SegType) (ht : t ≠ .fractional) (ps : List (List Rat))
    (pl : List Rat) (hpl : pl ∈ ps) (h1 : (1 : Rat) ∈ pl) (hnot : 1 ∉ segs) :
    castMask segs t (.fltLabel ps) = .error .value :=
  reject_undescribed_float segs t ht ps pl hpl h1 hnot

/-- a 2-D/3-D array of *fractions* is one segment: with more than one described segment it is refused (a 4-D array is
required).  (This was the open finding `C01-float-fraction-copied`: the mask was stored once per described segment; fixed
in /repo d437594, the guard is regenerated as `castFloatFractionGuard`, T22.) -/
theorem castMask_rejects_float_fraction_several (segs : List Nat) (ps : List (List Rat)) (h : 1 < segs.length) :
    castMask segs .fractional (.fltLabel ps) = .error .value :=
  reject_float_fraction_several segs ps h

/-- the witnesses of the two former findings are refused now ... -/
example : castMask [3] .labelmap (.fltLabel [[1]]) = .error .value ∧
    castMask [1, 2] .fractional (.fltLabel [[1/2, 0]]) = .error .value := by decide +kernel

/-- ... while the same masks with descriptions they can address are accepted -/
example : castMask [1, 3] .labelmap (.fltLabel [[1]]) = .ok (.intLabel [[1]], .no) ∧
    castMask [1] .fractional (.fltLabel [[1/2, 0]]) = .ok (.fltLabel [[1/2, 0]], .no) := by decide +kernel

/-- a stacked (4-D) integer mask that is not binary -/
theorem castMask_rejects_nonbinary_stack (segs : List Nat) (t : SegType) (ps : List (List (List Nat)))
    (pl : List (List Nat)) (ch : List Nat) (v : Nat) (hpl : pl ∈ ps) (hch : ch ∈ pl) (hv : v ∈ ch) (h2 : 1 < v) :
    castMask segs t (.intStack ps) = .error .value :=
  reject_nonbinary_stack segs t ps pl ch v hpl hch hv h2

/-- a stacked mask whose last dimension is not the number of described segments -/
theorem castMask_rejects_channel_count (segs : List Nat) (t : SegType) (ps : List (List (List Nat)))
    (pl : List (List Nat)) (ch : List Nat) (hpl : pl ∈ ps) (hch : ch ∈ pl) (hne : ch.length ≠ segs.length) :
    castMask segs t (.intStack ps) = .error .value :=
  reject_channels segs t ps pl ch hpl hch hne

/-- ... and the same for a stacked float mask -/
theorem castMask_rejects_channel_count_float (segs : List Nat) (t : SegType) (ps : List (List (List Rat)))
    (pl : List (List Rat)) (ch : List Rat) (hpl : pl ∈ ps) (hch : ch ∈ pl) (hne : ch.length ≠ segs.length) :
    castMask segs t (.fltStack ps) = .error .value := by
  unfold castMask
  have : chanOk segs.length (.fltStack ps) = false := by
    simp only [chanOk]
    rw [List.all_eq_false]
    exact ⟨pl, hpl, by rw [Bool.not_eq_true, List.all_eq_false]; exact ⟨ch, hch, by simpa using hne⟩⟩
  simp [this]

/-- a float mask with a value outside [0, 1] (3-D and 4-D) -/
theorem castMask_rejects_float_range (segs : List Nat) (t : SegType) :
    (∀ (ps : List (List Rat)) pl x, pl ∈ ps → x ∈ pl → (x < 0 ∨ 1 < x) →
      castMask segs t (.fltLabel ps) = .error .value) ∧
    (∀ (ps : List (List (List Rat))) pl ch x, pl ∈ ps → ch ∈ pl → x ∈ ch → (x < 0 ∨ 1 < x) →
      castMask segs t (.fltStack ps) = .error .value) :=
  ⟨fun ps pl x h1 h2 h3 => reject_float_range_label segs t ps pl x h1 h2 h3,
   fun ps pl ch x h1 h2 h3 h4 => reject_float_range_stack segs t ps pl ch x h1 h2 h3 h4⟩

/-- a float mask with a genuinely fractional value for a BINARY or LABELMAP segmentation -/
theorem castMask_rejects_fraction_for_binary (segs : List Nat) (t : SegType) (ht : t ≠ .fractional) :
    (∀ (ps : List (List Rat)) pl x, pl ∈ ps → x ∈ pl → (0 < x ∧ x < 1) →
      castMask segs t (.fltLabel ps) = .error .value) ∧
    (∀ (ps : List (List (List Rat))) pl ch x, pl ∈ ps → ch ∈ pl → x ∈ ch → (0 < x ∧ x < 1) →
      castMask segs t (.fltStack ps) = .error .value) :=
  ⟨fun ps pl x h1 h2 h3 => reject_float_nonbinary_label segs t ht ps pl x h1 h2 h3,
   fun ps pl ch x h1 h2 h3 h4 => reject_float_nonbinary_stack segs t ht ps pl ch x h1 h2 h3 h4⟩

/-- overlapping stacked segments for a LABELMAP segmentation -/
theorem castMask_rejects_overlap_labelmap (segs : List Nat) (ps : List (List (List Nat))) (pl : List (List Nat))
    (ch : List Nat) (hpl : pl ∈ ps) (hch : ch ∈ pl)
    (hlen : ∀ pl ∈ ps, ∀ ch ∈ pl, ch.length = segs.length) (h01 : ∀ pl ∈ ps, ∀ ch ∈ pl, ∀ v ∈ ch, v ≤ 1)
    (hne : ∀ pl ∈ ps, pl ≠ []) (hps : ps ≠ []) (hsum : 1 < sumNat ch) :
    castMask segs .labelmap (.intStack ps) = .error .value :=
  reject_overlap_labelmap segs ps pl ch hpl hch hlen h01 hne hps hsum

/-- `max_fractional_value` outside 1..255 (translated admission test), and encapsulated syntaxes other than JPEG 2000
Lossless for BINARY (the code exempts that one: `refusedForBinary`) -/
theorem build_rejects_bad_options (rows cols : Nat) (segs : List Nat) (mfv : Nat) (omt : Bool)
    (order : List Nat) (m : Mask) :
    (∀ codec, (mfv < 1 ∨ 255 < mfv) → ∃ e, build codec rows cols .fractional segs mfv omt order m = .error e) ∧
    (∀ c : Codec, c.j2k = false → ∃ e, build (some c) rows cols .binary segs mfv omt order m = .error e) :=
  ⟨fun codec h => reject_mfv codec rows cols segs mfv omt order m h,
   fun c hc => reject_encapsulated_binary c hc rows cols segs mfv omt order m⟩

/-! (9) **Ties of hand-written decisions to the regenerated source** (T22, T23, T24; `Proofs/SegTie.lean`).  The
model functions are unchanged; these say that the comparisons, constants, indices and branch orders they contain are
the ones the source has now. -/

/-- (9a) `_check_and_cast_pixel_array`: the fast undescribed-label test, the refusal of non-binary stacks followed by
the overlap decision (branch order all-zero / one channel / per-pixel sums), the float range test, the "genuine
fraction" test and the two refusals of 2-D/3-D float masks (several fractional segments; label 1 undescribed) of the model
are the regenerated expressions (T22). -/
theorem cast_guards_are_the_sources (segs : List Nat) (t : SegType) :
    (∀ ps, ((List.range' 1 segs.length).all (· ∈ segs) &&
          segs.all (fun s => decide (1 ≤ s) && decide (s ≤ segs.length))) = true →
        castUndescribedFast (segs.length : Int) (listMax (ps.map listMax) : Int) = .ok (undescribed segs ps)) ∧
    (∀ ps, castValues segs t (.intStack ps) =
        (match castStackMaxGuard (listMax (ps.map fun pl => listMax (pl.map listMax)) : Int) with
         | .error e => .error e
         | .ok _ => .ok (Mask.intStack ps, overlapOfStack segs.length ps))) ∧
    (∀ (n : Nat) ps, castOverlapInt (listMax (ps.map fun pl => listMax (pl.map listMax)) : Int) (n : Int)
          (ps.any (fun pl => pl.any (fun ch => decide (sumNat ch > 1)))) = .ok (overlapCode (overlapOfStack n ps))) ∧
    (∀ ch, castOverlapSum (sumNat ch : Int) = .ok (decide (sumNat ch > 1))) ∧
    (∀ x : Rat, (castFloatRange x x = .error .value) ↔ (x < 0 ∨ 1 < x)) ∧
    (∀ x : Rat, castFloatNonBoolean x = .ok (decide (0 < x ∧ x < 1))) ∧
    (∀ ps : List (List Rat), (ps.any fun pl => pl.any fun x => decide (x < 0 ∨ 1 < x)) = false →
        castValues segs .fractional (.fltLabel ps) =
          (match castFloatFractionGuard (segs.length : Int) 3 with
           | .error e => .error e
           | .ok _ => .ok (Mask.fltLabel ps, Overlap.no))) ∧
    (t ≠ .fractional → ∀ ps : List (List Rat), (ps.any fun pl => pl.any fun x => decide (x < 0 ∨ 1 < x)) = false →
        (ps.any fun pl => pl.any fun x => decide (0 < x ∧ x < 1)) = false →
        castValues segs t (.fltLabel ps) =
          (match castFloatLabelGuard 3 (if (ps.any fun pl => pl.any fun x => decide (x = 1)) then 1 else 0)
              (decide (1 ∉ segs)) with
           | .error e => .error e
           | .ok _ => .ok (Mask.intLabel (ps.map (·.map ratToNat)), Overlap.no))) :=
  ⟨fun ps hc => undescribed_fast_gen segs ps hc, fun ps => castValues_intStack_gen segs t ps,
   fun n ps => overlapOfStack_gen n ps, overlapSum_gen, floatRange_gen, floatNonBoolean_gen,
   fun ps hr => castValues_fltLabel_fraction_gen segs ps hr,
   fun ht ps hr hb => castValues_fltLabel_binary_gen segs t ht ps hr hb⟩

/-- (9b) Frame loop and `_get_segment_pixel_array`: a single-segment frame is dropped exactly under the regenerated
skip test; segment `s` of a stack is read from the regenerated channel index; binary values are stretched exactly
under the regenerated guard to the regenerated product; fractions are rounded from the regenerated product (T23). -/
theorem loop_decisions_are_the_sources (mfv w : Nat) :
    (∀ omt sg px, ∃ b, loopSkipGuard omt (px.any (· != 0)) = .ok b ∧ keep omt sg px = !(sg.isSome && b)) ∧
    (∀ s : Nat, 1 ≤ s → segChannelIndex (s : Int) = .ok ((s - 1 : Nat) : Int)) ∧
    (∀ b, ∃ g, segStretchGuard (mfv : Int) = .ok g ∧
        stretch .fractional mfv w b = if g then b.map (fun v => wrap w (v * mfv)) else b) ∧
    (∀ v : Nat, segStretchValue (v : Int) (mfv : Int) = .ok ((v * mfv : Nat) : Int)) ∧
    (∀ x : Rat, ∃ p, segFractionProduct x (mfv : Int) = .ok p ∧ quantise mfv x = (roundHalfEven p).toNat) :=
  ⟨keep_gen, channelIndex_gen, stretch_gen mfv w, fun v => stretchValue_gen v mfv, quantise_gen mfv⟩

/-- (9c) Source-frame numbering: the model's refusal of `get_pixels_by_source_frame` without the flag is the regenerated
test `f > max_frame_number` on the frame numbers the constructor records (`source_image_index + 1`), and every
recorded number passes the regenerated admissibility test `f > 0` (T24). -/
theorem frame_numbering_is_the_sources (o : SegObj) (request : List Nat) :
    missingRefusal o request .byFrame =
      (if request.any (fun p =>
          match pffgFrameNumber (p : Int) with
          | .ok f => (match srcFrameMissing f (listMax (o.keys.map (fun k =>
                          match pffgFrameNumber (k.2 : Int) with | .ok g => g.toNat | .error _ => 0)) : Int) with
                      | .ok b => b | .error _ => false)
          | .error _ => false)
       then some .value else none) ∧
    ∀ p : Nat, ∃ f, pffgFrameNumber (p : Int) = .ok f ∧ srcFramePositive f = .ok true :=
  ⟨missingRefusal_byFrame_gen o request, recorded_numbers_positive⟩

/-- non-vacuity of (9): the regenerated guards on concrete values -/
example : castStackMaxGuard 2 = .error .value ∧ castUndescribedFast 3 4 = .ok true ∧ castOverlapInt 1 3 true = .ok 1 ∧
    loopSkipGuard true false = .ok true ∧ segChannelIndex 3 = .ok 2 ∧ pffgFrameNumber 0 = .ok 1 ∧
    srcFrameMissing 3 2 = .ok true ∧ srcFrameMissing 2 2 = .ok false ∧
    castFloatFractionGuard 2 3 = .error .value ∧ castFloatFractionGuard 2 4 = .ok 0 ∧
    castFloatLabelGuard 3 1 true = .error .value ∧ castFloatLabelGuard 3 1 false = .ok 0 := by decide +kernel

/-! (10) **What travels with a stored frame, and the other reading entry points** (`Model/SegFrames.lean`,
`Proofs/SegFrames.lean`, `Proofs/SegTiles.lean`).  Tie C for the hand-written `dimIndexValues` / `readByDimIndex` /
`tileMask`: correspondence streams `case` (L1 `DimensionIndexValues` of every frame, L0 `get_pixels_by_dimension_index_values`)
and `tiled` (L0/L1 with the model cutting the tiles). -/

/-- (10-pin) **Which segment / plane / position index / source index a frame is recorded with** (tie T, target T25): the
two nested loops (`for segment_number in segments_iterable`, `for plane_dim_ind, plane_index in enumerate(plane_sort_index,
1)`), the four assignments to `dimension_index_values` each with the `if` tests it sits under (stack of planes in a frame of
reference: `[plane_dim_ind]` = `dimIndexValues`; no frame of reference: `[]` / `[1]` = `dimIndexValuesNoFoR`; slide coordinates:
one index per coordinate, not in the model -- oracle of the `tiled` stream), the arguments handed to `_get_pffg_item`, and what that function
writes into DimensionIndexValues, ReferencedSegmentNumber and ReferencedFrameNumber -- regenerated on every run -- are
the ones `dimIndexValues`, `Frame.seg/plane` and `missingRefusal` were written against.  A *change detector*: the link list ↔ model
is by reading; the start value of the enumeration is used by the model as the regenerated constant `segDimIndexStart`. -/
theorem pffg_sites_pinned : segPffgSites =
  ["loop | for segment_number in segments_iterable",
   "loop | for (plane_dim_ind,plane_index) in enumerate(plane_sort_index,1)",
   "loop | dimension_organization_type!=DimensionOrganizationTypeValues.TILED_FULL & self._coordinate_systemisnotNone & self._coordinate_system==CoordinateSystemNames.SLIDE | dimension_index_values=<one index per slide coordinate>",
   "loop | dimension_organization_type!=DimensionOrganizationTypeValues.TILED_FULL & self._coordinate_systemisnotNone & not(self._coordinate_system==CoordinateSystemNames.SLIDE) | dimension_index_values=[plane_dim_ind]",
   "loop | dimension_organization_type!=DimensionOrganizationTypeValues.TILED_FULL & not(self._coordinate_systemisnotNone) & segmentation_type==SegmentationTypeValues.LABELMAP | dimension_index_values=[1]",
   "loop | dimension_organization_type!=DimensionOrganizationTypeValues.TILED_FULL & not(self._coordinate_systemisnotNone) & not(segmentation_type==SegmentationTypeValues.LABELMAP) | dimension_index_values=[]",
   "call | segment_number=segment_number",
   "call | dimension_index_values=dimension_index_values",
   "call | plane_position=plane_positions[plane_index]",
   "call | source_image_index=plane_indexifsource_frame_indicesisNoneelsesource_frame_indices[plane_index]",
   "call | are_spatial_locations_preserved=are_spatial_locations_preservedand(source_frame_indicesisNoneorsource_frame_indices[plane_index]isnotNone)",
   "_get_pffg_item | segment_numberisNone | all_index_values=dimension_index_values",
   "_get_pffg_item | not(segment_numberisNone) | all_index_values=[int(segment_number)]+dimension_index_values",
   "_get_pffg_item | DataElement | 2134359,'UL',all_index_values",
   "_get_pffg_item | DataElement | 6422539,'US',int(segment_number)",
   "_get_pffg_item | DataElement | 528736,'IS',source_image_index+1"] ∧ segDimIndexStart = 1 := by
  constructor <;> rfl

/-- (4-pin) **Which planes are visited under `omit_empty_frames`** (tie T, target T26).  The statements of the omit block of
`Segmentation.__init__` -- emptiness judged on the array itself or, for floats, on `np.around(x * float(mfv)) != 0` (the
quantised values); the "all empty => keep all" fall-back that also switches the per-segment skipping off; the re-filtering of
`plane_sort_index` by the set of non-empty planes -- and of `_get_nonempty_plane_indices`, regenerated on every run, are the
ones `planeNonEmpty` / `planOrder` were written against (`storedFrames_spec`, `frames_nonempty`, `nonempty_pair_stored_once`
speak about those).  A *change detector*; the behaviour itself is tied by correspondence (L1 NumberOfFrames / set of keys, L2
loop order). -/
theorem omit_sites_pinned : segOmitSites =
  ["__init__ | omit_empty_frames & pixel_array.dtype.kind=='f' | occupied_array=np.around(pixel_array*float(max_fractional_value))!=0",
   "__init__ | omit_empty_frames & not(pixel_array.dtype.kind=='f') | occupied_array=pixel_array",
   "__init__ | omit_empty_frames & tile_pixel_array | included_plane_indices,is_empty=self._get_nonempty_tile_indices(occupied_array,plane_positions=plane_positions,rows=self.Rows,columns=self.Columns)",
   "__init__ | omit_empty_frames & not(tile_pixel_array) | included_plane_indices,is_empty=self._get_nonempty_plane_indices(occupied_array)",
   "__init__ | omit_empty_frames & is_empty | omit_empty_frames=False",
   "__init__ | omit_empty_frames & is_empty | included_plane_indices=list(range(len(plane_positions)))",
   "__init__ | omit_empty_frames & not(is_empty) | included_plane_indices_set=set(included_plane_indices)",
   "__init__ | omit_empty_frames & not(is_empty) | plane_sort_index=[indforindinplane_sort_indexifindinincluded_plane_indices_set]",
   "__init__ | not(omit_empty_frames) | included_plane_indices=list(range(len(plane_positions)))",
   "_get_nonempty_plane_indices | - | source_image_indices=[ifori,frminenumerate(pixel_array)ifnp.any(frm)]",
   "_get_nonempty_plane_indices | len(source_image_indices)==0 | return(list(range(pixel_array.shape[0])),True)",
   "_get_nonempty_plane_indices | - | return(source_image_indices,False)"] := by
  rfl

/-- (10a) **Dimension organisation agrees with the frame content order.**  For every accepted mask, with `ord` = the planes
the loop visits (plane order minus the omitted empty planes): every frame's plane is a visited plane; the
DimensionIndexValues vectors `[segment,] position index` of the stored frames are strictly increasing in lexicographic
order along the frames (frames are stored in dimension order), hence pairwise different (`are_dimension_indices_unique`),
one per frame. -/
theorem dimension_indices_follow_frame_order (codec : Option Codec) (hcodec : ∀ c, codec = some c → ∀ x, c.dec (c.enc x) = x)
    (rows cols : Nat) (t : SegType) (segs : List Nat) (mfv : Nat) (omt : Bool) (order : List Nat) (m : Mask)
    (hperm : order.Perm (List.range m.numPlanes))
    (o : SegObj) (hb : build codec rows cols t segs mfv omt order m = .ok o) :
    ∃ arr ov, castMask segs t m = .ok (arr, ov) ∧
      (planOrder arr mfv omt order).2.Nodup ∧ (∀ k ∈ o.keys, k.2 ∈ (planOrder arr mfv omt order).2) ∧
      (frameDims (planOrder arr mfv omt order).2 o.keys).Pairwise (fun a b => lexLt a b = true) ∧
      (frameDims (planOrder arr mfv omt order).2 o.keys).Nodup ∧
      (frameDims (planOrder arr mfv omt order).2 o.keys).length = o.keys.length := by
  have hin : ∀ p ∈ order, p < m.numPlanes := fun p hp => List.mem_range.mp (hperm.subset hp)
  obtain ⟨arr, ov, hcm, hsub, _⟩ := frames_read codec hcodec rows cols t segs mfv omt order m hin o hb
  obtain ⟨_, arr', _, _, hcm', hs, _⟩ := build_frames codec rows cols t segs mfv omt order m hin o hb
  have hnd := planOrder_nodup arr omt order (mfv := mfv) (hperm.symm.nodup List.nodup_range)
  have hk : ∀ k ∈ o.keys, k.2 ∈ (planOrder arr mfv omt order).2 :=
    fun k hkm => ((mem_cells t segs _ k).mp (hsub.subset hkm)).2
  have hknd : o.keys.Nodup := hsub.nodup (cells_nodup t segs _ hs.nodup hnd)
  exact ⟨arr, ov, hcm, hnd, hk, frameDims_sorted t segs _ hs hnd o.keys hsub,
    (frameDims_nodup_iff _ o.keys hk).mpr hknd, by simp [frameDims]⟩

/-- (10a') ... and for a source image **without frame of reference** (one plane; the code writes `[segment]`, for LABELMAP the
constant `[1]` of the "Frame Label" dimension: `dimIndexValuesNoFoR`) the vectors are strictly increasing along the frames
and pairwise different as well.  Tie C: L1 `DimensionIndexValues of a stored frame` on the `single` sources. -/
theorem dimension_indices_without_frame_of_reference (codec : Option Codec)
    (hcodec : ∀ c, codec = some c → ∀ x, c.dec (c.enc x) = x) (rows cols : Nat) (t : SegType) (segs : List Nat) (mfv : Nat)
    (omt : Bool) (m : Mask) (hone : m.numPlanes = 1) (o : SegObj) (hb : build codec rows cols t segs mfv omt [0] m = .ok o) :
    (frameDimsNoFoR o.keys).Pairwise (fun a b => lexLt a b = true) ∧ (frameDimsNoFoR o.keys).Nodup := by
  have hin : ∀ p ∈ [0], p < m.numPlanes := by intro p hp; simp at hp; omega
  obtain ⟨arr, ov, _, hsub, _⟩ := frames_read codec hcodec rows cols t segs mfv omt [0] m hin o hb
  obtain ⟨_, _, _, _, _, hs, _⟩ := build_frames codec rows cols t segs mfv omt [0] m hin o hb
  have h := frameDimsNoFoR_sorted t segs 0 hs o.keys
    (hsub.trans (cells_sublist_single t segs _ 0 (planOrder_sublist arr mfv omt [0])))
  exact ⟨h, nodup_of_pairwise_lexLt _ h⟩

/-- (10a'') ... and for **slide coordinates** (tiled objects that carry per-frame items): the code writes, behind the segment
number, one index per coordinate of the tile position -- row and column in the total pixel matrix, then x, y, z --, each
`np.where(np.unique(column over the stored tiles) == value)[0][0] + 1` (`slideDimIndexValues`, `uniqueSorted` = `np.unique`:
strictly increasing, same members).  For tiles visited in raster order of their (row, column) position -- which is the
order of `compute_tile_positions_per_frame`, whatever tiles were omitted (second part: any increasing selection of grid tiles
is in raster order) -- the vectors are strictly increasing along the stored frames and pairwise different, whatever the
remaining coordinates are.  Tie C: L1 `DimensionIndexValues of a stored frame` on the `tiled` stream. -/
theorem slide_dimension_indices_follow_frame_order (t : SegType) (segs ord : List Nat) (hcs : checkSegs t segs = .ok ())
    (row col : Nat → Rat) (extra : Nat → List Rat) (ue : List (List Rat))
    (hraster : ord.Pairwise (fun p q => row p < row q ∨ (row p = row q ∧ col p < col q)))
    (keys : List (Option Nat × Nat)) (hsub : keys.Sublist (cells t segs ord)) :
    ((keys.map fun k => slideDimIndexValues (uniqueSorted (ord.map row) :: uniqueSorted (ord.map col) :: ue) k.1
        (row k.2 :: col k.2 :: extra k.2)).Pairwise (fun a b => lexLt a b = true) ∧
     (keys.map fun k => slideDimIndexValues (uniqueSorted (ord.map row) :: uniqueSorted (ord.map col) :: ue) k.1
        (row k.2 :: col k.2 :: extra k.2)).Nodup) ∧
    ∀ (sel : List Nat) (nC tr tc : Nat), 0 < nC → 0 < tr → 0 < tc → sel.Pairwise (· < ·) →
      sel.Pairwise (fun p q =>
        (((p / nC * tr + 1 : Nat) : Rat) < ((q / nC * tr + 1 : Nat) : Rat)) ∨
        ((((p / nC * tr + 1 : Nat) : Rat) = ((q / nC * tr + 1 : Nat) : Rat)) ∧
          (((p % nC * tc + 1 : Nat) : Rat) < ((q % nC * tc + 1 : Nat) : Rat)))) := by
  have hs := checkSegs_ok t segs hcs
  have h := (slide_dims_sorted t segs ord hs row col extra _ _ ue (uniqueSorted_sorted _) (uniqueSorted_sorted _)
    (fun p hp => (mem_uniqueSorted _ _).mpr (List.mem_map.mpr ⟨p, hp, rfl⟩))
    (fun p hp => (mem_uniqueSorted _ _).mpr (List.mem_map.mpr ⟨p, hp, rfl⟩)) hraster).sublist hsub
  have h' : (keys.map fun k => slideDimIndexValues (uniqueSorted (ord.map row) :: uniqueSorted (ord.map col) :: ue) k.1
      (row k.2 :: col k.2 :: extra k.2)).Pairwise (fun a b => lexLt a b = true) := by
    rw [List.pairwise_map]; exact h
  exact ⟨⟨h', nodup_of_pairwise_lexLt _ h'⟩, fun sel nC tr tc h1 h2 h3 h4 => raster_of_increasing sel nC tr tc h1 h2 h3 h4⟩

/-- (10a-tiled) ... instantiated for **the object the tiled constructor builds**: tile number `p` of the grid sits at row
`p / nC * tr + 1`, column `p % nC * tc + 1` of the total pixel matrix (`nC` tiles per row); whatever tiles were omitted and
whatever the slide coordinates x, y, z (`extra`, `ue`) are, the slide index vectors of the stored frames are strictly increasing
along the frames (hence pairwise different). -/
theorem tiled_slide_indices_follow_frame_order (codec : Option Codec) (hcodec : ∀ c, codec = some c → ∀ x, c.dec (c.enc x) = x)
    (R C tr tc : Nat) (htr : 1 ≤ tr) (htc : 1 ≤ tc) (hC : 1 ≤ C) (t : SegType) (segs : List Nat) (mfv : Nat) (omt : Bool)
    (m : Mask) (o : SegObj) (hb : buildTiled codec R C tr tc t segs mfv omt m = .ok o)
    (extra : Nat → List Rat) (ue : List (List Rat)) :
    ∃ ord : List Nat, ord.Pairwise (· < ·) ∧ (∀ k ∈ o.keys, k.2 ∈ ord) ∧
      ((o.keys.map fun k => slideDimIndexValues
          (uniqueSorted (ord.map fun p => ((p / tilesAlong C tc * tr + 1 : Nat) : Rat)) ::
           uniqueSorted (ord.map fun p => ((p % tilesAlong C tc * tc + 1 : Nat) : Rat)) :: ue) k.1
          (((k.2 / tilesAlong C tc * tr + 1 : Nat) : Rat) :: ((k.2 % tilesAlong C tc * tc + 1 : Nat) : Rat) :: extra k.2)).Pairwise
        (fun a b => lexLt a b = true)) := by
  unfold buildTiled at hb
  split at hb
  · cases hb
  split at hb
  · cases hb
  have hin : ∀ p ∈ List.range (tileMask R C tr tc m).numPlanes, p < (tileMask R C tr tc m).numPlanes :=
    fun p hp => List.mem_range.mp hp
  obtain ⟨arr, ov, _, hsub, _⟩ := frames_read codec hcodec tr tc t segs mfv omt _ (tileMask R C tr tc m) hin o hb
  obtain ⟨_, _, _, _, _, hca, _⟩ := build_inv _ _ _ _ _ _ _ _ _ _ hb
  have hcs := (checkArgs_inv _ _ _ _ _ hca).1
  have hord : ((planOrder arr mfv omt (List.range (tileMask R C tr tc m).numPlanes)).2).Pairwise (· < ·) :=
    List.Pairwise.sublist (planOrder_sublist arr mfv omt _) List.pairwise_lt_range
  have hnC : 0 < tilesAlong C tc := Nat.lt_of_le_of_lt (Nat.zero_le _) (div_lt_tilesAlong C tc 0 htc (by omega))
  refine ⟨_, hord, fun k hk => ((mem_cells t segs _ k).mp (hsub.subset hk)).2, ?_⟩
  exact (slide_dimension_indices_follow_frame_order t segs _ hcs
    (fun p => ((p / tilesAlong C tc * tr + 1 : Nat) : Rat)) (fun p => ((p % tilesAlong C tc * tc + 1 : Nat) : Rat)) extra ue
    (raster_of_increasing _ (tilesAlong C tc) tr tc hnC (by omega) (by omega) hord) o.keys hsub).1.1

/-- non-vacuity of (10a''): a 2 × 3 grid of tiles with tile (0, 1) omitted, two segments; x runs against the column -/
example : (([(some 1, 0), (some 1, 2), (some 2, 3)] : List (Option Nat × Nat)).map fun k =>
      slideDimIndexValues [uniqueSorted ([0, 2, 3].map fun p => ((p / 3 * 4 + 1 : Nat) : Rat)),
                           uniqueSorted ([0, 2, 3].map fun p => ((p % 3 * 5 + 1 : Nat) : Rat)),
                           uniqueSorted ([0, 2, 3].map fun p => -((p % 3 : Nat) : Rat))] k.1
        [((k.2 / 3 * 4 + 1 : Nat) : Rat), ((k.2 % 3 * 5 + 1 : Nat) : Rat), -((k.2 % 3 : Nat) : Rat)])
    = [[1, 1, 1, 2], [1, 1, 2, 1], [2, 2, 1, 2]] := by decide +kernel

/-- (10b) **Reading by dimension index values addresses the same stored frames as reading by source image**:
position index `k` (1-based rank among the visited planes; `segDimIndexStart` is the regenerated start of the enumeration)
delivers, for every described segment, what `get_pixels_by_source_instance/_frame` delivers for the `k`-th visited plane --
including the uniqueness check and the zero fill of frames that were omitted.  With (6): the mask passed in. -/
theorem read_by_dimension_index_is_read_by_source (codec : Option Codec) (o : SegObj) (ord : List Nat) (hnd : ord.Nodup)
    (hk : ∀ k ∈ o.keys, k.2 ∈ ord) (ks : List Nat)
    (hks : ∀ k ∈ ks, segDimIndexStart ≤ k ∧ k - segDimIndexStart < ord.length) :
    readByDimIndex codec o (frameDims ord o.keys) ks =
      readBySource codec o (ks.map fun k => ord.getD (k - segDimIndexStart) 0) .assertEmpty :=
  readByDimIndex_eq codec o ord hnd hk ks hks

/-- (10b') **Reading by the source numbers the frames record.**  A frame does not name its plane index but
`source_image_index` (+ 1 as ReferencedFrameNumber, T24 / T25): the plane index itself for stacks of planes, and for a mask
handed over as a total pixel matrix the frame of the source image that SHOWS the tile, looked up by position (fix 41ae887 --
a TILED_SPARSE source lists its tiles in any order).  For every numbering `σ` that is injective on the planes involved,
`get_pixels_by_source_frame` with the recorded numbers reads exactly what reading the planes reads: the mask stays attached to
the source frame that shows it. -/
theorem read_by_recorded_source_is_read_by_plane (codec : Option Codec) (σ : Nat → Nat) (o : SegObj) (request : List Nat)
    (hinj : ∀ k ∈ o.keys, ∀ p, (p ∈ request ∨ ∃ k' ∈ o.keys, k'.2 = p) → σ k.2 = σ p → k.2 = p) :
    readBySource codec (relabelSources σ o) (request.map σ) .assertEmpty = readBySource codec o request .assertEmpty :=
  readBySource_relabel codec σ o request hinj

/-- (10b'') ... **when the source image lacks some tiles** (a TILED_SPARSE slide that leaves out background tiles; fix 3f46837):
`σ p = none` -- the frame of tile `p` names no source frame (`are_spatial_locations_preserved and source_frame_indices[p] is not
None`, pinned in T25).  `recordedSources` is `none` as soon as one STORED frame names no source frame (the library then refuses
reads by source frame); otherwise -- in particular when the tiles the source lacks are empty in the mask and omitted -- reading
by the recorded numbers reads the planes, exactly as in (10b').  Tie C: oracle of the `tiled` stream (`written-file/tiled`: every
stored frame that shows a source tile names exactly that source frame; `read-source-frame`). -/
theorem read_by_recorded_source_with_missing_tiles (codec : Option Codec) (σ : Nat → Option Nat) (o o' : SegObj)
    (request : List Nat) (hrec : recordedSources σ o = some o')
    (hinj : ∀ k ∈ o.keys, ∀ p, (p ∈ request ∨ ∃ k' ∈ o.keys, k'.2 = p) → (σ k.2).getD 0 = (σ p).getD 0 → k.2 = p) :
    readBySource codec o' (request.map fun p => (σ p).getD 0) .assertEmpty = readBySource codec o request .assertEmpty ∧
    ∀ k ∈ o.keys, (σ k.2).isSome := by
  have h := recordedSources_eq σ o o' hrec
  rw [h.1]
  exact ⟨readBySource_relabel codec _ o request hinj, h.2⟩

/-- non-vacuity: three stored tiles 0, 2, 3 of a grid whose tile 1 the source lacks; a stored frame on tile 1 would make the
    recorded table partial -/
example : (recordedSources (fun p => if p = 1 then none else some (if p = 0 then 0 else p - 1))
      { rows := 1, cols := 1, bits := 8, t := .labelmap, mfv := 255, segs := [1], keys := [(none, 0), (none, 2), (none, 3)],
        pd := .native [] }).map (·.keys) = some [(none, 0), (none, 1), (none, 2)] ∧
    (recordedSources (fun p => if p = 1 then none else some p)
      { rows := 1, cols := 1, bits := 8, t := .labelmap, mfv := 255, segs := [1], keys := [(none, 0), (none, 1)],
        pd := .native [] }).isNone = true := by decide +kernel

/-- (10c) **Frame by frame** (`get_stored_frame(i + 1)`, row `i` of `pixel_array`, whatever the transport): the `i`-th
stored frame is the property's expectation for the segment and the source plane its per-frame functional groups name -- a
frame of segment `s` is `expectedPlane` of `s` in that plane of the user's mask; the one-hot expansion of a LABELMAP frame is
`expectedPlane` of every described segment. -/
theorem stored_frame_roundtrip (codec : Option Codec) (hcodec : ∀ c, codec = some c → ∀ x, c.dec (c.enc x) = x)
    (rows cols : Nat) (t : SegType) (segs : List Nat) (mfv : Nat) (omt : Bool) (order : List Nat) (m : Mask)
    (hperm : order.Perm (List.range m.numPlanes))
    (o : SegObj) (hb : build codec rows cols t segs mfv omt order m = .ok o) (i : Nat) (hi : i < o.keys.length) :
    ∃ px mpl, readFrame codec o i = .ok px ∧ m.plane? o.keys[i].2 = some mpl ∧
      (∀ s, o.keys[i].1 = some s → ∃ j, ∃ hj : j < segs.length, segs[j] = s ∧ expectedPlane t mfv j s mpl = some px) ∧
      (o.keys[i].1 = none → ∀ j (hj : j < segs.length),
          expectedPlane t mfv j segs[j] mpl = some (px.map fun v => if v = segs[j] then 1 else 0)) :=
  frame_expected codec hcodec rows cols t segs mfv omt order m (fun p hp => List.mem_range.mp (hperm.subset hp)) o hb i hi

/-- (10d) **A mask handed over as a total pixel matrix** (`tile_pixel_array=True`; also every level of a segmentation
pyramid, which is such a segmentation of its own).  The `R × C` matrix is cut into `tr × tc` tiles in the row-major order of
`compute_tile_positions_per_frame`, edge tiles padded with background (`tileMask`); the tiles are the planes of the frame loop,
so everything above applies to them (types, dtype classes, empty tiles omitted, any frame size mod 8, native or encapsulated).
If the object is built (`buildTiled … = .ok o`, which by (10g) is the constructor in the source's own order; in particular
the matrix passed its pixel checks), then for every pixel (r, c) of the matrix and every described segment, the value found in the frame of the tile that covers the pixel -- tile number
`(r / tr) * ⌈C / tc⌉ + c / tc`, position `(r % tr) * tc + c % tc`, which is where `get_total_pixel_matrix` takes it from --
is the property's expectation for that pixel.  (The reassembly itself, for every region and frame order, is C04's
`region_assembly` / `tile_then_read`.) -/
theorem C01_roundtrip_tiled (codec : Option Codec) (hcodec : ∀ c, codec = some c → ∀ x, c.dec (c.enc x) = x)
    (R C tr tc : Nat) (hR : 1 ≤ R) (hC : 1 ≤ C) (htr : 1 ≤ tr) (htc : 1 ≤ tc) (t : SegType) (segs : List Nat) (mfv : Nat)
    (omt : Bool) (m : Mask) (o : SegObj) (hb : buildTiled codec R C tr tc t segs mfv omt m = .ok o) :
    ∃ mpl out, m.plane? 0 = some mpl ∧
      readBySource codec o (List.range (tilesAlong R tr * tilesAlong C tc)) .assertEmpty = .ok out ∧
      ∀ j (hj : j < segs.length), ∃ e, expectedPlane t mfv j segs[j] mpl = some e ∧
        ∀ r c, r < R → c < C →
          ((out[(r / tr) * tilesAlong C tc + c / tc]?.bind (·[j]?)).bind (·[(r % tr) * tc + c % tc]?))
            = some (e.getD (r * C + c) 0) :=
  tiled_roundtrip' codec hcodec R C tr tc hR hC htr htc t segs mfv omt m o hb

/-- (10d') ... put together: **the `R × C` matrix gathered from the tile frames** (`assembleTPM`: pixel (r, c) from the frame of
the tile that covers it, the gathering step of `get_total_pixel_matrix` for the whole matrix) **is, for every described
segment, the property's expectation for the matrix passed in**, pixel for pixel, `R * C` of them.  (Audit 2, C01-3: the
library reads such an object through `get_total_pixel_matrix`, whose region / frame-order / sparse-table logic is C04's
`region_assembly`; here the gathering is the plain positional one, tied to the code by the `tiled` stream, which compares
`get_total_pixel_matrix` with the expectation.) -/
theorem C01_roundtrip_total_pixel_matrix (codec : Option Codec) (hcodec : ∀ c, codec = some c → ∀ x, c.dec (c.enc x) = x)
    (R C tr tc : Nat) (hR : 1 ≤ R) (hC : 1 ≤ C) (htr : 1 ≤ tr) (htc : 1 ≤ tc) (t : SegType) (segs : List Nat) (mfv : Nat)
    (omt : Bool) (m : Mask) (o : SegObj) (hb : buildTiled codec R C tr tc t segs mfv omt m = .ok o) :
    ∃ mpl out, m.plane? 0 = some mpl ∧
      readBySource codec o (List.range (tilesAlong R tr * tilesAlong C tc)) .assertEmpty = .ok out ∧
      ∀ j (hj : j < segs.length), ∃ e, expectedPlane t mfv j segs[j] mpl = some e ∧ e.length = R * C ∧
        assembleTPM out R C tr tc j = e.map some :=
  tiled_assembled codec hcodec R C tr tc hR hC htr htc t segs mfv omt m o hb

/-- (10e) **Bridge for (10d)** (T6, T7b): the tiles `tileMask` cuts by plain list arithmetic (`tilesOf`) are exactly what the
source's own functions produce, as C04 models them from the regenerated expressions: `get_tile_array` (bounds, padding:
`Gen.tileArrayBounds`, T6) at every offset `compute_tile_positions_per_frame` lists (tile counts: `Gen.tilesPerAxisFloor`,
T7b), in that order, each flattened row-major -- for every matrix size, tile size and pixel type. -/
theorem tiles_are_get_tile_array {α} (z : α) (R C tr tc : Nat) (hR : 1 ≤ R) (hC : 1 ≤ C) (htr : 1 ≤ tr) (htc : 1 ≤ tc)
    (px : List α) : tilesViaSource z R C tr tc px = .ok (tilesOf z R C tr tc px) :=
  tilesViaSource_eq z R C tr tc hR hC htr htc px

/-- (10f) **Casting the matrix and cutting it afterwards (the source's order) is cutting first and casting the tiles (the
model's `buildTiled`).**  If `_check_and_cast_pixel_array` accepts the `R × C` matrix, it accepts the tile stack, the array it
returns for the tiles is the tile stack of the array it returns for the matrix, and `SegmentsOverlap` is the same -- for all
four layouts and all types: every check is a maximum, the existence of a pixel with a property, or a per-pixel conversion,
every pixel of the matrix lies in a tile, and the padding of edge tiles is background, which no check notices.  So the
hypothesis `buildTiled … = .ok o` of (10d) speaks about the object the constructor builds.  And a matrix that is refused is
refused tile-wise, with the same kind of error (second part): a channel count that does not fit, an undescribed label, a
non-binary stack, a float out of range, an overlap for a LABELMAP ... sits in some pixel of the matrix, hence in some tile. -/
theorem cast_then_cut_is_cut_then_cast (segs : List Nat) (t : SegType) (R C tr tc : Nat) (hR : 1 ≤ R) (hC : 1 ≤ C)
    (htr : 1 ≤ tr) (htc : 1 ≤ tc) (m : Mask) (hnp : m.numPlanes = 1) (hsz : ∀ sz ∈ m.planeSizes, sz = R * C) :
    (∀ arr ov, castMask segs t m = .ok (arr, ov) →
      castMask segs t (tileMask R C tr tc m) = .ok (tileMask R C tr tc arr, ov)) ∧
    (∀ e, castMask segs t m = .error e → castMask segs t (tileMask R C tr tc m) = .error e) :=
  ⟨fun arr ov hcm => castMask_tileMask segs t R C tr tc hR hC htr htc m hnp hsz arr ov hcm,
   fun e hcm => castMask_tileMask_error segs t R C tr tc hR hC htr htc m hnp hsz e hcm⟩

/-- (10g) **`buildTiled` is the constructor in the source's order.**  `buildTiledSrc` follows `Segmentation.__init__` with
`tile_pixel_array=True` statement by statement: argument checks, `_check_and_cast_pixel_array` on the WHOLE matrix, then the
frame loop over `get_tile_array` tiles of the *cast* array.  It returns the same object, or the same refusal, as `buildTiled`
(which cuts first so that everything proved about `build` applies) -- for every matrix, tile size, type and option.  Hence
(10d) holds for `buildTiledSrc`. -/
theorem buildTiled_is_source_order (codec : Option Codec) (R C tr tc : Nat) (hR : 1 ≤ R) (hC : 1 ≤ C) (htr : 1 ≤ tr)
    (htc : 1 ≤ tc) (t : SegType) (segs : List Nat) (mfv : Nat) (omt : Bool) (m : Mask) :
    buildTiled codec R C tr tc t segs mfv omt m = buildTiledSrc codec R C tr tc t segs mfv omt m :=
  buildTiled_eq_src codec R C tr tc hR hC htr htc t segs mfv omt m

/-- non-vacuity of (10f): a stacked float matrix for a LABELMAP (cast to integers, combined to the described numbers) -/
example : castMask [3, 7] .labelmap (.fltStack [[[1,0],[0,1],[0,0]]]) = .ok (.intLabel [[3,7,0]], .no) ∧
    castMask [3, 7] .labelmap (tileMask 1 3 1 2 (.fltStack [[[1,0],[0,1],[0,0]]])) =
      .ok (tileMask 1 3 1 2 (.intLabel [[3,7,0]]), .no) ∧
    castMask [3, 7] .labelmap (.intStack [[[1,0],[0,1],[1,1]]]) = .error .value ∧
    castMask [3, 7] .labelmap (tileMask 1 3 1 2 (.intStack [[[1,0],[0,1],[1,1]]])) = .error .value := by decide +kernel

/-- non-vacuity of (10d): a 3 × 5 LABELMAP matrix with labels 3 and 300 in 2 × 2 tiles (six tiles, edge tiles padded, three
tiles empty and omitted) is accepted: frames for tiles 0, 2 and 3 ... -/
example : (match buildTiled none 3 5 2 2 .labelmap [3, 300] 255 true
    (.intLabel [[3,0,0,0,300, 0,0,0,0,0, 0,3,0,0,0]]) with
    | .ok o => o.keys
    | .error _ => []) = [(none, 0), (none, 2), (none, 3)] := by decide +kernel

/-- ... and of (10a)-(10c): position indices of a three-plane BINARY mask with two segments, the middle plane empty and
omitted, planes visited in the order 2, 0 -/
example : frameDims [2, 0] [(some 1, 2), (some 1, 0), (some 2, 0)] = [[1, 1], [1, 2], [2, 2]] ∧
    lexLt [1, 2] [2, 2] = true ∧ lexLt [2, 2] [1, 2] = false := by decide +kernel

/-! Non-vacuity: concrete non-trivial inputs satisfying the hypotheses. -/

/-- three 2x3 BINARY frames (frame boundaries not byte aligned, frames smaller than a byte) -/
example : nativeBits 2 3 [[true,false,false,false,false,true],[true,true,false,false,false,false],
    [false,true,false,true,false,true]] = .ok (pack [true,false,false,false,false,true,true,true,false,false,false,false,
      false,true,false,true,false,true]) :=
  packLoop_eq_pack_flatten 2 3 _ (by simp)

/-- a LABELMAP built from a 4-D stack with described numbers 3 and 300 (16-bit), three planes in shuffled order,
    empty frames omitted: the constructor accepts it (so `C01_roundtrip` applies to it) -/
example : ∃ o, build none 1 2 .labelmap [3, 300] 255 true [2, 0, 1]
    (.intStack [[[1,0],[0,1]], [[0,0],[0,0]], [[0,1],[0,1]]]) = .ok o :=
  build_succeeds none 1 2 .labelmap [3, 300] 255 true [2, 0, 1] _ 16 (.intLabel [[3,300],[0,0],[300,300]]) .no
    (by decide) (by decide) (by decide) (by decide)

/-- a FRACTIONAL segmentation from float input with a tie (0.5 * 255 = 127.5 → 128) through a lossless codec -/
example : ∃ o, build (some { enc := id, dec := id }) 1 2 .fractional [1] 255 false [0]
    (.fltLabel [[1/2, 1]]) = .ok o :=
  build_succeeds (some { enc := id, dec := id }) 1 2 .fractional [1] 255 false [0] _ 8 (.fltLabel [[1/2, 1]]) .no
    (by decide) (by decide +kernel) (by decide) (by decide)

example : quantise 255 (1/2) = 128 ∧ quantise 100 (1/8) = 12 ∧ quantise 100 (3/8) = 38 := by decide +kernel

end HdVerif.C01
