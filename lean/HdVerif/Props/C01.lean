import HdVerif.Proofs.SegEncode
/-! # C01  Segmentation masks survive encode, write and read unchanged

Property theorems only (helper lemmas: `Proofs/SegEncode.lean`, `Proofs/Bits.lean`, `Proofs/FrameAccess.lean`).
The model is `Model/SegEncode.lean`; the frame-loop guard, the carry arithmetic, the flush test, the trailing
pad and the admission test on `max_fractional_value` are the definitions *regenerated from seg/sop.py on every
run* (`Gen.segPackGuard`, `segCarryTake`, `segFlushGuard`, `segPadGuard`, `segPadByte`, `segMfvGuard`; T20), the
read side uses the regenerated `stdFrameIndex`, `rawFrameRange`, `bitSlice` (T1, T4, T12). -/
namespace HdVerif.C01
open HdVerif HdVerif.Bits HdVerif.Gen HdVerif.FrameAccess HdVerif.SegEncode HdVerif.SegEncodeLemmas

/-- (1) Bit packing loses nothing: unpacking the packed bits gives the bits back, followed by fewer than
8 zero padding bits up to the byte boundary. -/
theorem unpack_pack (bs : List Bool) :
    ∃ pad, unpack (pack bs) = bs ++ List.replicate pad false ∧ pad < 8 ∧ (bs.length + pad) % 8 = 0 :=
  Bits.unpack_pack bs

/-- (2) **Bits carried from one BINARY frame to the next.**  The native branch of the frame loop exactly as
the source has it now -- translated guard, translated `n_pixels_to_take`, translated flush test -- emits, for
every frame size `rows*cols` (divisible by 8 or not, smaller than 8 or not) and every number of frames, the
packing of the concatenated frames. -/
theorem packLoop_eq_pack_flatten (rows cols : Nat) (frames : List (List Bool))
    (hlen : ∀ f ∈ frames, f.length = rows * cols) :
    nativeBits rows cols frames = .ok (pack frames.flatten) :=
  nativeBits_spec rows cols frames hlen

/-- (2') the guard the source has now carries bits over exactly when a frame is not a whole number of bytes -/
theorem carry_guard_iff (rows cols : Nat) :
    segPackGuard "BINARY" rows cols = .ok (decide ((rows * cols) % 8 ≠ 0)) :=
  segPackGuard_binary rows cols

/-- (3) **Frame extraction, 1 bit**: from the bytes the loop produced (whatever trailing pad follows) the
translated `get_raw_frame` byte range and `decode_frame` bit slice recover frame `i`, for all frame sizes,
frame counts and `i`. -/
theorem frame_extract (rows cols : Nat) (hn : 0 < rows * cols) (frames : List (List Bool))
    (hlen : ∀ f ∈ frames, f.length = rows * cols) (i : Nat) (hi : i < frames.length)
    (bytes : List Nat) (hb : nativeBits rows cols frames = .ok bytes) (pad : List Nat) :
    memFrameBits (bytes ++ pad) rows cols 1 frames.length ((i : Int) + 1) false = .ok frames[i] := by
  rw [nativeBits_spec rows cols frames hlen] at hb
  cases hb
  exact memFrameBits_append frames rows cols hn hlen i hi pad

/-- (3') **Frame extraction, 8 and 16 bit** (FRACTIONAL, LABELMAP): the byte range of frame `i`, decoded
little-endian, is frame `i`. -/
theorem frame_extract_bytes (rows cols bits : Nat) (hb : bits = 8 ∨ bits = 16) (frames : List (List Nat))
    (hlen : ∀ f ∈ frames, f.length = rows * cols) (hr : ∀ f ∈ frames, ∀ v ∈ f, v < 2 ^ bits)
    (i : Nat) (hi : i < frames.length) (pad : List Nat) :
    (memFrameBytes ((frames.flatMap fun f => f.flatMap (leBytes bits)) ++ pad) rows cols 1 bits frames.length
        "MONOCHROME2" ((i : Int) + 1) false).map (unLe bits) = .ok frames[i] := by
  have hflat : (frames.flatMap fun f => f.flatMap (leBytes bits)) = (frames.map fun f => f.flatMap (leBytes bits)).flatten := by
    rw [List.flatMap_def]
  have hlenb : ∀ f ∈ frames.map (fun f => f.flatMap (leBytes bits)), f.length = bits * (rows * cols * 1) / 8 := by
    intro f hf
    obtain ⟨g, hg, rfl⟩ := List.mem_map.mp hf
    rw [leBytes_flat_length _ hb, hlen g hg]
  have hN : ((frames.length : Nat) : Int) = (((frames.map fun f => f.flatMap (leBytes bits)).length : Nat) : Int) := by simp
  rw [hflat, hN, memFrameBytes_append _ _ _ _ (by omega) hlenb i (by simpa using hi)]
  simp only [Except.map, List.getElem_map]
  congr 1
  have hr' := hr frames[i] (List.getElem_mem hi)
  rcases hb with rfl | rfl
  · exact unLe_leBytes8 _ (by simpa using hr')
  · exact unLe_leBytes16 _ (by simpa using hr')

/-- (3'') **Whatever the transport** -- native 1/8/16 bit with the trailing pad as written, or an
encapsulated syntax with a lossless codec -- `get_stored_frame(i+1)` of the object is the `i`-th frame that was
encoded. -/
theorem stored_frame_is_encoded_frame (codec : Option Codec)
    (hcodec : ∀ c, codec = some c → ∀ x, c.dec (c.enc x) = x)
    (o : SegObj) (F : List (List Nat)) (hbits : o.bits = 1 ∨ o.bits = 8 ∨ o.bits = 16)
    (hn : 0 < o.rows * o.cols) (hlen : ∀ f ∈ F, f.length = o.rows * o.cols)
    (hrange : ∀ f ∈ F, ∀ v ∈ f, v < 2 ^ o.bits) (hk : o.keys.length = F.length)
    (hpd : encodePixelData codec o.rows o.cols o.bits F = .ok o.pd) (i : Nat) (hi : i < F.length) :
    readFrame codec o i = .ok F[i] :=
  readFrame_spec codec hcodec o F hbits hn hlen hrange hk hpd i hi

/-- (4) **Stored frames are exactly the comprehension** `[(s, p, pixels s p) | s ← segments, p ← visited planes,
kept]` in loop order: segments outer (a single pass for LABELMAP), planes in `plane_sort_index` order with the
globally empty planes removed when `omit_empty_frames` (unless every plane is empty), and a frame dropped iff it
belongs to a single segment, empty frames are omitted and it is all zero. -/
theorem storedFrames_spec (arr : Mask) (segs : List Nat) (t : SegType) (mfv : Nat) (omt : Bool) (order : List Nat)
    (hcell : ∀ c ∈ cells t segs (planOrder arr omt order).2, ∃ px, cellE arr segs t mfv c.1 c.2 = .ok px) :
    storedFrames arr segs t mfv omt order =
      .ok ((cells t segs (planOrder arr omt order).2).filterMap
            (cellFrame arr segs t mfv (planOrder arr omt order).1)) :=
  storedFrames_eq arr segs t mfv omt order hcell

/-! Non-vacuity -/
example : nativeBits 2 3 [[true,false,false,false,false,true],[true,true,false,false,false,false],
    [false,true,false,true,false,true]] = .ok (pack [true,false,false,false,false,true,true,true,false,false,false,false,
      false,true,false,true,false,true]) :=
  packLoop_eq_pack_flatten 2 3 _ (by simp)

end HdVerif.C01
