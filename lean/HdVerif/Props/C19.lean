import HdVerif.Proofs.PMap
import HdVerif.Proofs.PMapTie
import HdVerif.Proofs.PMapRead
import HdVerif.Proofs.PMapVolume
import HdVerif.Props.C07
/-! # C19  Parametric maps and secondary captures store the given pixels

Property theorems only (helper lemmas: `Proofs/PMap.lean`, and for the secondary capture the C07
development in `Proofs/Codec.lean`).  Regenerated from /repo's current source on every run (tie T):
`Gen.pmPixelDataType`, `Gen.pmPixelDataAttr`, `Gen.pmSyntaxAdmitted`, `Gen.pmBits` (parametric map),
`Gen.pmFrameLoop`, `Gen.pmPlaneSubscript`, `Gen.pmPositionIndex`, `Gen.pmMappingIndex`, `Gen.pmHasMultipleMappings`,
`Gen.pmSharedMappingIndex` (T19l: the loop skeleton of `ParametricMap.__init__` -- which plane becomes which frame and
what is attached to it; `Model/PMap.build` is written with them, so `frame_of_plane_mapping`, `rwvm_of_frame`,
`pixel_data_is_concatenation` are statements about the regenerated loop and break when it changes),
`Gen.scPixelModule` (secondary capture), `Gen.encodeFrameRoute` / `Gen.decodeFrameRoute` / `Gen.bitSlice`
(the frame of a secondary capture and of an encapsulated map goes through `encode_frame`).  Hand-modelled and tied by
the correspondence: the values of a plane in row-major order, the dimension index, reading a frame back from the
native element, finding and applying the real-world value mapping (`Model/PMap.lean`).

Values are opaque cells (the item's little-endian bytes), so "equal" below is bit-exact equality,
NaN payloads, infinities and negative zero included. -/
namespace HdVerif.C19
open HdVerif HdVerif.Gen HdVerif.Codec HdVerif.PMap HdVerif.FrameAccess

/-! ## what is built -/

/-- **Element and bits by dtype; what is refused.**  Given otherwise valid arguments (the model has no field for the
constructor's other refusals: a window width <= 0, a palette colour LUT with float data, source images that do not
belong together, the content label guard), the constructor builds an object exactly for the
inputs of `Admitted`: uint8/uint16 (native byte order) -> `PixelData`, bits allocated = stored = 8*itemsize,
high bit, unsigned; float32 -> `FloatPixelData`, 32 bits; float64 -> `DoubleFloatPixelData`, 64 bits (no bits
stored / high bit / pixel representation); rank 2, 3 or 4; 1..65535 rows and columns; a flat mapping sequence for rank 2/3, a
nested one with one list per channel for rank 4; as many plane positions as planes; a compressed
transfer syntax only for unsigned integers. -/
theorem built_iff_admitted (x : PMInput) :
    (∃ o, build x = .ok o) ↔ ∃ attr ba bs hb pr, Admitted x attr ba bs hb pr := by
  rw [build_iff_admission]
  constructor
  · rintro ⟨⟨t, attr, ba, bs, hb, pr⟩, hv⟩
    exact ⟨attr, ba, bs, hb, pr, admission_sound x t attr ba bs hb pr hv⟩
  · rintro ⟨attr, ba, bs, hb, pr, h⟩
    obtain ⟨t, ht⟩ := admission_complete x attr ba bs hb pr h
    exact ⟨_, ht⟩

/-- ... and the object carries exactly those attributes. -/
theorem element_and_bits (x : PMInput) (o : PMObject) (h : build x = .ok o) :
    Admitted x o.element o.bitsAllocated o.bitsStored o.highBit o.pixelRepresentation ∧
    o.rows = x.r ∧ o.cols = x.c ∧ o.numberOfFrames = x.n * x.m := by
  obtain ⟨t, attr, ba, bs, hb, pr, hadm, rfl, rfl, rfl, rfl, rfl, hr, hc, _, hn, _, _, _⟩ := build_ok x o h
  exact ⟨admission_sound x t _ _ _ _ _ hadm, hr, hc, hn⟩

/-- **`unsupported_refused`** (general form): anything outside `Admitted` raises. -/
theorem unsupported_refused (x : PMInput) (h : ¬ ∃ attr ba bs hb pr, Admitted x attr ba bs hb pr) :
    ∃ e, build x = .error e :=
  build_refused x h

/-- dtypes other than uint8 / uint16 / float32 / float64 (signed integers, wider or narrower types, bool,
complex, non-native byte order of the unsigned types) are refused -/
theorem refuses_unsupported_dtype (x : PMInput)
    (h : ¬ (x.dtypeKind = "u" ∧ (x.dtypeStr = "uint8" ∨ x.dtypeStr = "uint16")) ∧
         ¬ (x.dtypeKind = "f" ∧ (x.dtypeName = "float32" ∨ x.dtypeName = "float64"))) :
    ∃ e, build x = .error e := by
  apply build_refused
  rintro ⟨attr, ba, bs, hb, pr, ha⟩
  rcases ha.dtype with ⟨h1, h2, _⟩ | ⟨h1, h2, _⟩ | ⟨h1, h2, _⟩
  · exact h.1 ⟨h1, h2⟩
  · exact h.2 ⟨h1, Or.inl h2⟩
  · exact h.2 ⟨h1, Or.inr h2⟩

/-- arrays of rank other than 2, 3, 4 are refused -/
theorem refuses_rank (x : PMInput) (h : x.ndim ≠ 2 ∧ x.ndim ≠ 3 ∧ x.ndim ≠ 4) : ∃ e, build x = .error e := by
  apply build_refused
  rintro ⟨attr, ba, bs, hb, pr, ha⟩
  have := ha.rank; omega

/-- a nested mapping sequence with a 2-D / 3-D array, a flat one with a 4-D array, an empty one, or a number
of mapping lists different from the number of channels is refused -/
theorem refuses_mapping_layout (x : PMInput)
    (h : (x.ndim = 4 ∧ x.nested = false) ∨ (x.ndim ≠ 4 ∧ x.nested = true) ∨ x.nMappingLists = 0 ∨ x.nMappingLists ≠ x.m) :
    ∃ e, build x = .error e := by
  apply build_refused
  rintro ⟨attr, ba, bs, hb, pr, ha⟩
  rcases h with ⟨h4, hn⟩ | ⟨h4, hn⟩ | h0 | hc
  · have := ha.layout.mp h4; rw [hn] at this; cases this
  · exact h4 (ha.layout.mpr hn)
  · exact ha.mappings_nonempty h0
  · exact hc ha.mapping_count

/-- a number of plane positions different from the number of planes is refused -/
theorem refuses_position_count (x : PMInput) (h : x.nPositions ≠ x.n) : ∃ e, build x = .error e := by
  apply build_refused
  rintro ⟨attr, ba, bs, hb, pr, ha⟩
  exact h ha.positions

/-- **Arrays whose planes Rows / Columns cannot describe are refused** (0 rows or columns, more than 65535; audit 2, finding
C19-pm-shape-out-of-range fixed in /repo 5a4fe2e: the native arm of the constructor never reached `encode_frame`'s check). -/
theorem refuses_shape_out_of_range (x : PMInput) (h : x.r < 1 ∨ 65535 < x.r ∨ x.c < 1 ∨ 65535 < x.c) : ∃ e, build x = .error e := by
  apply build_refused
  rintro ⟨attr, ba, bs, hb, pr, ha⟩
  have := ha.shape; omega

/-- ... hence every map that is built has at least one pixel per plane and Rows / Columns within 1..65535 (the guard is part of the
regenerated constructor guards: `tie_constructor_guards`, T19t `pmShapeRangeAxes / Lo / Hi`) -/
theorem built_maps_have_describable_shape (x : PMInput) (o : PMObject) (h : build x = .ok o) :
    0 < x.r * x.c ∧ shapeInRange x.r x.c = true := by
  have hs := (element_and_bits x o h).1.shape
  refine ⟨Nat.mul_pos (by omega) (by omega), ?_⟩
  unfold shapeInRange
  simp only [decide_eq_true_eq]; omega

/-- floating point data with an encapsulated transfer syntax is refused -/
theorem refuses_compressed_float (x : PMInput) (hk : x.dtypeKind ≠ "u")
    (hts : x.ts ≠ "1.2.840.10008.1.2" ∧ x.ts ≠ "1.2.840.10008.1.2.1") : ∃ e, build x = .error e := by
  apply build_refused
  rintro ⟨attr, ba, bs, hb, pr, ha⟩
  rcases ha.transfer_syntax with h | h | h
  · exact hts.1 h
  · exact hts.2 h
  · exact hk h.1

/-! ## one frame per plane and mapping, per-frame metadata in the same order -/

/-- **`frame_of_plane_mapping`** (over the regenerated loop skeleton T19l): the object has `n*m` frames; frame `i*m + j` (0-based) holds plane `i` of
channel `j`, i.e. `pixel_array[i, :, :, j]`, and the per-frame functional group at the same index carries
the position of plane `i`, its dimension index, and -- when there are several channels -- the mappings of
channel `j`. -/
theorem frame_of_plane_mapping (x : PMInput) (o : PMObject) (h : build x = .ok o) (i j : Nat) (hi : i < x.n) (hj : j < x.m) :
    o.numberOfFrames = x.n * x.m ∧ o.frames.length = x.n * x.m ∧ o.perFrame.length = x.n * x.m ∧
    o.frames[i * x.m + j]? = some (plane x i j) ∧
    o.perFrame[i * x.m + j]? = some { position := x.pos i, dimensionIndex := dimensionIndex x i,
                                       mappings := if x.m > 1 then some (x.maps j) else none } := by
  obtain ⟨_, _, _, _, _, _, _, _, _, _, _, _, _, _, _, hn, hfr, _, hpf⟩ := build_ok x o h
  refine ⟨hn, ?_, ?_, ?_, ?_⟩
  · rw [hfr, loopNest_length]
  · rw [hpf, loopNest_length]
  · rw [hfr]; exact loopNest_get _ _ _ i j hi hj
  · rw [hpf]; exact loopNest_get _ _ _ i j hi hj

/-- frames at equal positions get equal dimension indices (the index depends on the position only) -/
theorem dimension_index_of_position (x : PMInput) (a b : Nat) (h : x.pos a = x.pos b) :
    dimensionIndex x a = dimensionIndex x b := by
  unfold dimensionIndex; rw [h]

/-- **Dimension Index Values are the ranks of the plane's attribute values**: for every indexed attribute `d`
(Image Position Patient as a whole; or column, row, x, y, z of the slide position) the index written for plane
`a` is `1 +` the number of distinct values over all planes that are (lexicographically) smaller; hence it lies
in `1 .. number of distinct values`, and a plane with a smaller value gets a strictly smaller index. -/
theorem dimension_index_is_rank (x : PMInput) (a d : Nat) (ha : a < x.n) (u : List Rat) (hu : (x.pos a)[d]? = some u) :
    (dimensionIndex x a)[d]? = some (rankIn (attributeValues x d) u) ∧
    1 ≤ rankIn (attributeValues x d) u ∧ rankIn (attributeValues x d) u ≤ (attributeValues x d).eraseDups.length :=
  ⟨dimensionIndex_get x a d u hu, rankIn_bounds _ u (mem_attributeValues x a d ha u hu)⟩

theorem dimension_index_monotone (x : PMInput) (a b d : Nat) (ha : a < x.n) (u v : List Rat)
    (hu : (x.pos a)[d]? = some u) (hv : (x.pos b)[d]? = some v) (hlt : lexLt u v = true) :
    ∃ ra rb, (dimensionIndex x a)[d]? = some ra ∧ (dimensionIndex x b)[d]? = some rb ∧ ra < rb :=
  ⟨_, _, dimensionIndex_get x a d u hu, dimensionIndex_get x b d v hv,
    rankIn_lt _ u v (mem_attributeValues x a d ha u hu) hlt⟩

/-- **`rwvm_of_frame`** (sharing threshold and indices regenerated, T19l): the mappings are shared by all frames iff there is a single channel; otherwise
every frame carries its own, and the mapping list the reader finds for frame `f` is that of channel
`f mod m`. -/
theorem rwvm_of_frame (x : PMInput) (o : PMObject) (h : build x = .ok o) :
    (o.shared = some (x.maps 0) ↔ ¬ x.m > 1) ∧ (o.shared = none ↔ x.m > 1) ∧
    ∀ f, f < x.n * x.m → attachedMappings o f = .ok (x.maps (f % x.m)) := by
  obtain ⟨_, _, _, _, _, _, _, _, _, _, _, _, _, _, _, _, _, hsh, _⟩ := build_ok x o h
  refine ⟨?_, ?_, fun f hf => attachedMappings_build x o h f hf⟩
  · rw [hsh]; by_cases hm : x.m > 1 <;> simp [hm]
  · rw [hsh]; by_cases hm : x.m > 1 <;> simp [hm]

/-! ## stores the values bit-exactly; reading returns them -/

/-- **`bytes_exact`, storing** (native transfer syntaxes; frame order from the regenerated loop, T19l, which also checks
`b''.join(frames)` into the element of T19a and the little-endian `tobytes` of `_encode_frame`; that a plane's cells are
the array's items in row-major order is tied by the correspondence, byte for byte, for every generated map incl. float
maps with NaN payloads): the pixel data element is the concatenation, in frame order, of the cells of each plane in
row-major order -- nothing is converted, rounded or re-ordered. -/
theorem pixel_data_is_concatenation (x : PMInput) (o : PMObject) (h : build x = .ok o) (hts : x.ts ∈ nativeSyntaxes) :
    o.pixelData = ((loopNest x.n x.m (plane x)).map List.flatten).flatten := by
  obtain ⟨_, _, _, _, _, _, _, _, _, _, _, _, _, _, _, _, hfr, _, _⟩ := build_ok x o h
  unfold PMObject.pixelData; rw [hfr]

/- Full statement (does NOT hold on the current code, see `counterexample_float_frames`):
   stored_frames_exact : build x = .ok o → CellsWF x → f < x.n * x.m →
       readStoredFrame o f = .ok (plane x (f / x.m) (f % x.m)) -/
/-- **`bytes_exact`, reading** (partial: maps stored in `PixelData`, i.e. uint8 / uint16; **native transfer syntaxes** --
`readStoredFrame` slices the native element; encapsulated maps: `stored_frames_exact_encapsulated_partial`): for every
shape, every number of planes and channels and every content, reading frame `f` through the image interface
returns exactly the cells of plane `f / m`, channel `f mod m`. -/
theorem stored_frames_exact_partial (x : PMInput) (o : PMObject) (h : build x = .ok o) (hts : x.ts ∈ nativeSyntaxes)
    (hel : o.element = "PixelData") (hw : CellsWF x) (f : Nat) (hf : f < x.n * x.m) :
    readStoredFrame o f = .ok (plane x (f / x.m) (f % x.m)) :=
  readStoredFrame_build x o h hel hw f hf

/-- **`bytes_exact`, reading, encapsulated maps** (RLE Lossless, JPEG-LS Lossless; uint8 / uint16 -- the only dtypes
admitted there): every plane goes through `encode_frame` (C07's regenerated tree) with the data set's own attributes and
the items are kept in frame order (T19l); if the codec behind it is lossless on `codecRegion` (the law the correspondence
demands of the real codecs on that region; `HdVerif.C07.tagCodec` obeys it and accepts), reading frame `f` returns the
values of plane `f / m`, channel `f mod m`.  JPEG 2000 Lossless is admitted by the constructor but outside the region (no
encoder installed: nothing observed). -/
theorem stored_frames_exact_encapsulated_partial (c : CodecImpl) (hc : c.LosslessOn codecRegion) (conv : List Int → List Int)
    (x : PMInput) (e : PMEncapsulated) (h : buildEncapsulated c x = .ok e) (hts : x.ts = rle ∨ x.ts = jpegLs)
    (f : Nat) (hf : f < x.n * x.m) :
    readStoredFrameEncapsulated c conv x.ts e f = .ok ((plane x (f / x.m) (f % x.m)).map cellValue) :=
  readStoredFrameEncapsulated_build c hc conv x e h hts f hf

/-- **An encapsulated map read through highdicom's own readers** (`get_stored_frame`, the pixel transform, `ImageFileReader`:
the call regenerated in T13g): for item `f` they return the values of plane `f / m`, channel `f mod m` whatever frame index they
pass -- the index has no effect on encapsulated data (`C07.decode_index_has_no_effect`). -/
theorem stored_frames_exact_encapsulated_through_readers_partial (c : CodecImpl) (hc : c.LosslessOn codecRegion)
    (conv : List Int → List Int) (x : PMInput) (e : PMEncapsulated) (h : buildEncapsulated c x = .ok e)
    (hts : x.ts = rle ∨ x.ts = jpegLs) (f : Nat) (hf : f < x.n * x.m) (b : List Nat) (hb : e.items[f]? = some b) (index : Int) :
    readFrame c conv (e.obj.module x.ts) b index = .ok ((plane x (f / x.m) (f % x.m)).map cellValue) := by
  have henc : isEncapsulated x.ts = true := by rcases hts with h | h <;> rw [h] <;> decide
  rw [pm_encapsulated_readers_eq c conv x.ts e f b hb henc index]
  exact readStoredFrameEncapsulated_build c hc conv x e h hts f hf

/- Full statement: every admitted integer map; here uint8 / uint16 cells (`itemsize` 1 or 2) -- the only integer dtypes the
   constructor admits -- and Rows / Columns in 1..65535, which every built map has (`built_maps_have_describable_shape`). -/
/-- **The native read path goes through `decode_frame`** (closing the step from cells to numbers): what a reader of the image
classes (`readFrame`: the call regenerated in T13g, dispatch T13c) makes of the raw bytes of a frame of a native uint8 / uint16
map is the little-endian value of every cell of the plane -- the `cellValue`s that `read_applies_attached_mapping_partial` feeds to
the real-world value mapping -- for any frame index.  (Cells of `itemsize` bytes below 256: what numpy's `tobytes` yields.) -/
theorem native_frame_through_decode_frame_partial (c : CodecImpl) (conv : List Int → List Int) (x : PMInput) (o : PMObject)
    (h : build x = .ok o) (hts : x.ts ∈ nativeSyntaxes) (hel : o.element = "PixelData") (hw : CellsWF x)
    (hbytes : ∀ i k j, ∀ b ∈ x.cell i k j, b < 256) (hsz : x.itemsize = 1 ∨ x.itemsize = 2)
    (hshape : shapeInRange x.r x.c = true) (i j : Nat) (index : Int) :
    readFrame c conv (o.module x.ts) (plane x i j).flatten index = .ok ((plane x i j).map cellValue) :=
  native_frame_through_decode c conv x o h hts hel hw hbytes hsz hshape i j index

/-- frame numbers beyond the image are refused (native) -/
theorem stored_frame_out_of_range (x : PMInput) (o : PMObject) (h : build x = .ok o) (hts : x.ts ∈ nativeSyntaxes)
    (hel : o.element = "PixelData") (f : Nat) (hf : x.n * x.m ≤ f) : readStoredFrame o f = .error .index := by
  obtain ⟨_, _, _, _, _, _, _, _, _, _, _, _, _, _, _, hn, _, _, _⟩ := build_ok x o h
  unfold readStoredFrame
  rw [hn, if_pos (by omega)]

/-- **Open finding C19-float-frames-unreadable**: no frame of a map stored in `FloatPixelData` /
`DoubleFloatPixelData` can be read through the image interface on a fresh object (AttributeError; a number beyond the image is an
IndexError first, as for every map), although the object is built and its pixel data element is exact
(`pixel_data_is_concatenation`). -/
theorem counterexample_float_frames (x : PMInput) (o : PMObject) (h : build x = .ok o) (hf32 : x.dtypeKind = "f") (f : Nat)
    (hf : f < x.n * x.m) :
    readStoredFrame o f = .error .attribute := by
  have hnf : f < o.numberOfFrames := by rw [(element_and_bits x o h).2.2.2]; exact hf
  refine readStoredFrame_float o ?_ f hnf
  obtain ⟨had, _⟩ := element_and_bits x o h
  rcases had.dtype with ⟨hk, _⟩ | ⟨_, _, he, _⟩ | ⟨_, _, he, _⟩
  · rw [hf32] at hk; exact absurd hk (by decide)
  · rw [he]; decide
  · rw [he]; decide

/- Full statement: as below for every dtype. -/
/-- **`read_applies_attached_mapping`** (partial in the same way: integer maps, native transfer syntaxes; the mapping is
applied with exact rational arithmetic -- `image.py` computes `frame * slope + intercept` in float64, the generator draws
dyadic slopes / intercepts / table entries on which both agree; batch reads `get_frames`, `get_volume` and the lazy path
are covered by the oracle only): reading frame `f` with the real-world
value transform applies, to the stored values of plane `f / m`, channel `f mod m`, the mapping selected
(by index, negative index, label or unit) from the mappings **of that channel** -- a look-up in its table
(also a table with one entry) or `slope * x + intercept`, refusing values outside the mapped range -- and nothing else. -/
theorem read_applies_attached_mapping_partial (x : PMInput) (o : PMObject) (h : build x = .ok o)
    (hts : x.ts ∈ nativeSyntaxes) (hel : o.element = "PixelData") (hw : CellsWF x) (f : Nat) (hf : f < x.n * x.m)
    (sel : Selector) :
    readReal o f sel =
      (select (x.maps (f % x.m)) sel).bind (fun mp => applyMapping mp ((plane x (f / x.m) (f % x.m)).map cellValue)) :=
  readReal_build x o h hel hw f hf sel

/-- the mapping that is applied is one of the frame's own mappings, and a one-entry table maps the frame that holds only
its value (the input class of the fixed finding C19-rwvm-single-entry-lut) -/
theorem read_single_entry_table (x : PMInput) (o : PMObject) (h : build x = .ok o) (hts : x.ts ∈ nativeSyntaxes)
    (hel : o.element = "PixelData") (hw : CellsWF x) (f : Nat) (hf : f < x.n * x.m) (sel : Selector) (mp : Mapping)
    (hsel : select (x.maps (f % x.m)) sel = .ok mp) (hlut : mp.isLut = true) (y : Rat) (hone : mp.lut = [y])
    (v : Int) (hv : mp.first = (v : Rat)) (k : Nat) (hp : (plane x (f / x.m) (f % x.m)).map cellValue = List.replicate k v) :
    mp ∈ x.maps (f % x.m) ∧ readReal o f sel = .ok (List.replicate k y) := by
  refine ⟨select_mem _ _ _ hsel, ?_⟩
  rw [readReal_build x o h hel hw f hf sel, hsel, hp]
  clear hp
  show applyMapping mp _ = _
  unfold applyMapping
  rw [if_pos hlut, hv, hone]
  induction k with
  | zero => rfl
  | succ n ih =>
    rw [List.replicate_succ, List.mapM_cons, ih]
    simp
    rfl

/-- **`RealWorldValueMapping` accepts exactly** a look-up table for an integer range with one entry per value of the
range and neither slope nor intercept, or a slope together with an intercept and no table (regenerated from
`pm/content.py`). -/
theorem mapping_constructor_iff (lut slope icpt : Option Int) (isFloat : Bool) (first last r : Int) :
    rwvmInit lut slope icpt isFloat first last = .ok r ↔
      (r = 1 ∧ ∃ n, lut = some n ∧ slope = none ∧ icpt = none ∧ isFloat = false ∧ n = last - first + 1) ∨
      (r = 2 ∧ lut = none ∧ slope.isSome = true ∧ icpt.isSome = true) :=
  rwvmInit_iff lut slope icpt isFloat first last r

/-- ... hence a mapping that was constructed is **defined on its whole range**: every stored value between the
first and last value mapped has an entry of the table (`lut[v - first]`), resp. is mapped to `slope*v + intercept`;
only values outside are refused. -/
theorem mapping_defined_in_range (mp : Mapping) (v : Int) :
    (∀ f l : Int, mp.isLut = true → mp.first = (f : Rat) → (mp.lut.length : Int) = l - f + 1 → f ≤ v ∧ v ≤ l →
        ∃ y, mp.lut[(v - f).toNat]? = some y ∧ applyMapping mp [v] = .ok [y]) ∧
    (mp.isLut = false → mp.first ≤ (v : Rat) ∧ (v : Rat) ≤ mp.last →
        applyMapping mp [v] = .ok [(v : Rat) * mp.slope + mp.intercept]) :=
  ⟨fun f l hl hf hlen hv => lut_defined_in_range mp f l hl hf hlen v hv, fun hl hv => linear_defined_in_range mp hl v hv⟩


/-! ## every read path, every history (round 2; `Model/PMapRead.lean`, `Proofs/PMapRead.lean`) -/

/- Full statement: for every admitted map; here integer maps in a native transfer syntax (`readStoredFrame` and the byte-range
   skeleton describe the native element; float maps: `float_reads_depend_on_history`; encapsulated maps:
   `stored_frames_exact_encapsulated_through_readers_partial`). -/
/-- **Tie, read paths** (native transfer syntaxes, integer maps): the hand-written `readStoredFrame` (byte range of frame `f`, cells) equals the un-cached branch of
`get_stored_frame` / `get_stored_frames` written with the call skeleton and byte-range / offset arithmetic REGENERATED from
`image.py` and `io.py` for C05 (T1, T1b, T4, T11, T11b, T11c) -- on the in-memory data set and on the lazily read file, for the
1-based frame number and the 0-based index -- and the cached branch (`pixel_array[...]` with the regenerated subscript). -/
theorem tie_read_paths_partial (x : PMInput) (o : PMObject) (h : build x = .ok o) (_hts : x.ts ∈ nativeSyntaxes)
    (hel : o.element = "PixelData") (hw : CellsWF x)
    (hpos : 0 < x.r * x.c * x.itemsize) (f : Nat) (hf : f < x.n * x.m) (sk : Skel) (hsk : sk = singleSkel ∨ sk = batchSkel)
    (how : Holding) (ai : Bool) :
    storedUncached sk how o (frameKey f ai) ai = readStoredFrame o f ∧
    storedCached sk o (frameKey f ai) ai = readStoredFrame o f :=
  read_paths_tie x o h hel hw hpos f hf sk hsk how ai

/- Full statement: the same for float maps (false today: `float_reads_depend_on_history`) and for encapsulated maps (through the
   codec; not modelled as a history). -/
/-- **Reads return the stored values after every history on one object** (integer maps in a NATIVE transfer syntax; induction over
the sequence of operations; the operations are reads -- a caller writing into a returned array is outside the alphabet: since
/repo d078db8 `get_stored_frame` returns a copy also from the cached array, and the stream `history` writes into every returned
frame before it reads again): whatever sequence of `get_stored_frame`, `get_stored_frames` elements, `pixel_array` accesses and
`get_frame(apply_real_world_transform=True, selector)` calls -- in range or refused -- is made on one image object, held in
memory or read lazily, starting with or without a decoded pixel array, every read returns the plane `f / m` of channel
`f mod m` (resp. that plane under the selected mapping of that channel; `IndexError` beyond the image): the cache never changes
what a read returns. -/
theorem reads_after_any_history_partial (how : Holding) (x : PMInput) (o : PMObject) (h : build x = .ok o)
    (_hts : x.ts ∈ nativeSyntaxes) (hel : o.element = "PixelData") (hw : CellsWF x) (hpos : 0 < x.r * x.c * x.itemsize) (hne : 0 < x.n * x.m)
    (ops : List ReadOp) (cached : Bool) :
    run how o cached ops = ops.map (spec x) :=
  run_spec how x o h hel hw hpos hne ops cached

/-- **Open finding C19-float-frames-unreadable, with its history**: for a map stored in `FloatPixelData` /
`DoubleFloatPixelData`, `get_stored_frame` fails on a fresh object, returns the plane (bit-exactly) once `pixel_array` was touched
on the in-memory object, keeps failing on a lazily read one; the real-world transform fails in every state.  What a read returns
depends on what was called before. -/
theorem float_reads_depend_on_history (x : PMInput) (o : PMObject) (h : build x = .ok o) (hel : o.element ≠ "PixelData")
    (f : Nat) (ai : Bool) (hf : f < x.n * x.m) (sel : Selector) (how : Holding) :
    run .memory o false [.stored f ai, .pixelArray, .stored f ai] =
      [.cells (.error .attribute), .done, .cells (.ok (plane x (f / x.m) (f % x.m)))] ∧
    run .lazy o false [.stored f ai, .pixelArray, .stored f ai] =
      [.cells (.error .attribute), .failed .attribute, .cells (.error .attribute)] ∧
    ∀ cached, (step how o cached (.real f ai sel)).2 = .reals (.error .attribute) :=
  PMap.float_reads_depend_on_history x o h hel f ai hf sel how

/-- **Bit-exact storage as a statement about bit patterns** (every dtype, every element; NATIVE transfer syntaxes -- `pixelData` is
the native element): with the array's items given as
`itemsize`-byte patterns -- for float32 / float64 the IEEE 754 pattern, so NaN payloads, infinities, negative zero and
denormals are patterns like any other -- the element holds, at byte offset `((f * rows*columns) + p) * itemsize`, little-endian,
the pattern of pixel `p` of plane `f / m`, channel `f mod m`: nothing is normalised, rounded, or re-ordered. -/
theorem element_holds_bit_patterns (x : PMInput) (o : PMObject) (h : build x = .ok o) (_hts : x.ts ∈ nativeSyntaxes)
    (bits : Nat → Nat → Nat → Nat)
    (hcell : ∀ i p j, x.cell i p j = leBytes x.itemsize (bits i p j)) (hb : ∀ i p j, bits i p j < 256 ^ x.itemsize)
    (f p : Nat) (hf : f < x.n * x.m) (hp : p < x.r * x.c) :
    ofLeBytes ((o.pixelData.drop ((f * (x.r * x.c) + p) * x.itemsize)).take x.itemsize) = bits (f / x.m) p (f % x.m) :=
  PMap.element_holds_bit_patterns x o h bits hcell hb f p hf hp

/-! ## the volume (`Image.get_volume`; `Model/PMapVolume.lean`, `Proofs/PMapVolume.lean`) -/

/- Full statement: for every admitted map and every read state; here integer maps in a native transfer syntax (float maps:
   `get_volume` fails, open finding) and with all pixel transforms off (with the real-world transform every frame goes through the
   pixel transform of ITS index with the caller's selector: `tie_read_forwarding` (T19f) + `read_applies_attached_mapping_partial`;
   oracle `rwvm-volume`). -/
/-- **The voxels of the volume are the stored pixels.**  `getVolume` = `Image.get_volume` on a parametric map in the patient
coordinate system: the refusal of positions that do not identify frames, C11's model of the stack assembly `Stack.assembleFrames`
(hand-written there, tied by C11's streams and theorems; used unchanged) on the planes' Image Position (Patient), and the frame
loop of `_get_pixels_by_frame` with C05's REGENERATED frame fetch (T1c `pixelsRawArgs`, `pixelsCacheIndex`, `pixelsSingleGuard`).
For a single-channel map whose planes have distinct positions: whatever the assembly decides (spacing, origin, `n` slices, plane
`i` to slice `vp[i]`), the volume has `n` slices, slice `vp[i]` holds exactly the cells of plane `i` -- voxel `(vp[i], r, c)` is
item `r * columns + c` of `pixel_array[i]` -- whether the pixel array was decoded before or not, and every slice that no plane is
assigned to is blank.  (Which slice that is -- the rank of the plane along the normal, independent of the frame order -- is C11's
`multiframe_assembly_order_independent` / `multiframe_gaps_assembly_order_independent`.) -/
theorem volume_voxel_is_stored_pixel_partial (x : PMInput) (o : PMObject) (h : build x = .ok o) (_hts : x.ts ∈ nativeSyntaxes)
    (hel : o.element = "PixelData") (hw : CellsWF x) (hpos : 0 < x.r * x.c * x.itemsize) (cached : Bool) (ori : List Rat)
    (hint rtol atol : Option Rat) (am : Bool) (hm : x.m = 1) (hnd : (positionRows x).Nodup) (sp : Rat) (origin : List Rat) (n : Int)
    (vp : List Int) (ha : Stack.assembleFrames (positionRows x) ori hint rtol atol am = .ok (sp, origin, n, vp))
    (hvl : vp.length = x.n) (hvn : vp.Nodup) (hvr : ∀ v ∈ vp, 0 ≤ v ∧ v < n) :
    ∃ slices, getVolume x o cached ori hint rtol atol am = .ok (sp, origin, slices) ∧ slices.length = n.toNat ∧
      (∀ i (hi : i < x.n), ∃ v, vp[i]? = some v ∧ slices[v.toNat]? = some (some (plane x i 0))) ∧
      (∀ s, s < n.toNat → (s : Int) ∉ vp → slices[s]? = some none) :=
  getVolume_build x o h hel hw hpos cached ori hint rtol atol am hm hnd sp origin n vp ha hvl hvn hvr

/-- **... and under the real-world transform every voxel is the stored pixel mapped by the mapping selected from the mappings
attached to ITS frame** (`getVolumeReal`; single channel: the shared mappings `x.maps 0`; the selector reaches every frame's
transform: `tie_read_forwarding`, T19f): slice `vp[i]` holds `applyMapping mp` of the values of plane `i`; a failing selection or
one value outside the mapped range refuses the whole call (then `hmap` cannot hold). -/
theorem volume_voxel_under_mapping_partial (x : PMInput) (o : PMObject) (h : build x = .ok o) (_hts : x.ts ∈ nativeSyntaxes)
    (hel : o.element = "PixelData") (hw : CellsWF x) (hpos : 0 < x.r * x.c * x.itemsize) (cached : Bool) (ori : List Rat)
    (hint rtol atol : Option Rat) (am : Bool) (sel : Selector) (hm : x.m = 1) (hnd : (positionRows x).Nodup) (sp : Rat)
    (origin : List Rat) (n : Int) (vp : List Int)
    (ha : Stack.assembleFrames (positionRows x) ori hint rtol atol am = .ok (sp, origin, n, vp))
    (hvl : vp.length = x.n) (hvn : vp.Nodup) (hvr : ∀ v ∈ vp, 0 ≤ v ∧ v < n) (vals : Nat → List Rat)
    (hmap : ∀ i, i < x.n → (select (x.maps 0) sel).bind (fun mp => applyMapping mp ((plane x i 0).map cellValue)) = .ok (vals i)) :
    ∃ slices, getVolumeReal x o cached ori hint rtol atol am sel = .ok (sp, origin, slices) ∧ slices.length = n.toNat ∧
      (∀ i (hi : i < x.n), ∃ v, vp[i]? = some v ∧ slices[v.toNat]? = some (some (vals i))) ∧
      (∀ s, s < n.toNat → (s : Int) ∉ vp → slices[s]? = some none) :=
  getVolumeReal_build x o h hel hw hpos cached ori hint rtol atol am sel hm hnd sp origin n vp ha hvl hvn hvr vals hmap

/-- a map with several channels (every position carries several frames) or with planes at equal positions has no volume:
`get_volume` refuses ("positions do not uniquely identify frames") -/
theorem volume_refused_when_positions_shared (x : PMInput) (o : PMObject) (cached : Bool) (ori : List Rat)
    (hint rtol atol : Option Rat) (am : Bool) (hbad : x.m ≠ 1 ∨ ¬ (positionRows x).Nodup) :
    getVolume x o cached ori hint rtol atol am = .error .runtime :=
  getVolume_refuses_shared_positions x o cached ori hint rtol atol am hbad

/-! ## secondary captures -/

/-- **The image pixel module of `SCImage`** (regenerated decision block) accepts exactly `SCAccepted`: bool
with 1 bit, uint8 with 8, uint16 with 16 or 12 (12 is written **as given** -- Bits Allocated 12 over 16-bit cells,
which PS3.5 8.1.1 does not allow: `counterexample_sc_bits_allocated_12`); 2-D arrays as MONOCHROME1/2,
(r, c, 3) uint8 arrays with the colour photometric interpretation the syntax takes; RLE only with whole
bytes -- and writes the bits, samples per pixel and planar configuration stated there. -/
theorem sc_module_iff (ba : Int) (pi ts dtypeStr : String) (ndim lastDim arrayMax BA BS HB PR SPP PC : Int) :
    scPixelModule ba pi ts dtypeStr ndim lastDim arrayMax = .ok (BA, BS, HB, PR, SPP, PC) ↔
      SCAccepted ba pi ts dtypeStr ndim lastDim arrayMax BA BS HB PR SPP PC := by
  constructor
  · intro h; exact scPixelModule_sound _ _ _ _ _ _ _ _ h
  · intro hs
    cases hm : scPixelModule ba pi ts dtypeStr ndim lastDim arrayMax with
    | error e => exact absurd hm (fun hm => scPixelModule_not_refused _ _ _ _ _ _ _ _ _ _ _ _ _ e hs hm)
    | ok v =>
      have hv := scPixelModule_sound _ _ _ _ _ _ _ _ hm
      obtain ⟨_, _, hsh, hb⟩ := hs
      obtain ⟨_, _, hsh', hb'⟩ := hv
      obtain ⟨a1, a2, a3, a4, a5, a6⟩ := v
      simp only at hsh' hb'
      have e1 : a1 = BA := by rw [hb'.1, hb.1]
      have e2 : a2 = BS := by rw [hb'.2.1, hb.2.1]
      have e3 : a3 = HB := by rw [hb'.2.2.1, hb.2.2.1]
      have e4 : a4 = PR := by rw [hb'.2.2.2, hb.2.2.2]
      have e56 : a5 = SPP ∧ a6 = PC := by
        rcases hsh with ⟨h3, _, _, _, _, s1, p1⟩ | ⟨h2, _, s1, p1⟩ <;>
          rcases hsh' with ⟨h3', _, _, _, _, s2, p2⟩ | ⟨h2', _, s2, p2⟩ <;> omega
      rw [e1, e2, e3, e4, e56.1, e56.2]

/- Full statement: as below without `hpi` and `h12`. -/
/-- **`sc_decodes_equal`** (native syntaxes; partial: `YBR_FULL` excluded, which pydicom converts to RGB by
default -- finding C07-ybr-full-decoded-as-rgb; `bits_allocated = 12` excluded, which no conforming decoder
reads -- finding C19-sc-bits-allocated-12, `counterexample_sc_bits_allocated_12`): whenever `SCImage` builds an
object from a well-formed array, what pydicom decodes from it (a one-frame image with the written attributes) is
the array: bool, uint8, uint16 with 16 bits, monochrome or RGB, every shape, every content. -/
theorem sc_decodes_equal_partial (c : CodecImpl) (conv : List Int → List Int) (ts pi : String) (ba : Int) (x : Frame)
    (o : SCObject) (hwf : x.WF) (hts : ts ∈ nativeSyntaxes) (hpi : pi ≠ "YBR_FULL") (h12 : ba ≠ 12)
    (h : scBuild c ts pi ba x = .ok o) : scDecode c conv ts o = .ok x.data :=
  sc_native_decodes c conv ts pi ba x o hwf hts hpi h12 h

/-- **A secondary capture read through highdicom's own readers** (`get_stored_frame`, `get_stored_frames`, the pixel transform
behind `get_frame`, `ImageFileReader.read_frame`: each hands `decode_frame` the data set's attributes -- C07's `tie_call_sites`
over the regenerated call sites T13g -- and its own frame index) gives the array as well, whatever index is passed; same
partiality as `sc_decodes_equal_partial`. -/
theorem sc_readers_return_array_partial (c : CodecImpl) (conv : List Int → List Int) (ts pi : String) (ba : Int) (x : Frame)
    (o : SCObject) (hwf : x.WF) (hts : ts ∈ nativeSyntaxes) (hpi : pi ≠ "YBR_FULL") (h12 : ba ≠ 12)
    (h : scBuild c ts pi ba x = .ok o) (index : Int) :
    readFrame c conv (o.module ts) o.frameBytes index = .ok x.data := by
  rw [sc_readers_eq_decode c conv ts pi ba x o h index]
  exact sc_native_decodes c conv ts pi ba x o hwf hts hpi h12 h

/-- **Counterexample to the full `sc_decodes_equal`** (open finding C19-sc-bits-allocated-12): every secondary
capture `SCImage` builds with `bits_allocated = 12` in a native syntax -- and it builds one from every 2-D uint16
array -- carries Bits Allocated 12, which pydicom's decoder refuses: the stored pixels cannot be read back. -/
theorem counterexample_sc_bits_allocated_12 (c : CodecImpl) (conv : List Int → List Int) (ts pi : String) (x : Frame)
    (o : SCObject) (hts : ts ∈ nativeSyntaxes) (h : scBuild c ts pi 12 x = .ok o) :
    o.bitsAllocated = 12 ∧ scDecode c conv ts o = .error .value := by
  refine ⟨?_, sc_twelve_undecodable c conv ts pi x o hts h⟩
  obtain ⟨mod, bytes, hmod, _, rfl⟩ := scBuild_ok c ts pi 12 x o h
  exact (sc_request ts pi 12 x mod hmod).2.2.1

/-- the same for RLE / JPEG-LS, conditional on the codec's law `LosslessOn codecRegion` (the region on which the
correspondence demands it of the real codecs; a secondary capture stores as many bits as it allocates, so its RLE requests
lie inside; `HdVerif.C07.tagCodec` is a non-trivial codec obeying the law) -/
theorem sc_decodes_equal_encapsulated_partial (c : CodecImpl) (hc : c.LosslessOn codecRegion) (conv : List Int → List Int)
    (ts pi : String) (ba : Int) (x : Frame) (o : SCObject) (hts : ts = rle ∨ ts = jpegLs)
    (hnc : convertsColour pi x.spp = false) (h : scBuild c ts pi ba x = .ok o) : scDecode c conv ts o = .ok x.data :=
  sc_encapsulated_decodes c hc conv ts pi ba x o hts hnc h

/-- **`unsupported_refused`, secondary capture**: an array / bits allocated / photometric interpretation outside
`SCAccepted` raises before anything is encoded. -/
theorem sc_unsupported_refused (c : CodecImpl) (ts pi : String) (ba : Int) (x : Frame)
    (h : ¬ ∃ BA BS HB PR SPP PC, SCAccepted ba pi ts x.dtype.name x.ndim
        (match x.samples with | none => (x.cols : Int) | some s => s) x.max BA BS HB PR SPP PC) :
    ∃ e, scBuild c ts pi ba x = .error e :=
  scBuild_refused c ts pi ba x h

/-- signed, wider and floating point arrays are refused by `SCImage` -/
theorem sc_refuses_dtype (c : CodecImpl) (ts pi : String) (ba : Int) (x : Frame)
    (h : x.dtype ≠ .bool ∧ x.dtype ≠ .u8 ∧ x.dtype ≠ .u16) : ∃ e, scBuild c ts pi ba x = .error e := by
  apply scBuild_refused
  rintro ⟨BA, BS, HB, PR, SPP, PC, hs⟩
  obtain ⟨h1, h2, h3⟩ := dtype_of_name x.dtype
  rcases hs.depth with ⟨hd, _⟩ | ⟨hd, _⟩ | ⟨hd, _⟩
  · exact h.1 (h1.mp hd)
  · exact h.2.1 (h2.mp hd)
  · exact h.2.2 (h3.mp hd)

/-- a bits-allocated value that does not belong to the dtype is refused -/
theorem sc_refuses_depth (c : CodecImpl) (ts pi : String) (ba : Int) (x : Frame)
    (h : (x.dtype = .bool ∧ ba ≠ 1) ∨ (x.dtype = .u8 ∧ ba ≠ 8) ∨ (x.dtype = .u16 ∧ ba ≠ 12 ∧ ba ≠ 16)) :
    ∃ e, scBuild c ts pi ba x = .error e := by
  apply scBuild_refused
  rintro ⟨BA, BS, HB, PR, SPP, PC, hs⟩
  obtain ⟨h1, h2, h3⟩ := dtype_of_name x.dtype
  rcases h with ⟨hd, hb⟩ | ⟨hd, hb⟩ | ⟨hd, hb1, hb2⟩
  · rcases hs.depth with ⟨_, e⟩ | ⟨e, _⟩ | ⟨e, _⟩
    · exact hb e
    · rw [hd] at e; simp [DType.name] at e
    · rw [hd] at e; simp [DType.name] at e
  · rcases hs.depth with ⟨e, _⟩ | ⟨_, e⟩ | ⟨e, _⟩
    · rw [hd] at e; simp [DType.name] at e
    · exact hb e
    · rw [hd] at e; simp [DType.name] at e
  · rcases hs.depth with ⟨e, _⟩ | ⟨e, _⟩ | ⟨_, e⟩
    · rw [hd] at e; simp [DType.name] at e
    · rw [hd] at e; simp [DType.name] at e
    · omega

/-- arrays that are neither 2-D nor (r, c, 3), colour arrays that are not 8-bit unsigned, and photometric
interpretations that do not fit the rank are refused -/
theorem sc_refuses_shape (c : CodecImpl) (ts pi : String) (ba : Int) (x : Frame)
    (h : (∃ s, x.samples = some s ∧ (s ≠ 3 ∨ x.dtype ≠ .u8)) ∨ (x.samples = none ∧ pi ≠ "MONOCHROME1" ∧ pi ≠ "MONOCHROME2")) :
    ∃ e, scBuild c ts pi ba x = .error e := by
  apply scBuild_refused
  rintro ⟨BA, BS, HB, PR, SPP, PC, hs⟩
  obtain ⟨_, h2, _⟩ := dtype_of_name x.dtype
  have hsh := hs.shape
  unfold Frame.ndim at hsh
  rcases h with ⟨s, hsm, hbad⟩ | ⟨hsm, hp1, hp2⟩
  · rw [hsm] at hsh
    simp only at hsh
    rcases hsh with ⟨_, hl, _, hd, _⟩ | ⟨hn, _⟩
    · rcases hbad with hbad | hbad
      · exact hbad (by exact_mod_cast hl)
      · exact hbad (h2.mp hd)
    · exact absurd hn (by decide)
  · rw [hsm] at hsh
    simp only at hsh
    rcases hsh with ⟨hn, _⟩ | ⟨_, hp, _⟩
    · exact absurd hn (by decide)
    · rcases hp with hp | hp
      · exact hp1 hp
      · exact hp2 hp

/-! ## non-vacuity -/

/-- a 2-plane, 2-channel uint16 map of 1x2 pixels: frames in the order (0,0) (0,1) (1,0) (1,1) -/
def exampleInput : PMInput :=
  { dtypeKind := "u", dtypeName := "uint16", dtypeStr := "uint16", itemsize := 2, ndim := 4, n := 2, r := 1, c := 2, m := 2,
    cell := fun i k j => [(i * 2 + k) * 2 + j + 1, 0], nested := true, nMappingLists := 2,
    maps := fun j => [{ label := if j = 0 then "a" else "b", unit := "1", isLut := false, first := 0, last := 65535,
                        slope := 3 / 2, intercept := 1, lut := [] }],
    nPositions := 2, pos := fun i => [[0, 0, (if i = 0 then 5 else 3)]], ts := "1.2.840.10008.1.2.1" }

example : (build exampleInput).toOption.map (fun o => (o.element, o.bitsAllocated, o.numberOfFrames, o.pixelData)) =
    some ("PixelData", 16, 4, [1,0, 3,0, 2,0, 4,0, 5,0, 7,0, 6,0, 8,0]) := by decide
example : (build exampleInput).toOption.map (fun o => readStoredFrame o 2) = some (.ok [[5, 0], [7, 0]]) := by decide
example : CellsWF exampleInput := by intro i k j; rfl
/-- a float32 input is admitted (and then cannot be read back frame by frame) -/
example : (build { exampleInput with dtypeKind := "f", dtypeName := "float32", dtypeStr := "float32", itemsize := 4 }).toOption.map
    (fun o => (o.element, o.bitsAllocated, o.bitsStored)) = some ("FloatPixelData", 32, -1) := by decide

private def noCodec : CodecImpl := ⟨fun _ _ _ _ _ => .error .other, fun _ _ _ _ _ => .error .other⟩

/-- a 1x3 uint16 secondary capture with 16 bits decodes to itself -/
example : (scBuild noCodec "1.2.840.10008.1.2.1" "MONOCHROME2" 16 ⟨1, 3, none, .u16, [1, 4095, 256]⟩).toOption.map
    (fun o => (o.bitsAllocated, o.bitsStored, o.highBit, o.frameBytes)) = some (16, 16, 15, [1,0, 255,15, 0,1]) := by decide
example : ((scBuild noCodec "1.2.840.10008.1.2.1" "MONOCHROME2" 16 ⟨1, 3, none, .u16, [1, 4095, 256]⟩).toOption.map
    (fun o => (scDecode noCodec id "1.2.840.10008.1.2.1" o).toOption)) = some (some [1, 4095, 256]) := by decide
/-- as the code is: with 12 bits the same array is written with Bits Allocated 12 over 16-bit cells (any content, also
    values >= 4096), and pydicom's decoder refuses the object -/
example : (scBuild noCodec "1.2.840.10008.1.2.1" "MONOCHROME2" 12 ⟨1, 3, none, .u16, [1, 4096, 256]⟩).toOption.map
    (fun o => (o.bitsAllocated, o.bitsStored, o.highBit, o.frameBytes)) = some (12, 12, 11, [1,0, 0,16, 0,1]) := by decide
example : ((scBuild noCodec "1.2.840.10008.1.2.1" "MONOCHROME2" 12 ⟨1, 3, none, .u16, [1, 4096, 256]⟩).toOption.map
    (fun o => (scDecode noCodec id "1.2.840.10008.1.2.1" o).toOption)) = some none := by decide

/-! ## hand-written parts use the expressions of the current source (bridges, `Proofs/PMapTie.lean`, T19t / T19q) -/

/-- **Tie, constructor guards**: the hand-written `admission` equals `admissionGen`, which is written with the rank sets
(`pixel_array.ndim in (2, 3)` flat, `== 4` nested, anything else refused) and the count axes (`len(real_world_value_mappings)` vs
axis 3, `len(plane_positions)` vs axis 0) REGENERATED from `ParametricMap.__init__` (T19t). -/
theorem tie_constructor_guards (x : PMInput) : admission x = admissionGen x := admission_tie x

/-- **Tie, Dimension Index Value**: the model's rank = regenerated base (`+ 1`) + 0-based position of the plane's value among the
sorted distinct values; the regenerated match taken from `np.where(..)[0][N]` is the first. -/
theorem tie_dimension_index (vs : List (List Rat)) (v : List Rat) :
    rankIn vs v = pmDimIndexBase + (vs.eraseDups.filter (fun q => lexLt q v)).length ∧ pmDimIndexMatch = 0 :=
  rankIn_tie vs v

/-- **Tie, selector** (`pixels._select_real_world_value_map`, T19q): integer selectors subscript the sequence with the regenerated
expression, strings are compared with the regenerated attribute `LUTLabel` taking the first match, kinds tested int, str, code. -/
theorem tie_selector (ms : List Mapping) (k : Int) (s : String) :
    select ms (.index k) = select ms (.index (rwvmSelectSubscript k)) ∧
    rwvmSelectStringAttribute = "LUTLabel" ∧
    select ms (.label s) = (match ms.find? (fun m => m.label == s) with | some m => .ok m | none => .error .index) ∧
    rwvmSelectKinds = ["int", "str", "code"] :=
  select_tie ms k s

/-- **Tie, read entry points** (`image.py`, T19f): `get_frame`, `get_frames`, `get_volume` (through `_get_pixels_by_frame`) hand the
caller's own `real_world_value_map_selector` / `apply_real_world_transform` to every pixel transform they build, and the per-frame
transform is built for the frame's own (standardised) index -- what `readReal o f sel` assumes. -/
theorem tie_read_forwarding :
    (∀ r ∈ pmReadForwarding, (r.2.2.1 = "real_world_value_map_selector" ∨ r.2.2.1 = "apply_real_world_transform") → r.2.2.2 = r.2.2.1) ∧
    ("get_frame", "_CombinedPixelTransform#0", "frame_index", "frame_index") ∈ pmReadForwarding ∧
    ("get_frame", "local", "frame_index", "self._standardize_frame_index(frame_number, as_index)") ∈ pmReadForwarding ∧
    ("get_frames", "_CombinedPixelTransform#1", "frame_index", "frame_index") ∈ pmReadForwarding ∧
    ("_get_pixels_by_frame", "_CombinedPixelTransform#1", "frame_index", "frame_index") ∈ pmReadForwarding ∧
    ("get_volume", "_get_pixels_by_frame#0", "real_world_value_map_selector", "real_world_value_map_selector") ∈ pmReadForwarding ∧
    (pmReadForwarding.filter (fun r => r.2.2.1 == "real_world_value_map_selector")).length = 6 :=
  read_forwarding_tie

/-- non-vacuity: on the example input the regenerated guards admit, and refuse a 5-D array -/
example : (admissionGen exampleInput).toOption.isSome = true ∧ (admissionGen { exampleInput with ndim := 5 }).toOption.isNone = true := by
  decide

/-! ### encapsulated: the hypotheses are met by a codec that accepts (`HdVerif.C07.tagCodec`: validates, one-byte header) -/

open HdVerif.C07 in
/-- an RLE secondary capture, built through the non-trivial codec; the theorem applies and gives the array back -/
example : (scBuild tagCodec rle "MONOCHROME2" 8 ⟨2, 2, none, .u8, [1, 2, 3, 255]⟩).toOption.map (fun o => o.frameBytes) =
    some [0x54, 2, 4, 6, 510] := by decide
open HdVerif.C07 in
example (o : SCObject) (h : scBuild tagCodec rle "MONOCHROME2" 8 ⟨2, 2, none, .u8, [1, 2, 3, 255]⟩ = .ok o) :
    scDecode tagCodec id rle o = .ok [1, 2, 3, 255] :=
  sc_decodes_equal_encapsulated_partial tagCodec (tagCodec_lossless _) id rle "MONOCHROME2" 8 _ o (Or.inl rfl) (by decide) h
open HdVerif.C07 in
/-- the example map with RLE: four items in frame order; reading frame 2 (plane 1, channel 0) gives its values -/
example : (buildEncapsulated tagCodec { exampleInput with ts := rle }).toOption.map (fun e => e.items) =
    some [[0x54, 2, 6], [0x54, 4, 8], [0x54, 10, 14], [0x54, 12, 16]] := by decide
open HdVerif.C07 in
example (e : PMEncapsulated) (h : buildEncapsulated tagCodec { exampleInput with ts := rle } = .ok e) :
    readStoredFrameEncapsulated tagCodec id rle e 2 = .ok [5, 7] :=
  stored_frames_exact_encapsulated_partial tagCodec (tagCodec_lossless _) id { exampleInput with ts := rle } e h (Or.inl rfl) 2
    (by decide)

/-! ### round 2: non-vacuity of the history / bit-pattern theorems -/
/-- a float32 map whose items are the patterns of a quiet NaN with payload, -0.0, +inf and a denormal -/
def floatInput : PMInput :=
  { exampleInput with
    dtypeKind := "f", dtypeName := "float32", dtypeStr := "float32", itemsize := 4,
    cell := fun i k j => leBytes 4 ([0x7FC00123, 0x80000000, 0x7F800000, 0x00000001, 0xFFC00001, 0x3F800000, 0, 0xFF800000].getD ((i * 2 + k) * 2 + j) 0) }
example : (build floatInput).toOption.map (fun o => (o.element, o.pixelData.take 8)) =
    some ("FloatPixelData", [0x23, 0x01, 0xC0, 0x7F, 0x00, 0x00, 0x80, 0x7F]) := by decide
/-- the history theorem on the example map: un-cached read, then `pixel_array`, then a batch read by index and a real-world read -/
example (o : PMObject) (h : build exampleInput = .ok o) :
    run .lazy o false [.stored 2 false, .pixelArray, .storedBatch 3 true, .real 1 false (.label "b"), .stored 4 false] =
      [.cells (.ok [[5, 0], [7, 0]]), .done, .cells (.ok [[6, 0], [8, 0]]), .reals (.ok [4, 7]), .cells (.error .index)] := by
  rw [reads_after_any_history_partial .lazy exampleInput o h (by decide)
    (by have := (element_and_bits exampleInput o h).1.dtype; rcases this with ⟨_, _, he, _⟩ | ⟨hk, _⟩ | ⟨hk, _⟩
        · exact he
        · exact absurd hk (by decide)
        · exact absurd hk (by decide))
    (by intro i k j; rfl) (by decide) (by decide)]
  decide +kernel
/-- the 1x3 uint16 capture read through a reader with frame index 0 and with a stray index -/
example (o : SCObject) (h : scBuild noCodec "1.2.840.10008.1.2.1" "MONOCHROME2" 16 ⟨1, 3, none, .u16, [1, 4095, 256]⟩ = .ok o) :
    readFrame noCodec id (o.module "1.2.840.10008.1.2.1") o.frameBytes 3 = .ok [1, 4095, 256] :=
  sc_readers_return_array_partial noCodec id _ _ 16 _ o (by unfold Frame.WF; decide) (by decide) (by decide) (by decide) h 3
open HdVerif.C07 in
/-- ... and through a reader of the image classes that passes the frame's own index -/
example (e : PMEncapsulated) (h : buildEncapsulated tagCodec { exampleInput with ts := rle } = .ok e)
    (hb : e.items[2]? = some [0x54, 10, 14]) :
    readFrame tagCodec id (e.obj.module rle) [0x54, 10, 14] 2 = .ok [5, 7] :=
  stored_frames_exact_encapsulated_through_readers_partial tagCodec (tagCodec_lossless _) id { exampleInput with ts := rle } e h
    (Or.inl rfl) 2 (by decide) _ hb 2
/-- non-vacuity of `native_frame_through_decode_frame_partial`: the example map with every cell byte below 256; frame (plane 1, channel 0)
through a reader that passes the frame's own index 2 -/
def exampleInputBytes : PMInput := { exampleInput with cell := fun i k j => [((i * 2 + k) * 2 + j + 1) % 256, 0] }
example (o : PMObject) (h : build exampleInputBytes = .ok o) (hel : o.element = "PixelData") :
    readFrame noCodec id (o.module exampleInputBytes.ts) (plane exampleInputBytes 1 0).flatten 2 =
      .ok ((plane exampleInputBytes 1 0).map cellValue) :=
  native_frame_through_decode_frame_partial noCodec id exampleInputBytes o h (by decide) hel (by intro i k j; rfl)
    (by intro i k j b hb
        simp only [exampleInputBytes, List.mem_cons, List.not_mem_nil, or_false] at hb
        rcases hb with rfl | rfl <;> omega)
    (Or.inr rfl) (by decide) 1 0 2
example : (plane exampleInputBytes 1 0).flatten = [5, 0, 7, 0] ∧ (plane exampleInputBytes 1 0).map cellValue = [5, 7] := by decide
/-- a 3-plane single-channel map with planes at z = 5, 3, 4 (stored out of order): the assembly puts them into slices 0, 2, 1;
the theorem applies, and the model computes the volume -/
def volumeInput : PMInput :=
  { exampleInput with
    ndim := 3, n := 3, m := 1, nested := false, nMappingLists := 1, nPositions := 3,
    cell := fun i k _ => [10 * i + k, 0],
    pos := fun i => [[0, 0, (if i = 0 then 5 else if i = 1 then 3 else 4)]] }
example : Stack.assembleFrames (positionRows volumeInput) [1, 0, 0, 0, 1, 0] none none none false = .ok (1, [0, 0, 5], 3, [0, 2, 1]) := by
  decide +kernel
example : (build volumeInput).toOption.bind (fun o =>
      (getVolume volumeInput o false [1, 0, 0, 0, 1, 0] none none none false).toOption.map (fun r => r.2.2)) =
    some [some [[0, 0], [1, 0]], some [[20, 0], [21, 0]], some [[10, 0], [11, 0]]] := by decide +kernel
example (o : PMObject) (h : build volumeInput = .ok o) (hel : o.element = "PixelData") :=
  volume_voxel_is_stored_pixel_partial volumeInput o h (by decide) hel (by intro i k j; rfl) (by decide) true [1, 0, 0, 0, 1, 0]
    none none none false rfl (by decide +kernel) 1 [0, 0, 5] 3 [0, 2, 1] (by decide +kernel) rfl (by decide) (by decide)
/-- the same volume with the real-world transform `1.5 * x + 1` (selected by label) -/
example : (build volumeInput).toOption.bind (fun o =>
      (getVolumeReal volumeInput o true [1, 0, 0, 0, 1, 0] none none none false (.label "a")).toOption.map (fun r => r.2.2)) =
    some [some [1, 5 / 2], some [31, 65 / 2], some [16, 35 / 2]] := by decide +kernel

end HdVerif.C19
