import HdVerif.Proofs.TilingHelpers
import HdVerif.Proofs.TilingHelpersTie
import HdVerif.Proofs.TilingSlide
/-! # C12  All tiling helpers describe one and the same tiling

Property theorems only (helper lemmas: `Proofs/TilingGrid.lean`, `Proofs/TilingCut.lean`, `Proofs/TilingFull.lean`,
`Proofs/TilingHelpers.lean`).  The integer cores are *regenerated from /repo's current source* on every run:
`Gen.tilesPerAxisCeil` (T7a, `tile_pixel_matrix`: `int(np.ceil(n / t))` rendered faithfully over `Rat`),
`Gen.tilesPerAxisFloor` (T7b, `compute_tile_positions_per_frame`: `(n - 1) // t + 1`), `Gen.tiledFullZOffset` (T7e),
`Gen.tiledFullFrameSlice` (T7f, `_get_spatial_information`), `Gen.tileArrayBounds` (T6,
`get_tile_array`), `Gen.planePositionOffsets` (T7c, `compute_plane_position_tiled_full`), `Gen.tfInit / tfMaxStep /
tfRanges / tfMatchStep` (T7d, `are_plane_positions_tiled_full`); the enumerations around them are in
`Model/Tiling.lean` and tied to the code by the exhaustive correspondence (1..24 per dimension).

The one grid all helpers are compared with: `gridPos R C tr tc` — the 1-based (row position, column position) pairs
`(1 + tr·k, 1 + tc·l)`, `k < ⌈R/tr⌉`, `l < ⌈C/tc⌉`, row-major; `nTiles n t = (n - 1) / t + 1 = ⌈n / t⌉`. -/
namespace HdVerif.C12
open HdVerif HdVerif.Gen HdVerif.Tiling HdVerif.TilingLemmas

/-! ## The grid: starts at multiples of the tile size, covers every pixel exactly once -/

/-- **`tiles_cover_exactly_once`** (1): the offsets `compute_tile_positions_per_frame` lists are the grid (row-major,
as (column, row)); every tile starts at a multiple of the tile size (plus one) inside the matrix. -/
theorem offsets_are_the_grid (R C tr tc : Int) (hr : 1 ≤ tr) (hc : 1 ≤ tc) (hR : 1 ≤ R) (hC : 1 ≤ C) :
    tileOffsets tr tc R C = .ok ((gridPos R C tr tc).map (fun p => (p.2, p.1))) ∧
    ∀ p ∈ gridPos R C tr tc, (∃ k l, 0 ≤ k ∧ k < nTiles R tr ∧ 0 ≤ l ∧ l < nTiles C tc ∧ p.1 = 1 + tr * k ∧ p.2 = 1 + tc * l) ∧
      1 ≤ p.1 ∧ p.1 ≤ R ∧ 1 ≤ p.2 ∧ p.2 ≤ C := by
  refine ⟨tileOffsets_eq tr tc R C hr hc hR hC, ?_⟩
  intro p hp
  exact ⟨(mem_gridPos R C tr tc p.1 p.2).mp hp, gridPos_in_matrix R C tr tc hr hc p hp⟩

/-- **`tiles_cover_exactly_once`** (2): of the listed tiles exactly one contains a given pixel of the matrix — for all
matrix and tile sizes, dividing or not. -/
theorem tiles_cover_exactly_once (R C tr tc : Int) (hr : 1 ≤ tr) (hc : 1 ≤ tc) (hR : 1 ≤ R) (hC : 1 ≤ C)
    (gr gc : Int) (h1 : 1 ≤ gr) (h2 : gr ≤ R) (h3 : 1 ≤ gc) (h4 : gc ≤ C) :
    ∃ offs, tileOffsets tr tc R C = .ok offs ∧
      (offs.filter (fun o => decide (o.2 ≤ gr ∧ gr < o.2 + tr ∧ o.1 ≤ gc ∧ gc < o.1 + tc))).length = 1 :=
  offsets_cover_once R C tr tc hr hc hR hC gr gc h1 h2 h3 h4

/-- the tile containing a pixel is the one with index `((gr - 1) / tr, (gc - 1) / tc)`; no other grid tile contains it -/
theorem covering_tile (tr tc gr gc : Int) (hr : 1 ≤ tr) (hc : 1 ≤ tc) (h1 : 1 ≤ gr) (h3 : 1 ≤ gc) :
    (1 + tr * ((gr - 1) / tr) ≤ gr ∧ gr < 1 + tr * ((gr - 1) / tr) + tr ∧ 1 + tc * ((gc - 1) / tc) ≤ gc ∧ gc < 1 + tc * ((gc - 1) / tc) + tc) ∧
    ∀ k l, 1 + tr * k ≤ gr → gr < 1 + tr * k + tr → 1 + tc * l ≤ gc → gc < 1 + tc * l + tc → k = (gr - 1) / tr ∧ l = (gc - 1) / tc := by
  obtain ⟨_, a1, a2⟩ := axis_cover_exists tr gr hr h1
  obtain ⟨_, b1, b2⟩ := axis_cover_exists tc gc hc h3
  refine ⟨⟨a1, a2, b1, b2⟩, ?_⟩
  intro k l k1 k2 l1 l2
  exact ⟨axis_cover_unique tr gr k _ hr k1 k2 a1 a2, axis_cover_unique tc gc l _ hc l1 l2 b1 b2⟩

/-! ## Tile counts -/

/-- **`tile_count`** (1): the two ways the code base counts tiles — `int(np.ceil(n / t))` in `tile_pixel_matrix` and
`(n - 1) // t + 1` in `compute_tile_positions_per_frame` — are the same numbers, `⌈R / tr⌉` and `⌈C / tc⌉`.
SIZE ASSUMPTION (DESIGN §4.2): `n / t` is a float64 division in the code and an exact rational one here; the two agree for
sizes below 2^52 (a non-integral quotient differs from the nearest integer by at least 1/t).  Beyond that they do not:
`tile_pixel_matrix(2^53 + 1, 1, 2^52, 1)` yields 2 tiles, `compute_tile_positions_per_frame` 3.  DICOM sizes are below 2^32. -/
theorem tile_counts_agree (R C tr tc : Int) (hr : 1 ≤ tr) (hc : 1 ≤ tc) (hR : 1 ≤ R) (hC : 1 ≤ C) :
    tilesPerAxisCeil R C tr tc = .ok (nTiles R tr, nTiles C tc) ∧ tilesPerAxisFloor tr tc R C = .ok (nTiles C tc, nTiles R tr) ∧
    (nTiles R tr - 1) * tr < R ∧ R ≤ nTiles R tr * tr ∧ (nTiles C tc - 1) * tc < C ∧ C ≤ nTiles C tc * tc := by
  refine ⟨tilesPerAxisCeil_eq R C tr tc hr hc hR hC, tilesPerAxisFloor_eq tr tc R C hr hc, ?_⟩
  unfold nTiles
  have a1 := Int.mul_ediv_self_le (x := R - 1) (k := tr) (by omega)
  have a2 := Int.lt_mul_ediv_self_add (x := R - 1) (k := tr) (by omega)
  have b1 := Int.mul_ediv_self_le (x := C - 1) (k := tc) (by omega)
  have b2 := Int.lt_mul_ediv_self_add (x := C - 1) (k := tc) (by omega)
  have e1 : ((R - 1) / tr + 1 - 1) * tr = tr * ((R - 1) / tr) := by rw [Int.mul_comm]; congr 1; omega
  have e2 : ((R - 1) / tr + 1) * tr = tr * ((R - 1) / tr) + tr := by rw [Int.add_mul, Int.one_mul, Int.mul_comm]
  have e3 : ((C - 1) / tc + 1 - 1) * tc = tc * ((C - 1) / tc) := by rw [Int.mul_comm]; congr 1; omega
  have e4 : ((C - 1) / tc + 1) * tc = tc * ((C - 1) / tc) + tc := by rw [Int.add_mul, Int.one_mul, Int.mul_comm]
  rw [e1, e2, e3, e4]
  omega

/-- **`tile_count`** (2): `⌈R / tr⌉ · ⌈C / tc⌉` tiles per channel and focal plane — in the index enumeration, in the
offset list, and `channels · focal planes` times that in the per-frame data of the full-tiling organisation. -/
theorem tile_count (channels : List (Option Int)) (planes R C tr tc : Int) (g : Geo) (sbs : Rat)
    (hr : 1 ≤ tr) (hc : 1 ≤ tc) (hR : 1 ≤ R) (hC : 1 ≤ C) (hp : 0 ≤ planes) :
    ∃ idx offs frames, tileIndexEnum R C tr tc = .ok idx ∧ tileOffsets tr tc R C = .ok offs ∧
      iterTiledFull channels planes tr tc R C g sbs = .ok frames ∧
      (idx.length : Int) = nTiles R tr * nTiles C tc ∧ (offs.length : Int) = nTiles R tr * nTiles C tc ∧
      (frames.length : Int) = channels.length * planes * (nTiles R tr * nTiles C tc) := by
  obtain ⟨idx, hidx, hoffs⟩ := offsets_of_indices R C tr tc hr hc hR hC
  obtain ⟨frames, hfr, hlen⟩ := iterTiledFull_length channels planes tr tc R C g sbs hr hc hR hC hp
  have hl : ((gridPos R C tr tc).length : Int) = nTiles R tr * nTiles C tc := gridPos_length R C tr tc hr hc hR hC
  have ho := tileOffsets_eq tr tc R C hr hc hR hC
  refine ⟨idx, _, frames, hidx, ho, hfr, ?_, by rw [List.length_map]; exact hl, hlen⟩
  have : (idx.map (fun p => ((p.1 - 1) * tc + 1, (p.2 - 1) * tr + 1))).length = ((gridPos R C tr tc).map (fun p => (p.2, p.1))).length := by
    rw [hoffs] at ho
    simp only [Except.ok.injEq] at ho
    rw [ho]
  rw [List.length_map, List.length_map] at this
  rw [this]; exact hl

/-! ## The five descriptions agree -/

/-- **`five_descriptions_agree`** (indices ↔ offsets): the `k`-th 1-based tile index pair `(c, r)` of `tile_pixel_matrix`
and the `k`-th offset pair of `compute_tile_positions_per_frame` denote the same tile:
offset = `((c - 1) · tile columns + 1, (r - 1) · tile rows + 1)`. -/
theorem indices_and_offsets_agree (R C tr tc : Int) (hr : 1 ≤ tr) (hc : 1 ≤ tc) (hR : 1 ≤ R) (hC : 1 ≤ C) :
    ∃ idx, tileIndexEnum R C tr tc = .ok idx ∧
      tileOffsets tr tc R C = .ok (idx.map (fun p => ((p.1 - 1) * tc + 1, (p.2 - 1) * tr + 1))) :=
  offsets_of_indices R C tr tc hr hc hR hC

/-- **`five_descriptions_agree`** (offsets ↔ per-frame data): `iter_tiled_full_frame_data` is, for each channel (outermost)
and each focal plane, the list `compute_tile_positions_per_frame` returns with the focal plane's z origin
`origin z + (plane - 1) · spacing between slices` — same offsets, same order. -/
theorem per_frame_data_is_the_grid (channels : List (Option Int)) (planes tr tc R C : Int) (g : Geo) (sbs : Rat)
    (hr : 1 ≤ tr) (hc : 1 ≤ tc) (hR : 1 ≤ R) (hC : 1 ≤ C) :
    iterTiledFull channels planes tr tc R C g sbs =
      .ok ((channels.flatMap (fun ch => (iota planes).map (fun p => (ch, p + 1)))).flatMap (fun chp =>
        (tpOf tr tc R C { g with oz := g.oz + ((chp.2 - 1 : Int) : Rat) * sbs }).map
          (fun p => (chp.1, chp.2, p.1.1, p.1.2, p.2.1, p.2.2.1, p.2.2.2)))) ∧
    (∀ g', tilePositions tr tc R C g' = .ok (tpOf tr tc R C g')) ∧
    (∀ g', (tpOf tr tc R C g').map Prod.fst = (gridPos R C tr tc).map (fun p => (p.2, p.1))) :=
  ⟨iterTiledFull_eq channels planes tr tc R C g sbs hr hc hR hC, fun g' => tilePositions_eq tr tc R C g' hr hc hR hC,
    fun g' => tpOf_fst tr tc R C g'⟩

/-- **`five_descriptions_agree`** (per-frame data ↔ frame table): the table a reader derives for a TILED_FULL image (frame
index = position in the iteration) is, channel after channel, the grid with frame indices counting up — exactly the
table the Segmentation constructor writes with explicit positions when nothing is omitted. -/
theorem tiled_full_table_is_the_grid (chans : List Int) (tr tc R C : Int) (hr : 1 ≤ tr) (hc : 1 ≤ tc) (hR : 1 ≤ R) (hC : 1 ≤ C) :
    tiledFullLut (chans.map some) 1 tr tc R C = .ok (segRows ((gridPos R C tr tc).map (fun p => (p.2, p.1))) chans 0) :=
  tiledFullLut_eq chans tr tc R C hr hc hR hC

/-- **`five_descriptions_agree`** (plane positions): `compute_plane_position_tiled_full(row_index, column_index)` for tile
indices inside the grid returns one of the entries of the per-frame list: the pixel matrix position
`(1 + (column_index - 1)·tc, 1 + (row_index - 1)·tr)` and the same physical position; indices below 1 are refused. -/
theorem plane_position_agrees (ri ci tr tc R C : Int) (g : Geo) (z3d : Option (Int × Rat))
    (h1 : 1 ≤ ri) (h2 : ri ≤ nTiles R tr) (h3 : 1 ≤ ci) (h4 : ci ≤ nTiles C tc) :
    ∃ cp rp x y z, planePositionTiledFull ri ci tr tc g z3d = .ok (cp, rp, x, y, z) ∧
      rp = 1 + tr * (ri - 1) ∧ cp = 1 + tc * (ci - 1) ∧
      ((cp, rp), (x, y, z)) ∈ tpOf tr tc R C { g with oz := match z3d with | some (si, sbs) => ((si - 1 : Int) : Rat) * sbs | none => 0 } :=
  planePosition_in_list ri ci tr tc R C g z3d h1 h2 h3 h4

theorem plane_position_refused (ri ci tr tc : Int) (g : Geo) (z3d : Option (Int × Rat)) (h : ri < 1 ∨ ci < 1) :
    planePositionTiledFull ri ci tr tc g z3d = .error .value :=
  planePosition_refused ri ci tr tc g z3d h

/-- **`five_descriptions_agree`** (sixth description: the per-frame transformers).  The position
`_get_spatial_information(dataset, frame_number=k)` hands to every `*Transformer.for_image(image, frame_number=k)` of a
TILED_FULL image is, for `k = 1 + ((c · planes + p) · ⌈R/tr⌉ + i) · ⌈C/tc⌉ + j`, the pixel-to-reference transform of the
offset `(j · tc, i · tr)` of tile `(i, j)` in focal plane `p` (z origin `origin z + p · spacing between slices`) — the same row-major
grid, channels outermost, then focal planes, for square and non-square tile grids alike. -/
theorem frame_number_is_row_major (channels : List (Option Int)) (planes tr tc R C : Int) (g : Geo) (sbs : Rat)
    (hr : 1 ≤ tr) (hc : 1 ≤ tc) (hR : 1 ≤ R) (hC : 1 ≤ C)
    (c p i j : Nat) (ch : Option Int) (hch : channels[c]? = some ch) (hp : (p : Int) < planes)
    (hi : (i : Int) < nTiles R tr) (hj : (j : Int) < nTiles C tc) :
    framePosition channels planes tr tc R C g sbs
        (1 + ((((c * planes.toNat + p) * (nTiles R tr).toNat + i) * (nTiles C tc).toNat + j : Nat) : Int)) =
      .ok (pixToRef { g with oz := g.oz + (p : Rat) * sbs } ((j : Int) * tc) ((i : Int) * tr)) :=
  framePosition_row_major channels planes tr tc R C g sbs hr hc hR hC c p i j ch hch hp hi hj

/-- frame numbers outside `1 .. channels · planes · ⌈R/tr⌉ · ⌈C/tc⌉` are refused -/
theorem frame_number_out_of_range (channels : List (Option Int)) (planes tr tc R C : Int) (g : Geo) (sbs : Rat)
    (hr : 1 ≤ tr) (hc : 1 ≤ tc) (hR : 1 ≤ R) (hC : 1 ≤ C) (hp : 0 ≤ planes) (k : Int)
    (hk : k < 1 ∨ (channels.length : Int) * planes * (nTiles R tr * nTiles C tc) < k) :
    ∃ e, framePosition channels planes tr tc R C g sbs k = .error e :=
  framePosition_out_of_range channels planes tr tc R C g sbs hr hc hR hC hp k hk

/-- **`five_descriptions_agree`** (the full-tiling test): the grid every other helper describes passes
`are_plane_positions_tiled_full`, for every matrix and tile size. -/
theorem grid_is_tiled_full (R C tr tc : Int) (hr : 1 ≤ tr) (hc : 1 ≤ tc) :
    arePlanePositionsTiledFull (gridPos R C tr tc) tr tc = .ok true :=
  (predicate_iff _ tr tc hr hc).mpr ⟨_, _, gridPos_eq_gridList R C tr tc⟩

/-! ## Positions -/

/-- **`position_is_transform_of_offset`** — for the hand-written `tilePositions` this holds BY CONSTRUCTION of the model
(the model computes the position from the 0-based index and reports the index + 1, as the code does): the clause is carried for
`compute_tile_positions_per_frame` / `iter_tiled_full_frame_data` by the textual pin in T7b (transform before `+= 1`, the
`* [columns, rows]` statement) and the exhaustive correspondence + oracle, not by this theorem.  The statements over
REGENERATED definitions are `plane_position_agrees` (T7c offsets) and `frame_number_is_row_major` (T7e, T7f). -/
theorem position_is_transform_of_offset (tr tc R C : Int) (g : Geo) (x : (Int × Int) × (Rat × Rat × Rat))
    (hx : x ∈ tpOf tr tc R C g) : x.2 = pixToRef g (x.1.1 - 1) (x.1.2 - 1) :=
  tilePositions_transform tr tc R C g x hx

/-! ## The full-tiling test -/

/-- **`tiled_full_predicate_iff`**: the test answers True iff the list of (row position, column position) pairs is the
row-major grid `gridList nr nc` of *some* number of tile rows and columns (the empty list included).  Permuted and repeated
lists are never such a grid; an incomplete list is rejected unless it is itself the complete grid of a smaller matrix (the
first tile rows of a grid are): see `tiled_full_predicate_for_matrix` for the statement relative to a given matrix. -/
theorem tiled_full_predicate_iff (ps : List (Int × Int)) (tr tc : Int) (hr : 1 ≤ tr) (hc : 1 ≤ tc) :
    arePlanePositionsTiledFull ps tr tc = .ok true ↔ ∃ nr nc, ps = gridList nr nc tr tc :=
  predicate_iff ps tr tc hr hc

/-- **The test relative to a given matrix.**  The predicate is not told the matrix size: the matrix it tests against is the one
implied by the largest row / column position in the list (this is also how the Segmentation constructor then sizes the total
pixel matrix of an object built from such positions).  For a list that contains the last tile of an `R × C` matrix and nothing
beyond it, True ⇔ the list is the COMPLETE row-major grid of that matrix: every incomplete or permuted list is rejected.  (A
list that stops before the last tile row, e.g. the first tile row only, is the complete grid of a smaller matrix and is
accepted — `tiled_full_predicate_iff`.) -/
theorem tiled_full_predicate_for_matrix (ps : List (Int × Int)) (R C tr tc : Int) (hr : 1 ≤ tr) (hc : 1 ≤ tc) (hR : 1 ≤ R) (hC : 1 ≤ C)
    (hlast : (1 + tr * (nTiles R tr - 1), 1 + tc * (nTiles C tc - 1)) ∈ ps)
    (hin : ∀ p ∈ ps, p.1 ≤ 1 + tr * (nTiles R tr - 1) ∧ p.2 ≤ 1 + tc * (nTiles C tc - 1)) :
    arePlanePositionsTiledFull ps tr tc = .ok true ↔ ps = gridPos R C tr tc :=
  predicate_for_matrix ps R C tr tc hr hc hR hC hlast hin

/-- it never fails for positive tile sizes … -/
theorem tiled_full_predicate_total (ps : List (Int × Int)) (tr tc : Int) (hr : 1 ≤ tr) (hc : 1 ≤ tc) :
    ∃ b, arePlanePositionsTiledFull ps tr tc = .ok b :=
  predicate_total ps tr tc hr hc

/-- … and of all orderings of a grid's tiles it accepts only the row-major one. -/
theorem tiled_full_predicate_permuted (ps : List (Int × Int)) (R C tr tc : Int) (hr : 1 ≤ tr) (hc : 1 ≤ tc)
    (hp : ps.Perm (gridPos R C tr tc)) (hne : ps ≠ gridPos R C tr tc) :
    arePlanePositionsTiledFull ps tr tc = .ok false := by
  obtain ⟨b, hb⟩ := predicate_total ps tr tc hr hc
  cases b with
  | false => exact hb
  | true => exact absurd (predicate_perm ps _ _ tr tc hr hc hp hb) hne

/-! ## Cut and paste -/

/-- **`cut_paste_identity`**: cutting a matrix into tiles with `get_tile_array` at the computed offsets and pasting them back
at those offsets reproduces the matrix; the part of the `⌈R/tr⌉·tr × ⌈C/tc⌉·tc` array outside the matrix is zero.  (Each
padded tile must have the frame shape `tr × tc` to be pasted — `pasteStep` checks `getTileShape`, so the regenerated pad
amounts of T6 enter here as well as in `tile_array_spec`.) -/
theorem cut_paste_identity {α} (z : α) (M : Img α) (R C tr tc : Int) (hr : 1 ≤ tr) (hc : 1 ≤ tc) (hR : 1 ≤ R) (hC : 1 ≤ C) :
    ∃ out, cutPaste z M R C tr tc = .ok (nTiles R tr * tr, nTiles C tc * tc, out) ∧
      ∀ i j, 0 ≤ i → i < nTiles R tr * tr → 0 ≤ j → j < nTiles C tc * tc → out i j = if i < R ∧ j < C then M i j else z :=
  cutPaste_spec z M R C tr tc hr hc hR hC

/-- one tile: the matrix under it, zeros in the padding; offsets outside the matrix are refused -/
theorem tile_array_spec {α} (z : α) (M : Img α) (R C ro co tr tc : Int) (hr : 1 ≤ tr) (hc : 1 ≤ tc)
    (h1 : 1 ≤ ro) (h2 : ro ≤ R) (h3 : 1 ≤ co) (h4 : co ≤ C) :
    ∃ fr, getTileArray z M R C ro co tr tc = .ok fr ∧ getTileShape R C ro co tr tc = .ok (tr, tc) ∧
      ∀ a b, 0 ≤ a → a < tr → 0 ≤ b → b < tc →
        fr a b = if ro - 1 + a < R ∧ co - 1 + b < C then M (ro - 1 + a) (co - 1 + b) else z := by
  obtain ⟨fr, h, hs⟩ := getTileArray_spec z M R C ro co tr tc hr hc h1 h2 h3 h4
  exact ⟨fr, h, getTileShape_spec R C ro co tr tc hr hc h1 h2 h3 h4, hs⟩

theorem tile_array_refused {α} (z : α) (M : Img α) (R C ro co tr tc : Int) (h : ro < 1 ∨ R < ro ∨ co < 1 ∨ C < co) :
    getTileArray z M R C ro co tr tc = .error .value := by
  unfold getTileArray
  have : tileArrayBounds ro co tr tc R C = .error .value := by
    unfold tileArrayBounds
    grind
  rw [this]

/-! ## Bridges: the hand-written enumerations use exactly the expressions of the current source -/

/-- **Bridge (offsets and positions, T7g).**  The model's `tileOffsets` / `tilePositions` run the slow meshgrid range outside and the
fast one inside and report, per pair, the values of the REGENERATED `tileOffsetOf` (multipliers of
`tile_indices * [columns, rows]`, the `+= 1` shift; positions from the 0-based pair). -/
theorem bridge_offset_expression (tr tc R C : Int) (g : Geo) :
    (∀ l, tileOffsets tr tc R C = .ok l →
      ∃ nCol nRow nFast nSlow, tilesPerAxisFloor tr tc R C = .ok (nCol, nRow) ∧ tileGridRanges nCol nRow = .ok (nFast, nSlow) ∧
        l = (iota nSlow).flatMap (fun i => (iota nFast).filterMap (fun j =>
          match tileOffsetOf j i tr tc with
          | .ok (_, _, a, b) => some (a, b)
          | .error _ => none))) ∧
    (∀ l, tilePositions tr tc R C g = .ok l →
      ∃ nCol nRow nFast nSlow, tilesPerAxisFloor tr tc R C = .ok (nCol, nRow) ∧ tileGridRanges nCol nRow = .ok (nFast, nSlow) ∧
        l = (iota nSlow).flatMap (fun i => (iota nFast).filterMap (fun j =>
          match tileOffsetOf j i tr tc with
          | .ok (p0, p1, a, b) => some ((a, b), pixToRef g p0 p1)
          | .error _ => none))) :=
  ⟨fun l h => tileOffsets_uses_expr tr tc R C l h, fun l h => tilePositions_uses_expr tr tc R C g l h⟩

/-- **Bridge (focal plane and channel ranges, T7h).**  The plane indices of the model's `iterTiledFull` are the regenerated
`range(1, num_focal_planes + 1)`; `channelNumbers n` is the regenerated range of optical path numbers and of segment numbers. -/
theorem bridge_plane_and_channel_ranges (channels : List (Option Int)) (planes n : Int) :
    (∃ a b, focalPlaneRange planes = .ok (a, b) ∧
      channels.flatMap (fun ch => (iota planes).map (fun p => (ch, p + 1))) =
        channels.flatMap (fun ch => (pyRange1 a b).map (fun p => (ch, p)))) ∧
    (∃ a b, opticalPathRange n = .ok (a, b) ∧ channelNumbers n = (pyRange1 a b).map some) ∧
    (∃ a b, segmentRange n = .ok (a, b) ∧ channelNumbers n = (pyRange1 a b).map some) :=
  ⟨iterTiledFull_pairs_use_range channels planes, (plane_and_channel_ranges planes n).2⟩

/-- **Bridge (tile indices, T7i).**  The model's `tileIndexEnum` runs the regenerated tile-row range outside, the tile-column range
inside, and yields the regenerated pair `tileIndexElt r c`. -/
theorem bridge_tile_index_enumeration (R C tr tc : Int) (l : List (Int × Int)) (h : tileIndexEnum R C tr tc = .ok l) :
    ∃ tpc tpr a b c d, tilesPerAxisCeil R C tr tc = .ok (tpc, tpr) ∧ tileIndexRanges tpc tpr = .ok (a, b, c, d) ∧
      l = (pyRange1 a b).flatMap (fun r => (pyRange1 c d).filterMap (fun c' =>
        match tileIndexElt r c' with
        | .ok p => some p
        | .error _ => none)) :=
  tileIndexEnum_uses_expr R C tr tc l h

/-! ## Seventh description: the per-frame plane positions; the inverse maps -/

/-- **`five_descriptions_agree`** (per-frame data ↔ the wrapper `compute_plane_position_slide_per_frame`).  The element built per
frame is REGENERATED (`Gen.slidePerFrameItem`, T7j; the comprehension — one element per item, in order, unconditionally — is pinned):
the wrapper's list is the per-frame data of `iter_tiled_full_frame_data` with channel and focal plane index dropped, frame by
frame: same pixel matrix position, same physical position — in particular the z of ITS focal plane, for every channel. -/
theorem slide_per_frame_is_per_frame_data (channels : List (Option Int)) (planes tr tc R C : Int) (g : Geo) (sbs : Rat)
    (hr : 1 ≤ tr) (hc : 1 ≤ tc) (hR : 1 ≤ R) (hC : 1 ≤ C) :
    slidePerFrame channels planes tr tc R C g sbs =
      .ok ((channels.flatMap (fun ch => (iota planes).map (fun p => (ch, p + 1)))).flatMap (fun chp =>
        (tpOf tr tc R C { g with oz := g.oz + ((chp.2 - 1 : Int) : Rat) * sbs }).map
          (fun p => (p.1.1, p.1.2, p.2.1, p.2.2.1, p.2.2.2)))) := by
  rw [slidePerFrame_eq channels planes tr tc R C g sbs _ (iterTiledFull_eq channels planes tr tc R C g sbs hr hc hR hC)]
  simp only [List.map_flatMap, iterChunk, List.map_map]
  rfl

/-- **wrapper ↔ per-frame transformers**: the `n`-th plane position of the wrapper (0-based) is the point
`_get_spatial_information(dataset, frame_number = n + 1)` hands to every `*Transformer.for_image(image, frame_number = n + 1)`,
and its pixel matrix position is that of the `n`-th item of `iter_tiled_full_frame_data`. -/
theorem slide_per_frame_agrees_with_frame_position (channels : List (Option Int)) (planes tr tc R C : Int) (g : Geo) (sbs : Rat)
    (L : List (Int × Int × Rat × Rat × Rat)) (h : slidePerFrame channels planes tr tc R C g sbs = .ok L)
    (n : Nat) (cp rp : Int) (x y z : Rat) (hn : L[n]? = some (cp, rp, x, y, z)) :
    framePosition channels planes tr tc R C g sbs ((n : Int) + 1) = .ok (x, y, z) ∧
    ∃ l ch p, iterTiledFull channels planes tr tc R C g sbs = .ok l ∧ l[n]? = some (ch, p, cp, rp, x, y, z) :=
  slidePerFrame_framePosition channels planes tr tc R C g sbs L h n cp rp x y z hn

/-- **`five_descriptions_agree`** (the image classes' own position look-up ↔ the wrapper).  Row `n` of the frame table `_Image`
derives for a TILED_FULL image — any number of channels and focal planes — and the `n`-th plane position of
`compute_plane_position_slide_per_frame` — any geometry, spacing between slices, origin — carry the same pixel matrix position,
and the row points to frame `n`: the look-up the region reads of C04 use and the positions handed to other tools are the same
tiling, frame by frame.  The (channel, column, row) triples of the per-frame data are channels × focal planes × the row-major grid
and do not depend on the geometry at all.  (In the code the frame table of a TILED_FULL image is built FROM `iter_tiled_full_frame_data`
(`image.py`, `zip(*iter_tiled_full_frame_data(self))`), so this holds of the code by construction: the theorem is a consistency check between
C04's model of that table and C12's model of the wrapper; that line of `image.py` is tied by C04's TILED_FULL region reads, L0.) -/
theorem frame_table_agrees_with_plane_positions (channels : List (Option Int)) (planes tr tc R C : Int) (g : Geo) (sbs : Rat)
    (hr : 1 ≤ tr) (hc : 1 ≤ tc) (hR : 1 ≤ R) (hC : 1 ≤ C) :
    (∃ lut L, tiledFullLut channels planes tr tc R C = .ok lut ∧ slidePerFrame channels planes tr tc R C g sbs = .ok L ∧
      lut.length = L.length ∧
      ∀ (n : Nat) (row : LutRow) (cp rp : Int) (x y z : Rat), lut[n]? = some row → L[n]? = some (cp, rp, x, y, z) →
        row.rp = rp ∧ row.cp = cp ∧ row.fi = n) ∧
    (∃ l, iterTiledFull channels planes tr tc R C g sbs = .ok l ∧
      l.map (fun x => (x.1, x.2.2.1, x.2.2.2.1)) =
        (channels.flatMap (fun ch => (iota planes).map (fun p => (ch, p + 1)))).flatMap (fun chp =>
          (gridPos R C tr tc).map (fun p => (chp.1, p.2, p.1)))) :=
  ⟨tiledFullLut_agrees_with_slidePerFrame channels planes tr tc R C g sbs hr hc hR hC,
   iterTiledFull_offsets channels planes tr tc R C g sbs hr hc hR hC⟩

/-- **slices ↔ region reads** (`get_tile_array` ↔ the frame look-up).  For every tile position inside the matrix, the array
`get_tile_array` cuts there (its zero padding aside) equals the region `[ro, min(ro + tr, R + 1)) × [co, min(co + tc, C + 1))` read
back through the frame table of ANY complete tiling of the same matrix — whatever ITS tile size and frame order: the slice
description and the table description of a tile are the same pixels. -/
theorem tile_is_region_of_matrix {α} (z : α) (M : Img α) (lut : List LutRow) (frames : List (Img α)) (R C th tw tr tc ro co : Int)
    (ht : 1 ≤ th) (hw : 1 ≤ tw) (hr : 1 ≤ tr) (hc : 1 ≤ tc)
    (hg : IsGridTable R C th tw lut) (hcut : TableCutFrom M R C th tw lut frames)
    (h1 : 1 ≤ ro) (h2 : ro ≤ R) (h3 : 1 ≤ co) (h4 : co ≤ C) (full am : Bool) :
    ∃ fr out, getTileArray z M R C ro co tr tc = .ok fr ∧
      readRegion z lut frames R C th tw none (some ro) (some (min (ro + tr) (R + 1))) (some co) (some (min (co + tc) (C + 1)))
        false full am = .ok (min (ro + tr) (R + 1) - ro, min (co + tc) (C + 1) - co, out) ∧
      ∀ a b, 0 ≤ a → a < min (ro + tr) (R + 1) - ro → 0 ≤ b → b < min (co + tc) (C + 1) - co → out a b = fr a b :=
  tile_equals_region z M lut frames R C th tw tr tc ro co ht hw hr hc hg hcut h1 h2 h3 h4 full am

/-- **One notion of "TILED_FULL".**  The library decides in four places, in two modules and four spellings (`hasattr … and ==`,
`get(…, '') !=`, `not hasattr … or !=`, `get(…, "") ==`), whether positions are implied by frame order: when `_Image` builds its frame
look-up, in the missing-frame test of a region read, when `iter_tiled_full_frame_data` accepts a dataset, and when
`_get_spatial_information` takes a frame's position from that iteration.  Each is regenerated as its truth table (T7l, T7m: the
source expression evaluated on datasets without the attribute / with `"TILED_FULL"` / with another value); all four are the same
predicate: the attribute is present and equals `"TILED_FULL"`.  (If they differed, the frame table, the region reads and the
per-frame transformers would describe different tilings of one file.) -/
theorem tiled_full_decisions_agree (org : Option String) :
    (isTiledFullLut org = true ↔ org = some "TILED_FULL") ∧ isTiledFullRegionRead org = isTiledFullLut org ∧
    isTiledFullIter org = isTiledFullLut org ∧ isTiledFullSpatialInfo org = isTiledFullLut org :=
  tiledFull_decisions org

/-- **Bridge (z origin of `compute_plane_position_tiled_full`, T7k).**  The model computes the z origin of the tile with the
REGENERATED expression: `float(slice_index - 1) * spacing_between_slices` when both are given, 0 when neither is, TypeError when
exactly one is (the `sum(...) not in (0, 2)` test is pinned and translated by its meaning). -/
theorem bridge_plane_position_z (ri ci tr tc : Int) (g : Geo) (z3d : Option (Int × Rat)) (si : Int) (sbs : Rat) :
    planePositionTiledFull ri ci tr tc g z3d =
      (match planePositionOffsets ri ci tr tc with
       | .error e => .error e
       | .ok (cIdx, rIdx, cPos, rPos) =>
         match planePositionZ (z3d.map Prod.fst) (z3d.map Prod.snd) with
         | .error e => .error e
         | .ok zoff =>
           let p := pixToRef { g with oz := zoff } cIdx rIdx
           .ok (cPos, rPos, p.1, p.2.1, p.2.2)) ∧
    planePositionZ (some si) (some sbs) = .ok (((si - 1 : Int) : Rat) * sbs) ∧ planePositionZ none none = .ok 0 ∧
    planePositionZ (some si) none = .error .type ∧ planePositionZ none (some sbs) = .error .type :=
  ⟨planePositionTiledFull_uses_z ri ci tr tc g z3d, planePositionZ_eq si sbs⟩

/-- **Inverse of the frame numbering** (frame number → channel, focal plane, tile).  For every frame number `k = n + 1` of a
TILED_FULL image with `channels × planes × ⌈R/tr⌉ × ⌈C/tc⌉` frames: the frame is tile column `n mod nc`, tile row
`(n div nc) mod nr`, focal plane `(n div (nc·nr)) mod planes` of channel `n div (nc·nr·planes)` (an existing channel), and the
position reported for it is the transform of that tile's offset in that plane.  Together with `frame_number_is_row_major` the
numbering is a bijection between `1 .. N` and (channel, plane, tile row, tile column). -/
theorem frame_number_inverse (channels : List (Option Int)) (planes tr tc R C : Int) (g : Geo) (sbs : Rat)
    (hr : 1 ≤ tr) (hc : 1 ≤ tc) (hR : 1 ≤ R) (hC : 1 ≤ C) (hP : 1 ≤ planes) (n : Nat)
    (hn : n < channels.length * planes.toNat * ((nTiles R tr).toNat * (nTiles C tc).toNat)) :
    n / (nTiles C tc).toNat / (nTiles R tr).toNat / planes.toNat < channels.length ∧
    framePosition channels planes tr tc R C g sbs ((n : Int) + 1) =
      .ok (pixToRef { g with oz := g.oz + ((n / (nTiles C tc).toNat / (nTiles R tr).toNat % planes.toNat : Nat) : Rat) * sbs }
        (((n % (nTiles C tc).toNat : Nat) : Int) * tc) (((n / (nTiles C tc).toNat % (nTiles R tr).toNat : Nat) : Int) * tr)) :=
  framePosition_inverse channels planes tr tc R C g sbs hr hc hR hC hP n hn

/-- **Inverse of tile → physical position.**  For a geometry whose row and column directions are not parallel and whose spacings
are not zero, the pixel-to-reference map is injective on pixel indices …  (Algebra over exact rationals on the hand-written `pixToRef` — the
affine map is C10's; tied here by the regenerated offsets handed to it and L0 on every position.  Float positions can coincide below the float
resolution of the origin.) -/
theorem position_determines_pixel (g : Geo) (hg : g.nondegenerate) (c r c' r' : Int) (h : pixToRef g c r = pixToRef g c' r') :
    c = c' ∧ r = r' :=
  pixToRef_injective g hg c r c' r' h

/-- … hence within one focal plane two listed tiles at the same physical position are the same tile: position ↔ offset ↔ index
are one-to-one (the pixel → tile index direction is `covering_tile`). -/
theorem distinct_tiles_distinct_positions (tr tc R C : Int) (g : Geo) (hg : g.nondegenerate)
    (x y : (Int × Int) × (Rat × Rat × Rat)) (hx : x ∈ tpOf tr tc R C g) (hy : y ∈ tpOf tr tc R C g) (h : x.2 = y.2) : x = y := by
  have ex := tilePositions_transform tr tc R C g x hx
  have ey := tilePositions_transform tr tc R C g y hy
  rw [ex, ey] at h
  obtain ⟨h1, h2⟩ := pixToRef_injective g hg _ _ _ _ h
  obtain ⟨⟨a, b⟩, p⟩ := x
  obtain ⟨⟨a', b'⟩, p'⟩ := y
  simp only at h1 h2 ex ey
  have ha : a = a' := by omega
  have hb : b = b' := by omega
  subst ha hb
  rw [ex, ey]


end HdVerif.C12

/-! ## Non-vacuity -/
namespace HdVerif.Examples.C12
open HdVerif HdVerif.Gen HdVerif.Tiling HdVerif.TilingLemmas HdVerif.C12

/-- 5 × 4 in 2 × 3 tiles (neither divides): 3 × 2 tiles; the grid -/
example : gridPos 5 4 2 3 = [(1, 1), (1, 4), (3, 1), (3, 4), (5, 1), (5, 4)] := by decide
example : tileIndexEnum 5 4 2 3 = .ok [(1, 1), (2, 1), (1, 2), (2, 2), (1, 3), (2, 3)] := by
  obtain ⟨h, _⟩ := tile_counts_agree 5 4 2 3 (by decide) (by decide) (by decide) (by decide)
  unfold tileIndexEnum
  rw [if_neg (by decide), h]
  decide
example : arePlanePositionsTiledFull [(1, 1), (1, 4), (3, 1), (3, 4), (5, 1), (5, 4)] 2 3 = .ok true :=
  grid_is_tiled_full 5 4 2 3 (by decide) (by decide)
example : arePlanePositionsTiledFull [(1, 1), (3, 1), (1, 4), (3, 4), (5, 1), (5, 4)] 2 3 = .ok false :=
  tiled_full_predicate_permuted _ 5 4 2 3 (by decide) (by decide) (by decide) (by decide)
example : arePlanePositionsTiledFull [(1, 1), (1, 4), (3, 1), (5, 1), (5, 4)] 2 3 = .ok false := by decide
example : ∃ out, cutPaste (0 : Int) (fun i j => 10 * i + j + 1) 5 4 2 3 = .ok (6, 6, out) ∧ out 4 3 = 44 ∧ out 5 3 = 0 ∧ out 2 4 = 0 := by
  obtain ⟨out, h, hp⟩ := cut_paste_identity (0 : Int) (fun i j => 10 * i + j + 1) 5 4 2 3 (by decide) (by decide) (by decide) (by decide)
  refine ⟨out, h, ?_, ?_, ?_⟩
  · rw [hp 4 3 (by decide) (by decide) (by decide) (by decide)]; decide
  · rw [hp 5 3 (by decide) (by decide) (by decide) (by decide)]; decide
  · rw [hp 2 4 (by decide) (by decide) (by decide) (by decide)]; decide

/-- a non-square tile grid: 4 × 6 in 2 × 2 tiles is 2 tile rows × 3 tile columns; frame 5 of the single channel / plane is
tile (row 1, column 1), i.e. pixel offset (column 2, row 2) -/
example : framePosition [some 1] 1 2 2 4 6 ⟨0, 0, 0, 1, 0, 0, 0, 1, 0, 1, 1⟩ 1 5 = .ok (2, 2, 0) := by
  have h := frame_number_is_row_major [some 1] 1 2 2 4 6 ⟨0, 0, 0, 1, 0, 0, 0, 1, 0, 1, 1⟩ 1 (by decide) (by decide) (by decide) (by decide)
    0 0 1 1 (some 1) rfl (by decide) (by decide) (by decide)
  have e : (1 + ((((0 * (1 : Int).toNat + 0) * (nTiles 4 2).toNat + 1) * (nTiles 6 2).toNat + 1 : Nat) : Int)) = 5 := by decide
  rw [e] at h
  rw [h]
  simp only [pixToRef]
  norm_num

example : tileOffsetOf 1 2 2 3 = .ok (3, 4, 4, 5) ∧ tileIndexElt 2 1 = .ok (1, 2) ∧ focalPlaneRange 3 = .ok (1, 4) := by decide
example : ∃ l, tileOffsets 2 3 5 4 = .ok l ∧ l.length = 6 := ⟨_, rfl, by decide⟩

/-- the wrapper on two focal planes (spacing ½, origin z = 1): frames 0..5 plane 1, frames 6..11 plane 2 at z = 3/2 — the z of a frame
of the second plane is not that of the first -/
example : ∃ L, slidePerFrame [some 1] 2 2 3 5 4 ⟨0, 0, 1, 1, 0, 0, 0, 1, 0, 1, 1⟩ (1/2) = .ok L ∧ L.length = 12 := by
  refine ⟨_, slide_per_frame_is_per_frame_data [some 1] 2 2 3 5 4 ⟨0, 0, 1, 1, 0, 0, 0, 1, 0, 1, 1⟩ (1/2) (by decide) (by decide) (by decide) (by decide), ?_⟩
  decide
/-- inverse numbering on the non-square grid 4 × 6 in 2 × 2 tiles (2 tile rows × 3 tile columns), 2 planes: frame 11 = n + 1 with n = 10 is
channel 0, plane 1 (the second), tile row 1, tile column 1 -/
example : (10 / 3 / 2 / 2 = 0) ∧ (10 / 3 / 2 % 2 = 1) ∧ (10 / 3 % 2 = 1) ∧ (10 % 3 = 1) := by decide
example : planePositionZ (some 3) (some (1/2)) = .ok 1 ∧ planePositionZ (some 3) none = .error .type := by
  constructor <;> simp [planePositionZ]
example : isTiledFullLut (some "TILED_FULL") = true ∧ isTiledFullIter (some "TILED_SPARSE") = false ∧ isTiledFullSpatialInfo none = false := by decide
example : (⟨0, 0, 0, 1, 0, 0, 0, 1, 0, 1, 1⟩ : Geo).nondegenerate := by
  unfold Geo.nondegenerate; norm_num

/-- `tile_is_region_of_matrix` instantiated: a 2 × 3 matrix stored as two 1 × 3 tiles, cut again with `get_tile_array` in 2 × 2 tiles at
(1, 3): the (padded) edge tile's real part is the 2 × 1 region read back from the table -/
def exM12 : Img Int := fun i j => 10 * i + j
theorem exGrid12 : IsGridTable 2 3 1 3 [⟨2, 1, 0, 0⟩, ⟨1, 1, 1, 0⟩] := by unfold IsGridTable; decide
theorem exCut12 : TableCutFrom exM12 2 3 1 3 [⟨2, 1, 0, 0⟩, ⟨1, 1, 1, 0⟩] [fun _ b => exM12 1 b, fun _ b => exM12 0 b] := by
  intro r hr
  simp only [List.mem_cons, List.not_mem_nil, or_false] at hr
  rcases hr with rfl | rfl <;>
    exact ⟨_, rfl, fun a b _ _ _ _ _ _ => by simp only [exM12]; congr 1 <;> omega⟩
example : ∃ fr out, getTileArray (0 : Int) exM12 2 3 1 3 2 2 = .ok fr ∧
    readRegion (0 : Int) [⟨2, 1, 0, 0⟩, ⟨1, 1, 1, 0⟩] [fun _ b => exM12 1 b, fun _ b => exM12 0 b] 2 3 1 3 none (some 1) (some 3) (some 3) (some 4)
      false false false = .ok (2, 1, out) ∧ out 1 0 = fr 1 0 := by
  obtain ⟨fr, out, h1, h2, hp⟩ := tile_is_region_of_matrix (0 : Int) exM12 _ _ 2 3 1 3 2 2 1 3 (by decide) (by decide) (by decide) (by decide)
    exGrid12 exCut12 (by decide) (by decide) (by decide) (by decide) false false
  exact ⟨fr, out, h1, h2, hp 1 0 (by decide) (by decide) (by decide) (by decide)⟩
/-- frame table ↔ wrapper on two channels × two focal planes of a 5 × 4 matrix in 2 × 3 tiles: 24 frames each -/
example : ∃ lut L, tiledFullLut [some 1, some 2] 2 2 3 5 4 = .ok lut ∧
    slidePerFrame [some 1, some 2] 2 2 3 5 4 ⟨0, 0, 1, 1, 0, 0, 0, 1, 0, 1, 1⟩ (1/2) = .ok L ∧ lut.length = L.length := by
  obtain ⟨⟨lut, L, h1, h2, h3, _⟩, _⟩ := frame_table_agrees_with_plane_positions [some 1, some 2] 2 2 3 5 4 ⟨0, 0, 1, 1, 0, 0, 0, 1, 0, 1, 1⟩ (1/2)
    (by decide) (by decide) (by decide) (by decide)
  exact ⟨lut, L, h1, h2, h3⟩

end HdVerif.Examples.C12
