import HdVerif.Model.TilingJson
/-! JSON-lines driver of the tiling model (C04).  Entry points: see `HdVerif/Model/TilingJson.lean`. -/
def main : IO Unit := HdVerif.Drv.run HdVerif.TilingDrv.handlers
