import HdVerif.Model.Json
import HdVerif.Model.Volume
import HdVerif.Model.VolumeMore
open Lean HdVerif HdVerif.Drv HdVerif.Vol

/-! JSON-lines driver of the C08 model: per-axis helpers on a one-axis identity geometry and whole histories. -/

def optIntOf (v : Json) : Except String (Option Int) :=
  match v with
  | .null => pure none
  | v => some <$> v.getInt?

def intListOf (v : Json) : Except String (List Int) := do
  let a ← v.getArr?
  a.toList.mapM (·.getInt?)

def parseItem (j : Json) : Except String Item :=
  match j.getObjVal? "foreign" with
  | .ok _ => pure Item.foreign
  | .error _ =>
  match j.getObjVal? "int" with
  | .ok k => do pure (Item.int (← k.getInt?))
  | .error _ => do
    let s ← (← j.getObjVal? "slice").getArr?
    match s.toList with
    | [a, b, c] => pure (Item.slice (← optIntOf a) (← optIntOf b) (← optIntOf c))
    | _ => throw "slice needs three entries"

def parseWidth (j : Json) : Except String PadWidth :=
  match j.getObjVal? "int" with
  | .ok k => do pure (PadWidth.int (← k.getInt?))
  | .error _ =>
    match j.getObjVal? "flat" with
    | .ok l => do pure (PadWidth.flat (← intListOf l))
    | .error _ => do
      let l ← (← j.getObjVal? "nested").getArr?
      pure (PadWidth.nested (← l.toList.mapM intListOf))

def parseOpts (j : Json) : Except String PadOpts := do
  pure { mode := ← getStr j "mode", cval := ← getRat j "cval", perChannel := ← getBool j "per_channel" }

def identGeom (n : Int) : Geom :=
  { c0 := ⟨1, 0, 0⟩, c1 := ⟨0, 1, 0⟩, c2 := ⟨0, 0, 1⟩, t := ⟨0, 0, 0⟩, n0 := n, n1 := 1, n2 := 1 }

def axisAnswer (r : Except ErrKind GStep) (withCol : Bool) : Json :=
  exceptToJson (fun (s : GStep) =>
    Json.arr (#[(s.1.n0 : Json), ratToJson s.1.t.x] ++ (if withCol then #[ratToJson s.1.c0.x] else #[]))) r

/-- flat data (C order over shape ++ cshape) as the array function of the model -/
def arrOfData (data : Array Rat) (n1 n2 : Int) (cshape : List Nat) : I3 → List Nat → Rat :=
  let csize := cshape.foldl (· * ·) 1
  fun i c =>
    let coff := (List.zip c cshape).foldl (fun acc (p : Nat × Nat) => acc * p.2 + p.1) 0
    let lin := ((i.i0 * n1 + i.i1) * n2 + i.i2) * Int.ofNat csize + Int.ofNat coff
    data.getD lin.toNat 0

def tabulate (v : Vol) : Array Rat :=
  (v.geom.indices.flatMap fun i => (chanIndices v.cshape).map fun c => v.arr i c).toArray

def volToJson (v : Vol) (data : Array Rat) : Json :=
  let g := v.geom
  Json.mkObj [
    ("shape", Json.arr (#[(g.n0 : Json), (g.n1 : Json), (g.n2 : Json)] ++ (v.cshape.map fun (n : Nat) => (n : Json)).toArray)),
    ("affine", Json.arr #[
      Json.arr #[ratToJson g.c0.x, ratToJson g.c1.x, ratToJson g.c2.x, ratToJson g.t.x],
      Json.arr #[ratToJson g.c0.y, ratToJson g.c1.y, ratToJson g.c2.y, ratToJson g.t.y],
      Json.arr #[ratToJson g.c0.z, ratToJson g.c1.z, ratToJson g.c2.z, ratToJson g.t.z]]),
    ("arr", Json.arr (data.map ratToJson)),
    ("isint", Json.bool v.isInt),
    ("channels", Json.arr (v.chans.map fun (e : Nat × List Nat) =>
      Json.arr #[(e.1 : Json), Json.arr (e.2.map fun (x : Nat) => (x : Json)).toArray]).toArray)]

def ratArrayOf (j : Json) (k : String) : Except String (Array Rat) := do
  let a ← getArr j k
  a.mapM parseRat

def parseOp (j : Json) : Except String Op := do
  let k ← getStr j "op"
  if k == "getitem" then
    let items ← (← getArr j "items").toList.mapM parseItem
    pure (.spatial (.getitem items))
  else if k == "flip" then pure (.spatial (.flip (← getIntList j "axes")))
  else if k == "permute" then pure (.spatial (.permute (← getIntList j "indices")))
  else if k == "swap" then pure (.spatial (.swap (← getInt j "a") (← getInt j "b")))
  else if k == "pad" then pure (.spatial (.pad (← parseWidth (← j.getObjVal? "width")) (← parseOpts j)))
  else if k == "pad_to" then pure (.spatial (.padTo (← getIntList j "shape") (← parseOpts j)))
  else if k == "crop_to" then pure (.spatial (.cropTo (← getIntList j "shape")))
  else if k == "pad_or_crop_to" then pure (.spatial (.padOrCropTo (← getIntList j "shape") (← parseOpts j)))
  else if k == "to_orientation" then pure (.spatial (.toOrientation (← getStr j "o").toList))
  else if k == "ensure_handedness" then
    let fa ← getOptInt j "flip_axis"
    let sa ← match j.getObjVal? "swap_axes" with
      | .ok .null => pure none
      | .ok v => some <$> intListOf v
      | .error _ => pure none
    pure (.spatial (.ensureHandedness (← getStr j "h") fa sa))
  else if k == "copy" then pure (.spatial .copy)
  else if k == "get_channel" then
    let sel ← (← getArr j "sel").toList.mapM fun e => do
      let p ← e.getArr?
      match p.toList with
      | [d, v] => pure ((← d.getNat?), (← v.getNat?))
      | _ => throw "sel entry"
    pure (.getChannel sel (← getBool j "keepdims"))
  else if k == "permute_channels" then pure (.permuteChannels (← getIntList j "indices"))
  else if k == "with_array" then
    let shape ← getIntList j "shape"
    let data ← ratArrayOf j "arr"
    let cshape := (shape.drop 3).map Int.toNat
    match shape with
    | _ :: n1 :: n2 :: _ => pure (.withArray shape (arrOfData data n1 n2 cshape) (← getBool j "isint"))
    | _ => throw "with_array shape"
  else throw s!"unknown op {k}"

def history (j : Json) : Except String Json := do
  let aff ← getArr j "affine"
  let rows ← aff.toList.mapM fun r => do (← r.getArr?).toList.mapM parseRat
  let shape ← getIntList j "shape"
  let data ← ratArrayOf j "arr"
  let isInt ← getBool j "isint"
  let coord := if (← getStr j "coord") == "PATIENT" then Coord.patient else Coord.slide
  let chanIds ← getNatList j "chan_ids"
  match rows, shape with
  | [[a00, a01, a02, a03], [a10, a11, a12, a13], [a20, a21, a22, a23]], n0 :: n1 :: n2 :: cs =>
    let cshape := cs.map Int.toNat
    let g : Geom := { c0 := ⟨a00, a10, a20⟩, c1 := ⟨a01, a11, a21⟩, c2 := ⟨a02, a12, a22⟩, t := ⟨a03, a13, a23⟩,
                      n0 := n0, n1 := n1, n2 := n2 }
    let v0 : Vol := { geom := g, arr := arrOfData data n1 n2 cshape, cshape := cshape,
                      chans := (List.zip chanIds cshape).map fun (p : Nat × Nat) => (p.1, List.range p.2), isInt := isInt }
    if ¬ (g.Orth ∧ g.Pos) then pure (exceptToJson (fun (_ : Unit) => Json.null) (.error .value)) else
    let ops ← getArr j "ops"
    let mut v := v0
    let mut out : Array Json := #[]
    for oj in ops do
      let op ← parseOp oj
      match op.apply coord v with
      | .error e => out := out.push (Json.mkObj [("err", Json.str e.toString)])
      | .ok (v1, _) =>
        let tab := tabulate v1
        -- materialise the array (same values inside the volume; keeps look-ups flat)
        v := { v1 with arr := arrOfData tab v1.geom.n1 v1.geom.n2 v1.cshape }
        out := out.push (Json.mkObj [("ok", volToJson v1 tab)])
    pure (okJson (Json.arr out))
  | _, _ => throw "affine must be 3x4 and shape needs three spatial entries"


/-- exact square root of a rational that is a perfect square (what the float `sqrt` returns for the generated geometries up
to rounding); anything else is reported -/
def sqrtExact (x : Rat) : Rat :=
  if x < 0 then -1 else
  let n := x.num.toNat
  let d := x.den
  let rn := Nat.sqrt n
  let rd := Nat.sqrt d
  if rn * rn == n && rd * rd == d then (rn : Rat) / (rd : Rat) else -1

def geomOfJson (j : Json) : Except String Geom := do
  let aff ← getArr j "affine"
  let rows ← aff.toList.mapM fun r => do (← r.getArr?).toList.mapM parseRat
  let shape ← getIntList j "shape"
  match rows, shape with
  | [[a00, a01, a02, a03], [a10, a11, a12, a13], [a20, a21, a22, a23]], n0 :: n1 :: n2 :: _ =>
    pure { c0 := ⟨a00, a10, a20⟩, c1 := ⟨a01, a11, a21⟩, c2 := ⟨a02, a12, a22⟩, t := ⟨a03, a13, a23⟩,
           n0 := n0, n1 := n1, n2 := n2 }
  | _, _ => throw "affine must be 3x4 and shape needs three spatial entries"

def geomToJson (g : Geom) : Json :=
  Json.mkObj [
    ("shape", Json.arr #[(g.n0 : Json), (g.n1 : Json), (g.n2 : Json)]),
    ("affine", Json.arr #[
      Json.arr #[ratToJson g.c0.x, ratToJson g.c1.x, ratToJson g.c2.x, ratToJson g.t.x],
      Json.arr #[ratToJson g.c0.y, ratToJson g.c1.y, ratToJson g.c2.y, ratToJson g.t.y],
      Json.arr #[ratToJson g.c0.z, ratToJson g.c1.z, ratToJson g.c2.z, ratToJson g.t.z]])]

def ratsJson (l : List Rat) : Json := Json.arr (l.map ratToJson).toArray

/-- the accessors as the current source computes them (T9n), on the exact square root -/
def accessors (j : Json) : Except String Json := do
  let g ← geomOfJson j
  let a := g.entry
  let n := g.dim
  let sq := sqrtExact
  pure (okJson (Json.mkObj [
    ("position", ratsJson (HdVerif.Gen.accPosition sq a n)),
    ("spacing", ratsJson (HdVerif.Gen.accSpacing sq a n)),
    ("pixel_spacing", ratsJson (HdVerif.Gen.accPixelSpacing sq a n)),
    ("spacing_between_slices", ratsJson (HdVerif.Gen.accSpacingBetweenSlices sq a n)),
    ("direction_cosines", ratsJson (HdVerif.Gen.accDirectionCosines sq a n)),
    ("direction", ratsJson (HdVerif.Gen.accDirection sq a n)),
    ("spacing_vectors", ratsJson (HdVerif.Gen.accSpacingVectors sq a n)),
    ("unit_vectors", ratsJson (HdVerif.Gen.accUnitVectors sq a n)),
    ("voxel_volume", ratsJson (HdVerif.Gen.accVoxelVolume sq a n)),
    ("physical_extent", ratsJson (HdVerif.Gen.accPhysicalExtent sq a n)),
    ("physical_volume", ratsJson (HdVerif.Gen.accPhysicalVolume sq a n)),
    ("center_indices", ratsJson (HdVerif.Gen.accCenterIndices sq a n)),
    ("nearest_center_indices", Json.arr ((HdVerif.Gen.accNearestCenterIndices sq a n).map fun (k : Int) => (k : Json)).toArray),
    ("affine", ratsJson (HdVerif.Gen.accAffine sq a n)),
    ("center_position", ratsJson (HdVerif.Gen.accCenterPosition sq a n)),
    ("get_affine", match (← getNatList j "conv") with
      | [c0, c1, c2] => (match HdVerif.Gen.convAffine c0 c1 c2 a with | some l => ratsJson l | none => Json.null)
      | _ => Json.null),
    ("left_handed", Json.bool (decide (HdVerif.Gen.accHandednessTest a < 0))),
    ("exact_sqrt", Json.bool ((HdVerif.Gen.accSpacing sq a n).all (fun x => decide (0 < x))))]))

/-- the randomised conveniences with the values numpy drew -/
def randomOp (j : Json) : Except String Json := do
  let g ← geomOfJson j
  let k ← getStr j "kind"
  let r ← if k == "crop" then pure (randomCropG AxMap.size g (← getIntList j "crop") (← getIntList j "draws"))
    else if k == "flip" then pure (randomFlipG AxMap.size g (← getIntList j "axes") (← getIntList j "draws"))
    else if k == "permute" then pure (randomPermuteG g (← getIntList j "axes") (← getIntList j "drawn"))
    else throw s!"unknown random op {k}"
  pure (exceptToJson (fun (s : GStep) => geomToJson s.1) r)

def handlers : List (String × Handler) := [
  ("getitemItems", fun j => do
    let g ← geomOfJson j
    let items ← (← getArr j "items").toList.mapM parseItem
    pure (exceptToJson (fun (s : GStep) => geomToJson s.1) (getitemG AxMap.size g items))),
  ("accessors", accessors),
  ("randomOp", randomOp),
  ("sliceIndices", fun j => do
    let r := sliceIndices (← getOptInt j "start") (← getOptInt j "stop") (← getOptInt j "step") (← getInt j "n")
    pure (exceptToJson (fun (t : Int × Int × Int) =>
      Json.arr #[(t.1 : Json), (t.2.1 : Json), (t.2.2 : Json), (sliceLen t.1 t.2.1 t.2.2 : Json)]) r)),
  ("padToAxis", fun j => do
    pure (axisAnswer (padToG AxMap.size (identGeom (← getInt j "insize")) [← getInt j "outsize", 1, 1]) false)),
  ("cropToAxis", fun j => do
    pure (axisAnswer (cropToG AxMap.size (identGeom (← getInt j "insize")) [← getInt j "outsize", 1, 1]) false)),
  ("padOrCropAxis", fun j => do
    pure (axisAnswer (padOrCropG AxMap.size (identGeom (← getInt j "insize")) [← getInt j "outsize", 1, 1]) false)),
  ("getitemAxisSlice", fun j => do
    let it := Item.slice (← getOptInt j "start") (← getOptInt j "stop") (← getOptInt j "step")
    pure (axisAnswer (getitemG AxMap.size (identGeom (← getInt j "n")) [it]) true)),
  ("getitemAxisInt", fun j => do
    pure (axisAnswer (getitemG AxMap.size (identGeom (← getInt j "n")) [Item.int (← getInt j "k")]) true)),
  ("closest", fun j => do
    let rows ← (← getArr j "lin").toList.mapM fun r => do (← r.getArr?).toList.mapM parseRat
    match rows with
    | [[a00, a01, a02], [a10, a11, a12], [a20, a21, a22]] =>
      let g : Geom := { c0 := ⟨a00, a10, a20⟩, c1 := ⟨a01, a11, a21⟩, c2 := ⟨a02, a12, a22⟩, t := ⟨0, 0, 0⟩,
                        n0 := 1, n1 := 1, n2 := 1 }
      let o := closest g
      pure (okJson (Json.arr #[Json.str (String.ofList [o.1.toChar, o.2.1.toChar, o.2.2.toChar]), Json.bool g.leftHanded]))
    | _ => throw "lin must be 3x3"),
  ("history", history)
]

def main : IO Unit := run handlers
