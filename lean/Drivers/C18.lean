import HdVerif.Model.Json
import HdVerif.Model.Ann
open Lean HdVerif HdVerif.Drv HdVerif.Ann

/-- cells travel as integer tokens; non-finite values are negative -/
def finiteTok (t : Int) : Bool := t ≥ 0

def parseInts (j : Json) : Except String (List Int) := do
  let a ← j.getArr?
  a.toList.mapM (·.getInt?)

def parseGData (j : Json) : Except String (GData Int) := do
  let a ← j.getArr?
  a.toList.mapM (fun an => do
    let rows ← an.getArr?
    rows.toList.mapM parseInts)

def gdataToJson (gd : GData Int) : Json :=
  Json.arr (gd.map (fun an => Json.arr (an.map intsToJson).toArray)).toArray

def optIntJson : Option Int → Json
  | none => Json.null
  | some i => (i : Json)

def parseOptInt (j : Json) : Except String (Option Int) :=
  match j with
  | .null => pure none
  | v => some <$> v.getInt?

def parseOptInts (j : Json) : Except String (Option (List Int)) :=
  match j with
  | .null => pure none
  | v => some <$> parseInts v

def parseOptVals (j : Json) : Except String (List (Option Int)) := do
  let a ← j.getArr?
  a.toList.mapM parseOptInt

def optValsToJson (l : List (Option Int)) : Json := Json.arr (l.map optIntJson).toArray

def encToJson (e : Enc Int) : Json :=
  Json.mkObj [("coords", intsToJson e.coords), ("double", Json.bool e.double), ("commonZ", optIntJson e.commonZ),
    ("indexList", match e.indexList with | none => Json.null | some l => intsToJson l), ("numAnn", (e.numAnn : Json))]

def parseEnc (j : Json) : Except String (Enc Int) := do
  pure { coords := ← parseInts (← j.getObjVal? "coords"), double := ← getBool j "double",
         commonZ := ← parseOptInt (j.getObjValD "commonZ"), indexList := ← parseOptInts (j.getObjValD "indexList"),
         numAnn := ← getNat j "numAnn" }

def ctOf (s : String) : Int := if s == "2D" then 2 else 3

def optStr (j : Json) : Except String (Option String) :=
  match j with
  | .null => pure none
  | .str s => pure (some s)
  | _ => throw "string or null expected"

def optNat (j : Json) : Except String (Option Nat) :=
  match j with
  | .null => pure none
  | v => some <$> v.getNat?

def parseGroupInfo (j : Json) : Except String GroupInfo := do
  let alg ← match j.getObjValD "alg" with
    | .null => pure none
    | v => do
      let a ← v.getArr?
      match a.toList with
      | [n, ver, fam] => pure (some ((← n.getStr?), (← ver.getStr?), (← fam.getNat?)))
      | _ => throw "alg needs 3 entries"
  pure { number := ← getInt j "number", uid := ← getStr j "uid", label := ← getStr j "label",
         category := ← getNat j "category", ptype := ← getNat j "ptype", gtype := ← getStr j "gtype",
         algType := ← getStr j "algorithm_type", alg := alg }

def parseGroups (j : Json) : Except String (List GroupInfo) := do
  let a ← j.getArr?
  a.toList.mapM parseGroupInfo

def parseFilter (j : Json) : Except String Filter := do
  pure { category := ← optNat (j.getObjValD "category"), ptype := ← optNat (j.getObjValD "ptype"),
         label := ← optStr (j.getObjValD "label"), gtype := ← optStr (j.getObjValD "gtype"),
         algType := ← optStr (j.getObjValD "algorithm_type"), algName := ← optStr (j.getObjValD "algorithm_name"),
         algVersion := ← optStr (j.getObjValD "algorithm_version"), algFamily := ← optNat (j.getObjValD "algorithm_family") }

def handlers : List (String × Handler) := [
  ("encode", fun j => do
    let r := encode (← getStr j "gtype") finiteTok (← getBool j "double") id (← parseGData (← j.getObjVal? "gd"))
    pure (exceptToJson (fun (p : Enc Int × Int) => encToJson p.1) r)),
  ("construct", fun j => do
    let gd ← parseGData (← j.getObjVal? "gd")
    let meas ← (← getArr j "meas").toList.mapM parseOptVals
    -- measurements that were parsed from a dataset: the remembered number of values is gone
    let measParsed ← match j.getObjVal? "meas_parsed" with
      | .ok v => do (← v.getArr?).toList.mapM parseOptVals
      | .error _ => pure []
    let items : List (MeasEnc Int) := meas.map (encodeMeas id) ++
      measParsed.map (fun vals => { encodeMeas id vals with numberOfValues := none })
    -- dtype of the concatenated array: numpy kind letter + item size (the dtype decision is part of the model)
    let gt ← getStr j "gtype"
    let built : Except ErrKind (Group Int) ← match j.getObjVal? "kind" with
      | .ok k => do
        let kind ← k.getStr?
        let isz ← getInt j "itemsize"
        pure (constructDT gt finiteTok kind isz id gd)
      | .error _ => do
        let dbl ← getBool j "double"
        pure (construct gt finiteTok dbl id gd)
    let r : Except ErrKind Int := match built with
      | .error e => .error e
      | .ok g => match Ann.mapE (fun m => checkMeas m g.enc.numAnn) items with
        | .error e => .error e
        | .ok _ => match g.cache with
          | some (ct, _) => .ok ct
          | none => .error .other
    pure (exceptToJson (fun (i : Int) => (i : Json)) r)),
  ("constructArrs", fun j => do
    let arrs ← (← getArr j "arrs").toList.mapM (fun a => do
      match a.getObjVal? "rows" with
      | .ok rows => do pure (Arr.d2 (← (← rows.getArr?).toList.mapM parseInts))
      | .error _ => do pure (Arr.d1 (← parseInts (← a.getObjVal? "vals"))))
    let r := constructArrs (← getStr j "gtype") finiteTok (← getStr j "kind") (← getInt j "itemsize") id arrs
    pure (exceptToJson (fun (g : Group Int) => encToJson g.enc) r)),
  ("decode", fun j => do
    let r := decode (← getStr j "gtype") (← parseEnc (← j.getObjVal? "enc")) (ctOf (← getStr j "ct"))
    pure (exceptToJson gdataToJson r)),
  ("coordinates", fun j => do
    let g : Group Int := { gtype := ← getStr j "gtype", enc := ← parseEnc (← j.getObjVal? "enc"), cache := none }
    let r := getCoordinates g (← getInt j "k") (ctOf (← getStr j "ct"))
    pure (exceptToJson (fun (a : Annot Int) => Json.arr (a.map intsToJson).toArray) r)),
  ("history", fun j => do
    -- "via": coordinate type of the instance the group was parsed with (annread / SOP from_dataset); absent for a group
    -- parsed on its own
    let g0 : Group Int := { gtype := ← getStr j "gtype", enc := ← parseEnc (← j.getObjVal? "enc"), cache := none }
    let g : Group Int := match j.getObjVal? "via" with
      | .ok (.str t) => parseVia (ctOf t) g0
      | _ => parse g0
    let accs ← (← getArr j "accesses").toList.mapM (fun a => do
      let p ← a.getArr?
      match p.toList with
      | [_, ct] => pure (Access.whole (ctOf (← ct.getStr?)))
      | [_, k, ct] => pure (Access.nth (← k.getInt?) (ctOf (← ct.getStr?)))
      | _ => throw "access needs 2 or 3 entries")
    let res := runHistory g accs
    let f := fun (r : Except ErrKind (Obs Int)) => match r with
      | .error e => Json.arr #[Json.str "err", Json.str e.toString]
      | .ok (.whole gd) => Json.arr #[Json.str "ok", gdataToJson gd]
      | .ok (.nth a) => Json.arr #[Json.str "ok", Json.arr (a.map intsToJson).toArray]
    pure (okJson (Json.arr (res.map f).toArray))),
  ("instHistory", fun j => do
    -- interleaved accesses to the groups of ONE parsed instance: [[i, "whole", ct] | [i, "nth", k, ct]]
    let via ← getStr j "via"
    let gs ← (← getArr j "groups").toList.mapM (fun g => do
      pure (parseVia (ctOf via) ({ gtype := ← getStr g "gtype", enc := ← parseEnc (← g.getObjVal? "enc"), cache := none } : Group Int)))
    let accs ← (← getArr j "accesses").toList.mapM (fun a => do
      let p ← a.getArr?
      match p.toList with
      | [i, _, ct] => pure ((← i.getNat?), Access.whole (ctOf (← ct.getStr?)))
      | [i, _, k, ct] => pure ((← i.getNat?), Access.nth (← k.getInt?) (ctOf (← ct.getStr?)))
      | _ => throw "access needs 3 or 4 entries")
    let f := fun (r : Except ErrKind (Obs Int)) => match r with
      | .error e => Json.arr #[Json.str "err", Json.str e.toString]
      | .ok (.whole gd) => Json.arr #[Json.str "ok", gdataToJson gd]
      | .ok (.nth a) => Json.arr #[Json.str "ok", Json.arr (a.map intsToJson).toArray]
    pure (okJson (Json.arr ((runInst gs accs).map (fun p => f p.2)).toArray))),
  ("freshCoordinates", fun j => do
    let gd ← parseGData (← j.getObjVal? "gd")
    let k ← getInt j "k"
    let ct := ctOf (← getStr j "ct")
    let r := match construct (← getStr j "gtype") finiteTok (← getBool j "double") id gd with
      | .error e => .error e
      | .ok g => getCoordinates g k ct
    pure (exceptToJson (fun (a : Annot Int) => Json.arr (a.map intsToJson).toArray) r)),
  ("encodeMeas", fun j => do
    let m := encodeMeas id (← parseOptVals (← j.getObjVal? "values"))
    pure (okJson (Json.mkObj [("values", intsToJson m.values),
      ("indices", match m.indices with | none => Json.null | some l => intsToJson l)]))),
  ("decodeMeas", fun j => do
    let m : MeasEnc Int := { values := ← parseInts (← j.getObjVal? "values"), indices := ← parseOptInts (j.getObjValD "indices"),
                             numberOfValues := none }
    pure (exceptToJson optValsToJson (getValues m (← getNat j "n")))),
  ("getMeasurements", fun j => do
    let items ← (← getArr j "items").toList.mapM (fun it => do
      let m : MeasEnc Int := { values := ← parseInts (← it.getObjVal? "values"), indices := ← parseOptInts (it.getObjValD "indices"),
                               numberOfValues := none }
      pure ((← getNat it "name"), m))
    let r := getMeasurements (fun (a b : Nat) => a == b) items (← getNat j "n") (← optNat (j.getObjValD "name"))
    pure (exceptToJson (fun (cols : List (List (Option Int))) => Json.arr (cols.map optValsToJson).toArray) r)),
  ("getMeasurementMatrix", fun j => do
    let items ← (← getArr j "items").toList.mapM (fun it => do
      let m : MeasEnc Int := { values := ← parseInts (← it.getObjVal? "values"), indices := ← parseOptInts (it.getObjValD "indices"),
                               numberOfValues := none }
      pure ((← getNat it "name"), m))
    let r := getMeasurementMatrix (fun (a b : Nat) => a == b) items (← getNat j "n") (← optNat (j.getObjValD "name"))
    pure (exceptToJson (fun (rows : List (List (Option Int))) => Json.arr (rows.map optValsToJson).toArray) r)),
  ("getGroup", fun j => do
    let r := getGroup (← parseGroups (← j.getObjVal? "groups")) (← parseOptInt (j.getObjValD "number")) (← optStr (j.getObjValD "uid"))
    pure (exceptToJson (fun (g : GroupInfo) => (g.number : Json)) r)),
  ("getGroups", fun j => do
    let r := getGroups (← parseGroups (← j.getObjVal? "groups")) (← parseFilter (← j.getObjVal? "filter"))
    pure (exceptToJson (fun (l : List GroupInfo) => intsToJson (l.map (·.number))) r)),
  ("sopParsed", fun j => do
    -- parsed groups handed to the constructor of an instance of type "ct": [{"via": "2D"|"3D"|null, "commonZ": bool}]
    let gs ← (← getArr j "groups").toList.mapM (fun g => do
      let e : Enc Int := { coords := [], double := false, commonZ := if (← getBool g "commonZ") then some 0 else none,
                           indexList := none, numAnn := 0 }
      let g0 : Group Int := { gtype := "POINT", enc := e, cache := none }
      match g.getObjVal? "via" with
      | .ok (.str t) => pure (parseVia (ctOf t) g0)
      | _ => pure (parse g0))
    pure (okJson (Json.bool (sopAcceptsParsed (ctOf (← getStr j "ct")) gs)))),
  ("sopTypes", fun j => do
    let built ← (← getArr j "built").toList.mapM (fun b => match b with
      | .null => pure (none : Option Int)
      | v => do pure (some (← v.getInt?)))
    pure (okJson (Json.bool (sopAcceptsTypes (ctOf (← getStr j "ct")) built)))),
  ("sopNumbers", fun j => do
    pure (okJson (Json.bool (sopAcceptsNumbers (← getIntList j "numbers")))))
]

def main : IO Unit := run handlers
