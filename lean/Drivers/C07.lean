import HdVerif.Model.Json
import HdVerif.Model.Codec
import HdVerif.Model.CodecGlue
open Lean HdVerif HdVerif.Drv HdVerif.Bits HdVerif.Gen HdVerif.Codec

def getParams (j : Json) : Except String Params := do
  pure ⟨← getStr j "ts", ← getInt j "ba", ← getInt j "bs", ← getStr j "pi", ← getInt j "pr", ← getOptInt j "planar"⟩

def getFrame (j : Json) : Except String Frame := do
  let dn ← getStr j "dtype"
  match DType.ofName dn with
  | none => throw s!"unknown dtype {dn}"
  | some d =>
    let s ← getOptInt j "samples"
    pure ⟨← getNat j "rows", ← getNat j "cols", s.map Int.toNat, d, ← getIntList j "data"⟩

/-- stand-in for the encapsulated codecs: the model treats them as abstract -/
def noCodec : CodecImpl := ⟨fun _ _ _ _ _ => .error .other, fun _ _ _ _ _ => .error .other⟩

def handlers : List (String × Handler) := [
  -- the translated decision tree with every input given explicitly (dtype facts as numpy reports them)
  ("encodeRouteRaw", fun j => do
    let r := encodeFrameRoute (← getStr j "ts") (← getInt j "ba") (← getInt j "bs") (← getStr j "pi") (← getInt j "pr")
      (← getOptInt j "planar") (← getInt j "shape0") (← getInt j "shape1") (← getInt j "shape2") (← getInt j "ndim")
      (← getStr j "kind") (← getInt j "itemsize") (← getStr j "dtype") (← getInt j "max") (← getInt j "min")
    pure (exceptToJson (fun (v : Int × Int × Int × Int × Int × Int × Int) =>
      intsToJson [v.1, v.2.1, v.2.2.1, v.2.2.2.1, v.2.2.2.2.1, v.2.2.2.2.2.1, v.2.2.2.2.2.2]) r)),
  ("decodeRouteRaw", fun j => do
    let r := decodeFrameRoute (← getBool j "enc") (← getInt j "ba") (← getInt j "samples") (← getStr j "pi")
      (← getInt j "pr") (← getOptInt j "planar")
    pure (exceptToJson (fun (i : Int) => (i : Json)) r)),
  ("encodeRoute", fun j => do
    pure (exceptToJson (fun (i : Int) => (i : Json)) (encodeRoute (← getParams j) (← getFrame j)))),
  ("encodeFrame", fun j => do
    pure (exceptToJson natsToJson (encodeFrame noCodec (← getParams j) (← getFrame j)))),
  ("decodeFrame", fun j => do
    let r := decodeFrame noCodec id (← getParams j) (← getNat j "rows") (← getNat j "cols") (← getNat j "samples")
      (← getNatList j "bytes") (← getInt j "index")
    pure (exceptToJson intsToJson r)),
  ("pydicomOneBit", fun j => do
    pure (exceptToJson intsToJson (pydicomOneBit (← getNat j "rows") (← getNat j "cols") (← getNat j "samples")
      (← getNatList j "bytes")))),
  -- a reader of the image classes on one frame's raw bytes: the data set's attributes as `decode_frame` arguments (T13g)
  ("readFrame", fun j => do
    let m : PixelModule := ⟨← getStr j "ts", ← getNat j "rows", ← getNat j "cols", ← getNat j "samples", ← getInt j "ba",
      ← getOptInt j "bs", ← getStr j "pi", ← getInt j "pr", ← getOptInt j "planar"⟩
    pure (exceptToJson intsToJson (readFrame noCodec id m (← getNatList j "bytes") (← getInt j "index")))),
  ("isEncapsulated", fun j => do pure (okJson (Json.bool (isEncapsulated (← getStr j "ts")))))
]

def main : IO Unit := run handlers
