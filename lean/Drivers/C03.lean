import HdVerif.Model.Json
import HdVerif.Model.SegGeom
import HdVerif.Model.SegFrameLoop
open Lean HdVerif HdVerif.Drv HdVerif.Gen HdVerif.SegGeom HdVerif.SegFrameLoop

def v3OfList (l : List Rat) : Except String V3 :=
  match l with
  | [a, b, c] => pure ⟨a, b, c⟩
  | _ => throw "vector of 3 expected"

def getV3 (j : Json) (k : String) : Except String V3 := do v3OfList (← getRatList j k)

def getV3List (j : Json) (k : String) : Except String (List V3) := do
  let a ← getArr j k
  a.toList.mapM (fun v => do
    let arr ← v.getArr?
    let l ← arr.toList.mapM parseRat
    v3OfList l)

def getOptRat (j : Json) (k : String) : Except String (Option Rat) :=
  match j.getObjVal? k with
  | .error _ => pure none
  | .ok .null => pure none
  | .ok v => some <$> parseRat v

def v3ToJson (v : V3) : Json := ratsToJson [v.x, v.y, v.z]

/-- rows of the 3×4 matrix -/
def affToJson (a : Aff) : Json := Json.arr #[
  ratsToJson [a.c0.x, a.c1.x, a.c2.x, a.t.x],
  ratsToJson [a.c0.y, a.c1.y, a.c2.y, a.t.y],
  ratsToJson [a.c0.z, a.c1.z, a.c2.z, a.t.z]]

def getRequest (j : Json) : Except String Request := do
  pure { sliceStart := ← getOptInt j "slice_start", sliceEnd := ← getOptInt j "slice_end",
         rowStart := ← getOptInt j "row_start", rowEnd := ← getOptInt j "row_end",
         colStart := ← getOptInt j "column_start", colEnd := ← getOptInt j "column_end",
         asIdx := ← getBool j "as_indices" }

def volOutToJson (o : VolOut) : Json := Json.mkObj [
  ("affine", affToJson o.aff),
  ("shape", intsToJson [o.n, o.rows, o.cols]),
  ("frames", Json.arr (o.frames.map (fun (i, s) => Json.arr #[(i : Json), (s : Json)])).toArray),
  ("first", intsToJson [o.rowFirst, o.colFirst])]

def getKind (j : Json) : Except String Kind := do
  match j.getObjVal? "kind" with
  | .ok (.str "image") => pure .image
  | .ok (.str "seg") => pure .seg
  | _ => throw "kind image|seg expected"

def getStack (j : Json) : Except String Stack := do
  let iop ← getRatList j "iop"
  let ps ← getRatList j "ps"
  match iop, ps with
  | [a, b, c, d, e, f], [p, q] =>
    let chan ← match j.getObjVal? "chan" with
      | .ok (.arr _) => getNatList j "chan"
      | _ => pure []
    pure { rowCos := ⟨a, b, c⟩, colCos := ⟨d, e, f⟩, psRow := p, psCol := q, hint := ← getOptRat j "hint",
           pos := ← getV3List j "pos", chan := chan }
  | _, _ => throw "iop of 6 and ps of 2 expected"

def sortV3 (l : List V3) : List V3 :=
  (l.toArray.qsort (fun a b => a.x < b.x || (a.x == b.x && (a.y < b.y || (a.y == b.y && a.z < b.z))))).toList

/-- `present[si][k]`: segment number `described[si]` has a pixel in plane `k` (a label map is never asked) -/
def presentOf (described : List Nat) (rows : List (List Bool)) : Option Nat → Nat → Bool
  | none, _ => true
  | some s, k =>
    match described.zip rows |>.find? (fun p => p.1 == s) with
    | some (_, row) => match row[k]? with
      | some b => b
      | none => false
    | none => false

def getBoolRows (j : Json) (k : String) : Except String (List (List Bool)) := do
  let rowsJ ← getArr j k
  rowsJ.toList.mapM (fun v => do
    let arr ← v.getArr?
    arr.toList.mapM (fun x => match x with
      | .bool t => pure t
      | _ => throw "bool expected"))

def handlers : List (String × Handler) := [
  ("tileFrames", fun j => do
    let ios ← getRatList j "ios"
    let ps ← getRatList j "ps"
    match ios, ps with
    | [a, b, c, d, e, f], [p, q] =>
      let described ← getNatList j "described"
      let rows ← getBoolRows j "present"
      let fs := tileFrames (← getV3 j "origin") ⟨a, b, c⟩ ⟨d, e, f⟩ p q (← getNat j "rows") (← getNat j "cols")
        (← getNat j "tile_rows") (← getNat j "tile_cols") (← getBoolList j "flags") (← getBool j "omit")
        (segmentsIterable (← getBool j "labelmap") described) (presentOf described rows)
      pure (okJson (Json.arr (fs.map (fun fr => Json.mkObj [
        ("seg", match fr.seg with | some s => (s : Json) | none => Json.null),
        ("rc", intsToJson [fr.row, fr.col]),
        ("pos", v3ToJson fr.pos),
        ("div", intsToJson (match fr.seg with | some s => (s : Int) :: fr.div | none => fr.div))])).toArray))
    | _, _ => throw "ios of 6 and ps of 2 expected"),
  ("segFrames", fun j => do
    let iop ← getRatList j "iop"
    match iop with
    | [a, b, c, d, e, f] =>
      let pos ← getV3List j "pos"
      let described ← getNatList j "described"
      let rows ← getBoolRows j "present"
      let r := segFrames pos ⟨a, b, c⟩ ⟨d, e, f⟩ (← getBoolList j "flags") (← getBool j "omit")
        (segmentsIterable (← getBool j "labelmap") described) (presentOf described rows)
      pure (exceptToJson (fun (fs : List Frame) => Json.arr (fs.map (fun fr => Json.mkObj [
        ("seg", match fr.seg with | some s => (s : Json) | none => Json.null),
        ("plane", (fr.plane : Json)),
        ("div", intsToJson fr.indexValues),
        ("pos_plane", (fr.posPlane : Json)),
        ("pos", match pos[fr.posPlane]? with | some p => v3ToJson p | none => Json.null)])).toArray) r)
    | _ => throw "iop of 6 expected"),
  ("stdSliceIndices", fun j => do
    let r := stdSliceIndices (← getOptInt j "start") (← getOptInt j "end") (← getInt j "n") (← getBool j "as_indices")
    pure (exceptToJson (fun (p : Int × Int) => intsToJson [p.1, p.2]) r)),
  ("storeStack", fun j => do
    let d ← getV3List j "d"
    let s ← getRatList j "s"
    match d, s with
    | [d0, d1, d2], [s0, s1, s2] =>
      let g : Geom := ⟨d0, d1, d2, s0, s1, s2, ← getV3 j "p"⟩
      let ks ← match j.getObjVal? "flags" with
        | .ok _ => do pure (keptPlanes (← getBoolList j "flags") (← getBool j "omit"))
        | .error _ => getNatList j "ks"
      let st := storeStack g ks
      pure (okJson (Json.mkObj [
        ("pos", Json.arr ((sortV3 (dedup st.pos)).map v3ToJson).toArray),
        ("iop", ratsToJson [st.rowCos.x, st.rowCos.y, st.rowCos.z, st.colCos.x, st.colCos.y, st.colCos.z]),
        ("ps", ratsToJson [st.psRow, st.psCol]),
        ("sbs", match st.hint with | some h => ratToJson h | none => Json.null)]))
    | _, _ => throw "d of 3 vectors and s of 3 expected"),
  ("storeTiled", fun j => do
    let d ← getV3List j "d"
    let s ← getRatList j "s"
    match d, s with
    | [d0, d1, d2], [s0, s1, s2] =>
      let t := storeTiled ⟨d0, d1, d2, s0, s1, s2, ← getV3 j "p"⟩
      pure (okJson (Json.mkObj [
        ("origin", v3ToJson t.origin),
        ("ios", ratsToJson [t.rowCos.x, t.rowCos.y, t.rowCos.z, t.colCos.x, t.colCos.y, t.colCos.z]),
        ("ps", ratsToJson [t.psRow, t.psCol]),
        ("sbs", match t.sbs with | some h => ratToJson h | none => Json.null)]))
    | _, _ => throw "d of 3 vectors and s of 3 expected"),
  ("volumeGeometrySingle", fun j => do
    let iop ← getRatList j "iop"
    let ps ← getRatList j "ps"
    match iop, ps with
    | [a, b, c, d, e, f], [p, q] =>
      let r := volumeGeometrySingle (← getV3 j "pos") ⟨a, b, c⟩ ⟨d, e, f⟩ p q (← getOptRat j "hint")
      pure (exceptToJson affToJson r)
    | _, _ => throw "iop of 6 and ps of 2 expected"),
  ("volumePositions", fun j => do
    let iop ← getRatList j "iop"
    match iop with
    | [a, b, c, d, e, f] =>
      let r := volumePositions (← getV3List j "pos") ⟨a, b, c⟩ ⟨d, e, f⟩ (← getOptRat j "hint") (← getBool j "allow_missing")
        (← getBool j "allow_dup")
      pure (exceptToJson (fun (o : Option (Rat × List Int)) => match o with
        | none => Json.null
        | some (sp, vps) => Json.mkObj [("spacing", ratToJson sp), ("positions", intsToJson vps)]) r)
    | _ => throw "iop of 6 expected"),
  ("recordedTiledOrigin", fun j => do
    let r := recordedTiledOrigin (← getV3 j "user") (← getV3 j "src") (← getBool j "same_orientation")
      (← getBool j "same_spacing") (← getBool j "same_tiles")
    pure (exceptToJson v3ToJson r)),
  ("storeAligned", fun j => do
    let iop ← getRatList j "iop"
    let ps ← getRatList j "ps"
    match iop, ps with
    | [a, b, c, d, e, f], [p, q] =>
      let r := storeAligned ⟨a, b, c⟩ ⟨d, e, f⟩ p q (← getOptRat j "src_hint") (← getV3List j "all_pos") (← getNatList j "kept")
      pure (exceptToJson (fun (st : Stack) => Json.mkObj [
        ("pos", Json.arr ((sortV3 (dedup st.pos)).map v3ToJson).toArray),
        ("iop", ratsToJson [st.rowCos.x, st.rowCos.y, st.rowCos.z, st.colCos.x, st.colCos.y, st.colCos.z]),
        ("ps", ratsToJson [st.psRow, st.psCol]),
        ("sbs", match st.hint with | some h => ratToJson h | none => Json.null)]) r)
    | _, _ => throw "iop of 6 and ps of 2 expected"),
  ("getVolumeStack", fun j => do
    let st ← getStack j
    let r := getVolumeStack (← getKind j) st (← getInt j "rows") (← getInt j "cols") (← getBool j "allow_missing") (← getRequest j)
    pure (exceptToJson volOutToJson r)),
  ("tiledVolume", fun j => do
    let ios ← getRatList j "ios"
    let ps ← getRatList j "ps"
    match ios, ps with
    | [a, b, c, d, e, f], [p, q] =>
      let r := tiledVolume (← getKind j) (← getV3 j "origin") ⟨a, b, c⟩ ⟨d, e, f⟩ p q (← getOptRat j "sbs")
        (← getInt j "rows") (← getInt j "cols") (← getRequest j)
      pure (exceptToJson volOutToJson r)
    | _, _ => throw "ios of 6 and ps of 2 expected"),
  ("pyramidSpacing", fun j => do
    let ps ← getRatList j "ps"
    let s0 ← getIntList j "shape0"
    let s ← getIntList j "shape"
    match ps, s0, s with
    | [p, q], [a0, a1, a2], [b0, b1, b2] =>
      let r := pyramidSpacing p q (← getInt j "ndim0") a0 a1 a2 (← getInt j "ndim") b0 b1 b2
      pure (exceptToJson (fun (x : Rat × Rat) => ratsToJson [x.1, x.2]) r)
    | _, _, _ => throw "ps of 2, shape0 and shape of 3 expected"),
  ("pyramidLevelSize", fun j => do
    let r := pyramidLevelSize (← getRat j "f") (← getInt j "cols") (← getInt j "rows")
    pure (exceptToJson (fun (x : Int × Int) => intsToJson [x.1, x.2]) r))
]

def main : IO Unit := run handlers
