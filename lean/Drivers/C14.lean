import HdVerif.Model.Json
import HdVerif.Model.SRContentSeq
import HdVerif.Model.SRSeqPool
open Lean HdVerif HdVerif.Drv HdVerif.SRContentSeq HdVerif.SRSeqPool

/-- item = `[name, rel | null, isContainer, hasContent, uid, obj]` (obj = identity of the Python object) -/
def itemOfJson (v : Json) : Except String Item := do
  let a ← v.getArr?
  if a.size ≠ 6 then throw "item: 6 fields expected"
  let rel ← match a[1]! with
    | .null => pure none
    | r => some <$> r.getNat?
  pure { name := ← a[0]!.getNat?, rel := rel, isContainer := ← a[2]!.getBool?, hasContent := ← a[3]!.getBool?,
         uid := ← a[4]!.getNat?, obj := ← a[5]!.getNat? }

def itemsOfJson (v : Json) : Except String (List Item) := do
  let a ← v.getArr?
  a.toList.mapM itemOfJson

def optIntOfJson : Json → Except String (Option Int)
  | .null => pure none
  | v => some <$> v.getInt?

def sliceOfJson (v : Json) : Except String (Option Int × Option Int × Option Int) := do
  let a ← v.getArr?
  if a.size ≠ 3 then throw "slice: 3 fields expected"
  pure (← optIntOfJson a[0]!, ← optIntOfJson a[1]!, ← optIntOfJson a[2]!)

/-- returns the operation and the items it mentions (they become probes) -/
def opOfJson (j : Json) : Except String (Op × List Item) := do
  let o ← getStr j "op"
  match o with
  | "append" => let x ← itemOfJson (← j.getObjVal? "x"); pure (.append x, [x])
  | "extend_self" => pure (.extendSelf, [])
  | "extend" => let xs ← itemsOfJson (← j.getObjVal? "xs"); pure (.extend xs, xs)
  | "iadd" => let xs ← itemsOfJson (← j.getObjVal? "xs"); pure (.iadd xs, xs)
  | "insert" =>
    let x ← itemOfJson (← j.getObjVal? "x")
    match getInt j "pos" with
    | .ok p => pure (.insert p x, [x])
    | .error _ => pure (.insertBad x, [x])      -- a position that is not an int
  | "setitem" => let x ← itemOfJson (← j.getObjVal? "x"); pure (.setItem (← getInt j "i") x, [x])
  | "setslice" =>
    let xs ← itemsOfJson (← j.getObjVal? "xs")
    let (a, b, c) ← sliceOfJson (← j.getObjVal? "s")
    pure (.setSlice a b c xs, xs)
  | "delitem" => pure (.delItem (← getInt j "i"), [])
  | "delslice" => let (a, b, c) ← sliceOfJson (← j.getObjVal? "s"); pure (.delSlice a b c, [])
  | "pop" => pure (.pop (← optIntOfJson (j.getObjValD "i")), [])
  | "remove" => let x ← itemOfJson (← j.getObjVal? "x"); pure (.remove x, [x])
  | "reverse" => pure (.reverse, [])
  | "clear" => pure (.clear, [])
  | "into_find" => pure (.intoFind (← getNat j "n"), [])
  | "into_nodes" => pure (.intoNodes, [])
  -- an argument that is not a content item (a plain Dataset); `xs` = the content items offered before it
  | "append_other" => pure (.appendOther, [])
  | "extend_other" => let xs ← itemsOfJson (← j.getObjVal? "xs"); pure (.extendOther xs, xs)
  | "insert_other" => pure (.insertOther, [])
  | "setitem_other" => pure (.setOther [], [])
  | "setslice_other" => let xs ← itemsOfJson (← j.getObjVal? "xs"); pure (.setOther xs, xs)
  | _ => throw s!"unknown op {o}"

def uidsJson (l : List Item) : Json := natsToJson (l.map (·.obj))

def errJson : Option ErrKind → Json
  | none => Json.null
  | some e => Json.str e.toString

def observe (s : Seq) (names : Nat) (probes : List Item) : Json :=
  let finds := (List.range names).map fun n =>
    match find s n with
    | .ok r => uidsJson r.items
    | .error e => Json.str ("err:" ++ e.toString)
  let idx := probes.map fun x =>
    match index s x with
    | .ok k => (k : Json)
    | .error e => Json.str ("err:" ++ e.toString)
  let ins := probes.map fun x => Json.bool (contains s x)
  let nodes := match getNodes s with
    | .ok r => uidsJson r.items
    | .error e => Json.str ("err:" ++ e.toString)
  Json.mkObj [("list", uidsJson s.items), ("find", Json.arr finds.toArray), ("index", Json.arr idx.toArray),
              ("in", Json.arr ins.toArray), ("nodes", nodes), ("flags", Json.arr #[Json.bool s.isRoot, Json.bool s.isSr])]

def addProbes (probes : List Item) (xs : List Item) : List Item :=
  xs.foldl (fun acc x => if acc.any (·.obj == x.obj) then acc else acc ++ [x]) probes

/-- pool-level operation: "clone" / "attach" / anything else on member "seq" (default 0) -/
def poolOpOfJson (j : Json) : Except String (APoolOp × List Item) := do
  let o ← getStr j "op"
  let i := match j.getObjVal? "seq" with
    | .ok v => (v.getNat?.toOption).getD 0
    | .error _ => 0
  match o with
  | "clone" => pure (.base (.clone i), [])
  | "attach" => pure (.base (.attach i), [])
  | "copy" => pure (.copy i, [])               -- copy.copy
  | "deepcopy" => pure (.deepcopy i, [])       -- copy.deepcopy
  | "pickle" => pure (.deepcopy i, [])         -- pickle.loads(pickle.dumps(..))
  | _ => do
    let (op, items) ← opOfJson j
    pure (.base (.on i op), items)

def observePool (pool : List Seq) (names : Nat) (probes : List Item) : Json :=
  Json.arr (pool.map (fun s => observe s names probes)).toArray

def history (j : Json) : Except String Json := do
  let root ← getBool j "root"
  let sr ← getBool j "sr"
  let via ← getStr j "via"
  let init ← itemsOfJson (← j.getObjVal? "init")
  let names ← getNat j "names"
  let probe ← itemOfJson (← j.getObjVal? "probe")
  let ops ← (← getArr j "ops").toList.mapM poolOpOfJson
  let probes := addProbes [probe] init
  let initOther := match j.getObjVal? "init_other" with
    | .ok (.bool b) => b
    | _ => false
  let c := if initOther then constructOther
           else if via == "from_sequence" then fromSequence init root sr
           else if via == "setattr" then construct init false true
           else construct init root sr
  match c with
  | .error e => pure (okJson (Json.arr #[Json.mkObj [("err", Json.str e.toString), ("obs", Json.null)]]))
  | .ok s0 =>
    let first := Json.mkObj [("err", Json.null), ("obs", observePool [s0] names probes)]
    let (_, _, out) := ops.foldl (fun (acc : APool × List Item × Array Json) (opx : APoolOp × List Item) =>
      let (pool, pr, out) := acc
      let pr' := addProbes pr opx.2
      let (pool', e) := apoolStep pool opx.1
      (pool', pr', out.push (Json.mkObj [("err", errJson e), ("obs", observePool (view pool') names pr')]))) (start s0, probes, #[first])
    pure (okJson (Json.arr out))

/-- slice resolution alone: positions in slice order, for the exhaustive comparison with CPython -/
def slicePositions (j : Json) : Except String Json := do
  let n ← getNat j "n"
  let (a, b, c) ← sliceOfJson (← j.getObjVal? "s")
  pure (exceptToJson (fun (sel : Sel) => natsToJson sel.positions) (resolveSlice n a b c))

def handlers : List (String × Handler) := [("history", history), ("slicePositions", slicePositions)]

def main : IO Unit := run handlers
