import HdVerif.Model.Json
import HdVerif.Model.SREvidence
import HdVerif.Model.SRDocument
import HdVerif.Model.SRTree
open Lean HdVerif HdVerif.Drv HdVerif.SREvidence

def optStr (j : Json) (k : String) : Except String (Option String) :=
  match j.getObjVal? k with
  | .error _ => pure none
  | .ok .null => pure none
  | .ok v => some <$> v.getStr?

def optIntList (j : Json) (k : String) : Except String (Option (List Int)) :=
  match j.getObjVal? k with
  | .error _ => pure none
  | .ok .null => pure none
  | .ok v => do let a ← v.getArr?; some <$> a.toList.mapM (·.getInt?)

def parseRef (v : Json) : Except String Ref := do
  let a ← v.getArr?
  match a.toList with
  | [c, i] => pure ⟨← c.getStr?, ← i.getStr?⟩
  | _ => throw "ref must be [cls, inst]"

def optRef (j : Json) (k : String) : Except String (Option Ref) :=
  match j.getObjVal? k with
  | .error _ => pure none
  | .ok .null => pure none
  | .ok v => some <$> parseRef v

partial def parseItem (j : Json) : Except String Item := do
  let ch ← (← getArr j "children").toList.mapM parseItem
  pure (.mk (← getNat j "id") (← getStr j "vt") (← getStr j "name") (← optStr j "rel") (← optRef j "ref")
    (← getBool j "has_seq") ch)

def optStrList (j : Json) (k : String) : Except String (Option (List String)) :=
  match j.getObjVal? k with
  | .error _ => pure none
  | .ok .null => pure none
  | .ok v => do let a ← v.getArr?; some <$> a.toList.mapM (·.getStr?)

def optStrToJson : Option String → Json
  | none => Json.null
  | some s => Json.str s

def parseEvd (j : Json) : Except String Evd := do
  pure ⟨← getStr j "study", ← getStr j "series", ← getStr j "inst", ← getStr j "cls"⟩

def parseEvdList (j : Json) (k : String) : Except String (List Evd) := do
  (← getArr j k).toList.mapM parseEvd

def groupsToJson (g : Groups) : Json :=
  Json.arr (g.map (fun st => Json.arr #[Json.str st.1,
    Json.arr (st.2.map (fun se => Json.arr #[Json.str se.1,
      Json.arr (se.2.map (fun r => Json.arr #[Json.str r.cls, Json.str r.inst])).toArray])).toArray])).toArray

def rowsToJson (l : List Row) : Json :=
  Json.arr (l.map (fun r => Json.arr #[Json.str r.study, Json.str r.series, Json.str r.inst, Json.str r.cls])).toArray

def parseClass (s : String) : Except String DocClass :=
  match s with
  | "EnhancedSR" => pure .enhanced
  | "ComprehensiveSR" => pure .comprehensive
  | "Comprehensive3DSR" => pure .comprehensive3d
  | _ => throw s!"unknown class {s}"

def optIntsToJson : Option (List Int) → Json
  | none => Json.null
  | some l => intsToJson l

def srcToJson (s : SrcImg) : Json := Json.arr #[Json.str s.cls, Json.str s.inst, optIntsToJson s.frames]

def parseSeg (j : Json) : Except String Seg := do
  let frames ← (← getArr j "frames").toList.mapM (fun f => do
    let drv ← match f.getObjVal? "drv" with
      | .error _ => pure none
      | .ok .null => pure none
      | .ok v => do
        let a ← v.getArr?
        some <$> a.toList.mapM (fun d => match d with
          | .null => pure none
          | d => do
            let l ← d.getArr?
            some <$> l.toList.mapM (fun x => do pure (SrcImg.mk (← getStr x "cls") (← getStr x "inst") (← optIntList x "frames"))))
    pure (FrameInfo.mk (← getInt f "segment") drv))
  let refser ← getStr j "refser"
  let refInst ← match j.getObjVal? "ref_instances" with
    | .error _ => pure none
    | .ok .null => pure none
    | .ok v => do let a ← v.getArr?; some <$> a.toList.mapM parseRef
  let series ← getStr j "series"
  let isSeg ← getBool j "is_seg"
  let cls ← getStr j "cls"
  let inst ← getStr j "inst"
  let tiled ← getBool j "tiled"
  pure { isSeg := isSeg, cls := cls, inst := inst, tiled := tiled,
         frames := frames, refSeries := if refser == "absent" then none else some series,
         refInstances := refInst }

partial def parseNode (j : Json) : Except String SRTree.Node := do
  let attrs ← (← getArr j "attrs").toList.mapM (fun kv => do
    let a ← kv.getArr?
    match a.toList with
    | [k, v] => pure (← k.getStr?, ← v.getStr?)
    | _ => throw "attribute must be [keyword, value]")
  let ch ← (← getArr j "children").toList.mapM parseNode
  pure (.mk attrs (← getBool j "has_seq") ch)

/-- document order list of (attributes as [keyword, value]) of a tree: what the harness compares with the real `.content` -/
partial def flatNode (t : SRTree.Node) : List Json :=
  Json.arr (t.attrs.map (fun kv => Json.arr #[Json.str kv.1, Json.str kv.2])).toArray ::
    (if t.hasSeq then t.children.flatMap flatNode else [])

def handlers : List (String × Handler) := [
  ("convertTree", fun j => do
    let t ← parseNode (← j.getObjVal? "tree")
    let own ← (← getArr j "own").toList.mapM (fun kv => do
      let a ← kv.getArr?
      match a.toList with
      | [k, v] => pure (← k.getStr?, ← v.getStr?)
      | _ => throw "attribute must be [keyword, value]")
    pure (exceptToJson (fun (t' : SRTree.Node) => Json.mkObj [
      ("items", Json.arr (flatNode t').toArray),
      ("parsed", exceptToJson (fun (p : SRTree.Node) => Json.mkObj [
          ("items", Json.arr (flatNode p).toArray)]) (SRTree.parseDocT (fun act v => "CHANGED(" ++ act ++ ")" ++ v) (SRTree.writeDoc own t')))])
      (SRTree.convertRootT (fun act v => "CHANGED(" ++ act ++ ")" ++ v) t))),
  ("find", fun j => do
    let tree ← parseItem (← j.getObjVal? "tree")
    let qn ← optStr j "name"
    let qv ← optStr j "vt"
    let qr ← optStr j "rel"
    let q : Query := { name := qn, vt := qv, rel := qr }
    let r := findContentItems tree q (← getBool j "recursive")
    pure (exceptToJson (fun (l : List Item) => natsToJson (l.map Item.id)) r)),
  ("buildSR", fun j => do
    let tree ← parseItem (← j.getObjVal? "tree")
    let prev ← match j.getObjVal? "previous" with
      | .error _ => pure none
      | .ok .null => pure none
      | .ok _ => some <$> parseEvdList j "previous"
    let cls ← parseClass (← getStr j "cls")
    let evidence ← parseEvdList j "evidence"
    let nRoots ← getNat j "n_roots"
    let record ← getBool j "record"
    let verified ← getBool j "verified"
    let obs ← getBool j "observer"
    let org ← getBool j "organization"
    let a : DocArgs := DocArgs.mk cls evidence nRoots tree record verified obs org prev
    pure (exceptToJson (fun (d : Doc) => Json.mkObj [
      ("current", groupsToJson d.current), ("other", groupsToJson d.other),
      ("has_current", Json.bool (!d.current.isEmpty)), ("has_other", Json.bool (!d.other.isEmpty)),
      ("predecessors", match d.predecessors with | none => Json.null | some g => groupsToJson g),
      ("get_evidence", rowsToJson (getEvidence d false)),
      ("get_evidence_current", rowsToJson (getEvidence d true)),
      ("get_evidence_series", Json.arr ((getEvidenceSeries d false).map (fun k => Json.arr #[Json.str k.1, Json.str k.2])).toArray),
      ("verification", Json.str (if d.verifiedFlag then "VERIFIED" else "UNVERIFIED")),
      ("content_ids", natsToJson ((subtree d.content).map Item.id))]) (buildSR a))),
  ("constructSR", fun j => do
    let tree ← parseItem (← j.getObjVal? "tree")
    let prev ← match j.getObjVal? "previous" with
      | .error _ => pure none
      | .ok .null => pure none
      | .ok _ => some <$> parseEvdList j "previous"
    let cls ← parseClass (← getStr j "cls")
    let evidence ← parseEvdList j "evidence"
    let nRoots ← getNat j "n_roots"
    let record ← getBool j "record"
    let verified ← getBool j "verified"
    let oj ← j.getObjVal? "options"
    let o : SREvidence.Options := {
      isComplete := ← getBool oj "is_complete", isFinal := ← getBool oj "is_final",
      observer := ← optStr oj "observer", organization := ← optStr oj "organization",
      institution := ← optStr oj "institution", department := ← optStr oj "department",
      procedureCodes := ← optStrList oj "procedure_codes", requested := ← optStrList oj "requested",
      transferSyntax := ← getStr oj "transfer_syntax" }
    -- hasObserver / hasOrganization of the core arguments are overridden by `Options.core`
    let a : DocArgs := DocArgs.mk cls evidence nRoots tree record verified false false prev
    pure (exceptToJson (fun (D : DocDs) => let d := D.doc; Json.mkObj [
      ("current", groupsToJson d.current), ("other", groupsToJson d.other),
      ("has_current", Json.bool (!d.current.isEmpty)), ("has_other", Json.bool (!d.other.isEmpty)),
      ("predecessors", match d.predecessors with | none => Json.null | some g => groupsToJson g),
      ("get_evidence", rowsToJson (getEvidence d false)),
      ("get_evidence_current", rowsToJson (getEvidence d true)),
      ("get_evidence_series", Json.arr ((getEvidenceSeries d false).map (fun k => Json.arr #[Json.str k.1, Json.str k.2])).toArray),
      ("verification", Json.str D.verification), ("completion", Json.str D.completion), ("preliminary", Json.str D.preliminary),
      ("observers", Json.arr (D.observers.map (fun x => Json.arr #[Json.str x.name, Json.str x.organization])).toArray),
      ("institution", optStrToJson D.institution), ("department", optStrToJson D.department),
      ("procedure_codes", Json.arr (D.procedureCodes.map Json.str).toArray),
      ("requested", match D.requested with | none => Json.null | some l => Json.arr (l.map Json.str).toArray),
      ("content_ids", natsToJson ((subtree d.content).map Item.id))]) (constructSR o a))),
  ("parseRoot", fun j => do
    let present ← (← getArr j "present").toList.mapM (·.getStr?)
    pure (exceptToJson (fun (l : List String) => Json.arr (l.map Json.str).toArray) (parseRoot (writeRoot present)))),
  ("buildKO", fun j => do
    let refs ← (← getArr j "refs").toList.mapM parseRef
    let r := buildKO refs (← getBool j "has_description") (← parseEvdList j "evidence")
    pure (exceptToJson (fun (d : KODoc) => Json.mkObj [
      ("current", groupsToJson d.current),
      ("resolved", Json.arr (d.lut.map (fun (u, (a, b, c)) =>
        Json.arr #[Json.str u, Json.arr #[Json.str a, Json.str b, Json.str c]])).toArray)]) r)),
  ("refSegFrame", fun j => do
    let s ← parseSeg (← j.getObjVal? "seg")
    let r := refSegFrame s (← optIntList j "frames") (← getOptInt j "segment")
    pure (exceptToJson (fun (x : SegFrameRef) => Json.mkObj [
      ("cls", Json.str x.cls), ("inst", Json.str x.inst), ("frames", intsToJson x.frames),
      ("segments", intsToJson [x.segment]), ("sources", Json.arr #[srcToJson x.source]), ("series", Json.null)]) r)),
  ("refSegment", fun j => do
    let s ← parseSeg (← j.getObjVal? "seg")
    let r := refSegment s (← getInt j "segment") (← optIntList j "frames")
    pure (exceptToJson (fun (x : SegmentRef) => Json.mkObj [
      ("cls", Json.str x.cls), ("inst", Json.str x.inst), ("frames", optIntsToJson x.frames),
      ("segments", intsToJson [x.segment]), ("sources", Json.arr (x.sources.map srcToJson).toArray),
      ("series", match x.series with | none => Json.null | some s => Json.str s)]) r))
]

def main : IO Unit := run handlers
