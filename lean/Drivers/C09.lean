import HdVerif.Model.Json
import HdVerif.Model.Match
open Lean HdVerif HdVerif.Drv HdVerif.Gen HdVerif.Match

/-! JSON-lines driver for the C09 model.  Geometry objects:
`{"dir": [[x,y,z],[x,y,z],[x,y,z]], "spacing": [..3], "pos": [..3], "shape": [..3], "cs": str, "for": str|null}`
(rationals as "p/q" strings); arrays travel flat in C order. -/

instance : Inhabited V3 := ⟨⟨0, 0, 0⟩⟩

def getV3 (v : Json) : Except String V3 := do
  let a ← v.getArr?
  if a.size != 3 then throw "vector of 3 expected"
  pure ⟨← parseRat a[0]!, ← parseRat a[1]!, ← parseRat a[2]!⟩

def getV3Field (j : Json) (k : String) : Except String V3 := do getV3 (← j.getObjVal? k)

def tri {α : Type} (l : List α) : Except String (Ax → α) :=
  match l with
  | [a, b, c] => pure (mk3 a b c)
  | _ => throw "triple expected"

def getGeom (j : Json) : Except String Geom := do
  let d ← getArr j "dir"
  let dirs ← d.toList.mapM getV3
  let dir ← tri dirs
  let spacing ← tri (← getRatList j "spacing")
  let pos ← getV3Field j "pos"
  let shape ← tri (← getIntList j "shape")
  let cs ← getStr j "cs"
  let fr : Option String := match j.getObjVal? "for" with
    | .ok (.str s) => some s
    | _ => none
  pure { dir := dir, spacing := spacing, pos := pos, shape := shape, cs := cs, frameOfRef := fr }

def v3Json (v : V3) : Json := ratsToJson [v.x, v.y, v.z]

def geomAffineJson (g : Geom) : Json :=
  ratsToJson [(g.col 0).x, (g.col 0).y, (g.col 0).z, (g.col 1).x, (g.col 1).y, (g.col 1).z,
              (g.col 2).x, (g.col 2).y, (g.col 2).z, g.pos.x, g.pos.y, g.pos.z]

/-- voxel function of a flat C-order array (driver plumbing: indices outside give 0) -/
def voxOf (arr : Array Int) (shape : Ax → Int) : (Ax → Int) → Int := fun k =>
  let i := (k 0 * shape 1 + k 1) * shape 2 + k 2
  if inShape shape k then arr.getD i.toNat 0 else 0

def flatten (shape : Ax → Int) (vox : (Ax → Int) → Int) : List Int := Id.run do
  let mut out : Array Int := #[]
  for i in [0:(shape 0).toNat] do
    for j in [0:(shape 1).toNat] do
      for k in [0:(shape 2).toNat] do
        out := out.push (vox (mk3 (i : Int) (j : Int) (k : Int)))
  pure out.toList

def getAff (j : Json) (k : String) : Except String Aff := do
  let l ← getRatList j k
  match l with
  | [a, b, c, d, e, f, g, h, i, x, y, z] => pure ⟨⟨a, b, c⟩, ⟨d, e, f⟩, ⟨g, h, i⟩, ⟨x, y, z⟩⟩
  | _ => throw "12 numbers expected (three columns, translation)"

def getPts (j : Json) (k : String) : Except String (List V3) := do
  let a ← getArr j k
  a.toList.mapM getV3

def ptsJson (l : List V3) : Json := Json.arr (l.map v3Json).toArray

def getOptRat (j : Json) (k : String) : Except String (Option Rat) :=
  match j.getObjVal? k with
  | .error _ => pure none
  | .ok .null => pure none
  | .ok v => some <$> parseRat v

def handlers : List (String × Handler) := [
  ("geometryEqual", fun j => do
    let g ← getGeom (← j.getObjVal? "a")
    let h ← getGeom (← j.getObjVal? "b")
    let tol ← getOptRat j "tol"
    pure (exceptToJson (fun (b : Bool) => Json.bool b) (geometryEqual g h tol))),
  ("matchGeometry", fun j => do
    let g ← getGeom (← j.getObjVal? "src")
    let t ← getGeom (← j.getObjVal? "tgt")
    let arr ← getIntList j "arr"
    let tol ← getRat j "tol"
    let c ← getInt j "c"
    let src : Vol Int := { geom := g, vox := voxOf arr.toArray g.shape }
    let r := matchGeometry src t tol c
    pure (exceptToJson (fun (v : Vol Int) => Json.mkObj [
      ("shape", intsToJson [v.geom.shape 0, v.geom.shape 1, v.geom.shape 2]),
      ("affine", geomAffineJson v.geom),
      ("arr", intsToJson (flatten v.geom.shape v.vox))]) r)),
  ("mgAlign", fun j => do
    let r := mgAlign (← getRat j "dot") (← getRat j "s") (← getRat j "t") (← getRat j "tol")
    pure (exceptToJson (fun (x : Bool × Int) => Json.arr #[Json.bool x.1, (x.2 : Json)]) r)),
  ("mgCropPad", fun j => do
    let r := mgCropPad (← getRat j "offset") (← getRat j "spacing") (← getInt j "step") (← getInt j "out_shape")
      (← getInt j "in_shape") (← getRat j "tol") (← getBool j "rc") (← getBool j "rp")
    pure (exceptToJson (fun (x : Int × Bool × Int × Int × Int × Int × Bool × Bool) =>
      Json.arr #[(x.1 : Json), Json.bool x.2.1, (x.2.2.1 : Json), (x.2.2.2.1 : Json), (x.2.2.2.2.1 : Json),
                 (x.2.2.2.2.2.1 : Json), Json.bool x.2.2.2.2.2.2.1, Json.bool x.2.2.2.2.2.2.2]) r)),
  ("getitemAxis", fun j => do
    let r := getitemAxis ⟨← getInt j "start", ← getOptInt j "stop", ← getInt j "step"⟩ (← getInt j "n")
    pure (exceptToJson (fun (x : Int × Int × Int) => intsToJson [x.1, x.2.1, x.2.2]) r)),
  ("v2v", fun j => do
    let r := v2v (← getAff j "from") (← getAff j "to") (← tri (← getIntList j "shape")) (← getBool j "round")
      (← getBool j "check") (← getPts j "pts")
    pure (exceptToJson ptsJson r)),
  ("refToIdx", fun j => do
    let r := refToIdx (← getAff j "aff") (← tri (← getIntList j "shape")) (← getBool j "round")
      (← getBool j "check") (← getPts j "pts")
    pure (exceptToJson ptsJson r)),
  ("roundHalfEven", fun j => do pure (okJson ((roundHalfEven (← getRat j "x") : Int) : Json)))
]

def main : IO Unit := run handlers
