import HdVerif.Model.Json
import HdVerif.Model.Match
open Lean HdVerif HdVerif.Drv HdVerif.Gen HdVerif.Match

/-! JSON-lines driver for the C09 model.  Geometry objects:
`{"dir": [[x,y,z],[x,y,z],[x,y,z]], "spacing": [..3], "pos": [..3], "shape": [..3], "cs": str, "for": str|null}`
(rationals as "p/q" strings); arrays travel flat in C order. -/

instance : Inhabited V3 := ⟨⟨0, 0, 0⟩⟩

def getV3 (v : Json) : Except String V3 := do
  let a ← v.getArr?
  if a.size != 3 then throw "vector of 3 expected"
  pure ⟨← parseRat a[0]!, ← parseRat a[1]!, ← parseRat a[2]!⟩

def getV3Field (j : Json) (k : String) : Except String V3 := do getV3 (← j.getObjVal? k)

def tri {α : Type} (l : List α) : Except String (Ax → α) :=
  match l with
  | [a, b, c] => pure (mk3 a b c)
  | _ => throw "triple expected"

def getGeom (j : Json) : Except String Geom := do
  let d ← getArr j "dir"
  let dirs ← d.toList.mapM getV3
  let dir ← tri dirs
  let spacing ← tri (← getRatList j "spacing")
  let pos ← getV3Field j "pos"
  let shape ← tri (← getIntList j "shape")
  let cs ← getStr j "cs"
  let fr : Option String := match j.getObjVal? "for" with
    | .ok (.str s) => some s
    | _ => none
  pure { dir := dir, spacing := spacing, pos := pos, shape := shape, cs := cs, frameOfRef := fr }

def v3Json (v : V3) : Json := ratsToJson [v.x, v.y, v.z]

def geomAffineJson (g : Geom) : Json :=
  ratsToJson [(g.col 0).x, (g.col 0).y, (g.col 0).z, (g.col 1).x, (g.col 1).y, (g.col 1).z,
              (g.col 2).x, (g.col 2).y, (g.col 2).z, g.pos.x, g.pos.y, g.pos.z]

/-- voxel function of a flat C-order array with `nch` channel values per voxel (channel index last);
driver plumbing: indices outside give zeros -/
def voxOf (arr : Array Int) (shape : Ax → Int) (nch : Nat) : (Ax → Int) → List Int := fun k =>
  let i := ((k 0 * shape 1 + k 1) * shape 2 + k 2).toNat * nch
  if inShape shape k then (List.range nch).map (fun c => arr.getD (i + c) 0) else List.replicate nch 0

def allVoxels {α : Type} (shape : Ax → Int) (vox : (Ax → Int) → α) : List α := Id.run do
  let mut out : Array α := #[]
  for i in [0:(shape 0).toNat] do
    for j in [0:(shape 1).toNat] do
      for k in [0:(shape 2).toNat] do
        out := out.push (vox (mk3 (i : Int) (j : Int) (k : Int)))
  pure out.toList

def flatten (shape : Ax → Int) (vox : (Ax → Int) → List Int) : List Int := (allVoxels shape vox).flatten

/-! numpy's statistics as used by `Volume.pad` (MINIMUM / MAXIMUM / MEAN / MEDIAN), followed by the cast of
the padding constant to the integer dtype of the array (truncation towards zero) -/
def statMin (xs : List Int) : Int := xs.foldl min (xs.headD 0)
def statMax (xs : List Int) : Int := xs.foldl max (xs.headD 0)
def statMean (xs : List Int) : Int := Int.tdiv xs.sum (xs.length : Int)
def insertSorted (x : Int) : List Int → List Int
  | [] => [x]
  | y :: ys => if x ≤ y then x :: y :: ys else y :: insertSorted x ys
def statMedian (xs : List Int) : Int :=
  let s := xs.foldr insertSorted []
  let n := s.length
  if n % 2 == 1 then s.getD (n / 2) 0 else Int.tdiv (s.getD (n / 2 - 1) 0 + s.getD (n / 2) 0) 2

/-- the statistic of a volume with `nch` channel values per voxel: over the whole array (the same value in
every channel) or channel by channel (`per_channel=True`) -/
def statFn (stat : List Int → Int) (nch : Nat) (perChannel : Bool) : Vol (List Int) → List Int := fun v =>
  let vs := allVoxels v.geom.shape v.vox
  if perChannel then (List.range nch).map (fun c => stat (vs.map (fun x => x.getD c 0)))
  else List.replicate nch (stat vs.flatten)

def getMode (j : Json) (nch : Nat) : Except String (PadMode (List Int)) := do
  let kind ← getStr j "mode"
  let pc := match j.getObjVal? "per_channel" with
    | .ok (.bool b) => b
    | _ => false
  match kind with
  | "CONSTANT" => pure (.constant (List.replicate nch (← getInt j "c")))
  | "EDGE" => pure .edge
  | "MINIMUM" => pure (.stat (statFn statMin nch pc))
  | "MAXIMUM" => pure (.stat (statFn statMax nch pc))
  | "MEAN" => pure (.stat (statFn statMean nch pc))
  | "MEDIAN" => pure (.stat (statFn statMedian nch pc))
  | _ => throw s!"unknown pad mode {kind}"

def getAff (j : Json) (k : String) : Except String Aff := do
  let l ← getRatList j k
  match l with
  | [a, b, c, d, e, f, g, h, i, x, y, z] => pure ⟨⟨a, b, c⟩, ⟨d, e, f⟩, ⟨g, h, i⟩, ⟨x, y, z⟩⟩
  | _ => throw "12 numbers expected (three columns, translation)"

def getPts (j : Json) (k : String) : Except String (List V3) := do
  let a ← getArr j k
  a.toList.mapM getV3

def ptsJson (l : List V3) : Json := Json.arr (l.map v3Json).toArray

def getOptRat (j : Json) (k : String) : Except String (Option Rat) :=
  match j.getObjVal? k with
  | .error _ => pure none
  | .ok .null => pure none
  | .ok v => some <$> parseRat v

/-- rounding of a rational to a binary floating type with `mant` significant bits (round half to even;
no subnormals / overflow: index magnitudes are moderate) -/
def narrowTo (mant : Nat) (x : Rat) : Rat :=
  if x = 0 then 0 else
  let a := if x < 0 then -x else x
  -- e with 2^e <= a < 2^(e+1)
  let e0 : Int := (Nat.log2 a.num.natAbs : Int) - (Nat.log2 a.den : Int)
  let pow2 (k : Int) : Rat := if k ≥ 0 then ((2 ^ k.toNat : Nat) : Rat) else 1 / ((2 ^ (-k).toNat : Nat) : Rat)
  let e := if pow2 e0 ≤ a then (if pow2 (e0 + 1) ≤ a then e0 + 1 else e0) else e0 - 1
  let q := pow2 (e - (mant : Int) + 1)
  ((roundHalfEven (x / q) : Int) : Rat) * q

/-- `{"kind": "i"|"u"|"f"|"b", "lo": int, "hi": int, "float": "f16"|"f32"|"f64"}` -/
def getDtype (j : Json) : Except String PtDtype := do
  match j.getObjVal? "dtype" with
  | .error _ => pure ⟨"f", 0, 0, id⟩
  | .ok d =>
    let kind ← getStr d "kind"
    let lo := (getInt d "lo").toOption.getD 0
    let hi := (getInt d "hi").toOption.getD 0
    let fl := (getStr d "float").toOption.getD "f64"
    let narrow : Rat → Rat := match fl with
      | "f32" => narrowTo 24
      | "f16" => narrowTo 11
      | _ => id
    pure ⟨kind, lo, hi, narrow⟩

def handlers : List (String × Handler) := [
  ("geometryEqual", fun j => do
    let g ← getGeom (← j.getObjVal? "a")
    let h ← getGeom (← j.getObjVal? "b")
    let tol ← getOptRat j "tol"
    let ca := (getInt j "ca").toOption.getD 0
    let cb := (getInt j "cb").toOption.getD 0
    pure (exceptToJson (fun (b : Bool) => Json.bool b) (geometryEqualC g h ca cb tol))),
  ("matchGeometry", fun j => do
    let g ← getGeom (← j.getObjVal? "src")
    let t ← getGeom (← j.getObjVal? "tgt")
    let arr ← getIntList j "arr"
    let tol ← getRat j "tol"
    let nch := match j.getObjVal? "nch" with
      | .ok v => (v.getNat?.toOption.getD 1)
      | .error _ => 1
    let mode ← getMode j nch
    let src : Vol (List Int) := { geom := g, vox := voxOf arr.toArray g.shape nch }
    let r := matchBySource src t tol mode     -- the order of operations regenerated from the source
    pure (exceptToJson (fun (v : Vol (List Int)) => Json.mkObj [
      ("shape", intsToJson [v.geom.shape 0, v.geom.shape 1, v.geom.shape 2]),
      ("affine", geomAffineJson v.geom),
      ("arr", intsToJson (flatten v.geom.shape v.vox))]) r)),
  ("mgAlign", fun j => do
    let r := mgAlign (← getRat j "dot") (← getRat j "s") (← getRat j "t") (← getRat j "tol")
    pure (exceptToJson (fun (x : Bool × Int) => Json.arr #[Json.bool x.1, (x.2 : Json)]) r)),
  ("mgCropPad", fun j => do
    let r := mgCropPad (← getRat j "offset") (← getRat j "spacing") (← getInt j "step") (← getInt j "out_shape")
      (← getInt j "in_shape") (← getRat j "tol") (← getBool j "rc") (← getBool j "rp")
    pure (exceptToJson (fun (x : Int × Bool × Int × Int × Int × Int × Bool × Bool) =>
      Json.arr #[(x.1 : Json), Json.bool x.2.1, (x.2.2.1 : Json), (x.2.2.2.1 : Json), (x.2.2.2.2.1 : Json),
                 (x.2.2.2.2.2.1 : Json), Json.bool x.2.2.2.2.2.2.1, Json.bool x.2.2.2.2.2.2.2]) r)),
  ("getitemAxis", fun j => do
    let r := getitemAxis ⟨← getInt j "start", ← getOptInt j "stop", ← getInt j "step"⟩ (← getInt j "n")
    pure (exceptToJson (fun (x : Int × Int × Int) => intsToJson [x.1, x.2.1, x.2.2]) r)),
  ("v2v", fun j => do
    let r := v2vBySource (← getAff j "from") (← getAff j "to") (← tri (← getIntList j "shape")) (← getDtype j) (← getBool j "round")
      (← getBool j "check") (← getPts j "pts")
    pure (exceptToJson ptsJson r)),
  ("refToIdx", fun j => do
    let r := refToIdxBySource (← getAff j "aff") (← tri (← getIntList j "shape")) (← getBool j "round")
      (← getBool j "check") (← getPts j "pts")
    pure (exceptToJson ptsJson r)),
  ("roundHalfEven", fun j => do pure (okJson ((roundHalfEven (← getRat j "x") : Int) : Json)))
]

def main : IO Unit := run handlers
