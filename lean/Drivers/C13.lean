import HdVerif.Model.Json
import HdVerif.Model.SRItems
import HdVerif.Model.SRItemsArgs
open Lean HdVerif HdVerif.Drv HdVerif.SRItems HdVerif.SRItemsArgs

/-! JSON forms
code  = [value, scheme, meaning, version|null]
aval  = {"s":str} | {"ss":[str]} | {"i":[int]} | {"r":[rat]} | {"code":code} | {"sop":[cls,inst,frames|null,segments|null,channels|null]}
        | {"meas":[num, fp|null, unit code]} | {"tpl":[res,id]}
ds    = {"attrs":[[keyword, aval]...], "content":[ds...]|null}
spec  = {"vt":…, "name":code, "rel":str|null, "args":{…}, "children":[spec…]} -/

def optStr : Json → Except String (Option String)
  | .null => pure none
  | v => some <$> v.getStr?

def codeOfJson (v : Json) : Except String Coded := do
  let a ← v.getArr?
  if a.size ≠ 4 then throw "code: 4 fields expected"
  pure { value := ← a[0]!.getStr?, scheme := ← a[1]!.getStr?, meaning := ← a[2]!.getStr?, version := ← optStr a[3]! }

def optJson (f : α → Json) : Option α → Json
  | none => Json.null
  | some x => f x

def codeToJson (c : Coded) : Json :=
  Json.arr #[Json.str c.value, Json.str c.scheme, Json.str c.meaning, optJson Json.str c.version]

def intListOfJson (v : Json) : Except String (List Int) := do
  let a ← v.getArr?
  a.toList.mapM (·.getInt?)

def optIntList : Json → Except String (Option (List Int))
  | .null => pure none
  | v => some <$> intListOfJson v

def ratListOfJson (v : Json) : Except String (List Rat) := do
  let a ← v.getArr?
  a.toList.mapM parseRat

def strListOfJson (v : Json) : Except String (List String) := do
  let a ← v.getArr?
  a.toList.mapM (·.getStr?)

def avalOfJson (j : Json) : Except String AVal := do
  match j.getObjVal? "s" with
  | .ok v => return .str (← v.getStr?)
  | .error _ => pure ()
  match j.getObjVal? "ss" with
  | .ok v => return .strs (← strListOfJson v)
  | .error _ => pure ()
  match j.getObjVal? "i" with
  | .ok v => return .ints (← intListOfJson v)
  | .error _ => pure ()
  match j.getObjVal? "r" with
  | .ok v => return .rats (← ratListOfJson v)
  | .error _ => pure ()
  match j.getObjVal? "code" with
  | .ok v => return .code (← codeOfJson v)
  | .error _ => pure ()
  match j.getObjVal? "sop" with
  | .ok v =>
    let a ← v.getArr?
    if a.size ≠ 5 then throw "sop: 5 fields expected"
    return .sop (← a[0]!.getStr?) (← a[1]!.getStr?) (← optIntList a[2]!) (← optIntList a[3]!) (← optIntList a[4]!)
  | .error _ => pure ()
  match j.getObjVal? "meas" with
  | .ok v =>
    let a ← v.getArr?
    if a.size ≠ 3 then throw "meas: 3 fields expected"
    let fp ← match a[1]! with
      | .null => pure none
      | x => some <$> parseRat x
    return .measured (← parseRat a[0]!) fp (← codeOfJson a[2]!)
  | .error _ => pure ()
  match j.getObjVal? "tpl" with
  | .ok v =>
    let a ← v.getArr?
    if a.size ≠ 2 then throw "tpl: 2 fields expected"
    return .template (← a[0]!.getStr?) (← a[1]!.getStr?)
  | .error _ => throw "unknown attribute value form"

def avalToJson : AVal → Json
  | .str s => Json.mkObj [("s", Json.str s)]
  | .strs l => Json.mkObj [("ss", Json.arr (l.map Json.str).toArray)]
  | .ints l => Json.mkObj [("i", intsToJson l)]
  | .rats l => Json.mkObj [("r", ratsToJson l)]
  | .code c => Json.mkObj [("code", codeToJson c)]
  | .sop c i f s ch => Json.mkObj [("sop", Json.arr #[Json.str c, Json.str i, optJson intsToJson f, optJson intsToJson s, optJson intsToJson ch])]
  | .measured n fp u => Json.mkObj [("meas", Json.arr #[ratToJson n, optJson ratToJson fp, codeToJson u])]
  | .template r i => Json.mkObj [("tpl", Json.arr #[Json.str r, Json.str i])]

def attrsOfJson (v : Json) : Except String Attrs := do
  let a ← v.getArr?
  a.toList.mapM fun p => do
    let q ← p.getArr?
    if q.size ≠ 2 then throw "attr: pair expected"
    pure (← q[0]!.getStr?, ← avalOfJson q[1]!)

def attrsToJson (a : Attrs) : Json :=
  Json.arr (a.map fun (k, v) => Json.arr #[Json.str k, avalToJson v]).toArray

partial def dsOfJson (j : Json) : Except String DS := do
  let attrs ← attrsOfJson (← j.getObjVal? "attrs")
  match j.getObjValD "content" with
  | .null => pure (.mk attrs none)
  | c =>
    let a ← c.getArr?
    pure (.mk attrs (some (← a.toList.mapM dsOfJson)))

partial def dsToJson : DS → Json
  | .mk attrs content =>
    Json.mkObj [("attrs", attrsToJson attrs),
                ("content", match content with
                  | none => Json.null
                  | some l => Json.arr (l.map dsToJson).toArray)]

def pairsToJson (l : List (Int × Int)) : Json :=
  Json.arr (l.map fun (a, b) => Json.arr #[(a : Json), (b : Json)]).toArray

def rowsToJson (l : List (List Rat)) : Json := Json.arr (l.map ratsToJson).toArray

/-- the accessor values of an item in the canonical shape the harness uses for the real accessors -/
def valueJson (it : Item) : Json :=
  match it.cls with
  | .code => optJson codeToJson (codeValue it)
  | .text => optJson Json.str (strValue "TextValue" it)
  | .pname => optJson Json.str (strValue "PersonName" it)
  | .uidref => optJson Json.str (strValue "UID" it)
  | .date => optJson Json.str (strValue "Date" it)
  | .time => optJson Json.str (strValue "Time" it)
  | .datetime => optJson Json.str (strValue "DateTime" it)
  | .num => Json.mkObj [("value", optJson ratToJson (numValue it)), ("unit", optJson codeToJson (numUnit it)),
                        ("qualifier", optJson codeToJson (numQualifier it))]
  | .container => Json.mkObj [("continuity", optJson Json.str (strValue "ContinuityOfContent" it)),
                              ("template", optJson Json.str (containerTemplate it))]
  | .composite => optJson (fun (p : String × String) => Json.arr #[Json.str p.1, Json.str p.2]) (refValue it)
  | .image => Json.mkObj [("ref", optJson (fun (p : String × String) => Json.arr #[Json.str p.1, Json.str p.2]) (refValue it)),
                          ("frames", optJson intsToJson (imageFrames it)), ("segments", optJson intsToJson (imageSegments it))]
  | .waveform => Json.mkObj [("ref", optJson (fun (p : String × String) => Json.arr #[Json.str p.1, Json.str p.2]) (refValue it)),
                             ("channels", optJson pairsToJson (waveformChannels it))]
  | .scoord =>
    let v := (scoordValue it).getD []
    Json.mkObj [("gt", optJson Json.str (strValue "GraphicType" it)), ("shape", natsToJson [v.length, 2]), ("pts", rowsToJson v),
                ("origin", optJson Json.str (strValue "PixelOriginInterpretation" it)),
                ("fiducial", optJson Json.str (strValue "FiducialUID" it))]
  | .scoord3d =>
    let v := (scoord3dValue it).getD []
    Json.mkObj [("gt", optJson Json.str (strValue "GraphicType" it)), ("shape", natsToJson [v.length, 3]), ("pts", rowsToJson v),
                ("frame_of_reference", optJson Json.str (strValue "ReferencedFrameOfReferenceUID" it)),
                ("fiducial", optJson Json.str (strValue "FiducialUID" it))]
  | .tcoord =>
    let r := ("range", optJson Json.str (strValue "TemporalRangeType" it))
    match tcoordValue it with
    | some (.positions l) => Json.mkObj [r, ("positions", intsToJson l)]
    | some (.offsets l) => Json.mkObj [r, ("offsets", ratsToJson l)]
    | some (.datetimes l) => Json.mkObj [r, ("datetimes", Json.arr (l.map Json.str).toArray)]
    | none => Json.mkObj [r]

partial def observeJson (it : Item) : Json :=
  Json.mkObj [("class", Json.str it.cls.pyName), ("name", optJson codeToJson (nameOf it)), ("rel", optJson Json.str (relOf it)),
              ("value", valueJson it),
              ("children", match it.content with
                | none => Json.arr #[]
                | some l => Json.arr (l.map observeJson).toArray)]

def getOptStr (j : Json) (k : String) : Except String (Option String) := optStr (j.getObjValD k)

def pointsOfJson (a : Json) : Except String Points := do
  let d ← getNat a "dim"
  let rows ← (← getArr a "pts").toList.mapM ratListOfJson
  let nd := match a.getObjVal? "ndim" with
    | .ok v => (v.getNat?.toOption).getD 2
    | .error _ => 2
  pure { d := d, rows := rows, ndim := nd }

/-- the float32 cast as a table `[[x, float32(x)], …]` supplied by the harness (identity elsewhere) -/
def flOfJson (a : Json) : Except String (Rat → Rat) := do
  match a.getObjVal? "fl" with
  | .error _ => pure id
  | .ok v =>
    let ps ← (← v.getArr?).toList.mapM fun p => do
      let q ← ratListOfJson p
      match q with
      | [x, y] => pure (x, y)
      | _ => throw "fl: pairs expected"
    pure (fun x => (ps.lookup x).getD x)

/-- a frame / segment number argument: null | {"scalar": n} | {"seq": [n…]} | [n…] (= seq) -/
def numsOfJson : Json → Except String (Option Nums)
  | .null => pure none
  | j => do
    match j.getObjVal? "scalar" with
    | .ok v => return some (.scalar (← v.getInt?))
    | .error _ => pure ()
    match j.getObjVal? "fractional" with
    | .ok v =>
      let a ← v.getArr?
      if a.size ≠ 2 then throw "fractional: [isSeq, n] expected"
      return some (.fractional (← a[0]!.getBool?) (← a[1]!.getNat?))
    | .error _ => pure ()
    match j.getObjVal? "seq" with
    | .ok v => return some (.seq (← intListOfJson v))
    | .error _ => return some (.seq (← intListOfJson j))

def optRatList : Json → Except String (Option (List Rat))
  | .null => pure none
  | v => some <$> ratListOfJson v

def optStrList : Json → Except String (Option (List String))
  | .null => pure none
  | v => some <$> strListOfJson v

def spellingOfJson (a : Json) : Except String NumSpelling := do
  match a.getObjVal? "spelling" with
  | .ok v =>
    match ← v.getStr? with
    | "pyInt" => pure .pyInt | "pyFloat" => pure .pyFloat | "pyBool" => pure .pyBool | "npFloat64" => pure .npFloat64
    | "npInt64" => pure .npInt64 | "npInt32" => pure .npInt32 | "npFloat32" => pure .npFloat32 | "decimal" => pure .decimal
    | "str" => pure .str
    | s => throw s!"unknown NUM spelling {s}"
  | .error _ => pure (if (← getBool a "float") then .pyFloat else .pyInt)

/-- spec → the model's constructor call; `Except String` = protocol error, inner = the constructor's verdict -/
partial def buildSpec (j : Json) : Except String (Except ErrKind Item) := do
  let vt ← getStr j "vt"
  let name ← codeOfJson (← j.getObjVal? "name")
  let rel ← getOptStr j "rel"
  let a := j.getObjValD "args"
  let r : Except ErrKind Item ← match vt with
    | "CODE" => pure (mkCode name (← codeOfJson (← a.getObjVal? "value")) rel)
    | "TEXT" => pure (mkText name (← getStr a "value") rel)
    | "PNAME" => pure (mkPname name (← getStr a "value") rel)
    | "DATE" => pure (mkDate name (← getStr a "value") rel)
    | "TIME" => pure (mkTime name (← getStr a "value") rel)
    | "DATETIME" => pure (mkDateTime name (← getStr a "value") rel)
    | "UIDREF" => pure (mkUidRef name (← getStr a "value") rel)
    | "NUM" =>
      let q ← match a.getObjValD "qualifier" with
        | .null => pure none
        | x => some <$> codeOfJson x
      pure (mkNumA id name (← getRat a "value") (← spellingOfJson a) (← codeOfJson (← a.getObjVal? "unit")) q rel)
    | "CONTAINER" =>
      let c ← match a.getObjValD "continuous" with
        | .null => pure none
        | v => some <$> v.getBool?
      pure (mkContainerA name c (← getOptStr a "template") rel)
    | "COMPOSITE" => pure (mkComposite name (← getStr a "cls") (← getStr a "inst") rel)
    | "IMAGE" => pure (mkImageA name (← getStr a "cls") (← getStr a "inst") (← numsOfJson (a.getObjValD "frames"))
                        (← numsOfJson (a.getObjValD "segments")) rel)
    | "WAVEFORM" =>
      let ch ← match a.getObjValD "channels" with
        | .null => pure none
        | x => do
          let l ← (← x.getArr?).toList.mapM intListOfJson
          pure (some l)
      let frac := (a.getObjValD "fractional").getBool?.toOption.getD false
      pure (mkWaveformAF name (← getStr a "cls") (← getStr a "inst") ch frac rel)
    | "SCOORD" => pure (mkScoord (← flOfJson a) name (← getStr a "gt") (← pointsOfJson a) (← getOptStr a "origin") (← getOptStr a "fiducial") rel)
    | "SCOORD3D" => pure (mkScoord3d (← flOfJson a) name (← getStr a "gt") (← pointsOfJson a) (← getStr a "frame_of_reference")
                          (← getOptStr a "fiducial") rel)
    | "TCOORD" =>
      match a.getObjVal? "kind" with
      | .ok k =>
        -- older cases (corpus): exactly one argument, named by "kind"
        let arg ← match k with
          | .null => pure none
          | k => do
            let ks ← k.getStr?
            let v ← a.getObjVal? "values"
            match ks with
            | "positions" => pure (some (TArg.positions (← intListOfJson v)))
            | "offsets" => pure (some (TArg.offsets (← ratListOfJson v)))
            | "datetimes" => pure (some (TArg.datetimes (← strListOfJson v)))
            | _ => throw "tcoord kind"
        match arg with
        | none => pure (mkTcoordA id name (← getStr a "range") none none none rel)
        | some (.positions l) => pure (mkTcoordA id name (← getStr a "range") (some l) none none rel)
        | some (.offsets l) => pure (mkTcoordA id name (← getStr a "range") none (some l) none rel)
        | some (.datetimes l) => pure (mkTcoordA id name (← getStr a "range") none none (some l) rel)
      | .error _ =>
        let frac := (a.getObjValD "fractional").getBool?.toOption.getD false
        pure (mkTcoordAF id name (← getStr a "range") (← optIntList (a.getObjValD "positions")) frac (← optRatList (a.getObjValD "offsets"))
                (← optStrList (a.getObjValD "datetimes")) rel)
    | _ => throw s!"unknown value type {vt}"
  match r with
  | .error e => pure (.error e)
  | .ok it =>
    let kids ← getArr j "children"
    if kids.isEmpty then pure (.ok it)
    else
      -- children are built first (Python evaluates the list before the attribute is assigned)
      let rs ← kids.toList.mapM buildSpec
      match rs.mapM id with
      | .error e => pure (.error e)
      | .ok cs => pure (setContent it cs)

def errStr (e : ErrKind) : Json := Json.str e.toString

def build (j : Json) : Except String Json := do
  match ← buildSpec j with
  | .error e => pure (Json.mkObj [("err", errStr e)])
  | .ok it =>
    let rt := match parse (serialise it) with
      | .ok back => Json.mkObj [("ok", observeJson back)]
      | .error e => Json.mkObj [("err", errStr e)]
    pure (okJson (Json.mkObj [("observe", observeJson it), ("ds", dsToJson (serialise it)), ("wf", Json.bool (wf it)),
                              ("parse", rt)]))

partial def classTree : Item → Json
  | .mk cls attrs content =>
    Json.mkObj [("class", Json.str cls.pyName), ("keys", Json.arr (attrs.map (fun p => Json.str p.1)).toArray),
                ("children", match content with
                  | none => Json.arr #[]
                  | some l => Json.arr (l.map classTree).toArray)]

/-- parse a plain data set: how = "sequence" (from_sequence with flags) or "class" (that class's from_dataset) -/
def parseReq (j : Json) : Except String Json := do
  let d ← dsOfJson (← j.getObjVal? "ds")
  let how ← getStr j "how"
  let r ← if how == "class" then do
      match Cls.ofPyName (← getStr j "cls") with
      | none => throw "unknown class"
      | some c => pure (parseAs c d)
    else if how == "derived" then pure (parse d)
    else pure (parseTop d (← getBool j "root") (← getBool j "sr"))
  pure (exceptToJson classTree r)

def coplanarReq (j : Json) : Except String Json := do
  let rows ← (← getArr j "pts").toList.mapM ratListOfJson
  pure (okJson (Json.bool (coplanar rows)))

def handlers : List (String × Handler) := [("build", build), ("parse", parseReq), ("coplanar", coplanarReq)]

def main : IO Unit := run handlers
